import RsddModel.Lemmas.SddTotal
import RsddModel.Props.C03
/-!
# C03, totality — the SDD builder terminates and does not fail

`Props/C03.lean` is partial correctness ("every *returned* SDD evaluates …"); the model's `none`
stands for "the recursion ran out of fuel" or "the Rust panics" (`low()` on a non-binary node in
`and_cartesian`, a non-literal prime in a right-linear `and_indep`, `unique_or` of an empty vector).
This file closes the gap:

* the fuel of `Sdd.and` bounds the recursion **depth**; the termination measure is the height of
  the smallest sub-vtree containing both operands, because every recursive call — the products of
  primes and of subs in `and_cartesian` / `and_sub_desc` / `and_prime_desc`, *and* the `or`s that
  `compress` issues on the primes it merges — is on pointers sitting in the left child or in the
  right child of the vtree node the call works at.  So `vt.height + 1` units of fuel suffice, with
  and without compression (`fuelBound`; the bound is attained: see the examples at the end);
* on operands satisfying the positional invariant `Pos` (primes in the left child, subs in the
  right child, no decision node at a right-linear vtree node) no panic case is reached;
* `Pos` (and C03's `WF`) is kept by every operation, so a program whose operand indices are in
  range and whose variables are leaves of the vtree (`Valid`) runs to completion from the fresh
  builder: `run_total`; with `run_refines`: total correctness, `run_total_correct`.

`WF` alone does not give totality (`wf_not_enough`): a `WF` decision node at a right-linear vtree
node makes `and_cartesian` call `low()` on it.  Such a pointer is never produced by the builder
(`run_total_correct` hands out only `Pos` pointers), so this is a statement about the invariant,
not a defect.

Also: the fuel is only a proof device — results are monotone in the fuel (`and_fuel_mono`,
`run_fuel_mono`), hence independent of it above the bound (`run_fuel_indep`), and `Valid` is
exactly the set of accepted programs (`run_isSome_iff`).

Property theorems only; the work is in `Lemmas/SddTotal.lean`.
-/
namespace Sdd
open Spec

/-- the invariant under which the single operations are total: C03's `WF` and the positional
`Pos` (`Lemmas/SddTotal.lean`) -/
abbrev WFT (vt : VTree) (p : Ptr) : Prop := TP vt p

/-- a program is valid for a vtree: every operand index points at an earlier result and every
variable introduced by `var` / substituted by `compose` is a leaf of the vtree -/
def Valid (vt : VTree) (ops : List Op) : Prop := validFrom vt 0 ops = true

instance (vt : VTree) (ops : List Op) : Decidable (Valid vt ops) := by
  unfold Valid; infer_instance

/-- fuel that suffices for every valid program over `vt`: recursion depth `≤ height + 1` -/
def fuelBound (vt : VTree) (_ops : List Op) : Nat := vt.height + 1

section
variable (A : CacheImpl (Ptr × Ptr)) (I : CacheImpl (Ptr × Ptr × Ptr)) (cfg : Config)

/-! ## the single operations -/

/-- **`and` terminates and does not fail**, local form: if both operands lie (by vtree index) in
an occurrence `s` of a sub-vtree, `s.height + 1` units of fuel suffice — for every lawful apply
cache satisfying the invariant, compression on and off.  The result is again well formed, the
cache invariant is kept, and the result is the conjunction. -/
theorem and_total_local (fuel : Nat) (s : VTree) (o : Nat) (hs : cfg.vt.At 0 s o)
    (hf : s.height + 1 ≤ fuel) {st : A.σ} {a b : Ptr} (hst : AppInvT A cfg.vt st)
    (wa : WFT cfg.vt a) (wb : WFT cfg.vt b) (ra : InR cfg.vt o (o + s.size) a)
    (rb : InR cfg.vt o (o + s.size) b) :
    ∃ st' r, and A cfg.vt cfg.compress fuel st a b = some (st', r) ∧ AppInvT A cfg.vt st' ∧
      WFT cfg.vt r ∧ InR cfg.vt o (o + s.size) r ∧
      ∀ asg, r.eval asg = (a.eval asg && b.eval asg) := by
  obtain ⟨st', r, h1, h2, h3, h4, h5⟩ :=
    and_T A cfg.vt cfg.compress fuel s o hs hf st a b hst wa wb ra rb
  exact ⟨st', r, h1, h2, h3, h4 s o hs ra rb, h5⟩

/-- **`and` is total** -/
theorem bAnd_total (fuel : Nat) (hf : cfg.vt.height + 1 ≤ fuel) {st : A.σ} {a b : Ptr}
    (hst : AppInvT A cfg.vt st) (wa : WFT cfg.vt a) (wb : WFT cfg.vt b) :
    (bAnd A cfg fuel st a b).isSome = true := by
  obtain ⟨st', r, h, _⟩ := bAnd_tot hf hst wa wb
  rw [h]; rfl

/-- `and`: total correctness -/
theorem and_total_correct (fuel : Nat) (hf : cfg.vt.height + 1 ≤ fuel) {st : A.σ} {a b : Ptr}
    (hst : AppInvT A cfg.vt st) (wa : WFT cfg.vt a) (wb : WFT cfg.vt b) :
    ∃ st' r, bAnd A cfg fuel st a b = some (st', r) ∧ AppInvT A cfg.vt st' ∧ WFT cfg.vt r ∧
      den r = fAnd (den a) (den b) := by
  obtain ⟨st', r, h1, h2, h3, h4⟩ := bAnd_tot hf hst wa wb
  exact ⟨st', r, h1, h2, h3, funext h4⟩

/-- **`or`** -/
theorem or_total_correct (fuel : Nat) (hf : cfg.vt.height + 1 ≤ fuel) {st : A.σ} {a b : Ptr}
    (hst : AppInvT A cfg.vt st) (wa : WFT cfg.vt a) (wb : WFT cfg.vt b) :
    ∃ st' r, bOr A cfg fuel st a b = some (st', r) ∧ AppInvT A cfg.vt st' ∧ WFT cfg.vt r ∧
      den r = fOr (den a) (den b) := by
  obtain ⟨st', r, h1, h2, h3, h4⟩ := bOr_tot hf hst wa wb
  exact ⟨st', r, h1, h2, h3, funext h4⟩

/-- **`condition`** -/
theorem condition_total_correct (fuel : Nat) (hf : cfg.vt.height + 1 ≤ fuel) {st : A.σ} {f : Ptr}
    (x : Nat) (v : Bool) (hst : AppInvT A cfg.vt st) (wf : WFT cfg.vt f) :
    ∃ st' r, bCond A cfg fuel st f x v = some (st', r) ∧ AppInvT A cfg.vt st' ∧ WFT cfg.vt r ∧
      den r = fCond (den f) x v := by
  obtain ⟨st', r, h1, h2, h3, h4⟩ := bCond_tot (x := x) (v := v) hf hst wf
  exact ⟨st', r, h1, h2, h3, funext h4⟩

/-- **`ite`** -/
theorem ite_total_correct (fuel : Nat) (hf : cfg.vt.height + 1 ≤ fuel) {s : A.σ × I.σ}
    {f g h : Ptr} (hA : AppInvT A cfg.vt s.1) (hI : IteInvT I cfg.vt s.2)
    (wf : WFT cfg.vt f) (wg : WFT cfg.vt g) (wh : WFT cfg.vt h) :
    ∃ s' r, bIte A I cfg fuel s f g h = some (s', r) ∧ AppInvT A cfg.vt s'.1 ∧
      IteInvT I cfg.vt s'.2 ∧ WFT cfg.vt r ∧ den r = fIte (den f) (den g) (den h) := by
  obtain ⟨s', r, h1, h2, h3, h4, h5⟩ := bIte_tot hf hA hI wf wg wh
  exact ⟨s', r, h1, h2, h3, h4, funext h5⟩

/-- **`iff`** -/
theorem iff_total_correct (fuel : Nat) (hf : cfg.vt.height + 1 ≤ fuel) {s : A.σ × I.σ}
    {f g : Ptr} (hA : AppInvT A cfg.vt s.1) (hI : IteInvT I cfg.vt s.2)
    (wf : WFT cfg.vt f) (wg : WFT cfg.vt g) :
    ∃ s' r, bIff A I cfg fuel s f g = some (s', r) ∧ AppInvT A cfg.vt s'.1 ∧
      IteInvT I cfg.vt s'.2 ∧ WFT cfg.vt r ∧ den r = fIff (den f) (den g) := by
  obtain ⟨s', r, h1, h2, h3, h4, h5⟩ := bIff_tot hf hA hI wf wg
  exact ⟨s', r, h1, h2, h3, h4, funext h5⟩

/-- **`xor`** -/
theorem xor_total_correct (fuel : Nat) (hf : cfg.vt.height + 1 ≤ fuel) {s : A.σ × I.σ}
    {f g : Ptr} (hA : AppInvT A cfg.vt s.1) (hI : IteInvT I cfg.vt s.2)
    (wf : WFT cfg.vt f) (wg : WFT cfg.vt g) :
    ∃ s' r, bXor A I cfg fuel s f g = some (s', r) ∧ AppInvT A cfg.vt s'.1 ∧
      IteInvT I cfg.vt s'.2 ∧ WFT cfg.vt r ∧ den r = fXor (den f) (den g) := by
  obtain ⟨s', r, h1, h2, h3, h4, h5⟩ := bXor_tot hf hA hI wf wg
  exact ⟨s', r, h1, h2, h3, h4, funext h5⟩

/-- **`exists`** -/
theorem exists_total_correct (fuel : Nat) (hf : cfg.vt.height + 1 ≤ fuel) {st : A.σ} {f : Ptr}
    (x : Nat) (hst : AppInvT A cfg.vt st) (wf : WFT cfg.vt f) :
    ∃ st' r, bExists A cfg fuel st f x = some (st', r) ∧ AppInvT A cfg.vt st' ∧ WFT cfg.vt r ∧
      den r = fExists (den f) x := by
  obtain ⟨st', r, h1, h2, h3, h4⟩ := bExists_tot (x := x) hf hst wf
  exact ⟨st', r, h1, h2, h3, funext h4⟩

/-- **`compose`** -/
theorem compose_total_correct (fuel : Nat) (hf : cfg.vt.height + 1 ≤ fuel) {s : A.σ × I.σ}
    {f g : Ptr} {x : Nat} (hA : AppInvT A cfg.vt s.1) (hI : IteInvT I cfg.vt s.2)
    (hx : cfg.vt.hasVar x = true) (wf : WFT cfg.vt f) (wg : WFT cfg.vt g) :
    ∃ s' r, bCompose A I cfg fuel s f x g = some (s', r) ∧ AppInvT A cfg.vt s'.1 ∧
      IteInvT I cfg.vt s'.2 ∧ WFT cfg.vt r ∧ den r = fCompose (den f) x (den g) := by
  obtain ⟨s', r, h1, h2, h3, h4, h5⟩ := bCompose_tot hf hA hI hx wf wg
  exact ⟨s', r, h1, h2, h3, h4, funext h5⟩

/-! ## programs -/

/-- one valid call returns, keeps the invariant and appends exactly one diagram -/
theorem step_total (fuel : Nat) (hf : cfg.vt.height + 1 ≤ fuel) (st : St A I) (op : Op)
    (hinv : InvT A I cfg st) (hv : op.valid cfg.vt st.pool.length = true) :
    ∃ st', step A I cfg fuel st op = some st' ∧ InvT A I cfg st' ∧
      st'.pool.length = st.pool.length + 1 :=
  step_T hf st op hinv hv

/-- **C03, totality.**  For every lawful apply cache and ite cache, every vtree, both compression
settings, every valid program and every fuel `≥ fuelBound`: the run from the fresh builder
returns, with one diagram per operation. -/
theorem run_total (fuel : Nat) (ops : List Op) (hv : Valid cfg.vt ops)
    (hf : fuelBound cfg.vt ops ≤ fuel) :
    ∃ st, runFrom A I cfg fuel (St.init A I) ops = some st ∧ st.pool.length = ops.length ∧
      InvT A I cfg st := by
  obtain ⟨st, h1, h2, h3⟩ := runFrom_T hf ops (St.init A I) (invT_init A I cfg) hv
  exact ⟨st, h1, by simpa [St.init] using h3, h2⟩

/-- **C03, total correctness** (`run_total` + `run_refines`): a valid program is accepted by
the specification, the builder returns, diagram `i` of the final pool denotes Boolean function `i`
of the specification's pool, and all invariants hold at the end. -/
theorem run_total_correct (fuel : Nat) (ops : List Op) (hv : Valid cfg.vt ops)
    (hf : fuelBound cfg.vt ops ≤ fuel) :
    ∃ st sp, runFrom A I cfg fuel (St.init A I) ops = some st ∧ specRun cfg.vt [] ops = some sp ∧
      sp = st.pool.map den ∧ st.pool.length = ops.length ∧ Inv A I cfg st ∧ InvT A I cfg st := by
  obtain ⟨st, h1, h2, h3⟩ := run_total A I cfg fuel ops hv hf
  obtain ⟨sp, h4, h5, h6⟩ := run_refines A I cfg fuel ops st h1
  exact ⟨st, sp, h1, h4, h5, h2, h6, h3⟩

end

/-- the top-level `Sdd.run` of the driver (list-backed caches) returns on every valid program -/
theorem run_isSome (cfg : Config) (fuel : Nat) (ops : List Op) (hv : Valid cfg.vt ops)
    (hf : fuelBound cfg.vt ops ≤ fuel) : (run cfg fuel ops).isSome = true := by
  obtain ⟨st, h, _⟩ := run_total (ListCache _) (ListCache _) cfg fuel ops hv hf
  simp [run, h]

/-- total correctness of `Sdd.run`: the pool exists, has one entry per operation, is entry by
entry the specification's pool, and consists of well formed, positional diagrams -/
theorem run_total_sound (cfg : Config) (fuel : Nat) (ops : List Op) (hv : Valid cfg.vt ops)
    (hf : fuelBound cfg.vt ops ≤ fuel) :
    ∃ pool, run cfg fuel ops = some pool ∧ pool.length = ops.length ∧
      specRun cfg.vt [] ops = some (pool.map den) ∧ ∀ p ∈ pool, WFT cfg.vt p := by
  obtain ⟨st, sp, h1, h2, h3, h4, _, h6⟩ :=
    run_total_correct (ListCache _) (ListCache _) cfg fuel ops hv hf
  exact ⟨st.pool, by simp [run, h1], h4, by rw [h2, h3], h6.2.2⟩

/-! ## the fuel is a proof device: monotonicity, independence, exactness of `Valid` -/

section
variable (A : CacheImpl (Ptr × Ptr)) (I : CacheImpl (Ptr × Ptr × Ptr)) (cfg : Config)

/-- **fuel monotonicity of `and`**: a result returned with `m` units of fuel is returned with any
`n ≥ m` (no hypothesis on the operands or on the cache) -/
theorem and_fuel_mono {m n : Nat} (h : m ≤ n) {st : A.σ} {a b : Ptr} {r : A.σ × Ptr}
    (hr : bAnd A cfg m st a b = some r) : bAnd A cfg n st a b = some r :=
  bAnd_mono A cfg h st a b r hr

/-- **fuel monotonicity of programs** (every state, every program) -/
theorem run_fuel_mono {m n : Nat} (h : m ≤ n) (ops : List Op) (st st' : St A I)
    (hr : runFrom A I cfg m st ops = some st') : runFrom A I cfg n st ops = some st' :=
  runFrom_mono A I cfg h ops st st' hr

/-- **the result does not depend on the fuel**: on a valid program every fuel `≥ fuelBound`
yields the state that `fuelBound` yields -/
theorem run_fuel_indep (fuel : Nat) (ops : List Op) (hv : Valid cfg.vt ops)
    (hf : fuelBound cfg.vt ops ≤ fuel) :
    runFrom A I cfg fuel (St.init A I) ops =
      runFrom A I cfg (fuelBound cfg.vt ops) (St.init A I) ops := by
  obtain ⟨st, h, _⟩ := run_total A I cfg (fuelBound cfg.vt ops) ops hv (Nat.le_refl _)
  rw [h, run_fuel_mono A I cfg hf ops _ _ h]

variable {A I cfg}

/-- a run that returns (from a state satisfying C03's invariant) ran a valid program: `Valid` is
exactly the set of programs the builder accepts -/
theorem runFrom_valid (fuel : Nat) : ∀ (ops : List Op) (st st' : St A I), Inv A I cfg st →
    runFrom A I cfg fuel st ops = some st' → validFrom cfg.vt st.pool.length ops = true
  | [], _, _, _, _ => rfl
  | op :: ops, st, st', hinv, h => by
    simp only [runFrom] at h
    cases h1 : step A I cfg fuel st op with
    | none => simp [h1] at h
    | some st1 =>
      simp only [h1] at h
      obtain ⟨r, hpool, _, hinv1⟩ := step_core fuel st st1 op hinv h1
      have hlen : st1.pool.length = st.pool.length + 1 := by rw [hpool]; simp
      have := runFrom_valid fuel ops st1 st' hinv1 h
      rw [hlen] at this
      simp only [validFrom, Bool.and_eq_true]
      exact ⟨step_valid fuel st st1 op h1, this⟩

end

/-- **acceptance = validity**: with enough fuel `Sdd.run` returns exactly on the valid programs -/
theorem run_isSome_iff (cfg : Config) (fuel : Nat) (ops : List Op)
    (hf : fuelBound cfg.vt ops ≤ fuel) : (run cfg fuel ops).isSome = true ↔ Valid cfg.vt ops := by
  constructor
  · intro h
    simp only [run, Option.isSome_map] at h
    obtain ⟨st, hst⟩ := Option.isSome_iff_exists.1 h
    exact runFrom_valid fuel ops _ st (inv_init _ _ cfg) hst
  · intro hv
    obtain ⟨st, h, _⟩ := run_total (ListCache _) (ListCache _) cfg fuel ops hv hf
    simp [run, h]

/-- `Sdd.run` does not depend on the fuel once it is `≥ fuelBound` -/
theorem run_fuel_indep' (cfg : Config) (fuel : Nat) (ops : List Op) (hv : Valid cfg.vt ops)
    (hf : fuelBound cfg.vt ops ≤ fuel) : run cfg fuel ops = run cfg (fuelBound cfg.vt ops) ops := by
  simp only [run, run_fuel_indep (ListCache _) (ListCache _) cfg fuel ops hv hf]

/-! ## `WF` alone is not enough -/

/-- On the right-linear vtree `(0 (1 2))` the pointers `x0 ∧ x1` (binary node at the root) and
`[(⊤, x2)]` (a decision node at the root) are both well formed for C03's `WF`, yet their
conjunction fails for every fuel: `and_cartesian` takes the BDD shortcut because the first operand
is binary and the vtree node is right-linear, and calls `low()` on the decision node
(`builder.rs`, `and_cartesian`: `self.and(a.low(), b.low())`).  The second pointer violates `Pos`
(no decision node at a right-linear vtree node), which every pointer handed out by the builder
satisfies (`run_total_sound`). -/
theorem wf_not_enough :
    WF vtR (.bdd false 0 1 .fls (.lit 1 true)) ∧ WF vtR (.dec false 1 [(.tru, .lit 2 true)]) ∧
      ∀ fuel cmpr, bAnd (ListCache _) ⟨vtR, cmpr⟩ fuel []
        (.bdd false 0 1 .fls (.lit 1 true)) (.dec false 1 [(.tru, .lit 2 true)]) = none := by
  have hint : Internal vtR 1 := ⟨.leaf 0, .node (.leaf 1) (.leaf 2), by decide⟩
  have hleft : ∀ w, vtR.leftLeaf? 1 = some w → w = 0 := by
    intro w hw
    have : vtR.leftLeaf? 1 = some 0 := by decide
    rw [this] at hw; cases hw; rfl
  refine ⟨⟨by decide, hint, hleft, WF_fls _, by simp [WF]; decide⟩, ?_, ?_⟩
  · rw [WF_dec]
    refine ⟨hint, fun a => by simp [cnt_cons], ?_⟩
    intro e he
    simp only [List.mem_singleton] at he
    subst he
    exact ⟨WF_tru _, by simp [WF]; decide, DepW_tru _⟩
  · intro fuel cmpr
    cases fuel with
    | zero => rfl
    | succ n => cases cmpr <;> rfl

/-! ## non-vacuity: concrete vtrees and programs -/
section demo

example : Valid vtR progR := by decide
example : Valid vtB progB := by decide
example : fuelBound vtR progR = 3 ∧ fuelBound vtB progB = 3 := by decide

/-- programs with an out-of-range operand or a foreign variable are not valid -/
example : ¬ Valid vtR [.var 3 true] := by decide
example : ¬ Valid vtR [.var 0 true, .and 0 1] := by decide

/-- the bound is attained: with `fuelBound` units of fuel both programs run, with one unit less
they do not (both compression settings) -/
example : (run ⟨vtB, true⟩ (fuelBound vtB progB) progB).isSome = true := by decide +kernel
example : (run ⟨vtB, false⟩ (fuelBound vtB progB) progB).isSome = true := by decide +kernel
example : (run ⟨vtB, true⟩ (fuelBound vtB progB - 1) progB).isSome = false := by decide +kernel
example : (run ⟨vtB, false⟩ (fuelBound vtB progB - 1) progB).isSome = false := by decide +kernel
example : (run ⟨vtR, true⟩ (fuelBound vtR progR) progR).isSome = true := by decide +kernel
example : (run ⟨vtR, true⟩ (fuelBound vtR progR - 1) progR).isSome = false := by decide +kernel

/-- instance of `run_total_sound`: no computation needed to know that `progB` runs with any fuel
`≥ 3`, e.g. a million -/
example : ∃ pool, run ⟨vtB, true⟩ 1000000 progB = some pool ∧ pool.length = 13 ∧
    specRun vtB [] progB = some (pool.map den) ∧ ∀ p ∈ pool, WFT vtB p :=
  run_total_sound ⟨vtB, true⟩ 1000000 progB (by decide) (by decide)

/-- instance of `and_total_correct`: the hypotheses on operands and cache are met by literals and
the empty cache -/
example : ∃ st' r, bAnd (ListCache _) ⟨vtB, true⟩ 3 [] (.lit 0 true) (.lit 2 false) = some (st', r) ∧
    AppInvT (ListCache _) vtB st' ∧ WFT vtB r ∧
    den r = fAnd (den (.lit 0 true)) (den (.lit 2 false)) :=
  and_total_correct (ListCache _) ⟨vtB, true⟩ 3 (by decide) (appInvT_empty _ _)
    ⟨by show vtB.hasVar 0 = true; decide, by show vtB.hasVar 0 = true; decide⟩
    ⟨by show vtB.hasVar 2 = true; decide, by show vtB.hasVar 2 = true; decide⟩

end demo

#print axioms and_total_local
#print axioms bAnd_total
#print axioms and_total_correct
#print axioms or_total_correct
#print axioms condition_total_correct
#print axioms ite_total_correct
#print axioms iff_total_correct
#print axioms xor_total_correct
#print axioms exists_total_correct
#print axioms compose_total_correct
#print axioms step_total
#print axioms run_total
#print axioms run_total_correct
#print axioms run_isSome
#print axioms run_total_sound
#print axioms wf_not_enough
#print axioms and_fuel_mono
#print axioms run_fuel_mono
#print axioms run_fuel_indep
#print axioms runFrom_valid
#print axioms run_isSome_iff
#print axioms run_fuel_indep'
end Sdd
