import RsddModel.Lemmas.SddWmc
import RsddModel.Lemmas.SddWFd
import RsddModel.Props.C04
import RsddModel.Props.C07Bdd
/-!
# C07 (SDD part)

"For any diagram the library produces (BDD, SDD, decision-DNNF) and any weights whose low and
high weight sum to the semiring's one on every variable, the weighted model count equals the
semiring sum over all satisfying assignments of the product of the chosen literal weights,
independently of order, vtree, complement edges or node sharing, and Boolean evaluation of an
assignment agrees with the denoted function."

Reading.  `Sdd.wmc` mirrors `unsmoothed_wmc` through `impl DDNNFPtr for SddPtr :: fold`
(`Model/SddWmc.lean`): a node is a left fold of `+` from `zero` over `prime_v · sub_v`, and the
complement bit of a pointer is pushed into the subs, exactly as the Rust does; the memo (node
sharing) is the subject of C10.

The structural hypothesis is `Sdd.DD` (`Lemmas/SddWmc.lean`): every decision node's primes are a
partition (determinism; also what makes "negate the subs" the negation), and in each element no
variable is relevant to both prime and sub (decomposability).  It follows from `WFs vt`
(`WFs_DD`), hence holds for every pool entry of a run of the compressing builder (`run_wmc`).
Without either half the statement is false (`needs_partition`, `needs_decomposable`).

Compression switched *off*: the invariant of C03 (`WF`) records the partition property but not
on which side of the vtree node the variables of primes and subs lie.  `Lemmas/SddWFd.lean` proves
that the uncompressed builder keeps `WFd` (`WF` + primes depend only on the left child's
variables, subs only on the right child's — semantically), which gives `DD`: `run_wmc_any` covers
both settings.
-/
namespace C07Sdd
open Spec Sdd
variable {α : Type} {S : SROps α}

/-- **Clause 1.**  For a deterministic decomposable SDD, a duplicate-free variable list covering
it and weights with `lo + hi = one` on that list: the count is the sum over the explicit list of
the `2^|vars|` assignments of `[p holds] · ∏ chosen literal weights`, whatever the base
assignment. -/
theorem wmc_sdd (hS : S.Laws) (w : Weights α) {p : Ptr} (hd : DD p) {vars : List Nat}
    (hnd : vars.Nodup) (hsub : ∀ v ∈ p.vars, v ∈ vars) (hw : Normalised S w vars) (a : Assign) :
    wmc S w p = wsum S vars w (den p) a ∧
    wmc S w p = wsumList S vars w (den p) a ∧
    (allAssignments vars a).length = 2 ^ vars.length :=
  ⟨wmc_dd hS w hd hsub hw a,
   (wmc_dd hS w hd hsub hw a).trans (wsum_eq_wsumList hS w _ vars a hnd),
   allAssignments_length vars a⟩

/-- "independently of complement edges": the count of a complemented pointer is the sum for the
negated function, and the flag of the fold is the negation of the pointer -/
theorem wmc_sdd_complement (hS : S.Laws) (w : Weights α) {p : Ptr} (hd : DD p) {vars : List Nat}
    (hsub : ∀ v ∈ p.vars, v ∈ vars) (hw : Normalised S w vars) (a : Assign) :
    wmc S w p.neg = wsum S vars w (fNot (den p)) a ∧ wmcAux S w p true = wmc S w p.neg :=
  ⟨wmc_neg_dd hS w hd hsub hw a, wmcAux_true S w p⟩

/-- "independently of vtree": two SDDs of the same function — normalised for different vtrees,
compressed or not — have the same count, and the sum does not depend on the order in which the
variables are listed -/
theorem wmc_sdd_vtree_independent (hS : S.Laws) (w : Weights α) {p q : Ptr} (hp : DD p) (hq : DD q)
    (hw : ∀ v, v ∈ p.vars ∨ v ∈ q.vars → S.add (w v).1 (w v).2 = S.one)
    (heq : ∀ a, p.eval a = q.eval a) {vars vars' : List Nat} (hperm : vars.Perm vars') (a : Assign) :
    wmc S w p = wmc S w q ∧ wsum S vars w (den p) a = wsum S vars' w (den p) a :=
  ⟨wmc_denotational hS w hp hq hw heq, wsum_perm hS w hperm _ a⟩

/-- the variables of a structurally well formed SDD are leaves of the vtree -/
theorem wfs_vars_leaves {vt : VTree} {p : Ptr} (wp : WFs vt p) : ∀ v ∈ p.vars, v ∈ vt.leaves := by
  intro v hv
  have := wfs_vars_at wp v hv
  simp only [VTree.varsAt] at this
  split at this
  · rename_i s hs; exact VTree.sub?_leaves hs v this
  · cases this

/-- structurally well formed SDDs (C04) over a vtree with distinct leaves, counted over the
vtree's variables -/
theorem wmc_wfs (hS : S.Laws) (w : Weights α) {vt : VTree} (hnd : vt.leaves.Nodup) {p : Ptr}
    (wp : WFs vt p) (hw : Normalised S w vt.leaves) (a : Assign) :
    wmc S w p = wsum S vt.leaves w (den p) a ∧ wmc S w p = wsumList S vt.leaves w (den p) a ∧
    wmc S w p.neg = wsum S vt.leaves w (fNot (den p)) a :=
  ⟨(wmc_sdd hS w (WFs_DD hnd p wp) hnd (wfs_vars_leaves wp) hw a).1,
   (wmc_sdd hS w (WFs_DD hnd p wp) hnd (wfs_vars_leaves wp) hw a).2.1,
   wmc_neg_dd hS w (WFs_DD hnd p wp) (wfs_vars_leaves wp) hw a⟩

/-- **every diagram the compressing builder returns**: for any program, vtree with distinct
leaves, fuel; entry `i` of the pool counts the weighted sum of the `i`-th specified function -/
theorem run_wmc (hS : S.Laws) (w : Weights α) (vt : VTree) (hnd : vt.leaves.Nodup) (fuel : Nat)
    (ops : List Op) (pool : List Ptr) (h : run ⟨vt, true⟩ fuel ops = some pool)
    (hw : Normalised S w vt.leaves) (a : Assign) :
    ∃ fs, specRun vt [] ops = some fs ∧ fs.length = pool.length ∧
      pool.map (wmc S w) = fs.map (fun f => wsum S vt.leaves w f a) ∧
      ∀ p ∈ pool, wmc S w p = wsumList S vt.leaves w (den p) a ∧
        wmc S w p.neg = wsum S vt.leaves w (fNot (den p)) a := by
  have hs := (run_sound ⟨vt, true⟩ fuel ops pool h).1
  have hwf := run_wfs vt hnd fuel ops pool h
  refine ⟨pool.map den, hs, by simp, ?_, fun p hp => ?_⟩
  · rw [List.map_map]
    apply List.map_congr_left
    intro p hp
    exact (wmc_wfs hS w hnd (hwf p hp) hw a).1
  · exact ⟨(wmc_wfs hS w hnd (hwf p hp) hw a).2.1, (wmc_wfs hS w hnd (hwf p hp) hw a).2.2⟩

/-- pointers with semantic variable sides (`WFd`: what the uncompressed builder and the semantic
builder maintain) -/
theorem wmc_wfd (hS : S.Laws) (w : Weights α) {vt : VTree} (hnd : vt.leaves.Nodup) {p : Ptr}
    (wp : SddSem.WFd vt p) (hw : Normalised S w vt.leaves) (a : Assign) :
    wmc S w p = wsum S vt.leaves w (den p) a ∧ wmc S w p = wsumList S vt.leaves w (den p) a ∧
    wmc S w p.neg = wsum S vt.leaves w (fNot (den p)) a :=
  ⟨(wmc_sdd hS w (SddSem.WFd_DD hnd p wp) hnd (SddSem.WFd_vars p wp) hw a).1,
   (wmc_sdd hS w (SddSem.WFd_DD hnd p wp) hnd (SddSem.WFd_vars p wp) hw a).2.1,
   wmc_neg_dd hS w (SddSem.WFd_DD hnd p wp) (SddSem.WFd_vars p wp) hw a⟩

/-- **every diagram the SDD builder returns, compression on or off** -/
theorem run_wmc_any (hS : S.Laws) (w : Weights α) (cfg : Config) (hnd : cfg.vt.leaves.Nodup)
    (fuel : Nat) (ops : List Op) (pool : List Ptr) (h : run cfg fuel ops = some pool)
    (hw : Normalised S w cfg.vt.leaves) (a : Assign) :
    ∃ fs, specRun cfg.vt [] ops = some fs ∧ fs.length = pool.length ∧
      pool.map (wmc S w) = fs.map (fun f => wsum S cfg.vt.leaves w f a) ∧
      ∀ p ∈ pool, wmc S w p = wsumList S cfg.vt.leaves w (den p) a ∧
        wmc S w p.neg = wsum S cfg.vt.leaves w (fNot (den p)) a := by
  obtain ⟨vt, c⟩ := cfg
  have hs := (run_sound ⟨vt, c⟩ fuel ops pool h).1
  have hwf : ∀ p ∈ pool, SddSem.WFd vt p := by
    cases c
    · exact run_wfd_uncompressed vt fuel ops pool h
    · exact fun p hp => SddSem.WFs_WFd p (run_wfs vt hnd fuel ops pool h p hp)
  refine ⟨pool.map den, hs, by simp, ?_, fun p hp => ?_⟩
  · rw [List.map_map]
    apply List.map_congr_left
    intro p hp
    exact (wmc_wfd hS w hnd (hwf p hp) hw a).1
  · exact ⟨(wmc_wfd hS w hnd (hwf p hp) hw a).2.1, (wmc_wfd hS w hnd (hwf p hp) hw a).2.2⟩

/-- **Clause 2.**  Boolean evaluation (`DDNNFPtr::evaluate`, the count in the Boolean semiring with
weights `(!b, b)`) agrees with the denoted function on every SDD whose decision nodes are
partitions -/
theorem evaluate_agrees {p : Ptr} (hp : Parts p) (a : Assign) : evaluate p a = p.eval a :=
  evaluate_eq hp a

/-- … hence on every diagram either builder setting returns (compression on or off, any vtree) -/
theorem run_evaluate (cfg : Config) (fuel : Nat) (ops : List Op) (pool : List Ptr)
    (h : run cfg fuel ops = some pool) : ∀ p ∈ pool, ∀ a, evaluate p a = p.eval a :=
  fun p hp a => evaluate_eq (WF_parts p ((run_sound cfg fuel ops pool h).2 p hp)) a

/-! ## the hypotheses are needed -/

/-- a hand-made "decision node" whose primes overlap (`x0` and `⊤`): the fold counts `x0` twice -/
theorem needs_partition :
    wmc C07Bdd.intOps (fun _ => (1, 0)) (.dec false 1 [(.lit 0 false, .tru), (.tru, .tru)]) = 2 := by
  decide

/-- a partition whose prime and sub share a variable (`x0 ∧ x0`): weight squared -/
theorem needs_decomposable :
    wmc C07Bdd.intOps (fun _ => (-1, 2)) (.dec false 1 [(.lit 0 true, .lit 0 true), (.lit 0 false, .fls)]) = 4 ∧
    wsum C07Bdd.intOps [0] (fun _ => (-1, 2))
      (den (.dec false 1 [(.lit 0 true, .lit 0 true), (.lit 0 false, .fls)])) (fun _ => false) = 2 := by
  decide

/-! ## non-vacuity -/
section demo

/-- normalised integer weights that are not probabilities -/
def exW : Weights Int := fun v => if v = 0 then (-1, 2) else if v = 1 then (3, -2) else (5, -4)

theorem exW_norm : Normalised C07Bdd.intOps exW vtB.leaves := by
  unfold Normalised; decide

/-- the balanced demo program of C03/C04 returns, and every returned diagram (decision nodes with
several elements, complemented pointers) counts the brute-force sum over the 16 assignments -/
example : ∃ pool, run ⟨vtB, true⟩ 20 progB = some pool ∧ pool.length = 13 ∧
    ∀ p ∈ pool, wmc C07Bdd.intOps exW p = wsumList C07Bdd.intOps vtB.leaves exW (den p) (fun _ => false) := by
  cases h : run ⟨vtB, true⟩ 20 progB with
  | none => exact absurd h (by decide +kernel)
  | some pool =>
    refine ⟨pool, rfl, ?_, fun p hp => ?_⟩
    · have : (run ⟨vtB, true⟩ 20 progB).map List.length = some 13 := by decide +kernel
      rw [h] at this; simpa using this
    · obtain ⟨_, _, _, _, hall⟩ := run_wmc C07Bdd.intOps_laws exW vtB (by decide) 20 progB pool h
        exW_norm (fun _ => false)
      exact (hall p hp).1

/-- the same, computed on both sides -/
example : (run ⟨vtB, true⟩ 20 progB).map (fun pool => pool.map (wmc C07Bdd.intOps exW)) =
    (specRun vtB [] progB).map (fun fs => fs.map fun f =>
      wsumList C07Bdd.intOps vtB.leaves exW f (fun _ => false)) := by decide +kernel

/-- the uncompressed results (an instance of `run_wmc_any`), computed -/
example : (run ⟨vtB, false⟩ 20 progB).map (fun pool => pool.map (wmc C07Bdd.intOps exW)) =
    (specRun vtB [] progB).map (fun fs => fs.map fun f =>
      wsumList C07Bdd.intOps vtB.leaves exW f (fun _ => false)) := by decide +kernel

example : (run ⟨vtB, true⟩ 20 progB).map (fun pool => pool.map fun p => evaluate p (assignOfNat 5)) =
    (specRun vtB [] progB).map (fun fs => fs.map fun f => f (assignOfNat 5)) := by decide +kernel

end demo

end C07Sdd

#print axioms C07Sdd.wmc_sdd
#print axioms C07Sdd.wmc_sdd_complement
#print axioms C07Sdd.wmc_sdd_vtree_independent
#print axioms C07Sdd.wmc_wfs
#print axioms C07Sdd.run_wmc
#print axioms C07Sdd.wmc_wfd
#print axioms C07Sdd.run_wmc_any
#print axioms C07Sdd.evaluate_agrees
#print axioms C07Sdd.run_evaluate
#print axioms C07Sdd.needs_partition
#print axioms C07Sdd.needs_decomposable
#print axioms C07Sdd.wfs_vars_leaves
#print axioms C07Sdd.exW_norm
