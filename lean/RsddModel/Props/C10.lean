import RsddModel.Lemmas.Scratch
/-!
# C10 — queries are pure (BDD / decision-DNNF diagrams)

"Model counting in any semiring, evaluation, node counting, semantic hashing, the optimisation
queries, smoothing and conditioning leave no observable residue: repeating them, interleaving
them in any order, or running them on diagrams that share sub-structure returns the same
answers as on a freshly built copy of the diagram.  In particular every per-node scratch slot
is empty again when a public call returns."

Model: `RsddModel/Model/Scratch.lean` (a store of nodes addressed by index, one tagged scratch
cell per node, the memoised passes with the control flow of `src/repr/bdd.rs`).

* `foldDag_eq_tree`, `pass_occupies_reachable`, `clear_after_pass`: the memo of
  `bottomup_pass_h` is transparent (shared nodes, both polarities of one node) and the
  short-circuiting `clear_scratch` removes everything the pass wrote;
* `fold_pure`, `bddFold_pure`, `optim_pure`, `countNodes_pure`: the public calls, with the
  precondition *the cells reachable from the root are empty* (weaker: `fold_robust`,
  `countNodes_robust` — only leftovers of the call's own Rust type can hurt);
* `queries_pure`, `queries_answers_fresh`, `queries_commute`: sequences of calls of different
  result types over arbitrary roots of one store.

What the precondition is.  The Rust only `debug_assert!`s `is_scratch_cleared()` on the *root*
cell at the start of `fold`/`count_nodes` (nothing in `bdd_fold`).  The theorems show that the
all-clear state is an invariant of the public calls, so between public calls the precondition
always holds; the `example`s at the end show what happens when it is broken through the raw
scratch API, and that the separate `semantic_hash` cache is *not* covered.
-/
namespace C10
open Scratch Bdd Spec

section
variable {Tag : Type} [DecidableEq Tag] {U : Tag → Type}

/-! ## the memoised pass -/

/-- The memo is transparent: started on empty reachable cells, `bottomup_pass_h` returns the
value of the un-memoised fold of the tree the reference denotes — whatever sharing there is,
including a node met first through a complemented and later through a regular edge. -/
theorem foldDag_eq_tree (t : Tag) (A : Alg (U t)) (s : Store) (r : Ref) (σ σ' : Scr U) (v : U t)
    (hclear : ClearOn s r σ) (hrun : foldDag t A s r σ = (v, σ')) :
    v = treeFold A (unfold s r) false := by
  have h := (foldDag_spec t A s r σ (preOK_of_noPair (fun j hj => by rw [hclear j hj]; rfl))).1
  rw [hrun] at h; exact h

/-- Key lemma for the clean-up: after the pass *every* reachable cell is occupied, and no other
cell has been touched. -/
theorem pass_occupies_reachable (t : Tag) (A : Alg (U t)) (s : Store) (r : Ref) (σ σ' : Scr U) (v : U t)
    (hclear : ClearOn s r σ) (hrun : foldDag t A s r σ = (v, σ')) :
    (∀ j, reaches s r j = true → (σ' j).isSome = true) ∧ (∀ j, reaches s r j = false → σ' j = σ j) := by
  obtain ⟨_, h2, h3⟩ := foldDag_spec t A s r σ (preOK_of_noPair (fun j hj => by rw [hclear j hj]; rfl))
  rw [hrun] at h2 h3
  exact ⟨fun j hj => (h2 j hj).2, h3⟩

/-- … hence the short-circuiting `clear_scratch` reaches everything that was written: the
trailing clear restores the state from before the pass exactly. -/
theorem clear_after_pass (t : Tag) (A : Alg (U t)) (s : Store) (r : Ref) (σ σ' : Scr U) (v : U t)
    (hclear : ClearOn s r σ) (hrun : foldDag t A s r σ = (v, σ')) :
    clearScratch s r σ' = σ ∧ ClearOn s r (clearScratch s r σ') := by
  have h := fold_clearOn t A s r σ hclear
  simp only [fold, hrun, Prod.mk.injEq] at h
  exact ⟨h.2, by rw [h.2]; exact hclear⟩

/-- The short-circuit of `clear_scratch` is sound exactly under the closure condition "below an
empty reachable cell every cell is empty" (it is not sound in general, see `residue_raw`). -/
theorem clear_short_circuit (s : Store) (r : Ref) (σ : Scr U)
    (hcl : ∀ j, reaches s r j = true → (σ j).isSome = false →
      ∀ k, reaches s (.reg j) k = true → (σ k).isSome = false) :
    ∀ j, clearScratch s r σ j = if reaches s r j then .empty else σ j :=
  fun j => congrFun (clearScratch_spec s r σ hcl) j

/-! ## the public calls -/

/-- `DDNNFPtr::fold` (model counting in any semiring, `evaluate`, the trait's `semantic_hash`):
the tree-level answer, and the scratch exactly as before. -/
theorem fold_pure (t : Tag) (A : Alg (U t)) (s : Store) (r : Ref) (σ : Scr U) (h : ClearOn s r σ) :
    fold t A s r σ = (treeFold A (unfold s r) false, σ) := fold_clearOn t A s r σ h

/-- Stronger: leftovers of any *other* type (a `usize`, a pair of another result type, a
`BddPtr`) anywhere below the root are harmless — the downcast fails, the node is recomputed and
overwritten, and the trailing clear removes them. -/
theorem fold_robust (t : Tag) (A : Alg (U t)) (s : Store) (r : Ref) (σ : Scr U)
    (h : ∀ j, reaches s r j = true → (σ j).asPair t = none) :
    fold t A s r σ = (treeFold A (unfold s r) false, fun j => if reaches s r j then .empty else σ j) :=
  fold_spec t A s r σ (preOK_of_noPair h)

/-- `BddPtr::bdd_fold` -/
theorem bddFold_pure (t : Tag) (f : Nat → U t → U t → U t) (lowV highV : U t) (s : Store) (r : Ref)
    (σ : Scr U) (h : ClearOn s r σ) :
    bddFold t f lowV highV s r σ = (treeFold (bddAlg f lowV highV) (unfold s r) false, σ) :=
  bddFold_clearOn t f lowV highV s r σ h

/-- `marginal_map`, `meu`, `bb`: any adaptive sequence of `bdd_fold` passes -/
theorem optim_pure (t : Tag) (p : OptProg (U t)) (s : Store) (r : Ref) (σ : Scr U) (h : ClearOn s r σ) :
    runOpt t s r p σ = (optSpec (unfold s r) p, σ) := runOpt_clearOn t s r p σ h

/-- `count_nodes` = the number of distinct reachable nodes, scratch as before -/
theorem countNodes_pure (s : Store) (r : Ref) (σ : Scr U) (h : ClearOn s r σ) :
    countNodes s r σ = (((List.range s.length).filter (reaches s r)).length, σ) :=
  countNodes_clearOn s r σ h

/-- only a leftover `usize` can hurt `count_nodes` -/
theorem countNodes_robust (s : Store) (r : Ref) (σ : Scr U)
    (h : ∀ j, reaches s r j = true → (σ j).asCount = none) :
    countNodes s r σ = (reachCount s r, fun j => if reaches s r j then .empty else σ j) :=
  countNodes_spec s r σ h

/-! ## sequences of queries -/

/-- **Queries are pure.**  For every list of public calls — of different result types, on
arbitrary roots of one store, the roots sharing whatever they share — started from the
all-clear state:

* the final state is all-clear again (so is every intermediate state, by the same theorem on
  the prefixes);
* the `k`-th answer is the answer the `k`-th call gives when run *alone* from an all-clear
  scratch on the store as it then is, which is the initial store plus nodes allocated on top
  by earlier `condition`/`smooth` calls. -/
theorem queries_pure (s : Store) (qs : List (Ref × Query U)) :
    (runQueries ⟨s, Scr.clear⟩ qs).2.scr = Scr.clear ∧
    ∀ (k : Nat) (r : Ref) (q : Query U), qs[k]? = some (r, q) →
      ∃ s', Extends s' s ∧
        (runQueries ⟨s, Scr.clear⟩ qs).1[k]? = some (runQuery ⟨s', Scr.clear⟩ r q).1 := by
  rw [runQueries_spec qs ⟨s, Scr.clear⟩ rfl]
  refine ⟨rfl, fun k r q hk => ?_⟩
  obtain ⟨s', he, hk'⟩ := specQueries_get qs s k r q hk
  exact ⟨s', he, by rw [runQuery_spec ⟨s', Scr.clear⟩ r q rfl]; exact hk'⟩

/-- Allocation on top of a store changes no diagram that was already there … -/
theorem old_diagrams_unchanged {s' s : Store} (h : Extends s' s) {r : Ref} (hr : r.ValidIn s) :
    unfold s' r = unfold s r ∧ reachCount s' r = reachCount s r :=
  ⟨unfold_extends h hr, reachCount_extends h hr⟩

/-- … hence: wherever a read-only call stands in a sequence, whatever ran before it, on a root
of the initial store its answer is the tree-level answer on the initial store — the answer on a
freshly built copy of the diagram. -/
theorem queries_answers_fresh (s : Store) (qs : List (Ref × Query U)) (k : Nat) (r : Ref)
    (hr : r.ValidIn s) :
    (∀ t A, qs[k]? = some (r, .fold t A) →
      (runQueries ⟨s, Scr.clear⟩ qs).1[k]? = some (.val t (treeFold A (unfold s r) false))) ∧
    (∀ t f lo hi, qs[k]? = some (r, .bddFold t f lo hi) →
      (runQueries ⟨s, Scr.clear⟩ qs).1[k]? =
        some (.val t (treeFold (bddAlg f lo hi) (unfold s r) false))) ∧
    (∀ t p, qs[k]? = some (r, .optim t p) →
      (runQueries ⟨s, Scr.clear⟩ qs).1[k]? = some (.val t (optSpec (unfold s r) p))) ∧
    (qs[k]? = some (r, .countNodes) →
      (runQueries ⟨s, Scr.clear⟩ qs).1[k]? = some (.num (reachCount s r))) := by
  rw [runQueries_spec qs ⟨s, Scr.clear⟩ rfl]
  refine ⟨fun t A hk => ?_, fun t f lo hi hk => ?_, fun t p hk => ?_, fun hk => ?_⟩ <;>
  · obtain ⟨s', he, hk'⟩ := specQueries_get qs s k r _ hk
    obtain ⟨hu, hc⟩ := old_diagrams_unchanged he hr
    simp only [specQuery, hu, hc] at hk'
    exact hk'

/-- two diagrams that unfold to the same tree (a diagram and a freshly built copy, in the same
or in another builder) give the same `fold` answer, whatever else their stores contain -/
theorem fold_copy (t : Tag) (A : Alg (U t)) (s s' : Store) (r r' : Ref) (σ σ' : Scr U)
    (h : ClearOn s r σ) (h' : ClearOn s' r' σ') (hcopy : unfold s' r' = unfold s r) :
    (fold t A s' r' σ').1 = (fold t A s r σ).1 := by
  rw [fold_pure t A s r σ h, fold_pure t A s' r' σ' h', hcopy]

/-- **Queries commute.**  A sequence of read-only calls is a `map` of the single calls on the
fresh state, so any reordering of the calls reorders the answers and changes none; repeating a
call repeats its answer. -/
theorem queries_commute (s : Store) (qs : List (Ref × Query U)) (h : ∀ p ∈ qs, p.2.readOnly = true) :
    runQueries ⟨s, Scr.clear⟩ qs =
      (qs.map fun p => (runQuery ⟨s, Scr.clear⟩ p.1 p.2).1, ⟨s, Scr.clear⟩) := by
  rw [runQueries_spec qs ⟨s, Scr.clear⟩ rfl, specQueries_readOnly qs s h]
  simp only [runQuery_spec ⟨s, Scr.clear⟩ _ _ rfl]

theorem queries_perm (s : Store) (qs qs' : List (Ref × Query U)) (hp : qs.Perm qs')
    (h : ∀ p ∈ qs, p.2.readOnly = true) :
    (runQueries ⟨s, Scr.clear⟩ qs).1.Perm (runQueries ⟨s, Scr.clear⟩ qs').1 := by
  rw [queries_commute s qs h, queries_commute s qs' (fun p hp' => h p (hp.mem_iff.2 hp'))]
  exact hp.map _

end

/-! ## non-vacuity: a store with sharing

```
0: (x2, F, T)
1: (x1, !0, 0)      node 0 under a complemented and under a regular edge
2: (x0, 0, 1)       root A: node 0 shared by A directly and through 1
3: (x0, !1, 0)      root B shares 0 and 1 with A
```
-/

inductive DTag | b | n | z deriving DecidableEq
abbrev DU : DTag → Type
  | .b => Bool | .n => Nat | .z => Int

def exS : Store := Store.ofList
  [⟨2, .fls, .tru⟩, ⟨1, .compl 0, .reg 0⟩, ⟨0, .reg 0, .reg 1⟩, ⟨0, .compl 1, .reg 0⟩]
def natOps : SROps Nat := ⟨0, 1, (· + ·), (· * ·)⟩
def intOps : SROps Int := ⟨0, 1, (· + ·), (· * ·)⟩
def w1 : Weights Nat := fun v => (v + 2, v + 3)
def ansNat : Answer DU → Option Int
  | .val .b v => some (if v then 1 else 0)
  | .val .n v => some v
  | .val .z v => some v
  | .num k => some k
  | .ref _ => none

/-- mid-pass: node 0 has been met complemented (4) and regular (5); every reachable cell is occupied -/
example : ((foldDag (U := DU) .n (wmcAlg natOps w1) exS (.reg 2) Scr.clear).2 0).asPair .n = some (some 4, some 5) := by
  decide
example : (foldDag (U := DU) .n (wmcAlg natOps w1) exS (.reg 2) Scr.clear).2.occupied 4 = [true, true, true, false] := by
  decide
example : (foldDag (U := DU) .n (wmcAlg natOps w1) exS (.reg 2) Scr.clear).1 = 106 ∧
    treeFold (wmcAlg natOps w1) (unfold exS (.reg 2)) false = 106 ∧
    wmc natOps w1 (unfold exS (.reg 2)) = 106 := by decide
example : (fold (U := DU) .n (wmcAlg natOps w1) exS (.reg 2) Scr.clear).2.occupied 4 = [false, false, false, false] := by
  decide

/-- ten calls of three result types on the two roots in both polarities, with allocation in
between -/
def exQs : List (Ref × Query DU) :=
  [(.reg 2, .wmc .n natOps w1), (.compl 3, .countNodes), (.reg 3, .fold .b (evalAlg fun v => v == 1)),
   (.compl 2, .wmc .n natOps (fun _ => (1, 1))), (.reg 2, .condition (· < ·) 1 true),
   (.reg 3, .wmc .z intOps (fun _ => (1, -1))), (.reg 2, .countNodes), (.reg 2, .smooth id id 3),
   (.reg 2, .dnnfCondition 2 false), (.reg 2, .wmc .n natOps w1)]

example : (runQueries ⟨exS, Scr.clear⟩ exQs).1.map ansNat =
    [some 106, some 3, some 1, some 3, none, some (-1), some 3, none, none, some 106] := by decide
example : (runQueries ⟨exS, Scr.clear⟩ exQs).2.store.length = 8 ∧
    (runQueries ⟨exS, Scr.clear⟩ exQs).2.scr.occupied 8 = List.replicate 8 false := by decide

/-! ## what the precondition protects against (raw scratch API, not a query) -/

/-- `set_scratch::<usize>` on an inner node while the root's cell is empty (`bdd_set_scratch`
of the C API): `clear_scratch(root)` is cut short at the root and does not remove it; the next
`count_nodes(root)` under-counts (2 instead of 3); the call after that is right again. -/
example :
    let st1 := rawSetScratch (U := DU) ⟨exS, Scr.clear⟩ 0 (.count 7)
    let st2 := rawClearScratch st1 (.reg 2)
    let a := runQuery st2 (.reg 2) .countNodes
    let b := runQuery a.2 (.reg 2) .countNodes
    st2.scr.occupied 4 = [true, false, false, false] ∧ ansNat a.1 = some 2 ∧ ansNat b.1 = some 3 := by
  decide

/-- a stale pair of the *same* result type below an empty root is believed: 2300 instead of 106;
a stale pair of another type is not (`fold_robust`) -/
example :
    ansNat (runQuery (rawSetScratch (U := DU) ⟨exS, Scr.clear⟩ 0 (.pair .n (some 100) (some 100)))
      (.reg 2) (.wmc .n natOps w1)).1 = some 2300 ∧
    ansNat (runQuery (rawSetScratch (U := DU) ⟨exS, Scr.clear⟩ 0 (.pair .z (some 100) (some 100)))
      (.reg 2) (.wmc .n natOps w1)).1 = some 106 := by decide

/-! ## the `semantic_hash` cache is outside the scratch discipline

`cached_semantic_hash(order, map)` stores the hash in a second per-node field that no call ever
clears and that is not keyed by the weight map or the prime: a second call with another map
returns the first map's hash (3, the correct value is 0), and if only a sub-diagram was hashed
before, a value that belongs to neither map (4).  (Field 𝔽₇; both maps have `low + high = 1`.) -/
def m1 : Weights Nat := fun _ => (3, 5)
def m2 : Weights Nat := fun _ => (2, 6)

example :
    (cachedHash 7 m1 exS (.reg 2) (fun _ => none)).1 = 3 ∧
    (cachedHash 7 m2 exS (.reg 2) (fun _ => none)).1 = 0 ∧
    (cachedHash 7 m2 exS (.reg 2) (cachedHash 7 m1 exS (.reg 2) (fun _ => none)).2).1 = 3 ∧
    (cachedHash 7 m2 exS (.reg 2) (cachedHash 7 m1 exS (.reg 1) (fun _ => none)).2).1 = 4 := by decide

end C10

#print axioms C10.foldDag_eq_tree
#print axioms C10.pass_occupies_reachable
#print axioms C10.clear_after_pass
#print axioms C10.clear_short_circuit
#print axioms C10.fold_pure
#print axioms C10.fold_robust
#print axioms C10.bddFold_pure
#print axioms C10.optim_pure
#print axioms C10.countNodes_pure
#print axioms C10.countNodes_robust
#print axioms C10.queries_pure
#print axioms C10.old_diagrams_unchanged
#print axioms C10.queries_answers_fresh
#print axioms C10.fold_copy
#print axioms C10.queries_commute
#print axioms C10.queries_perm
