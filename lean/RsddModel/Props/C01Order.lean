import RsddModel.Props.C19Order
/-!
# C01 / C02 for a REAL variable order

`ite_order`: for every well-formed `VarOrder` over `n` variables (every permutation), every lawful
cache whose entries are ordered-and-reduced diagrams over those variables, and operands that are
ordered and reduced under the order's own `get` extended injectively (`C19Order.extLvl`) and only
mention variables `< n`: what `ite_helper` returns under `o.get` ITSELF denotes if-then-else, is
ordered and reduced, and only mentions variables `< n`.  (`Lemmas/BddLvlCongr.ite_lvl_congr`
transfers the run; `ite_sem`, `ite_WF`, `ite_vars` are the existing theorems for injective maps.)
-/
namespace C01Order
open Bdd Spec Orders C19Order

theorem ite_order (C : CacheImpl) (o : VarOrder) (n : Nat) (hwf : o.WF n) {fuel : Nat}
    {s s' : C.σ} {f g h r : Ptr}
    (hsS : CacheSound C s) (hsW : CacheWF C (extLvl o n) s) (hsV : CacheVars C n s)
    (hf : WF (extLvl o n) f) (hg : WF (extLvl o n) g) (hh : WF (extLvl o n) h)
    (vf : f.varsLt n) (vg : g.varsLt n) (vh : h.varsLt n)
    (hrun : ite C o.get fuel s f g h = some (s', r)) :
    (∀ a, r.eval a = iteB (f.eval a) (g.eval a) (h.eval a)) ∧ WF (extLvl o n) r ∧ r.varsLt n ∧
      CacheSound C s' ∧ CacheWF C (extLvl o n) s' ∧ CacheVars C n s' := by
  rw [ite_lvl_congr (extLvl_agree o n) C fuel s f g h hsV vf vg vh] at hrun
  obtain ⟨h1, h2⟩ := ite_sem C (extLvl o n) fuel s f g h s' r hsS hrun
  obtain ⟨h3, h4⟩ := ite_WF C (extLvl o n) (extLvl_inj hwf) hsW hf hg hh hrun
  obtain ⟨h5, h6⟩ := ite_vars C (extLvl o n) n fuel s f g h s' r hsV vf vg vh hrun
  exact ⟨h2, h4, h6, h1, h3, h5⟩

#print axioms ite_order
end C01Order
