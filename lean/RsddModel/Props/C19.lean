import RsddModel.Model.Cli
import RsddModel.Props.C05Bdd
import RsddModel.Props.C08
import RsddModel.Props.C17
/-!
# C19 — command-line tools

The tools are compositions; so are their theorems: text → expression (C17 `fromSexpr_sem`),
compile (C05 `compileExpr_correct`), smooth and count (C08 `smooth_wmc`, `smooth_count`),
serialise (C17 `serBdd_sem`).  If any link changes shape this file stops compiling.
-/
namespace C19
open Cli Spec Bdd Spec.Text Ser

theorem toCompileExpr_sem (e : Ser.LogicalExpr) (a : Assign) :
    Compile.exprSem (toCompileExpr e) a = e.eval a := by
  induction e with
  | lit v p => cases p <;> simp [toCompileExpr, Compile.exprSem, Ser.LogicalExpr.eval, fVar]
  | not e ih => simp [toCompileExpr, Compile.exprSem, Ser.LogicalExpr.eval, fNot, ih]
  | and l r ihl ihr => simp [toCompileExpr, Compile.exprSem, Ser.LogicalExpr.eval, fAnd, ihl, ihr]
  | or l r ihl ihr => simp [toCompileExpr, Compile.exprSem, Ser.LogicalExpr.eval, fOr, ihl, ihr]
  | iff l r ihl ihr => simp [toCompileExpr, Compile.exprSem, Ser.LogicalExpr.eval, fIff, ihl, ihr]
  | xor l r ihl ihr =>
    simp only [toCompileExpr, Compile.exprSem, Ser.LogicalExpr.eval, fXor, ihl, ihr]
    cases l.eval a <;> cases r.eval a <;> rfl
  | ite g t e ihg iht ihe => simp [toCompileExpr, Compile.exprSem, Ser.LogicalExpr.eval, fIte, iteB, ihg, iht, ihe]

/-- an ordered diagram whose variables all sit below level `m` -/
theorem ordBetween_of_above {lvl : Nat → Nat} {m : Nat} :
    ∀ {p : Ptr} {k : Nat}, p.above lvl k → (∀ v ∈ p.vars, lvl v < m) → p.ordBetween lvl k m
  | .tru, _, _, _ => trivial
  | .fls, _, _, _ => trivial
  | .node c v lo hi, k, ⟨h1, h2, h3⟩, hv => by
    refine ⟨h1, hv v (by simp [Ptr.vars]), ?_, ?_⟩
    · exact ordBetween_of_above h2 (fun u hu => hv u (by simp [Ptr.vars, hu]))
    · exact ordBetween_of_above h3 (fun u hu => hv u (by simp [Ptr.vars, hu]))

/-- **the model-counting tool, single-count mode**: for every formula text without constants,
every configured order (injective level map with inverse `varAt` on the first `n` levels, all
variables of the diagram below level `n`), every weight table and every commutative semiring, the
printed weighted count is the brute-force weighted sum of the formula *as written in the text*
over the `n` variables, and with unit weights over the naturals it is the number of models. -/
theorem cli_wmc_spec {α : Type} (C : CacheImpl) (lvl : Nat → Nat) (inj : ∀ x y, lvl x = lvl y → x = y)
    (fuel : Nat) (t : SExp) (e : LogicalSExpr) (le : Ser.LogicalExpr)
    (ht : LogicalSExpr.ofSExp t = some e) (hle : fromSexpr e = some le)
    {S : SROps α} (hS : S.Laws) (w : Weights α) (varAt : Nat → Nat) (n : Nat) (r : α)
    (hrun : singleWmc C lvl varAt fuel S w n le = some r)
    (hinv : ∀ i, i < n → lvl (varAt i) = i) :
    ∃ d : Ptr,
      (∀ a, evalSExp (nameAssign t a) t = some (d.eval a)) ∧ WF lvl d ∧
      ((∀ v ∈ d.vars, varAt (lvl v) = v) → (∀ v ∈ d.vars, lvl v < n) →
        ∀ a, r = wsumList S (levelVars varAt 0 n) w (fun b => le.eval b) a ∧
             r = wsum S (levelVars varAt 0 n) w (fun b => le.eval b) a) := by
  unfold singleWmc at hrun
  cases hc : Compile.compileExpr (Bdd.ops C lvl fuel) C.empty (toCompileExpr le) with
  | none => rw [hc] at hrun; simp at hrun
  | some sd =>
    obtain ⟨s', d⟩ := sd
    rw [hc] at hrun
    simp at hrun
    obtain ⟨_, hwf, hsem⟩ := Bdd.compileExpr_correct C lvl inj fuel (toCompileExpr le) (cinv_empty C lvl) hc
    have hd : ∀ a, d.eval a = le.eval a := fun a => by rw [hsem a, toCompileExpr_sem]
    refine ⟨d, fun a => ?_, hwf, fun hv hlt a => ?_⟩
    · rw [hd a]; exact C17.fromSexpr_sem t e le ht hle a
    · have hord := ordBetween_of_above hwf.1 hlt
      obtain ⟨h1, h2, _⟩ := C08.smooth_wmc hS w hinv hv hord a
      have hfun : (fun b => d.eval b) = (fun b => le.eval b) := funext hd
      subst hrun
      constructor
      · rw [h1]; show wsumList S _ w (fun b => d.eval b) a = _; rw [hfun]
      · rw [h2]; show wsum S _ w (fun b => d.eval b) a = _; rw [hfun]

/-- **the formula-to-BDD tool**: the emitted node table, read naively with complement flags,
denotes the formula as written in the text under the lexicographic variable numbering -/
theorem cli_formula_to_bdd_spec (C : CacheImpl) (lvl : Nat → Nat) (inj : ∀ x y, lvl x = lvl y → x = y)
    (fuel : Nat) (t : SExp) (e : LogicalSExpr) (le : Ser.LogicalExpr)
    (ht : LogicalSExpr.ofSExp t = some e) (hle : fromSexpr e = some le) (tbl : BddTable)
    (hrun : formulaToBdd C lvl fuel le = some tbl) :
    ∃ root, tbl.roots = [root] ∧
      ∀ a, evalSExp (nameAssign t a) t = some (evalBddTable tbl root a) := by
  unfold formulaToBdd at hrun
  cases hc : Compile.compileExpr (Bdd.ops C lvl fuel) C.empty (toCompileExpr le) with
  | none => rw [hc] at hrun; simp at hrun
  | some sd =>
    obtain ⟨s', d⟩ := sd
    rw [hc] at hrun
    simp at hrun
    obtain ⟨_, _, hsem⟩ := Bdd.compileExpr_correct C lvl inj fuel (toCompileExpr le) (cinv_empty C lvl) hc
    obtain ⟨root, hr, he⟩ := C17.serBdd_sem d
    subst hrun
    refine ⟨root, hr, fun a => ?_⟩
    rw [he]
    show evalSExp (nameAssign t a) t = some (d.eval a)
    rw [hsem a, toCompileExpr_sem]
    exact C17.fromSexpr_sem t e le ht hle a

/-- **the CNF-to-BDD tool**: parsing (C17), compiling the dtree plan (C05) and serialising (C17)
compose: the emitted table denotes the CNF of the text under label = number − 1 -/
theorem cli_cnf_to_bdd_spec (C : CacheImpl) (lvl : Nat → Nat) (inj : ∀ x y, lvl x = lvl y → x = y)
    (fuel : Nat) (text : String) (c0 : Cnf) (hparse : parseDimacs text = some c0)
    (tree : Compile.DTree) (hleaves : tree.clauses.Perm (cnfNew c0))
    {s' : C.σ} {d : Ptr}
    (hcomp : Compile.compilePlan (Bdd.ops C lvl fuel) C.empty (Compile.Plan.fromDtree tree) = some (s', d)) :
    ∃ root, (serBdd d).roots = [root] ∧
      ∀ a, evalBddTable (serBdd d) root a = cnfSat a c0 := by
  obtain ⟨_, _, hsem⟩ := Bdd.compilePlan_correct C lvl inj fuel (Compile.Plan.fromDtree tree) (cinv_empty C lvl) hcomp
  obtain ⟨root, hr, he⟩ := C17.serBdd_sem d
  refine ⟨root, hr, fun a => ?_⟩
  rw [he]
  show d.eval a = cnfSat a c0
  rw [hsem a, Bdd.planFromDtree_sem]
  have h1 : cnfFn tree.clauses a = cnfFn (cnfNew c0) a := by
    simp only [cnfFn, cnfSat]
    exact Bool.eq_iff_iff.mpr (by simp [List.all_eq_true, hleaves.mem_iff])
  rw [h1]
  exact ((C17.fromDimacs_sem text).2 c0 hparse a)

end C19

#print axioms C19.toCompileExpr_sem
#print axioms C19.ordBetween_of_above
#print axioms C19.cli_wmc_spec
#print axioms C19.cli_formula_to_bdd_spec
#print axioms C19.cli_cnf_to_bdd_spec
