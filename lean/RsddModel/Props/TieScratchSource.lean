import RsddModel.Props.TieScratch
import RsddModel.Props.C10
/-!
# Source-level corollaries (translator route): the per-node scratch mechanism (C10, C07)

The public-call theorems of `Props/C10.lean` restated for the definitions REGENERATED from the
Rust text (`Model/GenScratch.lean`, rewritten by `tools/gen_scratch.py` on every run).  Every
proof rewrites with a tie theorem of `Props/TieScratch.lean` and `exact`s the existing theorem
about the hand-written model; nothing is re-proved.  So "queries are pure" is a statement about
what `src/repr/bdd.rs` / `src/repr/ddnnf.rs` say now (under the trusted mapping in the header of
`tools/gen_scratch.py`).  The statements build in alias mode as well (ties used by name only).
-/
namespace TieScratchSource
open Scratch Bdd Spec

section
variable {Tag : Type} [DecidableEq Tag] {U : Tag → Type}

/-- `DDNNFPtr::fold` as the source says now: the un-memoised tree answer; scratch exactly as
before the call, when the reachable cells were empty. -/
theorem fold_source_pure (t : Tag) (f : DDNNF (U t) → U t) (s : Store) (r : Ref) (σ : Scr U)
    (h : ClearOn s r σ) :
    Gen.Scr.fold t f s r σ = (treeFold (Alg.ofF f) (unfold s r) false, σ) := by
  rw [TieScratch.fold_tie]; exact C10.fold_pure t (Alg.ofF f) s r σ h

/-- the same with leftovers of other Rust types anywhere below the root -/
theorem fold_source_robust (t : Tag) (f : DDNNF (U t) → U t) (s : Store) (r : Ref) (σ : Scr U)
    (h : ∀ j, reaches s r j = true → (σ j).asPair t = none) :
    Gen.Scr.fold t f s r σ
      = (treeFold (Alg.ofF f) (unfold s r) false, fun j => if reaches s r j then .empty else σ j) := by
  rw [TieScratch.fold_tie]; exact C10.fold_robust t (Alg.ofF f) s r σ h

/-- `BddPtr::bdd_fold` as the source says now -/
theorem bddFold_source_pure (t : Tag) (f : Nat → U t → U t → U t) (lowV highV : U t) (s : Store)
    (r : Ref) (σ : Scr U) (h : ClearOn s r σ) :
    Gen.Scr.bddFold t f lowV highV s r σ
      = (treeFold (bddAlg f lowV highV) (unfold s r) false, σ) := by
  rw [TieScratch.bddFold_tie]; exact C10.bddFold_pure t f lowV highV s r σ h

/-- `BddPtr::count_nodes` as the source says now: the number of distinct reachable nodes -/
theorem countNodes_source_pure (s : Store) (r : Ref) (σ : Scr U) (h : ClearOn s r σ) :
    Gen.Scr.countNodes s r σ = (((List.range s.length).filter (reaches s r)).length, σ) := by
  rw [TieScratch.countNodes_tie]; exact C10.countNodes_pure s r σ h

theorem countNodes_source_robust (s : Store) (r : Ref) (σ : Scr U)
    (h : ∀ j, reaches s r j = true → (σ j).asCount = none) :
    Gen.Scr.countNodes s r σ
      = (reachCount s r, fun j => if reaches s r j then .empty else σ j) := by
  rw [TieScratch.countNodes_tie]; exact C10.countNodes_robust s r σ h

/-- calling the regenerated `fold` twice gives the same answer twice and the scratch it started
from (idempotence of a public query, source level) -/
theorem fold_source_twice (t : Tag) (f : DDNNF (U t) → U t) (s : Store) (r : Ref) (σ : Scr U)
    (h : ClearOn s r σ) :
    Gen.Scr.fold t f s r (Gen.Scr.fold t f s r σ).2 = Gen.Scr.fold t f s r σ := by
  rw [fold_source_pure t f s r σ h]
  exact fold_source_pure t f s r σ h

/-- a `count_nodes` between two `fold`s changes neither (interleaving, source level) -/
theorem fold_count_fold_source (t : Tag) (f : DDNNF (U t) → U t) (s : Store) (r r' : Ref) (σ : Scr U)
    (h : ClearOn s r σ) (h' : ClearOn s r' σ) :
    Gen.Scr.fold t f s r (Gen.Scr.countNodes s r' (Gen.Scr.fold t f s r σ).2).2
      = Gen.Scr.fold t f s r σ := by
  rw [fold_source_pure t f s r σ h]
  show Gen.Scr.fold t f s r (Gen.Scr.countNodes s r' σ).2 = _
  rw [countNodes_source_pure s r' σ h']
  exact fold_source_pure t f s r σ h

end

/-! non-vacuity: the hypothesis holds on the diamond of `TieScratch.exStore` with an all-empty
scratch, and the regenerated `fold` there returns the tree answer with the scratch empty again -/
example : ClearOn TieScratch.exStore (.reg 1) (Scr.clear (U := TieScratch.exU)) := by
  intro j _; rfl
example : (Gen.Scr.fold (U := TieScratch.exU) () (Scratch.wmcF ⟨0, 1, (· + ·), (· * ·)⟩ (fun _ => (1, 1)))
    TieScratch.exStore (.reg 1) Scr.clear).1 = 2 := by decide

#print axioms fold_source_pure
#print axioms fold_source_robust
#print axioms bddFold_source_pure
#print axioms countNodes_source_pure
#print axioms countNodes_source_robust
#print axioms fold_source_twice
#print axioms fold_count_fold_source
end TieScratchSource
