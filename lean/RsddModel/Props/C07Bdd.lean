import RsddModel.Lemmas.Wmc
/-!
# C07 (BDD / decision-DNNF part)

"For any diagram and any weights whose low and high weight sum to the semiring's one on every
variable, the weighted model count equals the semiring sum over all satisfying assignments of
the product of the chosen literal weights, independently of order, complement edges or node
sharing, and Boolean evaluation of an assignment agrees with the denoted function.  For a BDD
and arbitrary weights the count equals that sum taken only over the variables each
sub-function actually depends on."

Reading.  A diagram is a `Bdd.Ptr` tree with complement flags (`wmc` mirrors
`unsmoothed_wmc` through `BddPtr::fold`; the memo of the fold, i.e. node sharing, is the
subject of C10 — a tree-level statement holds for every sharing of that tree).  "Any diagram"
is every *free* one (`Ptr.free`: no variable decided twice on a path — all ROBDDs of all
orders and all decision-DNNF results; for a non-free diagram such as `ite(x, x, ⊥)` built by
hand the statement is false and the Rust builders never produce one).
-/
namespace C07Bdd
open Spec Bdd
variable {α : Type} {S : SROps α}

/-- Clause 1: normalised weights.  The count is the brute-force sum, over the explicit list of
the `2^|vars|` assignments of `vars`, of `[p holds] · ∏ chosen literal weights`, for every
duplicate-free `vars` that covers the diagram, whatever the base assignment. -/
theorem wmc_eq_bruteforce (hS : S.Laws) (w : Weights α) {p : Ptr} (hf : p.free) {vars : List Nat}
    (hnd : vars.Nodup) (hsub : ∀ v ∈ p.vars, v ∈ vars) (hw : Normalised S w vars) (a : Assign) :
    wmc S w p = wsumList S vars w p.eval a ∧
    wmc S w p = wsum S vars w p.eval a ∧
    (allAssignments vars a).length = 2 ^ vars.length :=
  ⟨(wmc_free hS w hf hnd hsub hw a).trans (wsum_eq_wsumList hS w _ vars a hnd),
   wmc_free hS w hf hnd hsub hw a, allAssignments_length vars a⟩

/-- Clause 1, "independently of order": the sum does not change when the variables are listed
in another order (so the diagram's order is irrelevant), and two free diagrams of the same
function built under different orders have the same count. -/
theorem wmc_order_independent (hS : S.Laws) (w : Weights α) {p q : Ptr} (hp : p.free) (hq : q.free)
    {vars vars' : List Nat} (hperm : vars.Perm vars') (hnd : vars.Nodup)
    (hsubp : ∀ v ∈ p.vars, v ∈ vars) (hsubq : ∀ v ∈ q.vars, v ∈ vars') (hw : Normalised S w vars)
    (heq : ∀ a, p.eval a = q.eval a) (a : Assign) :
    wsum S vars w p.eval a = wsum S vars' w p.eval a ∧ wmc S w p = wmc S w q := by
  refine ⟨wsum_perm hS w hperm _ a, ?_⟩
  have hw' : Normalised S w vars' := fun v hv => hw v (hperm.mem_iff.mpr hv)
  rw [wmc_free hS w hp hnd hsubp hw a, wmc_free hS w hq (hperm.nodup_iff.mp hnd) hsubq hw' a,
    wsum_perm hS w hperm _ a]
  exact wsum_congr S w _ a heq

/-- Clause 1, "independently of complement edges": `Ptr.eval` interprets complement flags at
every depth, and the count of a complemented pointer is the sum for the negated function. -/
theorem wmc_complement (hS : S.Laws) (w : Weights α) {p : Ptr} (hf : p.free) {vars : List Nat}
    (hnd : vars.Nodup) (hsub : ∀ v ∈ p.vars, v ∈ vars) (hw : Normalised S w vars) (a : Assign) :
    wmc S w p.neg = wsum S vars w (fNot p.eval) a ∧ wmcAux S w p true = wmc S w p.neg :=
  ⟨wmc_neg_free hS w hf hnd hsub hw a, wmcAux_true S w p⟩

/-- Clause 2: Boolean evaluation (`DDNNFPtr::evaluate`, a count in the Boolean semiring) agrees
with the denoted function — for every diagram. -/
theorem evaluate_agrees (p : Ptr) (a : Assign) : evaluate p a = p.eval a := evaluate_eq p a

/-- Clause 3: BDD, arbitrary weights (no normalisation, no semiring law).  For a reduced ordered
BDD over the order `order` the count is the sum taken only over the variables each
sub-function depends on (`Spec.pathCount`). -/
theorem wmc_arbitrary_weights (S : SROps α) (w : Weights α) {order : List Nat} {p : Ptr}
    (hnd : order.Nodup) (h : Robdd order p) (a : Assign) :
    wmc S w p = pathCount S w order p.eval a := wmc_reduced_ordered S w hnd h a

/-- Clause 3 for an order given by `VarOrder`'s level map -/
theorem wmc_arbitrary_weights_lvl (S : SROps α) (w : Weights α) {lvl varAt : Nat → Nat} {m : Nat}
    {p : Ptr} (hinv : ∀ i, i < m → lvl (varAt i) = i) (hv : ∀ v ∈ p.vars, varAt (lvl v) = v)
    (hord : p.ordBetween lvl 0 m) (hred : p.reducedN) (a : Assign) :
    wmc S w p = pathCount S w (levelVars varAt 0 m) p.eval a :=
  wmc_reduced_ordered_lvl S w hinv hv hord hred a

/-! ## non-vacuity -/

/-- the integers as a weight semiring -/
def intOps : SROps Int := ⟨0, 1, (· + ·), (· * ·)⟩
theorem intOps_laws : intOps.Laws where
  add_assoc := Int.add_assoc
  add_comm := Int.add_comm
  add_zero := Int.add_zero
  mul_assoc := Int.mul_assoc
  mul_comm := Int.mul_comm
  mul_one := Int.mul_one
  mul_zero := Int.mul_zero
  left_distrib := Int.mul_add

/-- `¬(x1 ∧ ¬x0)` under the order `1 < 0`, with a complemented root and a complemented edge -/
def ex : Ptr := .node true 1 .fls (.node true 0 .fls .tru)
/-- weights `(-1, 2)` and `(3, -2)`: normalised, not probabilities -/
def exW : Weights Int := fun v => if v = 0 then (-1, 2) else (3, -2)

example : wmc intOps exW ex = wsumList intOps [0, 1] exW ex.eval (fun _ => false) ∧
    wmc intOps exW ex = -1 :=
  ⟨(wmc_eq_bruteforce intOps_laws exW (p := ex) (by decide) (vars := [0, 1]) (by decide)
      (by decide) (by unfold Normalised; decide) _).1, by decide⟩

example : evaluate ex (fun v => v == 1) = false ∧ ex.eval (fun v => v == 1) = false ∧
    evaluate ex (fun _ => false) = true := by decide

/-- `x0 ∨ x1` as a reduced ordered BDD over the order `[0, 1]`, unnormalised weights -/
def exR : Ptr := .node false 0 (.node false 1 .fls .tru) .tru
theorem exR_robdd : Robdd [0, 1] exR :=
  .node (.node (.fls _) (.tru _) (by decide) rfl (by decide)) (.tru _) (by decide) rfl (by decide)

example : wmc intOps (fun _ => (2, 3)) exR = pathCount intOps (fun _ => (2, 3)) [0, 1] exR.eval (fun _ => false) ∧
    wmc intOps (fun _ => (2, 3)) exR = 9 :=
  ⟨wmc_arbitrary_weights intOps _ (by decide) exR_robdd _, by decide⟩

end C07Bdd

#print axioms C07Bdd.wmc_eq_bruteforce
#print axioms C07Bdd.wmc_order_independent
#print axioms C07Bdd.wmc_complement
#print axioms C07Bdd.evaluate_agrees
#print axioms C07Bdd.wmc_arbitrary_weights
#print axioms C07Bdd.wmc_arbitrary_weights_lvl
