import RsddModel.Model.GenTables
import RsddModel.Model.Lru
import RsddModel.Model.RobinHood
/-!
# Tie to the source text (translator route): the two hash tables

`RsddModel/Model/GenTables.lean` is rewritten by `tools/gen_tables.py` from `src/util/lru.rs` and
`src/backing_store/bump_table.rs` on every run (statement by statement; see the header of the
translator for the conventions and the trusted mapping).  The theorems below state that the
regenerated definitions ARE the hand-written model definitions `Lru.*` (Model/Lru.lean) and `RH.*`
(Model/RobinHood.lean) every other theorem is about.  They are static; when a statement, an
operand, a branch or a comparison of the source changes, the regenerated definition changes and
the corresponding theorem stops checking.

Shapes of the statements (where the generated and the model definition are not literally the
same function):
* `Lru::insert` and `Lru::grow` are mutually recursive in the Rust; the generated definitions
  take the partner as a parameter (`Gen.Lru.insert num den grow`, `Gen.Lru.grow insert`).
  `lru_insert` ties `needGrow`, `insertNoGrow` and `insert` at once; `lru_grow` is the model's
  `grow` (inner insertions = `insertNoGrow`); `lru_grow_rust` says that with the real partner the
  generated `grow` is `Lru.growRust`-shaped, which `Lru.growRust_eq_grow` (Lemmas/Lru.lean) proves
  equal to `Lru.grow` (see also `Lemmas/TieTablesAux.lean`).
* every Rust `loop` is the generated `<fn>_loop`, tied to the fuel recursion of the model by
  induction on the fuel (`rh_propagate_loop`, `rh_getOrInsertByHash_loop`, `rh_getByHash_loop`).
* the model's `probe`/`getOrInsert` return an extra flag "was a hit" that the Rust does not
  return: the tie is up to the projection `proj`; `Lemmas/TieTablesAux.lean` shows that the flag
  is determined by the tied part (`hits` was incremented).
* `get_or_insert_by_hash` is tied at `equality_by_hash = false`, the only value the model covers.

Each proof is a cascade `rfl` / `simp only [unfold] <;> tie_close` / case analysis, so that
harmless re-arrangements of the source (commuted `==`, flipped comparison, swapped `let`s,
`is_none` with swapped branches, `continue` instead of `else`, `mem::swap`, `Option::replace`,
`filter`/`map` instead of `match`) still check.
-/
set_option linter.unusedSimpArgs false
set_option linter.unusedVariables false
namespace TieTables

/-- closing cascade: definitional equality, congruence closure, then case analysis on every
`if`/`match` of the goal -/
macro "tie_close" : tactic => `(tactic| first
  | rfl
  | grind
  | (simp; done)
  | ((repeat' split) <;> simp_all; done)
  | ((repeat' split) <;> simp_all <;> grind))

variable {K V : Type}

/-! ## `src/util/lru.rs` -/

theorem lru_powCap : Gen.Lru.powCap = Lru.powCap := by
  first
  | rfl
  | (funext v p; simp only [Gen.Lru.powCap, Lru.powCap] <;> tie_close)
  | (funext v p; simp [Gen.Lru.powCap, Lru.powCap, Nat.shiftLeft_eq] <;> tie_close)

theorem lru_new : @Gen.Lru.new K V = @Lru.new K V := by
  first
  | rfl
  | (funext cap; simp only [Gen.Lru.new, Lru.new] <;> tie_close)
  | (funext cap; simp [Gen.Lru.new, Lru.new] <;> tie_close)

/-- `Lru::insert` (growth test `needGrow`, the body `insertNoGrow`), for every `grow` it calls -/
theorem lru_insert (num den : Nat) (g : Lru.Tbl K V → Lru.Tbl K V) (t : Lru.Tbl K V) (k : K) (v : V)
    (h : Nat) :
    Gen.Lru.insert num den g t k v h
      = Lru.insertNoGrow (if Lru.needGrow num den t then g t else t) k v h := by
  first
  | rfl
  | (simp only [Gen.Lru.insert, Lru.insertNoGrow, Lru.needGrow, lru_powCap] <;> first | rfl | grind)
  | (simp only [Gen.Lru.insert, Lru.insertNoGrow, lru_powCap]
     by_cases hg : Lru.needGrow num den t = true
     all_goals (have hg' := hg; simp only [Lru.needGrow] at hg'; simp [hg, hg'])
     all_goals tie_close)
  | (simp only [Gen.Lru.insert, Lru.insertNoGrow, lru_powCap]
     by_cases hg : Lru.needGrow num den t = true
     all_goals (have hg' := hg; simp [Lru.needGrow, Nat.mul_comm] at hg'; simp [hg, hg', Nat.mul_comm])
     all_goals tie_close)

/-- `Lru::insert` with the model's `grow` is the model's `insert` -/
theorem lru_insert_model (num den : Nat) :
    Gen.Lru.insert (K := K) (V := V) num den Lru.grow = Lru.insert num den := by
  funext t k v h
  rw [lru_insert]
  rfl

/-- the body of `Lru::insert` after the growth test is `insertNoGrow` -/
theorem lru_insertNoGrow (num den : Nat) :
    Gen.Lru.insert (K := K) (V := V) num den id = Lru.insertNoGrow := by
  funext t k v h
  rw [lru_insert]
  simp

/-- `Lru::grow`, inner insertions by `insertNoGrow` (the model's reading) -/
theorem lru_grow : Gen.Lru.grow (K := K) (V := V) Lru.insertNoGrow = Lru.grow := by
  first
  | rfl
  | (funext t; simp only [Gen.Lru.grow, Lru.grow, lru_new] <;> tie_close)
  | (funext t; simp only [Gen.Lru.grow, Lru.grow, lru_new]; congr 1 <;> (try congr 1) <;>
      (try (funext acc e; cases e <;> simp)) <;> tie_close)

/-- `Lru::grow` for any inner insertion function: the fold of the Rust loop (`Lru.growRust`-shaped) -/
theorem lru_grow_rust (ins : Lru.Tbl K V → K → V → Nat → Lru.Tbl K V) (t : Lru.Tbl K V) :
    Gen.Lru.grow ins t =
      (let nt := t.tbl.foldl (fun (acc : Lru.Tbl K V) e =>
          match e with
          | some e => ins acc e.key e.val e.hash
          | none => acc) (Lru.new (t.cap + 1))
       ⟨nt.tbl, nt.cap, t.numFilled⟩) := by
  first
  | rfl
  | (simp only [Gen.Lru.grow, lru_new] <;> tie_close)
  | (simp only [Gen.Lru.grow, lru_new]; congr 1 <;> (try congr 1) <;>
      (try (funext acc e; cases e <;> simp)) <;> tie_close)

theorem lru_get [DecidableEq K] : @Gen.Lru.get K V _ = @Lru.get K V _ := by
  first
  | rfl
  | (funext t k h; simp only [Gen.Lru.get, Lru.get, lru_powCap] <;> first | rfl | grind)
  | (funext t k h; simp only [Gen.Lru.get, Lru.get, lru_powCap]
     cases hx : t.tbl.getD (Lru.powCap h t.cap) none <;> simp [hx, Option.filter, eq_comm] <;> tie_close)
  | (funext t k h; simp only [Gen.Lru.get, Lru.get, lru_powCap] <;> tie_close)

/-! ## `src/backing_store/bump_table.rs` -/

/-- the `loop` of the free function `propagate` -/
theorem rh_propagate_loop (cap : Nat) (itm : RH.Slot) (fuel : Nat) (v : List RH.Slot) (s : RH.Slot)
    (pos : Nat) :
    Gen.RH.propagate_loop cap itm fuel v s pos = RH.propagate fuel v cap s pos := by
  induction fuel generalizing v s pos with
  | zero => first | rfl | (simp only [Gen.RH.propagate_loop, RH.propagate] <;> tie_close)
  | succ n ih =>
    first
    | (simp only [Gen.RH.propagate_loop, RH.propagate, RH.Slot.occ, ih] <;> first | rfl | grind)
    | (simp only [Gen.RH.propagate_loop, RH.propagate, RH.Slot.occ, ih]
       cases hp : (RH.sget v pos).ptr <;> simp [hp] <;> tie_close)
    | (simp only [Gen.RH.propagate_loop, RH.propagate, RH.Slot.occ, ih] <;> tie_close)

theorem rh_propagate : Gen.RH.propagate = RH.propagate := by
  funext fuel v cap itm pos
  first
  | (simp only [Gen.RH.propagate, rh_propagate_loop]; done)
  | (simp only [Gen.RH.propagate, rh_propagate_loop] <;> tie_close)

theorem rh_new : Gen.RH.new = RH.mk := by
  first
  | rfl
  | (simp only [Gen.RH.new, RH.mk, RH.Slot.empty] <;> first | rfl | grind)

theorem rh_verifWithCapacity : Gen.RH.verifWithCapacity = fun cap => RH.mk cap := by
  first
  | rfl
  | (funext cap; simp only [Gen.RH.verifWithCapacity, RH.mk, RH.Slot.empty] <;> first | rfl | grind)

theorem rh_grow (extra : Nat) (t : RH.Tbl) : Gen.RH.grow extra t = RH.grow t extra := by
  first
  | rfl
  | (simp only [Gen.RH.grow, RH.grow, rh_propagate, RH.Slot.occ, RH.Slot.empty] <;> first | rfl | grind)
  | (simp only [Gen.RH.grow, RH.grow, rh_propagate, RH.Slot.occ, RH.Slot.empty]; congr 1 <;>
      (try congr 1) <;> (try (funext acc e; cases hp : e.ptr <;> simp [hp])) <;> tie_close)

/-- the model's `probe` returns in addition a flag "was a hit", which the Rust does not return -/
def proj (r : RH.Tbl × Nat × Bool) : RH.Tbl × Nat := (r.1, r.2.1)

/-- the `loop` of `get_or_insert_by_hash` (with `equality_by_hash = false`) is `RH.probe` -/
theorem rh_getOrInsertByHash_loop (num den extra : Nat) (t : RH.Tbl) (hash key fuel pos psl : Nat) :
    Gen.RH.getOrInsertByHash_loop num den extra t hash key false fuel pos psl
      = proj (RH.probe t hash key (t.cap + 1 + extra) fuel pos psl) := by
  induction fuel generalizing pos psl with
  | zero => first | rfl | (simp only [Gen.RH.getOrInsertByHash_loop, RH.probe, proj] <;> tie_close)
  | succ n ih =>
    first
    | (simp only [Gen.RH.getOrInsertByHash_loop, RH.probe, RH.insertAt, rh_propagate, ih, proj] <;>
        first | rfl | grind)
    | (simp only [Gen.RH.getOrInsertByHash_loop, RH.probe, RH.insertAt, rh_propagate, ih, proj]
       cases hp : (RH.sget t.slots pos).ptr <;> simp [hp] <;> tie_close)
    | (simp only [Gen.RH.getOrInsertByHash_loop, RH.probe, RH.insertAt, rh_propagate, ih, proj] <;>
        tie_close)

/-- `get_or_insert_by_hash(hash, elem, false)` is the model's `getOrInsert` -/
theorem rh_getOrInsertByHash (num den extra : Nat) (t : RH.Tbl) (hash key : Nat) :
    Gen.RH.getOrInsertByHash num den extra t hash key false
      = proj (RH.getOrInsert ⟨num, den⟩ t hash key extra) := by
  first
  | (simp only [Gen.RH.getOrInsertByHash, RH.getOrInsert, RH.getOrInsertWith, RH.needGrow,
      rh_getOrInsertByHash_loop, rh_grow] <;> first | rfl | grind)
  | (simp only [Gen.RH.getOrInsertByHash, RH.getOrInsert, RH.getOrInsertWith,
      rh_getOrInsertByHash_loop, rh_grow]
     by_cases hg : RH.needGrow ⟨num, den⟩ t = true
     all_goals (have hg' := hg; simp [RH.needGrow, Nat.mul_comm] at hg'; simp [hg, hg', Nat.mul_comm])
     all_goals tie_close)

/-- the `loop` of `get_by_hash` is `RH.probeHash` -/
theorem rh_getByHash_loop (extra : Nat) (t : RH.Tbl) (hash fuel pos psl : Nat) :
    Gen.RH.getByHash_loop extra t hash fuel pos psl = RH.probeHash t hash fuel pos psl := by
  induction fuel generalizing pos psl with
  | zero => first | rfl | (simp only [Gen.RH.getByHash_loop, RH.probeHash] <;> tie_close)
  | succ n ih =>
    first
    | (simp only [Gen.RH.getByHash_loop, RH.probeHash, RH.Slot.occ, ih] <;> first | rfl | grind)
    | (simp only [Gen.RH.getByHash_loop, RH.probeHash, RH.Slot.occ, ih]
       cases hp : (RH.sget t.slots pos).ptr <;> simp [hp] <;> tie_close)
    | (simp only [Gen.RH.getByHash_loop, RH.probeHash, RH.Slot.occ, ih] <;> tie_close)

theorem rh_getByHash (extra : Nat) (t : RH.Tbl) (hash : Nat) :
    Gen.RH.getByHash extra t hash = RH.getByHash t hash extra := by
  first
  | rfl
  | (simp only [Gen.RH.getByHash, RH.getByHash, rh_getByHash_loop] <;> first | rfl | grind)

end TieTables

#print axioms TieTables.lru_powCap
#print axioms TieTables.lru_new
#print axioms TieTables.lru_insert
#print axioms TieTables.lru_insert_model
#print axioms TieTables.lru_insertNoGrow
#print axioms TieTables.lru_grow
#print axioms TieTables.lru_grow_rust
#print axioms TieTables.lru_get
#print axioms TieTables.rh_propagate_loop
#print axioms TieTables.rh_propagate
#print axioms TieTables.rh_new
#print axioms TieTables.rh_verifWithCapacity
#print axioms TieTables.rh_grow
#print axioms TieTables.rh_getOrInsertByHash_loop
#print axioms TieTables.rh_getOrInsertByHash
#print axioms TieTables.rh_getByHash_loop
#print axioms TieTables.rh_getByHash
