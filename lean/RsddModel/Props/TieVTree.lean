import RsddModel.Model.GenVTree
import RsddModel.Model.VTree
import RsddModel.Model.Orders
import RsddModel.Lemmas.TieVTreeAux
import RsddModel.Lemmas.DTree
/-!
# Tie to the source text (translator route): vtrees, the vtree manager, `BTree`, dtrees

`RsddModel/Model/GenVTree.lean` is rewritten from `src/repr/vtree.rs`, `src/util/btree.rs`,
`src/repr/dtree.rs` on every run (tools/gen_vtree.py).  Each theorem states that the regenerated
definition IS the hand-written model definition (`VT.*`, Model/VTree.lean) the theorems of C14 (and,
through the vtree manager, the SDD properties) are about.  A generated `Option` result means "the
Rust may panic here" (`none`); where the model has a total function the tie says the generated one
is `some (model …)`, i.e. the Rust does not panic and computes the model's value.

The `first | rfl | …` cascades accept harmless re-arrangements of the Rust; a changed operand, a
dropped `+ 1`, a swapped branch does not check.
-/
set_option linter.unusedSimpArgs false
set_option linter.unusedVariables false
namespace TieVTree
open VT

/-! ## generic facts used by the cascades -/

theorem bind_some_id {α : Type} (x : Option α) : (x.bind fun b => some b) = x := by
  cases x <;> rfl

theorem bind_some_some {α : Type} {x : Option α} {t : α} (h : x = some t) :
    (x.bind fun b => some (some b)) = some x := by
  subst h; rfl

theorem foldlM_total {α σ : Type} (f : σ → α → Option σ) (g : σ → α → σ) (h : ∀ s a, f s a = some (g s a))
    (l : List α) (s : σ) : l.foldlM f s = some (l.foldl g s) := by
  induction l generalizing s with
  | nil => rfl
  | cons x xs ih => simp only [List.foldlM_cons, List.foldl_cons, h]; exact ih _

/-! ## `VTree` constructors and measures (src/repr/vtree.rs) -/

theorem newNode_tie : Gen.VT.newNode = VTree.node := by
  first | rfl | (funext l r; simp [Gen.VT.newNode]; done)
theorem newLeaf_tie : Gen.VT.newLeaf = VTree.leaf := by
  first | rfl | (funext v; simp [Gen.VT.newLeaf]; done)

theorem numVarsTree_tie : Gen.VT.numVarsTree = VTree.numVarsTree := by
  first
  | rfl
  | (funext t; induction t <;> simp_all [Gen.VT.numVarsTree, VTree.numVarsTree]; done)
  | (funext t; induction t <;> simp_all [Gen.VT.numVarsTree, VTree.numVarsTree] <;> omega; done)
  | (funext t
     induction t with
     | leaf v => simp [Gen.VT.numVarsTree, VTree.numVarsTree]
     | node l r ihl ihr => simp only [Gen.VT.numVarsTree, VTree.numVarsTree, ihl, ihr]; omega)

theorem allVars_tie : Gen.VT.allVars = Tr.allVars := by
  first
  | rfl
  | (funext t; induction t <;> simp_all [Gen.VT.allVars, Tr.allVars]; done)

theorem flattenVtree_tie : Gen.VT.flattenVtree = VTree.leaves := by
  first
  | rfl
  | (funext t; induction t <;> simp_all [Gen.VT.flattenVtree, VTree.leaves]; done)

theorem rightLinear_tie : Gen.VT.rightLinear = VTree.rightLinear := by
  first
  | rfl
  | (funext order
     induction order with
     | nil => simp [Gen.VT.rightLinear, VTree.rightLinear]
     | cons x xs ih =>
       cases xs with
       | nil => simp [Gen.VT.rightLinear, VTree.rightLinear]
       | cons y ys =>
         simp only [Gen.VT.rightLinear, VTree.rightLinear, ih]
         cases VTree.rightLinear (y :: ys) <;> simp [newNode_tie, newLeaf_tie])

theorem leftLinearF_spec : ∀ (fuel : Nat) (xs : List Nat) (x : Nat), xs.length < fuel →
    Gen.VT.leftLinearF fuel (x :: xs)
      = some (xs.foldl (fun t y => VTree.node t (VTree.leaf y)) (VTree.leaf x)) := by
  first
  | (intro fuel xs x _; rfl)
  | (intro fuel
     induction fuel with
     | zero => intro xs x h; omega
     | succ n ih =>
       intro xs x h
       by_cases hx : xs = []
       · subst hx; simp [Gen.VT.leftLinearF, newNode_tie, newLeaf_tie]
       · have e := List.dropLast_concat_getLast hx
         generalize xs.getLast hx = y at e
         generalize xs.dropLast = ys at e
         subst e
         have hs : Tr.sliceBack (x :: (ys ++ [y])) = some (x :: ys, y) := Tr.sliceBack_append (x :: ys) y
         have hl : ys.length < n := by simp at h; omega
         have hrec := ih ys x hl
         cases ys with
         | nil =>
           simp only [List.nil_append] at hs ⊢
           simp [Gen.VT.leftLinearF, hs, hrec, newNode_tie, newLeaf_tie]
         | cons z zs =>
           simp only [List.cons_append] at hs ⊢
           simp [Gen.VT.leftLinearF, hs, hrec, newNode_tie, newLeaf_tie])

theorem leftLinear_tie : Gen.VT.leftLinear = VTree.leftLinear := by
  first
  | rfl
  | (funext order
     cases order with
     | nil => simp [Gen.VT.leftLinear, Gen.VT.leftLinearF, VTree.leftLinear, Tr.sliceBack]
     | cons x xs =>
       simp only [Gen.VT.leftLinear, VTree.leftLinear]
       exact leftLinearF_spec _ xs x (by simp only [List.length_cons]; omega))

theorem rightLinearC_cons_some (v : Nat) (vs : List Nat) (c : Option VTree) :
    ∃ t, VTree.rightLinearC (v :: vs) c = some t := by
  simp only [VTree.rightLinearC]
  cases VTree.rightLinearC vs c <;> simp

theorem rightLinearC_some_some (vs : List Nat) (s : VTree) :
    ∃ t, VTree.rightLinearC vs (some s) = some t := by
  cases vs with
  | nil => exact ⟨s, rfl⟩
  | cons v vs => exact rightLinearC_cons_some v vs _

theorem rightLinearC_tie : Gen.VT.rightLinearC = VTree.rightLinearC := by
  first
  | rfl
  | (funext vars c
     induction vars with
     | nil => cases c <;> simp [Gen.VT.rightLinearC, VTree.rightLinearC]
     | cons v vs ih =>
       cases vs with
       | nil => cases c <;> simp [Gen.VT.rightLinearC, VTree.rightLinearC, newNode_tie, newLeaf_tie]
       | cons w ws =>
         obtain ⟨t, ht⟩ := rightLinearC_cons_some w ws c
         simp only [Gen.VT.rightLinearC, VTree.rightLinearC, ih, ht]
         first
         | (simp [newNode_tie, newLeaf_tie]; done)
         | (cases VTree.rightLinearC ws c <;> simp [newNode_tie, newLeaf_tie]))

theorem evenSplitF_spec : ∀ (fuel : Nat) (order : List Nat) (k : Nat), k < fuel →
    Gen.VT.evenSplitF fuel order k = VTree.evenSplit order k := by
  first
  | (intro fuel order k _; rfl)
  | (intro fuel
     induction fuel with
     | zero => intro order k h; omega
     | succ n ih =>
       intro order k h
       cases k with
       | zero => simp [Gen.VT.evenSplitF, VTree.evenSplit, rightLinear_tie, bind_some_id]
       | succ k =>
         have hk : k < n := by omega
         simp only [Gen.VT.evenSplitF, VTree.evenSplit, Nat.add_sub_cancel, ih _ k hk]
         cases VTree.evenSplit (order.take (order.length / 2)) k <;>
           cases VTree.evenSplit (order.drop (order.length / 2)) k <;>
             simp [newNode_tie, newLeaf_tie])

theorem evenSplit_tie : Gen.VT.evenSplit = VTree.evenSplit := by
  first
  | rfl
  | (funext order k; simp only [Gen.VT.evenSplit]; exact evenSplitF_spec _ order k (by omega); done)

/-! ## `BTree` (src/util/btree.rs) -/

theorem isLeaf_tie : Gen.VT.isLeaf = VTree.isLeaf := by
  first
  | rfl
  | (funext t; cases t <;> rfl; done)
  | (funext t; cases t <;> simp [Gen.VT.isLeaf, VTree.isLeaf]; done)

theorem dfsRecurse_tie : Gen.VT.dfsRecurse = fun t v => v ++ VTree.inorder t := by
  first
  | rfl
  | (funext t
     induction t with
     | leaf x => funext v; simp [Gen.VT.dfsRecurse, VTree.inorder]
     | node l r ihl ihr => funext v; simp [Gen.VT.dfsRecurse, VTree.inorder, ihl, ihr, List.append_assoc])

theorem inorderDfsIter_tie : Gen.VT.inorderDfsIter = VTree.inorder := by
  first
  | rfl
  | (funext t; simp [Gen.VT.inorderDfsIter, dfsRecurse_tie]; done)

theorem lcaBfs_tie : Gen.VT.lcaBfs = VTreeManager.lcaBfs := by
  first
  | rfl
  | (funext m l r; simp only [Gen.VT.lcaBfs, VTreeManager.lcaBfs]; split <;> (try split) <;> simp_all <;> (intros; omega); done)
  | (funext m l r; simp only [Gen.VT.lcaBfs, VTreeManager.lcaBfs]
     generalize m.indexMap.getD l 0 = a
     generalize m.indexMap.getD r 0 = b
     by_cases h1 : l = r
     · simp [h1]
     · rcases Nat.lt_trichotomy a b with h | h | h
       · have h' : a ≤ b := by omega
         simp [h1, h, h']
       · subst h; simp [h1]
       · have h' : ¬ a ≤ b := by omega
         have h'' : ¬ a < b := by omega
         have h3 : b ≤ a := by omega
         simp [h1, h, h', h'', h3])
  | (funext m l r; simp only [Gen.VT.lcaBfs, VTreeManager.lcaBfs]
     by_cases h1 : l = r <;> by_cases h2 : m.indexMap.getD l 0 < m.indexMap.getD r 0 <;> simp_all <;> (intros; omega))

/-! ## `VTreeManager` (src/repr/vtree.rs) -/

/-- the `for (idx, v) in tree.inorder_dfs_iter().enumerate()` loop of `VTreeManager::new`: any body
that appends `v` to `index_lookup` and records `idx` for a leaf is the model's `lookupLoop` -/
theorem forEnum_lookup0 (L : List VTree) (k : Nat) (acc : List VTree) (tbl : List Nat) :
    (L.zipIdx k).foldl (fun (s : List VTree × List Nat) p =>
        (s.1 ++ [p.1], match p.1 with | .leaf x => s.2.set x p.2 | .node _ _ => s.2)) (acc, tbl)
      = (acc ++ L, VTree.lookupLoop L k tbl) := by
  induction L generalizing k acc tbl with
  | nil => simp [VTree.lookupLoop]
  | cons x xs ih =>
    rw [List.zipIdx_cons, List.foldl_cons, ih]
    cases x <;> simp [VTree.lookupLoop]

theorem forEnum_lookup (f : Nat → VTree → List VTree × List Nat → List VTree × List Nat)
    (hf : ∀ i v s, f i v s = (s.1 ++ [v], match v with | .leaf x => s.2.set x i | .node _ _ => s.2))
    (L : List VTree) (acc : List VTree) (tbl : List Nat) :
    Tr.forEnum L (acc, tbl) f = (acc ++ L, VTree.lookupLoop L 0 tbl) := by
  have : f = fun i v s => (s.1 ++ [v], match v with | .leaf x => s.2.set x i | .node _ _ => s.2) := by
    funext i v s; exact hf i v s
  subst this
  exact forEnum_lookup0 L 0 acc tbl

theorem mgrNew_tie : Gen.VT.mgrNew = VTreeManager.new := by
  first
  | rfl
  | (funext t
     simp only [Gen.VT.mgrNew, VTreeManager.new]
     rw [forEnum_lookup]
     · simp [inorderDfsIter_tie, numVarsTree_tie, Tr.lcaNew]
     · intro i v s; cases v <;> simp [isLeaf_tie, VTree.isLeaf, Tr.leafD])

theorem vtreeRoot_tie : Gen.VT.vtreeRoot = VTreeManager.tree := by
  first | rfl | (funext m; simp [Gen.VT.vtreeRoot]; done)

theorem mgrLca_tie : Gen.VT.mgrLca = VTreeManager.lca := by
  first
  | rfl
  | (funext m l r; simp [Gen.VT.mgrLca, VTreeManager.lca, lcaBfs_tie]; done)

theorem mgrVtree_tie : Gen.VT.mgrVtree = VTreeManager.vtree := by
  first
  | rfl
  | (funext m i; simp [Gen.VT.mgrVtree, VTreeManager.vtree, bind_some_id]; done)

theorem varIndex_tie : Gen.VT.varIndex = VTreeManager.getVarlabelIdx := by
  first | rfl | (funext m l; simp [Gen.VT.varIndex, VTreeManager.getVarlabelIdx]; done)

theorem isPrimeIndex_tie : Gen.VT.isPrimeIndex = VTreeManager.isPrimeIndex := by
  first | rfl | (funext m l r; simp [Gen.VT.isPrimeIndex, VTreeManager.isPrimeIndex]; done) |
    (funext m l r; simp [Gen.VT.isPrimeIndex, VTreeManager.isPrimeIndex]; omega; done)

theorem isPrimeVar_tie : Gen.VT.isPrimeVar = VTreeManager.isPrimeVar := by
  first
  | rfl
  | (funext m a b; simp [Gen.VT.isPrimeVar, VTreeManager.isPrimeVar, isPrimeIndex_tie, varIndex_tie]; done)
  | (funext m a b; simp [Gen.VT.isPrimeVar, VTreeManager.isPrimeVar, isPrimeIndex_tie, varIndex_tie,
      VTreeManager.isPrimeIndex, VTreeManager.getVarlabelIdx, Gen.VT.isPrimeIndex, Gen.VT.varIndex])

/-- `VTreeManager::num_vars` does not panic and is the model's `numVars` (largest label + 1) -/
theorem mgrNumVars_tie : Gen.VT.mgrNumVars = fun m => some (VTreeManager.numVars m) := by
  first
  | rfl
  | (funext m; simp [Gen.VT.mgrNumVars, VTreeManager.numVars, vtreeRoot_tie, allVars_tie, Tr.listMax?_allVars]; done)

/-! ## dtrees (src/repr/dtree.rs) -/

theorem getVars_tie : Gen.VT.getVars = DTree.vars := by
  first
  | rfl
  | (funext d; cases d <;> rfl; done)
  | (funext d; cases d <;> simp [Gen.VT.getVars, DTree.vars]; done)

theorem initVars_tie : Gen.VT.initVars = DTree.initVars := by
  first
  | rfl
  | (funext d; induction d <;> simp_all [Gen.VT.initVars, DTree.initVars, getVars_tie, Tr.forIn']; done)

theorem genCutset_tie : Gen.VT.genCutset = fun d a => DTree.genCutset a d := by
  first
  | rfl
  | (funext d
     induction d with
     | leaf c cut vs => funext a; simp [Gen.VT.genCutset, DTree.genCutset]
     | node l r cut vs ihl ihr => funext a; simp [Gen.VT.genCutset, DTree.genCutset, ihl, ihr, getVars_tie])

theorem balancedF_tie : ∀ (fuel : Nat) (ts : List DTree), Gen.VT.balancedF fuel ts = DTree.balancedAux fuel ts := by
  first
  | (intro fuel ts; rfl)
  | (intro fuel
     induction fuel with
     | zero => intro ts; simp [Gen.VT.balancedF, DTree.balancedAux]
     | succ n ih =>
       intro ts
       match ts with
       | [] => simp [Gen.VT.balancedF, DTree.balancedAux]
       | [t] => simp [Gen.VT.balancedF, DTree.balancedAux]
       | a :: b :: rest =>
         simp only [Gen.VT.balancedF, DTree.balancedAux, ih]
         cases DTree.balancedAux n ((a :: b :: rest).take ((a :: b :: rest).length / 2)) <;>
           cases DTree.balancedAux n ((a :: b :: rest).drop ((a :: b :: rest).length / 2)) <;>
             simp)

theorem balanced_tie : Gen.VT.balanced = DTree.balanced := by
  first
  | rfl
  | (funext ts; simp [Gen.VT.balanced, DTree.balanced, balancedF_tie]; done)

theorem cutwidth_tie : Gen.VT.cutwidth = DTree.cutwidth := by
  first
  | rfl
  | (funext d; induction d <;> simp_all [Gen.VT.cutwidth, DTree.cutwidth]; done)
  | (funext d; induction d <;> simp_all [Gen.VT.cutwidth, DTree.cutwidth] <;> omega; done)
  | (funext d
     induction d with
     | leaf c cut vs => simp [Gen.VT.cutwidth, DTree.cutwidth]
     | node l r cut vs ihl ihr => simp only [Gen.VT.cutwidth, DTree.cutwidth, ihl, ihr]; omega)

/-- one round of the elimination loop never panics and is the model's `elimStep` -/
theorem elimStep_total (f : List DTree → Nat → Option (List DTree))
    (hf : ∀ s o, f s o =
      if (s.filter fun d => d.vars.contains o).isEmpty then some (s.filter fun d => !d.vars.contains o)
      else (DTree.balanced (s.filter fun d => d.vars.contains o)).bind fun nt =>
        some ((s.filter fun d => !d.vars.contains o) ++ [DTree.initVars nt])) :
    ∀ s o, f s o = some (DTree.elimStep s o) := by
  intro s o
  rw [hf]
  simp only [DTree.elimStep]
  cases hb : DTree.balanced (s.filter fun d => d.vars.contains o) with
  | none =>
    have := balanced_none hb
    rw [this]; rfl
  | some nt =>
    have hne : (s.filter fun d => d.vars.contains o).isEmpty = false := by
      cases h : (s.filter fun d => d.vars.contains o) with
      | nil => rw [h, balanced_nil] at hb; cases hb
      | cons a as => rfl
    rw [hne]; rfl

/-- `DTree::from_cnf` reads its `&VarOrder` argument only through `in_order_iter()` (the `pos_to_var` list) -/
theorem fromCnf_tie : Gen.VT.fromCnf = fun (cs : Spec.Cnf) (o : Orders.VarOrder) => DTree.fromCnf cs o.inOrder := by
  first
  | rfl
  | (funext cs eo
     simp only [Gen.VT.fromCnf, DTree.fromCnf, Tr.forInM]
     rw [foldlM_total _ DTree.elimStep
       (elimStep_total _ (by intro s o; simp [getVars_tie, balanced_tie, initVars_tie]))]
     have hl : (fun c => DTree.initVars (DTree.leaf c [] [])) = DTree.leafOf := rfl
     simp only [Option.bind_some, balanced_tie, initVars_tie, genCutset_tie, DTree.components, hl]
     cases DTree.balanced (List.foldl DTree.elimStep (List.map DTree.leafOf cs) eo.inOrder) <;> rfl)

/-! ## `VTree::from_dtree` -/

/-- `VTree::from_dtree` does not panic and is the model's `fromDtree` -/
theorem fromDtree_tie : Gen.VT.fromDtree = fun d => some (VTree.fromDtree d) := by
  first
  | rfl
  | (funext d
     induction d with
     | leaf c cut vs =>
       cases cut with
       | nil => simp [Gen.VT.fromDtree, VTree.fromDtree, rightLinearC_tie, VTree.rightLinearC]
       | cons x xs =>
         obtain ⟨t, ht⟩ := rightLinearC_cons_some x xs none
         simp [Gen.VT.fromDtree, VTree.fromDtree, rightLinearC_tie, ht]
     | node l r cut vs ihl ihr =>
       simp only [Gen.VT.fromDtree, VTree.fromDtree, ihl, ihr, rightLinearC_tie, newNode_tie, Option.bind_some]
       cases VTree.fromDtree l <;> cases VTree.fromDtree r <;> cases cut with
       | nil => simp [VTree.rightLinearC]
       | cons x xs =>
         first
         | (obtain ⟨t, ht⟩ := rightLinearC_cons_some x xs none; simp [ht]; done)
         | (rename_i a; obtain ⟨t, ht⟩ := rightLinearC_cons_some x xs (some a); simp [ht]; done)
         | (rename_i a b; obtain ⟨t, ht⟩ := rightLinearC_cons_some x xs (some (VTree.node a b)); simp [ht]; done))

end TieVTree

#print axioms TieVTree.newNode_tie
#print axioms TieVTree.newLeaf_tie
#print axioms TieVTree.numVarsTree_tie
#print axioms TieVTree.allVars_tie
#print axioms TieVTree.flattenVtree_tie
#print axioms TieVTree.rightLinear_tie
#print axioms TieVTree.leftLinearF_spec
#print axioms TieVTree.leftLinear_tie
#print axioms TieVTree.rightLinearC_tie
#print axioms TieVTree.evenSplitF_spec
#print axioms TieVTree.evenSplit_tie
#print axioms TieVTree.isLeaf_tie
#print axioms TieVTree.dfsRecurse_tie
#print axioms TieVTree.inorderDfsIter_tie
#print axioms TieVTree.lcaBfs_tie
#print axioms TieVTree.mgrNew_tie
#print axioms TieVTree.vtreeRoot_tie
#print axioms TieVTree.mgrLca_tie
#print axioms TieVTree.mgrVtree_tie
#print axioms TieVTree.varIndex_tie
#print axioms TieVTree.isPrimeIndex_tie
#print axioms TieVTree.isPrimeVar_tie
#print axioms TieVTree.mgrNumVars_tie
#print axioms TieVTree.getVars_tie
#print axioms TieVTree.initVars_tie
#print axioms TieVTree.genCutset_tie
#print axioms TieVTree.balancedF_tie
#print axioms TieVTree.balanced_tie
#print axioms TieVTree.cutwidth_tie
#print axioms TieVTree.fromCnf_tie
#print axioms TieVTree.fromDtree_tie
