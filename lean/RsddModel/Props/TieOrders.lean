import RsddModel.Model.GenOrders
import RsddModel.Props.C14
/-!
# Tie to the source text (translator route): `VarOrder` (src/repr/var_order.rs)

`RsddModel/Model/GenOrders.lean` is rewritten from the Rust text on every run
(tools/gen_orders.py).  Each theorem states that the regenerated definition IS the hand-written
model definition the theorems of C14 are about.  The `first | rfl | …` cascades accept harmless
re-arrangements of the Rust; a changed index, a swapped vector, a `<` for a `<=` does not check.
-/
namespace TieOrders
open Orders

/-- the translation of `for i in 0..xs.len() { v[xs[i]] = i; p.push(xs[i]) }` is the model's
`newLoop` (first component) and rebuilds `xs` (second component) -/
theorem forRange_new_aux (pre xs : List Nat) (v p : List Nat) :
    (List.range' pre.length xs.length).foldl
        (fun (s : List Nat × List Nat) i => (s.1.set ((pre ++ xs).getD i 0) i, s.2 ++ [(pre ++ xs).getD i 0])) (v, p)
      = (newLoop xs pre.length v, p ++ xs) := by
  induction xs generalizing pre v p with
  | nil => simp [newLoop]
  | cons x xs ih =>
    simp only [List.length_cons, List.range'_succ, List.foldl_cons]
    have hx : (pre ++ x :: xs).getD pre.length 0 = x := by simp [List.getD]
    have h := ih (pre ++ [x]) (v.set x pre.length) (p ++ [x])
    simp only [List.length_append, List.length_singleton, List.append_assoc, List.singleton_append] at h
    simp only [hx, newLoop]
    rw [h]

theorem forRange_new (order : List Nat) :
    forRange 0 order.length
        (fun i (s : List Nat × List Nat) => (s.1.set (order.getD i 0) i, s.2 ++ [order.getD i 0]))
        (List.replicate order.length 0, ([] : List Nat))
      = (newLoop order 0 (List.replicate order.length 0), order) := by
  have h := forRange_new_aux [] order (List.replicate order.length 0) []
  simpa [forRange] using h

theorem numVars_tie : Gen.Orders.numVars = VarOrder.numVars := by
  first | rfl | (funext o; simp [Gen.Orders.numVars, VarOrder.numVars]; done; done)
theorem get_tie : Gen.Orders.get = VarOrder.get := by
  first | rfl | (funext o v; simp [Gen.Orders.get, VarOrder.get]; done; done)
theorem varAtLevel_tie : Gen.Orders.varAtLevel = VarOrder.varAtLevel := by
  first | rfl | (funext o v; simp [Gen.Orders.varAtLevel, VarOrder.varAtLevel]; done; done)
theorem lt_tie : Gen.Orders.lt = VarOrder.lt := by
  first
  | rfl
  | (funext o a b; simp [Gen.Orders.lt, VarOrder.lt, VarOrder.get, get_tie, Gen.Orders.get]; done)
  | (funext o a b; simp [Gen.Orders.lt, VarOrder.lt, VarOrder.get, get_tie, Gen.Orders.get]; omega; done)
  | (funext o a b; simp only [Gen.Orders.lt, VarOrder.lt, VarOrder.get, Gen.Orders.get]; grind; done)
theorem lte_tie : Gen.Orders.lte = VarOrder.lte := by
  first
  | rfl
  | (funext o a b; simp [Gen.Orders.lte, VarOrder.lte, VarOrder.get, get_tie, Gen.Orders.get]; done)
  | (funext o a b; simp [Gen.Orders.lte, VarOrder.lte, VarOrder.get, get_tie, Gen.Orders.get]; omega; done)
  | (funext o a b; simp only [Gen.Orders.lte, VarOrder.lte, VarOrder.get, Gen.Orders.get]; grind; done)
theorem above_tie : Gen.Orders.above = VarOrder.above := by
  first
  | rfl
  | (funext o a; simp [Gen.Orders.above, VarOrder.above, VarOrder.get, VarOrder.varAtLevel, get_tie, varAtLevel_tie, Gen.Orders.get, Gen.Orders.varAtLevel]; done)
  | (funext o a; simp only [Gen.Orders.above, VarOrder.above, VarOrder.get, VarOrder.varAtLevel, get_tie, varAtLevel_tie, Gen.Orders.get, Gen.Orders.varAtLevel]; split <;> split <;> simp_all <;> omega; done)
  | (funext o a; simp only [Gen.Orders.above, VarOrder.above, VarOrder.get, VarOrder.varAtLevel, Gen.Orders.get, Gen.Orders.varAtLevel]; grind; done)
theorem below_tie : Gen.Orders.below = VarOrder.below := by
  first
  | rfl
  | (funext o a; simp [Gen.Orders.below, VarOrder.below, VarOrder.get, VarOrder.varAtLevel, get_tie, varAtLevel_tie, Gen.Orders.get, Gen.Orders.varAtLevel]; done)
  | (funext o a; simp only [Gen.Orders.below, VarOrder.below, VarOrder.get, VarOrder.varAtLevel, get_tie, varAtLevel_tie, Gen.Orders.get, Gen.Orders.varAtLevel]; split <;> split <;> simp_all <;> omega; done)
  | (funext o a; simp only [Gen.Orders.below, VarOrder.below, VarOrder.get, VarOrder.varAtLevel, Gen.Orders.get, Gen.Orders.varAtLevel]; grind; done)
theorem lastVar_tie : Gen.Orders.lastVar = VarOrder.lastVar := by
  first
  | rfl
  | (funext o; simp [Gen.Orders.lastVar, VarOrder.lastVar, VarOrder.varAtLevel, varAtLevel_tie, Gen.Orders.varAtLevel]; done)
theorem newLast_tie : Gen.Orders.newLast = VarOrder.newLast := by
  first
  | rfl
  | (funext o; simp [Gen.Orders.newLast, VarOrder.newLast]; done)
  | (funext o; simp only [Gen.Orders.newLast, VarOrder.newLast]; grind; done)
theorem inOrder_tie : Gen.Orders.inOrder = VarOrder.inOrder := by
  first
  | rfl
  | (funext o; simp [Gen.Orders.inOrder, VarOrder.inOrder]; done)
theorem new_tie : Gen.Orders.new = VarOrder.new := by
  first
  | rfl
  | (funext order; simp only [Gen.Orders.new, VarOrder.new, forRange_new]; done)
  | (funext order; simp [Gen.Orders.new, VarOrder.new, forRange_new]; done)
theorem linear_tie : Gen.Orders.linear = VarOrder.linear := by
  first
  | rfl
  | (funext n; simp [Gen.Orders.linear, VarOrder.linear, new_tie, List.range_eq_range']; done)

/-! ## what the regenerated accessors mean on a well-formed order (stated about the model
definitions, hence by the ties about the source text) -/

/-- `above` is the variable one level up: its level is one less -/
theorem above_level (o : VarOrder) (a : Nat) (v : Nat) (hinv : ∀ l, l < o.posToVar.length → o.get (o.varAtLevel l) = l)
    (ha : o.get a < o.posToVar.length) (h : Gen.Orders.above o a = some v) : o.get v + 1 = o.get a := by
  rw [above_tie] at h
  simp only [VarOrder.above] at h
  split at h
  · cases h
  · cases h
    rw [hinv _ (by omega)]; omega

/-- `below` is the variable one level down -/
theorem below_level (o : VarOrder) (a : Nat) (v : Nat) (hinv : ∀ l, l < o.posToVar.length → o.get (o.varAtLevel l) = l)
    (h : Gen.Orders.below o a = some v) : o.get v = o.get a + 1 := by
  rw [below_tie] at h
  simp only [VarOrder.below] at h
  split at h
  · cases h
  · cases h
    rw [hinv _ (by omega)]

/-! ## the order clauses of C14, stated for the definitions regenerated from the source text -/

/-- `VarOrder::new` (as the source says now) of a permutation is a permutation in both
directions and its two maps — read through the regenerated accessors `get` / `var_at_level` —
are mutually inverse -/
theorem new_inverse_source {order : List Nat} {n : Nat} (h : order.Perm (List.range n)) :
    (Gen.Orders.new order).posToVar.Perm (List.range n) ∧ (Gen.Orders.new order).varToPos.Perm (List.range n) ∧
    (∀ i, i < n → Gen.Orders.get (Gen.Orders.new order) (Gen.Orders.varAtLevel (Gen.Orders.new order) i) = i) ∧
    (∀ v, v < n → Gen.Orders.varAtLevel (Gen.Orders.new order) (Gen.Orders.get (Gen.Orders.new order) v) = v) := by
  rw [new_tie, get_tie, varAtLevel_tie]
  exact C14.order_inverse (C14.Produced.new h)

/-- the same for `linear_order(n)` -/
theorem linear_inverse_source (n : Nat) :
    (Gen.Orders.linear n).posToVar.Perm (List.range n) ∧ (Gen.Orders.linear n).varToPos.Perm (List.range n) ∧
    (∀ i, i < n → Gen.Orders.get (Gen.Orders.linear n) (Gen.Orders.varAtLevel (Gen.Orders.linear n) i) = i) ∧
    (∀ v, v < n → Gen.Orders.varAtLevel (Gen.Orders.linear n) (Gen.Orders.get (Gen.Orders.linear n) v) = v) := by
  rw [linear_tie, get_tie, varAtLevel_tie]
  exact C14.order_inverse (C14.Produced.linear n)

/-- run-time extension as the source says now: the fresh label is `n`, the extended order is
again a permutation with inverse maps, and `lt` is the comparison of levels -/
theorem newLast_source {o : VarOrder} {n : Nat} (h : o.WF n) :
    (Gen.Orders.newLast o).1.WF (n + 1) ∧ (Gen.Orders.newLast o).2 = n ∧
    ∀ a b, Gen.Orders.lt o a b = decide (Gen.Orders.get o a < Gen.Orders.get o b) := by
  rw [newLast_tie, lt_tie, get_tie]
  exact ⟨(C14.newLast_perm h).1, (C14.newLast_perm h).2, fun a b => rfl⟩

-- non-vacuity: the linear order on three variables
example : Gen.Orders.above (VarOrder.linear 3) 2 = some 1 ∧ Gen.Orders.below (VarOrder.linear 3) 2 = none
    ∧ Gen.Orders.lastVar (VarOrder.linear 3) = 2 := by decide

#print axioms numVars_tie
#print axioms get_tie
#print axioms varAtLevel_tie
#print axioms lt_tie
#print axioms lte_tie
#print axioms above_tie
#print axioms below_tie
#print axioms lastVar_tie
#print axioms newLast_tie
#print axioms inOrder_tie
#print axioms new_tie
#print axioms linear_tie
#print axioms new_inverse_source
#print axioms linear_inverse_source
#print axioms newLast_source
#print axioms above_level
#print axioms below_level
end TieOrders
