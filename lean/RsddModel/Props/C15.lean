import RsddModel.Lemmas.CnfHasher
/-!
# C15 — the CNF-side utilities agree with their set-theoretic definitions

Model: `Model/CnfUtil.lean` (mirror of `src/repr/cnf.rs`, `model.rs`, `var_label.rs`).
Lemmas: `Lemmas/CnfUtil.lean`, `Lemmas/CnfBook.lean`, `Lemmas/CnfHasher.lean`.

Quantifier of every theorem: all clause lists `cs : List (List Lit)` (the empty list, empty
clauses, repeated and complementary literals included), all literals / partial models / vectors,
all `decide`/`push`/`pop`/`hash` histories of the hasher.

* `new_sem`, `sort_is_stable_sort`, `numVars_spec` — `Cnf::new`;
* `eval_spec`, `eval_panics_iff`, `eval_index_in_range` — `Cnf::eval`;
* `isSatPartial_spec`, `isSatPartial_sound`, `isSatPartial_complete`, and the documented
  counter-example for clauses with complementary literals;
* `condition_sem`, `condition_clauses` — `Cnf::condition`; `varInCnf_spec` — `Cnf::var_in_cnf`;
* `assignmentIter_enumerates`, `wmc_spec`, `wmc_empty`, `wmcOrig_wrong` — `AssignmentIter`, `Cnf::wmc`;
* `hash_formula`, `hash_formula_run`, `hasher_eq_if`, `hasher_eq_only_if`,
  `hasher_eq_only_if_syntactic`, `hash_order_irrelevant`, `literal_primes`, `reach_nonvacuous` —
  `CnfHasher`;
  documented examples: the purely syntactic reading of "the residuals coincide" is not what the
  code implements; a `decide` that contradicts the model breaks the formula; `pop` of the last
  level makes `hash`/`push` panic; `2^128` is exceeded from the 27th literal occurrence on;
* `literal_pack_roundtrip`, `literal_pack_breaks`, partial-model and variable-set algebra.
-/
namespace C15
open Spec CnfUtil

/-! ## `Cnf::new` -/

/-- **normalisation keeps the formula**: the function, the number of clauses, the literal set
of every clause and emptiness of every clause are unchanged -/
theorem new_sem (cs : List (List Lit)) :
    (∀ a, cnfSat a (cnfNew cs).clauses = cnfSat a cs) ∧
    (cnfNew cs).clauses.length = cs.length ∧
    (∀ i l, l ∈ (cnfNew cs).clauses.getD i [] ↔ l ∈ cs.getD i []) ∧
    (∀ i, (cnfNew cs).clauses.getD i [] = [] ↔ cs.getD i [] = []) := by
  refine ⟨fun a => cnfSat_map_normClause a cs, by simp, fun i l => ?_, fun i => ?_⟩
  · rw [cnfNew_clauses, getD_map_nil normClause rfl]; exact mem_normClause
  · rw [cnfNew_clauses, getD_map_nil normClause rfl]; exact normClause_eq_nil

/-- the empty formula and the empty clause are preserved literally -/
theorem new_empty : (cnfNew []).clauses = [] ∧ (cnfNew [[]]).clauses = [[]] := ⟨rfl, rfl⟩

/-- the model's clause normalisation is `dedup` after a *stable sort by label*: the sorted list
is ordered by label, is a permutation, and keeps the relative order of literals with the same
label (these three properties determine the result of a stable sort) -/
theorem sort_is_stable_sort (c : List Lit) :
    normClause c = dedupAdj (sortByLabel c) ∧
    (sortByLabel c).Pairwise (fun a b => a.var ≤ b.var) ∧
    (sortByLabel c).Perm c ∧
    ∀ v, (sortByLabel c).filter (fun x => x.var == v) = c.filter (fun x => x.var == v) :=
  ⟨rfl, sortByLabel_sorted c, sortByLabel_perm c, fun v => sortByLabel_stable v c⟩

/-- `dedup` only removes *adjacent* repetitions, and the stable sort does not bring `x` and a
second `x` together when `¬x` stands between them: the normal form may keep duplicates -/
example : (cnfNew [[⟨0, true⟩, ⟨0, false⟩, ⟨0, true⟩]]).clauses = [[⟨0, true⟩, ⟨0, false⟩, ⟨0, true⟩]] := by
  decide

/-- **`num_vars`** is the specification's (largest label + 1, zero without literals): it is the
least strict upper bound of the labels -/
theorem numVars_spec (cs : List (List Lit)) :
    (cnfNew cs).numVars = cnfNumVars cs ∧
    ∀ n, (cnfNew cs).numVars ≤ n ↔ ∀ c ∈ cs, ∀ l ∈ c, l.var < n := by
  have h : (cnfNew cs).numVars = numVarsOf cs := by rw [cnfNew_numVars, numVarsOf_map_normClause]
  exact ⟨by rw [h, numVarsOf_eq_spec], fun n => by rw [h]; exact numVarsOf_le_iff cs n⟩

example : (cnfNew []).numVars = 0 ∧ (cnfNew [[], []]).numVars = 0 ∧
    (cnfNew [[⟨4, false⟩], [⟨1, true⟩]]).numVars = 5 := by decide

/-! ## `Cnf::eval` -/

/-- **`eval`** on a long enough vector is the specification's satisfaction relation on the
vector's assignment function -/
theorem eval_spec (cs : List (List Lit)) (v : List Bool) (h : (cnfNew cs).numVars ≤ v.length) :
    eval (cnfNew cs) v = some (cnfSat (asgFn v) cs) := by
  rw [eval_eq _ v h, cnfNew_clauses, cnfSat_map_normClause]

/-- it panics (the `assert!`) exactly on vectors shorter than `num_vars` -/
theorem eval_panics_iff (cs : List (List Lit)) (v : List Bool) :
    eval (cnfNew cs) v = none ↔ v.length < (cnfNew cs).numVars := eval_none_iff _ v

/-- and the slice indexing never panics once the `assert!` passed -/
theorem eval_index_in_range (cs : List (List Lit)) (v : List Bool) :
    evalStrict (cnfNew cs) v = eval (cnfNew cs) v := evalStrict_eq cs v

example : eval (cnfNew [[⟨0, true⟩, ⟨1, false⟩], []]) [true, true] = some false ∧
    eval (cnfNew [[⟨0, true⟩, ⟨1, false⟩]]) [true] = none ∧
    eval (cnfNew []) [] = some true := by decide

/-! ## `Cnf::is_sat_partial` -/

/-- **`is_sat_partial`**: every clause contains a literal that the partial model makes true
(a clause whose literals are all unset or false fails the test; so does the empty clause) -/
theorem isSatPartial_spec (cs : List (List Lit)) (m : PartialModel) :
    isSatPartial (cnfNew cs) m = cs.all fun cl => cl.any (litTrue m.toSpec) :=
  isSatPartial_cnfNew cs m

/-- hence every total extension of the partial model satisfies the formula -/
theorem isSatPartial_sound (cs : List (List Lit)) (m : PartialModel)
    (h : isSatPartial (cnfNew cs) m = true) (a : Assign) (ha : Extends a m.toSpec) :
    cnfSat a cs = true := CnfUtil.isSatPartial_sound cs m h a ha

/-- and conversely, "the partial model implies the CNF" (the doc comment) gives `true` when no
clause contains a literal together with its negation -/
theorem isSatPartial_complete (cs : List (List Lit)) (m : PartialModel)
    (hnc : ∀ c ∈ cs, NoCompl c) (h : ∀ a, Extends a m.toSpec → cnfSat a cs = true) :
    isSatPartial (cnfNew cs) m = true := CnfUtil.isSatPartial_complete cs m hnc h

/-- with a tautological clause the doc comment and the code part ways: `x0 ∨ ¬x0` is implied by
the empty partial model, `is_sat_partial` answers `false` -/
example : isSatPartial (cnfNew [[⟨0, true⟩, ⟨0, false⟩]]) (PartialModel.new 1) = false ∧
    ∀ a, cnfSat a [[⟨0, true⟩, ⟨0, false⟩]] = true := by
  refine ⟨by decide, fun a => ?_⟩
  simp only [cnfSat, clauseSat, litSat, List.all_cons, List.any_cons, List.all_nil, List.any_nil]
  cases a 0 <;> rfl

/-! ## `Cnf::condition` -/

/-- **`condition`** denotes the cofactor -/
theorem condition_sem (cs : List (List Lit)) (lit : Lit) (a : Assign) :
    cnfSat a (condition (cnfNew cs) lit).clauses = fCond (cnfFn cs) lit.var lit.pol a := by
  rw [condition, cnfNew_clauses, cnfSat_map_normClause, cnfSat_condClauses, cnfNew_clauses,
    cnfSat_map_normClause]
  rfl

/-- its clause list: clauses containing the literal disappear, the other clauses lose every
literal over the variable (a clause made only of the negated literal becomes the empty clause),
and the result is normalised again — `num_vars` is recomputed from what is left -/
theorem condition_clauses (c : CnfM) (lit : Lit) :
    (condition c lit).clauses =
      ((c.clauses.filter fun cl => !cl.contains lit).map
        fun cl => normClause (cl.filter fun l => !(l.var == lit.var))) ∧
    (condition c lit).numVars = numVarsOf (condition c lit).clauses := by
  refine ⟨?_, rfl⟩
  rw [condition, cnfNew_clauses, condClauses_eq, List.map_map]
  rfl

/-- a clause with both polarities of the variable is dropped (it contains the literal); the
unit clause of the negated literal becomes the empty clause (`test_cond`) -/
example : (condition (cnfNew [[⟨0, false⟩, ⟨0, true⟩, ⟨1, true⟩]]) ⟨0, true⟩).clauses = [] ∧
    (condition (cnfNew [[⟨0, false⟩]]) ⟨0, true⟩).clauses = [[]] ∧
    (condition (cnfNew [[⟨0, false⟩]]) ⟨0, true⟩).numVars = 0 := by decide

/-- `var_in_cnf`: some clause contains a literal over the variable -/
theorem varInCnf_spec (c : CnfM) (v : Nat) :
    varInCnf c v = true ↔ ∃ cl ∈ c.clauses, ∃ l ∈ cl, l.var = v := by
  simp only [varInCnf, List.any_eq_true, List.mem_flatten, beq_iff_eq]
  constructor
  · rintro ⟨l, ⟨cl, hcl, hl⟩, hv⟩; exact ⟨cl, hcl, l, hl, hv⟩
  · rintro ⟨cl, hcl, l, hl, hv⟩; exact ⟨l, ⟨cl, hcl, hl⟩, hv⟩

/-! ## `AssignmentIter` and `Cnf::wmc` -/

/-- **`AssignmentIter::new(n)`** yields the `n`-bit vectors of `0, 1, …, 2^n - 1` in this order,
index 0 least significant (entry `x` of vector `i` is bit `x` of `i`); these are exactly the
vectors of length `n`, each once; for `n = 0` the single empty vector -/
theorem assignmentIter_enumerates (n : Nat) :
    assignmentIter n = (List.range (2 ^ n)).map (bits n) ∧
    (∀ i x, x < n → (bits n i).getD x false = assignOfNat i x) ∧
    (assignmentIter n).length = 2 ^ n ∧
    (∀ v, v ∈ assignmentIter n ↔ v.length = n) ∧
    (assignmentIter n).Nodup :=
  ⟨assignmentIter_eq n, fun i x h => bits_getD n i x h, assignmentIter_length n,
   fun _ => mem_assignmentIter, assignmentIter_nodup n⟩

example : assignmentIter 0 = [[]] ∧
    assignmentIter 2 = [[false, false], [true, false], [false, true], [true, true]] := by decide

/-- **`Cnf::wmc`** (as repaired) never panics and is the weighted sum of the formula's function
over the variables `0 .. num_vars - 1`, in every commutative semiring -/
theorem wmc_spec {α : Type} {S : SROps α} (hS : S.Laws) (cs : List (List Lit)) (w : Weights α)
    (a : Assign) :
    wmc S (cnfNew cs) w = some (wsum S (List.range (cnfNumVars cs)) w (cnfFn cs) a) :=
  wmc_cnfNew hS cs w a

/-- the empty formula over zero variables counts one -/
theorem wmc_empty {α : Type} {S : SROps α} (hS : S.Laws) (w : Weights α) :
    wmc S (cnfNew []) w = some S.one := by
  rw [wmc_spec hS [] w (fun _ => false)]; rfl

/-- a formula over zero variables that contains the empty clause counts zero -/
theorem wmc_empty_clause {α : Type} {S : SROps α} (hS : S.Laws) (w : Weights α) :
    wmc S (cnfNew [[]]) w = some S.zero := by
  rw [wmc_spec hS [[]] w (fun _ => false)]; rfl

/-- **the original `wmc`** broke out of the loop on the empty assignment vector: the empty
formula over zero variables counted zero (in every semiring) -/
theorem wmcOrig_wrong {α : Type} (S : SROps α) (w : Weights α) :
    wmcOrig S (cnfNew []) w = some S.zero := rfl

example : wmcOrig natOps (cnfNew []) (fun _ => (1, 1)) = some 0 ∧
    wmc natOps (cnfNew []) (fun _ => (1, 1)) = some 1 := by decide

/-- for at least one variable the guard was dead code: the two loops agree -/
example : wmcOrig natOps (cnfNew [[⟨0, true⟩, ⟨1, false⟩]]) (fun _ => (1, 1)) = some 3 ∧
    wmc natOps (cnfNew [[⟨0, true⟩, ⟨1, false⟩]]) (fun _ => (1, 1)) = some 3 := by decide

/-! ## `CnfHasher` -/

/-- literal occurrence number `k` (counting through the clauses in order) carries the `k`-th
prime; the primes are pairwise different primes -/
theorem literal_primes (cs : List (List Lit)) :
    allW (weightCnf cs 1) = firstPrimes (cs.map List.length).sum ∧
    (allW (weightCnf cs 1)).Pairwise (· < ·) ∧
    (∀ x ∈ allW (weightCnf cs 1), CnfUtil.Prime x) ∧
    (weightCnf cs 1).map (fun wcl => wcl.map Prod.snd) = cs :=
  ⟨allW_eq_firstPrimes cs, (weightCnf_spec cs 1).1,
   fun x hx => isPrimeB_prime ((weightCnf_spec cs 1).2 x hx).2, weightCnf_shape cs 1⟩

example : firstPrimes 6 = [2, 3, 5, 7, 11, 13] := by
  simp [firstPrimes, primesFrom, nextPrime_1, nextPrime_2, nextPrime_3, nextPrime_5, nextPrime_7,
    nextPrime_11]

/-- **the hash formula.**  In every state reachable from `CnfHasher::new(cs, nv)` by
`decide`/`push`/`pop` (the user keeping a partial model in lock step, a `decide` never
contradicting it), `hash` under the current model is the product modulo `2^128` of the primes of
the literal occurrences `(i, j)` such that: clause `i` has more than one literal, no literal of
clause `i` is true under the model, and literal `j` of clause `i` is unassigned
(`activeWeights`).  Clauses with fewer than two literals never contribute; a clause whose
literals are all false contributes the factor 1, as a satisfied clause does. -/
theorem hash_formula {cs : List (List Lit)} {nv : Nat} {d : HDriver} (h : Reach cs nv d)
    {m : PartialModel} {r : List PartialModel} (hm : d.models = m :: r) :
    d.hash = some (lprod (activeWeights cs m) % M128) :=
  hash_of_inv (inv_of_reach h) hm

/-- the same for command lists -/
theorem hash_formula_run (cs : List (List Lit)) (nv : Nat) (cmds : List HCmd) (d : HDriver)
    (hok : okRun (HDriver.init cs nv) cmds) (hrun : (HDriver.init cs nv).run cmds = some d)
    {m : PartialModel} {r : List PartialModel} (hm : d.models = m :: r) :
    d.hash = some (lprod (activeWeights cs m) % M128) :=
  hash_formula (reach_run cmds _ d Reach.init hok hrun) hm

/-- the hasher stored in a `Cnf` is `CnfHasher::new` on the normalised clauses -/
theorem cnf_hasher_init (cs : List (List Lit)) :
    ({ h := (cnfNew cs).hasher, models := [PartialModel.new (cnfNew cs).numVars] } : HDriver) =
      HDriver.init (cnfNew cs).clauses (cnfNew cs).numVars := rfl

/-- the iteration order of the `HashSet` of clause indices is irrelevant -/
theorem hash_order_irrelevant (wc : List (List (Nat × Lit))) (m : PartialModel)
    {idxs idxs' : List Nat} (h : idxs.Perm idxs') :
    CnfHasher.hashOver wc m idxs = CnfHasher.hashOver wc m idxs' := hashOver_perm wc m h

/-- **if.**  Two partial assignments with the same positional residual (the same clause
positions are unsatisfied clauses of more than one literal, and each restricts to the same
unassigned literal occurrences) get the same hash, whatever histories reached them.  (No
hypothesis about falsified clauses is needed for this direction.) -/
theorem hasher_eq_if {cs : List (List Lit)} {nv : Nat} {d1 d2 : HDriver}
    (h1 : Reach cs nv d1) (h2 : Reach cs nv d2)
    {m1 m2 : PartialModel} {r1 r2 : List PartialModel}
    (hm1 : d1.models = m1 :: r1) (hm2 : d2.models = m2 :: r2)
    (hres : residualOcc cs m1.toSpec = residualOcc cs m2.toSpec) :
    d1.hash = d2.hash := by
  rw [hash_formula h1 hm1, hash_formula h2 hm2, activeWeights_of_residualOcc cs m1 m2 hres]

/-- **only if**, under the explicit bound "the product of all literal primes is below `2^128`"
(then `wrapping_mul` never wraps) and for assignments that falsify no clause of more than one
literal: equal hashes force equal positional residuals. -/
theorem hasher_eq_only_if {cs : List (List Lit)} {nv : Nat} {d1 d2 : HDriver}
    (h1 : Reach cs nv d1) (h2 : Reach cs nv d2)
    {m1 m2 : PartialModel} {r1 r2 : List PartialModel}
    (hm1 : d1.models = m1 :: r1) (hm2 : d2.models = m2 :: r2)
    (hbound : lprod (allW (weightCnf cs 1)) < M128)
    (hf1 : NoFalsifiedNonUnit cs m1.toSpec) (hf2 : NoFalsifiedNonUnit cs m2.toSpec)
    (heq : d1.hash = d2.hash) :
    residualOcc cs m1.toSpec = residualOcc cs m2.toSpec := by
  rw [hash_formula h1 hm1, hash_formula h2 hm2, Option.some.injEq] at heq
  exact residualOcc_of_activeWeights cs m1 m2 hf1 hf2
    (activeWeights_of_hash_eq cs m1 m2 hbound heq)

/-- in particular the syntactic residual formulas (`Spec.residual`) of the clauses of more than
one literal coincide -/
theorem hasher_eq_only_if_syntactic {cs : List (List Lit)} {nv : Nat} {d1 d2 : HDriver}
    (h1 : Reach cs nv d1) (h2 : Reach cs nv d2)
    {m1 m2 : PartialModel} {r1 r2 : List PartialModel}
    (hm1 : d1.models = m1 :: r1) (hm2 : d2.models = m2 :: r2)
    (hbound : lprod (allW (weightCnf cs 1)) < M128)
    (hf1 : NoFalsifiedNonUnit cs m1.toSpec) (hf2 : NoFalsifiedNonUnit cs m2.toSpec)
    (heq : d1.hash = d2.hash) :
    residual (cs.filter fun c => decide (c.length > 1)) m1.toSpec =
      residual (cs.filter fun c => decide (c.length > 1)) m2.toSpec :=
  residual_of_residualOcc cs _ _ (hasher_eq_only_if h1 h2 hm1 hm2 hbound hf1 hf2 heq)

/-- non-vacuity of the reachability hypothesis: from every reachable state with a current
model, `push` is defined, `decide` of an in-range label is defined, and deciding a literal whose
variable is unset leads to a reachable state again (for *every* clause list) -/
theorem reach_nonvacuous {cs : List (List Lit)} {nv : Nat} {d : HDriver} (hr : Reach cs nv d)
    {m : PartialModel} {r : List PartialModel} (hm : d.models = m :: r) (l : Lit)
    (hl : l.var < nv) (hu : m.get l.var = none) :
    (∃ d', d.step (.decide l) = some d' ∧ d'.models = m.set l.var l.pol :: r ∧ Reach cs nv d') ∧
    (∃ d', d.step .push = some d' ∧ d'.models = m :: m :: r ∧ Reach cs nv d') := by
  obtain ⟨d1, hs1, hm1⟩ := step_decide_defined hr hm l hl
  obtain ⟨d2, hs2, hm2⟩ := step_push_defined hr hm
  refine ⟨⟨d1, hs1, hm1, Reach.step hr hs1 ?_⟩, ⟨d2, hs2, hm2, Reach.step hr hs2 ?_⟩⟩
  · intro l' e m' r' hm'
    cases e
    rw [hm] at hm'
    cases hm'
    rw [hu]; exact fun h => nomatch h
  · intro l' e; cases e

/-! ### documented examples for the hasher -/

/-- the formula `(x0 ∨ x2) ∧ (x1 ∨ x2)` with its primes -/
theorem ex_weights :
    weightCnf (clausesOfPairs [[(0, true), (2, true)], [(1, true), (2, true)]]) 1 =
      [[(2, ⟨0, true⟩), (3, ⟨2, true⟩)], [(5, ⟨1, true⟩), (7, ⟨2, true⟩)]] := by
  simp [clausesOfPairs, litOfPair, weightCnf, weightClause, nextPrime_1, nextPrime_2, nextPrime_3,
    nextPrime_5]

/-- **the purely syntactic reading is not what the code implements.**  For
`(x0 ∨ x2) ∧ (x1 ∨ x2)` the assignments `{x0 = F, x1 = T}` and `{x0 = T, x1 = F}` falsify no
clause and leave the same residual formula `(x2)`, yet hash to 3 and 7: the primes belong to
literal *occurrences*.  (A cache miss, never a wrong hit.) -/
example :
    hasherRun [[(0, true), (2, true)], [(1, true), (2, true)]] 3
      [.decide ⟨0, false⟩, .decide ⟨1, true⟩] = [some 105, some 3] ∧
    hasherRun [[(0, true), (2, true)], [(1, true), (2, true)]] 3
      [.decide ⟨0, true⟩, .decide ⟨1, false⟩] = [some 35, some 7] ∧
    residual (clausesOfPairs [[(0, true), (2, true)], [(1, true), (2, true)]])
        (PModel.empty.set 0 false |>.set 1 true) = [[⟨2, true⟩]] ∧
    residual (clausesOfPairs [[(0, true), (2, true)], [(1, true), (2, true)]])
        (PModel.empty.set 0 true |>.set 1 false) = [[⟨2, true⟩]] := by
  refine ⟨?_, ?_, by decide, by decide⟩
  · simp only [hasherRun, HDriver.init, CnfHasher.new, ex_weights]; decide
  · simp only [hasherRun, HDriver.init, CnfHasher.new, ex_weights]; decide

/-- non-vacuity of `hasher_eq_if` / `hasher_eq_only_if`: the doc-comment example
(`(a ∨ b) ∧ (¬a ∨ c)` under `a = T` hashes to 7), the same state reached through
`push`/`decide`/`pop`, and the bound for this formula -/
theorem ex_weights_doc :
    weightCnf (clausesOfPairs [[(0, true), (1, true)], [(0, false), (2, true)]]) 1 =
      [[(2, ⟨0, true⟩), (3, ⟨1, true⟩)], [(5, ⟨0, false⟩), (7, ⟨2, true⟩)]] := by
  simp [clausesOfPairs, litOfPair, weightCnf, weightClause, nextPrime_1, nextPrime_2, nextPrime_3,
    nextPrime_5]

example :
    hasherRun [[(0, true), (1, true)], [(0, false), (2, true)]] 3
      [.hash, .decide ⟨0, true⟩, .push, .decide ⟨2, false⟩, .pop] =
      [some 210, some 7, some 7, some 1, some 7] ∧
    lprod (allW (weightCnf (clausesOfPairs [[(0, true), (1, true)], [(0, false), (2, true)]]) 1))
      < M128 := by
  constructor
  · simp only [hasherRun, HDriver.init, CnfHasher.new, ex_weights_doc]; decide
  · simp only [ex_weights_doc]; decide

/-- a falsified clause contributes 1 like a satisfied one — the reason for the hypothesis
`NoFalsifiedNonUnit`: `{a = T, c = F}` (falsifies `¬a ∨ c`) and `{a = T, c = T}` hash alike -/
example :
    hasherRun [[(0, true), (1, true)], [(0, false), (2, true)]] 3
      [.decide ⟨0, true⟩, .decide ⟨2, false⟩] = [some 7, some 1] ∧
    hasherRun [[(0, true), (1, true)], [(0, false), (2, true)]] 3
      [.decide ⟨0, true⟩, .decide ⟨2, true⟩] = [some 7, some 1] := by
  constructor
  · simp only [hasherRun, HDriver.init, CnfHasher.new, ex_weights_doc]; decide
  · simp only [hasherRun, HDriver.init, CnfHasher.new, ex_weights_doc]; decide

/-- a `decide` that contradicts the current model (without `pop`) leaves the formula: after
`decide a; decide ¬a` both clauses were struck off, the hash is 1, whereas the model `{a = F}`
has residual `(b)` with prime 3 -/
example :
    hasherRun [[(0, true), (1, true)], [(0, false), (2, true)]] 3
      [.decide ⟨0, true⟩, .decide ⟨0, false⟩] = [some 7, some 1] ∧
    hasherRun [[(0, true), (1, true)], [(0, false), (2, true)]] 3
      [.decide ⟨0, false⟩] = [some 3] := by
  constructor
  · simp only [hasherRun, HDriver.init, CnfHasher.new, ex_weights_doc]; decide
  · simp only [hasherRun, HDriver.init, CnfHasher.new, ex_weights_doc]; decide

/-- `pop` of the last level empties the stack: `hash` and `push` panic afterwards
(`last().unwrap()`), a further `pop` is a no-op, and `decide` panics only if the decided
literal occurs in some clause; a label `≥ num_vars` makes `decide` panic at once -/
example :
    hasherRun [[(0, true), (1, true)], [(0, false), (2, true)]] 3 [.pop, .pop, .push] =
      [none, none, none] ∧
    hasherRun [[(0, true), (1, true)], [(0, false), (2, true)]] 3 [.decide ⟨3, true⟩] = [none] := by
  constructor
  · simp only [hasherRun, HDriver.init, CnfHasher.new, ex_weights_doc]; decide
  · simp only [hasherRun, HDriver.init, CnfHasher.new, ex_weights_doc]; decide

/-- the bound of `hasher_eq_only_if` holds for at most 26 literal occurrences: the product of
the first 26 primes is below `2^128`, that of the first 27 is not -/
example : lprod [2, 3, 5, 7, 11, 13, 17, 19, 23, 29, 31, 37, 41, 43, 47, 53, 59, 61, 67, 71, 73,
      79, 83, 89, 97, 101] < M128 ∧
    ¬ lprod [2, 3, 5, 7, 11, 13, 17, 19, 23, 29, 31, 37, 41, 43, 47, 53, 59, 61, 67, 71, 73,
      79, 83, 89, 97, 101, 103] < M128 := by decide

/-! ## `Literal` packing -/

/-- **pack/unpack round trip** for labels below `2^63`: the word is `label + 2^63·polarity`,
`label()`/`polarity()` give the components back, `negated()` flips the polarity bit -/
theorem literal_pack_roundtrip (l : Lit) (h : l.var < 2 ^ 63) :
    packLit l = l.var + (if l.pol then 2 ^ 63 else 0) ∧
    unpackLit (packLit l) = l ∧
    packedNegated (packLit l) = packLit (litNegated l) :=
  ⟨packNew_eq _ _ h, CnfUtil.literal_pack_roundtrip l h, packedNegated_eq l h⟩

/-- hence packing is injective there, and the word-level `implies_true`/`implies_false` are
equality with the literal / with its negation -/
theorem literal_pack_injective (l l' : Lit) (h : l.var < 2 ^ 63) (h' : l'.var < 2 ^ 63) :
    (packLit l = packLit l' → l = l') ∧
    (packedImpliesTrue (packLit l) (packLit l') = true ↔ l = l') ∧
    (packedImpliesFalse (packLit l) (packLit l') = true ↔ l = l'.neg) := by
  refine ⟨packLit_injective l l' h h', ?_, ?_⟩
  · rw [packedImpliesTrue_eq l l' h h']; exact litImpliesTrue_iff l l'
  · rw [packedImpliesFalse_eq l l' h h']; exact litImpliesFalse_iff l l'

/-- at `2^63` the label is silently truncated to its low 63 bits (the `assert!` in
`VarLabel::new` is commented out): different labels share a word -/
theorem literal_pack_breaks :
    packLit ⟨2 ^ 63, false⟩ = packLit ⟨0, false⟩ ∧
    unpackLit (packLit ⟨2 ^ 63 + 5, true⟩) = ⟨5, true⟩ := literal_pack_breaks_at_2_63

/-! ## `PartialModel` -/

/-- **partial-model algebra**: `get` after `set`/`unset`/`new`/`from_assignments` -/
theorem partialModel_get (m : PartialModel) (x y : Nat) (b : Bool) (n : Nat)
    (as : List (Option Bool)) :
    (m.set x b).get y = (if y = x then some b else m.get y) ∧
    (m.unset x).get y = (if y = x then none else m.get y) ∧
    (PartialModel.new n).get y = none ∧
    (PartialModel.fromAssignments as).get y = as.getD y none ∧
    m.isSet y = (m.get y).isSome ∧
    (∀ l : Lit, m.litImplied l = litTrue m.toSpec l ∧ m.litNegImplied l = litFalse m.toSpec l) :=
  ⟨PartialModel.get_set m x b y, PartialModel.get_unset m x y, PartialModel.get_new n y,
   PartialModel.get_fromAssignments as y, PartialModel.isSet_eq m y,
   fun l => ⟨litImplied_eq m l, litNegImplied_eq m l⟩⟩

/-- `from_litvec` panics exactly on an out-of-range label; otherwise the last literal over a
variable wins -/
theorem partialModel_fromLitvec (lits : List Lit) (n : Nat) :
    (PartialModel.fromLitvec lits n = none ↔ ∃ l ∈ lits, n ≤ l.var) ∧
    ∀ m, PartialModel.fromLitvec lits n = some m →
      ∀ y, m.get y = (lits.reverse.find? (fun l => l.var == y)).map (·.pol) :=
  ⟨PartialModel.fromLitvec_none_iff lits n, fun _ h y => PartialModel.get_fromLitvec h y⟩

/-- `assignment_iter`: false literals by ascending label, then true literals by ascending label;
exactly the assigned literals, each once.  `difference`: the same order; exactly the literals
assigned by the first model and not assigned alike by the second.  (For models built by
`new`/`set`/`unset`: well-formed and the two sets disjoint.) -/
theorem partialModel_iter {m o : PartialModel} (hw : m.WF) (hm : m.Disjoint) (ho : o.Disjoint) :
    m.assignmentIter =
      m.falseA.iter.map (fun x => (⟨x, false⟩ : Lit)) ++ m.trueA.iter.map (fun x => ⟨x, true⟩) ∧
    m.falseA.iter.Pairwise (· < ·) ∧ m.trueA.iter.Pairwise (· < ·) ∧
    (∀ l, l ∈ m.assignmentIter ↔ m.get l.var = some l.pol) ∧
    m.assignmentIter.Nodup ∧
    (∀ l, l ∈ m.difference o ↔ m.get l.var = some l.pol ∧ o.get l.var ≠ some l.pol) :=
  ⟨rfl, hw.2, hw.1, PartialModel.mem_assignmentIter hm, PartialModel.assignmentIter_nodup hw,
   PartialModel.mem_difference hm ho⟩

/-- the invariants are kept by the constructors and updates -/
theorem partialModel_invariants (m : PartialModel) (hw : m.WF) (hd : m.Disjoint) (x n : Nat)
    (b : Bool) :
    (PartialModel.new n).WF ∧ (PartialModel.new n).Disjoint ∧
    (m.set x b).WF ∧ (m.set x b).Disjoint ∧ (m.unset x).WF ∧ (m.unset x).Disjoint :=
  ⟨PartialModel.wf_new n, PartialModel.disjoint_new n, PartialModel.wf_set hw x b,
   PartialModel.disjoint_set hd x b, PartialModel.wf_unset hw x, PartialModel.disjoint_unset hd x⟩

example : (PartialModel.fromAssignments [some true, none, some false, some false]).assignmentIter =
    [⟨2, false⟩, ⟨3, false⟩, ⟨0, true⟩] := by decide

/-! ## `VarSet` -/

/-- **variable-set algebra**: every operation is the set-theoretic one on the member sets and
keeps the representation invariant (strictly ascending member list) -/
theorem varSet_algebra (s t : VarSet) (hs : s.WF) (v x : Nat) :
    ((s.insert v).Mem x ↔ x = v ∨ s.Mem x) ∧ (s.insert v).WF ∧
    ((s.remove v).Mem x ↔ s.Mem x ∧ x ≠ v) ∧ (s.remove v).WF ∧
    (s.contains x = true ↔ s.Mem x) ∧
    ((s.union t).Mem x ↔ s.Mem x ∨ t.Mem x) ∧ (s.union t).WF ∧
    ((s.minus t).Mem x ↔ s.Mem x ∧ ¬ t.Mem x) ∧ (s.minus t).WF ∧
    ((s.intersectVarset t).Mem x ↔ s.Mem x ∧ t.Mem x) ∧ (s.intersectVarset t).WF ∧
    (x ∈ s.difference t ↔ s.Mem x ∧ ¬ t.Mem x) ∧ (s.difference t).Pairwise (· < ·) ∧
    (x ∈ s.intersect t ↔ s.Mem x ∧ t.Mem x) ∧ (s.intersect t).Pairwise (· < ·) ∧
    (¬ VarSet.new.Mem x) ∧ VarSet.new.WF :=
  ⟨VarSet.mem_insert s v x, VarSet.wf_insert hs v, VarSet.mem_remove s v x, VarSet.wf_remove hs v,
   VarSet.contains_iff s x, VarSet.mem_union s t x, VarSet.wf_union hs t, VarSet.mem_minus s t x,
   VarSet.wf_minus hs t, VarSet.mem_intersectVarset s t x, VarSet.wf_intersectVarset hs t,
   VarSet.mem_difference s t x, VarSet.difference_sorted hs t, VarSet.mem_intersect s t x,
   VarSet.intersect_sorted hs t, VarSet.not_mem_new x, VarSet.wf_new⟩

/-- `iter` is the strictly ascending, duplicate-free list of all members; `len` is its length
(the cardinality); `is_empty` means no member; equality of sets is extensional (as `BitSet`'s) -/
theorem varSet_iter_len (s t : VarSet) (hs : s.WF) (ht : t.WF) :
    (∀ x, x ∈ s.iter ↔ s.Mem x) ∧ s.iter.Pairwise (· < ·) ∧ s.iter.Nodup ∧
    s.len = s.iter.length ∧
    (s.isEmpty = true ↔ ∀ x, ¬ s.Mem x) ∧ (s.isEmpty = true ↔ s.len = 0) ∧
    ((∀ x, s.Mem x ↔ t.Mem x) → s = t) :=
  ⟨fun x => VarSet.mem_iter s x, VarSet.iter_sorted hs, VarSet.iter_nodup hs, VarSet.len_eq s,
   VarSet.isEmpty_iff s, VarSet.isEmpty_iff_len s, VarSet.ext hs ht⟩

example : ((VarSet.ofList [3, 1, 2, 3]).union (VarSet.ofList [2, 5])).iter = [1, 2, 3, 5] ∧
    ((VarSet.ofList [3, 1, 2, 3]).minus (VarSet.ofList [2, 5])).iter = [1, 3] ∧
    (VarSet.ofList [3, 1, 2, 3]).intersect (VarSet.ofList [2, 5]) = [2] ∧
    (VarSet.ofList [3, 1, 2, 3]).len = 3 := by decide

/-! ## axioms -/

#print axioms new_sem
#print axioms new_empty
#print axioms sort_is_stable_sort
#print axioms numVars_spec
#print axioms eval_spec
#print axioms eval_panics_iff
#print axioms eval_index_in_range
#print axioms isSatPartial_spec
#print axioms isSatPartial_sound
#print axioms isSatPartial_complete
#print axioms condition_sem
#print axioms condition_clauses
#print axioms varInCnf_spec
#print axioms assignmentIter_enumerates
#print axioms wmc_spec
#print axioms wmc_empty
#print axioms wmc_empty_clause
#print axioms wmcOrig_wrong
#print axioms literal_primes
#print axioms hash_formula
#print axioms hash_formula_run
#print axioms cnf_hasher_init
#print axioms hash_order_irrelevant
#print axioms hasher_eq_if
#print axioms hasher_eq_only_if
#print axioms hasher_eq_only_if_syntactic
#print axioms reach_nonvacuous
#print axioms ex_weights
#print axioms ex_weights_doc
#print axioms literal_pack_roundtrip
#print axioms literal_pack_injective
#print axioms literal_pack_breaks
#print axioms partialModel_get
#print axioms partialModel_fromLitvec
#print axioms partialModel_iter
#print axioms partialModel_invariants
#print axioms varSet_algebra
#print axioms varSet_iter_len

end C15
