import RsddModel.Props.TieVTree
import RsddModel.Props.C14
/-!
# C14 for the definitions regenerated from the Rust text (vtrees, vtree manager, dtrees)

Source-level corollaries: the theorems of `Props/C14.lean` restated for `Gen.VT.*`
(`Model/GenVTree.lean`, rewritten from `src/repr/vtree.rs`, `src/util/btree.rs`, `src/repr/dtree.rs` on every run),
obtained by rewriting with the tie theorems of `Props/TieVTree.lean` and closing with the existing theorem.
A generated `Option` result: `none` = the Rust panics.  `from_cnf` takes the `VarOrder` itself (any order, no hypothesis).
-/
set_option linter.unusedVariables false
namespace TieVTree
open VT Spec

/-- `DTree::from_cnf` (as the source says now): a dtree exists iff the CNF has a clause (no panic otherwise),
and its leaves are exactly the CNF's clauses -/
theorem dtree_leaves_source (cs : Cnf) (ord : Orders.VarOrder) :
    (cs ≠ [] → (Gen.VT.fromCnf cs ord).isSome) ∧ (Gen.VT.fromCnf [] ord = none) ∧
    (∀ d, Gen.VT.fromCnf cs ord = some d → d.leaves.Perm cs) := by
  rw [fromCnf_tie]
  exact ⟨(C14.dtree_leaves cs ord.inOrder).1, (C14.dtree_leaves cs ord.inOrder).2.1, (C14.dtree_leaves cs ord.inOrder).2.2.1⟩

/-- `vars` (read through the regenerated `get_vars`) of the dtree the source builds: union of the children's,
ascending, exactly the variables of the clauses below -/
theorem dtree_vars_source {cs : Cnf} {ord : Orders.VarOrder} {d : DTree} (h : Gen.VT.fromCnf cs ord = some d) :
    d.VarsOk ∧ VarSet.Sorted (Gen.VT.getVars d) ∧
    ∀ x, x ∈ Gen.VT.getVars d ↔ ∃ c ∈ d.leaves, ∃ l ∈ c, l.var = x := by
  rw [fromCnf_tie] at h
  rw [getVars_tie]
  exact C14.dtree_vars h

/-- every cutset of the dtree the source builds is `(vars l ∩ vars r) ∖ ancestors` -/
theorem dtree_cutsets_source {cs : Cnf} {ord : Orders.VarOrder} :
    ∀ d, Gen.VT.fromCnf cs ord = some d → d.CutsOk [] := by
  rw [fromCnf_tie]
  exact C14.dtree_cutsets.1

/-- `VTree::from_dtree` (as the source says now) does not panic on a dtree built by `from_cnf`; every occurring
variable is exactly one leaf of the result, which is `None` iff no variable occurs -/
theorem vtree_of_dtree_leaves_source {cs : Cnf} {ord : Orders.VarOrder} {d : DTree}
    (h : Gen.VT.fromCnf cs ord = some d) :
    ∃ r, Gen.VT.fromDtree d = some r ∧
      (match r with
        | some t => t.leaves.Nodup ∧ ∀ x, x ∈ t.leaves ↔ Occurs x cs
        | none => ∀ x, ¬ Occurs x cs) ∧
      (r = none ↔ ∀ x, ¬ Occurs x cs) := by
  rw [fromCnf_tie] at h
  rw [fromDtree_tie]
  exact ⟨VTree.fromDtree d, rfl, C14.vtree_of_dtree_leaves h⟩

/-- the index table `VTreeManager::new` builds (as the source says now), read through the regenerated `vtree` /
`var_index`: `vtree(i)` is the subtree at the `i`-th in-order path (no panic for `i < size`), and a leaf's variable
is mapped to the leaf's index -/
theorem inorder_index_spec_source (t : VTree) :
    (∀ i, i < t.size → Gen.VT.mgrVtree (Gen.VT.mgrNew t) i = t.subtreeAt (C14.pathOf t i)) ∧
    (t.leaves.Nodup → ∀ i v, Gen.VT.mgrVtree (Gen.VT.mgrNew t) i = some (.leaf v) →
      Gen.VT.varIndex (Gen.VT.mgrNew t) v = i) ∧
    Gen.VT.inorderDfsIter t = t.inorder := by
  rw [mgrNew_tie, mgrVtree_tie, varIndex_tie, inorderDfsIter_tie]
  exact ⟨(C14.inorder_index_spec t).2.2.2.1, (C14.inorder_index_spec t).2.2.2.2, rfl⟩

/-- **`lca` as the source says now is correct** (on the manager built by the regenerated `new`; the Euler-tour
tables themselves are the model's, see TRANSLATOR_NOTES_vtree.md) -/
theorem lca_correct_source (t : VTree) (i j : Nat) (hi : i < t.size) (hj : j < t.size) :
    Gen.VT.mgrLca (Gen.VT.mgrNew t) i j = lcaSpec t i j := by
  rw [mgrNew_tie, mgrLca_tie]
  exact C14.lca_correct t i j hi hj

/-- `is_prime_index` as the source says now: `i` is prime to `j` iff `i` lies left of / at their least common
ancestor and `j` right of / at it -/
theorem isPrime_spec_source (t : VTree) (i j : Nat) (hi : i < t.size) (hj : j < t.size) :
    let c := C14.pathOf t (Gen.VT.mgrLca (Gen.VT.mgrNew t) i j)
    Gen.VT.isPrimeIndex (Gen.VT.mgrNew t) i j = true ↔
      ((∃ a, C14.pathOf t i = c ++ false :: a) ∧ (C14.pathOf t j = c ∨ ∃ b, C14.pathOf t j = c ++ true :: b)) ∨
      (C14.pathOf t i = c ∧ ∃ b, C14.pathOf t j = c ++ true :: b) := by
  rw [mgrNew_tie, mgrLca_tie, isPrimeIndex_tie]
  exact C14.isPrime_spec t i j hi hj

/-- `VTreeManager::num_vars` as the source says now does not panic and is 1 + the largest label (= the number
of leaves for labels `0..n-1`) -/
theorem numVars_spec_source (t : VTree) :
    Gen.VT.mgrNumVars (Gen.VT.mgrNew t) = some (t.maxLabel + 1) ∧
    (∀ n, t.leaves.Perm (List.range n) → Gen.VT.mgrNumVars (Gen.VT.mgrNew t) = some n ∧ t.leaves.length = n) := by
  rw [mgrNew_tie, mgrNumVars_tie]
  refine ⟨congrArg some (C14.numVars_spec t).1.1, fun n h => ⟨congrArg some ((C14.numVars_spec t).2 n h).1, ((C14.numVars_spec t).2 n h).2⟩⟩

/-- the tree `num_vars` (size of the lookup table) exceeds every leaf label, so `VTreeManager::new` never
writes out of bounds -/
theorem numVarsTree_bound_source (t : VTree) : ∀ v ∈ t.leaves, v < Gen.VT.numVarsTree t := by
  rw [numVarsTree_tie]
  exact fun v h => VTree.lt_numVarsTree_of_mem_leaves h

/-- the vtree shapes the source builds from a variable list have exactly that list as leaves; `right_linear`
panics only on the empty list -/
theorem shapes_leaves_source (o : List Nat) :
    (∀ t, Gen.VT.rightLinear o = some t → t.leaves = o) ∧
    (∀ t, Gen.VT.leftLinear o = some t → t.leaves = o) ∧
    (∀ k t, Gen.VT.evenSplit o k = some t → t.leaves = o) ∧
    (o ≠ [] → (Gen.VT.rightLinear o).isSome) := by
  rw [rightLinear_tie, leftLinear_tie, evenSplit_tie]
  exact C14.shapes_leaves o

end TieVTree

#print axioms TieVTree.dtree_leaves_source
#print axioms TieVTree.dtree_vars_source
#print axioms TieVTree.dtree_cutsets_source
#print axioms TieVTree.vtree_of_dtree_leaves_source
#print axioms TieVTree.inorder_index_spec_source
#print axioms TieVTree.lca_correct_source
#print axioms TieVTree.isPrime_spec_source
#print axioms TieVTree.numVars_spec_source
#print axioms TieVTree.numVarsTree_bound_source
#print axioms TieVTree.shapes_leaves_source
