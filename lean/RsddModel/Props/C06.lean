import RsddModel.Lemmas.TopDownNaive
/-!
# C06 — top-down CNF compilation to decision-DNNF

"For every CNF and every order over its variables, the top-down compiler (with either node
store) returns the false constant exactly when the CNF is unsatisfiable and otherwise a
decision diagram whose models are exactly the CNF's models and in which no path decides a
variable twice; component caching and unit propagation never change the denoted function.
Conditioning such a diagram, or its negation, on a literal yields exactly the restricted
function."

Model: `RsddModel/Model/TopDown.lean` (`topdownH`, `compileTopdown`, `condHelper`, the two node
stores; the pinned defective `compileTopdownOrig`, `condHelperOrig`).  The SAT solver is the
abstract interface `Solver`; what is assumed of it is `SolverSpec` (+ `NewSpec`), and the two
hash hypotheses `HashSound` (equal cache keys ⇒ equal residual formulas) and `FreeDecide`
(deciding a variable that does not occur in the residual formula propagates nothing and keeps
hash and sat-flag).  `RsddModel/Lemmas/TopDownNaive.lean` proves all four for the executable
reference solver `NaiveSolver`, so the theorems are not vacuous.

The contract is deliberately weak in three places, because the real `SATSolver` does not satisfy
more (`Lemmas/UpSolverSpec.lean`; the instance for the real solver is `Props/C06Real.lean`):
`decide` is only specified for the variables in `spec.Var` (labels in range), so the order has to
map the levels below `numVars` into `spec.Var` (`hrange`); `pop` is only specified above the
two-frame stack `SATSolver::new` returns; and the solver may be built on a clause list `cnf0`
other than the one the specification is about (`NewSpec spec cnf0 numVars`) — for the real solver
`cnf` is the non-tautological part of `cnf0`, which has the same models.

What was ADDED to the brief's list of solver facts, and why:
* `FreeDecide` and the relevance clause of `decide_ok` (newly assigned variables other than
  the decision occur in the residual formula).  A cached diagram is reused under a different
  partial model with the same residual; this is sound only if the diagram tests no variable
  that the other model assigns.  The invariant that gives this is "a diagram built under `m`
  tests only variables of `residual cnf m`" (`GoodM.vars`), and a decision node on a variable
  outside the residual is avoided only because both branches then return the *same pointer*
  (the second one is a cache hit on the entry the first one wrote: `topdownH_hit_after`) —
  which needs the hash to be unchanged by such a decision.
-/
namespace C06
open Spec Bdd TopDown

variable {cnf : Cnf} {S : Solver}

/-- **`topdown_h`.**  For a solver satisfying `SolverSpec`, the hash hypotheses, a node store
satisfying its contract, an order `varAt` that enumerates the variables of the CNF on levels
`< numVars`: called at `level` (`rem = numVars - level`) on a valid state `s` whose model
assigns the variables of all earlier levels and whose stack has at least two frames (as every
state reachable from `SATSolver::new` has), with a sound cache, `topdown_h` returns `r` with
* `r` agrees with the CNF on every total assignment extending the current partial model;
* no path of `r` decides a variable twice;
* every variable `r` tests occurs in the residual formula, hence is unassigned in the current
  model, hence sits at a level `≥ level`;
* the solver stack is back where it was and the cache is still sound. -/
theorem topdownH_correct (spec : SolverSpec cnf S) {NS : NodeStore} {inv : NS.τ → Prop}
    (hNS : NS.Sound inv) (varAt : Nat → Nat) (hhash : HashSound spec) (hfree : FreeDecide spec)
    (numVars : Nat) (hvarAt : ∀ v, InCnf cnf v → ∃ i, i < numVars ∧ varAt i = v)
    (hrange : ∀ i, i < numVars → spec.Var (varAt i))
    (rem level : Nat) (s : S.σ) (cache : Cache S.κ) (t : NS.τ) (f0 : Frame S.κ) (rest : List (Frame S.κ))
    (hl : level + rem = numVars) (hI : spec.Inv s) (hfr : spec.frames s = f0 :: rest)
    (hrest : rest ≠ []) (ht : inv t) (hc : CacheOK spec cache) (hlev : ∀ i, i < level → spec.modelOf s (varAt i) ≠ none) :
    let res := topdownH S NS varAt rem level s cache t
    (∀ a, Extends a (spec.modelOf s) → res.1.eval a = cnfSat a cnf) ∧
    res.1.free ∧
    (∀ v ∈ res.1.vars, InCnf (residual cnf (spec.modelOf s)) v ∧ spec.modelOf s v = none ∧
      ∀ i, i < level → varAt i ≠ v) ∧
    (res.1 ≠ .fls → ∃ a, Extends a (spec.modelOf s) ∧ res.1.eval a = true) ∧
    spec.Inv res.2.1 ∧ spec.frames res.2.1 = spec.frames s ∧ CacheOK spec res.2.2.1 ∧ inv res.2.2.2 := by
  rw [spec.modelOf_eq hfr] at hlev ⊢
  obtain ⟨hg, h1, h2, h3, h4⟩ :=
    topdownH_post spec hNS varAt hhash hfree numVars hvarAt hrange rem level s cache t f0 rest hl hI hfr hrest ht hc hlev
  refine ⟨hg.sem, hg.free, ?_, hg.nonfalse, h1, h2.trans hfr.symm, h3, h4⟩
  intro v hv
  have hu := residual_unset (hg.vars v hv)
  exact ⟨hg.vars v hv, hu, fun i hi e => hlev i hi (e ▸ hu)⟩

/-- **`compile_cnf_topdown`, any node store satisfying the contract.**  The result denotes the
CNF on all assignments, decides no variable twice on a path, and is the false constant exactly
when the CNF is unsatisfiable. -/
theorem compileTopdown_correct_store (spec : SolverSpec cnf S) {NS : NodeStore} {inv : NS.τ → Prop}
    (hNS : NS.Sound inv) (varAt : Nat → Nat) (hhash : HashSound spec) (hfree : FreeDecide spec)
    (cnf0 : Cnf) (numVars : Nat) (hnew : NewSpec spec cnf0 numVars)
    (hvarAt : ∀ v, InCnf cnf v → ∃ i, i < numVars ∧ varAt i = v)
    (hrange : ∀ i, i < numVars → spec.Var (varAt i)) (t : NS.τ) (ht : inv t) :
    (∀ a, (compileTopdown S NS varAt cnf0 numVars t).1.eval a = cnfSat a cnf) ∧
    (compileTopdown S NS varAt cnf0 numVars t).1.free ∧
    ((compileTopdown S NS varAt cnf0 numVars t).1 = .fls ↔ ∀ a, cnfSat a cnf = false) :=
  let h := compileTopdown_post spec hNS varAt hhash hfree cnf0 numVars hnew hvarAt hrange t ht
  ⟨h.1, h.2.1, h.2.2.1⟩

/-- **`compile_cnf_topdown`, standard (structural) node store.** -/
theorem compileTopdown_correct (spec : SolverSpec cnf S) (varAt : Nat → Nat)
    (hhash : HashSound spec) (hfree : FreeDecide spec) (cnf0 : Cnf) (numVars : Nat)
    (hnew : NewSpec spec cnf0 numVars)
    (hvarAt : ∀ v, InCnf cnf v → ∃ i, i < numVars ∧ varAt i = v)
    (hrange : ∀ i, i < numVars → spec.Var (varAt i)) :
    (∀ a, (compileTopdown S standardStore varAt cnf0 numVars ()).1.eval a = cnfSat a cnf) ∧
    (compileTopdown S standardStore varAt cnf0 numVars ()).1.free ∧
    ((compileTopdown S standardStore varAt cnf0 numVars ()).1 = .fls ↔ ∀ a, cnfSat a cnf = false) :=
  compileTopdown_correct_store spec standardStore_sound varAt hhash hfree cnf0 numVars hnew hvarAt hrange
    () trivial

/-- **`compile_cnf_topdown`, semantic node store — PARTIAL: under `CollisionFree`.**
Unconditional correctness is false by pigeonhole (finitely many hash values, unboundedly many
functions); the hypothesis is the explicit `H-coll`. -/
theorem compileTopdown_correct_semantic_partial (spec : SolverSpec cnf S) (varAt : Nat → Nat)
    {H : Type} [DecidableEq H] (semHash : Ptr → H) (negH key : H → H) (hcf : CollisionFree semHash negH key)
    (hhash : HashSound spec) (hfree : FreeDecide spec) (cnf0 : Cnf) (numVars : Nat)
    (hnew : NewSpec spec cnf0 numVars)
    (hvarAt : ∀ v, InCnf cnf v → ∃ i, i < numVars ∧ varAt i = v)
    (hrange : ∀ i, i < numVars → spec.Var (varAt i)) :
    (∀ a, (compileTopdown S (semanticStore semHash negH key) varAt cnf0 numVars []).1.eval a = cnfSat a cnf) ∧
    (compileTopdown S (semanticStore semHash negH key) varAt cnf0 numVars []).1.free ∧
    ((compileTopdown S (semanticStore semHash negH key) varAt cnf0 numVars []).1 = .fls ↔
      ∀ a, cnfSat a cnf = false) :=
  compileTopdown_correct_store spec (semanticStore_sound hcf) varAt hhash hfree cnf0 numVars hnew hvarAt hrange []
    (fun _ h => by cases h)

/-- `topdown_h` with the semantic store — PARTIAL: under `CollisionFree` (same statement as
`topdownH_correct`, instantiated) -/
theorem topdownH_correct_semantic_partial (spec : SolverSpec cnf S) (varAt : Nat → Nat)
    {H : Type} [DecidableEq H] (semHash : Ptr → H) (negH key : H → H) (hcf : CollisionFree semHash negH key)
    (hhash : HashSound spec) (hfree : FreeDecide spec)
    (numVars : Nat) (hvarAt : ∀ v, InCnf cnf v → ∃ i, i < numVars ∧ varAt i = v)
    (hrange : ∀ i, i < numVars → spec.Var (varAt i))
    (rem level : Nat) (s : S.σ) (cache : Cache S.κ) (t : List (H × Ptr)) (f0 : Frame S.κ)
    (rest : List (Frame S.κ))
    (hl : level + rem = numVars) (hI : spec.Inv s) (hfr : spec.frames s = f0 :: rest)
    (hrest : rest ≠ []) (ht : SemInv semHash key t)
    (hc : CacheOK spec cache) (hlev : ∀ i, i < level → spec.modelOf s (varAt i) ≠ none) :
    let res := topdownH S (semanticStore semHash negH key) varAt rem level s cache t
    (∀ a, Extends a (spec.modelOf s) → res.1.eval a = cnfSat a cnf) ∧ res.1.free ∧
    (∀ v ∈ res.1.vars, spec.modelOf s v = none) :=
  let h := topdownH_correct spec (semanticStore_sound hcf) varAt hhash hfree numVars hvarAt hrange rem level s
    cache t f0 rest hl hI hfr hrest ht hc hlev
  ⟨h.1, h.2.1, fun v hv => (h.2.2.1 v hv).2.1⟩

/-! ## the pinned `compile_cnf_topdown` (finding F8) -/

/-- the witness `(x0) ∧ (x1∨x2) ∧ (x1∨¬x2) ∧ (¬x1∨x2) ∧ (¬x1∨¬x2)` -/
def f8 : Cnf :=
  [[⟨0, true⟩], [⟨1, true⟩, ⟨2, true⟩], [⟨1, true⟩, ⟨2, false⟩], [⟨1, false⟩, ⟨2, true⟩],
   [⟨1, false⟩, ⟨2, false⟩]]

/-- the witness is unsatisfiable, the pinned compiler returns the non-constant diagram
`(x0, ⊥, ⊥)`, the repaired one the false constant -/
theorem compileTopdownOrig_not_false :
    naiveCompileOrig f8 = .node false 0 .fls .fls ∧ naiveCompileOrig f8 ≠ .fls ∧
    naiveCompile f8 = .fls := by decide

theorem f8_unsat (a : Assign) : cnfSat a f8 = false := by
  simp only [f8, cnfSat, clauseSat, litSat, List.all_cons, List.all_nil, List.any_cons, List.any_nil]
  cases a 0 <;> cases a 1 <;> cases a 2 <;> rfl

/-! ## conditioning -/

/-- **`condition` on a decision-DNNF, regular or complemented.**  `p.free` holds for every
result of the compiler and for its negation (`free_neg`). -/
theorem cond_correct_dnnf {NS : NodeStore} {inv : NS.τ → Prop} (hNS : NS.Sound inv)
    (t : NS.τ) (ht : inv t) (p : Ptr) (hp : p.free) (x : Nat) (b : Bool) (a : Assign) :
    (TopDown.condition NS t p x b).1.eval a = p.eval (upd a x b) ∧
    (TopDown.condition NS t p.neg x b).1.eval a = !(p.eval (upd a x b)) ∧
    (TopDown.condition NS t p x b).1.free ∧ x ∉ (TopDown.condition NS t p x b).1.vars := by
  have h1 := condHelper_spec hNS x b p t ht hp
  have h2 := condHelper_spec hNS x b p.neg t ht (free_neg hp)
  refine ⟨h1.2.1 a, ?_, h1.2.2.2, fun h => (h1.2.2.1 x h).2 rfl⟩
  rw [TopDown.condition, h2.2.1 a, eval_neg]

/-- the same for the standard store, no side condition but freeness -/
theorem cond_correct_dnnf_standard (p : Ptr) (hp : p.free) (x : Nat) (b : Bool) (a : Assign) :
    (TopDown.condition standardStore () p x b).1.eval a = p.eval (upd a x b) ∧
    (TopDown.condition standardStore () p.neg x b).1.eval a = !(p.eval (upd a x b)) :=
  let h := cond_correct_dnnf standardStore_sound () trivial p hp x b a
  ⟨h.1, h.2.1⟩

/-- `mkVar` (`TopDownBuilder::var`) denotes the literal -/
theorem mkVar_eval {NS : NodeStore} {inv : NS.τ → Prop} (hNS : NS.Sound inv) (t : NS.τ) (ht : inv t)
    (x : Nat) (pol : Bool) (a : Assign) : (TopDown.mkVar NS t x pol).1.eval a = fVar x pol a := by
  unfold TopDown.mkVar
  cases pol
  · simp only [Bool.false_eq_true, if_false, eval_neg, hNS.eval_eq t ht, Ptr.eval, fVar]
    cases a x <;> rfl
  · simp only [if_true, hNS.eval_eq t ht, Ptr.eval, fVar]
    cases a x <;> rfl

/-- `¬(x0 ∨ x1)` as the standard store builds it -/
def notOr01 : Ptr := (dnnfNode 0 (dnnfNode 1 .fls .tru) .tru).neg

/-- the pinned `cond_helper` (finding F2): conditioning `¬(x0 ∨ x1)` on `x0 = ⊤` gives ⊤,
the restricted function is ⊥; the repaired helper gives ⊥ -/
theorem condOrig_wrong :
    (conditionOrig standardStore () notOr01 0 true).1 = .tru ∧
    (∀ a, notOr01.eval (upd a 0 true) = false) ∧
    (TopDown.condition standardStore () notOr01 0 true).1 = .fls := by
  refine ⟨by decide, ?_, by decide⟩
  intro a
  simp [notOr01, dnnfNode, Ptr.isNeg, Ptr.neg, Ptr.eval]

/-! ## non-vacuity: the reference solver, an idealised semantic hash, executable runs -/

/-- the executable reference solver `NaiveSolver` satisfies every hypothesis made on the solver,
for every CNF -/
theorem naiveSolver_satisfies (cnf : Cnf) (numVars : Nat) :
    HashSound (naiveSpec cnf) ∧ FreeDecide (naiveSpec cnf) ∧ NewSpec (naiveSpec cnf) cnf numVars :=
  ⟨naive_hashSound cnf, naive_freeDecide cnf, naive_newSpec cnf numVars⟩

/-- hence, with NO hypothesis: for every CNF the model compiler run with the reference solver
(standard store, identity order) returns a free diagram denoting the CNF, the false constant
iff the CNF is unsatisfiable -/
theorem naiveCompile_correct (cnf : Cnf) :
    (∀ a, (naiveCompile cnf).eval a = cnfSat a cnf) ∧ (naiveCompile cnf).free ∧
    (naiveCompile cnf = .fls ↔ ∀ a, cnfSat a cnf = false) := TopDown.naiveCompile_correct cnf

/-- the same for every order that enumerates the variables -/
theorem naiveCompile_order_correct (cnf : Cnf) (varAt : Nat → Nat) (numVars : Nat)
    (hvarAt : ∀ v, InCnf cnf v → ∃ i, i < numVars ∧ varAt i = v) :
    (∀ a, (compileTopdown NaiveSolver standardStore varAt cnf numVars ()).1.eval a = cnfSat a cnf) ∧
    (compileTopdown NaiveSolver standardStore varAt cnf numVars ()).1.free ∧
    ((compileTopdown NaiveSolver standardStore varAt cnf numVars ()).1 = .fls ↔ ∀ a, cnfSat a cnf = false) :=
  compileTopdown_correct (naiveSpec cnf) varAt (naive_hashSound cnf) (naive_freeDecide cnf) cnf numVars
    (naive_newSpec cnf numVars) hvarAt (fun _ _ => trivial)

/-- an idealised collision-free "hash": the node itself, tagged; `negH` flips the tag -/
def idealHash (p : Ptr) : Ptr × Bool := (p, false)
def idealNeg (h : Ptr × Bool) : Ptr × Bool := (h.1, !h.2)

theorem idealHash_collisionFree : CollisionFree idealHash idealNeg id := by
  intro n m
  constructor
  · intro h
    have : m = n := by simpa [idealHash] using h
    rw [this]; exact Agrees.refl n
  · intro h
    simp [idealHash, idealNeg] at h

/-- so `CollisionFree` is satisfiable, and with it the semantic-store theorem applies -/
theorem naiveCompile_semantic_ideal (cnf : Cnf) :
    let r := (compileTopdown NaiveSolver (semanticStore idealHash idealNeg) id cnf (cnfNumVars cnf) []).1
    (∀ a, r.eval a = cnfSat a cnf) ∧ r.free ∧ (r = .fls ↔ ∀ a, cnfSat a cnf = false) :=
  compileTopdown_correct_semantic_partial (naiveSpec cnf) id idealHash idealNeg id idealHash_collisionFree
    (naive_hashSound cnf) (naive_freeDecide cnf) cnf (cnfNumVars cnf) (naive_newSpec cnf _)
    (fun v hv => ⟨v, lt_cnfNumVars hv, rfl⟩) (fun _ _ => trivial)

/-- a semantic hash in the prime field `P` as the Rust computes it: weighted count with the
normalised weights `(w, 1 - w)`, `w = var + 2` -/
def ffHash (P : Nat) : Ptr → Nat
  | .tru => 1 % P
  | .fls => 0
  | .node c v lo hi =>
    let x := ((v + 2) * ffHash P lo + (P + 1 - (v + 2) % P) * ffHash P hi) % P
    if c then (P + 1 - x) % P else x
def ffNeg (P : Nat) (h : Nat) : Nat := (P + 1 - h % P) % P

private def p (v : Nat) : Lit := ⟨v, true⟩
private def n (v : Nat) : Lit := ⟨v, false⟩

/-- `(x0 ∨ x1) ∧ (x2 ∨ x3)`: a component-cache hit on the residual `(x2 ∨ x3)` -/
def ex1 : Cnf := [[p 0, p 1], [p 2, p 3]]
/-- implication chain with a long clause -/
def ex2 : Cnf := [[n 0, p 1], [n 1, p 2], [p 3, n 2, p 0]]

/-- truth tables agree -/
def sameTable (k : Nat) (r : Ptr) (cnf : Cnf) : Bool :=
  (List.range (2 ^ k)).all fun i => r.eval (assignOfNat i) == cnfSat (assignOfNat i) cnf

example : naiveCompile ex1 =
    .node false 0
      (.node false 1 .fls (.node false 2 (.node false 3 .fls .tru) .tru))
      (.node false 2 (.node false 3 .fls .tru) .tru) := by decide
example : sameTable 4 (naiveCompile ex2) ex2 = true := by decide
-- the semantic store over a prime field, run on the same inputs
example : sameTable 4
    (compileTopdown NaiveSolver (semanticStore (ffHash 1000003) (ffNeg 1000003)) id ex1 4 []).1 ex1 = true := by
  decide
example : sameTable 4
    (compileTopdown NaiveSolver (semanticStore (ffHash 1000003) (ffNeg 1000003)) id ex2 4 []).1 ex2 = true := by
  decide
-- a non-identity order (x3, x1, x0, x2)
example : sameTable 4
    (compileTopdown NaiveSolver standardStore (fun i => [3, 1, 0, 2].getD i 0) ex2 4 ()).1 ex2 = true := by
  decide
-- in the field with 5 elements two different functions collide and the result is WRONG:
-- unconditional correctness of the semantic store is false
example : sameTable 4
    (compileTopdown NaiveSolver (semanticStore (ffHash 5) (ffNeg 5)) id ex2 4 []).1 ex2 = false := by
  decide
-- conditioning the compiled diagram and its negation
example : ((TopDown.condition standardStore () (naiveCompile ex1) 1 false).1,
           (TopDown.condition standardStore () (naiveCompile ex1).neg 1 false).1) =
    (.node false 0 .fls (.node false 2 (.node false 3 .fls .tru) .tru),
     .node true 0 .fls (.node false 2 (.node false 3 .fls .tru) .tru)) := by decide

/-! ## axioms -/
#print axioms topdownH_correct
#print axioms compileTopdown_correct_store
#print axioms compileTopdown_correct
#print axioms compileTopdown_correct_semantic_partial
#print axioms topdownH_correct_semantic_partial
#print axioms compileTopdownOrig_not_false
#print axioms f8_unsat
#print axioms cond_correct_dnnf
#print axioms cond_correct_dnnf_standard
#print axioms mkVar_eval
#print axioms condOrig_wrong
#print axioms naiveSolver_satisfies
#print axioms naiveCompile_correct
#print axioms naiveCompile_order_correct
#print axioms idealHash_collisionFree
#print axioms naiveCompile_semantic_ideal

end C06
