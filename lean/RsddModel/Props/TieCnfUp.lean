import RsddModel.Model.GenCnfUp
import RsddModel.Model.CnfUtil
import RsddModel.Model.UnitProp
import RsddModel.Lemmas.CnfUtil
import RsddModel.Lemmas.UpSolverSpec
import RsddModel.Props.C15
import RsddModel.Props.C09
import RsddModel.Lemmas.TieCnfUpAux
/-!
# Tie to the source text (translator route): `var_label.rs`, `model.rs`, `cnf.rs`

`RsddModel/Model/GenCnfUp.lean` is rewritten by `tools/gen_cnfup.py` from the Rust source on every run.  The theorems
below state that the regenerated definitions ARE the hand-written model definitions of `Model/CnfUtil.lean`.
Each proof tries definitional equality first and then extensional arguments, so that a re-arrangement of the
source that leaves the function unchanged still checks.
-/
set_option linter.unusedSimpArgs false
set_option linter.unusedVariables false
namespace TieCnfUp
open Spec CnfUtil TieAux

/-- generic fallback: unfold both sides, case-split, close with `grind` -/
local macro "tie_auto" g:ident m:ident : tactic =>
  `(tactic| first
    | rfl
    | (funext a; simp only [$g:ident, $m:ident]; first | rfl | grind | (split <;> simp_all <;> grind))
    | (funext a b; simp only [$g:ident, $m:ident]; first | rfl | grind | (cases b <;> rfl) | (split <;> simp_all <;> grind))
    | (funext a b c; simp only [$g:ident, $m:ident]; first | rfl | grind | (cases c <;> rfl) | (split <;> simp_all <;> grind)))

/-! ## `Literal` (the `u64` word) -/
theorem literal_new : Gen.CnfUtil.packNew = CnfUtil.packNew := by tie_auto Gen.CnfUtil.packNew CnfUtil.packNew
theorem literal_label : Gen.CnfUtil.packedLabel = CnfUtil.packedLabel := by
  first | rfl | (funext d; simp only [Gen.CnfUtil.packedLabel, CnfUtil.packedLabel, rawLabel])
theorem literal_polarity : Gen.CnfUtil.packedPolarity = CnfUtil.packedPolarity := by
  first | rfl | (funext d; simp only [Gen.CnfUtil.packedPolarity, CnfUtil.packedPolarity, rawPolarity]; first | rfl | grind)
theorem literal_implies_true : Gen.CnfUtil.packedImpliesTrue = CnfUtil.packedImpliesTrue := by
  first
  | rfl
  | (funext d e; simp only [Gen.CnfUtil.packedImpliesTrue, CnfUtil.packedImpliesTrue, literal_label, literal_polarity]; first | rfl | grind)
theorem literal_implies_false : Gen.CnfUtil.packedImpliesFalse = CnfUtil.packedImpliesFalse := by
  first
  | rfl
  | (funext d e; simp only [Gen.CnfUtil.packedImpliesFalse, CnfUtil.packedImpliesFalse, literal_label, literal_polarity]; first | rfl | grind)
theorem literal_negated : Gen.CnfUtil.packedNegated = CnfUtil.packedNegated := by
  first
  | rfl
  | (funext d; simp only [Gen.CnfUtil.packedNegated, CnfUtil.packedNegated, literal_label, literal_polarity, literal_new])

/-! ## `VarSet` -/
theorem varset_new : Gen.CnfUtil.vsNew = VarSet.new := by first | rfl | simp [Gen.CnfUtil.vsNew, VarSet.new]
theorem varset_new_with_num_vars : Gen.CnfUtil.vsNewWithNumVars = VarSet.newWithNumVars := by tie_auto Gen.CnfUtil.vsNewWithNumVars VarSet.newWithNumVars
theorem varset_union_with : Gen.CnfUtil.vsUnionWith = VarSet.unionWith := by
  first | rfl | (funext s t; simp only [Gen.CnfUtil.vsUnionWith, VarSet.unionWith, VarSet.union])
theorem varset_iter : Gen.CnfUtil.vsIter = VarSet.iter := by tie_auto Gen.CnfUtil.vsIter VarSet.iter
theorem varset_union : Gen.CnfUtil.vsUnion = VarSet.union := by tie_auto Gen.CnfUtil.vsUnion VarSet.union
theorem varset_minus : Gen.CnfUtil.vsMinus = VarSet.minus := by tie_auto Gen.CnfUtil.vsMinus VarSet.minus
theorem varset_insert : Gen.CnfUtil.vsInsert = VarSet.insert := by tie_auto Gen.CnfUtil.vsInsert VarSet.insert
theorem varset_contains : Gen.CnfUtil.vsContains = VarSet.contains := by tie_auto Gen.CnfUtil.vsContains VarSet.contains
theorem varset_intersect : Gen.CnfUtil.vsIntersect = VarSet.intersect := by
  first | rfl | (funext s t; simp only [Gen.CnfUtil.vsIntersect, VarSet.intersect, VarSet.intersectVarset])
theorem varset_remove : Gen.CnfUtil.vsRemove = VarSet.remove := by tie_auto Gen.CnfUtil.vsRemove VarSet.remove
theorem varset_difference : Gen.CnfUtil.vsDifference = VarSet.difference := by
  first | rfl | (funext s t; simp only [Gen.CnfUtil.vsDifference, VarSet.difference, VarSet.minus])
theorem varset_intersect_varset : Gen.CnfUtil.vsIntersectVarset = VarSet.intersectVarset := by tie_auto Gen.CnfUtil.vsIntersectVarset VarSet.intersectVarset
theorem varset_is_empty : Gen.CnfUtil.vsIsEmpty = VarSet.isEmpty := by tie_auto Gen.CnfUtil.vsIsEmpty VarSet.isEmpty
theorem varset_len : Gen.CnfUtil.vsLen = VarSet.len := by tie_auto Gen.CnfUtil.vsLen VarSet.len

theorem varset_eq : Gen.CnfUtil.vsEq = TieAux.varSetEq := by
  first
  | rfl
  | (funext s t; cases s; cases t; simp [Gen.CnfUtil.vsEq, TieAux.varSetEq]; first | done | exact beq_eq_decide _ _ | (rw [Bool.eq_iff_iff]; simp))

/-! ## `PartialModel` -/
theorem pm_new : Gen.CnfUtil.pmNew = PartialModel.new := by tie_auto Gen.CnfUtil.pmNew PartialModel.new
theorem pm_from_total_model : Gen.CnfUtil.pmFromTotalModel = PartialModel.fromTotalModel := by
  first
  | rfl
  | (funext a; simp only [Gen.CnfUtil.pmFromTotalModel, PartialModel.fromTotalModel]; first | rfl | (congr 1))
theorem pm_unset : Gen.CnfUtil.pmUnset = PartialModel.unset := by tie_auto Gen.CnfUtil.pmUnset PartialModel.unset
theorem pm_set : Gen.CnfUtil.pmSet = PartialModel.set := by
  first
  | rfl
  | (funext m x b; cases b <;> rfl)
  | (funext m x b; cases b <;> simp [Gen.CnfUtil.pmSet, PartialModel.set])
theorem pm_get : Gen.CnfUtil.pmGet = PartialModel.get := by
  first
  | rfl
  | (funext m x; simp only [Gen.CnfUtil.pmGet, PartialModel.get]; first | rfl | grind | (cases m.trueA.contains x <;> cases m.falseA.contains x <;> rfl))
theorem pm_lit_implied : Gen.CnfUtil.pmLitImplied = PartialModel.litImplied := by
  first
  | rfl
  | (funext m l; simp only [Gen.CnfUtil.pmLitImplied, PartialModel.litImplied]
     cases m.get l.var <;> (first | rfl | (rename_i v; cases v <;> cases l.pol <;> rfl) | simp | grind))
theorem pm_lit_neg_implied : Gen.CnfUtil.pmLitNegImplied = PartialModel.litNegImplied := by
  first
  | rfl
  | (funext m l; simp only [Gen.CnfUtil.pmLitNegImplied, PartialModel.litNegImplied]
     cases m.get l.var <;> (first | rfl | (rename_i v; cases v <;> cases l.pol <;> rfl) | simp | grind))
theorem pm_is_set : Gen.CnfUtil.pmIsSet = PartialModel.isSet := by tie_auto Gen.CnfUtil.pmIsSet PartialModel.isSet
theorem pm_assignment_iter : Gen.CnfUtil.pmAssignmentIter = PartialModel.assignmentIter := by tie_auto Gen.CnfUtil.pmAssignmentIter PartialModel.assignmentIter
theorem pm_difference : Gen.CnfUtil.pmDifference = PartialModel.difference := by tie_auto Gen.CnfUtil.pmDifference PartialModel.difference

/-! ## `Cnf` -/
theorem cnf_new : Gen.CnfUtil.cnfNew = CnfUtil.cnfNew := by
  first
  | rfl
  | (funext cs; simp only [Gen.CnfUtil.cnfNew, CnfUtil.cnfNew, normClause, numVarsOf, clauseMax]; first | rfl | grind)
theorem cnf_num_vars : Gen.CnfUtil.cnfNumVars = CnfUtil.numVars := by tie_auto Gen.CnfUtil.cnfNumVars CnfUtil.numVars

theorem hasher_pop : Gen.CnfUtil.hasherPop = CnfHasher.pop := by tie_auto Gen.CnfUtil.hasherPop CnfHasher.pop
theorem hasher_push : Gen.CnfUtil.hasherPush = CnfHasher.push := by
  first
  | rfl
  | (funext h; simp only [Gen.CnfUtil.hasherPush, CnfHasher.push]; cases h.state <;> rfl)
  | (funext h; simp only [Gen.CnfUtil.hasherPush, CnfHasher.push]; split <;> simp_all)


/-! ## loops -/
theorem foldl_flag {α : Type} (p : α → Bool) (f : Bool → α → Bool) (hf : ∀ b x, f b x = (p x || b)) :
    ∀ (xs : List α) (b : Bool), List.foldl f b xs = (xs.any p || b)
  | [], b => by simp
  | x :: xs, b => by
    simp only [List.foldl_cons, hf, List.any_cons]
    rw [foldl_flag p f hf xs]; cases p x <;> cases xs.any p <;> simp

theorem forStep_all {α ρ : Type} (p : α → Bool) (r : ρ) (f : Unit → α → Step Unit ρ)
    (hf : ∀ x, f () x = if p x then .go () else .ret r) :
    ∀ (xs : List α), forStep xs () f = if xs.all p then .go () else .ret r
  | [] => rfl
  | x :: xs => by
    have ih := forStep_all p r f hf xs
    simp only [forStep, hf, List.all_cons]
    by_cases h : p x = true
    · simp only [h, if_true, Bool.true_and]; exact ih
    · have h' : p x = false := by simpa using h
      simp [h']

theorem cnf_eval : Gen.CnfUtil.cnfEval = CnfUtil.eval := by
  first
  | rfl
  | (funext c asg; simp only [Gen.CnfUtil.cnfEval, CnfUtil.eval]
     rw [forStep_all (fun cl => cl.any fun l => l.pol == asg.getD l.var false) (some false)]
     · by_cases h : asg.length < c.numVars
       · have : ¬ (asg.length ≥ c.numVars) := by omega
         simp [h, this]
       · have : asg.length ≥ c.numVars := by omega
         simp only [h, this, decide_true, Bool.not_true, Bool.false_eq_true, if_false]
         cases hc : c.clauses.all (fun cl => cl.any fun l => l.pol == asg.getD l.var false) <;> simp [hc, Step.fin]
     · intro cl
       rw [foldl_flag (fun l => l.pol == asg.getD l.var false)]
       · cases cl.any (fun l => l.pol == asg.getD l.var false) <;> simp
       · intro b x; cases hx : (x.pol == asg.getD x.var false) <;> simp [hx])
  | (funext c asg; simp only [Gen.CnfUtil.cnfEval, CnfUtil.eval]
     by_cases h : asg.length < c.numVars
     · have h' : ¬ (asg.length ≥ c.numVars) := by omega
       simp [h, h']
     · have h' : asg.length ≥ c.numVars := by omega
       simp only [h, h', decide_true, Bool.not_true, Bool.false_eq_true, if_false]
       congr 2; funext cl; congr 1; funext l
       cases l.pol <;> cases asg.getD l.var false <;> rfl)

theorem cnf_is_sat_partial : Gen.CnfUtil.cnfIsSatPartial = CnfUtil.isSatPartial := by
  first
  | rfl
  | (funext c m; simp only [Gen.CnfUtil.cnfIsSatPartial, CnfUtil.isSatPartial]
     rw [forStep_all (fun cl => cl.any fun l => match m.get l.var with | some b => l.pol == b | none => false) false]
     · cases hc : c.clauses.all (fun cl => cl.any fun l => match m.get l.var with | some b => l.pol == b | none => false) <;> simp [hc, Step.fin]
     · intro cl
       rw [foldl_flag (fun l => match m.get l.var with | some b => l.pol == b | none => false)]
       · cases cl.any (fun l => match m.get l.var with | some b => l.pol == b | none => false) <;> simp
       · intro b x; cases hg : m.get x.var <;> simp [hg]
         rename_i v; cases hx : (x.pol == v) <;> simp_all)
  | (funext c m; simp only [Gen.CnfUtil.cnfIsSatPartial, CnfUtil.isSatPartial]
     congr 1; funext cl; congr 1; funext l
     cases hg : m.get l.var with
     | none => simp
     | some b => cases l.pol <;> cases b <;> simp)

theorem filterMap_ite {α β : Type} (p : α → Bool) (g : α → β) : ∀ xs : List α,
    xs.filterMap (fun c => if p c then none else some (g c)) = (xs.filter (fun c => !p c)).map g
  | [] => rfl
  | x :: xs => by cases h : p x <;> simp [List.filterMap_cons, List.filter_cons, h, filterMap_ite p g xs]

/-- `condClause` in closed form: the iterator-combinator shape of `Cnf::condition` -/
theorem condClause_closed (lit : Lit) : ∀ (cl acc : List Lit),
    condClause lit cl acc = if cl.contains lit then none else some (acc ++ cl.filter (fun l => l.var != lit.var))
  | [], acc => by simp [condClause]
  | l :: r, acc => by
    rcases l with ⟨lv, lp⟩
    rcases lit with ⟨v, p⟩
    simp only [condClause, List.contains_cons, condClause_closed ⟨v, p⟩ r]
    by_cases hv : lv = v
    · subst hv
      by_cases hp : lp = p
      · subst hp; simp
      · have hne : (Lit.mk lv p == Lit.mk lv lp) = false := by
          simp [BEq.beq, instBEqLit.beq] <;> intro h <;> exact absurd h.symm hp
        simp [hp, hne]
    · have hne : (Lit.mk v p == Lit.mk lv lp) = false := by
        simp [BEq.beq, instBEqLit.beq] <;> intro h <;> exact absurd h.symm hv
      simp [hv, hne]

theorem condClause_forStep (lit : Lit) (f : List Lit → Lit → Step (List Lit) Unit)
    (hf : ∀ acc l, f acc l = if l.var == lit.var && l.pol == lit.pol then .ret ()
        else if l.var == lit.var && l.pol != lit.pol then .go acc else .go (acc ++ [l])) :
    ∀ (cl acc : List Lit), forStep cl acc f = match condClause lit cl acc with | none => .ret () | some a => .go a
  | [], acc => rfl
  | l :: r, acc => by
    simp only [forStep, hf, condClause]
    by_cases h1 : (l.var == lit.var && l.pol == lit.pol) = true
    · simp [h1]
    · by_cases h2 : (l.var == lit.var && l.pol != lit.pol) = true
      · simp only [h1, h2, if_true, if_false]; exact condClause_forStep lit f hf r acc
      · simp only [h1, h2, if_false]; exact condClause_forStep lit f hf r (acc ++ [l])

theorem foldl_filterMap {α β : Type} (g : α → Option β) (f : List β → α → List β)
    (hf : ∀ acc x, f acc x = match g x with | some b => acc ++ [b] | none => acc) :
    ∀ (xs : List α) (acc : List β), List.foldl f acc xs = acc ++ xs.filterMap g
  | [], acc => by simp
  | x :: xs, acc => by
    simp only [List.foldl_cons, hf, List.filterMap_cons]
    cases hg : g x <;> simp [foldl_filterMap g f hf xs]

theorem cnf_condition : Gen.CnfUtil.cnfCondition = CnfUtil.condition := by
  first
  | rfl
  | (funext c lit; simp only [Gen.CnfUtil.cnfCondition, CnfUtil.condition, condClauses, cnf_new]
     congr 1
     rw [foldl_filterMap (fun cl => condClause lit cl [])]
     · simp
     · intro acc cl
       rw [condClause_forStep lit]
       · cases condClause lit cl [] <;> simp [Step.fin]
       · intro a l; rfl)
  | (funext c lit; simp only [Gen.CnfUtil.cnfCondition, CnfUtil.condition, condClauses, cnf_new]
     congr 1
     have hcc : (fun c => condClause lit c []) =
         (fun c => if c.contains lit then none else some (c.filter (fun l => l.var != lit.var))) := by
       funext c; simp [condClause_closed]
     rw [hcc]
     exact (filterMap_ite (fun c : List Lit => c.contains lit) (fun c => c.filter (fun l => l.var != lit.var)) c.clauses).symm)

theorem hasher_decide_loop (f : List (List Nat) → Nat → Step (List (List Nat)) (Option CnfHasher))
    (hf : ∀ st i, f st i = match st with | [] => .ret none | top :: below => .go ((top.filter fun j => j != i) :: below)) :
    ∀ (idxs : List Nat) (top : List Nat) (below : List (List Nat)),
      forStep idxs (top :: below) f = .go ((top.filter fun j => !idxs.contains j) :: below)
  | [], top, below => by
    have : top.filter (fun j => !([] : List Nat).contains j) = top := by induction top <;> simp_all
    rw [this]; rfl
  | i :: r, top, below => by
    simp only [forStep, hf]
    rw [hasher_decide_loop f hf r]
    congr 2
    rw [List.filter_filter]
    congr 1; funext j
    simp only [List.contains_cons]
    by_cases hj : j = i <;> cases hr : r.contains j <;> simp [hj, hr, bne]

theorem hasher_decide_fin (h : CnfHasher) (idxs : List Nat)
    (f : List (List Nat) → Nat → Step (List (List Nat)) (Option CnfHasher))
    (hf : ∀ st i, f st i = match st with | [] => .ret none | top :: below => .go ((top.filter fun j => j != i) :: below)) :
    (forStep idxs h.state f).fin (fun st => some { h with state := st }) (fun r => r) =
      if idxs.isEmpty then some h else match h.state with
        | [] => none
        | top :: rest => some { h with state := top.filter (fun i => !idxs.contains i) :: rest } := by
  cases h with
  | mk w st p n =>
    cases st with
    | nil => cases idxs <;> simp [forStep, Step.fin, hf]
    | cons top below =>
      simp only [hasher_decide_loop f hf]
      cases idxs <;> simp [Step.fin]

theorem hasher_decide : Gen.CnfUtil.hasherDecide = CnfHasher.decide := by
  first
  | rfl
  | (funext h lit; simp only [Gen.CnfUtil.hasherDecide, CnfHasher.decide]
     cases lit.pol <;> simp only [if_true, if_false, Bool.false_eq_true] <;> split <;> rename_i heq <;>
      simp only [heq] <;> first | rfl | (rw [hasher_decide_fin h _ _ (by intro st i; rfl)]; first | rfl | simp))

theorem cnf_var_in_cnf : Gen.CnfUtil.cnfVarInCnf = CnfUtil.varInCnf := by
  first
  | rfl
  | (funext c v; simp only [Gen.CnfUtil.cnfVarInCnf, CnfUtil.varInCnf]
     rw [forStep_all (fun l => !(l.var == v)) true _ (by intro x; cases h : (x.var == v) <;> simp [h])]
     induction c.clauses.flatten with
     | nil => simp [Step.fin]
     | cons a t ih => cases h : (a.var == v) <;> simp_all [Step.fin] <;> grind)

/-! ## `PartialModel::from_assignments`, `from_litvec` -/
theorem fromAssignments_fold (f : VarSet × VarSet → Nat × Option Bool → VarSet × VarSet)
    (hf : ∀ st i a, f st (i, a) = match a with
      | some true => (st.1.insert i, st.2) | some false => (st.1, st.2.insert i) | none => st) :
    ∀ (as : List (Option Bool)) (i : Nat) (st : VarSet × VarSet),
      List.foldl f st (enumFrom i as) =
        ((PartialModel.fromAssignmentsAux as i ⟨st.1, st.2⟩).trueA, (PartialModel.fromAssignmentsAux as i ⟨st.1, st.2⟩).falseA)
  | [], i, st => rfl
  | a :: r, i, st => by
    simp only [enumFrom, List.foldl_cons, hf]
    rw [fromAssignments_fold f hf r (i + 1)]
    cases a with
    | none => rfl
    | some b => cases b <;> rfl

theorem pm_from_assignments : Gen.CnfUtil.pmFromAssignments = PartialModel.fromAssignments := by
  first
  | rfl
  | (funext as; simp only [Gen.CnfUtil.pmFromAssignments, PartialModel.fromAssignments, TieAux.enum]
     rw [fromAssignments_fold _ (by intro st i a; cases a with | none => rfl | some b => cases b <;> rfl)]
     rfl)

theorem litvecFill_forStep {ρ : Type} (f : List (Option Bool) → Lit → Step (List (Option Bool)) (Option ρ))
    (hf : ∀ acc l, f acc l = if l.var < acc.length then .go (acc.set l.var (some l.pol)) else .ret none) :
    ∀ (ls : List Lit) (acc : List (Option Bool)),
      forStep ls acc f = match PartialModel.litvecFill ls acc with | some a => .go a | none => .ret none
  | [], acc => rfl
  | l :: r, acc => by
    simp only [forStep, hf, PartialModel.litvecFill]
    by_cases h : l.var < acc.length
    · simp only [h, if_true]; exact litvecFill_forStep f hf r _
    · simp [h]

theorem pm_from_litvec : Gen.CnfUtil.pmFromLitvec = PartialModel.fromLitvec := by
  first
  | rfl
  | (funext ls n; simp only [Gen.CnfUtil.pmFromLitvec, PartialModel.fromLitvec]
     rw [litvecFill_forStep _ (by intro acc l; rfl)]
     cases PartialModel.litvecFill ls (List.replicate n none) <;> rfl)

/-! ## `Cnf::wmc` -/
theorem foldl_push_map {α β : Type} (g : α → β) (f : List β → α → List β) (hf : ∀ acc x, f acc x = acc ++ [g x]) :
    ∀ (xs : List α) (acc : List β), List.foldl f acc xs = acc ++ xs.map g
  | [], acc => by simp
  | x :: xs, acc => by simp [hf, foldl_push_map g f hf xs]

theorem asgWeight_fold {α : Type} (S : SROps α) (w : Weights α) (wv : List (α × α)) (d : α × α) (n : Nat)
    (hwv : ∀ i, i < n → wv.getD i d = w i)
    (f : α → Nat × Bool → α) (hf : ∀ v i b, f v (i, b) = S.mul v (if b then (wv.getD i d).2 else (wv.getD i d).1)) :
    ∀ (asg : List Bool) (i : Nat) (v : α), i + asg.length ≤ n →
      List.foldl f v (enumFrom i asg) = asgWeightFrom S w asg i v
  | [], i, v, _ => rfl
  | b :: r, i, v, h => by
    simp only [List.length_cons] at h
    simp only [enumFrom, List.foldl_cons, hf, asgWeightFrom, hwv i (by omega)]
    exact asgWeight_fold S w wv d n hwv f hf r (i + 1) _ (by omega)

theorem wmc_forStep {α : Type} (S : SROps α) (c : CnfM) (W : List Bool → α)
    (f : α → List Bool → Step α (Option α)) :
    ∀ (xs : List (List Bool)) (t : α),
      (∀ x, x ∈ xs → ∀ t, f t x = match eval c x with
          | none => .ret none | some true => .go (S.add t (W x)) | some false => .go t) →
      (forStep xs t f).fin (fun t => some t) (fun r => r) =
        xs.foldl (fun total asg => match total, eval c asg with
          | some t, some true => some (S.add t (W asg))
          | some t, some false => some t
          | _, _ => none) (some t)
  | [], t, _ => rfl
  | x :: xs, t, hf => by
    have hx := hf x (by simp) t
    have ih := fun t' => wmc_forStep S c W f xs t' (fun y hy => hf y (by simp [hy]))
    simp only [forStep, hx, List.foldl_cons]
    cases he : eval c x with
    | none =>
      simp only [Step.fin]
      clear ih hf hx
      induction xs with
      | nil => rfl
      | cons y ys ihy => simpa using ihy
    | some b => cases b <;> simp only [] <;> exact ih _

theorem cnf_wmc : @Gen.CnfUtil.cnfWmc = @CnfUtil.wmc := by
  first
  | rfl
  | (funext α S c w
     simp only [Gen.CnfUtil.cnfWmc, CnfUtil.wmc]
     rw [foldl_push_map w _ (by intro acc x; rfl)]
     rw [wmc_forStep S c (asgWeight S w)]
     · rfl
     · intro x hx t
       have hlen : x.length = c.numVars := CnfUtil.mem_assignmentIter.mp hx
       cases he : eval c x with
       | none => rfl
       | some b =>
         cases b
         · rfl
         · simp only [if_true]
           congr 2
           simp only [TieAux.enum, asgWeight]
           exact asgWeight_fold S w ([] ++ List.map w (List.range c.numVars)) (S.zero, S.zero) c.numVars
             (by intro i hi; simp [List.getD_eq_getElem?_getD, hi]) _
             (by intro v i b; cases b <;> rfl) x 0 S.one (by omega))

/-! ## `CnfHasher::hash` -/
theorem hashClause_forStep (m : PartialModel) (f : Nat → Nat × Lit → Step Nat Unit)
    (hf : ∀ acc x, f acc x = if m.litImplied x.2 then .ret () else if m.litNegImplied x.2 then .go acc
      else .go (wmul acc x.1)) :
    ∀ (cl : List (Nat × Lit)) (acc : Nat),
      forStep cl acc f = match CnfHasher.hashClause m cl acc with | none => .ret () | some a => .go a
  | [], acc => rfl
  | (w, l) :: r, acc => by
    simp only [forStep, hf, CnfHasher.hashClause]
    by_cases h1 : m.litImplied l = true
    · simp [h1]
    · by_cases h2 : m.litNegImplied l = true
      · simp only [h1, h2, if_true, if_false]; exact hashClause_forStep m f hf r acc
      · simp only [h1, h2, if_false]; exact hashClause_forStep m f hf r _

theorem foldl_hom {α β γ : Type} (φ : β → γ) (G : γ → α → γ) (g : β → α → β) (h : ∀ a x, G (φ a) x = φ (g a x)) :
    ∀ (xs : List α) (a : β), List.foldl G (φ a) xs = φ (List.foldl g a xs)
  | [], a => rfl
  | x :: xs, a => by simp only [List.foldl_cons, h]; exact foldl_hom φ G g h xs _

theorem mapTake_replicate {α : Type} (n : Nat) (f : α → α) (a : α) :
    mapTake n f (List.replicate n a) = List.replicate n (f a) := by
  simp [mapTake]

theorem hasher_hash : Gen.CnfUtil.hasherHash = CnfHasher.hashedCnf := by
  first
  | rfl
  | (funext h m
     simp only [Gen.CnfUtil.hasherHash, CnfHasher.hashedCnf, CnfHasher.hash]
     cases h.state with
     | nil => rfl
     | cons top rest =>
       simp only [Option.map_some, CnfHasher.hashOver]
       congr 1
       refine foldl_hom (List.replicate numPrimes) _ _ ?_ top 1
       intro a ci
       rw [hashClause_forStep m _ (by intro acc x; rfl)]
       cases CnfHasher.hashClause m (h.weighted.getD ci []) 1 <;> simp [Step.fin, mapTake_replicate])

/-! ## `CnfHasher::new` -/
theorem weightClause_mapAccum (f : Nat → Lit → (Nat × Lit) × Nat) (hf : ∀ p l, f p l = ((nextPrime p, l), nextPrime p)) :
    ∀ (ls : List Lit) (p : Nat), mapAccum f p ls = weightClause ls p
  | [], p => rfl
  | l :: ls, p => by simp only [mapAccum, hf, weightClause, weightClause_mapAccum f hf ls]

theorem weightCnf_mapAccum (f : Nat → List Lit → List (Nat × Lit) × Nat) (hf : ∀ p c, f p c = weightClause c p) :
    ∀ (cs : List (List Lit)) (p : Nat), (mapAccum f p cs).1 = weightCnf cs p
  | [], p => rfl
  | c :: cs, p => by simp only [mapAccum, hf, weightCnf, weightCnf_mapAccum f hf cs]

theorem enumFrom_filterMap {α : Type} (p : α → Bool) (d : α) (f : Nat × α → Option Nat)
    (hf : ∀ i x, f (i, x) = if p x then some i else none) :
    ∀ (xs : List α) (k : Nat),
      (enumFrom k xs).filterMap f = (List.range' k xs.length).filter (fun i => p (xs.getD (i - k) d))
  | [], k => by simp [enumFrom]
  | x :: xs, k => by
    have ih := enumFrom_filterMap p d f hf xs (k + 1)
    have hc : (List.range' (k + 1) xs.length).filter (fun i => p (xs.getD (i - (k + 1)) d)) =
        (List.range' (k + 1) xs.length).filter (fun i => p ((x :: xs).getD (i - k) d)) := by
      apply List.filter_congr
      intro i hi
      have : k + 1 ≤ i := (List.mem_range'_1.mp hi).1
      have e : i - k = (i - (k + 1)) + 1 := by omega
      rw [e]; simp
    simp only [enumFrom, List.filterMap_cons, hf, List.length_cons, List.range'_succ, List.filter_cons,
      Nat.sub_self, List.getD_cons_zero, ih, hc]
    cases p x <;> simp

theorem enum_filterMap {α : Type} (p : α → Bool) (d : α) (f : Nat × α → Option Nat)
    (hf : ∀ i x, f (i, x) = if p x then some i else none) (xs : List α) :
    (TieAux.enum xs).filterMap f = (List.range xs.length).filter (fun i => p (xs.getD i d)) := by
  rw [TieAux.enum, enumFrom_filterMap p d f hf, List.range_eq_range']
  simp

theorem hasher_new : Gen.CnfUtil.hasherNew = CnfHasher.new := by
  first
  | rfl
  | (funext cs n
     simp only [Gen.CnfUtil.hasherNew, CnfHasher.new, clausesWith]
     have hw : ∀ p c, (let r := mapAccum (fun primes lit => ((nextPrime primes, lit), nextPrime primes)) p c; (r.1, r.2))
         = weightClause c p := by
       intro p c; simp only [weightClause_mapAccum _ (fun _ _ => rfl)]
     rw [weightCnf_mapAccum _ (by intro p c; exact hw p c)]
     rw [enum_filterMap (fun c => decide (c.length > 1)) [] _ (by intro i x; by_cases h : x.length > 1 <;> simp [h])]
     congr 1
     · congr 1; funext v
       rw [enum_filterMap (fun c => c.contains (Lit.mk v true)) [] _ (by intro i x; rfl)]
     · congr 1; funext v
       rw [enum_filterMap (fun c => c.contains (Lit.mk v false)) [] _ (by intro i x; rfl)])

/-! ## `AssignmentIter::next` (tied to the literal mirror `TieAux.iterNext`; `TieAux.drain_eq` relates the mirror to
`CnfUtil.assignmentIter`) -/
theorem incr_fold (f : List Bool × Bool → Bool → List Bool × Bool)
    (hf : ∀ l c b, f (l, c) b = (l ++ [b != c], b && c)) :
    ∀ (xs : List Bool) (acc : List Bool) (c : Bool),
      List.foldl f (acc, c) xs = (acc ++ (incr xs c).1, (incr xs c).2)
  | [], acc, c => by simp [incr]
  | b :: r, acc, c => by
    simp only [List.foldl_cons, hf, incr, incr_fold f hf r]
    simp

theorem iter_next : Gen.CnfUtil.iterNext = TieAux.iterNext := by
  first
  | rfl
  | (funext cur n
     cases cur with
     | none => simp [Gen.CnfUtil.iterNext, TieAux.iterNext, List.map_const']
     | some c =>
       simp only [Gen.CnfUtil.iterNext, TieAux.iterNext, Option.isNone_some, Bool.false_eq_true, if_false, Option.getD_some]
       rw [incr_fold _ (by intro l c b; rfl)]
       cases h : (incr c true).2 <;> simp [h])

end TieCnfUp

/-! # `src/repr/unit_prop.rs` against `Model/UnitProp.lean` -/
namespace TieUp
open Spec UnitProp TieAux

theorem solver_pop : Gen.UnitProp.solverPop = Solver.pop := by
  first | rfl | (funext s; simp [Gen.UnitProp.solverPop, Solver.pop])
theorem solver_cur_hash : Gen.UnitProp.solverCurHash = Solver.curHash := by
  first
  | rfl
  | (funext s; simp only [Gen.UnitProp.solverCurHash, Solver.curHash]; cases s.stack <;> first | rfl | simp)
theorem solver_is_sat : Gen.UnitProp.solverIsSat = Solver.isSat := by
  first
  | rfl
  | (funext s; simp only [Gen.UnitProp.solverIsSat, Solver.isSat]; cases s.stack <;> first | rfl | simp)
theorem solver_is_set : Gen.UnitProp.solverIsSet = Solver.isSet := by
  first
  | rfl
  | (funext s v; simp only [Gen.UnitProp.solverIsSet, Solver.isSet]; cases s.stack <;> first | rfl | simp)
theorem solver_difference_iter : Gen.UnitProp.solverDifferenceIter = Solver.differenceIter := by
  first
  | rfl
  | (funext s; simp only [Gen.UnitProp.solverDifferenceIter, Solver.differenceIter]
     cases s.stack with
     | nil => rfl
     | cons a t => cases t <;> first | rfl | simp)
theorem solver_decide : Gen.UnitProp.solverDecide = Solver.decide := by
  first
  | rfl
  | (funext s l; simp only [Gen.UnitProp.solverDecide, Solver.decide, Solver.decideWith]
     cases hs : s.stack with
     | nil => rfl
     | cons top rest =>
       simp only []
       cases hd : decideK (loop s.cnf true s.fuel) s.wl top.model l with
       | none => rfl
       | some r =>
         obtain ⟨wl', m⟩ := r
         cases m with
         | none => simp [hs]
         | some m' =>
           simp only []
           cases hu : updateHashAndSatSet s.clauses s.numVars top m' with
           | mk h st =>
             simp only [hs]
             by_cases hc : satCount s.clauses.length st = s.clauses.length <;> simp [hc])

/-! ## `UnitPropagate::decide`: prelude and watcher loop (fuel recursion) -/
theorem up_decideK : Gen.UnitProp.upDecideK = UnitProp.decideK := by
  first
  | rfl
  | (funext k wl m l; simp only [Gen.UnitProp.upDecideK, decideK]
     cases h : m l.var with
     | none => rfl
     | some v => by_cases hv : v = l.pol <;> simp [hv])

theorem isSatScan (m : PModel) (f : Nat × Bool → Lit → Step (Nat × Bool) Empty)
    (hf : ∀ st lit, f st lit = if litTrue m lit then .brk (st.1 + 1, true) else .go st) :
    ∀ (cl : List Lit) (i : Nat),
      forStep cl (i, false) f = if cl.any (litTrue m) then .brk (i + 1, true) else .go (i, false)
  | [], i => rfl
  | x :: r, i => by
    simp only [forStep, hf, List.any_cons]
    by_cases hx : litTrue m x = true
    · simp [hx]
    · have hx' : litTrue m x = false := by simpa using hx
      simp only [hx', Bool.false_eq_true, if_false, Bool.false_or]
      exact isSatScan m f hf r i

theorem up_loop (cnf : Cnf) : ∀ fuel, Gen.UnitProp.upLoop cnf fuel = UnitProp.loop cnf true fuel
  | 0 => by funext wl m l idx; rfl
  | fuel + 1 => by
    first
    | rfl
    | (funext wl m l idx
       have ih := up_loop cnf fuel
       have hfil : (fun x : Lit => (m x.var).isNone) = litUnset m := rfl
       simp only [Gen.UnitProp.upLoop, UnitProp.loop, ih, hfil]
       cases hp : l.pol <;>
         simp only [Bool.not_true, Bool.not_false, if_true, if_false, Bool.false_eq_true, List.getD_eq_getElem?_getD]
       · split
         · rfl
         · generalize hci : ((WL.get wl true l.var)[idx]?.getD 0) = ci
           generalize hcl : (cnf[ci]?.getD []) = clause
           rw [isSatScan m _ (by
             intro st lit; simp only [litTrue]; split
             · rename_i v hv; simp only [hv]
               by_cases h : lit.pol = v
               · subst h; simp
               · have h' : ¬ v = lit.pol := fun e => h e.symm
                 simp [h, h']
             · rename_i hne
               have hn : m lit.var = none := by
                 cases h : m lit.var with
                 | none => rfl
                 | some v => exact absurd h (hne v)
               simp [hn])]
           cases hany : clause.any (litTrue m)
           · simp only [Step.fin', Bool.false_eq_true, if_false]
             cases hrem : clause.filter (litUnset m) with
             | nil => simp
             | cons u r =>
               cases r with
               | nil => simp <;> rfl
               | cons second rest =>
                 simp only [pickWatch, WL.push, List.length_cons, List.headD_cons, List.getD_cons_succ, List.getD_cons_zero, if_true]
                 rcases u with ⟨uv, up⟩
                 rcases second with ⟨sv, sp⟩
                 cases up <;> cases sp <;> simp <;> split <;> simp_all
           · simp [Step.fin']
       · split
         · rfl
         · generalize hci : ((WL.get wl false l.var)[idx]?.getD 0) = ci
           generalize hcl : (cnf[ci]?.getD []) = clause
           rw [isSatScan m _ (by
             intro st lit; simp only [litTrue]; split
             · rename_i v hv; simp only [hv]
               by_cases h : lit.pol = v
               · subst h; simp
               · have h' : ¬ v = lit.pol := fun e => h e.symm
                 simp [h, h']
             · rename_i hne
               have hn : m lit.var = none := by
                 cases h : m lit.var with
                 | none => rfl
                 | some v => exact absurd h (hne v)
               simp [hn])]
           cases hany : clause.any (litTrue m)
           · simp only [Step.fin', Bool.false_eq_true, if_false]
             cases hrem : clause.filter (litUnset m) with
             | nil => simp
             | cons u r =>
               cases r with
               | nil => simp <;> rfl
               | cons second rest =>
                 simp only [pickWatch, WL.push, List.length_cons, List.headD_cons, List.getD_cons_succ, List.getD_cons_zero, if_true]
                 rcases u with ⟨uv, up⟩
                 rcases second with ⟨sv, sp⟩
                 cases up <;> cases sp <;> simp <;> split <;> simp_all
           · simp [Step.fin'])

/-! ## `SATSolver::update_hash_and_sat_set` -/
theorem mulFirst_forStep (v : Nat) (f : Nat → Lit × Nat → Step Nat Empty)
    (hf : ∀ h x, f h x = if x.1.var == v then .brk (wmul h x.2) else .go h) :
    ∀ (c : List (Lit × Nat)) (h : Nat), (forStep c h f).fin' (fun h => h) = mulFirst v c h
  | [], h => rfl
  | x :: r, h => by
    simp only [forStep, hf, mulFirst]
    by_cases hx : x.1.var = v
    · simp [hx, Step.fin']
    · simp only [hx, beq_iff_eq, if_false]; exact mulFirst_forStep v f hf r h

theorem mulUnset_fold (top : PModel) (f : Nat → Lit × Nat → Nat)
    (hf : ∀ h x, f h x = if !((top x.1.var).isSome) then wmul h x.2 else h) :
    ∀ (c : List (Lit × Nat)) (h : Nat), List.foldl f h c = mulUnset top c h := by
  intro c h
  simp only [mulUnset]
  congr 1
  funext h x
  rw [hf]
  cases top x.1.var <;> simp

theorem update_hash : Gen.UnitProp.genUpdateHashAndSatSet = UnitProp.updateHashAndSatSet := by
  first
  | rfl
  | (funext clauses n top m
     simp only [Gen.UnitProp.genUpdateHashAndSatSet, UnitProp.updateHashAndSatSet]
     rw [show (top.sat, top.hash) = (fun p : Nat × (Nat → Bool) => (p.2, p.1)) (top.hash, top.sat) from rfl]
     rw [TieCnfUp.foldl_hom (fun p : Nat × (Nat → Bool) => (p.2, p.1)) _ (pass1Lit clauses top.model)]
     · simp only []
       congr 1
       congr 1
       funext h lit
       simp only [pass2Lit]
       cases lit.pol <;> simp only [Bool.not_true, Bool.not_false, if_true, if_false, Bool.false_eq_true] <;>
         (congr 1; funext h ci; split; exact rfl; exact mulFirst_forStep lit.var _ (by intro h x; rfl) _ h)
     · intro a lit
       simp only [pass1Lit]
       rw [show (a.2, a.1) = (fun p : Nat × (Nat → Bool) => (p.2, p.1)) a from rfl]
       cases lit.pol <;> simp only [if_true, if_false, Bool.false_eq_true] <;>
         (rw [TieCnfUp.foldl_hom (fun p : Nat × (Nat → Bool) => (p.2, p.1)) _
            (fun acc ci => if acc.2 ci then acc else (mulUnset top.model (clauses.getD ci []) acc.1, setInsert acc.2 ci))]
          intro acc ci
          simp only []
          cases acc.2 ci <;> simp only [if_true, if_false, Bool.false_eq_true]
          rw [mulUnset_fold top.model _ (by intro h x; rfl)]))

/-! ## `SATSolver::new` (the occurrence lists `contains_pos_lit` / `contains_neg_lit` are not part of the model, which
computes `containsLit` on demand: the statements that build them are skipped by the translator) -/
theorem weighClause_mapAccum (f : Nat → Lit → (Lit × Nat) × Nat) (hf : ∀ p l, f p l = ((l, nextPrime p), nextPrime p)) :
    ∀ (ls : List Lit) (p : Nat), mapAccum f p ls = weighClause ls p
  | [], p => rfl
  | l :: ls, p => by
    simp only [mapAccum, hf, weighClause, weighClause_mapAccum f hf ls]

theorem weighClauses_mapAccum (f : Nat → List Lit → List (Lit × Nat) × Nat) (hf : ∀ p c, f p c = weighClause c p) :
    ∀ (cs : List (List Lit)) (p : Nat), (mapAccum f p cs).1 = weighClauses cs p
  | [], p => rfl
  | c :: cs, p => by
    simp only [mapAccum, hf, weighClauses, weighClauses_mapAccum f hf cs]

theorem taut_pairs (c : List Lit) :
    (List.range c.length).all (fun i => (List.range' (i + 1) (c.length - (i + 1))).all (fun j =>
      !((c.getD i default).var == (c.getD j default).var && (c.getD i default).pol != (c.getD j default).pol)))
    = !isTaut c := by
  have hget : ∀ i (hi : i < c.length), c.getD i default = c[i] := by
    intro i hi; simp [List.getD_eq_getElem?_getD, hi]
  cases ht : isTaut c with
  | false =>
    simp only [Bool.not_false, List.all_eq_true, List.mem_range, List.mem_range'_1]
    intro i hi j hj
    have hjl : j < c.length := by omega
    cases hP : ((c.getD i default).var == (c.getD j default).var && (c.getD i default).pol != (c.getD j default).pol) with
    | false => rfl
    | true =>
      exfalso
      have : isTaut c = true := TopDown.isTaut_iff.2
        ⟨c[i], List.getElem_mem hi, c[j], List.getElem_mem hjl, by
          rw [hget i hi, hget j hjl] at hP; simpa using hP⟩
      rw [ht] at this; cases this
  | true =>
    obtain ⟨x, hx, y, hy, hv, hp⟩ := TopDown.isTaut_iff.1 ht
    obtain ⟨a, ha, rfl⟩ := List.mem_iff_getElem.1 hx
    obtain ⟨b, hb, rfl⟩ := List.mem_iff_getElem.1 hy
    simp only [Bool.not_true]
    apply Bool.eq_false_iff.2
    intro hall
    simp only [List.all_eq_true, List.mem_range, List.mem_range'_1] at hall
    have key : ∀ i j (hi : i < c.length) (hj : j < c.length), i < j → ¬ (c[i].var = c[j].var ∧ c[i].pol ≠ c[j].pol) := by
      intro i j hi hj hij hP
      have := hall i hi j ⟨by omega, by omega⟩
      rw [hget i hi, hget j hj] at this
      simp [hP.1, hP.2] at this
    rcases Nat.lt_trichotomy a b with h | h | h
    · exact key a b ha hb h ⟨hv, hp⟩
    · subst h; exact hp rfl
    · exact key b a hb ha h ⟨hv.symm, fun e => hp e.symm⟩

theorem solver_new : Gen.UnitProp.solverNew = TieAux.solverNewModel := by
  first
  | rfl
  | (funext cnf
     simp only [Gen.UnitProp.solverNew, TieAux.solverNewModel, Solver.new]
     rw [List.filter_congr (q := fun c => !isTaut c)]
     · rw [weighClauses_mapAccum _ (by
         intro p c
         simp only [weighClause_mapAccum _ (fun _ _ => rfl)])]
       rfl
     · intro c _
       rw [TieCnfUp.forStep_all (fun i => (List.range' (i + 1) (c.length - (i + 1))).all (fun j =>
           !((c.getD i default).var == (c.getD j default).var && (c.getD i default).pol != (c.getD j default).pol))) false]
       · rw [← taut_pairs c]
         cases (List.range c.length).all _ <;> rfl
       · intro i
         rw [TieCnfUp.forStep_all (fun j =>
           !((c.getD i default).var == (c.getD j default).var && (c.getD i default).pol != (c.getD j default).pol)) false]
         · cases (List.range' (i + 1) (c.length - (i + 1))).all _ <;> rfl
         · intro j
           cases ((c.getD i default).var == (c.getD j default).var && (c.getD i default).pol != (c.getD j default).pol) <;> rfl)

/-! ## `UnitPropagate::new` (tied to `TieAux.upNewModel`: `UnitProp.upNew` with the watch lists of a `None` result erased) -/
theorem foldl_keep {α β : Type} (a : α) : ∀ (l : List β), List.foldl (fun (x : α) _ => x) a l = a
  | [] => rfl
  | _ :: l => foldl_keep a l

theorem upNew_scan (f : List Lit × WL → Nat × List Lit → Step (List Lit × WL) (Option (Option (WL × PModel))))
    (hf : ∀ st i c, f st (i, c) = if c.isEmpty then .ret (some none)
      else if c.length == 1 then .go (st.1 ++ [c.getD 0 default], st.2)
      else .go (st.1, (st.2.push (c.getD 1 default) i).push (c.getD 0 default) i)) :
    ∀ (cs : List (List Lit)) (i : Nat) (imp : List Lit) (wl : WL),
      forStep (enumFrom i cs) (imp, wl) f =
        if cs.any List.isEmpty then .ret (some none) else .go (imp ++ impliedUnits cs, initWatches cs i wl)
  | [], i, imp, wl => by simp [enumFrom, forStep, impliedUnits, initWatches]
  | c :: cs, i, imp, wl => by
    have ih := upNew_scan f hf cs (i + 1)
    simp only [enumFrom, forStep, hf, List.any_cons]
    match c with
    | [] => simp
    | [u] => simp [ih, impliedUnits, initWatches]
    | a :: b :: t => simp [ih, impliedUnits, initWatches]

theorem upNew_decideAll (dec : WL → PModel → Lit → Option UPOut)
    (g : WL × PModel → Lit → Step (WL × PModel) (Option (Option (WL × PModel))))
    (hg : ∀ st u, g st u = match dec st.1 st.2 u with
      | none => .ret none | some (_, none) => .ret (some none) | some (wl', some m') => .go (wl', m')) :
    ∀ (us : List Lit) (wl : WL) (m : PModel),
      (forStep us (wl, m) g).fin (fun st => some (some (st.1, st.2))) (fun r => r) =
        match decideAll dec us wl m with
        | none => none | some (_, none) => some none | some (wl', some m') => some (some (wl', m'))
  | [], wl, m => rfl
  | u :: us, wl, m => by
    simp only [forStep, hg, decideAll]
    cases hd : dec wl m u with
    | none => rfl
    | some r =>
      obtain ⟨wl', o⟩ := r
      cases o with
      | none => rfl
      | some m' => exact upNew_decideAll dec g hg us wl' m'

theorem up_new : Gen.UnitProp.genUpNew = TieAux.upNewModel := by
  first
  | rfl
  | (funext cnf fuel
     simp only [Gen.UnitProp.genUpNew, TieAux.upNewModel, upNew, TieAux.enum, foldl_keep]
     rw [upNew_scan _ (by
       intro st i c
       simp only [WL.push]
       cases (c.getD 1 default).pol <;> cases (c.getD 0 default).pol <;> rfl)]
     by_cases he : cnf.any List.isEmpty = true
     · simp [he, Step.fin]
     · simp only [he, Bool.false_eq_true, if_false, Step.fin, List.nil_append]
       exact upNew_decideAll (decideK (loop cnf true fuel)) _ (by intro st u; rfl) _ _ _)

end TieUp

#print axioms TieUp.up_decideK
#print axioms TieUp.up_loop
#print axioms TieUp.update_hash
#print axioms TieUp.up_new
#print axioms TieUp.solver_new
#print axioms TieUp.solver_pop
#print axioms TieUp.solver_cur_hash
#print axioms TieUp.solver_is_sat
#print axioms TieUp.solver_is_set
#print axioms TieUp.solver_difference_iter
#print axioms TieUp.solver_decide

/-! # Source-level corollaries: property theorems restated for the definitions regenerated from the Rust text -/
namespace TieCnfUpSource
open Spec

/-- C15 `eval_spec` for `Cnf::new` / `Cnf::eval` as the source says now -/
theorem eval_spec_source (cs : List (List Lit)) (v : List Bool)
    (h : Gen.CnfUtil.cnfNumVars (Gen.CnfUtil.cnfNew cs) ≤ v.length) :
    Gen.CnfUtil.cnfEval (Gen.CnfUtil.cnfNew cs) v = some (cnfSat (CnfUtil.asgFn v) cs) := by
  rw [TieCnfUp.cnf_new, TieCnfUp.cnf_num_vars] at h
  rw [TieCnfUp.cnf_new, TieCnfUp.cnf_eval]
  exact C15.eval_spec cs v h

/-- C15 `wmc_spec`: `Cnf::wmc` as the source says now never panics and is the weighted model count -/
theorem wmc_spec_source {α : Type} {S : SROps α} (hS : S.Laws) (cs : List (List Lit)) (w : Weights α) (a : Assign) :
    Gen.CnfUtil.cnfWmc S (Gen.CnfUtil.cnfNew cs) w = some (wsum S (List.range (cnfNumVars cs)) w (cnfFn cs) a) := by
  rw [TieCnfUp.cnf_new, TieCnfUp.cnf_wmc]
  exact C15.wmc_spec hS cs w a

/-- C15 `wmc_empty` (the content of the historical fix ce7c18b) for the source as it is now -/
theorem wmc_empty_source {α : Type} {S : SROps α} (hS : S.Laws) (w : Weights α) :
    Gen.CnfUtil.cnfWmc S (Gen.CnfUtil.cnfNew []) w = some S.one := by
  rw [TieCnfUp.cnf_new, TieCnfUp.cnf_wmc]
  exact C15.wmc_empty hS w

/-- C09 `new_unsat_sound`: when `SATSolver::new` as the source says now answers `None`, the formula is unsatisfiable -/
theorem new_unsat_sound_source {cnf : Cnf} (h : Gen.UnitProp.solverNew cnf = some none) : ∀ a, cnfSat a cnf = false := by
  rw [TieUp.solver_new] at h
  exact UnitProp.new_unsat_sound h

end TieCnfUpSource

#print axioms TieCnfUpSource.eval_spec_source
#print axioms TieCnfUpSource.wmc_spec_source
#print axioms TieCnfUpSource.wmc_empty_source
#print axioms TieCnfUpSource.new_unsat_sound_source
#print axioms TieCnfUp.literal_new
#print axioms TieCnfUp.literal_label
#print axioms TieCnfUp.literal_polarity
#print axioms TieCnfUp.literal_implies_true
#print axioms TieCnfUp.literal_implies_false
#print axioms TieCnfUp.literal_negated
#print axioms TieCnfUp.varset_new
#print axioms TieCnfUp.varset_new_with_num_vars
#print axioms TieCnfUp.varset_union_with
#print axioms TieCnfUp.varset_iter
#print axioms TieCnfUp.varset_union
#print axioms TieCnfUp.varset_minus
#print axioms TieCnfUp.varset_insert
#print axioms TieCnfUp.varset_contains
#print axioms TieCnfUp.varset_intersect
#print axioms TieCnfUp.varset_remove
#print axioms TieCnfUp.varset_difference
#print axioms TieCnfUp.varset_intersect_varset
#print axioms TieCnfUp.varset_is_empty
#print axioms TieCnfUp.varset_len
#print axioms TieCnfUp.varset_eq
#print axioms TieCnfUp.pm_new
#print axioms TieCnfUp.pm_from_assignments
#print axioms TieCnfUp.pm_from_total_model
#print axioms TieCnfUp.pm_from_litvec
#print axioms TieCnfUp.pm_unset
#print axioms TieCnfUp.pm_set
#print axioms TieCnfUp.pm_get
#print axioms TieCnfUp.pm_lit_implied
#print axioms TieCnfUp.pm_lit_neg_implied
#print axioms TieCnfUp.pm_is_set
#print axioms TieCnfUp.pm_assignment_iter
#print axioms TieCnfUp.pm_difference
#print axioms TieCnfUp.cnf_new
#print axioms TieCnfUp.cnf_num_vars
#print axioms TieCnfUp.cnf_eval
#print axioms TieCnfUp.cnf_is_sat_partial
#print axioms TieCnfUp.cnf_condition
#print axioms TieCnfUp.cnf_var_in_cnf
#print axioms TieCnfUp.cnf_wmc
#print axioms TieCnfUp.iter_next
#print axioms TieAux.drain_eq
#print axioms TieCnfUp.hasher_new
#print axioms TieCnfUp.hasher_decide
#print axioms TieCnfUp.hasher_push
#print axioms TieCnfUp.hasher_pop
#print axioms TieCnfUp.hasher_hash
