import RsddModel.Props.TieOptim
import RsddModel.Props.C12
import RsddModel.Props.C13
/-!
# Source-level corollaries of C12 / C13 (translator route)

The key theorems of `Props/C12.lean` and `Props/C13.lean`, restated for the definitions
REGENERATED from the Rust text (`Model/GenOptim.lean`, rewritten by `tools/gen_optim.py` on every
run) and proved by rewriting with the tie theorems of `Props/TieOptim.lean` and `exact`-ing the
existing theorem.  They say: `marginal_map`, `meu`, `bb`, `FiniteField::mul` and the polynomial
`add` / `mul` *as the source says now* have the stated property.  When the source changes, the tie
theorem — and with it the corollary — stops checking.  (In alias mode, i.e. a function reported
UNTRANSLATED, the corollary is the model theorem itself.)
-/
namespace TieOptimSource
open Bdd Spec Sem Optim

/-! ## C12: marginal MAP, maximum expected utility, generic branch and bound -/

/-- `marginal_map` as the source says now returns the exhaustive maximum `mapSpec` with a model that assigns exactly the query variables and attains it -/
theorem marginalMap_opt_source {w : Weights Rat} {Q vars : List Nat} (hw : C12.ProbWeights w Q vars) {p : Ptr}
    (hp : p.free) (hnd : vars.Nodup) (hcov : ∀ v ∈ p.vars, v ∈ vars) {n : Nat} (hQ : ∀ x ∈ Q, x < n) :
    (Gen.Optim.marginalMap p Q n w).1 = mapSpec p.eval Q vars w ∧
    (∀ x, (Gen.Optim.marginalMap p Q n w).2.get x ≠ none ↔ x ∈ Q) ∧
    (Gen.Optim.marginalMap p Q n w).2.toAssign ∈ queryAssignments Q ∧
    mapValue p.eval Q (nonQuery vars Q) w (Gen.Optim.marginalMap p Q n w).2.toAssign = mapSpec p.eval Q vars w := by
  rw [TieOptim.marginal_map_tie]
  exact C12.marginalMap_opt hw hp hnd hcov hQ

/-- every value the oracle maximises over is below the value returned by `marginal_map` as the source says now -/
theorem marginalMap_ge_source {w : Weights Rat} {Q vars : List Nat} (hw : C12.ProbWeights w Q vars) {p : Ptr}
    (hp : p.free) (hnd : vars.Nodup) (hcov : ∀ v ∈ p.vars, v ∈ vars) {n : Nat} (hQ : ∀ x ∈ Q, x < n)
    (q : Assign) (hq : q ∈ queryAssignments Q) :
    mapValue p.eval Q (nonQuery vars Q) w q ≤ (Gen.Optim.marginalMap p Q n w).1 := by
  rw [TieOptim.marginal_map_tie]
  exact C12.marginalMap_ge hw hp hnd hcov hQ q hq

/-- `meu` as the source says now (utility-bearing variables ordered after all decision variables) returns the maximal expected utility with a model assigning exactly the decision variables that attains it -/
theorem meu_opt_source {w : Weights EU} {D order : List Nat} (hw : MeuWeights w D order) {p : Ptr}
    (hnd : order.Nodup) (hp : Robdd order p) {n : Nat} (hD : ∀ x ∈ D, x < n) :
    (Gen.Optim.meu p D n w).1.u = meuSpec p.eval D order w ∧
    (∀ x, (Gen.Optim.meu p D n w).2.get x ≠ none ↔ x ∈ D) ∧
    (Gen.Optim.meu p D n w).2.toAssign ∈ queryAssignments D ∧
    meuValue p.eval D order w (Gen.Optim.meu p D n w).2.toAssign = (Gen.Optim.meu p D n w).1 := by
  rw [TieOptim.meu_tie]
  exact C12.meu_opt hw hnd hp hD

/-- `eu_ub` as the source says now is a sound upper bound in both components -/
theorem meu_ub_sound_source {w : Weights EU} {D order : List Nat} (hw : MeuWeights w D order) {p : Ptr}
    (hp : p.free) {n : Nat} (bits : List Nat) (hbits : ∀ x ∈ bits, x < n ∧ x ∈ D) (m : PM)
    (hm : MeuInv n D m) (q : Assign) (hq : Consistent m bits q) :
    (Gen.Optim.euUb p (complete m bits q) [] w).p ≤ (Gen.Optim.euUb p m bits w).p ∧
    (Gen.Optim.euUb p (complete m bits q) [] w).u ≤ (Gen.Optim.euUb p m bits w).u := by
  rw [TieOptim.eu_ub_tie]
  exact C12.meu_ub_sound hw hp bits hbits m hm q hq

/-- `bb` as the source says now, for every lawful `BBSemiring`: the returned value is `T`-maximal over all query assignments and attained by the returned model, which assigns exactly `Q` -/
theorem bb_opt_source {α : Type} {B : BBOps α} {R T : α → α → Prop} (L : BBLaws B R) (C : ChooseLaws B R T)
    {w : Weights α} {Q order : List Nat} (hw : BbWeights B R w Q order) {p : Ptr} (hnd : order.Nodup)
    (hp : Robdd order p) {n : Nat} (hQ : ∀ x ∈ Q, x < n) :
    (∀ q ∈ queryAssignments Q, T (bbValue B.toSROps p.eval Q order w q) (Gen.Optim.bb B p Q n w).1) ∧
    (∀ x, (Gen.Optim.bb B p Q n w).2.get x ≠ none ↔ x ∈ Q) ∧
    (Gen.Optim.bb B p Q n w).2.toAssign ∈ queryAssignments Q ∧
    bbValue B.toSROps p.eval Q order w (Gen.Optim.bb B p Q n w).2.toAssign = (Gen.Optim.bb B p Q n w).1 := by
  rw [TieOptim.bb_tie]
  exact C12.bb_opt L C hw hnd hp hQ

/-- `bb` as the source says now at `RealSemiring` is marginal MAP -/
theorem bb_real_opt_source {w : Weights Rat} {Q vars : List Nat} (hw : C12.ProbWeights w Q vars) {p : Ptr}
    (hp : p.free) (hnd : vars.Nodup) (hcov : ∀ v ∈ p.vars, v ∈ vars) {n : Nat} (hQ : ∀ x ∈ Q, x < n) :
    (Gen.Optim.bb realBB p Q n w).1 = mapSpec p.eval Q vars w ∧
    (∀ x, (Gen.Optim.bb realBB p Q n w).2.get x ≠ none ↔ x ∈ Q) ∧
    (Gen.Optim.bb realBB p Q n w).2.toAssign ∈ queryAssignments Q ∧
    mapValue p.eval Q (nonQuery vars Q) w (Gen.Optim.bb realBB p Q n w).2.toAssign = mapSpec p.eval Q vars w := by
  rw [TieOptim.bb_tie]
  exact C12.bb_real_opt hw hp hnd hcov hQ

/-- `bb` as the source says now at `ExpectedUtility` is maximum expected utility -/
theorem bb_eu_opt_source {w : Weights EU} {D order : List Nat} (hw : MeuWeights w D order) {p : Ptr}
    (hnd : order.Nodup) (hp : Robdd order p) {n : Nat} (hD : ∀ x ∈ D, x < n) :
    (Gen.Optim.bb euBB p D n w).1.u = meuSpec p.eval D order w ∧
    (∀ x, (Gen.Optim.bb euBB p D n w).2.get x ≠ none ↔ x ∈ D) ∧
    (Gen.Optim.bb euBB p D n w).2.toAssign ∈ queryAssignments D ∧
    meuValue p.eval D order w (Gen.Optim.bb euBB p D n w).2.toAssign = (Gen.Optim.bb euBB p D n w).1 := by
  rw [TieOptim.bb_tie]
  exact C12.bb_eu_opt hw hnd hp hD

/-! ## C13: `FiniteField::mul` -/

/-- `FiniteField::mul` as the source says now is `a * b % P` on reduced operands for every `1 < P < 2^127`, and no `u128` operation of it overflows (the checked reading returns it) -/
theorem ff_mul_source {P a b : Nat} (ha : a < P) (hb : b < P) (h1 : 1 < P) (hP : P < 2 ^ 127) :
    Gen.OptimSem.ffMul P a b = a * b % P ∧ ffMulC P a b = some (Gen.OptimSem.ffMul P a b) ∧
    Gen.OptimSem.ffMul P a b < P := by
  rw [TieOptim.ff_mul_tie]
  exact ⟨ffMul_spec ha hb h1 hP, ffMulC_eq ha hb (Nat.le_of_lt hP),
    by rw [ffMul_spec ha hb h1 hP]; exact Nat.mod_lt _ (by omega)⟩

/-- hence for every exported prime: modular product, no overflow -/
theorem ff_mul_exported_source (exportedPrimes : List Nat) (h : C13.PrimesOk exportedPrimes) :
    ∀ P ∈ exportedPrimes, ∀ a b, a < P → b < P →
      Gen.OptimSem.ffMul P a b = a * b % P ∧ ffMulC P a b = some (Gen.OptimSem.ffMul P a b) := by
  rw [TieOptim.ff_mul_tie]
  intro P hP a b ha hb
  exact ⟨(C13.ff_modular exportedPrimes h P hP a b ha hb).2.1, (C13.ff_no_overflow exportedPrimes h P hP a b ha hb).2.1⟩

/-- the doubling loop as the source says now computes `(acc + a * b) % P` within its fuel -/
theorem ff_mul_loop_source (P fuel a b acc : Nat) (hb : b < 2 ^ fuel) (hacc : acc < P) :
    (Gen.OptimSem.ffMulLoop P fuel a b acc).2.2 = (acc + a * b) % P := by
  rw [TieOptim.ff_mul_loop_tie]
  exact ffMulLoop_spec P fuel a b acc hb hacc

/-! ## C13: `Polynomial` -/

/-- every constructor and operation of `Polynomial<C>` as the source says now yields a well-formed value -/
theorem poly_wf_source {α : Type} (S : SROps α) (maxCoeffs : Nat) (hM : 0 < maxCoeffs) :
    PolyWF S maxCoeffs (Gen.OptimSem.polyZero S maxCoeffs) ∧ PolyWF S maxCoeffs (Gen.OptimSem.polyOne S maxCoeffs) ∧
    (∀ p q, PolyWF S maxCoeffs (Gen.OptimSem.polyAdd S maxCoeffs p q)) ∧
    (∀ p q, PolyWF S maxCoeffs (Gen.OptimSem.polyMul S maxCoeffs p q)) := by
  rw [TieOptim.poly_zero_tie, TieOptim.poly_one_tie, TieOptim.poly_add_tie, TieOptim.poly_mul_tie]
  obtain ⟨h0, h1, _, ha, hm⟩ := C13.poly_wf S maxCoeffs hM
  exact ⟨h0, h1, ha, hm⟩

/-- the polynomial `zero` / `one` / `add` / `mul` as the source says now satisfy the commutative-semiring laws on well-formed values -/
theorem poly_semiring_source {α : Type} {S : SROps α} (hS : SROps.Laws S) (maxCoeffs : Nat) (hM : 0 < maxCoeffs)
    {p q r : Poly α} (hp : PolyWF S maxCoeffs p) (hq : PolyWF S maxCoeffs q) (hr : PolyWF S maxCoeffs r) :
    Gen.OptimSem.polyAdd S maxCoeffs (Gen.OptimSem.polyAdd S maxCoeffs p q) r =
      Gen.OptimSem.polyAdd S maxCoeffs p (Gen.OptimSem.polyAdd S maxCoeffs q r) ∧
    Gen.OptimSem.polyAdd S maxCoeffs p q = Gen.OptimSem.polyAdd S maxCoeffs q p ∧
    Gen.OptimSem.polyAdd S maxCoeffs p (Gen.OptimSem.polyZero S maxCoeffs) = p ∧
    Gen.OptimSem.polyMul S maxCoeffs (Gen.OptimSem.polyMul S maxCoeffs p q) r =
      Gen.OptimSem.polyMul S maxCoeffs p (Gen.OptimSem.polyMul S maxCoeffs q r) ∧
    Gen.OptimSem.polyMul S maxCoeffs p q = Gen.OptimSem.polyMul S maxCoeffs q p ∧
    Gen.OptimSem.polyMul S maxCoeffs p (Gen.OptimSem.polyOne S maxCoeffs) = p ∧
    Gen.OptimSem.polyMul S maxCoeffs p (Gen.OptimSem.polyZero S maxCoeffs) = Gen.OptimSem.polyZero S maxCoeffs ∧
    Gen.OptimSem.polyMul S maxCoeffs p (Gen.OptimSem.polyAdd S maxCoeffs q r) =
      Gen.OptimSem.polyAdd S maxCoeffs (Gen.OptimSem.polyMul S maxCoeffs p q) (Gen.OptimSem.polyMul S maxCoeffs p r) := by
  rw [TieOptim.poly_zero_tie, TieOptim.poly_one_tie, TieOptim.poly_add_tie, TieOptim.poly_mul_tie]
  have L := C13.poly_semiring hS maxCoeffs hM
  exact ⟨congrArg Subtype.val (L.add_assoc ⟨p, hp⟩ ⟨q, hq⟩ ⟨r, hr⟩),
    congrArg Subtype.val (L.add_comm ⟨p, hp⟩ ⟨q, hq⟩),
    congrArg Subtype.val (L.add_zero ⟨p, hp⟩),
    congrArg Subtype.val (L.mul_assoc ⟨p, hp⟩ ⟨q, hq⟩ ⟨r, hr⟩),
    congrArg Subtype.val (L.mul_comm ⟨p, hp⟩ ⟨q, hq⟩),
    congrArg Subtype.val (L.mul_one ⟨p, hp⟩),
    congrArg Subtype.val (L.mul_zero ⟨p, hp⟩),
    congrArg Subtype.val (L.left_distrib ⟨p, hp⟩ ⟨q, hq⟩ ⟨r, hr⟩)⟩

/-- truncation as the source says now is the quotient by `X^maxCoeffs`: entry `k < maxCoeffs` of the product is the convolution, beyond it zero; sums are coefficient-wise -/
theorem poly_mul_truncation_source {α : Type} {S : SROps α} (hS : SROps.Laws S) (maxCoeffs : Nat)
    {p q : Poly α} (hp : PolyWF S maxCoeffs p) (hq : PolyWF S maxCoeffs q) :
    (∀ k, k < maxCoeffs →
      (Gen.OptimSem.polyMul S maxCoeffs p q).coef S k = conv S (p.coef S) (q.coef S) k) ∧
    (∀ k, maxCoeffs ≤ k → (Gen.OptimSem.polyMul S maxCoeffs p q).coef S k = S.zero) ∧
    (∀ k, (Gen.OptimSem.polyAdd S maxCoeffs p q).coef S k = S.add (p.coef S k) (q.coef S k)) := by
  rw [TieOptim.poly_add_tie, TieOptim.poly_mul_tie]
  exact C13.poly_mul_truncation hS maxCoeffs hp hq

end TieOptimSource

#print axioms TieOptimSource.marginalMap_opt_source
#print axioms TieOptimSource.marginalMap_ge_source
#print axioms TieOptimSource.meu_opt_source
#print axioms TieOptimSource.meu_ub_sound_source
#print axioms TieOptimSource.bb_opt_source
#print axioms TieOptimSource.bb_real_opt_source
#print axioms TieOptimSource.bb_eu_opt_source
#print axioms TieOptimSource.ff_mul_source
#print axioms TieOptimSource.ff_mul_exported_source
#print axioms TieOptimSource.ff_mul_loop_source
#print axioms TieOptimSource.poly_wf_source
#print axioms TieOptimSource.poly_semiring_source
#print axioms TieOptimSource.poly_mul_truncation_source
