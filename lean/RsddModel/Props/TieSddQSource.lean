import RsddModel.Props.TieSddQ
import RsddModel.Props.C10Sdd
/-!
# Source-level corollaries (translator route): queries on SDD pointers (C10, C07)

The public-call theorems of `Props/C10Sdd.lean` restated for the definitions REGENERATED from
`src/repr/sdd.rs` / `src/repr/sdd/*.rs` (`Model/GenSddQ.lean`, rewritten by `tools/gen_sddq.py` on
every run).  Every proof rewrites with a tie theorem of `Props/TieSddQ.lean` and `exact`s the
existing theorem about the hand-written model; nothing is re-proved.  The statements build in
alias mode as well (ties used by name only).
-/
namespace TieSddQSource
open Scratch ScratchSdd

section
variable {Tag : Type} [DecidableEq Tag] {U : Tag → Type}

/-- `SddPtr::fold` as the source says now: the scratch-free value, scratch as before -/
theorem foldS_source_pure (t : Tag) (A : SAlg (U t)) (s : SStore) (r : SRef) (σ : Scr U)
    (h : ClearOnS s r σ) :
    Gen.SddQ.foldS t A s r σ = (valS A s r, σ) := by
  rw [TieSddQ.foldS_tie]; exact C10Sdd.fold_pure t A s r σ h

/-- leftovers of another Rust type are harmless -/
theorem foldS_source_robust (t : Tag) (A : SAlg (U t)) (s : SStore) (r : SRef) (σ : Scr U)
    (h : ∀ j, reachesS s r j = true → (σ j).asPair t = none) :
    Gen.SddQ.foldS t A s r σ = (valS A s r, fun j => if reachesS s r j then .empty else σ j) := by
  rw [TieSddQ.foldS_tie]; exact C10Sdd.fold_robust t A s r σ h

/-- `SddPtr::count_nodes` as the source says now -/
theorem countNodesS_source_pure (s : SStore) (r : SRef) (σ : Scr U) (h : ClearOnS s r σ) :
    Gen.SddQ.countNodesS s r σ = (countSpecS s r, σ) := by
  rw [TieSddQ.countNodesS_tie]; exact C10Sdd.countNodes_pure s r σ h

/-- `SddPtr::clear_scratch` as the source says now empties exactly the reachable cells -/
theorem clearS_source_total (s : SStore) (r : SRef) (σ : Scr U) :
    ∀ j, Gen.SddQ.clearS s r σ j = if reachesS s r j then .empty else σ j := by
  rw [TieSddQ.clearS_tie]; exact C10Sdd.clear_total s r σ

/-- a `count_nodes` on any root between two `fold`s changes neither (interleaving, source level) -/
theorem fold_count_fold_source (t : Tag) (A : SAlg (U t)) (s : SStore) (r r' : SRef) (σ : Scr U)
    (h : ClearOnS s r σ) (h' : ClearOnS s r' σ) :
    Gen.SddQ.foldS t A s r (Gen.SddQ.countNodesS s r' (Gen.SddQ.foldS t A s r σ).2).2
      = Gen.SddQ.foldS t A s r σ := by
  rw [foldS_source_pure t A s r σ h]
  show Gen.SddQ.foldS t A s r (Gen.SddQ.countNodesS s r' σ).2 = _
  rw [countNodesS_source_pure s r' σ h']
  exact foldS_source_pure t A s r σ h

end

#print axioms foldS_source_pure
#print axioms foldS_source_robust
#print axioms countNodesS_source_pure
#print axioms clearS_source_total
#print axioms fold_count_fold_source
end TieSddQSource
