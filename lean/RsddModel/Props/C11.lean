import RsddModel.Lemmas.SddSemantic
import RsddModel.Lemmas.SddWFd
import RsddModel.Props.C11Bdd
import RsddModel.Props.C03
import RsddModel.Props.C04
/-!
# C11 — semantic hashing

"The semantic hash of a diagram is determined by the Boolean function it denotes: diagrams of the
same function, of any kind, order, vtree or construction history, hash equally; a negation hashes
to one minus the hash; and, for a fixed field and weight map, a cached hash equals a recomputed
one.  Builders that identify nodes by semantic hash therefore never judge two equal functions
different, and over the 64-bit field the diagrams they return for conjunction, disjunction,
negation, conditioning, quantification and CNF compilation denote the correct function."

Reading.
* The hash is `DDNNFPtr::semantic_hash` = `unsmoothed_wmc` over `FiniteField<P>` with weights
  `low + high = 1` (`create_semantic_hash_map`): `Bdd.wmc (ffOps P) w`, `Sdd.semanticHash P w`.
  Statements are over the raw `u128` operations (`Sem.ffOps P`), for `0 < P < 2^128` (primality
  is never used: `primes::U32_SMALL = 1000001 = 101 · 9901` is not a prime) and weights below `P`.
* "any kind": free BDDs / decision-DNNFs (`Bdd.Ptr.free`) and deterministic decomposable SDDs
  (`Sdd.DD`; every `WFs` pointer, i.e. every result of the compressing builder, and every `WFd`
  pointer, i.e. every result of the semantic builder).
* "cached = recomputed": `cached_semantic_hash` keeps one value per node, never cleared and not
  keyed by the map.  For a FIXED prime and weight map, from the empty cache, every call of every
  sequence returns the recomputed hash; with a second map it does not (`two_maps`).
* the semantic builder: `Model/SddSemantic.lean`.  `semantic_never_splits` is unconditional.
  Correctness of the returned diagrams is *conditional*: the builder identifies nodes whose hashes
  coincide, there are `2^(2^n)` functions of `n` variables and `P` hash values, so for
  `2^(2^n) > P` two different functions share a hash whatever the weights (pigeonhole), and the
  builder then returns a wrong diagram (`collision_wrong`).  The hypothesis is *collision freedom
  of the history*: the run of the same builder with the collision detector on (`runChecked`:
  every hash-based judgement — an equality test, a node-table hit or insertion, an apply-cache
  hit, the `0`/`1` shortcuts — is compared with the truth tables) returns.  Under it the detector
  changes nothing (`semantic_correct_partial`, first clause) and every result is right.
-/
namespace C11
open Spec Sem

variable {P : Nat}

/-! ## clause 1: determined by the denoted function, for every kind of diagram -/

/-- **any kind, any order, any vtree**: a free BDD / decision-DNNF and a deterministic
decomposable SDD that denote the same function have the same semantic hash -/
theorem hash_any_kind (h0 : 0 < P) (hP : P < 2 ^ 128) {w : Weights Nat} (hw : WBelow P w)
    {d : Bdd.Ptr} (hd : d.free) {s : Sdd.Ptr} (hs : Sdd.DD s)
    (hn : ∀ v, v ∈ d.vars ∨ v ∈ s.vars → ffAdd P (w v).1 (w v).2 = ffNew P 1)
    (heq : ∀ a, d.eval a = s.eval a) :
    Bdd.wmc (ffOps P) w d = Sdd.wmc (ffOps P) w s := by
  have hnd := Bdd.nodup_ddup (d.vars ++ s.vars)
  have hN : Normalised (ffOps P) w (Bdd.ddup (d.vars ++ s.vars)) := fun v hv =>
    hn v (List.mem_append.mp (Bdd.mem_ddup.mp hv))
  rw [Bdd.semanticHash_eq h0 hP hw hd hnd (fun v hv => Bdd.mem_ddup.mpr (List.mem_append_left _ hv)) hN
      (fun _ => false)]
  have := Sdd.semanticHash_eq h0 hP hw hs (fun v hv => Bdd.mem_ddup.mpr (List.mem_append_right _ hv)) hN
      (fun _ => false)
  rw [Sdd.semanticHash] at this
  rw [this]
  exact congrArg FF.v (wsum_congr _ _ _ _ heq)

/-- the same over any commutative semiring (the weights need not be a field) -/
theorem hash_any_kind_semiring {α : Type} {S : SROps α} (hS : S.Laws) (w : Weights α)
    {d : Bdd.Ptr} (hd : d.free) {s : Sdd.Ptr} (hs : Sdd.DD s)
    (hn : ∀ v, v ∈ d.vars ∨ v ∈ s.vars → S.add (w v).1 (w v).2 = S.one)
    (heq : ∀ a, d.eval a = s.eval a) : Bdd.wmc S w d = Sdd.wmc S w s := by
  have hnd := Bdd.nodup_ddup (d.vars ++ s.vars)
  have hN : Normalised S w (Bdd.ddup (d.vars ++ s.vars)) := fun v hv =>
    hn v (List.mem_append.mp (Bdd.mem_ddup.mp hv))
  rw [Bdd.wmc_free hS w hd hnd (fun v hv => Bdd.mem_ddup.mpr (List.mem_append_left _ hv)) hN (fun _ => false),
    Sdd.wmc_dd hS w hs (fun v hv => Bdd.mem_ddup.mpr (List.mem_append_right _ hv)) hN (fun _ => false)]
  exact wsum_congr _ _ _ _ heq

/-- two SDDs of the same function — any two vtrees, compressed or not — hash equally -/
theorem sdd_same_function_same_hash (h0 : 0 < P) (hP : P < 2 ^ 128) {w : Weights Nat} (hw : WBelow P w)
    {p q : Sdd.Ptr} (hp : Sdd.DD p) (hq : Sdd.DD q)
    (hn : ∀ v, v ∈ p.vars ∨ v ∈ q.vars → ffAdd P (w v).1 (w v).2 = ffNew P 1)
    (heq : ∀ a, p.eval a = q.eval a) : Sdd.semanticHash P w p = Sdd.semanticHash P w q := by
  have hN : Normalised (ffOps P) w (p.vars ++ q.vars) := fun v hv => hn v (List.mem_append.mp hv)
  rw [Sdd.semanticHash_eq h0 hP hw hp (fun v hv => List.mem_append_left _ hv) hN (fun _ => false),
    Sdd.semanticHash_eq h0 hP hw hq (fun v hv => List.mem_append_right _ hv) hN (fun _ => false)]
  exact congrArg FF.v (wsum_congr _ _ _ _ heq)

/-- a result of the SDD builder (any vtree with distinct leaves, compression on or off) and a
free BDD for the same function: one hash -/
theorem run_hash_any_kind (h0 : 0 < P) (hP : P < 2 ^ 128) {w : Weights Nat} (hw : WBelow P w)
    {cfg : Sdd.Config} (hnd : cfg.vt.leaves.Nodup) (hn : Normalised (ffOps P) w cfg.vt.leaves)
    {fuel : Nat} {ops : List Sdd.Op} {pool : List Sdd.Ptr} (h : Sdd.run cfg fuel ops = some pool)
    {s : Sdd.Ptr} (hs : s ∈ pool) {d : Bdd.Ptr} (hd : d.free) (hdv : ∀ v ∈ d.vars, v ∈ cfg.vt.leaves)
    (heq : ∀ a, d.eval a = s.eval a) : Bdd.wmc (ffOps P) w d = Sdd.semanticHash P w s := by
  obtain ⟨vt, c⟩ := cfg
  have ws : SddSem.WFd vt s := by
    cases c
    · exact Sdd.run_wfd_uncompressed vt fuel ops pool h s hs
    · exact SddSem.WFs_WFd s (Sdd.run_wfs vt hnd fuel ops pool h s hs)
  refine hash_any_kind h0 hP hw hd (SddSem.WFd_DD hnd s ws) ?_ heq
  intro v hv
  rcases hv with hv | hv
  · exact hn v (hdv v hv)
  · exact hn v (SddSem.WFd_vars s ws v hv)

/-- two runs of the SDD builder, on two vtrees and with any compression settings: results that
denote the same function hash equally -/
theorem run_run_same_hash (h0 : 0 < P) (hP : P < 2 ^ 128) {w : Weights Nat} (hw : WBelow P w)
    {cfg cfg' : Sdd.Config} (hnd : cfg.vt.leaves.Nodup) (hnd' : cfg'.vt.leaves.Nodup)
    (hn : Normalised (ffOps P) w cfg.vt.leaves) (hn' : Normalised (ffOps P) w cfg'.vt.leaves)
    {fuel fuel' : Nat} {ops ops' : List Sdd.Op} {pool pool' : List Sdd.Ptr}
    (h : Sdd.run cfg fuel ops = some pool) (h' : Sdd.run cfg' fuel' ops' = some pool')
    {p q : Sdd.Ptr} (hp : p ∈ pool) (hq : q ∈ pool') (heq : ∀ a, p.eval a = q.eval a) :
    Sdd.semanticHash P w p = Sdd.semanticHash P w q := by
  have wfd : ∀ {cfg : Sdd.Config} {fuel ops pool}, cfg.vt.leaves.Nodup →
      Sdd.run cfg fuel ops = some pool → ∀ s ∈ pool, SddSem.WFd cfg.vt s := by
    intro cfg fuel ops pool hnd h s hs
    obtain ⟨vt, c⟩ := cfg
    cases c
    · exact Sdd.run_wfd_uncompressed vt fuel ops pool h s hs
    · exact SddSem.WFs_WFd s (Sdd.run_wfs vt hnd fuel ops pool h s hs)
  have wp := wfd hnd h p hp
  have wq := wfd hnd' h' q hq
  refine sdd_same_function_same_hash h0 hP hw (SddSem.WFd_DD hnd p wp) (SddSem.WFd_DD hnd' q wq) ?_ heq
  intro v hv
  rcases hv with hv | hv
  · exact hn v (SddSem.WFd_vars p wp v hv)
  · exact hn' v (SddSem.WFd_vars q wq v hv)

/-! ## clause 2: negation -/

/-- a negation hashes to `negate` of the hash ("one minus") -/
theorem sdd_hash_neg (h0 : 0 < P) (hP : P < 2 ^ 128) {w : Weights Nat} (hw : WBelow P w)
    {p : Sdd.Ptr} (hd : Sdd.DD p) (hn : ∀ v ∈ p.vars, ffAdd P (w v).1 (w v).2 = ffNew P 1) :
    Sdd.semanticHash P w p.neg = ffNegate P (Sdd.semanticHash P w p) ∧
    ffAdd P (Sdd.semanticHash P w p) (Sdd.semanticHash P w p.neg) = ffNew P 1 := by
  have e : Sdd.semanticHash P w p.neg = ffNegate P (Sdd.semanticHash P w p) := by
    simp only [Sdd.semanticHash, Sdd.wmc]
    rw [Sdd.wmc_ff h0 hw, Sdd.wmc_ff h0 hw, Sdd.wmcAux_neg]
    exact congrArg FF.v (Sdd.X_neg h0 hP hw hd hn)
  refine ⟨e, ?_⟩
  rw [e]
  have := FF.negate_add (Sdd.X h0 (w := w) p)
  have hv := congrArg FF.v this
  simp only [Sdd.semanticHash, Sdd.wmc]
  rw [Sdd.wmc_ff h0 hw]
  rw [ffAdd_spec, Nat.add_comm, ← ffAdd_spec]
  exact hv

/-- the BDD clause, over the raw field operations -/
theorem bdd_hash_neg (h0 : 0 < P) (hP : P < 2 ^ 128) {w : Weights Nat} (hw : WBelow P w)
    (p : Bdd.Ptr) (hn : ∀ v ∈ p.vars, ffAdd P (w v).1 (w v).2 = ffNew P 1) :
    Bdd.wmc (ffOps P) w p.neg = ffNegate P (Bdd.wmc (ffOps P) w p) := by
  have hN : ∀ u ∈ p.vars, (ffOpsFF P h0).add (liftW h0 w u).1 (liftW h0 w u).2 = (ffOpsFF P h0).one :=
    liftW_normalised h0 hw (vars := p.vars) hn
  have := Bdd.hash_neg (ffLaws P h0 hP) (liftW h0 w) p hN
  rw [(ffLaws P h0 hP).add_comm] at this
  have e := FF.eq_negate this
  simp only [Bdd.wmc] at e ⊢
  rw [Bdd.wmc_ff h0 hw, Bdd.wmc_ff h0 hw, e]
  rfl

/-! ## clause 3: cached = recomputed, for a fixed prime and weight map -/

/-- **BDDs** (`BddPtr::cached_semantic_hash`, model `Scratch.cachedHash`): over any sequence of
calls on any roots of one store, starting from the empty cache, every returned value is the
recomputed hash of the unfolded diagram (no assumption on `P` or the weights), and that is the
`semantic_hash` of the fold when the weights are normalised residues -/
theorem cached_eq_recomputed_bdd (w : Weights Nat) (s : Scratch.Store) (rs : List Scratch.Ref) :
    (Scratch.cachedHashSeq P w s rs (fun _ => none)).1 =
      rs.map (fun r => Scratch.hashTreeB P w (Scratch.unfold s r)) ∧
    ((0 < P) → (P < 2 ^ 128) → WBelow P w →
      (∀ r ∈ rs, ∀ v ∈ (Scratch.unfold s r).vars, ffAdd P (w v).1 (w v).2 = ffNew P 1) →
      (Scratch.cachedHashSeq P w s rs (fun _ => none)).1 =
        rs.map (fun r => Bdd.wmc (ffOps P) w (Scratch.unfold s r))) := by
  have h1 := (Scratch.cachedHashSeq_ok P w s rs _ (Scratch.cacheOK_empty P w s)).1
  refine ⟨h1, fun h0 hP hw hn => ?_⟩
  rw [h1]
  apply List.map_congr_left
  intro r hr
  exact Scratch.hashTreeB_eq h0 hP hw (hn r hr)

/-- the invariant behind it: every cache entry is the hash of its node under THAT map; it is
kept by every call, from any cache that satisfies it -/
theorem cache_invariant_bdd (w : Weights Nat) (s : Scratch.Store) (r : Scratch.Ref)
    (c : Scratch.HashCache) (hc : Scratch.CacheOK P w s c) :
    (Scratch.cachedHash P w s r c).1 = Scratch.hashTreeB P w (Scratch.unfold s r) ∧
      Scratch.CacheOK P w s (Scratch.cachedHash P w s r c).2 :=
  ⟨(Scratch.cachedHash_ok P w s r c hc).1, (Scratch.cachedHash_ok P w s r c hc).2.1⟩

/-- **SDDs** (`SddPtr::cached_semantic_hash`, model `Sdd.cachedHash`) -/
theorem cached_eq_recomputed_sdd (w : Weights Nat) (s : Sdd.Store) (rs : List Sdd.Ref) :
    (Sdd.cachedHashes P w s rs (fun _ => none)).1 =
      rs.map (fun r => Sdd.hashTree P w (Sdd.unfold s r)) ∧
    ((0 < P) → (P < 2 ^ 128) → WBelow P w →
      (∀ r ∈ rs, Sdd.DD (Sdd.unfold s r) ∧
        ∀ v ∈ (Sdd.unfold s r).vars, ffAdd P (w v).1 (w v).2 = ffNew P 1) →
      (Sdd.cachedHashes P w s rs (fun _ => none)).1 =
        rs.map (fun r => Sdd.semanticHash P w (Sdd.unfold s r))) := by
  have h1 := (Sdd.cachedHashes_ok P w s rs _ (Sdd.cacheOK_empty P w s)).1
  refine ⟨h1, fun h0 hP hw hn => ?_⟩
  rw [h1]
  apply List.map_congr_left
  intro r hr
  exact Sdd.hashTree_eq h0 hP hw (hn r hr).1 (hn r hr).2

/-- `x0 ∧ x1` as a two-node BDD store and a one-node SDD store -/
def exB : Scratch.Store := Scratch.Store.ofList [⟨1, .fls, .tru⟩, ⟨0, .fls, .reg 0⟩]
def exS : Sdd.Store := [.dec 1 [(.lit 0 true, .lit 1 true), (.lit 0 false, .fls)]]
def m1 : Weights Nat := fun _ => (3, 5)
def m2 : Weights Nat := fun _ => (2, 6)

/-- two weight maps (both normalised in `𝔽₇`): the second map reads the first map's value —
the property claims the fixed-map case only -/
example :
    (Scratch.cachedHash 7 m1 exB (.reg 1) (fun _ => none)).1 = 4 ∧
    (Scratch.cachedHash 7 m2 exB (.reg 1) (fun _ => none)).1 = 1 ∧
    (Scratch.cachedHash 7 m2 exB (.reg 1) (Scratch.cachedHash 7 m1 exB (.reg 1) (fun _ => none)).2).1 = 4 ∧
    (Sdd.cachedHash 7 m1 exS (.reg 0) (fun _ => none)).1 = 4 ∧
    (Sdd.cachedHash 7 m2 exS (.reg 0) (fun _ => none)).1 = 1 ∧
    (Sdd.cachedHash 7 m2 exS (.compl 0) (Sdd.cachedHash 7 m1 exS (.reg 0) (fun _ => none)).2).1 = 4 := by
  decide

/-- … while within one map cached, recomputed and folded agree (instances of the theorems) -/
example :
    (Scratch.cachedHashSeq 7 m1 exB [.reg 1, .compl 1, .reg 0, .reg 1] (fun _ => none)).1 = [4, 4, 5, 4] ∧
    Bdd.wmc (ffOps 7) m1 (Scratch.unfold exB (.compl 1)) = 4 ∧
    (Sdd.cachedHashes 7 m1 exS [.reg 0, .compl 0, .reg 0] (fun _ => none)).1 = [4, 4, 4] ∧
    Sdd.semanticHash 7 m1 (Sdd.unfold exS (.compl 0)) = 4 := by decide

/-! ## the semantic-hash SDD builder -/
open Sdd SddSem

/-- the hash the builder uses is the semantic hash, on every pointer it handles -/
def HashOf (vt : VTree) (P : Nat) (w : Weights Nat) (h : Ptr → Nat) : Prop :=
  ∀ p, WFd vt p → h p = semanticHash P w p

/-- hypotheses on the builder's parameters: a `u128` modulus, residues, `low + high = 1` on the
vtree's variables, distinct leaf labels -/
structure GoodMap (vt : VTree) (P : Nat) (w : Weights Nat) : Prop where
  pos : 0 < P
  lt : P < 2 ^ 128
  below : WBelow P w
  norm : Normalised (ffOps P) w vt.leaves
  nodup : vt.leaves.Nodup

theorem hashTree_hashOf {vt : VTree} {w : Weights Nat} (g : GoodMap vt P w) :
    HashOf vt P w (hashTree P w) := fun p wp =>
  hashTree_eq g.pos g.lt g.below (WFd_DD g.nodup p wp) (fun v hv => g.norm v (WFd_vars p wp v hv))

/-- equal functions ⇒ equal hashes, from `wmc_sdd` -/
theorem hashOf_denotational {vt : VTree} {w : Weights Nat} (g : GoodMap vt P w) {h : Ptr → Nat}
    (hh : HashOf vt P w h) {a b : Ptr} (wa : WFd vt a) (wb : WFd vt b)
    (heq : ∀ asg, a.eval asg = b.eval asg) : h a = h b := by
  rw [hh a wa, hh b wb]
  exact sdd_same_function_same_hash g.pos g.lt g.below (WFd_DD g.nodup a wa) (WFd_DD g.nodup b wb)
    (fun v hv => by
      rcases hv with hv | hv
      · exact g.norm v (WFd_vars a wa v hv)
      · exact g.norm v (WFd_vars b wb v hv)) heq

/-- **never splits** (unconditional): two well formed arguments that denote the same function
are judged equal by `sdd_eq` -/
theorem semantic_never_splits {vt : VTree} {ws : List (Nat × Nat)} (g : GoodMap vt P (weightsOf ws))
    {a b : Ptr} (wa : WFd vt a) (wb : WFd vt b) (heq : ∀ asg, a.eval asg = b.eval asg) :
    sddEq vt P ws a b = true := by
  simp only [sddEq, beq_iff_eq]
  exact hashOf_denotational g (hashTree_hashOf g) wa wb heq

/-- what the collision detector reports on an equality test IS a collision: two well formed
pointers of different functions with one hash -/
theorem detector_reports_collisions {vt : VTree} {ws : List (Nat × Nat)} (g : GoodMap vt P (weightsOf ws))
    {a b : Ptr} (wa : WFd vt a) (wb : WFd vt b) (h : eqJ (params vt P ws true) a b = none) :
    hashTree P (weightsOf ws) a = hashTree P (weightsOf ws) b ∧ ¬ ∀ asg, a.eval asg = b.eval asg := by
  simp only [eqJ, guardJ, params, Bool.true_and] at h
  split at h
  · rename_i hbad
    simp only [Bool.not_eq_true', beq_eq_false_iff_ne, ne_eq] at hbad
    cases he : equivB vt a b
    · rw [he] at hbad
      have hne : ¬ ∀ asg, a.eval asg = b.eval asg := fun hall => by
        rw [(equivB_iff (WFd_vars a wa) (WFd_vars b wb)).2 hall] at he; cases he
      refine ⟨?_, hne⟩
      cases hb : (hashTree P (weightsOf ws) a == hashTree P (weightsOf ws) b)
      · exact absurd hb hbad
      · exact beq_iff_eq.1 hb
    · exfalso
      rw [he] at hbad
      apply hbad
      have := hashOf_denotational g (hashTree_hashOf g) wa wb
        ((equivB_iff (WFd_vars a wa) (WFd_vars b wb)).1 he)
      simp [this]
  · cases h

/-! ### conditional correctness of the single operations (detector on, any hash function) -/
section ops
variable {π : Params} (hc : π.chk = true) (fuel : Nat)
include hc

/-- `and` -/
theorem sem_and_correct {st st' : St} {a b r : Ptr} (hst : Inv π st) (wa : WFd π.vt a)
    (wb : WFd π.vt b) (h : bAnd π fuel st a b = some (st', r)) :
    bAnd π.off fuel st a b = some (st', r) ∧ Inv π st' ∧ WFd π.vt r ∧ den r = fAnd (den a) (den b) := by
  obtain ⟨h1, h2, h3⟩ := bAnd_okd hc fuel _ _ _ _ _ hst wa wb h
  exact ⟨bAnd_off fuel _ _ _ _ h, h1, h2, funext h3⟩

/-- `or` -/
theorem sem_or_correct {st st' : St} {a b r : Ptr} (hst : Inv π st) (wa : WFd π.vt a)
    (wb : WFd π.vt b) (h : bOr π fuel st a b = some (st', r)) :
    bOr π.off fuel st a b = some (st', r) ∧ Inv π st' ∧ WFd π.vt r ∧ den r = fOr (den a) (den b) := by
  obtain ⟨h1, h2, h3⟩ := bOr_okd hc fuel hst wa wb h
  exact ⟨bOr_off fuel h, h1, h2, funext h3⟩

omit hc in
/-- `negate` (a pointer flip, no judgement) -/
theorem sem_neg_correct {a : Ptr} (wa : WFd π.vt a) : WFd π.vt a.neg ∧ den a.neg = fNot (den a) :=
  ⟨WFd_neg wa, funext fun asg => by simp [den, fNot]⟩

/-- `condition` -/
theorem sem_condition_correct {st st' : St} {f r : Ptr} {x : Nat} {v : Bool} (hst : Inv π st)
    (wf : WFd π.vt f) (h : bCond π fuel st f x v = some (st', r)) :
    bCond π.off fuel st f x v = some (st', r) ∧ Inv π st' ∧ WFd π.vt r ∧ den r = fCond (den f) x v := by
  obtain ⟨h1, h2, h3⟩ := bCond_okd hc fuel hst wf h
  exact ⟨bCond_off fuel h, h1, h2, funext fun a => by simp [den, fCond, h3]⟩

/-- `exists` -/
theorem sem_exists_correct {st st' : St} {f r : Ptr} {x : Nat} (hst : Inv π st)
    (wf : WFd π.vt f) (h : bExists π fuel st f x = some (st', r)) :
    bExists π.off fuel st f x = some (st', r) ∧ Inv π st' ∧ WFd π.vt r ∧ den r = fExists (den f) x := by
  obtain ⟨h1, h2, h3⟩ := bExists_okd hc fuel hst wf h
  exact ⟨bExists_off fuel h, h1, h2, funext fun a => by simp [den, fExists, h3]⟩

/-- `compile_cnf`, for every order in which the clauses are processed -/
theorem sem_compile_cnf_correct {st st' : St} {cnf cnf' : Cnf} {r : Ptr} (hst : Inv π st)
    (hperm : cnf'.Perm cnf) (hl : ∀ c ∈ cnf, ∀ l ∈ c, l.var ∈ π.vt.leaves)
    (h : compileCnf π fuel st cnf' = some (st', r)) :
    compileCnf π.off fuel st cnf' = some (st', r) ∧ Inv π st' ∧ WFd π.vt r ∧ den r = cnfFn cnf := by
  obtain ⟨h1, h2, h3⟩ := compileCnf_okd hc fuel hst
    (fun c hc' => hl c (hperm.mem_iff.1 hc')) h
  refine ⟨compileCnf_off fuel h, h1, h2, funext fun a => ?_⟩
  simp only [den, cnfFn, h3 a, cnfSat]
  exact hperm.all_eq

end ops

/-! ### runs -/

/-- run invariant -/
def InvR (π : Params) (rs : RunSt) : Prop := Inv π rs.st ∧ ∀ p ∈ rs.pool, WFd π.vt p

theorem step_okd {π : Params} (hc : π.chk = true) (fuel : Nat) {rs rs' : RunSt} {op : Op}
    (hinv : InvR π rs) (h : SddSem.step π fuel rs op = some rs') :
    InvR π rs' ∧ specStep π.vt (rs.pool.map den) op = some (rs'.pool.map den) := by
  obtain ⟨hst, hpool⟩ := hinv
  have wfAt : ∀ {i p}, rs.pool[i]? = some p → WFd π.vt p :=
    fun h => hpool _ (List.mem_of_getElem? h)
  have push : ∀ {s : St} {r : Ptr}, Inv π s → WFd π.vt r →
      InvR π ⟨s, rs.pool ++ [r]⟩ := by
    intro s r hs wr
    refine ⟨hs, fun p hp => ?_⟩
    rcases List.mem_append.1 hp with h' | h'
    · exact hpool p h'
    · simp only [List.mem_singleton] at h'; subst h'; exact wr
  cases op with
  | const b =>
    simp only [SddSem.step, Option.some.injEq] at h; subst h
    refine ⟨push hst (by cases b <;> simp [WFd_tru, WFd_fls]), ?_⟩
    cases b
    · have e : den Ptr.fls = fFalse := funext fun a => by simp [den, fFalse]
      simp [specStep, e]
    · have e : den Ptr.tru = fTrue := funext fun a => by simp [den, fTrue]
      simp [specStep, e]
  | var x pol =>
    simp only [SddSem.step] at h
    split at h
    · rename_i hx
      simp only [Option.some.injEq] at h; subst h
      refine ⟨push hst (hasVar_iff.1 hx), ?_⟩
      simp only [specStep, hx, if_true]
      have e : den (Ptr.lit x pol) = fVar x pol := funext fun a => by simp [den, fVar, eval_lit]
      simp [e]
    · cases h
  | neg i =>
    simp only [SddSem.step, Option.map_eq_some_iff] at h
    obtain ⟨p, hp, rfl⟩ := h
    refine ⟨push hst (WFd_neg (wfAt hp)), ?_⟩
    simp only [specStep, List.getElem?_map, hp, Option.map_some, List.map_append, List.map_cons,
      List.map_nil, (sem_neg_correct (π := π) (wfAt hp)).2]
  | and i j =>
    simp only [SddSem.step] at h
    split at h
    · rename_i p q hp hq
      simp only [Option.map_eq_some_iff] at h
      obtain ⟨⟨s, r⟩, hr, rfl⟩ := h
      obtain ⟨_, h1, h2, h3⟩ := sem_and_correct hc fuel hst (wfAt hp) (wfAt hq) hr
      refine ⟨push h1 h2, ?_⟩
      simp [specStep, List.getElem?_map, hp, hq, h3]
    · cases h
  | or i j =>
    simp only [SddSem.step] at h
    split at h
    · rename_i p q hp hq
      simp only [Option.map_eq_some_iff] at h
      obtain ⟨⟨s, r⟩, hr, rfl⟩ := h
      obtain ⟨_, h1, h2, h3⟩ := sem_or_correct hc fuel hst (wfAt hp) (wfAt hq) hr
      refine ⟨push h1 h2, ?_⟩
      simp [specStep, List.getElem?_map, hp, hq, h3]
    · cases h
  | cond i x b =>
    simp only [SddSem.step] at h
    split at h
    · rename_i p hp
      simp only [Option.map_eq_some_iff] at h
      obtain ⟨⟨s, r⟩, hr, rfl⟩ := h
      obtain ⟨_, h1, h2, h3⟩ := sem_condition_correct hc fuel hst (wfAt hp) hr
      refine ⟨push h1 h2, ?_⟩
      simp [specStep, List.getElem?_map, hp, h3]
    · cases h
  | exist i x =>
    simp only [SddSem.step] at h
    split at h
    · rename_i p hp
      simp only [Option.map_eq_some_iff] at h
      obtain ⟨⟨s, r⟩, hr, rfl⟩ := h
      obtain ⟨_, h1, h2, h3⟩ := sem_exists_correct hc fuel hst (wfAt hp) hr
      refine ⟨push h1 h2, ?_⟩
      simp [specStep, List.getElem?_map, hp, h3]
    · cases h
  | xor i j => simp [SddSem.step] at h
  | iff i j => simp [SddSem.step] at h
  | ite i j k => simp [SddSem.step] at h
  | compose i x j => simp [SddSem.step] at h

theorem runFrom_okd {π : Params} (hc : π.chk = true) (fuel : Nat) : ∀ (ops : List Op) (rs rs' : RunSt),
    InvR π rs → SddSem.runFrom π fuel rs ops = some rs' →
    InvR π rs' ∧ specRun π.vt (rs.pool.map den) ops = some (rs'.pool.map den)
  | [], rs, rs', hinv, h => by
    simp only [SddSem.runFrom, Option.some.injEq] at h; subst h
    exact ⟨hinv, rfl⟩
  | op :: ops, rs, rs', hinv, h => by
    simp only [SddSem.runFrom] at h
    split at h
    · cases h
    · rename_i rs1 h1
      obtain ⟨i1, s1⟩ := step_okd hc fuel hinv h1
      obtain ⟨i2, s2⟩ := runFrom_okd hc fuel ops rs1 rs' i1 h
      exact ⟨i2, by simp only [specRun, s1]; exact s2⟩

/-- **conditional correctness of a run** (any prime, any weight list, any vtree, any fuel, any
program over `const/var/neg/and/or/cond/exist`): if the run with the collision detector on
returns, then
* the builder as shipped returns exactly the same pool,
* entry `i` of the pool denotes the `i`-th function of the specification,
* every entry is well formed (`WFd`: in particular deterministic and decomposable). -/
theorem semantic_correct_partial (vt : VTree) (P : Nat) (ws : List (Nat × Nat)) (fuel : Nat)
    (ops : List Op) (pool : List Ptr) (h : runChecked vt P ws fuel ops = some pool) :
    SddSem.run vt P ws fuel ops = some pool ∧
    specRun vt [] ops = some (pool.map den) ∧
    ∀ p ∈ pool, WFd vt p := by
  simp only [runChecked, Option.map_eq_some_iff] at h
  obtain ⟨rs, hrs, rfl⟩ := h
  have hoff := runFrom_off (π := params vt P ws true) fuel ops _ _ hrs
  obtain ⟨hinv, hspec⟩ := runFrom_okd (π := params vt P ws true) rfl fuel ops _ _
    ⟨inv_init _, fun p hp => by cases hp⟩ hrs
  refine ⟨?_, hspec, hinv.2⟩
  simp only [SddSem.run, Option.map_eq_some_iff]
  exact ⟨rs, hoff, rfl⟩

/-- **`sdd_eq` decides equality of the denoted functions** on the results of a collision-free
history: `⇐` is unconditional (`semantic_never_splits`), `⇒` holds whenever the detector accepts
the judgement (it rejects it exactly when the two hashes collide, `detector_reports_collisions`) -/
theorem semantic_eq_iff {vt : VTree} {ws : List (Nat × Nat)} (g : GoodMap vt P (weightsOf ws))
    {fuel : Nat} {ops : List Op} {pool : List Ptr} (h : runChecked vt P ws fuel ops = some pool)
    {a b : Ptr} (ha : a ∈ pool) (hb : b ∈ pool) :
    ((∀ asg, a.eval asg = b.eval asg) → sddEq vt P ws a b = true) ∧
    (∀ r, eqJ (params vt P ws true) a b = some r →
      (sddEq vt P ws a b = r ∧ (r = true ↔ ∀ asg, a.eval asg = b.eval asg))) := by
  obtain ⟨_, _, hw⟩ := semantic_correct_partial vt P ws fuel ops pool h
  have wa := hw a ha
  have wb := hw b hb
  refine ⟨semantic_never_splits g wa wb, fun r hr => ?_⟩
  have hv : r = sddEq vt P ws a b := eqJ_val hr
  refine ⟨hv.symm, ?_⟩
  constructor
  · intro hrt
    subst hrt
    exact eqJ_true (π := params vt P ws true) rfl wa wb hr
  · intro hall
    rw [hv]; exact semantic_never_splits g wa wb hall

theorem insertClause_perm (vt : VTree) (c : Clause) : ∀ (l : List Clause),
    (insertClause vt c l).Perm (c :: l)
  | [] => List.Perm.refl _
  | d :: ds => by
    simp only [insertClause]
    split
    · exact ((insertClause_perm vt c ds).cons d).trans (List.Perm.swap c d ds)
    · exact List.Perm.refl _

/-- the clause sort of `compile_cnf` is a permutation -/
theorem sortClauses_perm (vt : VTree) : ∀ (cs : List Clause), (sortClauses vt cs).Perm cs
  | [] => List.Perm.refl _
  | c :: cs => (insertClause_perm vt c _).trans ((sortClauses_perm vt cs).cons c)

/-- **CNF compilation** from a fresh builder (`compile_cnf`, with its clause sort): if the run
with the detector on returns, the builder as shipped returns the same diagram and it denotes the
CNF -/
theorem semantic_cnf_correct_partial (vt : VTree) (P : Nat) (ws : List (Nat × Nat)) (fuel : Nat)
    {cnf : Cnf} (hl : ∀ c ∈ cnf, ∀ l ∈ c, l.var ∈ vt.leaves) {r : Ptr}
    (h : runCnf vt P ws true fuel cnf = some r) :
    runCnf vt P ws false fuel cnf = some r ∧ den r = cnfFn cnf ∧ WFd vt r := by
  simp only [runCnf, compileCnfSorted, Option.map_eq_some_iff] at h
  obtain ⟨⟨st', r'⟩, hr, rfl⟩ := h
  obtain ⟨h1, _, h3, h4⟩ := sem_compile_cnf_correct (π := params vt P ws true) rfl fuel
    (inv_init _) (sortClauses_perm vt cnf) hl hr
  refine ⟨?_, h4, h3⟩
  simp only [runCnf, compileCnfSorted, Option.map_eq_some_iff]
  exact ⟨(st', r'), h1, rfl⟩

/-! ## the unconditional version is false; non-vacuity -/
section demo

theorem wBelow_weightsOf {ws : List (Nat × Nat)} (h0 : 0 < P) (h : ∀ e ∈ ws, e.1 < P ∧ e.2 < P) :
    WBelow P (weightsOf ws) := by
  intro v
  simp only [weightsOf, List.getD_eq_getElem?_getD]
  cases hv : ws[v]? with
  | none => exact ⟨h0, h0⟩
  | some e => exact h e (List.mem_of_getElem? hv)

/-- **a collision makes the builder wrong.**  `𝔽₇`, weights `x0 ↦ (3, 5)`, `x1 ↦ (2, 6)` (both
normalised): `hash(x0 ∧ x1) = 5 · 6 = 2 = hash(¬x1)`, so `and(x0 ∧ x1, ¬x1)` takes the
`eq(a, b) ⇒ return a` exit and returns `x0 ∧ x1` instead of `⊥`.  The detector stops that run.
By pigeonhole some collision exists for every `P` as soon as `2^(2^n) > P`. -/
theorem collision_wrong :
    let vt : VTree := .node (.leaf 0) (.leaf 1)
    let ws := [(3, 5), (2, 6)]
    let prog : List Op := [.var 0 true, .var 1 true, .and 0 1, .var 1 false, .and 2 3]
    (SddSem.run vt 7 ws 20 prog).map (fun pool => pool.map (ttString 2)) =
      some ["0101", "0011", "0001", "1100", "0001"] ∧
    (specRun vt [] prog).map (fun fs => fs.map (truthTable 2)) =
      some ([[false, true, false, true], [false, false, true, true], [false, false, false, true],
        [true, true, false, false], [false, false, false, false]]) ∧
    SddSem.runChecked vt 7 ws 20 prog = none ∧
    hashTree 7 (weightsOf ws) (.lit 1 false) = 2 := by decide +kernel

/-- the weights of `create_semantic_hash_map::<1000001>(4)` (as printed by the harness) -/
def wsB : List (Nat × Nat) := [(86899, 913103), (83960, 916042), (501023, 498979), (8893, 991109)]

theorem goodB : GoodMap vtB 1000001 (weightsOf wsB) where
  pos := by decide
  lt := by decide
  below := wBelow_weightsOf (by decide) (by decide)
  norm := by unfold Normalised; decide
  nodup := by decide

/-- a program over the balanced vtree `((0 1) (2 3))`: conjunction, disjunction, negation,
conditioning, quantification -/
def progS : List Op := [.var 0 true, .var 1 true, .var 2 true, .var 3 false, .and 0 2, .or 4 1,
  .and 0 3, .and 5 6, .exist 7 2, .cond 7 3 true, .neg 5, .or 10 8]

/-- the detector accepts the whole run, hence (instance of `semantic_correct_partial`) the builder
as shipped returns the same pool, every entry denotes the specified function and is well formed -/
example : ∃ pool, SddSem.runChecked vtB 1000001 wsB 20 progS = some pool ∧ pool.length = 12 ∧
    SddSem.run vtB 1000001 wsB 20 progS = some pool ∧
    specRun vtB [] progS = some (pool.map den) ∧ ∀ p ∈ pool, WFd vtB p := by
  cases h : SddSem.runChecked vtB 1000001 wsB 20 progS with
  | none => exact absurd h (by decide +kernel)
  | some pool =>
    obtain ⟨h1, h2, h3⟩ := semantic_correct_partial vtB 1000001 wsB 20 progS pool h
    refine ⟨pool, rfl, ?_, h1, h2, h3⟩
    have : (SddSem.runChecked vtB 1000001 wsB 20 progS).map List.length = some 12 := by decide +kernel
    rw [h] at this; simpa using this

/-- observed: `∃x2. #7` (#8) is the function `x0 ∧ ¬x3` (#6); the builder found the stored node by
its hash and returned the very same pointer, and `sdd_eq` agrees (`semantic_never_splits`) -/
example : (SddSem.run vtB 1000001 wsB 20 progS).map
    (fun pool => (decide (pool[8]? = pool[6]?), (pool[8]?).map fun a => (pool[6]?).map fun b =>
      sddEq vtB 1000001 wsB a b)) = some (true, some (some true)) := by decide +kernel

/-- CNF compilation: `(x0 ∨ ¬x1) ∧ (x1 ∨ x2) ∧ (¬x0 ∨ x3)` -/
def cnfS : Cnf := [[⟨0, true⟩, ⟨1, false⟩], [⟨1, true⟩, ⟨2, true⟩], [⟨0, false⟩, ⟨3, true⟩]]

example : ∃ r, runCnf vtB 1000001 wsB true 20 cnfS = some r ∧
    runCnf vtB 1000001 wsB false 20 cnfS = some r ∧ den r = cnfFn cnfS := by
  cases h : runCnf vtB 1000001 wsB true 20 cnfS with
  | none => exact absurd h (by decide +kernel)
  | some r =>
    obtain ⟨h1, h2, _⟩ := semantic_cnf_correct_partial vtB 1000001 wsB 20 (by decide) h
    exact ⟨r, rfl, h1, h2⟩

/-- any kind: `x0 ∧ x1` as a BDD under the order `1 < 0` with complement edges, as the SDD the
compressing builder returns for the vtree `((0 1) (2 3))`, and as the semantic builder's result:
one hash (`913103 · 916042 mod 1000001`) -/
example :
    Bdd.wmc (ffOps 1000001) (weightsOf wsB) C11Bdd.exQ = 861887 ∧
    (Sdd.run ⟨vtB, true⟩ 20 [.var 0 true, .var 1 true, .and 0 1]).map
      (fun pool => pool.map (semanticHash 1000001 (weightsOf wsB))) = some [913103, 916042, 861887] ∧
    (SddSem.run vtB 1000001 wsB 20 [.var 0 true, .var 1 true, .and 0 1]).map
      (fun pool => pool.map (hashTree 1000001 (weightsOf wsB))) = some [913103, 916042, 861887] := by
  decide +kernel

end demo

end C11

#print axioms C11.hash_any_kind
#print axioms C11.hash_any_kind_semiring
#print axioms C11.sdd_same_function_same_hash
#print axioms C11.run_hash_any_kind
#print axioms C11.run_run_same_hash
#print axioms C11.sdd_hash_neg
#print axioms C11.bdd_hash_neg
#print axioms C11.cached_eq_recomputed_bdd
#print axioms C11.cache_invariant_bdd
#print axioms C11.cached_eq_recomputed_sdd
#print axioms C11.hashTree_hashOf
#print axioms C11.hashOf_denotational
#print axioms C11.semantic_never_splits
#print axioms C11.detector_reports_collisions
#print axioms C11.sem_and_correct
#print axioms C11.sem_or_correct
#print axioms C11.sem_neg_correct
#print axioms C11.sem_condition_correct
#print axioms C11.sem_exists_correct
#print axioms C11.sem_compile_cnf_correct
#print axioms C11.semantic_correct_partial
#print axioms C11.semantic_eq_iff
#print axioms C11.semantic_cnf_correct_partial
#print axioms C11.collision_wrong
#print axioms C11.step_okd
#print axioms C11.runFrom_okd
#print axioms C11.insertClause_perm
#print axioms C11.sortClauses_perm
#print axioms C11.wBelow_weightsOf
#print axioms C11.goodB
