import RsddModel.Props.TieCnfOrd
import RsddModel.Props.C14
/-!
# C14 (orders) for the definitions regenerated from the Rust text (`src/repr/cnf.rs`)

Source-level corollaries: the order theorems of `Props/C14.lean` restated for `Gen.CnfOrd.*`
(`Model/GenCnfOrd.lean`, rewritten from the source on every run), obtained by rewriting with the tie
theorems of `Props/TieCnfOrd.lean` and closing with the existing theorem.
-/
set_option linter.unusedVariables false
namespace TieCnfOrd
open Orders Spec

/-- `Cnf::interaction_graph` as the source says now has the nodes `0..numVars-1` -/
theorem interactionGraph_nodes_source (cs : Cnf) (n : Nat) :
    (Gen.CnfOrd.interactionGraph cs n).nodes = List.range n := by
  rw [interactionGraph_tie]
  exact interactionGraph_nodes cs n

/-- `Cnf::min_fill_order` as the source says now: a permutation of `0..n-1` with mutually inverse maps -/
theorem minfill_perm_source (cs : Cnf) (n : Nat) : (Gen.CnfOrd.minFillOrder cs n).WF n := by
  rw [minFillOrder_tie]
  exact (C14.minfill_perm cs n).2

/-- `Cnf::force_order` as the source says now: every order it returns (any key arithmetic, any fuel) is a
permutation of `0..n-1` with mutually inverse maps -/
theorem force_perm_source {K : Type} (ops : ForceOps K) (cs : Cnf) (n fuel : Nat) :
    ∀ o, Gen.CnfOrd.forceOrder ops cs n fuel = some o → o.WF n := by
  rw [forceOrder_tie]
  exact (C14.force_perm ops cs n fuel).2

/-- `order_inverse` for the min-fill order computed by the source -/
theorem minfill_inverse_source (cs : Cnf) :
    let o := Gen.CnfOrd.minFillOrder cs (cnfNumVars cs)
    o.posToVar.Perm (List.range (cnfNumVars cs)) ∧ o.varToPos.Perm (List.range (cnfNumVars cs)) ∧
    (∀ i, i < cnfNumVars cs → o.get (o.varAtLevel i) = i) ∧ (∀ v, v < cnfNumVars cs → o.varAtLevel (o.get v) = v) := by
  rw [minFillOrder_tie]
  exact C14.order_inverse (C14.Produced.minFill cs)

/-- `order_inverse` for every order `force_order` (as the source says now) returns -/
theorem force_inverse_source {K : Type} (ops : ForceOps K) (cs : Cnf) (fuel : Nat) (o : VarOrder)
    (h : Gen.CnfOrd.forceOrder ops cs (cnfNumVars cs) fuel = some o) :
    o.posToVar.Perm (List.range (cnfNumVars cs)) ∧ o.varToPos.Perm (List.range (cnfNumVars cs)) ∧
    (∀ i, i < cnfNumVars cs → o.get (o.varAtLevel i) = i) ∧ (∀ v, v < cnfNumVars cs → o.varAtLevel (o.get v) = v) := by
  rw [forceOrder_tie] at h
  exact C14.order_inverse (C14.Produced.force ops cs fuel o h)

/-- `order_inverse` for `Cnf::linear_order` as the source says now -/
theorem linear_inverse_source (cs : Cnf) (n : Nat) :
    let o := Gen.CnfOrd.linearOrder cs n
    o.posToVar.Perm (List.range n) ∧ o.varToPos.Perm (List.range n) ∧
    (∀ i, i < n → o.get (o.varAtLevel i) = i) ∧ (∀ v, v < n → o.varAtLevel (o.get v) = v) := by
  rw [linearOrder_tie]
  exact C14.order_inverse (C14.Produced.linear n)

end TieCnfOrd

#print axioms TieCnfOrd.interactionGraph_nodes_source
#print axioms TieCnfOrd.minfill_perm_source
#print axioms TieCnfOrd.force_perm_source
#print axioms TieCnfOrd.minfill_inverse_source
#print axioms TieCnfOrd.force_inverse_source
#print axioms TieCnfOrd.linear_inverse_source
