import RsddModel.Lemmas.Lru
import RsddModel.Model.LruCache
import RsddModel.Props.C02
/-!
# C16 — operation caches are transparent (the lossy cache `Lru` of `src/util/lru.rs`)

Property theorems only; the work is in `Model/LruLemmas` (slot invariant, growth, one-step law)
and `Lemmas/Lru` (history theorem, growth-test lemma, fill counter).

Everywhere `hashOf : K → Nat` is an arbitrary function (collisions arbitrary), `num/den` an
arbitrary growth ratio, `cap` an arbitrary initial capacity exponent, `ops` an arbitrary list of
insertions.

* `lru_lawful` : after any history, `get k` is `none` or the value of the last insertion under `k`;
* `lru_never_foreign` : a returned value was inserted under exactly the asked key, and no later
  insertion in the history has that key;
* `lru_never_foreign_raw` : even for the raw API (any table, any hashes) a returned value is stored
  under the asked key;
* `lru_grow_keeps` : growth loses nothing and confuses nothing;
* `lru_grow_is_rust_grow` : the model's `grow` is the Rust's (inner growth test never fires);
* `lruCache_is_lawful` : the `CacheImpl` instance backed by `Lru`, for all parameters;
* `lru_builder_same_diagrams` : consequently a builder run with the lossy cache (any capacity,
  ratio, hash function) returns the same diagrams as one that caches every application;
* non-vacuity examples and the stale-value counter-example for inconsistent hashes.
-/
namespace C16
open Lru

variable {K V : Type} [DecidableEq K]

/-- **C16, history form** -/
theorem lru_lawful (hashOf : K → Nat) (num den cap : Nat) (ops : List (K × V)) (k : K) :
    get (run hashOf num den cap ops) k (hashOf k) = none ∨
    get (run hashOf num den cap ops) k (hashOf k) = lastInserted ops k :=
  Lru.lru_lawful hashOf num den cap ops k

/-- **C16, never a foreign or outdated value**: what `get k` returns is the value of a pair
`(k, v)` of the history after which no insertion under `k` occurs -/
theorem lru_never_foreign (hashOf : K → Nat) (num den cap : Nat) (ops : List (K × V)) (k : K)
    (v : V) (hg : get (run hashOf num den cap ops) k (hashOf k) = some v) :
    ∃ pre post, ops = pre ++ (k, v) :: post ∧ ∀ kv ∈ post, kv.1 ≠ k := by
  rcases Lru.lru_lawful hashOf num den cap ops k with h | h
  · rw [h] at hg; cases hg
  · exact lastInserted_last ops k v (by rw [← h, hg])

/-- the raw API, arbitrary table and hash: the key is compared, so the value belongs to an element
stored under the asked key -/
theorem lru_never_foreign_raw (t : Tbl K V) (k : K) (h : Nat) (v : V) (hg : get t k h = some v) :
    ∃ e, some e ∈ t.tbl ∧ e.key = k ∧ e.val = v := get_key t k h v hg

/-- **C16, growth** -/
theorem lru_grow_keeps (hashOf : K → Nat) (t : Tbl K V) (hi : Inv hashOf t) (k : K) :
    get (grow t) k (hashOf k) = get t k (hashOf k) ∧ Inv hashOf (grow t) :=
  ⟨grow_keeps hi k, inv_grow hi⟩

omit [DecidableEq K] in
/-- the invariant holds after every history (so `lru_grow_keeps` applies at every growth) -/
theorem lru_inv (hashOf : K → Nat) (num den cap : Nat) (ops : List (K × V)) :
    Inv hashOf (run hashOf num den cap ops) := inv_run hashOf num den cap ops

omit [DecidableEq K] in
/-- the modelling remark in `Lru.grow`: with `GROW_RATIO = num/den ≥ 1/2` the literal loop of the
Rust (full `insert`, with its own growth test) is the model's loop -/
theorem lru_grow_is_rust_grow (num den : Nat) (hr : den ≤ 2 * num) (t : Tbl K V)
    (hl : t.tbl.length = 2 ^ t.cap) : growRust num den t = grow t := growRust_eq_grow hr hl

/-- **C16, one-step contract**, and visibility of a fresh insertion -/
theorem lru_one_step (hashOf : K → Nat) (num den : Nat) (t : Tbl K V) (hi : Inv hashOf t)
    (k k' : K) (v : V) :
    get (insert num den t k v (hashOf k)) k (hashOf k) = some v ∧
    ∀ v', get (insert num den t k v (hashOf k)) k' (hashOf k') = some v' →
      (k' = k ∧ v' = v) ∨ get t k' (hashOf k') = some v' :=
  ⟨insert_get_self num den hi k v, fun v' h => insert_law num den hi k k' v v' h⟩

/-- **C16, the adapter**: for every hash function, ratio and initial capacity the `CacheImpl`
`Bdd.LruCache` really is the `Lru` (its `get`/`insert` are `Lru.get`/`Lru.insert` at the hash of
the key, its initial state is `Lru.new`) and satisfies the cache contract -/
theorem lruCache_is_lawful (hashOf : (Bdd.Ptr × Bdd.Ptr × Bdd.Ptr) → Nat) (num den cap0 : Nat) :
    let C := Bdd.LruCache hashOf num den cap0
    (∀ s k v k' v', C.get (C.insert s k v) k' = some v' → (k' = k ∧ v' = v) ∨ C.get s k' = some v') ∧
    (∀ k, C.get C.empty k = none) ∧
    (∀ s k v, C.get (C.insert s k v) k = some v) ∧
    (∀ (s : C.σ) k, C.get s k = Lru.get s.1 k (hashOf k)) ∧
    (∀ (s : C.σ) k v, (C.insert s k v).1 = Lru.insert num den s.1 k v (hashOf k)) ∧
    C.empty.1 = Lru.new cap0 :=
  ⟨(Bdd.LruCache hashOf num den cap0).lawful, (Bdd.LruCache hashOf num den cap0).empty_get,
    fun s k v => insert_get_self num den s.2 k v, fun _ _ => rfl, fun _ _ _ => rfl, rfl⟩

/-- **C16, consequence for the builder**: any two lawful caches — in particular the lossy cache
at any capacity/ratio/hash function and the cache that keeps every application — give the same
diagrams, entry by entry, on every program on which both runs return -/
theorem builder_cache_independent (C₁ C₂ : Bdd.CacheImpl) (lvl : Nat → Nat)
    (inj : ∀ x y, lvl x = lvl y → x = y) (fuel₁ fuel₂ n : Nat) (ops : List Bdd.Op)
    (st₁ : Bdd.St C₁) (st₂ : Bdd.St C₂)
    (h₁ : Bdd.run C₁ lvl fuel₁ (Bdd.St.init C₁ n) ops = some st₁)
    (h₂ : Bdd.run C₂ lvl fuel₂ (Bdd.St.init C₂ n) ops = some st₂) : st₁.pool = st₂.pool := by
  obtain ⟨sp₁, hs₁, hr₁, hi₁⟩ := Bdd.run_refines C₁ lvl inj fuel₁ n ops st₁ h₁
  obtain ⟨sp₂, hs₂, hr₂, hi₂⟩ := Bdd.run_refines C₂ lvl inj fuel₂ n ops st₂ h₂
  have hsp : sp₁ = sp₂ := by rw [hs₁] at hs₂; exact Option.some.inj hs₂
  subst hsp
  apply List.ext_getElem (by rw [← hr₁.2.1, ← hr₂.2.1])
  intro i h1 h2
  have h3 : i < sp₁.2.length := by rw [hr₁.2.1]; exact h1
  apply (Bdd.canon lvl inj (hi₁.2.2 _ (List.getElem_mem h1)) (hi₂.2.2 _ (List.getElem_mem h2))).1
  intro a
  have e1 := congrFun (hr₁.2.2 i h1 h3) a
  have e2 := congrFun (hr₂.2.2 i h2 h3) a
  exact e1.trans e2.symm

theorem lru_builder_same_diagrams (hashOf : (Bdd.Ptr × Bdd.Ptr × Bdd.Ptr) → Nat)
    (num den cap0 : Nat) (lvl : Nat → Nat) (inj : ∀ x y, lvl x = lvl y → x = y)
    (fuel₁ fuel₂ n : Nat) (ops : List Bdd.Op)
    (st₁ : Bdd.St (Bdd.LruCache hashOf num den cap0)) (st₂ : Bdd.St Bdd.AllCache)
    (h₁ : Bdd.run (Bdd.LruCache hashOf num den cap0) lvl fuel₁ (Bdd.St.init _ n) ops = some st₁)
    (h₂ : Bdd.run Bdd.AllCache lvl fuel₂ (Bdd.St.init _ n) ops = some st₂) :
    st₁.pool = st₂.pool :=
  builder_cache_independent _ _ lvl inj fuel₁ fuel₂ n ops st₁ st₂ h₁ h₂

/-! ## non-vacuity

Capacity exponent 1 (two slots), `GROW_RATIO = 7/10`, hash `k % 8`: keys `1`, `9`, `17` have the
same hash (full collision); `1` and `3` collide in two slots but not in four.  The history
overwrites `1` by `9` (collision), grows twice (at the 4th and the 6th insertion), overwrites `9`
by `1` again, and ends with eight slots. -/

def demoHash (k : Nat) : Nat := k % 8
def demoOps : List (Nat × Nat) := [(1, 100), (9, 900), (2, 200), (1, 101), (3, 300), (5, 500)]
def demoTbl : Tbl Nat Nat := run demoHash 7 10 1 demoOps

example : demoTbl.cap = 3 ∧ demoTbl.tbl.length = 8 ∧ demoTbl.numFilled = 4 := by decide
/-- the growth steps happen exactly at the 4th and 6th insertion -/
example : (demoOps.length.fold (fun i _ acc => acc ++ [(run demoHash 7 10 1 (demoOps.take (i+1))).cap]) [])
    = [1, 1, 1, 2, 2, 3] := by decide
/-- last value under `1` (inserted twice, lost once to `9` in between), survives the 2nd growth -/
example : get demoTbl 1 (demoHash 1) = some 101 ∧ lastInserted demoOps 1 = some 101 := by decide
/-- `9` was inserted but lost to the colliding `1`: permitted forgetting, not a wrong value -/
example : get demoTbl 9 (demoHash 9) = none ∧ lastInserted demoOps 9 = some 900 := by decide
/-- `17` collides with `1` and was never inserted: nothing, not the value of `1` -/
example : get demoTbl 17 (demoHash 17) = none := by decide
/-- entries inserted before a growth are found after it -/
example : get demoTbl 2 (demoHash 2) = some 200 ∧ get demoTbl 3 (demoHash 3) = some 300 ∧
    get demoTbl 5 (demoHash 5) = some 500 := by decide
/-- before the first growth `9` had displaced `1` -/
example : get (run demoHash 7 10 1 (demoOps.take 3)) 1 (demoHash 1) = none ∧
    get (run demoHash 7 10 1 (demoOps.take 3)) 9 (demoHash 9) = some 900 := by decide

/-- the builder on the demo program of C01 with a one-slot-exponent lossy cache whose hash makes
many keys collide returns (is `some`) and gives the pool of the cache-everything builder -/
def demoPtrHash : (Bdd.Ptr × Bdd.Ptr × Bdd.Ptr) → Nat
  | (.node _ v _ _, .node _ w _ _, _) => v + 2 * w
  | (.node _ v _ _, _, _) => v
  | _ => 0

example : (Bdd.run (Bdd.LruCache demoPtrHash 7 10 1) id 20 (Bdd.St.init _ 3) Bdd.demoProg).map (·.pool)
    = some Bdd.demoPool := by decide
example : (Bdd.run (Bdd.LruCache (fun _ => 0) 7 10 0) id 20 (Bdd.St.init _ 3) Bdd.demoProg).map (·.pool)
    = some Bdd.demoPool := by decide

/-! ## why `hashOf` is a hypothesis -/

/-- with INCONSISTENT hashes for one key the raw API returns a stale value: key `5` gets value
`10` at hash `0`, then value `20` at hash `1`; a lookup at hash `0` still answers `10` -/
example : get (insert 7 10 (insert 7 10 (new 1 : Tbl Nat Nat) 5 10 0) 5 20 1) 5 0 = some 10 := by
  decide

theorem lru_stale_if_hash_inconsistent :
    ∃ (t : Tbl Nat Nat) (k v1 v2 : Nat), v1 ≠ v2 ∧
      get (insert 7 10 (insert 7 10 t k v1 0) k v2 1) k 0 = some v1 :=
  stale_with_inconsistent_hashes

end C16

#print axioms C16.lru_lawful
#print axioms C16.lru_never_foreign
#print axioms C16.lru_never_foreign_raw
#print axioms C16.lru_grow_keeps
#print axioms C16.lru_inv
#print axioms C16.lru_grow_is_rust_grow
#print axioms C16.lru_one_step
#print axioms C16.lruCache_is_lawful
#print axioms C16.builder_cache_independent
#print axioms C16.lru_builder_same_diagrams
#print axioms C16.lru_stale_if_hash_inconsistent
