import RsddModel.Model.GenSem
/-!
# Tie to the source text (translator route): complex, expected-utility and real semirings

`RsddModel/Model/GenSem.lean` is rewritten by `tools/gen_source_model.py` from
`src/util/semirings/{complex,expectation,realsemiring}.rs` on every run: the bodies of
`add`/`mul`/`sub`, `one`/`zero`, `join`/`meet`, both `choose` implementations and the hand-written
`partial_cmp` of `ExpectedUtility`, as expressions over the fields (`f64` read as `Rat`).  The
theorems state that the regenerated definitions are the ones the semiring laws (C13) and the
counting / optimisation theorems (C07, C12) are about.  Definitional equality first, then
extensional equality by ring normalisation / case analysis, so that a harmless re-arrangement of
an expression still checks.
-/
namespace TieSem
open Sem

local macro "tie2" g:ident m:ident : tactic =>
  `(tactic| first
    | rfl
    | (funext a b; simp only [$g:ident, $m:ident]; first | rfl | grind | (congr 1 <;> grind) | (split <;> simp_all <;> grind)))

theorem cx_add : Gen.Sem.cxAdd = cxAdd := by tie2 Gen.Sem.cxAdd cxAdd
theorem cx_mul : Gen.Sem.cxMul = cxMul := by tie2 Gen.Sem.cxMul cxMul
theorem cx_sub : Gen.Sem.cxSub = cxSub := by tie2 Gen.Sem.cxSub cxSub
theorem cx_one : Gen.Sem.cxOne = cxOne := rfl
theorem cx_zero : Gen.Sem.cxZero = cxZero := rfl

theorem eu_add : Gen.Sem.euAdd = euAdd := by tie2 Gen.Sem.euAdd euAdd
theorem eu_mul : Gen.Sem.euMul = euMul := by tie2 Gen.Sem.euMul euMul
theorem eu_sub : Gen.Sem.euSub = euSub := by tie2 Gen.Sem.euSub euSub
theorem eu_one : Gen.Sem.euOne = euOne := rfl
theorem eu_zero : Gen.Sem.euZero = euZero := rfl
theorem eu_join : Gen.Sem.euJoin = euJoin := by tie2 Gen.Sem.euJoin euJoin
theorem eu_meet : Gen.Sem.euMeet = euMeet := by tie2 Gen.Sem.euMeet euMeet
theorem eu_choose : Gen.Sem.euChoose = euChoose := by tie2 Gen.Sem.euChoose euChoose
/-- `BBRing::choose` is the same function as `BBSemiring::choose` -/
theorem eu_choose_ring : Gen.Sem.euChooseRing = euChoose := by tie2 Gen.Sem.euChooseRing euChoose
theorem eu_partial_cmp : Gen.Sem.euPartialCmp = euPartialCmp := by tie2 Gen.Sem.euPartialCmp euPartialCmp

theorem real_add : Gen.Sem.realAdd = realAdd := by tie2 Gen.Sem.realAdd realAdd
theorem real_mul : Gen.Sem.realMul = realMul := by tie2 Gen.Sem.realMul realMul
theorem real_sub : Gen.Sem.realSub = realSub := by tie2 Gen.Sem.realSub realSub
theorem real_one : Gen.Sem.realOne = (realOps.one) := rfl
theorem real_zero : Gen.Sem.realZero = (realOps.zero) := rfl
theorem real_join : Gen.Sem.realJoin = realJoin := by tie2 Gen.Sem.realJoin realJoin
theorem real_meet : Gen.Sem.realMeet = realMeet := by tie2 Gen.Sem.realMeet realMeet

/-- the semiring records used by every counting theorem, rebuilt from the regenerated operations -/
theorem cxOps_source : ({ zero := Gen.Sem.cxZero, one := Gen.Sem.cxOne, add := Gen.Sem.cxAdd, mul := Gen.Sem.cxMul } : SROps Cx) = cxOps := by
  simp only [cx_add, cx_mul, cx_one, cx_zero, cxOps]
theorem euOps_source : ({ zero := Gen.Sem.euZero, one := Gen.Sem.euOne, add := Gen.Sem.euAdd, mul := Gen.Sem.euMul } : SROps EU) = euOps := by
  simp only [eu_add, eu_mul, eu_one, eu_zero, euOps]
theorem realOps_source : ({ zero := Gen.Sem.realZero, one := Gen.Sem.realOne, add := Gen.Sem.realAdd, mul := Gen.Sem.realMul } : SROps Rat) = realOps := by
  simp only [real_add, real_mul, realOps]; rfl

end TieSem
