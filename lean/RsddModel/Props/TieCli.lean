import RsddModel.Model.GenCli
import RsddModel.Lemmas.TieCliAux
/-!
# Tie to the source text (translator route): the command-line tools (bin/*.rs) and the rest of the C interface
(src/ffi/{wmc,bdd,cnf,var,dtree,vtree}.rs, src/util/semirings/ffi_polynomial_semiring.rs)

`RsddModel/Model/GenCli.lean` is rewritten from the Rust text on every run (tools/gen_cli.py).  The theorems state
that the regenerated definitions are the hand-written model (`Cli.singleWmc`, `Cli.formulaToBdd`, `Ffi.modelCount`,
`Ffi.fromCParts`) or its literal mirrors (`CliAux.*`, `FfiAux.*` in Lemmas/TieCliAux.lean, related to the model there).
-/
namespace TieCli
open Bdd Spec

/-- robust closing tactic: definitional equality, else unfold both sides and normalise -/
syntax "tie_close" "[" Lean.Parser.Tactic.simpLemma,* "]" : tactic
macro_rules
  | `(tactic| tie_close [$ls,*]) => `(tactic|
      first
      | rfl
      | (simp only [$ls,*]; done)
      | (simp [$ls,*]; done)
      | (simp only [$ls,*]; grind)
      | (simp only [$ls,*]; split <;> simp_all; done))

/-! ## bin/weighted_model_count.rs -/

theorem singleWmcOut_tie : @Gen.Cli.singleWmcOut = @CliAux.singleWmcOut := by
  first
  | rfl
  | (funext α C fuel S P e n order w
     simp only [Gen.Cli.singleWmcOut, CliAux.singleWmcOut]
     cases Compile.compileExpr (Bdd.ops C order.get fuel) C.empty (Cli.toCompileExpr e) <;>
       tie_close [Option.bind_some, Option.bind_none, Option.map_some, Option.map_none])

theorem singleWmcLabels_tie : Gen.Cli.singleWmcLabels = CliAux.singleWmcLabels := by
  first | rfl | decide

/-- **`single_wmc` is `Cli.singleWmc`** (the model C19 `cli_wmc_spec` is about): the weighted count it prints, as
regenerated from the source, under the level map / inverse of the `VarOrder` it is given -/
theorem singleWmc_tie {α : Type} (C : CacheImpl) (fuel : Nat) (S : SROps α) (P : Nat) (e : Ser.LogicalExpr) (n : Nat)
    (order : Orders.VarOrder) (w : Weights α) :
    (Gen.Cli.singleWmcOut C fuel S P e n order w).map (·.2) =
      Cli.singleWmc C order.get order.varAtLevel fuel S w n e := by
  first
  | (simp only [Gen.Cli.singleWmcOut, Cli.singleWmc]
     cases Compile.compileExpr (Bdd.ops C order.get fuel) C.empty (Cli.toCompileExpr e) <;> rfl)
  | (rw [singleWmcOut_tie]; exact CliAux.singleWmcOut_weighted C fuel S P e n order w)

theorem partialWmcs_tie : @Gen.Cli.partialWmcs = @CliAux.partialWmcs := by
  first
  | rfl
  | (funext α C fuel S P e n order w ps inv
     simp only [Gen.Cli.partialWmcs, CliAux.partialWmcs]
     cases Compile.compileExpr (Bdd.ops C order.get fuel) C.empty (Cli.toCompileExpr e) <;>
       tie_close [Option.bind_some, Option.bind_none, Option.map_some, Option.map_none])

theorem toVarOrder_tie : Gen.Cli.toVarOrder = CliAux.toVarOrder := by
  first
  | rfl
  | (funext o m; cases o <;> tie_close [Gen.Cli.toVarOrder, CliAux.toVarOrder, Option.map_some, Option.map_none])

theorem generatePartialAssignments_tie : Gen.Cli.generatePartialAssignments = CliAux.generatePartialAssignments := by
  first
  | rfl
  | (funext ps inv n
     simp only [Gen.Cli.generatePartialAssignments, CliAux.generatePartialAssignments]
     apply List.map_congr_left; intro a _
     apply List.map_congr_left; intro i _
     cases CliAux.lookup inv i <;> first | rfl | (simp only []; rename_i s; cases CliAux.lookup a s <;> rfl))

theorem wmcMain_tie : @Gen.Cli.wmcMain = @CliAux.wmcMain := by
  first
  | rfl
  | (funext α C fuel S P sexpr weights co cp
     simp only [Gen.Cli.wmcMain, CliAux.wmcMain, singleWmcOut_tie, partialWmcs_tie, toVarOrder_tie,
       generatePartialAssignments_tie]; done)
  | (funext α C fuel S P sexpr weights co cp
     simp [Gen.Cli.wmcMain, CliAux.wmcMain, singleWmcOut_tie, partialWmcs_tie, toVarOrder_tie,
       generatePartialAssignments_tie]; done)

/-- consequence: without `partials` the count tool runs `single_wmc` (hence `Cli.singleWmc`) on the indexed expression -/
theorem wmcMain_single {α : Type} (C : CacheImpl) (fuel : Nat) (S : SROps α) (P : Nat) (sexpr : Ser.LogicalSExpr)
    (weights : List (String × (α × α))) (co : Option (List String)) :
    ∃ (n : Nat) (order : Orders.VarOrder) (w : Weights α),
      (Gen.Cli.wmcMain C fuel S P sexpr weights co none).map (Sum.elim (fun _ => none) (fun r => some r.2)) =
        (Ser.fromSexpr sexpr).bind fun e => (Cli.singleWmc C order.get order.varAtLevel fuel S w n e).map some := by
  obtain ⟨n, order, w, h⟩ := CliAux.wmcMain_single C fuel S P sexpr weights co
  refine ⟨n, order, w, ?_⟩
  rw [wmcMain_tie, h]
  cases Ser.fromSexpr sexpr with
  | none => rfl
  | some e =>
    simp only [Option.bind_some]
    rw [← CliAux.singleWmcOut_weighted C fuel S P e n order w]
    cases CliAux.singleWmcOut C fuel S P e n order w <;> rfl

/-! ## bin/bottomup_formula_to_bdd.rs, bin/bottomup_cnf_to_bdd.rs -/

theorem formulaMain_tie : Gen.Cli.formulaMain = CliAux.formulaMain := by
  first
  | rfl
  | (funext C fuel ord cfg sexpr
     simp only [Gen.Cli.formulaMain, CliAux.formulaMain]
     cases Ser.fromSexpr sexpr <;> first | rfl | (simp only [Option.bind_some]; split <;> tie_close [Option.bind_some, Option.bind_none]))

/-- **the formula tool is `Cli.formulaToBdd`** (the model of C19 `cli_formula_to_bdd_spec`) on the indexed expression,
compiled under the order chosen by `--ordering` -/
theorem formulaToBdd_tie (C : CacheImpl) (fuel : Nat) (ord : String) (cfg : Option (Option (List String)))
    (sexpr : Ser.LogicalSExpr) :
    Gen.Cli.formulaMain C fuel ord cfg sexpr =
      (Ser.fromSexpr sexpr).bind fun e => (CliAux.formulaOrder ord cfg sexpr).bind fun o => Cli.formulaToBdd C o.get fuel e := by
  rw [formulaMain_tie]; exact CliAux.formulaMain_spec C fuel ord cfg sexpr

theorem cnfMain_tie : Gen.Cli.cnfMain = CliAux.cnfMain := by
  first
  | rfl
  | (funext C fuel o s file nv
     simp only [Gen.Cli.cnfMain, CliAux.cnfMain]
     cases Ser.cnfFromDimacs file <;> first | rfl | (simp only [Option.bind_some]; tie_close [Option.bind_some, Option.bind_none]))

/-! ## the C interface -/

theorem modelCount_tie : Gen.FfiMore.modelCount = FfiAux.modelCountLit := by
  first
  | rfl
  | (funext P lvl varAt n p; tie_close [Gen.FfiMore.modelCount, FfiAux.modelCountLit])

/-- **`robdd_model_count` is `Ffi.modelCount`** (the model of C18 `ffi_model_count`) whenever the smoothed diagram
mentions labels below `num_vars` only -/
theorem modelCount_model (P : Nat) (lvl varAt : Nat → Nat) (n : Nat) (p : Ptr)
    (h : ∀ v ∈ (smooth lvl varAt p n).vars, v < n) :
    Gen.FfiMore.modelCount P lvl varAt n p = Ffi.modelCount P lvl varAt n p := by
  rw [modelCount_tie]; exact FfiAux.modelCountLit_eq P lvl varAt n p h

theorem fromCParts_tie : @Gen.FfiMore.fromCParts = @FfiAux.fromCPartsLit := by
  first
  | rfl
  | (funext α S M cs n; tie_close [Gen.FfiMore.fromCParts, FfiAux.fromCPartsLit])

theorem fromCParts'_tie : @Gen.FfiMore.fromCParts' = @FfiAux.fromCPartsLit := by
  first
  | rfl
  | (funext α S M cs n; tie_close [Gen.FfiMore.fromCParts', FfiAux.fromCPartsLit])

/-- **`from_c_parts` is `Ffi.fromCParts`** (the model of C18 `fromCParts_spec`), both copies -/
theorem fromCParts_model {α : Type} (S : SROps α) (M : Nat) (cs : List α) :
    Gen.FfiMore.fromCParts S M (some cs) cs.length = Ffi.fromCParts S M cs ∧
    Gen.FfiMore.fromCParts' S M (some cs) cs.length = Ffi.fromCParts S M cs := by
  rw [fromCParts_tie, fromCParts'_tie]; exact ⟨FfiAux.fromCPartsLit_some S M cs, FfiAux.fromCPartsLit_some S M cs⟩

theorem newPolynomial_tie : @Gen.FfiMore.newPolynomial = @FfiAux.fromCPartsLit := by
  first
  | rfl
  | (funext α S M cs n; simp only [Gen.FfiMore.newPolynomial, fromCParts_tie])

theorem newPolynomial'_tie : @Gen.FfiMore.newPolynomial' = @FfiAux.fromCPartsLit := by
  first
  | rfl
  | (funext α S M cs n; simp only [Gen.FfiMore.newPolynomial', fromCParts'_tie])

theorem polynomialLen_tie : @Gen.FfiMore.polynomialLen = @FfiAux.polynomialLen := by
  first
  | rfl
  | (funext α p; cases p <;> tie_close [Gen.FfiMore.polynomialLen, FfiAux.polynomialLen])

theorem polynomialLen'_tie : @Gen.FfiMore.polynomialLen' = @FfiAux.polynomialLen := by
  first
  | rfl
  | (funext α p; cases p <;> tie_close [Gen.FfiMore.polynomialLen', FfiAux.polynomialLen])

theorem polynomialGetCoeffs_tie : @Gen.FfiMore.polynomialGetCoeffs = fun α S (_ : Nat) => @FfiAux.polynomialGetCoeffs α S := by
  first
  | rfl
  | (funext α S M p b n; cases p <;> cases b <;> tie_close [Gen.FfiMore.polynomialGetCoeffs, FfiAux.polynomialGetCoeffs])

theorem polynomialGetCoeffs'_tie : @Gen.FfiMore.polynomialGetCoeffs' = fun α S (_ : Nat) => @FfiAux.polynomialGetCoeffs α S := by
  first
  | rfl
  | (funext α S M p b n; cases p <;> cases b <;> tie_close [Gen.FfiMore.polynomialGetCoeffs', FfiAux.polynomialGetCoeffs])

theorem polySetWeight_tie : @Gen.FfiMore.polySetWeight = @FfiAux.polySetWeight := by
  first
  | rfl
  | (funext α S M w v lc ll hc hl; cases w <;> tie_close [Gen.FfiMore.polySetWeight, FfiAux.polySetWeight, fromCParts_tie])

theorem polySetWeight'_tie : @Gen.FfiMore.polySetWeight' = @FfiAux.polySetWeight := by
  first
  | rfl
  | (funext α S M w v lc ll hc hl; cases w <;> tie_close [Gen.FfiMore.polySetWeight', FfiAux.polySetWeight, fromCParts'_tie])

theorem compileCnf_tie : Gen.FfiMore.compileCnf =
    fun C lvl (_ : Nat → Nat) (_ : Nat) fuel st cnf => FfiAux.compileCnf C lvl fuel st cnf := by
  first
  | rfl
  | (funext C lvl varAt numVars fuel st cnf
     simp only [Gen.FfiMore.compileCnf, FfiAux.compileCnf]
     cases Compile.compileCnf (Bdd.ops C lvl fuel) st (Compile.sortClauses lvl cnf) <;> rfl)

theorem varOrderLinear_tie : Gen.FfiMore.varOrderLinear = Orders.VarOrder.linear := by
  first | rfl | (funext n; tie_close [Gen.FfiMore.varOrderLinear])

theorem cnfFromDimacs_tie : Gen.FfiMore.cnfFromDimacs = Ser.cnfFromDimacs := by
  first
  | rfl
  | (funext s; simp only [Gen.FfiMore.cnfFromDimacs]; cases Ser.cnfFromDimacs s <;> rfl)

theorem bddWmc_tie : @Gen.FfiMore.bddWmc = fun α S p w => @Bdd.wmc α S w p := by
  first | rfl | (funext α S p w; tie_close [Gen.FfiMore.bddWmc])

theorem bddWmcComplex_tie : Gen.FfiMore.bddWmcComplex = fun p w => Bdd.wmc Sem.cxOps w p := by
  first | rfl | (funext p w; tie_close [Gen.FfiMore.bddWmcComplex])

theorem cnfNew_tie : Gen.FfiMore.cnfNew = FfiAux.cnfNew := by
  first
  | rfl
  | (funext cs n; simp [Gen.FfiMore.cnfNew, FfiAux.cnfNew, List.take_length]; done)

theorem cnfMinFillOrder_tie : Gen.FfiMore.cnfMinFillOrder = Orders.minFillOrder := by
  first | rfl | (funext c n; tie_close [Gen.FfiMore.cnfMinFillOrder])

theorem varOrderNew_tie : Gen.FfiMore.varOrderNew = FfiAux.varOrderNew := by
  first | rfl | (funext o n; tie_close [Gen.FfiMore.varOrderNew, FfiAux.varOrderNew])

theorem literalNew_tie : Gen.FfiMore.literalNew = Spec.Lit.mk := by
  first | rfl | (funext l p; tie_close [Gen.FfiMore.literalNew])

theorem dtreeFromCnf_tie : Gen.FfiMore.dtreeFromCnf = fun cnf (o : Orders.VarOrder) => VT.DTree.fromCnf cnf o.posToVar := by
  first
  | rfl
  | (funext cnf o; simp only [Gen.FfiMore.dtreeFromCnf]; cases VT.DTree.fromCnf cnf o.posToVar <;> rfl)

theorem vtreeFromDtree_tie : Gen.FfiMore.vtreeFromDtree = VT.VTree.fromDtree := by
  first
  | rfl
  | (funext d; simp only [Gen.FfiMore.vtreeFromDtree]; cases VT.VTree.fromDtree d <;> rfl)

theorem newWmcParams_tie : @Gen.FfiMore.newWmcParams = @FfiAux.newParams := by
  first | rfl | (funext α S; tie_close [Gen.FfiMore.newWmcParams, FfiAux.newParams])

theorem newWmcParamsComplex_tie : @Gen.FfiMore.newWmcParamsComplex = @FfiAux.newParams := by
  first | rfl | (funext α S; tie_close [Gen.FfiMore.newWmcParamsComplex, FfiAux.newParams])

theorem setWeight_tie : @Gen.FfiMore.setWeight = @FfiAux.setWeight := by
  first | rfl | (funext α w v lo hi; tie_close [Gen.FfiMore.setWeight])

theorem setWeightComplex_tie : @Gen.FfiMore.setWeightComplex = @FfiAux.setWeight := by
  first | rfl | (funext α w v lo hi; tie_close [Gen.FfiMore.setWeightComplex])

theorem varWeight_tie : @Gen.FfiMore.varWeight = @FfiAux.varWeight := by
  first | rfl | (funext α w v; simp only [Gen.FfiMore.varWeight, FfiAux.varWeight]; cases w v <;> rfl)

theorem varWeightComplex_tie : @Gen.FfiMore.varWeightComplex = @FfiAux.varWeight := by
  first | rfl | (funext α w v; simp only [Gen.FfiMore.varWeightComplex, FfiAux.varWeight]; cases w v <;> rfl)

theorem weightLo_tie : @Gen.FfiMore.weightLo = fun α => @Prod.fst α α := by
  first | rfl | (funext α w; tie_close [Gen.FfiMore.weightLo])

theorem weightHi_tie : @Gen.FfiMore.weightHi = fun α => @Prod.snd α α := by
  first | rfl | (funext α w; tie_close [Gen.FfiMore.weightHi])

#print axioms singleWmcOut_tie
#print axioms singleWmcLabels_tie
#print axioms singleWmc_tie
#print axioms partialWmcs_tie
#print axioms toVarOrder_tie
#print axioms generatePartialAssignments_tie
#print axioms wmcMain_tie
#print axioms wmcMain_single
#print axioms formulaMain_tie
#print axioms formulaToBdd_tie
#print axioms cnfMain_tie
#print axioms modelCount_tie
#print axioms modelCount_model
#print axioms fromCParts_tie
#print axioms fromCParts'_tie
#print axioms fromCParts_model
#print axioms newPolynomial_tie
#print axioms newPolynomial'_tie
#print axioms polynomialLen_tie
#print axioms polynomialLen'_tie
#print axioms polynomialGetCoeffs_tie
#print axioms polynomialGetCoeffs'_tie
#print axioms polySetWeight_tie
#print axioms polySetWeight'_tie
#print axioms compileCnf_tie
#print axioms varOrderLinear_tie
#print axioms cnfFromDimacs_tie
#print axioms bddWmc_tie
#print axioms bddWmcComplex_tie
#print axioms cnfNew_tie
#print axioms cnfMinFillOrder_tie
#print axioms varOrderNew_tie
#print axioms literalNew_tie
#print axioms dtreeFromCnf_tie
#print axioms vtreeFromDtree_tie
#print axioms newWmcParams_tie
#print axioms newWmcParamsComplex_tie
#print axioms setWeight_tie
#print axioms setWeightComplex_tie
#print axioms varWeight_tie
#print axioms varWeightComplex_tie
#print axioms weightLo_tie
#print axioms weightHi_tie
end TieCli
