import RsddModel.Lemmas.ScratchSdd
/-!
# C10 — queries are pure (SDDs)

The SDD side of C10, same shape as `Props/C10.lean`.  Model: `Model/ScratchSdd.lean`
(`SddPtr::fold`, `SddPtr::count_nodes`, `SddOr::clear_scratch`, `BinarySDD::clear_scratch`).

The one structural difference: the SDD `clear_scratch`es do not short-circuit, so the clean-up
needs no occupancy argument (`clear_total`) — at the price of walking the unfolded tree rather
than the DAG.  The specification value `valS` is the same recursion as the memoised pass with
no scratch, i.e. the fold of the unfolded tree (no separate tree type is introduced for SDDs).
-/
namespace C10Sdd
open Scratch ScratchSdd

section
variable {Tag : Type} [DecidableEq Tag] {U : Tag → Type}

/-- the memo of `bottomup_pass_h` (SDD) is transparent -/
theorem foldDag_eq_tree (t : Tag) (A : SAlg (U t)) (s : SStore) (r : SRef) (σ σ' : Scr U) (v : U t)
    (hclear : ClearOnS s r σ) (hrun : foldDagS t A s r σ = (v, σ')) :
    v = valS A s r ∧ (∀ j, reachesS s r j = false → σ' j = σ j) := by
  have h := foldDagS_spec t A s r σ (preOn_of_noPair (fun j hj => by rw [hclear j hj]; rfl))
  rw [hrun] at h
  exact ⟨h.1, h.2.2⟩

/-- `clear_scratch` on SDDs empties exactly the reachable cells, whatever the state -/
theorem clear_total (s : SStore) (r : SRef) (σ : Scr U) :
    ∀ j, clearS s r σ j = if reachesS s r j then .empty else σ j :=
  fun j => congrFun (clearS_spec s r σ) j

/-- `SddPtr::fold` -/
theorem fold_pure (t : Tag) (A : SAlg (U t)) (s : SStore) (r : SRef) (σ : Scr U) (h : ClearOnS s r σ) :
    foldS t A s r σ = (valS A s r, σ) := by
  rw [foldS_spec t A s r σ (preOn_of_noPair (fun j hj => by rw [h j hj]; rfl)), emptiedS_of_clearOn h]

/-- leftovers of another type are harmless -/
theorem fold_robust (t : Tag) (A : SAlg (U t)) (s : SStore) (r : SRef) (σ : Scr U)
    (h : ∀ j, reachesS s r j = true → (σ j).asPair t = none) :
    foldS t A s r σ = (valS A s r, fun j => if reachesS s r j then .empty else σ j) :=
  foldS_spec t A s r σ (preOn_of_noPair h)

/-- `SddPtr::count_nodes`: one per element of every distinct reachable node -/
theorem countNodes_pure (s : SStore) (r : SRef) (σ : Scr U) (h : ClearOnS s r σ) :
    countNodesS s r σ = (countSpecS s r, σ) := by
  rw [countNodesS_spec s r σ (fun j hj => by rw [h j hj]; rfl), emptiedS_of_clearOn h]

/-- sequences of SDD queries of different result types over arbitrary roots of one store: the
answers are a `map` of the scratch-free answers (hence each equals the call run alone on a
fresh scratch, any reordering reorders the answers and changes none), and the final state is
all-clear -/
theorem queries_pure (s : SStore) (qs : List (SRef × QueryS U)) :
    runQueriesS s Scr.clear qs =
      (qs.map fun p => (runQueryS s Scr.clear p.1 p.2).1, Scr.clear) := by
  rw [runQueriesS_spec]
  simp only [runQueryS_spec]

theorem queries_perm (s : SStore) (qs qs' : List (SRef × QueryS U)) (hp : qs.Perm qs') :
    (runQueriesS s Scr.clear qs).1.Perm (runQueriesS s Scr.clear qs').1 := by
  rw [queries_pure, queries_pure]; exact hp.map _

end

/-! ## non-vacuity: two binary nodes, three decision nodes; nodes 1 and 2 sit under both
polarities and under both roots -/

inductive DTag | b | n deriving DecidableEq
abbrev DU : DTag → Type
  | .b => Bool | .n => Nat

def exS : SStore := List.reverse
  [.bdd 1 .fls .tru, .bdd 3 .fls .tru,
   .or [(.var 0 true, .reg 0), (.var 0 false, .fls)],
   .or [(.reg 2, .reg 1), (.compl 2, .compl 1)],
   .or [(.reg 2, .compl 1), (.compl 2, .fls)]]
def natOps : SROps Nat := ⟨0, 1, (· + ·), (· * ·)⟩
def w1 : Spec.Weights Nat := fun v => (v + 2, v + 3)

example : (foldDagS (U := DU) .n (wmcSAlg natOps w1) exS (.reg 3) Scr.clear).1 = 127 ∧
    valS (wmcSAlg natOps w1) exS (.reg 3) = 127 := by decide
example : ((foldDagS (U := DU) .n (wmcSAlg natOps w1) exS (.reg 3) Scr.clear).2 2).asPair .n = some (some 11, some 12) ∧
    ((foldDagS (U := DU) .n (wmcSAlg natOps w1) exS (.reg 3) Scr.clear).2 1).asPair .n = some (some 5, some 6) := by
  decide
example : (foldS (U := DU) .n (wmcSAlg natOps w1) exS (.reg 3) Scr.clear).2.occupied 5 = List.replicate 5 false := by
  decide
example : (countNodesS (U := DU) exS (.reg 3) Scr.clear).1 = 8 ∧
    (countNodesS (U := DU) exS (.compl 4) Scr.clear).1 = 8 ∧
    (foldS (U := DU) .n (wmcSAlg natOps w1) exS (.compl 4) Scr.clear).1 = 83 := by decide

end C10Sdd

#print axioms C10Sdd.foldDag_eq_tree
#print axioms C10Sdd.clear_total
#print axioms C10Sdd.fold_pure
#print axioms C10Sdd.fold_robust
#print axioms C10Sdd.countNodes_pure
#print axioms C10Sdd.queries_pure
#print axioms C10Sdd.queries_perm
