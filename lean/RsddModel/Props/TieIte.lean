import RsddModel.Model.GenIte
/-!
# Tie to the source text (translator route)

`RsddModel/Model/GenIte.lean` (and `GenFF.lean`, see `TieFF.lean`) is rewritten by `tools/gen_source_model.py` from the Rust
source on every run: the four stages of `Ite::new` arm by arm (over both pointer types) and the
one-line `FiniteField` operations.  The theorems below state that the regenerated definitions
ARE the definitions every other theorem of the development is about; they are re-checked by the
kernel on every run.  When an arm or an expression of the source changes, the corresponding
theorem stops checking and the properties that rest on it (C01/C03 for `Ite::new`, C13/C07 for
the field operations) are reported as no longer shown, with a search for a failing input.

Each proof first tries definitional equality and then extensional equality by case analysis, so
that a re-arrangement of the source that leaves the function unchanged still checks.
-/
set_option linter.unusedSimpArgs false
namespace TieIte

/-! ## `Ite::new` over BDD pointers -/

theorem bdd_introConst : Gen.Bdd.introConst = Bdd.introConst := by
  first
  | rfl
  | (funext f g h; simp only [Gen.Bdd.introConst, Bdd.introConst]; grind)
  | (funext f g h; simp only [Gen.Bdd.introConst, Bdd.introConst]
     cases f <;> cases g <;> cases h <;>
       simp [Bdd.Ptr.isTrue, Bdd.Ptr.isFalse, Bdd.Ptr.isNeg, Bdd.Ptr.neg] <;> grind)
theorem bdd_terminal : Gen.Bdd.terminal? = Bdd.terminal? := by
  first
  | rfl
  | (funext f g h; simp only [Gen.Bdd.terminal?, Bdd.terminal?]; grind)
  | (funext f g h; simp only [Gen.Bdd.terminal?, Bdd.terminal?]
     cases f <;> cases g <;> cases h <;>
       simp [Bdd.Ptr.isTrue, Bdd.Ptr.isFalse, Bdd.Ptr.isNeg, Bdd.Ptr.neg] <;> grind)
theorem bdd_reorder : Gen.Bdd.reorder = Bdd.reorder := by
  first
  | rfl
  | (funext ord f g h; simp only [Gen.Bdd.reorder, Bdd.reorder]; grind)
  | (funext ord f g h; simp only [Gen.Bdd.reorder, Bdd.reorder]
     cases f <;> cases g <;> cases h <;>
       simp [Bdd.Ptr.isTrue, Bdd.Ptr.isFalse, Bdd.Ptr.isNeg, Bdd.Ptr.neg] <;> grind)
theorem bdd_standardise : Gen.Bdd.standardise = Bdd.standardise := by
  first
  | rfl
  | (funext f g h; simp only [Gen.Bdd.standardise, Bdd.standardise]; grind)
  | (funext f g h; simp only [Gen.Bdd.standardise, Bdd.standardise]
     cases f <;> cases g <;> cases h <;>
       simp [Bdd.Ptr.isTrue, Bdd.Ptr.isFalse, Bdd.Ptr.isNeg, Bdd.Ptr.neg] <;> grind)

/-- `Ite::new` as the source composes its four stages -/
def Gen.Bdd.iteNew (ord : Bdd.Ptr → Bdd.Ptr → Bool) (f g h : Bdd.Ptr) : Bdd.Ite :=
  let (f, g, h) := Gen.Bdd.introConst f g h
  match Gen.Bdd.terminal? f g h with
  | some r => .const r
  | none =>
    let (f, g, h) := Gen.Bdd.reorder ord f g h
    Gen.Bdd.standardise f g h

theorem bdd_iteNew : Gen.Bdd.iteNew = Bdd.Ite.new := by
  funext ord f g h
  simp only [Gen.Bdd.iteNew, Bdd.Ite.new, bdd_introConst, bdd_terminal, bdd_reorder, bdd_standardise]
  rfl

/-- the standard triple computed by the arms in the source denotes `ite(f, g, h)`, for every
order predicate -/
theorem bdd_iteNew_source_sound (ord) (f g h : Bdd.Ptr) (a : Spec.Assign) :
    (Gen.Bdd.iteNew ord f g h).eval a = Spec.iteB (f.eval a) (g.eval a) (h.eval a) := by
  rw [bdd_iteNew]; exact Bdd.iteNew_sound ord f g h a

/-! ## `Ite::new` over SDD pointers -/

theorem sdd_introConst : Gen.Sdd.introConst = Sdd.introConst := by
  first
  | rfl
  | (funext f g h; simp only [Gen.Sdd.introConst, Sdd.introConst]; grind)
  | (funext f g h; simp only [Gen.Sdd.introConst, Sdd.introConst]
     cases f <;> cases g <;> cases h <;>
       simp [Sdd.Ptr.isTrue, Sdd.Ptr.isFalse, Sdd.Ptr.isNeg, Sdd.Ptr.neg] <;> grind)
theorem sdd_terminal : Gen.Sdd.terminal? = Sdd.terminal? := by
  first
  | rfl
  | (funext f g h; simp only [Gen.Sdd.terminal?, Sdd.terminal?]; grind)
  | (funext f g h; simp only [Gen.Sdd.terminal?, Sdd.terminal?]
     cases f <;> cases g <;> cases h <;>
       simp [Sdd.Ptr.isTrue, Sdd.Ptr.isFalse, Sdd.Ptr.isNeg, Sdd.Ptr.neg] <;> grind)
theorem sdd_reorder : Gen.Sdd.reorder = Sdd.reorder := by
  first
  | rfl
  | (funext ord f g h; simp only [Gen.Sdd.reorder, Sdd.reorder]; grind)
  | (funext ord f g h; simp only [Gen.Sdd.reorder, Sdd.reorder]
     cases f <;> cases g <;> cases h <;>
       simp [Sdd.Ptr.isTrue, Sdd.Ptr.isFalse, Sdd.Ptr.isNeg, Sdd.Ptr.neg] <;> grind)
theorem sdd_standardise : Gen.Sdd.standardise = Sdd.standardise := by
  first
  | rfl
  | (funext f g h; simp only [Gen.Sdd.standardise, Sdd.standardise]; grind)
  | (funext f g h; simp only [Gen.Sdd.standardise, Sdd.standardise]
     cases f <;> cases g <;> cases h <;>
       simp [Sdd.Ptr.isTrue, Sdd.Ptr.isFalse, Sdd.Ptr.isNeg, Sdd.Ptr.neg] <;> grind)

end TieIte
