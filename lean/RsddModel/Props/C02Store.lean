import RsddModel.Lemmas.BddStoreCond
import RsddModel.Model.CacheList
import RsddModel.Props.C02
/-!
# C02 (store level) — "pointer identity of the Rust = structural equality of the model", checked

`Model/BddBuilder.lean` and C01/C02 read a `BddPtr` as the tree it unfolds to.  This file makes
the justification of that reading a theorem.  `Model/BddStore.lean` is the builder with pointers
as *references* into the unique table; here:

* `unfold_injective` (from `Lemmas/BddStore.lean`): in a table satisfying its invariant `StoreOK`
  (children before parents, no duplicates) two valid references unfold to the same tree iff they
  are the same reference;
* `stepS_refines`, `runS_refines`: every returning store-level call / program (the whole `Op`
  language of C01: constants, variables, `neg`, `and`, `or`, `xor`, `iff`, `ite`, `condition`,
  `condition_model`, `exists`, `compose`, `and_lst`, `or_lst`) is matched, with the same fuel,
  by the tree-level call / program on the unfolded pool, for every pair of caches
  related by a `CacheSim`; the table invariant is kept, the table is only appended to (so every
  old reference keeps its unfolding, `old_refs_stable`);
* two instances of `CacheSim`: the cache that never stores (`noCacheSim`), and — **for every
  lawful cache `CS` keyed by references** — the tree-level cache whose contents are, at every
  moment, the image of `CS`'s contents under `unfold` (`scriptedSim`; the tree-level cache is
  `ScriptedCache`, which follows a script of successive contents and is lawful for every script);
* `store_run_tree`: hence every store-level run with any lawful cache is a tree-level run with
  a lawful cache, pool by pool;
* `store_run_refines` (C01 at store level): every reference handed out denotes the Boolean
  function the specification names, and unfolds to a well formed ROBDD;
* `store_eq_iff_sem` (C02 at store level): two references handed out by any program are EQUAL
  AS REFERENCES iff they denote the same Boolean function.
-/
namespace BddStore
open Bdd Scratch Spec

/-! ## the cache that never stores -/

/-- tree-level cache on which every lookup misses -/
def NoCacheT : CacheImpl where
  σ := Unit
  empty := ()
  get := fun _ _ => none
  insert := fun _ _ _ => ()
  lawful := by intro s k v k' v' h; cases h
  empty_get := by intro k; rfl

def noCacheSim : CacheSim NoCacheS NoCacheT where
  R := fun _ _ _ => True
  get_eq := by intros; rfl
  insert_back := by intros; exact ⟨(), trivial, rfl⟩
  mono_back := by intros; trivial

/-! ## the tree-level image of an arbitrary lawful reference-level cache -/

abbrev TKey := Ptr × Ptr × Ptr
/-- the contents of a tree-level cache -/
abbrev Contents := TKey → Option Ptr

/-- A cache that follows a script: each `insert` moves to the next scripted contents, keeping of
it only what the C16 contract allows (the entry just inserted, and entries present before).
It is lawful for every script. -/
def scriptedInsert (st : Contents × List Contents) (K : TKey) (V : Ptr) : Contents × List Contents :=
  match st.2 with
  | [] => (fun _ => none, [])
  | nxt :: rest =>
    (fun K' => if (K' = K ∧ nxt K' = some V) ∨ nxt K' = st.1 K' then nxt K' else none, rest)

def ScriptedCache : CacheImpl where
  σ := Contents × List Contents
  empty := (fun _ => none, [])
  get := fun st K => st.1 K
  insert := scriptedInsert
  lawful := by
    intro st k v k' v' h
    obtain ⟨cur, script⟩ := st
    cases script with
    | nil => simp [scriptedInsert] at h
    | cons nxt rest =>
      simp only [scriptedInsert] at h
      split at h
      · rename_i hc
        rcases hc with ⟨hk, hv⟩ | hc
        · rw [hv] at h; cases h; exact Or.inl ⟨hk, rfl⟩
        · right; simp only; rw [← hc]; exact h
      · cases h
  empty_get := fun _ => rfl

theorem scripted_insert_eq (st : ScriptedCache.σ) (K : TKey) (V : Ptr) :
    CacheImpl.insert ScriptedCache st K V = scriptedInsert st K V := rfl
theorem scripted_get_eq (st : ScriptedCache.σ) (K : TKey) : CacheImpl.get ScriptedCache st K = st.1 K := rfl

/-- the contents of the reference-level cache `c`, seen through `unfold s`: a triple of trees is
looked up under the references of those trees in the table -/
def img (CS : CacheS) (s : Store) (c : CS.σ) : Contents := fun K =>
  match refOf s K.1, refOf s K.2.1, refOf s K.2.2 with
  | some f, some g, some h => (CS.get c (f, g, h)).map (unfold s)
  | _, _, _ => none

theorem img_some_iff {CS : CacheS} {s : Store} (hs : StoreOK s) (c : CS.σ) (K : TKey) (V : Ptr) :
    img CS s c K = some V ↔
      ∃ k v, V3 s k ∧ u3 s k = K ∧ CS.get c k = some v ∧ unfold s v = V := by
  constructor
  · intro h
    simp only [img] at h
    split at h
    · rename_i f g h' hf hg hh
      simp only [Option.map_eq_some_iff] at h
      obtain ⟨v, hv, rfl⟩ := h
      obtain ⟨vf, ef⟩ := refOf_some hs hf
      obtain ⟨vg, eg⟩ := refOf_some hs hg
      obtain ⟨vh, eh⟩ := refOf_some hs hh
      exact ⟨(f, g, h'), v, ⟨vf, vg, vh⟩, by simp only [u3, ef, eg, eh], hv, rfl⟩
    · cases h
  · rintro ⟨⟨f, g, h⟩, v, ⟨vf, vg, vh⟩, rfl, hv, rfl⟩
    simp only [img, u3, refOf_unfold hs vf, refOf_unfold hs vg, refOf_unfold hs vh, hv, Option.map_some]

theorem img_unfold {CS : CacheS} {s : Store} (hs : StoreOK s) (c : CS.σ) {k : Ref × Ref × Ref} (hk : V3 s k) :
    img CS s c (u3 s k) = (CS.get c k).map (unfold s) := by
  obtain ⟨f, g, h⟩ := k
  obtain ⟨vf, vg, vh⟩ := hk
  simp only [img, u3, refOf_unfold hs vf, refOf_unfold hs vg, refOf_unfold hs vh]

/-- growing the table changes no image -/
theorem img_extends {CS : CacheS} {s s' : Store} (hs : StoreOK s) (hs' : StoreOK s') (he : Extends s' s)
    {c : CS.σ} (hc : CacheValid CS s c) : img CS s' c = img CS s c := by
  funext K
  apply Option.ext
  intro V
  rw [img_some_iff hs', img_some_iff hs]
  constructor
  · rintro ⟨k, v, _, rfl, hv, rfl⟩
    obtain ⟨vk, vv⟩ := hc k v hv
    exact ⟨k, v, vk, (u3_extends he vk).symm, hv, (unfold_extends he vv).symm⟩
  · rintro ⟨k, v, vk, rfl, hv, rfl⟩
    obtain ⟨_, vv⟩ := hc k v hv
    exact ⟨k, v, vk.extends he, u3_extends he vk, hv, unfold_extends he vv⟩

/-- the scripted cache, told the image of the next reference-level contents, moves exactly to it -/
theorem scripted_insert_back {CS : CacheS} {s : Store} {c : CS.σ} {k : Ref × Ref × Ref} {v : Ref}
    (hs : StoreOK s) (cT' : Contents × List Contents) (hR : cT'.1 = img CS s (CS.insert c k v)) :
    scriptedInsert (img CS s c, cT'.1 :: cT'.2) (u3 s k) (unfold s v) = cT' := by
  obtain ⟨nxt, rest⟩ := cT'
  simp only at hR
  simp only [scriptedInsert]
  refine Prod.ext ?_ rfl
  funext K'
  simp only
  split
  · rfl
  · rename_i hno
    cases hn : nxt K' with
    | none => rfl
    | some V' =>
      exfalso
      apply hno
      rw [hR] at hn
      obtain ⟨k', v', vk', ek', hget, ev'⟩ := (img_some_iff hs _ K' V').1 hn
      rcases CS.lawful _ _ _ _ _ hget with ⟨rfl, rfl⟩ | hold
      · left; rw [hR, hn, ← ev']; exact ⟨ek'.symm, rfl⟩
      · right
        rw [hR, hn]
        exact ((img_some_iff hs c K' V').2 ⟨k', v', vk', ek', hold, ev'⟩).symm

/-- **every lawful reference-level cache has a lawful tree-level image**: the scripted cache whose
current contents are the image of the reference-level contents -/
def scriptedSim (CS : CacheS) : CacheSim CS ScriptedCache where
  R := fun s c cT => cT.1 = img CS s c
  get_eq := by
    intro s c cT k hs _ hR hk
    rw [scripted_get_eq, hR, img_unfold hs c hk]
  insert_back := by
    intro s c cT' k v hs _ hk hv hR
    exact ⟨((img CS s c, cT'.1 :: cT'.2) : Contents × List Contents), rfl, scripted_insert_back hs cT' hR⟩
  mono_back := by
    intro s s' c cT hs hs' he hc hR
    show cT.1 = _
    rw [hR, img_extends hs hs' he hc]

/-! ## one call -/

/-- invariant of the store-level builder state: the unique table satisfies its invariant, the
apply cache and every pointer handed out point into it -/
def InvS {CS : CacheS} (st : StS CS) : Prop :=
  StoreOK st.store ∧ CacheValid CS st.store st.cache ∧ ∀ p ∈ st.pool, p.ValidIn st.store

/-- the tree-level state a store-level state unfolds to (given a tree-level cache state) -/
def mkT {CS : CacheS} {CT : CacheImpl} (cT : CT.σ) (st : StS CS) : St CT :=
  ⟨cT, st.numVars, st.pool.map (unfold st.store)⟩

theorem invS_init (CS : CacheS) (n : Nat) : InvS (StS.init CS n) :=
  ⟨storeOK_nil, cacheValid_empty CS [], fun p hp => by simp [StS.init] at hp⟩

theorem pool_map_push {s s' : Store} (he : Extends s' s) {pool : List Ref} (hp : ∀ p ∈ pool, p.ValidIn s)
    (r : Ref) : (pool ++ [r]).map (unfold s') = pool.map (unfold s) ++ [unfold s' r] := by
  rw [List.map_append, List.map_cons, List.map_nil]
  congr 1
  exact List.map_congr_left fun p h => unfold_extends he (hp p h)

theorem getAllS_spec {s : Store} {pool : List Ref} : ∀ {is : List Nat} {ps : List Ref},
    getAllS pool is = some ps →
    getAll (pool.map (unfold s)) is = some (ps.map (unfold s)) ∧ ∀ p ∈ ps, p ∈ pool
  | [], ps, h => by
    simp only [getAllS, Option.some.injEq] at h; subst h
    exact ⟨rfl, fun p hp => by cases hp⟩
  | i :: is, ps, h => by
    simp only [getAllS] at h
    split at h
    · rename_i p qs hp hqs
      simp only [Option.some.injEq] at h; subst h
      obtain ⟨h1, h2⟩ := getAllS_spec (s := s) hqs
      refine ⟨by simp [getAll, List.getElem?_map, hp, h1], ?_⟩
      intro q hq
      rcases List.mem_cons.1 hq with e | e
      · subst e; exact List.mem_of_getElem? hp
      · exact h2 q e
    · cases h

section step
variable {CS : CacheS} {CT : CacheImpl} (sim : CacheSim CS CT) (lvl : Nat → Nat) (fuel : Nat)

/-- what one returning store-level call achieves -/
def StepRefines (st st' : StS CS) (op : Op) : Prop :=
  InvS st' ∧ Extends st'.store st.store ∧ (∃ r, st'.pool = st.pool ++ [r]) ∧
  ∀ cT', sim.R st'.store st'.cache cT' →
    ∃ cT, sim.R st.store st.cache cT ∧ step CT lvl fuel (mkT cT st) op = some (mkT cT' st')

/-- a call that allocates at most table nodes and does not touch the apply cache -/
theorem push_pure {st : StS CS} (hinv : InvS st) {s' : Store} {r : Ref} {n' : Nat} {op : Op}
    (hs' : StoreOK s') (he : Extends s' st.store) (hr : r.ValidIn s')
    (hstep : ∀ cT : CT.σ, step CT lvl fuel (mkT cT st) op =
      some ⟨cT, n', st.pool.map (unfold st.store) ++ [unfold s' r]⟩) :
    StepRefines sim lvl fuel st ⟨s', st.cache, n', st.pool ++ [r]⟩ op := by
  obtain ⟨hs, hc, hp⟩ := hinv
  refine ⟨⟨hs', hc.extends he, ?_⟩, he, ⟨r, rfl⟩, fun cT' hR => ⟨cT', sim.mono_back hs hs' he hc hR, ?_⟩⟩
  · intro p hp'
    rcases List.mem_append.1 hp' with h | h
    · exact validIn_extends he (hp p h)
    · simp only [List.mem_singleton] at h; subst h; exact hr
  · rw [hstep]; simp only [mkT, pool_map_push he hp]

/-- a call that goes through `ite` -/
theorem push_refines {st : StS CS} (hinv : InvS st) {a : (Store × CS.σ) × Ref} {op : Op}
    {call : CT.σ → Option (CT.σ × Ptr)}
    (href : Refines sim (st.store, st.cache) a.1 a.2 call)
    (hstep : ∀ (cT cT' : CT.σ) (R : Ptr), call cT = some (cT', R) → step CT lvl fuel (mkT cT st) op =
      some ⟨cT', st.numVars, st.pool.map (unfold st.store) ++ [R]⟩) :
    StepRefines sim lvl fuel st (st.push a) op := by
  obtain ⟨hs, hc, hp⟩ := hinv
  obtain ⟨⟨hs', he, hc', hr⟩, hsim⟩ := href
  simp only at hs' he hc' hr hsim
  refine ⟨⟨hs', hc', ?_⟩, he, ⟨a.2, rfl⟩, fun cT' hR => ?_⟩
  · intro p hp'
    rcases List.mem_append.1 hp' with h | h
    · exact validIn_extends he (hp p h)
    · simp only [List.mem_singleton] at h; subst h; exact hr
  · obtain ⟨cT, hR0, hcall⟩ := hsim cT' hR
    refine ⟨cT, hR0, ?_⟩
    rw [hstep _ _ _ hcall]
    simp only [mkT, StS.push, pool_map_push he hp]

theorem pool_get {st : StS CS} {i : Nat} {p : Ref} (h : st.pool[i]? = some p) (cT : CT.σ) :
    (mkT cT st).pool[i]? = some (unfold st.store p) := by
  simp [mkT, List.getElem?_map, h]

/-- **one store-level builder call refines one tree-level builder call** -/
theorem stepS_refines (st st' : StS CS) (op : Op) (hinv : InvS st)
    (hstep : stepS CS lvl fuel st op = some st') : StepRefines sim lvl fuel st st' op := by
  have hinv' := hinv
  obtain ⟨hs, hc, hp⟩ := hinv'
  have vAt : ∀ {i : Nat} {p : Ref}, st.pool[i]? = some p → p.ValidIn st.store :=
    fun h => hp _ (List.mem_of_getElem? h)
  cases op with
  | const b =>
    simp only [stepS, Option.some.injEq] at hstep; subst hstep
    refine push_pure sim lvl fuel hinv hs (Extends.refl _) (r := if b then .tru else .fls) ?_ ?_
    · cases b
      · exact validIn_fls _
      · exact validIn_tru _
    · intro cT; cases b <;> simp [step, mkT]
  | var x pol =>
    simp only [stepS] at hstep
    split at hstep
    · rename_i hx
      simp only [Option.some.injEq] at hstep; subst hstep
      obtain ⟨h1, h2, h3, h4⟩ := varS_spec hs x pol
      refine push_pure sim lvl fuel hinv h1 h2 h3 ?_
      intro cT; simp [step, mkT, hx, h4]
    · cases hstep
  | newVar pol =>
    simp only [stepS, Option.some.injEq] at hstep; subst hstep
    obtain ⟨h1, h2, h3, h4⟩ := varS_spec hs st.numVars pol
    refine push_pure sim lvl fuel hinv h1 h2 h3 ?_
    intro cT; simp [step, mkT, h4]
  | neg i =>
    simp only [stepS, Option.map_eq_some_iff] at hstep
    obtain ⟨p, hpi, rfl⟩ := hstep
    refine push_pure sim lvl fuel hinv hs (Extends.refl _) (validIn_neg (vAt hpi)) ?_
    intro cT
    simp only [step, pool_get hpi cT, Option.map_some, negS, unfold_neg]
    rfl
  | and i j =>
    simp only [stepS] at hstep
    split at hstep
    · rename_i p q hpi hqj
      simp only [Option.map_eq_some_iff] at hstep
      obtain ⟨a, hrun, rfl⟩ := hstep
      refine push_refines sim lvl fuel hinv (andS_refines sim lvl fuel hs hc (vAt hpi) (vAt hqj) hrun) ?_
      intro cT cT' R hcall
      simp only [step, pool_get hpi cT, pool_get hqj cT]
      simp only [mkT] at hcall ⊢
      rw [hcall]; rfl
    · cases hstep
  | or i j =>
    simp only [stepS] at hstep
    split at hstep
    · rename_i p q hpi hqj
      simp only [Option.map_eq_some_iff] at hstep
      obtain ⟨a, hrun, rfl⟩ := hstep
      refine push_refines sim lvl fuel hinv (orS_refines sim lvl fuel hs hc (vAt hpi) (vAt hqj) hrun) ?_
      intro cT cT' R hcall
      simp only [step, pool_get hpi cT, pool_get hqj cT]
      simp only [mkT] at hcall ⊢
      rw [hcall]; rfl
    · cases hstep
  | xor i j =>
    simp only [stepS] at hstep
    split at hstep
    · rename_i p q hpi hqj
      simp only [Option.map_eq_some_iff] at hstep
      obtain ⟨a, hrun, rfl⟩ := hstep
      refine push_refines sim lvl fuel hinv (xorS_refines sim lvl fuel hs hc (vAt hpi) (vAt hqj) hrun) ?_
      intro cT cT' R hcall
      simp only [step, pool_get hpi cT, pool_get hqj cT]
      simp only [mkT] at hcall ⊢
      rw [hcall]; rfl
    · cases hstep
  | iff i j =>
    simp only [stepS] at hstep
    split at hstep
    · rename_i p q hpi hqj
      simp only [Option.map_eq_some_iff] at hstep
      obtain ⟨a, hrun, rfl⟩ := hstep
      refine push_refines sim lvl fuel hinv (iffS_refines sim lvl fuel hs hc (vAt hpi) (vAt hqj) hrun) ?_
      intro cT cT' R hcall
      simp only [step, pool_get hpi cT, pool_get hqj cT]
      simp only [mkT] at hcall ⊢
      rw [hcall]; rfl
    · cases hstep
  | ite i j k =>
    simp only [stepS] at hstep
    split at hstep
    · rename_i p q r0 hpi hqj hrk
      simp only [Option.map_eq_some_iff] at hstep
      obtain ⟨a, hrun, rfl⟩ := hstep
      refine push_refines sim lvl fuel hinv
        (iteS_refines sim lvl fuel _ _ _ _ _ _ hs hc (vAt hpi) (vAt hqj) (vAt hrk) hrun) ?_
      intro cT cT' R hcall
      simp only [step, pool_get hpi cT, pool_get hqj cT, pool_get hrk cT]
      simp only [mkT] at hcall ⊢
      rw [hcall]; rfl
    · cases hstep
  | andLst is =>
    simp only [stepS] at hstep
    split at hstep
    · rename_i ps hps
      simp only [Option.map_eq_some_iff] at hstep
      obtain ⟨a, hrun, rfl⟩ := hstep
      obtain ⟨hall, hmem⟩ := getAllS_spec (s := st.store) hps
      have href := andLstS_refines sim lvl fuel ps (st := (st.store, st.cache)) hs hc (validIn_tru _)
        (fun p h => hp p (hmem p h)) hrun
      simp only [unfold_tru] at href
      refine push_refines sim lvl fuel hinv href ?_
      intro cT cT' R hcall
      simp only [step, mkT, hall]
      rw [hcall]; rfl
    · cases hstep
  | orLst is =>
    simp only [stepS] at hstep
    split at hstep
    · rename_i ps hps
      simp only [Option.map_eq_some_iff] at hstep
      obtain ⟨a, hrun, rfl⟩ := hstep
      obtain ⟨hall, hmem⟩ := getAllS_spec (s := st.store) hps
      have href := orLstS_refines sim lvl fuel ps (st := (st.store, st.cache)) hs hc (validIn_fls _)
        (fun p h => hp p (hmem p h)) hrun
      simp only [unfold_fls] at href
      refine push_refines sim lvl fuel hinv href ?_
      intro cT cT' R hcall
      simp only [step, mkT, hall]
      rw [hcall]; rfl
    · cases hstep
  | cond i x b =>
    simp only [stepS] at hstep
    split at hstep
    · rename_i hx
      simp only [Option.map_eq_some_iff] at hstep
      obtain ⟨p, hpi, rfl⟩ := hstep
      obtain ⟨h1, h2, h3, h4⟩ := condS_spec lvl hs (vAt hpi) x b
      refine push_pure sim lvl fuel hinv h1 h2 h3 ?_
      intro cT
      have hx' : x < (mkT cT st).numVars := hx
      simp only [step, if_pos hx', pool_get hpi cT, Option.map_some, h4]
      rfl
    · cases hstep
  | condModel i m =>
    simp only [stepS] at hstep
    split at hstep
    · rename_i hm
      simp only [Option.map_eq_some_iff] at hstep
      obtain ⟨p, hpi, rfl⟩ := hstep
      obtain ⟨h1, h2, h3, h4⟩ := condModelS_spec lvl m hs (vAt hpi)
      refine push_pure sim lvl fuel hinv h1 h2 h3 ?_
      intro cT
      have hm' : (m.all fun (x, _) => decide (x < (mkT cT st).numVars)) = true := hm
      simp only [step, if_pos hm', pool_get hpi cT, Option.map_some, h4]
      rfl
    · cases hstep
  | exist i x =>
    simp only [stepS] at hstep
    split at hstep
    · rename_i hx
      split at hstep
      · rename_i p hpi
        simp only [Option.map_eq_some_iff] at hstep
        obtain ⟨a, hrun, rfl⟩ := hstep
        refine push_refines sim lvl fuel hinv
          (existsS_refines sim lvl fuel (st := (st.store, st.cache)) x hs hc (vAt hpi) hrun) ?_
        intro cT cT' R hcall
        have hx' : x < (mkT cT st).numVars := hx
        simp only [step, if_pos hx', pool_get hpi cT]
        simp only [mkT] at hcall ⊢
        rw [hcall]; rfl
      · cases hstep
    · cases hstep
  | compose i x j =>
    simp only [stepS] at hstep
    split at hstep
    · rename_i hx
      split at hstep
      · rename_i p q hpi hqj
        simp only [Option.map_eq_some_iff] at hstep
        obtain ⟨a, hrun, rfl⟩ := hstep
        refine push_refines sim lvl fuel hinv
          (composeS_refines sim lvl fuel (st := (st.store, st.cache)) x hs hc (vAt hpi) (vAt hqj) hrun) ?_
        intro cT cT' R hcall
        have hx' : x < (mkT cT st).numVars := hx
        simp only [step, if_pos hx', pool_get hpi cT, pool_get hqj cT]
        simp only [mkT] at hcall ⊢
        rw [hcall]; rfl
      · cases hstep
    · cases hstep

/-- **any store-level program refines the tree-level program**, from any state satisfying the
invariant, for every pair of caches related by a `CacheSim` -/
theorem runS_refines : ∀ (ops : List Op) (st st' : StS CS), InvS st → runS CS lvl fuel st ops = some st' →
    InvS st' ∧ Extends st'.store st.store ∧ (∃ rs, st'.pool = st.pool ++ rs) ∧
    ∀ cT', sim.R st'.store st'.cache cT' →
      ∃ cT, sim.R st.store st.cache cT ∧ run CT lvl fuel (mkT cT st) ops = some (mkT cT' st')
  | [], st, st', hinv, hrun => by
    simp only [runS, Option.some.injEq] at hrun; subst hrun
    exact ⟨hinv, Extends.refl _, ⟨[], by simp⟩, fun cT' hR => ⟨cT', hR, rfl⟩⟩
  | op :: ops, st, st', hinv, hrun => by
    simp only [runS] at hrun
    split at hrun
    · cases hrun
    · rename_i st1 h1
      obtain ⟨inv1, ext1, ⟨r, hr⟩, sim1⟩ := stepS_refines sim lvl fuel st st1 op hinv h1
      obtain ⟨inv2, ext2, ⟨rs, hrs⟩, sim2⟩ := runS_refines ops st1 st' inv1 hrun
      refine ⟨inv2, ext2.trans ext1, ⟨r :: rs, by rw [hrs, hr, List.append_assoc]; rfl⟩, fun cT' hR => ?_⟩
      obtain ⟨cT1, hR1, run2⟩ := sim2 cT' hR
      obtain ⟨cT0, hR0, run1⟩ := sim1 cT1 hR1
      exact ⟨cT0, hR0, by simp only [run, run1, run2]⟩

end step

/-! ## `ite` alone, spelled out for the two instances -/

/-- **`ite_helper`, no apply cache** (every lookup misses on both sides): the tree-level `ite`
with the same fuel on the unfolded arguments returns the unfolding of the store-level result;
the table invariant is kept and the table is only appended to -/
theorem iteS_refines_nocache (lvl : Nat → Nat) (fuel : Nat) {s s' : Store} {f g h r : Ref}
    (hs : StoreOK s) (hf : f.ValidIn s) (hg : g.ValidIn s) (hh : h.ValidIn s)
    (hrun : iteS NoCacheS lvl fuel (s, ()) f g h = some ((s', ()), r)) :
    StoreOK s' ∧ Extends s' s ∧ r.ValidIn s' ∧
    Bdd.ite NoCacheT lvl fuel () (unfold s f) (unfold s g) (unfold s h) = some ((), unfold s' r) := by
  obtain ⟨⟨h1, h2, _, h4⟩, hsim⟩ := iteS_refines noCacheSim lvl fuel (s, ()) f g h (s', ()) r hs
    (cacheValid_empty NoCacheS s) hf hg hh hrun
  obtain ⟨cT, _, hcall⟩ := hsim () trivial
  exact ⟨h1, h2, h4, hcall⟩

/-- **`ite_helper`, any lawful apply cache keyed by references**: whatever the tree-level cache
is to hold afterwards besides the image of the final reference-level contents (`tail`), there is
a script such that the tree-level `ite` — same fuel, unfolded arguments, cache contents the image
of the initial reference-level contents — returns the unfolding of the store-level result and
ends with contents the image of the final reference-level contents -/
theorem iteS_refines_lawful (CS : CacheS) (lvl : Nat → Nat) (fuel : Nat) {s s' : Store} {c c' : CS.σ}
    {f g h r : Ref} (hs : StoreOK s) (hc : CacheValid CS s c) (hf : f.ValidIn s) (hg : g.ValidIn s)
    (hh : h.ValidIn s) (hrun : iteS CS lvl fuel (s, c) f g h = some ((s', c'), r)) :
    StoreOK s' ∧ Extends s' s ∧ CacheValid CS s' c' ∧ r.ValidIn s' ∧
    ∀ tail : List Contents, ∃ script : List Contents,
      Bdd.ite ScriptedCache lvl fuel (img CS s c, script) (unfold s f) (unfold s g) (unfold s h) =
        some ((img CS s' c', tail), unfold s' r) := by
  obtain ⟨⟨h1, h2, h3, h4⟩, hsim⟩ := iteS_refines (scriptedSim CS) lvl fuel (s, c) f g h (s', c') r hs
    hc hf hg hh hrun
  refine ⟨h1, h2, h3, h4, fun tail => ?_⟩
  obtain ⟨cT, hR, hcall⟩ := hsim (img CS s' c', tail) rfl
  obtain ⟨cur, script⟩ := cT
  have : cur = img CS s c := hR
  subst this
  exact ⟨script, hcall⟩

/-! ## the property theorems -/

/-- **pointer identity = structural equality.**  In a unique table satisfying its invariant, two
references into the table unfold to the same tree iff they are the same reference. -/
theorem unfold_injective {s : Store} (hs : StoreOK s) {a b : Ref} (ha : a.ValidIn s) (hb : b.ValidIn s) :
    unfold s a = unfold s b ↔ a = b := unfold_eq_iff hs ha hb

/-- the invariant holds along every program, the table is only appended to, and hence every
reference handed out earlier keeps its unfolding for ever -/
theorem old_refs_stable (CS : CacheS) (lvl : Nat → Nat) (fuel : Nat) (ops : List Op) (st st' : StS CS)
    (hinv : InvS st) (hrun : runS CS lvl fuel st ops = some st') :
    InvS st' ∧ (∃ rs, st'.pool = st.pool ++ rs) ∧
    ∀ r : Ref, r.ValidIn st.store → r.ValidIn st'.store ∧ unfold st'.store r = unfold st.store r := by
  obtain ⟨h1, h2, h3, _⟩ := runS_refines (scriptedSim CS) lvl fuel ops st st' hinv hrun
  exact ⟨h1, h3, fun r hr => ⟨validIn_extends h2 hr, unfold_extends h2 hr⟩⟩

/-- refinement with the never-storing caches on both sides (every lookup misses) -/
theorem store_run_tree_nocache (lvl : Nat → Nat) (fuel n : Nat) (ops : List Op) (st : StS NoCacheS)
    (hrun : runS NoCacheS lvl fuel (StS.init NoCacheS n) ops = some st) :
    run NoCacheT lvl fuel (St.init NoCacheT n) ops =
      some ⟨(), st.numVars, st.pool.map (unfold st.store)⟩ := by
  obtain ⟨_, _, _, hsim⟩ := runS_refines noCacheSim lvl fuel ops _ st (invS_init _ n) hrun
  obtain ⟨cT, _, h⟩ := hsim () trivial
  exact h

/-- **refinement for every lawful cache keyed by references**: a returning store-level run from
the initial builder is a returning tree-level run (same program, same fuel, same level map) with
a lawful tree-level cache that starts empty; the tree-level pool is the unfolding of the
store-level pool. -/
theorem store_run_tree (CS : CacheS) (lvl : Nat → Nat) (fuel n : Nat) (ops : List Op) (st : StS CS)
    (hrun : runS CS lvl fuel (StS.init CS n) ops = some st) :
    InvS st ∧ ∃ (script : List Contents) (cT' : ScriptedCache.σ),
      run ScriptedCache lvl fuel ⟨(fun _ => none, script), n, []⟩ ops =
        some ⟨cT', st.numVars, st.pool.map (unfold st.store)⟩ := by
  obtain ⟨hinv, _, _, hsim⟩ := runS_refines (scriptedSim CS) lvl fuel ops _ st (invS_init _ n) hrun
  obtain ⟨cT, hR, h⟩ := hsim (img CS st.store st.cache, []) rfl
  refine ⟨hinv, cT.2, (img CS st.store st.cache, []), ?_⟩
  have e : cT = (fun _ => none, cT.2) := by
    obtain ⟨cur, script⟩ := cT
    have hR' : cur = img CS [] CS.empty := hR
    refine Prod.ext ?_ rfl
    show cur = fun _ => none
    rw [hR']
    funext K
    simp only [img]
    split
    · rw [CS.empty_get]; rfl
    · rfl
  rw [e] at h
  exact h

/-- the tree-level state a scripted run starts from satisfies the invariant of C01 -/
theorem inv_scripted_start (lvl : Nat → Nat) (script : List Contents) (n : Nat) :
    Inv ScriptedCache lvl ⟨(fun _ => none, script), n, []⟩ := by
  refine ⟨?_, ?_, fun p hp => by cases hp⟩
  · intro f g h r hget; cases hget
  · intro f g h r hget; cases hget

/-- **C01 at store level.**  For every lawful cache keyed by references, every injective level
map, every fuel, every program: if the store-level builder returns, the specification accepts
the program, the `i`-th reference handed out denotes (through the table) the `i`-th Boolean
function of the specification, it unfolds to a well formed ROBDD, and the table invariant holds. -/
theorem store_run_refines (CS : CacheS) (lvl : Nat → Nat) (inj : ∀ x y, lvl x = lvl y → x = y)
    (fuel n : Nat) (ops : List Op) (st : StS CS)
    (hrun : runS CS lvl fuel (StS.init CS n) ops = some st) :
    ∃ sp, specRun (n, []) ops = some sp ∧
      sp = (st.numVars, st.pool.map fun r => den (unfold st.store r)) ∧
      (∀ r ∈ st.pool, WF lvl (unfold st.store r)) ∧ InvS st := by
  obtain ⟨hinv, script, cT', hT⟩ := store_run_tree CS lvl fuel n ops st hrun
  obtain ⟨sp, hsp, hrel, hinvT, _⟩ := run_correct ScriptedCache lvl inj fuel ops _ _ (n, [])
    (inv_scripted_start lvl script n) ((rel_iff _ _).2 rfl) hT
  refine ⟨sp, hsp, ?_, ?_, hinv⟩
  · rw [(rel_iff _ _).1 hrel]; simp only [List.map_map]; rfl
  · intro r hr
    exact hinvT.2.2 _ (List.mem_map.2 ⟨r, hr, rfl⟩)

/-- **C02 at store level: pointer equality decides equivalence.**  Two references handed out by
any returning store-level program (any lawful cache, injective level map, fuel) are EQUAL AS
REFERENCES iff they denote the same Boolean function. -/
theorem store_eq_iff_sem (CS : CacheS) (lvl : Nat → Nat) (inj : ∀ x y, lvl x = lvl y → x = y)
    (fuel n : Nat) (ops : List Op) (st : StS CS)
    (hrun : runS CS lvl fuel (StS.init CS n) ops = some st) {p q : Ref}
    (hp : p ∈ st.pool) (hq : q ∈ st.pool) :
    p = q ↔ ∀ a, (unfold st.store p).eval a = (unfold st.store q).eval a := by
  obtain ⟨_, _, _, hwf, hs, _, hv⟩ := store_run_refines CS lvl inj fuel n ops st hrun
  rw [canonicity lvl inj (hwf p hp) (hwf q hq)]
  exact (unfold_injective hs (hv p hp) (hv q hq)).symm

/-- the same against the specification, by pool index: entries `i` and `j` are the same reference
iff the specification's Boolean functions `i` and `j` are equal -/
theorem store_eq_iff_spec (CS : CacheS) (lvl : Nat → Nat) (inj : ∀ x y, lvl x = lvl y → x = y)
    (fuel n : Nat) (ops : List Op) (st : StS CS)
    (hrun : runS CS lvl fuel (StS.init CS n) ops = some st) :
    ∃ sp, specRun (n, []) ops = some sp ∧ sp.2.length = st.pool.length ∧
      ∀ i j (hi : i < st.pool.length) (hj : j < st.pool.length) (hi' : i < sp.2.length)
        (hj' : j < sp.2.length), st.pool[i] = st.pool[j] ↔ sp.2[i] = sp.2[j] := by
  obtain ⟨sp, hsp, rfl, hwf, hs, _, hv⟩ := store_run_refines CS lvl inj fuel n ops st hrun
  refine ⟨_, hsp, by simp, ?_⟩
  intro i j hi hj hi' hj'
  have mi := List.getElem_mem hi
  have mj := List.getElem_mem hj
  simp only [List.getElem_map]
  rw [← unfold_injective hs (hv _ mi) (hv _ mj), ← canonicity lvl inj (hwf _ mi) (hwf _ mj)]
  exact ⟨fun h => funext h, fun h a => congrFun h a⟩

/-- the table stays reduced along every program: every stored node has `lo ≠ hi` and a regular,
non-false high edge -/
theorem store_red_of_run (CS : CacheS) (lvl : Nat → Nat) (fuel : Nat) :
    ∀ (ops : List Op) (st st' : StS CS), StoreRed st.store → runS CS lvl fuel st ops = some st' →
      StoreRed st'.store
  | [], st, st', hr, hrun => by
    simp only [runS, Option.some.injEq] at hrun; subst hrun; exact hr
  | op :: ops, st, st', hr, hrun => by
    simp only [runS] at hrun
    split at hrun
    · cases hrun
    · rename_i st1 h1
      refine store_red_of_run CS lvl fuel ops st1 st' ?_ hrun
      have hite : ∀ {f g h a}, iteS CS lvl fuel (st.store, st.cache) f g h = some a → StoreRed a.1.1 :=
        fun h => iteS_red CS lvl fuel _ _ _ _ _ _ hr h
      cases op with
      | const b => simp only [stepS, Option.some.injEq] at h1; subst h1; exact hr
      | var x pol =>
        simp only [stepS] at h1
        split at h1
        · simp only [Option.some.injEq] at h1; subst h1; exact varS_red hr x pol
        · cases h1
      | newVar pol => simp only [stepS, Option.some.injEq] at h1; subst h1; exact varS_red hr _ pol
      | neg i =>
        simp only [stepS, Option.map_eq_some_iff] at h1
        obtain ⟨p, _, rfl⟩ := h1; exact hr
      | and i j =>
        simp only [stepS] at h1
        split at h1
        · simp only [Option.map_eq_some_iff] at h1
          obtain ⟨a, ha, rfl⟩ := h1; exact hite ha
        · cases h1
      | or i j =>
        simp only [stepS] at h1
        split at h1
        · simp only [Option.map_eq_some_iff] at h1
          obtain ⟨a, ha, rfl⟩ := h1; exact orS_red CS lvl fuel (st := (st.store, st.cache)) hr ha
        · cases h1
      | xor i j =>
        simp only [stepS] at h1
        split at h1
        · simp only [Option.map_eq_some_iff] at h1
          obtain ⟨a, ha, rfl⟩ := h1; exact hite ha
        · cases h1
      | iff i j =>
        simp only [stepS] at h1
        split at h1
        · simp only [Option.map_eq_some_iff] at h1
          obtain ⟨a, ha, rfl⟩ := h1; exact hite ha
        · cases h1
      | ite i j k =>
        simp only [stepS] at h1
        split at h1
        · simp only [Option.map_eq_some_iff] at h1
          obtain ⟨a, ha, rfl⟩ := h1; exact hite ha
        · cases h1
      | andLst is =>
        simp only [stepS] at h1
        split at h1
        · simp only [Option.map_eq_some_iff] at h1
          obtain ⟨a, ha, rfl⟩ := h1; exact andLstS_red CS lvl fuel _ (st := (st.store, st.cache)) hr ha
        · cases h1
      | orLst is =>
        simp only [stepS] at h1
        split at h1
        · simp only [Option.map_eq_some_iff] at h1
          obtain ⟨a, ha, rfl⟩ := h1; exact orLstS_red CS lvl fuel _ (st := (st.store, st.cache)) hr ha
        · cases h1
      | cond i x b =>
        simp only [stepS] at h1
        split at h1
        · simp only [Option.map_eq_some_iff] at h1
          obtain ⟨p, _, rfl⟩ := h1; exact condS_red lvl hr p x b
        · cases h1
      | condModel i m =>
        simp only [stepS] at h1
        split at h1
        · simp only [Option.map_eq_some_iff] at h1
          obtain ⟨p, _, rfl⟩ := h1; exact condModelS_red lvl m hr p
        · cases h1
      | exist i x =>
        simp only [stepS] at h1
        split at h1
        · split at h1
          · simp only [Option.map_eq_some_iff] at h1
            obtain ⟨a, ha, rfl⟩ := h1; exact existsS_red CS lvl fuel (st := (st.store, st.cache)) hr ha
          · cases h1
        · cases h1
      | compose i x j =>
        simp only [stepS] at h1
        split at h1
        · split at h1
          · simp only [Option.map_eq_some_iff] at h1
            obtain ⟨a, ha, rfl⟩ := h1; exact composeS_red CS lvl fuel (st := (st.store, st.cache)) hr ha
          · cases h1
        · cases h1

/-- **the invariants of the unique table, flat**: after any returning program from the initial
builder (any lawful cache, any level map), children are stored at smaller indices than their
parent, no node is stored twice, every stored node has distinct children and a regular non-false
high edge, and every reference handed out points into the table -/
theorem store_invariants (CS : CacheS) (lvl : Nat → Nat) (fuel n : Nat) (ops : List Op) (st : StS CS)
    (hrun : runS CS lvl fuel (StS.init CS n) ops = some st) :
    (∀ i nd, nodeAt st.store i = some nd →
      (∀ j, nd.lo.idx? = some j → j < i) ∧ (∀ j, nd.hi.idx? = some j → j < i)) ∧
    (∀ i j nd, nodeAt st.store i = some nd → nodeAt st.store j = some nd → i = j) ∧
    (∀ nd ∈ st.store, nd.lo ≠ nd.hi ∧ nd.hi.isNeg = false ∧ nd.hi ≠ .fls) ∧
    (∀ p ∈ st.pool, p.ValidIn st.store) ∧
    (∀ p ∈ st.pool, (unfold st.store p).red) := by
  obtain ⟨⟨hs, _, hp⟩, _⟩ := old_refs_stable CS lvl fuel ops _ st (invS_init CS n) hrun
  have hr := store_red_of_run CS lvl fuel ops _ st storeRed_nil hrun
  exact ⟨fun i nd h => hs.child_lt h, fun i j nd h1 h2 => hs.nodup h1 h2, hr, hp,
    fun p h => unfold_red hs hr _ (hp p h) rfl⟩

/-! ## non-vacuity -/
section demo

/-- the demo program of C01 (every operation of the language, three variables), followed by
three more routes to `x0 ∧ x1` (entries 3 and 7 of the C01 pool): `and x1 x0`, `ite x1 x0 ⊥`,
`and_lst [x1, x0]` -/
def demoProgS : List Op := demoProg ++ [.and 1 0, .ite 1 0 16, .andLst [1, 0]]

/-- the store-level builder with the list-backed cache returns on it: the unique table holds
15 nodes, 20 references were handed out, one variable was added, the apply cache was used -/
example : (runS ListCacheS id 20 (StS.init ListCacheS 3) demoProgS).map
    (fun st => (st.store.length, st.pool.length, st.numVars, decide (0 < st.cache.length))) =
    some (15, 20, 4, true) := by decide

/-- the references handed out (indices into the table): `x0 ∧ x1` is `Reg(3)` by all five routes
(entries 3, 7, 17, 18, 19), `¬x2` is `Compl(2)` by both routes (entries 2, 6) -/
example : (runS ListCacheS id 20 (StS.init ListCacheS 3) demoProgS).map (·.pool) =
    some [.reg 0, .reg 1, .compl 2, .reg 3, .reg 5, .reg 6, .compl 2, .reg 3, .compl 9, .tru,
      .reg 10, .reg 1, .compl 12, .reg 13, .compl 3, .reg 14, .fls, .reg 3, .reg 3, .reg 3] := by
  decide

/-- unfolded, the first 17 entries are the pool of C01's demo, tree by tree -/
example : (runS ListCacheS id 20 (StS.init ListCacheS 3) demoProgS).map
    (fun st => (st.pool.map (unfold st.store)).take 17) = some demoPool := by decide

/-- the unfolded store-level pool IS the pool of the tree-level model run with its list-backed
cache on the same program (lockstep, checked by evaluation) -/
example : (runS ListCacheS id 20 (StS.init ListCacheS 3) demoProgS).map
      (fun st => st.pool.map (unfold st.store)) =
    (run ListCache id 20 (St.init ListCache 3) demoProgS).map (·.pool) := by decide

/-- the final table satisfies the invariant and is reduced -/
example : ∃ st, runS ListCacheS id 20 (StS.init ListCacheS 3) demoProgS = some st ∧
    InvS st ∧ StoreRed st.store := by
  cases h : runS ListCacheS id 20 (StS.init ListCacheS 3) demoProgS with
  | none => exact absurd h (by decide)
  | some st =>
    exact ⟨st, rfl, (old_refs_stable ListCacheS id 20 demoProgS _ st (invS_init _ 3) h).1,
      store_red_of_run ListCacheS id 20 demoProgS _ st storeRed_nil h⟩

/-- instance of `store_run_refines` and `store_eq_iff_sem` (`id` is injective) -/
example : ∃ st sp, runS ListCacheS id 20 (StS.init ListCacheS 3) demoProgS = some st ∧
    specRun (3, []) demoProgS = some sp ∧
    sp = (st.numVars, st.pool.map fun r => den (unfold st.store r)) ∧
    ∀ p ∈ st.pool, ∀ q ∈ st.pool,
      (p = q ↔ ∀ a, (unfold st.store p).eval a = (unfold st.store q).eval a) := by
  cases h : runS ListCacheS id 20 (StS.init ListCacheS 3) demoProgS with
  | none => exact absurd h (by decide)
  | some st =>
    obtain ⟨sp, h1, h2, _⟩ := store_run_refines ListCacheS id (fun _ _ e => e) 20 3 demoProgS st h
    exact ⟨st, sp, rfl, h1, h2, fun p hp q hq =>
      store_eq_iff_sem ListCacheS id (fun _ _ e => e) 20 3 demoProgS st h hp hq⟩

/-- rejected calls return `none`: label outside the order, index outside the pool, no fuel -/
example : runS ListCacheS id 20 (StS.init ListCacheS 3) [.var 3 true] = none := by decide
example : runS ListCacheS id 20 (StS.init ListCacheS 3) [.var 0 true, .and 0 1] = none := by decide
example : runS ListCacheS id 1 (StS.init ListCacheS 3) [.var 0 true, .var 1 true, .and 0 1] = none := by
  decide
example : runS ListCacheS id 20 (StS.init ListCacheS 3) [.var 0 true, .cond 0 3 true] = none := by decide

/-- the never-storing cache returns as well (with enough fuel) and hands out the same references -/
example : (runS NoCacheS id 20 (StS.init NoCacheS 3) demoProgS).map (·.pool) =
    (runS ListCacheS id 20 (StS.init ListCacheS 3) demoProgS).map (·.pool) := by decide

/-- the reversed order `2 < 1 < 0` also returns; the table is different (`x0 ∧ x1` is rooted at
`x1`) but `x0 ∧ x1` is again one reference by all five routes -/
example : (runS ListCacheS (fun v => 10 - v) 20 (StS.init ListCacheS 3) demoProgS).map
    (fun st => (st.pool[3]?.map (unfold st.store),
      [7, 17, 18, 19].map fun j => st.pool[3]? == st.pool[j]?)) =
    some (some (.node false 1 .fls (.node false 0 .fls .tru)), [true, true, true, true]) := by decide

end demo

#print axioms unfold_injective
#print axioms iteS_refines_nocache
#print axioms iteS_refines_lawful
#print axioms stepS_refines
#print axioms runS_refines
#print axioms old_refs_stable
#print axioms store_run_tree_nocache
#print axioms store_run_tree
#print axioms store_run_refines
#print axioms store_eq_iff_sem
#print axioms store_eq_iff_spec
#print axioms store_red_of_run
#print axioms store_invariants
end BddStore
