import RsddModel.Props.TieTables
import RsddModel.Lemmas.TieTablesAux
import RsddModel.Props.C02Table
import RsddModel.Props.C16
/-!
# Source-level corollaries (translator route): the two hash tables

The key theorems of `Props/C02Table.lean` (robin-hood unique table) and `Props/C16.lean` (lossy
cache `Lru`) restated for the definitions REGENERATED from the Rust text
(`Model/GenTables.lean`, rewritten by `tools/gen_tables.py` on every run).  Every proof rewrites
with the tie theorems of `Props/TieTables.lean` and `exact`s the existing theorem about the
hand-written model; nothing is re-proved.  So the properties are statements about what the
source says now (under the trusted mapping in the header of `tools/gen_tables.py`).

Reading of the statements
* the Rust `get_or_insert_by_hash` returns the table and the arena index only (no "was a hit"
  flag): "hit" is read off the tied components (`k ∈ ks`, arena unchanged).
* `equality_by_hash = false`, `extra = 0` (the model's default fuel), `hashOf k` passed for `k`.
* `Lru::insert` is open in the `grow` it calls (mutual recursion in the Rust).  The theorems
  hold for every partner `g` with `GrowOK hashOf g` (`g` agrees with the model's `grow` on tables
  satisfying the slot invariant); `growOK_gen` / `growOK_rust` show that the regenerated `grow`
  is such a partner — with inner insertions `insertNoGrow` unconditionally, and with the
  regenerated full `insert` as inner insertion when `GROW_RATIO = num/den ≥ 1/2`.
-/
namespace TieTablesSource
open TieTables

/-! ## `src/backing_store/bump_table.rs` -/

/-- one call `get_or_insert_by_hash(hashOf k, k, false)` of the regenerated code: the new table -/
def step (num den : Nat) (hashOf : Nat → Nat) (t : RH.Tbl) (k : Nat) : RH.Tbl :=
  (Gen.RH.getOrInsertByHash num den 0 t (hashOf k) k false).1

/-- the table after a history of calls of the regenerated `get_or_insert_by_hash` -/
def run (num den : Nat) (hashOf : Nat → Nat) (t : RH.Tbl) (ks : List Nat) : RH.Tbl :=
  ks.foldl (step num den hashOf) t

/-- the regenerated call, as the triple of the model with its hit flag -/
theorem goi_eq (num den : Nat) (t : RH.Tbl) (h k : Nat) :
    Gen.RH.getOrInsertByHash num den 0 t h k false
      = ((RH.getOrInsert ⟨num, den⟩ t h k).1, (RH.getOrInsert ⟨num, den⟩ t h k).2.1) :=
  rh_getOrInsertByHash num den 0 t h k

/-- a history through the regenerated code is a history through the model -/
theorem run_eq (num den : Nat) (hashOf : Nat → Nat) (t : RH.Tbl) (ks : List Nat) :
    run num den hashOf t ks = RH.run ⟨num, den⟩ hashOf t ks := by
  induction ks generalizing t with
  | nil => rfl
  | cons k ks ih =>
    simp only [run, RH.run, List.foldl_cons] at ih ⊢
    have : step num den hashOf t k = RH.step ⟨num, den⟩ hashOf t k := by
      simp only [step, RH.step, goi_eq]
    rw [this]; exact ih _

/-- **the regenerated `get_or_insert_by_hash` refines find-or-insert on an append-only set across
growth** (source form of `C02Table.table_refines_set`): after any history on a fresh table the
returned index holds `k`; a call for a key asked before changes nothing in the arena, a call for a
new key appends exactly `k` at the returned index; the arena only grows at the end; the key set
is `ks ∪ {k}`; the table invariant holds -/
theorem table_refines_set_source (hashOf : Nat → Nat) {num den : Nat}
    (hlf : (⟨num, den⟩ : RH.LoadFactor).Valid) {cap : Nat} (hc : 0 < cap) (ks : List Nat) (k : Nat) :
    let prev := run num den hashOf (Gen.RH.verifWithCapacity cap) ks
    let r := Gen.RH.getOrInsertByHash num den 0 prev (hashOf k) k false
    r.1.keys[r.2]? = some k ∧
    (k ∈ ks → r.1.keys = prev.keys) ∧
    (k ∉ ks → r.1.keys = prev.keys ++ [k] ∧ r.2 = prev.keys.length) ∧
    prev.keys <+: r.1.keys ∧
    (∀ k', k' ∈ r.1.keys ↔ k' ∈ ks ∨ k' = k) ∧
    RH.RHInv hashOf r.1 := by
  intro prev r
  have hp : prev = RH.run ⟨num, den⟩ hashOf (RH.mk cap) ks := by
    show run num den hashOf (Gen.RH.verifWithCapacity cap) ks = _
    rw [run_eq, rh_verifWithCapacity]
  have hr : r = ((RH.getOrInsert ⟨num, den⟩ prev (hashOf k) k).1,
      (RH.getOrInsert ⟨num, den⟩ prev (hashOf k) k).2.1) := goi_eq ..
  rw [hr, hp]
  obtain ⟨h1, h2, h3, h4, h5, h6, h7⟩ :=
    C02Table.table_refines_set hashOf hlf hc ks k
      (t' := (RH.getOrInsert ⟨num, den⟩ (RH.run ⟨num, den⟩ hashOf (RH.mk cap) ks) (hashOf k) k).1)
      (i := (RH.getOrInsert ⟨num, den⟩ (RH.run ⟨num, den⟩ hashOf (RH.mk cap) ks) (hashOf k) k).2.1)
      (found := (RH.getOrInsert ⟨num, den⟩ (RH.run ⟨num, den⟩ hashOf (RH.mk cap) ks) (hashOf k) k).2.2)
      rfl
  refine ⟨h2, fun hk => h3 (h1.2 hk), fun hk => h4 ?_, h5, h6, h7⟩
  cases hf : (RH.getOrInsert ⟨num, den⟩ (RH.run ⟨num, den⟩ hashOf (RH.mk cap) ks) (hashOf k) k).2.2 with
  | false => rfl
  | true => exact absurd (h1.1 hf) hk

/-- the same from the table `new()` builds (`DEFAULT_SIZE` slots, as the source says now) -/
theorem table_refines_set_source_new (hashOf : Nat → Nat) {num den : Nat}
    (hlf : (⟨num, den⟩ : RH.LoadFactor).Valid) (ks : List Nat) (k : Nat) :
    let prev := run num den hashOf Gen.RH.new ks
    let r := Gen.RH.getOrInsertByHash num den 0 prev (hashOf k) k false
    r.1.keys[r.2]? = some k ∧ (k ∈ ks → r.1.keys = prev.keys) ∧
    (k ∉ ks → r.1.keys = prev.keys ++ [k] ∧ r.2 = prev.keys.length) ∧
    (∀ k', k' ∈ r.1.keys ↔ k' ∈ ks ∨ k' = k) := by
  have h := table_refines_set_source hashOf hlf (cap := 131072) (by decide) ks k
  have e : Gen.RH.verifWithCapacity 131072 = Gen.RH.new := by
    rw [rh_verifWithCapacity, rh_new]
  rw [e] at h
  exact ⟨h.1, h.2.1, h.2.2.1, h.2.2.2.2.1⟩

/-- **no duplicates, ever** (source form of `C02Table.table_no_duplicates`): after any history
through the regenerated code the arena holds pairwise distinct keys, exactly the keys asked for,
and `len` counts them -/
theorem table_no_duplicates_source (hashOf : Nat → Nat) {num den : Nat}
    (hlf : (⟨num, den⟩ : RH.LoadFactor).Valid) {cap : Nat} (hc : 0 < cap) (ks : List Nat) :
    (run num den hashOf (Gen.RH.verifWithCapacity cap) ks).keys.Nodup ∧
    (∀ k, k ∈ (run num den hashOf (Gen.RH.verifWithCapacity cap) ks).keys ↔ k ∈ ks) ∧
    (run num den hashOf (Gen.RH.verifWithCapacity cap) ks).len
      = (run num den hashOf (Gen.RH.verifWithCapacity cap) ks).keys.length := by
  rw [run_eq, rh_verifWithCapacity]
  exact C02Table.table_no_duplicates hashOf hlf hc ks

/-- **indices are stable** (source form of `C02Table.table_index_stable`): the index the
regenerated code returns for `k` at any point of a history is returned again by every later call
for `k`, whatever happened in between (including growths) -/
theorem table_index_stable_source (hashOf : Nat → Nat) {num den : Nat}
    (hlf : (⟨num, den⟩ : RH.LoadFactor).Valid) {cap : Nat} (hc : 0 < cap) (ks₁ ks₂ : List Nat) (k : Nat) :
    let r₁ := Gen.RH.getOrInsertByHash num den 0
      (run num den hashOf (Gen.RH.verifWithCapacity cap) ks₁) (hashOf k) k false
    (Gen.RH.getOrInsertByHash num den 0 (run num den hashOf r₁.1 ks₂) (hashOf k) k false).2 = r₁.2 := by
  intro r₁
  have hr : r₁ = ((RH.getOrInsert ⟨num, den⟩ (RH.run ⟨num, den⟩ hashOf (RH.mk cap) ks₁) (hashOf k) k).1,
      (RH.getOrInsert ⟨num, den⟩ (RH.run ⟨num, den⟩ hashOf (RH.mk cap) ks₁) (hashOf k) k).2.1) := by
    show Gen.RH.getOrInsertByHash _ _ _ _ _ _ _ = _
    rw [goi_eq, run_eq, rh_verifWithCapacity]
  rw [hr, goi_eq, run_eq]
  have := C02Table.table_index_stable hashOf hlf hc ks₁ ks₂ k
    (t₁ := (RH.getOrInsert ⟨num, den⟩ (RH.run ⟨num, den⟩ hashOf (RH.mk cap) ks₁) (hashOf k) k).1)
    (i := (RH.getOrInsert ⟨num, den⟩ (RH.run ⟨num, den⟩ hashOf (RH.mk cap) ks₁) (hashOf k) k).2.1)
    (b := (RH.getOrInsert ⟨num, den⟩ (RH.run ⟨num, den⟩ hashOf (RH.mk cap) ks₁) (hashOf k) k).2.2) rfl
  dsimp only
  rw [this]

/-- **the regenerated `grow` preserves the table** (source form of `RH.grow_preserves`): invariant,
arena and `len` are kept, the capacity strictly increases -/
theorem grow_preserves_source {hashOf : Nat → Nat} {t : RH.Tbl} (h : RH.RHInv hashOf t) (extra : Nat) :
    RH.RHInv hashOf (Gen.RH.grow extra t) ∧ (Gen.RH.grow extra t).keys = t.keys ∧
    (Gen.RH.grow extra t).len = t.len ∧ t.cap < (Gen.RH.grow extra t).cap := by
  rw [rh_grow]
  exact RH.grow_preserves h extra

/-- **the regenerated `grow` keeps every entry findable**: a key stored at arena index `i` is
found again, at the same index and without allocation, by the regenerated
`get_or_insert_by_hash` on the grown table -/
theorem grow_keeps_findable_source {hashOf : Nat → Nat} {num den : Nat}
    (hlf : (⟨num, den⟩ : RH.LoadFactor).Valid) {t : RH.Tbl} (h : RH.RHInv hashOf t) (extra : Nat)
    {i k : Nat} (hik : t.keys[i]? = some k) :
    (Gen.RH.getOrInsertByHash num den 0 (Gen.RH.grow extra t) (hashOf k) k false).2 = i ∧
    (Gen.RH.getOrInsertByHash num den 0 (Gen.RH.grow extra t) (hashOf k) k false).1.keys = t.keys := by
  rw [goi_eq, rh_grow]
  obtain ⟨g1, g2, _, _⟩ := RH.grow_preserves h extra
  obtain ⟨h1, sp⟩ := RH.getOrInsert_spec hlf g1 (extra := 0) (k := k)
    (t' := (RH.getOrInsert ⟨num, den⟩ (RH.grow t extra) (hashOf k) k).1)
    (i := (RH.getOrInsert ⟨num, den⟩ (RH.grow t extra) (hashOf k) k).2.1)
    (found := (RH.getOrInsert ⟨num, den⟩ (RH.grow t extra) (hashOf k) k).2.2) rfl
  have hmem : k ∈ (RH.grow t extra).keys := by rw [g2]; exact List.mem_iff_getElem?.2 ⟨i, hik⟩
  have hk := (sp.hit_keys (sp.found_iff.2 hmem)).1
  refine ⟨?_, by rw [hk, g2]⟩
  have hidx := sp.index
  rw [hk, g2] at hidx
  exact RH.nodup_index_inj h.nodup hidx hik

/-- **the regenerated `get_by_hash`** (source form of `RH.getByHash_spec`): it only bumps `hits`,
what it returns is the index of a key with that hash, and it returns nothing iff no stored key has
that hash -/
theorem getByHash_spec_source {hashOf : Nat → Nat} {t : RH.Tbl} (h : RH.RHInv hashOf t)
    (hlt : t.len < t.cap) (hash extra : Nat) :
    ((Gen.RH.getByHash extra t hash).1 = t ∨ (Gen.RH.getByHash extra t hash).1 = RH.hit t) ∧
    (∀ i, (Gen.RH.getByHash extra t hash).2 = some i → ∃ k, t.keys[i]? = some k ∧ hashOf k = hash) ∧
    ((Gen.RH.getByHash extra t hash).2 = none ↔ ∀ k ∈ t.keys, hashOf k ≠ hash) := by
  rw [rh_getByHash]
  obtain ⟨a, b, c, _⟩ := RH.getByHash_spec h hlt hash extra
  exact ⟨a, b, c⟩

/-! ## `src/util/lru.rs` -/

section lru
variable {K V : Type}

/-- a `grow` that `Lru::insert` may be linked with: it agrees with the model's `grow` on every
table satisfying the slot invariant -/
def GrowOK (hashOf : K → Nat) (g : Lru.Tbl K V → Lru.Tbl K V) : Prop :=
  ∀ t, Lru.Inv hashOf t → g t = Lru.grow t

/-- the regenerated `grow` (inner insertions by `insertNoGrow`) is such a partner -/
theorem growOK_gen (hashOf : K → Nat) : GrowOK hashOf (Gen.Lru.grow (K := K) (V := V) Lru.insertNoGrow) :=
  fun t _ => by rw [lru_grow]

/-- the regenerated `grow` whose inner insertions are the regenerated full `insert` (as the Rust
says) is such a partner when `GROW_RATIO = num/den ≥ 1/2` -/
theorem growOK_rust (hashOf : K → Nat) {num den : Nat} (hr : den ≤ 2 * num) :
    GrowOK hashOf (Gen.Lru.grow (K := K) (V := V) (Gen.Lru.insert num den Lru.grow)) :=
  fun _ hi => TieTablesAux.lru_grow_knot hr hi.1

/-- the table after a history of regenerated `insert`s into the table `Lru::new(cap)` builds -/
def lruRun (hashOf : K → Nat) (num den : Nat) (g : Lru.Tbl K V → Lru.Tbl K V) (cap : Nat)
    (ops : List (K × V)) : Lru.Tbl K V :=
  ops.foldl (fun t kv => Gen.Lru.insert num den g t kv.1 kv.2 (hashOf kv.1)) (Gen.Lru.new cap)

/-- a history through the regenerated code is a history through the model -/
theorem lruRun_eq (hashOf : K → Nat) (num den : Nat) {g : Lru.Tbl K V → Lru.Tbl K V}
    (hg : GrowOK hashOf g) (cap : Nat) (ops : List (K × V)) :
    lruRun hashOf num den g cap ops = Lru.run hashOf num den cap ops := by
  have key : ∀ (ops : List (K × V)) (t : Lru.Tbl K V), Lru.Inv hashOf t →
      ops.foldl (fun t kv => Gen.Lru.insert num den g t kv.1 kv.2 (hashOf kv.1)) t
        = Lru.runFrom hashOf num den t ops := by
    intro ops
    induction ops with
    | nil => intro t _; rfl
    | cons kv ops ih =>
      intro t hi
      have e : Gen.Lru.insert num den g t kv.1 kv.2 (hashOf kv.1)
          = Lru.insert num den t kv.1 kv.2 (hashOf kv.1) := by
        rw [lru_insert, hg t hi]; rfl
      simp only [List.foldl_cons, Lru.runFrom, e]
      exact ih _ (Lru.inv_insert num den hi kv.1 kv.2)
  show List.foldl _ (Gen.Lru.new cap) ops = _
  rw [lru_new]
  exact key ops _ (Lru.inv_new hashOf cap)

variable [DecidableEq K]

/-- **the regenerated `Lru::insert`/`get` are lawful** (source form of `C16.lru_lawful`): after
any history a `get` returns nothing or the value most recently inserted under exactly that key -/
theorem lru_lawful_source (hashOf : K → Nat) (num den : Nat) {g : Lru.Tbl K V → Lru.Tbl K V}
    (hg : GrowOK hashOf g) (cap : Nat) (ops : List (K × V)) (k : K) :
    Gen.Lru.get (lruRun hashOf num den g cap ops) k (hashOf k) = none ∨
    Gen.Lru.get (lruRun hashOf num den g cap ops) k (hashOf k) = Lru.lastInserted ops k := by
  rw [lruRun_eq hashOf num den hg, lru_get]
  exact C16.lru_lawful hashOf num den cap ops k

/-- **never a foreign or outdated value** (source form of `C16.lru_never_foreign`): what the
regenerated `get k` returns is the value of a pair `(k, v)` of the history after which no
insertion under `k` occurs -/
theorem lru_never_foreign_source (hashOf : K → Nat) (num den : Nat) {g : Lru.Tbl K V → Lru.Tbl K V}
    (hg : GrowOK hashOf g) (cap : Nat) (ops : List (K × V)) (k : K) (v : V)
    (h : Gen.Lru.get (lruRun hashOf num den g cap ops) k (hashOf k) = some v) :
    ∃ pre post, ops = pre ++ (k, v) :: post ∧ ∀ kv ∈ post, kv.1 ≠ k := by
  rw [lruRun_eq hashOf num den hg, lru_get] at h
  exact C16.lru_never_foreign hashOf num den cap ops k v h

/-- the raw API (source form of `C16.lru_never_foreign_raw`): on any table and for any hash the
regenerated `get` returns the value of an element stored under the asked key -/
theorem lru_never_foreign_raw_source (t : Lru.Tbl K V) (k : K) (h : Nat) (v : V)
    (hg : Gen.Lru.get t k h = some v) : ∃ e, some e ∈ t.tbl ∧ e.key = k ∧ e.val = v := by
  rw [lru_get] at hg
  exact C16.lru_never_foreign_raw t k h v hg

/-- **growth loses nothing and confuses nothing** (source form of `C16.lru_grow_keeps`), for the
regenerated `grow` with any inner insertion that makes it a `GrowOK` partner -/
theorem lru_grow_keeps_source (hashOf : K → Nat) {g : Lru.Tbl K V → Lru.Tbl K V} (hg : GrowOK hashOf g)
    (t : Lru.Tbl K V) (hi : Lru.Inv hashOf t) (k : K) :
    Gen.Lru.get (g t) k (hashOf k) = Gen.Lru.get t k (hashOf k) ∧ Lru.Inv hashOf (g t) := by
  rw [hg t hi, lru_get]
  exact C16.lru_grow_keeps hashOf t hi k

/-- `lru_grow_keeps_source` for the regenerated `grow` as the Rust says it (inner insertions by the
regenerated full `insert`), `GROW_RATIO = num/den ≥ 1/2` -/
theorem lru_grow_keeps_source_rust (hashOf : K → Nat) {num den : Nat} (hr : den ≤ 2 * num)
    (t : Lru.Tbl K V) (hi : Lru.Inv hashOf t) (k : K) :
    Gen.Lru.get (Gen.Lru.grow (Gen.Lru.insert num den Lru.grow) t) k (hashOf k)
      = Gen.Lru.get t k (hashOf k) ∧
    Lru.Inv hashOf (Gen.Lru.grow (Gen.Lru.insert num den Lru.grow) t) :=
  lru_grow_keeps_source hashOf (growOK_rust hashOf hr) t hi k

/-- the history theorem with the constant of the source (`GROW_RATIO = 7/10`) and the regenerated
`grow` as the Rust says it as partner of the regenerated `insert` -/
theorem lru_lawful_source_7_10 (hashOf : K → Nat) (cap : Nat) (ops : List (K × V)) (k : K) :
    let g := Gen.Lru.grow (K := K) (V := V) (Gen.Lru.insert 7 10 Lru.grow)
    Gen.Lru.get (lruRun hashOf 7 10 g cap ops) k (hashOf k) = none ∨
    Gen.Lru.get (lruRun hashOf 7 10 g cap ops) k (hashOf k) = Lru.lastInserted ops k :=
  lru_lawful_source hashOf 7 10 (growOK_rust hashOf (by decide)) cap ops k

end lru

end TieTablesSource

#print axioms TieTablesSource.run_eq
#print axioms TieTablesSource.table_refines_set_source
#print axioms TieTablesSource.table_refines_set_source_new
#print axioms TieTablesSource.table_no_duplicates_source
#print axioms TieTablesSource.table_index_stable_source
#print axioms TieTablesSource.grow_preserves_source
#print axioms TieTablesSource.grow_keeps_findable_source
#print axioms TieTablesSource.getByHash_spec_source
#print axioms TieTablesSource.growOK_gen
#print axioms TieTablesSource.growOK_rust
#print axioms TieTablesSource.lruRun_eq
#print axioms TieTablesSource.lru_lawful_source
#print axioms TieTablesSource.lru_never_foreign_source
#print axioms TieTablesSource.lru_never_foreign_raw_source
#print axioms TieTablesSource.lru_grow_keeps_source
#print axioms TieTablesSource.lru_grow_keeps_source_rust
#print axioms TieTablesSource.lru_lawful_source_7_10
