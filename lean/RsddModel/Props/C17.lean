import RsddModel.Lemmas.Serialize
/-!
# C17 — parsing and serialisation preserve the formula

Specification: `Spec/Text.lean` (`parseDimacs`, `parseSExp`/`evalSExp`, `variableMapping`), read
directly off the text.  Model: `Model/Serialize.lean` (the glue of `Cnf::from_dimacs`,
`Cnf::to_dimacs`, `LogicalExpr::from_dimacs`, `LogicalExpr::from_sexpr`, and the three
serialisers).  The crates `dimacs`, `serde_sexpr`, `serde_json` are outside the theorems (their
Lean stand-ins are the spec readers and `LogicalSExpr.ofSExp`; the correspondence run compares
them with the real crates).

* DIMACS
  * `dimacs_roundtrip_text`  : the spec reader returns exactly the printed clause lists, for every
    clause list and every comment/header prefix;
  * `dimacs_roundtrip`       : `from_dimacs (header ++ to_dimacs c) = c` for every `c` in the image of
    `Cnf::new` (all values of the Rust type `Cnf` are: the fields are private);
  * `dimacs_roundtrip_sets`  : for an arbitrary clause list, the same clauses as *sets* of literals,
    in the same order;
  * `cnfNew_normal_form`     : `Cnf::new` is idempotent (so its image is the set of its fixed points);
  * `fromDimacs_sem`         : `Cnf::from_dimacs` = `Cnf::new` of the text's clauses, same models under
    label = number − 1;
  * `exprFromDimacs_sem`     : `LogicalExpr::from_dimacs` has the models of the text under
    label = number (the numbering its doc-test documents — **not** that of `Cnf::from_dimacs`);
  * `exprFromDimacs_panics_iff` : it panics exactly on texts with no clause or with an empty clause.
* s-expressions
  * `fromSexpr_sem`     : the indexed expression under `a` evaluates like the text under
    `name ↦ a (variableMapping name)`;
  * `fromSexpr_total`   : no panic on constant-free formulas;
  * `variableMapping_lex`, `variableMapping_inj`, `fromSexpr_models` : the numbering is increasing in
    the lexicographic order, injective on the names of the text, hence every assignment of names is
    induced by an indexed one (same models, both directions).
* serialisers
  * `serBdd_sem`, `serSdd_sem` : the node table read naively (pointer = node, negated if `compl`)
    from the root denotes the diagram's function — every diagram: shared nodes, complemented roots
    and edges, constants, literals;
  * `serBdd_postorder`, `serSdd_postorder` : children have smaller indices;
  * `serVtree_iso` : the serialised vtree read back is the vtree (and conversely).
-/
namespace C17
open Spec Spec.Text Ser

/-! ## DIMACS -/

/-- the `p cnf V C` line -/
def dimacsHeader (v c : Nat) : String :=
  String.ofList ('p' :: ([' ', 'c', 'n', 'f', ' '] ++ Nat.toDigits 10 v ++ ' ' :: Nat.toDigits 10 c))

example : dimacsHeader 3 2 = "p cnf 3 2" := by decide

/-- the header line carries no clause -/
theorem dimacsHeader_ok (v c : Nat) : HeaderOnly (dimacsHeader v c).toList := by
  rw [dimacsHeader, String.toList_ofList]
  apply headerOnly_p
  intro ch hc
  simp only [List.mem_append, List.mem_cons, List.not_mem_nil, or_false] at hc
  have hd : ∀ n, ch ∈ Nat.toDigits 10 n → ch ≠ '\n' := fun n h e => by
    have := Nat.isDigit_of_mem_toDigits (by decide) (by decide) h
    rw [e] at this; exact absurd this (by decide)
  rcases hc with ((hc | hc | hc | hc | hc) | hc) | hc | hc
  · subst hc; decide
  · subst hc; decide
  · subst hc; decide
  · subst hc; decide
  · subst hc; decide
  · exact hd _ hc
  · subst hc; decide
  · exact hd _ hc

/-- **round trip through the text, spec reader**: any clause lists, any prefix made of comment,
problem and blank lines -/
theorem dimacs_roundtrip_text (cs : Cnf) (pre : String) (hpre : HeaderOnly pre.toList) :
    parseDimacs (pre ++ toDimacs cs) = some cs := by
  rw [parseDimacs, String.toList_append, toDimacs, String.toList_ofList]
  exact parseDimacsChars_toDimacs cs pre.toList hpre

/-- `Cnf::from_dimacs` of a printed CNF is `Cnf::new` of it -/
theorem fromDimacs_toDimacs (cs : Cnf) (pre : String) (hpre : HeaderOnly pre.toList) :
    cnfFromDimacs (pre ++ toDimacs cs) = some (cnfNew cs) := by
  rw [cnfFromDimacs_eq, dimacs_roundtrip_text cs pre hpre]; rfl

/-- `Cnf::new` is idempotent -/
theorem cnfNew_normal_form (cs : Cnf) : cnfNew (cnfNew cs) = cnfNew cs := cnfNew_idem cs

/-- **C17, DIMACS round trip**: printing a CNF (a value built by `Cnf::new`) and parsing it again
returns the same CNF -/
theorem dimacs_roundtrip (cs0 : Cnf) (pre : String) (hpre : HeaderOnly pre.toList) :
    cnfFromDimacs (pre ++ toDimacs (cnfNew cs0)) = some (cnfNew cs0) := by
  rw [fromDimacs_toDimacs _ pre hpre, cnfNew_idem]

/-- the same with the concrete header and a fixed-point hypothesis -/
theorem dimacs_roundtrip_header (cs : Cnf) (hn : cnfNew cs = cs) (v c : Nat) :
    cnfFromDimacs (dimacsHeader v c ++ toDimacs cs) = some cs := by
  rw [fromDimacs_toDimacs _ _ (dimacsHeader_ok v c), hn]

/-- **arbitrary clause lists: the same clause sets**, clause by clause -/
theorem dimacs_roundtrip_sets (cs : Cnf) (pre : String) (hpre : HeaderOnly pre.toList) :
    ∃ norm : Clause → Clause, cnfFromDimacs (pre ++ toDimacs cs) = some (cs.map norm) ∧
      ∀ c l, l ∈ norm c ↔ l ∈ c :=
  ⟨fun c => dedup (sortByLabel c), fromDimacs_toDimacs cs pre hpre,
    fun c l => mem_cnfNew_clause c l⟩

/-- **`Cnf::from_dimacs` keeps the models of the text** (label = number − 1): it answers iff the
text is readable, with `Cnf::new` of the text's clauses, which has the same models -/
theorem fromDimacs_sem (s : String) :
    cnfFromDimacs s = (parseDimacs s).map cnfNew ∧
    ∀ c0, parseDimacs s = some c0 → ∀ a, cnfSat a (cnfNew c0) = cnfSat a c0 :=
  ⟨cnfFromDimacs_eq s, fun c0 _ a => cnfSat_cnfNew a c0⟩

/-- the glue alone, over whatever clauses the `dimacs` crate returns -/
theorem fromDimacsClauses_sem (zs : List (List Int)) (a : Assign) :
    cnfSat a (fromDimacsClauses zs) = cnfSat a (cnfOfInts zs) := Ser.fromDimacsClauses_sem zs a

theorem dimacsInts_nonzero (s : String) (zs : List (List Int)) (h : dimacsInts s = some zs) :
    ∀ c ∈ zs, ∀ z ∈ c, z ≠ 0 := by
  simp only [dimacsInts, dimacsIntsChars, Option.map_eq_some_iff] at h
  obtain ⟨ws, _, rfl⟩ := h
  exact clausesOf_nonzero ws

/-- **`LogicalExpr::from_dimacs` keeps the models of the text under label = number** -/
theorem exprFromDimacs_sem (s : String) (e : LogicalExpr) (h : exprFromDimacs s = some e) :
    ∃ c0, parseDimacs s = some c0 ∧ ∀ a, e.eval a = cnfSat (shift a) c0 := by
  simp only [exprFromDimacs, Option.bind_eq_some_iff] at h
  obtain ⟨zs, hz, he⟩ := h
  refine ⟨cnfOfInts zs, ?_, fun a =>
    exprFromDimacsClauses_sem zs e a (dimacsInts_nonzero s zs hz) he⟩
  simp only [dimacsInts] at hz
  simp [parseDimacs, parseDimacsChars, hz]

theorem mapM_popFold_none : ∀ (zs : List (List Int)),
    zs.mapM (fun c => popFold LogicalExpr.or (c.map exprLitOfSigned)) = none ↔ [] ∈ zs
  | [] => by simp
  | c :: r => by
    have ih := mapM_popFold_none r
    rw [List.mapM_cons]
    cases hc : popFold LogicalExpr.or (c.map exprLitOfSigned) with
    | none =>
      have : c = [] := by simpa using (popFold_none _ _).mp hc
      simp [this]
    | some e =>
      have hne : c ≠ [] := by
        intro h0; subst h0; simp [popFold] at hc
      cases hr : r.mapM (fun c => popFold LogicalExpr.or (c.map exprLitOfSigned)) with
      | none =>
        have := ih.mp hr
        simp [this]
      | some es =>
        have h1 : ¬ [] ∈ r := fun h => by rw [ih.mpr h] at hr; cases hr
        simp only [Option.bind_eq_bind, Option.bind_some, Option.pure_def, reduceCtorEq,
          List.mem_cons, false_iff, not_or]
        exact ⟨fun h => hne h.symm, h1⟩

theorem mapM_popFold_length : ∀ (zs : List (List Int)) (cls : List LogicalExpr),
    zs.mapM (fun c => popFold LogicalExpr.or (c.map exprLitOfSigned)) = some cls →
    cls.length = zs.length
  | [], cls, hm => by simp at hm; subst hm; rfl
  | c :: r, cls, hm => by
    rw [List.mapM_cons] at hm
    cases hc : popFold LogicalExpr.or (c.map exprLitOfSigned) with
    | none => simp [hc] at hm
    | some e =>
      cases hr : r.mapM (fun c => popFold LogicalExpr.or (c.map exprLitOfSigned)) with
      | none => simp [hc, hr] at hm
      | some es => simp [hc, hr] at hm; subst hm; simp [mapM_popFold_length r es hr]

/-- `LogicalExpr::from_dimacs` panics (`Vec::pop().unwrap()` on an empty vector) exactly when the
text has no clause or an empty clause -/
theorem exprFromDimacs_panics_iff (s : String) (zs : List (List Int)) (hz : dimacsInts s = some zs) :
    exprFromDimacs s = none ↔ zs = [] ∨ [] ∈ zs := by
  simp only [exprFromDimacs, hz, Option.bind_some, exprFromDimacsClauses]
  cases hm : zs.mapM (fun c => popFold LogicalExpr.or (c.map exprLitOfSigned)) with
  | none =>
    simp [(mapM_popFold_none zs).mp hm]
  | some cls =>
    have h1 : ¬ [] ∈ zs := fun h => by rw [(mapM_popFold_none zs).mpr h] at hm; cases hm
    have hl : cls.length = zs.length := mapM_popFold_length zs cls hm
    simp only [Option.bind_eq_bind, Option.bind_some, popFold_none, h1, or_false]
    constructor
    · intro h; subst h; simpa using hl.symm
    · intro h; subst h; simpa using hl

/-! ## s-expressions -/

/-- **C17, s-expressions**: the indexed expression `from_sexpr` builds evaluates, under `a`, like
the text under the assignment of names `x ↦ a (variableMapping x)` -/
theorem fromSexpr_sem (t : SExp) (e : LogicalSExpr) (le : LogicalExpr)
    (ht : LogicalSExpr.ofSExp t = some e) (hle : fromSexpr e = some le) (a : Assign) :
    evalSExp (nameAssign t a) t = some (le.eval a) := by
  obtain ⟨h1, h2, _⟩ := ofSExp_spec (nameAssign t a) t e ht
  rw [h1, fromSexpr_evalNames e le a hle]
  unfold nameAssign variableMapping
  rw [h2]

/-- no `todo!()` and no failed `unwrap` on a constant-free formula -/
theorem fromSexpr_total (t : SExp) (e : LogicalSExpr) (ht : LogicalSExpr.ofSExp t = some e)
    (hc : Spec.Text.hasConst t = false) : (fromSexpr e).isSome := by
  obtain ⟨_, _, h3⟩ := ofSExp_spec (fun _ => false) t e ht
  exact Ser.fromSexpr_total e (h3 ▸ hc)

/-- the model's `variable_mapping` is the documented numbering -/
theorem variableMapping_model (t : SExp) (e : LogicalSExpr) (ht : LogicalSExpr.ofSExp t = some e)
    (x : String) (hx : x ∈ namesOf t) :
    mapGet e.variableMapping x = some (variableMapping t x) := by
  obtain ⟨_, h2, _⟩ := ofSExp_spec (fun _ => false) t e ht
  rw [variableMapping, h2]
  exact variableMapping_spec e x (h2 ▸ hx)

theorem variableMapping_lex (t : SExp) (x y : String) (hx : x ∈ namesOf t) (hxy : x < y) :
    variableMapping t x < variableMapping t y := indexIn_lt_of_lt _ x y hx hxy

theorem variableMapping_inj (t : SExp) (x y : String) (hx : x ∈ namesOf t) (hy : y ∈ namesOf t)
    (h : variableMapping t x = variableMapping t y) : x = y := indexIn_inj _ x y hx hy h

/-- **same models, other direction**: every assignment of names is induced by an indexed
assignment, under which the built expression has the value of the text -/
theorem fromSexpr_models (t : SExp) (e : LogicalSExpr) (le : LogicalExpr)
    (ht : LogicalSExpr.ofSExp t = some e) (hle : fromSexpr e = some le) (ρ : NameAssign) :
    ∃ a, (∀ x ∈ namesOf t, a (variableMapping t x) = ρ x) ∧ evalSExp ρ t = some (le.eval a) := by
  refine ⟨assignOfNames (namesOf t) ρ, fun x hx => assignOfNames_spec _ ρ x hx, ?_⟩
  obtain ⟨h1, h2, _⟩ := ofSExp_spec ρ t e ht
  rw [h1, fromSexpr_evalNames e le _ hle]
  congr 1
  apply evalNames_congr
  intro x hx
  rw [← h2] at hx ⊢
  exact (assignOfNames_spec _ ρ x hx).symm

/-! ## serialisers -/

/-- **C17, BDD tables** -/
theorem serBdd_sem (d : Bdd.Ptr) :
    ∃ r, (serBdd d).roots = [r] ∧ evalBddTable (serBdd d) r = d.eval := by
  refine ⟨(serBddAux d ⟨#[], []⟩).1, rfl, ?_⟩
  funext a
  obtain ⟨r, hr, he⟩ := serBdd_eval d a
  cases hr; exact he

theorem serBdd_postorder (d : Bdd.Ptr) (i : Nat) (n : SerBdd) (h : (serBdd d).nodes[i]? = some n) :
    BPtrLt n.low i ∧ BPtrLt n.high i := serBdd_wf d i n h

/-- **C17, SDD tables** -/
theorem serSdd_sem (d : Sdd.Ptr) :
    ∃ r, (serSdd d).roots = [r] ∧ evalSddTable (serSdd d) r = d.eval := by
  refine ⟨(serSddAux d ⟨#[], []⟩).1, rfl, ?_⟩
  funext a
  obtain ⟨r, hr, he⟩ := serSdd_eval d a
  cases hr; exact he

theorem serSdd_postorder (d : Sdd.Ptr) (i : Nat) (o : SddOr) (h : (serSdd d).nodes[i]? = some o) :
    ∀ e ∈ o, SPtrLt e.prime i ∧ SPtrLt e.sub i := serSdd_wf d i o h

/-- **C17, vtrees** -/
theorem serVtree_iso (t : Sdd.VTree) : treeOfVtreeTable (serVtree t) = t :=
  treeOfVtreeTable_serVtree t

theorem serVtree_iso' (t : SerVTree) : serVtree (treeOfVtreeTable t) = t :=
  serVtree_treeOfVtreeTable t

/-! ## non-vacuity -/

section Examples

/-- x0 ⊕ x1 with a complemented root, complemented edges and a shared node -/
def xorBdd : Bdd.Ptr := .node true 0 (.node false 1 .fls .tru) (.node true 1 .fls .tru)

example : serBdd xorBdd =
    ⟨#[⟨1, .fls, .tru⟩, ⟨0, .ptr 0 false, .ptr 0 true⟩], [.ptr 1 true]⟩ := by decide
example : (truthTable 2 (evalBddTable (serBdd xorBdd) (.ptr 1 true))) = [true, false, false, true] := by
  decide
example : serBdd .tru = ⟨#[], [.tru]⟩ := by decide
example : serBdd (.node true 3 .fls .tru) = ⟨#[⟨3, .fls, .tru⟩], [.ptr 0 true]⟩ := by decide

def xorSdd : Sdd.Ptr :=
  .dec true 1 [(.lit 0 true, .bdd true 1 2 .tru .fls), (.lit 0 false, .bdd false 1 2 .tru .fls)]

example : serSdd xorSdd =
    ⟨#[[⟨.lit 1 true, .fls⟩, ⟨.lit 1 false, .tru⟩],
       [⟨.lit 0 true, .ptr 0 true⟩, ⟨.lit 0 false, .ptr 0 false⟩]], [.ptr 1 true]⟩ := by decide
example : serSdd (.lit 4 false) = ⟨#[], [.lit 4 false]⟩ := by decide

example : serVtree (.node (.leaf 0) (.node (.leaf 1) (.leaf 2))) =
    .node (.leaf 0) (.node (.leaf 1) (.leaf 2)) := by decide

example : toDimacsChars [[⟨0, true⟩, ⟨1, false⟩], [], [⟨11, false⟩]] = "\n1 -2 0\n 0\n-12 0".toList := by
  decide
example : parseDimacsChars "c x\np cnf 3 2\n1 -2\n 3 0\n-1 0\n".toList =
    some [[⟨0, true⟩, ⟨1, false⟩, ⟨2, true⟩], [⟨0, false⟩]] := by decide
/-- `Cnf::new`: stable sort by label, then adjacent duplicates only -/
example : cnfNew [[⟨2, true⟩, ⟨0, true⟩, ⟨0, false⟩, ⟨0, true⟩, ⟨2, true⟩]] =
    [[⟨0, true⟩, ⟨0, false⟩, ⟨0, true⟩, ⟨2, true⟩]] := by decide
/-- the two DIMACS front ends number variables differently -/
example : fromDimacsClauses [[1, -2]] = [[⟨0, true⟩, ⟨1, false⟩]] := by decide
example : exprFromDimacsClauses [[1, -2]] = some (.or (.lit 2 false) (.lit 1 true)) := by decide
/-- `LogicalExpr::from_dimacs` panics on an empty clause / on no clause -/
example : exprFromDimacsClauses [[]] = none := by decide
example : exprFromDimacsClauses [] = none := by decide

end Examples

end C17

#print axioms C17.dimacsHeader_ok
#print axioms C17.dimacs_roundtrip_text
#print axioms C17.fromDimacs_toDimacs
#print axioms C17.cnfNew_normal_form
#print axioms C17.dimacs_roundtrip
#print axioms C17.dimacs_roundtrip_header
#print axioms C17.dimacs_roundtrip_sets
#print axioms C17.fromDimacs_sem
#print axioms C17.fromDimacsClauses_sem
#print axioms C17.dimacsInts_nonzero
#print axioms C17.exprFromDimacs_sem
#print axioms C17.mapM_popFold_none
#print axioms C17.mapM_popFold_length
#print axioms C17.exprFromDimacs_panics_iff
#print axioms C17.fromSexpr_sem
#print axioms C17.fromSexpr_total
#print axioms C17.variableMapping_model
#print axioms C17.variableMapping_lex
#print axioms C17.variableMapping_inj
#print axioms C17.fromSexpr_models
#print axioms C17.serBdd_sem
#print axioms C17.serBdd_postorder
#print axioms C17.serSdd_sem
#print axioms C17.serSdd_postorder
#print axioms C17.serVtree_iso
#print axioms C17.serVtree_iso'
