import RsddModel.Model.Ffi
import RsddModel.Model.CacheList
import RsddModel.Props.C01
import RsddModel.Props.C02
import RsddModel.Props.C08
import RsddModel.Lemmas.Semirings
/-!
# C18 — the C ABI is a faithful wrapper of the Rust operations

The handle layer adds nothing: a sequence of C calls, projected through "dereference the
handle", is the native builder run of the translated operation sequence (`ffi_step_native`,
`ffi_run_native`), so C01 / C02 / C08 apply verbatim to diagrams built through the C interface
(`ffi_refines`, `ffi_eq_iff_sem`, `ffi_model_count`).  The accessors expose the complement-
adjusted children of the top variable (`ffi_low_high_sem`), and `from_c_parts` truncates at
`MAX_COEFFS` (`fromCParts_spec`).
-/
namespace C18
open Ffi Bdd Spec

/-- one exported call is the native operation on the dereferenced handles -/
theorem ffi_step_native (C : CacheImpl) (lvl : Nat → Nat) (fuel : Nat) (st : Ffi.St C) (c : Call) :
    (Ffi.step C lvl fuel st c).map Ffi.St.toNative = Bdd.step C lvl fuel st.toNative c.toOp := by
  obtain ⟨cache, nv, hs⟩ := st
  cases c <;> simp only [Ffi.step, Bdd.step, Call.toOp, Ffi.St.toNative]
  case tru => simp [Ffi.St.toNative]
  case fls => simp [Ffi.St.toNative]
  case var x p => by_cases h : x < nv <;> simp [h, Ffi.St.toNative]
  case newVar p => simp [Ffi.St.toNative]
  case neg f => cases hs[f]? <;> simp [Ffi.St.toNative]
  case and l r =>
    cases hs[l]? <;> cases hs[r]? <;> simp
    rename_i p q; cases bAnd C lvl fuel cache p q <;> simp [Ffi.St.toNative]
  case or l r =>
    cases hs[l]? <;> cases hs[r]? <;> simp
    rename_i p q; cases bOr C lvl fuel cache p q <;> simp [Ffi.St.toNative]
  case ite f g h =>
    cases hs[f]? <;> cases hs[g]? <;> cases hs[h]? <;> simp
    rename_i p q r; cases Bdd.ite C lvl fuel cache p q r <;> simp [Ffi.St.toNative]
  case compose f l g =>
    by_cases h : l < nv <;> simp [h]
    cases hs[f]? <;> cases hs[g]? <;> simp
    rename_i p q; cases bCompose C lvl fuel cache p l q <;> simp [Ffi.St.toNative]

/-- any sequence of exported calls is the native run of the translated sequence -/
theorem ffi_run_native (C : CacheImpl) (lvl : Nat → Nat) (fuel : Nat) :
    ∀ (cs : List Call) (st : Ffi.St C),
      (Ffi.run C lvl fuel st cs).map Ffi.St.toNative = Bdd.run C lvl fuel st.toNative (cs.map Call.toOp)
  | [], st => by simp [Ffi.run, Bdd.run]
  | c :: cs, st => by
    have h := ffi_step_native C lvl fuel st c
    simp only [Ffi.run, Bdd.run, List.map_cons]
    cases hs : Ffi.step C lvl fuel st c with
    | none => rw [hs] at h; simp at h; rw [← h]; simp
    | some st' =>
      rw [hs] at h; simp at h; rw [← h]
      exact ffi_run_native C lvl fuel cs st'

/-- **diagrams built through the C interface denote the specified functions** -/
theorem ffi_refines (C : CacheImpl) (lvl : Nat → Nat) (inj : ∀ x y, lvl x = lvl y → x = y)
    (fuel n : Nat) (cs : List Call) (st : Ffi.St C)
    (hrun : Ffi.run C lvl fuel (Ffi.St.init C n) cs = some st) :
    ∃ sp, specRun (n, []) (cs.map Call.toOp) = some sp ∧ Rel st.toNative sp ∧ Inv C lvl st.toNative := by
  have h := ffi_run_native C lvl fuel cs (Ffi.St.init C n)
  rw [hrun] at h
  exact run_refines C lvl inj fuel n (cs.map Call.toOp) st.toNative h.symm

/-- **`bdd_eq` on two handles of one manager is semantic equality** -/
theorem ffi_eq_iff_sem (C : CacheImpl) (lvl : Nat → Nat) (inj : ∀ x y, lvl x = lvl y → x = y)
    (fuel n : Nat) (cs : List Call) (st : Ffi.St C)
    (hrun : Ffi.run C lvl fuel (Ffi.St.init C n) cs = some st) {p q : Ptr}
    (hp : p ∈ st.handles) (hq : q ∈ st.handles) :
    bddEq p q = true ↔ ∀ a, p.eval a = q.eval a := by
  have h := ffi_run_native C lvl fuel cs (Ffi.St.init C n)
  rw [hrun] at h
  have := eq_iff_sem C lvl inj fuel n (cs.map Call.toOp) st.toNative h.symm (p := p) (q := q) hp hq
  simpa [bddEq] using this

/-- **`bdd_topvar` / `bdd_low` / `bdd_high`** on a non-constant handle: the children are the two
cofactors with respect to the top variable -/
theorem ffi_low_high_sem (lvl : Nat → Nat) (c : Bool) (v : Nat) (lo hi : Ptr)
    (hwf : WF lvl (.node c v lo hi)) :
    topvar (.node c v lo hi) = v ∧
    ∃ l h, low (.node c v lo hi) = some l ∧ high (.node c v lo hi) = some h ∧
      (∀ a, l.eval a = (Ptr.node c v lo hi).eval (upd a v false)) ∧
      (∀ a, h.eval a = (Ptr.node c v lo hi).eval (upd a v true)) := by
  obtain ⟨⟨_, hlo, hhi⟩, _⟩ := hwf
  refine ⟨rfl, _, _, rfl, rfl, fun a => ?_, fun a => ?_⟩
  · have e := eval_upd_of_above (x := v) false a hlo (Nat.lt_succ_self _)
    cases c <;> simp [Ptr.eval, e]
  · have e := eval_upd_of_above (x := v) true a hhi (Nat.lt_succ_self _)
    cases c <;> simp [Ptr.eval, e]

/-- constants have no children (the Rust panics) and report the placeholder top variable -/
theorem ffi_const_accessors : low .tru = none ∧ high .tru = none ∧ low .fls = none ∧ high .fls = none ∧
    topvar .tru = 0 ∧ topvar .fls = 0 := ⟨rfl, rfl, rfl, rfl, rfl, rfl⟩

theorem one_mul_mod (P x : Nat) : (1 % P) * (x % P) % P = x % P := by
  rw [← Nat.mul_mod, Nat.one_mul]

/-- counting with unit weights in `FiniteField<P>` is counting in the naturals modulo `P` -/
theorem ff_count_mod (P : Nat) (hP : 0 < P) (hP2 : P < 2 ^ 128) :
    ∀ (p : Ptr) (n : Bool),
      wmcAux (Sem.ffOps P) (fun _ => (Sem.ffNew P 1, Sem.ffNew P 1)) p n =
        wmcAux countOps (fun _ => (1, 1)) p n % P
  | .tru, n => by cases n <;> simp [wmcAux, Sem.ffOps, Sem.ffNew, countOps]
  | .fls, n => by cases n <;> simp [wmcAux, Sem.ffOps, Sem.ffNew, countOps]
  | .node c v lo hi, n => by
    have h1 := ff_count_mod P hP hP2 lo (xor n c)
    have h2 := ff_count_mod P hP hP2 hi (xor n c)
    have lt1 : wmcAux countOps (fun _ => (1, 1)) lo (xor n c) % P < 2 ^ 128 :=
      Nat.lt_trans (Nat.mod_lt _ hP) hP2
    have lt2 : wmcAux countOps (fun _ => (1, 1)) hi (xor n c) % P < 2 ^ 128 :=
      Nat.lt_trans (Nat.mod_lt _ hP) hP2
    show Sem.ffAdd P
        (Sem.ffMul P (Sem.ffNew P 1) (wmcAux (Sem.ffOps P) (fun _ => (Sem.ffNew P 1, Sem.ffNew P 1)) lo (xor n c)))
        (Sem.ffMul P (Sem.ffNew P 1) (wmcAux (Sem.ffOps P) (fun _ => (Sem.ffNew P 1, Sem.ffNew P 1)) hi (xor n c)))
      = (1 * wmcAux countOps (fun _ => (1, 1)) lo (xor n c) + 1 * wmcAux countOps (fun _ => (1, 1)) hi (xor n c)) % P
    rw [h1, h2, Sem.ffAdd_spec, Sem.ffMul_spec' hP lt1, Sem.ffMul_spec' hP lt2]
    simp only [Sem.ffNew]
    rw [one_mul_mod, one_mul_mod, Nat.one_mul, Nat.one_mul, ← Nat.add_mod]

/-- **`robdd_model_count`** is the number of models over the manager's variables (modulo the
prime of the counting field, which exceeds every count below `2^64 - 25`) -/
theorem ffi_model_count (P : Nat) (hP : 0 < P) (hP2 : P < 2 ^ 128) {lvl varAt : Nat → Nat} {n : Nat}
    {p : Ptr} (hinv : ∀ i, i < n → lvl (varAt i) = i) (hv : ∀ v ∈ p.vars, varAt (lvl v) = v)
    (hord : p.ordBetween lvl 0 n) (a : Assign) :
    modelCount P lvl varAt n p = (allAssignments (levelVars varAt 0 n) a).countP p.eval % P := by
  unfold modelCount wmc
  rw [ff_count_mod P hP hP2]
  have := C08.smooth_count hinv hv hord a
  unfold wmc at this
  rw [this]

/-- **`from_c_parts`**: at most `MAX_COEFFS` coefficients are kept, the rest of the array is zero -/
theorem fromCParts_spec {α : Type} (S : SROps α) (M : Nat) (cs : List α) :
    (fromCParts S M cs).len = min cs.length M ∧
    (fromCParts S M cs).coeffs.length = M ∧
    ∀ i, (fromCParts S M cs).coef S i = if i < min cs.length M then cs.getD i S.zero else S.zero := by
  unfold fromCParts
  split
  · rename_i h
    have : cs = [] := by simpa using h
    subst this
    refine ⟨by simp [Sem.polyZero], by simp [Sem.polyZero, Sem.polyZeros], fun i => ?_⟩
    simp [Sem.Poly.coef, Sem.polyZero, Sem.polyZeros, List.getD_eq_getElem?_getD, List.getElem?_replicate]
    split <;> rfl
  · refine ⟨by simp [Sem.polyOfList], by simp [Sem.polyOfList], fun i => ?_⟩
    simp only [Sem.Poly.coef, Sem.polyOfList, List.getD_eq_getElem?_getD, List.getElem?_map]
    by_cases h : i < M
    · simp [List.getElem?_range h]
      intro h2
      have : cs.length ≤ i := by omega
      simp [List.getElem?_eq_none this]
    · have hle : (List.range M).length ≤ i := by simpa using Nat.le_of_not_lt h
      simp [List.getElem?_eq_none hle]
      intro h2; omega

/-! ## non-vacuity -/

example : (Ffi.run Bdd.ListCache (fun v => v) 50 (Ffi.St.init Bdd.ListCache 2)
    [.var 0 true, .var 1 false, .and 0 1, .newVar true, .ite 2 3 0, .compose 4 1 0, .neg 5]).map (·.handles.length)
    = some 7 := by decide

example : (fromCParts Sem.boolOps 2 [true, false, true]).len = 2 := by decide

end C18

#print axioms C18.ffi_step_native
#print axioms C18.ffi_run_native
#print axioms C18.ffi_refines
#print axioms C18.ffi_eq_iff_sem
#print axioms C18.ffi_low_high_sem
#print axioms C18.ffi_const_accessors
#print axioms C18.ff_count_mod
#print axioms C18.ffi_model_count
#print axioms C18.fromCParts_spec
