import RsddModel.Model.GenSddQ
import RsddModel.Model.Sdd
import RsddModel.Model.SddWmc
import RsddModel.Model.ScratchSdd
import RsddModel.Model.SddSemantic
import RsddModel.Lemmas.TieSddQAux
/-!
# Tie to the source text (translator route): queries on SDD pointers, the semantic SDD builder

`RsddModel/Model/GenSddQ.lean` is rewritten from `src/repr/sdd.rs`, `src/repr/sdd/{binary_sdd,sdd_or}.rs`,
`src/builder/sdd/semantic.rs`, `src/repr/ddnnf.rs` on every run (tools/gen_sddq.py).  Each theorem states
that the regenerated definition IS the hand-written model definition (or the literal mirror of
`Lemmas/TieSddQAux.lean`, which is related to the model there).  The `first | rfl | …` cascades accept
harmless re-arrangements of the Rust; a changed operand, a swapped branch, a dropped negation, a skipped
child does not check.
-/
set_option linter.unusedSimpArgs false
set_option linter.unusedVariables false
set_option linter.unusedSectionVars false
namespace TieSddQ
open Sdd

theorem neg_tie : Gen.SddQ.neg = Ptr.neg := by
  first
  | rfl
  | (funext p; rcases p with _ | _ | ⟨v, b⟩ | ⟨c, l, i, lo, hi⟩ | ⟨c, i, es⟩ <;> (try cases c) <;> (try cases b) <;> rfl)

theorem isNeg_tie : Gen.SddQ.isNeg = Ptr.isNeg := by
  first
  | rfl
  | (funext p; rcases p with _ | _ | ⟨v, b⟩ | ⟨c, l, i, lo, hi⟩ | ⟨c, i, es⟩ <;> (try cases c) <;> (try cases b) <;> rfl)

theorem low_tie : Gen.SddQ.low = Ptr.low? := by
  first
  | rfl
  | (funext p; rcases p with _ | _ | ⟨v, b⟩ | ⟨c, l, i, lo, hi⟩ | ⟨c, i, es⟩ <;> (try cases c) <;>
      first | rfl | (simp [Gen.SddQ.low, Ptr.low?, neg_tie]; done))

theorem isTrue_tie : Gen.SddQ.isTrue = Ptr.isTrue := by
  first
  | rfl
  | (funext p; rcases p with _ | _ | ⟨v, b⟩ | ⟨c, l, i, lo, hi⟩ | ⟨c, i, es⟩ <;> (try cases c) <;> (try cases b) <;> rfl)

theorem isFalse_tie : Gen.SddQ.isFalse = Ptr.isFalse := by
  first
  | rfl
  | (funext p; rcases p with _ | _ | ⟨v, b⟩ | ⟨c, l, i, lo, hi⟩ | ⟨c, i, es⟩ <;> (try cases c) <;> (try cases b) <;> rfl)

theorem isNegVar_tie : Gen.SddQ.isNegVar = Ptr.isNegVar := by
  first
  | rfl
  | (funext p; rcases p with _ | _ | ⟨v, b⟩ | ⟨c, l, i, lo, hi⟩ | ⟨c, i, es⟩ <;> (try cases c) <;> (try cases b) <;> rfl)

theorem isBdd_tie : Gen.SddQ.isBdd = Ptr.isBdd := by
  first
  | rfl
  | (funext p; rcases p with _ | _ | ⟨v, b⟩ | ⟨c, l, i, lo, hi⟩ | ⟨c, i, es⟩ <;> (try cases c) <;> (try cases b) <;> rfl)

theorem high_tie : Gen.SddQ.high = Ptr.high? := by
  first
  | rfl
  | (funext p; rcases p with _ | _ | ⟨v, b⟩ | ⟨c, l, i, lo, hi⟩ | ⟨c, i, es⟩ <;> (try cases c) <;>
      first | rfl | (simp [Gen.SddQ.high, Ptr.high?, neg_tie]; done))

section S
open Scratch ScratchSdd
variable {Tag : Type} [DecidableEq Tag] {U : Tag → Type}

theorem orClearLoop_eq (rc : SRef → Scr U → Scr U) (es : List (SRef × SRef)) (σ : Scr U) :
    Gen.SddQ.orClearLoop rc es σ = (es.flatMap fun e => [e.1, e.2]).foldl (fun σ k => rc k σ) σ := by
  induction es generalizing σ with
  | nil => rfl
  | cons e es ih => simp only [Gen.SddQ.orClearLoop, List.flatMap_cons, List.foldl_append, List.foldl_cons, List.foldl_nil, ih]

theorem clearS_tie : Gen.SddQ.clearS (U := U) = ScratchSdd.clearS (U := U) := by
  first
  | rfl
  | (funext s r σ
     induction s generalizing r σ with
     | nil => rfl
     | cons n rest ih =>
       have ih' : Gen.SddQ.clearS (U := U) rest = ScratchSdd.clearS rest := by funext r σ; exact ih r σ
       simp only [Gen.SddQ.clearS, ScratchSdd.clearS, ih']
       cases r.idx? with
       | none => rfl
       | some i =>
         simp only []
         split
         · cases n <;>
             simp [Gen.SddQ.bddClear, Gen.SddQ.orClear, orClearLoop_eq, SNode.kids]
         · rfl)

theorem foldProbe_tie {V : Type} : @Gen.SddQ.foldProbe V = @Scratch.probeFold V := by
  first
  | rfl
  | (funext neg x
     rcases x with _ | ⟨_ | _, _ | _⟩ <;> cases neg <;> rfl)

theorem foldLoop_tie {V : Type} : Gen.SddQ.foldLoop (U := U) (V := V) = ScratchSdd.foldElems (U := U) (V := V) := by
  first
  | rfl
  | (funext A rc neg es acc σ
     induction es generalizing acc σ with
     | nil => rfl
     | cons e es ih => simp only [Gen.SddQ.foldLoop, ScratchSdd.foldElems, ih])
  | (funext A rc neg
     cases neg <;>
       (funext es acc σ
        induction es generalizing acc σ with
        | nil => rfl
        | cons e es ih => simp [Gen.SddQ.foldLoop, ScratchSdd.foldElems, ih]))

theorem foldDagS_tie : Gen.SddQ.foldDagS (U := U) = ScratchSdd.foldDagS (U := U) := by
  first
  | rfl
  | (funext t A s r σ
     induction s generalizing r σ with
     | nil => cases r <;> rfl
     | cons n rest ih =>
       have ih' : Gen.SddQ.foldDagS t A rest = ScratchSdd.foldDagS t A rest := by funext r σ; exact ih r σ
       simp only [Gen.SddQ.foldDagS, ScratchSdd.foldDagS, ih', foldProbe_tie, foldLoop_tie]
       cases hr : r.idx? with
       | none => cases r <;> first | rfl | simp [SRef.idx?] at hr
       | some i =>
         simp only []
         split
         · first
           | (cases Scratch.probeFold r.isNeg ((σ i).asPair t) with
              | hit v => rfl
              | miss cached => cases r.isNeg <;> simp [Scratch.storeFold])
           | (cases n <;> cases Scratch.probeFold r.isNeg ((σ i).asPair t) with
              | hit v => rfl
              | miss cached => cases r.isNeg <;> simp [Scratch.storeFold])
         · rfl)

theorem countLoop_eq (rc : SRef → Scr U → Nat × Scr U) (es : List (SRef × SRef)) (c : Nat) (σ : Scr U) :
    Gen.SddQ.countLoop rc es c σ =
      es.foldl (fun (acc : Nat × Scr U) e =>
        let a := rc e.2 acc.2
        let b := rc e.1 a.2
        (acc.1 + a.1 + b.1 + 1, b.2)) (c, σ) := by
  induction es generalizing c σ with
  | nil => rfl
  | cons e es ih =>
    first
    | (simp only [Gen.SddQ.countLoop, List.foldl_cons, ih]; done)
    | (simp only [Gen.SddQ.countLoop, List.foldl_cons, ih]; congr 2; omega)

theorem countHS_tie : Gen.SddQ.countHS (U := U) = ScratchSdd.countHS (U := U) := by
  first
  | rfl
  | (funext s r σ
     induction s generalizing r σ with
     | nil => rfl
     | cons n rest ih =>
       have ih' : Gen.SddQ.countHS (U := U) rest = ScratchSdd.countHS rest := by funext r σ; exact ih r σ
       simp only [Gen.SddQ.countHS, ScratchSdd.countHS, ih']
       cases r.idx? with
       | none => rfl
       | some i =>
         simp only []
         split
         · cases hc : (σ i).asCount <;> cases n <;> simp [countLoop_eq]
         · rfl)

theorem foldS_tie : Gen.SddQ.foldS (U := U) = ScratchSdd.foldS (U := U) := by
  first
  | rfl
  | (funext t A s r σ; simp only [Gen.SddQ.foldS, ScratchSdd.foldS, foldDagS_tie, clearS_tie]; done)

theorem countNodesS_tie : Gen.SddQ.countNodesS (U := U) = ScratchSdd.countNodesS (U := U) := by
  first
  | rfl
  | (funext s r σ; simp only [Gen.SddQ.countNodesS, ScratchSdd.countNodesS, countHS_tie, clearS_tie]; done)

theorem wmcSAlg_tie {α : Type} : Gen.SddQ.wmcSAlg (α := α) = ScratchSdd.wmcSAlg := by
  first
  | rfl
  | (funext S w; simp [Gen.SddQ.wmcSAlg, ScratchSdd.wmcSAlg]; done)
  | (funext S w; simp only [Gen.SddQ.wmcSAlg, ScratchSdd.wmcSAlg, SAlg.mk.injEq]
     refine ⟨?_, ?_, ?_, ?_, ?_⟩ <;> first | rfl | (funext a b; cases b <;> rfl) | (funext a b; simp; done))

end S

/-! ## the `semantic_hash` cache (`Sdd.cachedHash`) -/
section H

theorem orSumLoop_tie : Gen.SddQ.orSumLoop = Sdd.cachedElemsWith := by
  first
  | rfl
  | (funext P f es c
     induction es generalizing c with
     | nil => rfl
     | cons e es ih =>
       obtain ⟨p, s⟩ := e
       simp only [Gen.SddQ.orSumLoop, Gen.SddQ.andSemHash, Sdd.cachedElemsWith, ih])

theorem bddCached_tie (P : Nat) (w : Spec.Weights Nat) (f : Ref → HashCache → Nat × HashCache)
    (l idx : Nat) (lo hi : Ref) (i : Nat) (c : HashCache) :
    Gen.SddQ.bddCached P w f l lo hi i c = Sdd.cachedNodeWith P w f (.bdd l idx lo hi) i c := by
  first
  | rfl
  | (simp only [Gen.SddQ.bddCached, Gen.SddQ.bddSemHash, Sdd.cachedNodeWith]; cases c i <;> rfl)
  | (simp only [Gen.SddQ.bddCached, Gen.SddQ.bddSemHash, Sdd.cachedNodeWith]; cases c i <;> simp; done)

theorem orCached_tie (P : Nat) (w : Spec.Weights Nat) (f : Ref → HashCache → Nat × HashCache)
    (idx : Nat) (es : List (Ref × Ref)) (i : Nat) (c : HashCache) :
    Gen.SddQ.orCached P f es i c = Sdd.cachedNodeWith P w f (.dec idx es) i c := by
  first
  | rfl
  | (simp only [Gen.SddQ.orCached, Gen.SddQ.orSemHash, orSumLoop_tie, Sdd.cachedNodeWith]; cases c i <;> rfl)
  | (simp only [Gen.SddQ.orCached, Gen.SddQ.orSemHash, orSumLoop_tie, Sdd.cachedNodeWith]; cases c i <;> simp; done)

theorem cachedHash_tie : Gen.SddQ.cachedHash = Sdd.cachedHash := by
  first
  | rfl
  | (funext P w s r c
     induction s generalizing r c with
     | nil => cases r <;> rfl
     | cons n rest ih =>
       have ih' : Gen.SddQ.cachedHash P w rest = Sdd.cachedHash P w rest := by funext r c; exact ih r c
       cases r with
       | reg i =>
         simp only [Gen.SddQ.cachedHash, Sdd.cachedHash, ih']
         split
         · cases n <;> simp only [bddCached_tie P w _ _ 0, orCached_tie P w _ 0] <;> first | rfl | (rename_i idx _ _; simp [Sdd.cachedNodeWith]; done) | (rename_i idx _; simp [Sdd.cachedNodeWith]; done)
         · rfl
       | compl i =>
         simp only [Gen.SddQ.cachedHash, Sdd.cachedHash, ih']
         split
         · cases n <;> simp only [bddCached_tie P w _ _ 0, orCached_tie P w _ 0] <;> first | rfl | (simp [Sdd.cachedNodeWith]; done)
         · rfl
       | _ => rfl)

theorem statsLoop_tie : Gen.SddQ.statsLoop = SddSemAux.statsLoop := by
  first
  | rfl
  | (funext P w s rs seen k c
     induction rs generalizing seen k c with
     | nil => rfl
     | cons r rs ih => simp only [Gen.SddQ.statsLoop, SddSemAux.statsLoop, cachedHash_tie, ih])
  | (funext P w s rs seen k c
     induction rs generalizing seen k c with
     | nil => rfl
     | cons r rs ih =>
       simp only [Gen.SddQ.statsLoop, SddSemAux.statsLoop, cachedHash_tie, ih]
       split <;> simp_all)

/-- `stats` = the collision count of the loop, and the memo it leaves is that of hashing every node with the
builder's own prime and weights (`Sdd.cachedHashes`) -/
theorem statsCollisions_tie : Gen.SddQ.statsCollisions
    = fun P w s roots c => ((SddSemAux.statsLoop P w s roots [] 0 c).2.1, (SddSemAux.statsLoop P w s roots [] 0 c).2.2) := by
  first
  | rfl
  | (funext P w s roots c; simp only [Gen.SddQ.statsCollisions, statsLoop_tie]; done)

theorem stats_memo (P : Nat) (w : Spec.Weights Nat) (s : Store) (roots : List Ref) (c : HashCache) :
    (Gen.SddQ.statsCollisions P w s roots c).2 = (cachedHashes P w s roots c).2 := by
  rw [statsCollisions_tie]; exact SddSemAux.statsLoop_cache P w s roots [] 0 c

end H

/-! ## the semantic builder (`SddSem`, through the two-table mirror `SddSemAux`) -/
/-! ## the order on pointers (`Ptr.cmp`): derive(Ord) on `SddPtr` / `SddAnd`, `BinarySDD::cmp`, `SddOr::cmp` -/
section Cmp

theorem rank_tie : Gen.SddQ.rank = Ptr.rank := by
  first
  | rfl
  | (funext p; rcases p with _ | _ | ⟨v, b⟩ | ⟨c, l, i, lo, hi⟩ | ⟨c, i, es⟩ <;> (try cases c) <;> (try cases b) <;> rfl)

/-- two binary nodes under the same variant are compared by `BinarySDD::cmp` -/
theorem bddCmp_tie (c : Bool) (l i : Nat) (lo hi : Ptr) (l' i' : Nat) (lo' hi' : Ptr) :
    Ptr.cmp (.bdd c l i lo hi) (.bdd c l' i' lo' hi') = Gen.SddQ.bddCmp Ptr.cmp l i lo hi l' i' lo' hi' := by
  first
  | (simp only [Ptr.cmp, if_true, Gen.SddQ.bddCmp]; done)
  | (simp only [Ptr.cmp, if_true, Gen.SddQ.bddCmp]; rfl)
  | (simp only [Ptr.cmp, if_true, Gen.SddQ.bddCmp]
     cases compare l l' <;> cases compare i i' <;> cases Ptr.cmp lo lo' <;> cases Ptr.cmp hi hi' <;> rfl)

/-- two decision nodes under the same variant are compared by `SddOr::cmp` -/
theorem orCmp_tie (c : Bool) (i : Nat) (es : List (Ptr × Ptr)) (i' : Nat) (es' : List (Ptr × Ptr)) :
    Ptr.cmp (.dec c i es) (.dec c i' es') = Gen.SddQ.orCmp cmpElems i es i' es' := by
  first
  | (simp only [Ptr.cmp, if_true, Gen.SddQ.orCmp]; done)
  | (simp only [Ptr.cmp, if_true, Gen.SddQ.orCmp]; rfl)
  | (simp only [Ptr.cmp, if_true, Gen.SddQ.orCmp]
     cases compare i i' <;> cases cmpElems es es' <;> rfl)

/-- the element vectors are compared lexicographically, an element by its fields in declaration order -/
theorem andCmp_tie (e e' : Ptr × Ptr) (r r' : List (Ptr × Ptr)) :
    cmpElems (e :: r) (e' :: r') = (Gen.SddQ.andCmp Ptr.cmp e e').then (cmpElems r r') := by
  obtain ⟨p, s⟩ := e
  obtain ⟨p', s'⟩ := e'
  first
  | (simp only [cmpElems, Gen.SddQ.andCmp]; done)
  | (simp only [cmpElems, Gen.SddQ.andCmp]; rfl)
  | (simp only [cmpElems, Gen.SddQ.andCmp]
     cases Ptr.cmp p p' <;> cases Ptr.cmp s s' <;> cases cmpElems r r' <;> rfl)

/-- different variants are compared by their position in the `enum` -/
theorem rank_cmp_tie (c c' : Bool) (l i : Nat) (lo hi : Ptr) (l' i' : Nat) (lo' hi' : Ptr) (h : c ≠ c') :
    Ptr.cmp (.bdd c l i lo hi) (.bdd c' l' i' lo' hi')
      = compare (Gen.SddQ.rank (.bdd c l i lo hi)) (Gen.SddQ.rank (.bdd c' l' i' lo' hi')) := by
  rw [rank_tie]; simp only [Ptr.cmp, h, if_false]

end Cmp

section B
open SddSem SddSemAux

theorem andKey_tie : Gen.SddQ.andKey = fun π e => appKey π e.1 e.2 := by
  first
  | rfl
  | (funext π e; simp [Gen.SddQ.andKey, appKey]; done)

theorem getSharedSddPtr_tie :
    Gen.SddQ.getSharedSddPtr = fun bdd sdd x hash => shared2 ⟨bdd, sdd, []⟩ x hash := by
  first
  | rfl
  | (funext bdd sdd x hash
     simp only [Gen.SddQ.getSharedSddPtr, shared2]
     repeat' split
     all_goals first | rfl | omega | (simp_all; done) | (simp_all; omega))

theorem checkCachedHashAndNeg_tie :
    Gen.SddQ.checkCachedHashAndNeg = fun π bdd sdd x => checkNeg π ⟨bdd, sdd, []⟩ x := by
  first
  | rfl
  | (funext π bdd sdd x
     simp only [Gen.SddQ.checkCachedHashAndNeg, checkNeg, getSharedSddPtr_tie]
     repeat' split
     all_goals first | rfl | omega | (simp_all; done) | (simp_all; omega))

private theorem checkNeg_app (π : Params) (bdd sdd app : List (Nat × Ptr)) (x : Nat) :
    checkNeg π ⟨bdd, sdd, []⟩ x = checkNeg π ⟨bdd, sdd, app⟩ x := rfl

theorem getOrInsertBdd_tie : Gen.SddQ.getOrInsertBdd = SddSemAux.getOrInsertBdd := by
  first
  | rfl
  | (funext π st node
     obtain ⟨bdd, sdd, app⟩ := st
     simp only [Gen.SddQ.getOrInsertBdd, SddSemAux.getOrInsertBdd, checkCachedHashAndNeg_tie, checkNeg_app π bdd sdd app]
     cases checkNeg π ⟨bdd, sdd, app⟩ (π.h node) <;> rfl)

theorem getOrInsertSdd_tie : Gen.SddQ.getOrInsertSdd = SddSemAux.getOrInsertSdd := by
  first
  | rfl
  | (funext π st node
     obtain ⟨bdd, sdd, app⟩ := st
     simp only [Gen.SddQ.getOrInsertSdd, SddSemAux.getOrInsertSdd, checkCachedHashAndNeg_tie, checkNeg_app π bdd sdd app]
     cases checkNeg π ⟨bdd, sdd, app⟩ (π.h node) <;> rfl)

theorem appCacheGet_tie : Gen.SddQ.appCacheGet = fun π app e => appGetRaw π app e.1 e.2 := by
  first
  | rfl
  | (funext π app e
     simp only [Gen.SddQ.appCacheGet, appGetRaw, andKey_tie]
     repeat' split
     all_goals first | rfl | omega | (simp_all; done) | (simp_all; omega))

theorem appCacheInsert_tie : Gen.SddQ.appCacheInsert = fun π app e r => appInsertRaw π app e.1 e.2 r := by
  first
  | rfl
  | (funext π app e r
     simp only [Gen.SddQ.appCacheInsert, appInsertRaw, andKey_tie]
     repeat' split
     all_goals first | rfl | omega | (simp_all; done) | (simp_all; omega))

theorem sddEq_tie : Gen.SddQ.sddEq = eqRaw := by
  first
  | rfl
  | (funext π a b; simp [Gen.SddQ.sddEq, eqRaw]; done)
  | (funext π a b; simp only [Gen.SddQ.sddEq, eqRaw]; exact Bool.beq_comm; done)

/-- end to end: the regenerated `get_or_insert_bdd` / `get_or_insert_sdd` refine the model's `getOrInsert` -/
theorem getOrInsert_source (π : Params) {s2 : St2} {s : SddSem.St} (h : Rel s2 s) (node : Ptr) (isBdd : Bool) :
    let r2 := if isBdd then Gen.SddQ.getOrInsertBdd π s2 node else Gen.SddQ.getOrInsertSdd π s2 node
    ∃ s', getOrInsert π s node = guardJ π (equivB π.vt r2.2 node) (s', r2.2) ∧ Rel r2.1 s' := by
  rw [getOrInsertBdd_tie, getOrInsertSdd_tie]
  exact getOrInsert_refines π h node isBdd

/-- `sdd_eq`, `app_cache_get`, `app_cache_insert` of the model are the regenerated ones plus the detector -/
theorem eqJ_source (π : Params) (a b : Ptr) :
    eqJ π a b = guardJ π (Gen.SddQ.sddEq π a b == equivB π.vt a b) (Gen.SddQ.sddEq π a b) := by
  rw [sddEq_tie]; exact eqJ_raw π a b

theorem appGet_source (π : Params) (st : SddSem.St) (a b : Ptr) :
    appGet π st a b =
      (match Gen.SddQ.appCacheGet π st.app (a, b) with
       | none => some none
       | some x => guardJ π (equivAndB π.vt x a b) (some x)) := by
  rw [appCacheGet_tie]; exact appGet_raw π st a b

theorem appInsert_source (π : Params) (st : SddSem.St) (a b r : Ptr) :
    appInsert π st a b r = ⟨st.tbl, Gen.SddQ.appCacheInsert π st.app (a, b) r⟩ := by
  rw [appCacheInsert_tie]; exact appInsert_raw π st a b r

end B
end TieSddQ

#print axioms TieSddQ.neg_tie
#print axioms TieSddQ.isNeg_tie
#print axioms TieSddQ.low_tie
#print axioms TieSddQ.isTrue_tie
#print axioms TieSddQ.isFalse_tie
#print axioms TieSddQ.isNegVar_tie
#print axioms TieSddQ.isBdd_tie
#print axioms TieSddQ.high_tie
#print axioms TieSddQ.orClearLoop_eq
#print axioms TieSddQ.clearS_tie
#print axioms TieSddQ.foldProbe_tie
#print axioms TieSddQ.foldLoop_tie
#print axioms TieSddQ.foldDagS_tie
#print axioms TieSddQ.countLoop_eq
#print axioms TieSddQ.countHS_tie
#print axioms TieSddQ.foldS_tie
#print axioms TieSddQ.countNodesS_tie
#print axioms TieSddQ.wmcSAlg_tie
#print axioms TieSddQ.orSumLoop_tie
#print axioms TieSddQ.bddCached_tie
#print axioms TieSddQ.orCached_tie
#print axioms TieSddQ.cachedHash_tie
#print axioms TieSddQ.statsLoop_tie
#print axioms TieSddQ.statsCollisions_tie
#print axioms TieSddQ.stats_memo
#print axioms TieSddQ.rank_tie
#print axioms TieSddQ.bddCmp_tie
#print axioms TieSddQ.orCmp_tie
#print axioms TieSddQ.andCmp_tie
#print axioms TieSddQ.rank_cmp_tie
#print axioms TieSddQ.andKey_tie
#print axioms TieSddQ.getSharedSddPtr_tie
#print axioms TieSddQ.checkCachedHashAndNeg_tie
#print axioms TieSddQ.getOrInsertBdd_tie
#print axioms TieSddQ.getOrInsertSdd_tie
#print axioms TieSddQ.appCacheGet_tie
#print axioms TieSddQ.appCacheInsert_tie
#print axioms TieSddQ.sddEq_tie
#print axioms TieSddQ.getOrInsert_source
#print axioms TieSddQ.eqJ_source
#print axioms TieSddQ.appGet_source
#print axioms TieSddQ.appInsert_source
