import RsddModel.Lemmas.UpSolverSpec
import RsddModel.Props.C06
/-!
# C06, instantiated: the top-down compiler run on the mirrored REAL `SATSolver`

`Props/C06.lean` proves `compile_cnf_topdown` correct for every solver satisfying the contract
`SolverSpec` + `NewSpec` + `HashSound` + `FreeDecide` (`Lemmas/TopDownSolver.lean`) and shows the
contract satisfiable by the reference solver `NaiveSolver`.  `Lemmas/UpSolverSpec.lean` proves the
contract for `TopDown.UpSolver`, the executable model of `SATSolver`/`UnitPropagate` of
`src/repr/unit_prop.rs` (watched literals, prime-product hash, satisfied-clause set, state stack)
that the differential streams `up` and `td` compare with the implementation — the `td` stream
checks that `TopDown.compileTopdown UpSolver standardStore` reproduces the real compiler's
diagram node for node.  Here the two are put together.

Hypotheses of the final theorem, all explicit:
* the clause list is what `Cnf::new` stores (`cnfNew raw`, for every raw clause list; or any list
  in that normal form);
* the order maps the levels below `numVars` onto labels `< num_vars` and enumerates the variables
  of the clause list (every permutation of `0..num_vars-1` does: `compileTopdown_real_perm`);
* NO-WRAP: the product of the primes of all literal occurrences of the hashed clauses is below
  `2^128`.  The hash is computed with `wrapping_mul`; without this bound equal cache keys do not
  imply equal residual formulas, and the theorem is not claimed.

Conclusion: the returned diagram denotes the clause list on ALL assignments (tautological clauses
included), no path decides a variable twice, and it is the false constant iff the clause list is
unsatisfiable.
-/
namespace C06Real
open Spec Bdd TopDown

/-- **`compile_cnf_topdown` on the mirrored real solver, any clause list in `Cnf::new` normal
form, standard node store.** -/
theorem compileTopdown_real_normal (cnf : Cnf) (hN : UnitProp.CnfNormal cnf) (varAt : Nat → Nat)
    (numVars : Nat)
    (hvarAt : ∀ v, InCnf cnf v → ∃ i, i < numVars ∧ varAt i = v)
    (hrange : ∀ i, i < numVars → varAt i < cnfNumVars cnf)
    (hnowrap : UnitProp.totalWeight (UnitProp.weighClauses (UnitProp.normClauses cnf) 1) < 2 ^ 128) :
    (∀ a, (compileTopdown UpSolver standardStore varAt cnf numVars ()).1.eval a = cnfSat a cnf) ∧
    (compileTopdown UpSolver standardStore varAt cnf numVars ()).1.free ∧
    ((compileTopdown UpSolver standardStore varAt cnf numVars ()).1 = .fls ↔ ∀ a, cnfSat a cnf = false) := by
  have h := C06.compileTopdown_correct (upSpec cnf hN) varAt (up_hashSound cnf hN hnowrap)
    (up_freeDecide cnf hN) cnf numVars (up_newSpec cnf hN numVars)
    (fun v hv => hvarAt v (InCnf_ntCnf hv)) hrange
  simp only [cnfSat_ntCnf] at h
  exact h

/-- **C06 for the real propagator.**  For every raw clause list `raw`, with `cnf := Cnf::new(raw)`:
for every order that maps the levels `< numVars` to labels in range and enumerates the variables,
under the no-wrap hypothesis, the diagram returned by the mirrored `compile_cnf_topdown` on the
mirrored `SATSolver` denotes `cnf` on all assignments, is free (no variable twice on a path), and
is the false constant iff `cnf` is unsatisfiable. -/
theorem compileTopdown_real_correct (raw : Cnf) (varAt : Nat → Nat) (numVars : Nat)
    (hvarAt : ∀ v, InCnf (UnitProp.cnfNew raw) v → ∃ i, i < numVars ∧ varAt i = v)
    (hrange : ∀ i, i < numVars → varAt i < cnfNumVars (UnitProp.cnfNew raw))
    (hnowrap : UnitProp.totalWeight
      (UnitProp.weighClauses (UnitProp.normClauses (UnitProp.cnfNew raw)) 1) < 2 ^ 128) :
    let r := (compileTopdown UpSolver standardStore varAt (UnitProp.cnfNew raw) numVars ()).1
    (∀ a, r.eval a = cnfSat a (UnitProp.cnfNew raw)) ∧ r.free ∧
    (r = .fls ↔ ∀ a, cnfSat a (UnitProp.cnfNew raw) = false) :=
  compileTopdown_real_normal _ (UnitProp.cnfNew_normal raw) varAt numVars hvarAt hrange hnowrap

/-- `Cnf::new` does not change the models (it sorts each clause and removes adjacent repeats) -/
theorem cnfSat_cnfNew (a : Assign) (raw : Cnf) : cnfSat a (UnitProp.cnfNew raw) = cnfSat a raw := by
  unfold UnitProp.cnfNew
  simp only [cnfSat, List.all_map]
  congr 1
  funext c
  simp only [Function.comp, clauseSat]
  rw [Bool.eq_iff_iff, List.any_eq_true, List.any_eq_true]
  constructor
  · rintro ⟨x, hx, h⟩
    exact ⟨x, UnitProp.mem_isort.mp (UnitProp.mem_dedupAdj.mp hx), h⟩
  · rintro ⟨x, hx, h⟩
    exact ⟨x, UnitProp.mem_dedupAdj.mpr (UnitProp.mem_isort.mpr hx), h⟩

/-- the instance with the compiler's own parameters: `numVars = cnf.num_vars()` and an order that
is onto the labels in range (`var_at_level` of a `VarOrder` is a permutation of them); the
denotation is stated for the RAW clause list -/
theorem compileTopdown_real_perm (raw : Cnf) (varAt : Nat → Nat)
    (hrange : ∀ i, i < cnfNumVars (UnitProp.cnfNew raw) → varAt i < cnfNumVars (UnitProp.cnfNew raw))
    (honto : ∀ v, v < cnfNumVars (UnitProp.cnfNew raw) → ∃ i, i < cnfNumVars (UnitProp.cnfNew raw) ∧ varAt i = v)
    (hnowrap : UnitProp.totalWeight
      (UnitProp.weighClauses (UnitProp.normClauses (UnitProp.cnfNew raw)) 1) < 2 ^ 128) :
    let cnf := UnitProp.cnfNew raw
    let r := (compileTopdown UpSolver standardStore varAt cnf (cnfNumVars cnf) ()).1
    (∀ a, r.eval a = cnfSat a raw) ∧ r.free ∧ (r = .fls ↔ ∀ a, cnfSat a raw = false) := by
  have h := compileTopdown_real_correct raw varAt (cnfNumVars (UnitProp.cnfNew raw))
    (fun v hv => honto v (lt_cnfNumVars hv)) hrange hnowrap
  simp only [cnfSat_cnfNew] at h
  exact h

/-- the identity order -/
theorem compileTopdown_real_id (raw : Cnf)
    (hnowrap : UnitProp.totalWeight
      (UnitProp.weighClauses (UnitProp.normClauses (UnitProp.cnfNew raw)) 1) < 2 ^ 128) :
    let cnf := UnitProp.cnfNew raw
    let r := (compileTopdown UpSolver standardStore id cnf (cnfNumVars cnf) ()).1
    (∀ a, r.eval a = cnfSat a raw) ∧ r.free ∧ (r = .fls ↔ ∀ a, cnfSat a raw = false) :=
  compileTopdown_real_perm raw id (fun _ h => h) (fun v h => ⟨v, h, rfl⟩) hnowrap

/-- **the semantic node store — PARTIAL: under `CollisionFree`** (`H-coll`, see `Props/C06.lean`),
otherwise the same statement -/
theorem compileTopdown_real_semantic_partial (raw : Cnf) (varAt : Nat → Nat) (numVars : Nat)
    {H : Type} [DecidableEq H] (semHash : Ptr → H) (negH key : H → H) (hcf : CollisionFree semHash negH key)
    (hvarAt : ∀ v, InCnf (UnitProp.cnfNew raw) v → ∃ i, i < numVars ∧ varAt i = v)
    (hrange : ∀ i, i < numVars → varAt i < cnfNumVars (UnitProp.cnfNew raw))
    (hnowrap : UnitProp.totalWeight
      (UnitProp.weighClauses (UnitProp.normClauses (UnitProp.cnfNew raw)) 1) < 2 ^ 128) :
    let r := (compileTopdown UpSolver (semanticStore semHash negH key) varAt (UnitProp.cnfNew raw) numVars []).1
    (∀ a, r.eval a = cnfSat a (UnitProp.cnfNew raw)) ∧ r.free ∧
    (r = .fls ↔ ∀ a, cnfSat a (UnitProp.cnfNew raw) = false) := by
  have hN := UnitProp.cnfNew_normal raw
  have h := C06.compileTopdown_correct_semantic_partial (upSpec _ hN) varAt semHash negH key hcf
    (up_hashSound _ hN hnowrap) (up_freeDecide _ hN) (UnitProp.cnfNew raw) numVars (up_newSpec _ hN numVars)
    (fun v hv => hvarAt v (InCnf_ntCnf hv)) hrange
  simp only [cnfSat_ntCnf] at h
  exact h

/-! ## non-vacuity -/

private def p (v : Nat) : Lit := ⟨v, true⟩
private def n (v : Nat) : Lit := ⟨v, false⟩

/-- `(x4) ∧ (x1 ∨ x0 ∨ x0) ∧ (x2 ∨ x3) ∧ (x2 ∨ ¬x2 ∨ x0)`: a unit clause, a repeated literal, a
tautological clause, and a component `(x2 ∨ x3)` reached under `x0 = ⊤` and under `x0 = ⊥, x1 = ⊤` -/
def exRaw : Cnf := [[p 4], [p 1, p 0, p 0], [p 2, p 3], [p 2, n 2, p 0]]

/-- what `Cnf::new` stores -/
example : UnitProp.cnfNew exRaw = [[p 4], [p 0, p 1], [p 2, p 3], [p 0, p 2, n 2]] := by decide

/-- the hypotheses of `compileTopdown_real_id` hold: the hashed clauses carry the primes
`2, 3·5, 7·11` -/
theorem exRaw_nowrap :
    UnitProp.totalWeight (UnitProp.weighClauses (UnitProp.normClauses (UnitProp.cnfNew exRaw)) 1) < 2 ^ 128 := by
  decide

/-- the compiled diagram: the root chain for the unit `x4`, the decision on `x0`, the implied
literal `x1` in the low branch, and the shared component `(x2 ∨ x3)` -/
example : (compileTopdown UpSolver standardStore id (UnitProp.cnfNew exRaw) 5 ()).1 =
    .node false 4 .fls
      (.node false 0
        (.node false 1 .fls (.node false 2 (.node false 3 .fls .tru) .tru))
        (.node false 2 (.node false 3 .fls .tru) .tru)) := by decide

/-- the component-cache hit: after `x0 = ⊤` and after `x0 = ⊥` (which propagates `x1`) the models
differ, the hashes are equal (`2·3·5`: the unit clause and the satisfied clause `x0 ∨ x1`), and
the cache the compiler ends with has the keys `2` (root) and `30` (the component) -/
example :
    withUp (UnitProp.cnfNew exRaw) none (fun s =>
      let a := (UpSolver.decide s (p 0)).2
      let b := (UpSolver.decide s (n 0)).2
      some (a.modelList, b.modelList, a.curHash, b.curHash,
        (topdownH UpSolver standardStore id 5 0 s [] ()).2.2.1.map (fun e => (e.1 : Nat))))
    = some ([some true, none, none, none, some true], [some false, some true, none, none, some true],
        some 30, some 30, ([2, 30, 30] : List Nat)) := by decide

/-- and the theorem applies to it -/
example :
    let r := (compileTopdown UpSolver standardStore id (UnitProp.cnfNew exRaw) 5 ()).1
    (∀ a, r.eval a = cnfSat a exRaw) ∧ r.free ∧ (r = .fls ↔ ∀ a, cnfSat a exRaw = false) :=
  compileTopdown_real_id exRaw exRaw_nowrap

/-- an unsatisfiable clause list whose conflict is found by propagation during the search:
`(x0 ∨ x1) ∧ (x0 ∨ ¬x1) ∧ (¬x0 ∨ x1) ∧ (¬x0 ∨ ¬x1)` compiles to the false constant -/
example : (compileTopdown UpSolver standardStore id
    (UnitProp.cnfNew [[p 0, p 1], [p 0, n 1], [n 0, p 1], [n 0, n 1]]) 2 ()).1 = .fls := by decide

/-! ## axioms -/
#print axioms compileTopdown_real_normal
#print axioms compileTopdown_real_correct
#print axioms cnfSat_cnfNew
#print axioms compileTopdown_real_perm
#print axioms compileTopdown_real_id
#print axioms compileTopdown_real_semantic_partial
#print axioms exRaw_nowrap

end C06Real
