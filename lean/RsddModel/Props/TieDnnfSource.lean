import RsddModel.Props.TieDnnf
import RsddModel.Props.C06
import RsddModel.Props.C06Real
/-!
# C06, stated for the definitions regenerated from the Rust text (source-level corollaries)

`Props/C06.lean` / `Props/C06Real.lean` prove the top-down compiler and conditioning correct for the
hand-written model `TopDown`.  `Props/TieDnnf.lean` proves the definitions that `tools/gen_dnnf.py`
regenerates from `src/builder/decision_nnf/{builder,standard,semantic}.rs` on every run
(`Gen.TopDown.*`, `Model/GenDnnf.lean`) equal to that model.  Here the two are composed: the key
theorems of C06 restated about `Gen.TopDown.*`, each proved by rewriting with a tie theorem and
`exact`-ing the existing theorem.  So the statements below are about what the source says NOW; when
the source changes, the tie theorem (not this file) is what stops checking.

The generated definitions take the arguments in the order of the Rust signature (value parameters,
then `&mut` parameters, then the node store).  The file also builds when a function is
UNTRANSLATED (the generated name is then an alias of the model and the corollary restates the
model theorem).
-/
namespace TieDnnfSource
open Spec Bdd TopDown

/-! ## pointwise forms of the tie theorems -/

/-- `compile_cnf_topdown` as regenerated is the model's `compileTopdown`, argument by argument -/
theorem compile_pt (S : Solver) (NS : NodeStore) (varAt : Nat → Nat) (cnf : Cnf) (numVars : Nat) (t : NS.τ) :
    Gen.TopDown.compileTopdown S NS varAt cnf numVars t = TopDown.compileTopdown S NS varAt cnf numVars t :=
  congrFun (congrFun (congrFun (congrFun (congrFun (congrFun TieDnnf.compile_cnf_topdown_tie S) NS) varAt) cnf) numVars) t

/-- `condition` as regenerated is the model's `condition` -/
theorem condition_pt (NS : NodeStore) (t : NS.τ) (p : Ptr) (x : Nat) (b : Bool) :
    Gen.TopDown.condition NS p x b t = TopDown.condition NS t p x b :=
  congrFun (congrFun (congrFun (congrFun (congrFun TieDnnf.condition_tie NS) t) p) x) b

/-- `cond_helper` as regenerated is the model's `condition` (which is `condHelper`) -/
theorem cond_helper_pt (NS : NodeStore) (t : NS.τ) (p : Ptr) (x : Nat) (b : Bool) :
    Gen.TopDown.condHelper NS p x b t = TopDown.condition NS t p x b :=
  TieDnnf.cond_helper_pt NS x b p t

/-- `TopDownBuilder::var` as regenerated is the model's `mkVar` -/
theorem var_pt (NS : NodeStore) (t : NS.τ) (x : Nat) (pol : Bool) :
    Gen.TopDown.mkVar NS x pol t = TopDown.mkVar NS t x pol :=
  congrFun (congrFun (congrFun (congrFun TieDnnf.var_tie NS) t) x) pol

/-! ## the two node stores as the source says now -/

/-- the node store whose `get_or_insert` is the one regenerated from `standard.rs` -/
def standardStoreSrc : NodeStore where
  τ := Unit
  empty := ()
  getOrInsert := fun t v lo hi => Gen.TopDown.standardGetOrInsert (v, lo, hi) t

/-- the node store whose `get_or_insert` is the one regenerated from `semantic.rs` -/
def semanticStoreSrc {H : Type} [DecidableEq H] (semHash : Ptr → H) (negH : H → H) (key : H → H) : NodeStore where
  τ := List (H × Ptr)
  empty := []
  getOrInsert := fun t v lo hi => Gen.TopDown.semanticGetOrInsert semHash negH key (v, lo, hi) t

/-- the regenerated standard store is the model's standard store -/
theorem standardStoreSrc_eq : standardStoreSrc = standardStore :=
  congrArg (fun g => (⟨Unit, (), g⟩ : NodeStore)) TieDnnf.standard_get_or_insert_tie

/-- the regenerated semantic store is the model's semantic store -/
theorem semanticStoreSrc_eq {H : Type} [DecidableEq H] (semHash : Ptr → H) (negH key : H → H) :
    semanticStoreSrc semHash negH key = semanticStore semHash negH key :=
  congrArg (fun g => (⟨List (H × Ptr), [], g⟩ : NodeStore)) (TieDnnf.semantic_get_or_insert_tie semHash negH key)

/-- **`StandardDecisionNNFBuilder::get_or_insert` as the source says now satisfies the node-store
contract (`NodeStore.Sound`) unconditionally** -/
theorem standard_get_or_insert_source_sound : standardStoreSrc.Sound (fun _ => True) := by
  rw [standardStoreSrc_eq]; exact standardStore_sound

/-- **`SemanticDecisionNNFBuilder::get_or_insert` as the source says now satisfies the node-store
contract under `CollisionFree`** (invariant: every entry is keyed by the table key of its hash) -/
theorem semantic_get_or_insert_source_sound {H : Type} [DecidableEq H] {semHash : Ptr → H} {negH key : H → H}
    (hcf : CollisionFree semHash negH key) :
    (semanticStoreSrc semHash negH key).Sound (SemInv semHash key) := by
  have e : ∀ (t : List (H × Ptr)) v lo hi, (semanticStoreSrc semHash negH key).getOrInsert t v lo hi
      = (semanticStore semHash negH key).getOrInsert t v lo hi := fun t v lo hi =>
    congrFun (congrFun (congrFun (congrFun (TieDnnf.semantic_get_or_insert_tie semHash negH key) t) v) lo) hi
  have h := semanticStore_sound hcf
  exact ⟨fun t ht v lo hi => (e t v lo hi) ▸ h.inv_step t ht v lo hi,
    fun t ht v lo hi a => (e t v lo hi) ▸ h.eval_eq t ht v lo hi a,
    fun t ht v lo hi => (e t v lo hi) ▸ h.vars_sub t ht v lo hi,
    fun t ht v lo hi => (e t v lo hi) ▸ h.free t ht v lo hi⟩

/-! ## `topdown_h` -/

/-- the fuel hypothesis of the conditional tie of `topdown_h` is met at the call from
`compile_cnf_topdown` (`level = 0`, `fuel = num_vars - 0`): there the regenerated `topdown_h` IS
the model's `topdownH numVars 0` -/
theorem topdown_h_at_compile_call (S : Solver) (NS : NodeStore) (varAt : Nat → Nat) (cnf : Cnf) (numVars : Nat)
    (s : S.σ) (cache : Cache S.κ) (t : NS.τ) :
    0 + (numVars - 0) = numVars ∧
    Gen.TopDown.topdownH S NS varAt (numVars - 0) cnf numVars 0 s cache t
      = TopDown.topdownH S NS varAt numVars 0 s cache t := by
  refine ⟨by omega, ?_⟩
  rw [Nat.sub_zero]
  exact TieDnnf.topdown_h_pt S NS varAt cnf numVars numVars 0 (Nat.zero_add _) s cache t

/-- **`topdown_h` as the source says now** (statement of `C06.topdownH_correct`; `rem` is the fuel
`num_vars - level` of the regenerated definition) -/
theorem topdownH_source_correct {cnf : Cnf} {S : Solver} (spec : SolverSpec cnf S) {NS : NodeStore}
    {inv : NS.τ → Prop} (hNS : NS.Sound inv) (varAt : Nat → Nat) (hhash : HashSound spec)
    (hfree : FreeDecide spec) (cnf0 : Cnf)
    (numVars : Nat) (hvarAt : ∀ v, InCnf cnf v → ∃ i, i < numVars ∧ varAt i = v)
    (hrange : ∀ i, i < numVars → spec.Var (varAt i))
    (rem level : Nat) (s : S.σ) (cache : Cache S.κ) (t : NS.τ) (f0 : Frame S.κ) (rest : List (Frame S.κ))
    (hl : level + rem = numVars) (hI : spec.Inv s) (hfr : spec.frames s = f0 :: rest)
    (hrest : rest ≠ []) (ht : inv t) (hc : CacheOK spec cache)
    (hlev : ∀ i, i < level → spec.modelOf s (varAt i) ≠ none) :
    let res := Gen.TopDown.topdownH S NS varAt rem cnf0 numVars level s cache t
    (∀ a, Extends a (spec.modelOf s) → res.1.eval a = cnfSat a cnf) ∧
    res.1.free ∧
    (∀ v ∈ res.1.vars, InCnf (residual cnf (spec.modelOf s)) v ∧ spec.modelOf s v = none ∧
      ∀ i, i < level → varAt i ≠ v) ∧
    (res.1 ≠ .fls → ∃ a, Extends a (spec.modelOf s) ∧ res.1.eval a = true) ∧
    spec.Inv res.2.1 ∧ spec.frames res.2.1 = spec.frames s ∧ CacheOK spec res.2.2.1 ∧ inv res.2.2.2 := by
  rw [TieDnnf.topdown_h_pt S NS varAt cnf0 numVars rem level hl s cache t]
  exact C06.topdownH_correct spec hNS varAt hhash hfree numVars hvarAt hrange rem level s cache t f0 rest
    hl hI hfr hrest ht hc hlev

/-! ## `compile_cnf_topdown` -/

/-- **`compile_cnf_topdown` as the source says now, any node store satisfying the contract, every
solver meeting the contract**: denotes the CNF, decides no variable twice on a path, is the false
constant iff the CNF is unsatisfiable -/
theorem compileTopdown_source_correct_store {cnf : Cnf} {S : Solver} (spec : SolverSpec cnf S)
    {NS : NodeStore} {inv : NS.τ → Prop}
    (hNS : NS.Sound inv) (varAt : Nat → Nat) (hhash : HashSound spec) (hfree : FreeDecide spec)
    (cnf0 : Cnf) (numVars : Nat) (hnew : NewSpec spec cnf0 numVars)
    (hvarAt : ∀ v, InCnf cnf v → ∃ i, i < numVars ∧ varAt i = v)
    (hrange : ∀ i, i < numVars → spec.Var (varAt i)) (t : NS.τ) (ht : inv t) :
    (∀ a, (Gen.TopDown.compileTopdown S NS varAt cnf0 numVars t).1.eval a = cnfSat a cnf) ∧
    (Gen.TopDown.compileTopdown S NS varAt cnf0 numVars t).1.free ∧
    ((Gen.TopDown.compileTopdown S NS varAt cnf0 numVars t).1 = .fls ↔ ∀ a, cnfSat a cnf = false) := by
  rw [compile_pt]
  exact C06.compileTopdown_correct_store spec hNS varAt hhash hfree cnf0 numVars hnew hvarAt hrange t ht

/-- **… with the standard store, compiler AND `get_or_insert` as the source says now** -/
theorem compileTopdown_source_correct {cnf : Cnf} {S : Solver} (spec : SolverSpec cnf S) (varAt : Nat → Nat)
    (hhash : HashSound spec) (hfree : FreeDecide spec) (cnf0 : Cnf) (numVars : Nat)
    (hnew : NewSpec spec cnf0 numVars)
    (hvarAt : ∀ v, InCnf cnf v → ∃ i, i < numVars ∧ varAt i = v)
    (hrange : ∀ i, i < numVars → spec.Var (varAt i)) :
    (∀ a, (Gen.TopDown.compileTopdown S standardStoreSrc varAt cnf0 numVars ()).1.eval a = cnfSat a cnf) ∧
    (Gen.TopDown.compileTopdown S standardStoreSrc varAt cnf0 numVars ()).1.free ∧
    ((Gen.TopDown.compileTopdown S standardStoreSrc varAt cnf0 numVars ()).1 = .fls ↔ ∀ a, cnfSat a cnf = false) :=
  compileTopdown_source_correct_store spec standard_get_or_insert_source_sound varAt hhash hfree cnf0 numVars
    hnew hvarAt hrange () trivial

/-- **… with the semantic store, compiler AND `get_or_insert` as the source says now — PARTIAL: under
`CollisionFree`** -/
theorem compileTopdown_source_correct_semantic_partial {cnf : Cnf} {S : Solver} (spec : SolverSpec cnf S)
    (varAt : Nat → Nat)
    {H : Type} [DecidableEq H] (semHash : Ptr → H) (negH key : H → H) (hcf : CollisionFree semHash negH key)
    (hhash : HashSound spec) (hfree : FreeDecide spec) (cnf0 : Cnf) (numVars : Nat)
    (hnew : NewSpec spec cnf0 numVars)
    (hvarAt : ∀ v, InCnf cnf v → ∃ i, i < numVars ∧ varAt i = v)
    (hrange : ∀ i, i < numVars → spec.Var (varAt i)) :
    (∀ a, (Gen.TopDown.compileTopdown S (semanticStoreSrc semHash negH key) varAt cnf0 numVars []).1.eval a
        = cnfSat a cnf) ∧
    (Gen.TopDown.compileTopdown S (semanticStoreSrc semHash negH key) varAt cnf0 numVars []).1.free ∧
    ((Gen.TopDown.compileTopdown S (semanticStoreSrc semHash negH key) varAt cnf0 numVars []).1 = .fls ↔
      ∀ a, cnfSat a cnf = false) :=
  compileTopdown_source_correct_store spec (semantic_get_or_insert_source_sound hcf) varAt hhash hfree cnf0 numVars
    hnew hvarAt hrange [] (fun _ h => by cases h)

/-- **C06 for the mirrored real `SATSolver`, compiler and standard `get_or_insert` as the source says
now** (hypotheses of `C06Real.compileTopdown_real_correct`: order in range and onto, no-wrap) -/
theorem compileTopdown_source_real_correct (raw : Cnf) (varAt : Nat → Nat) (numVars : Nat)
    (hvarAt : ∀ v, InCnf (UnitProp.cnfNew raw) v → ∃ i, i < numVars ∧ varAt i = v)
    (hrange : ∀ i, i < numVars → varAt i < cnfNumVars (UnitProp.cnfNew raw))
    (hnowrap : UnitProp.totalWeight
      (UnitProp.weighClauses (UnitProp.normClauses (UnitProp.cnfNew raw)) 1) < 2 ^ 128) :
    let r := (Gen.TopDown.compileTopdown UpSolver standardStoreSrc varAt (UnitProp.cnfNew raw) numVars ()).1
    (∀ a, r.eval a = cnfSat a (UnitProp.cnfNew raw)) ∧ r.free ∧
    (r = .fls ↔ ∀ a, cnfSat a (UnitProp.cnfNew raw) = false) := by
  have e : (Gen.TopDown.compileTopdown UpSolver standardStoreSrc varAt (UnitProp.cnfNew raw) numVars ()).1
      = (TopDown.compileTopdown UpSolver standardStore varAt (UnitProp.cnfNew raw) numVars ()).1 :=
    (congrArg Prod.fst (compile_pt UpSolver standardStoreSrc varAt (UnitProp.cnfNew raw) numVars ())).trans
      (congrArg (fun NS : NodeStore => (TopDown.compileTopdown UpSolver NS varAt (UnitProp.cnfNew raw) numVars NS.empty).1)
        standardStoreSrc_eq)
  have h := C06Real.compileTopdown_real_correct raw varAt numVars hvarAt hrange hnowrap
  dsimp only at h ⊢
  rw [e]
  exact h

/-! ## conditioning -/

/-- **`condition` as the source says now, on a free diagram and on its negation**: the restricted
function, free, and `x` no longer tested -/
theorem cond_source_correct_dnnf {NS : NodeStore} {inv : NS.τ → Prop} (hNS : NS.Sound inv)
    (t : NS.τ) (ht : inv t) (p : Ptr) (hp : p.free) (x : Nat) (b : Bool) (a : Assign) :
    (Gen.TopDown.condition NS p x b t).1.eval a = p.eval (upd a x b) ∧
    (Gen.TopDown.condition NS p.neg x b t).1.eval a = !(p.eval (upd a x b)) ∧
    (Gen.TopDown.condition NS p x b t).1.free ∧ x ∉ (Gen.TopDown.condition NS p x b t).1.vars := by
  rw [condition_pt, condition_pt]
  exact C06.cond_correct_dnnf hNS t ht p hp x b a

/-- **`cond_helper` as the source says now**, same statement -/
theorem cond_helper_source_correct_dnnf {NS : NodeStore} {inv : NS.τ → Prop} (hNS : NS.Sound inv)
    (t : NS.τ) (ht : inv t) (p : Ptr) (hp : p.free) (x : Nat) (b : Bool) (a : Assign) :
    (Gen.TopDown.condHelper NS p x b t).1.eval a = p.eval (upd a x b) ∧
    (Gen.TopDown.condHelper NS p.neg x b t).1.eval a = !(p.eval (upd a x b)) ∧
    (Gen.TopDown.condHelper NS p x b t).1.free ∧ x ∉ (Gen.TopDown.condHelper NS p x b t).1.vars := by
  rw [cond_helper_pt, cond_helper_pt]
  exact C06.cond_correct_dnnf hNS t ht p hp x b a

/-- **`condition` with the standard store, both as the source says now**: no side condition but
freeness -/
theorem cond_source_correct_dnnf_standard (p : Ptr) (hp : p.free) (x : Nat) (b : Bool) (a : Assign) :
    (Gen.TopDown.condition standardStoreSrc p x b ()).1.eval a = p.eval (upd a x b) ∧
    (Gen.TopDown.condition standardStoreSrc p.neg x b ()).1.eval a = !(p.eval (upd a x b)) :=
  let h := cond_source_correct_dnnf standard_get_or_insert_source_sound () trivial p hp x b a
  ⟨h.1, h.2.1⟩

/-- conditioning the compiled diagram (everything as the source says now): the restricted CNF -/
theorem cond_of_compiled_source {cnf : Cnf} {S : Solver} (spec : SolverSpec cnf S) (varAt : Nat → Nat)
    (hhash : HashSound spec) (hfree : FreeDecide spec) (cnf0 : Cnf) (numVars : Nat)
    (hnew : NewSpec spec cnf0 numVars)
    (hvarAt : ∀ v, InCnf cnf v → ∃ i, i < numVars ∧ varAt i = v)
    (hrange : ∀ i, i < numVars → spec.Var (varAt i)) (x : Nat) (b : Bool) (a : Assign) :
    let d := (Gen.TopDown.compileTopdown S standardStoreSrc varAt cnf0 numVars ()).1
    (Gen.TopDown.condition standardStoreSrc d x b ()).1.eval a = cnfSat (upd a x b) cnf ∧
    (Gen.TopDown.condition standardStoreSrc d.neg x b ()).1.eval a = !(cnfSat (upd a x b) cnf) := by
  have hc := compileTopdown_source_correct spec varAt hhash hfree cnf0 numVars hnew hvarAt hrange
  have h := cond_source_correct_dnnf_standard _ hc.2.1 x b a
  simp only [hc.1] at h
  exact h

/-- `TopDownBuilder::var` as the source says now denotes the literal -/
theorem mkVar_source_eval {NS : NodeStore} {inv : NS.τ → Prop} (hNS : NS.Sound inv) (t : NS.τ) (ht : inv t)
    (x : Nat) (pol : Bool) (a : Assign) : (Gen.TopDown.mkVar NS x pol t).1.eval a = fVar x pol a := by
  rw [var_pt]; exact C06.mkVar_eval hNS t ht x pol a

/-! ## axioms -/
#print axioms compile_pt
#print axioms condition_pt
#print axioms cond_helper_pt
#print axioms var_pt
#print axioms standardStoreSrc_eq
#print axioms semanticStoreSrc_eq
#print axioms standard_get_or_insert_source_sound
#print axioms semantic_get_or_insert_source_sound
#print axioms topdown_h_at_compile_call
#print axioms topdownH_source_correct
#print axioms compileTopdown_source_correct_store
#print axioms compileTopdown_source_correct
#print axioms compileTopdown_source_correct_semantic_partial
#print axioms compileTopdown_source_real_correct
#print axioms cond_source_correct_dnnf
#print axioms cond_helper_source_correct_dnnf
#print axioms cond_source_correct_dnnf_standard
#print axioms cond_of_compiled_source
#print axioms mkVar_source_eval

end TieDnnfSource
