import RsddModel.Lemmas.SddWFRun
import RsddModel.Props.C03
/-!
# C04 — every SDD returned by the compressing builder is well formed, hence canonical

* `WFs vt p` (`Lemmas/SddWF`): primes non-false, pairwise exclusive and exhaustive, over the
  variables of the left child of the node's vtree index; subs over the variables of the right
  child and pairwise distinct; not trimmable; plus the pointer normal form of this implementation
  (elements strictly sorted by prime with the derived `Ord`, complement bit normalised,
  two-literal-prime decisions stored as binary nodes);
* `partition_unique` : compressed partitions of a function w.r.t. a variable split are unique;
* `sdd_canon` : on a vtree with distinct leaf labels, `WFs a → WFs b → (a ≡ b ↔ a = b)`;
* `wfs_of_run` : every pool entry of a run with compression switched on satisfies `WFs`, for every
  lawful cache pair, every vtree with distinct leaf labels, every fuel, every program;
* `run_canonical` : hence two pool entries of such a run denote the same function iff they are the
  same pointer.
-/
namespace Sdd
open Spec

/-- structural ite-cache invariant -/
def IteInvS (I : CacheImpl (Ptr × Ptr × Ptr)) (vt : VTree) (s : I.σ) : Prop :=
  ∀ k r, I.get s k = some r → WFs vt r

theorem iteNew_const_wfs {vt : VTree} {ord} {f g h r : Ptr} (wf : WFs vt f) (wg : WFs vt g)
    (wh : WFs vt h) (hr : Ite.new ord f g h = .const r) : WFs vt r := by
  have hi : WFs vt (introConst f g h).1 ∧ WFs vt (introConst f g h).2.1 ∧
      WFs vt (introConst f g h).2.2 := by
    simp only [introConst]
    split
    · exact ⟨wf, wg, WFs_fls vt⟩
    · split
      · exact ⟨wf, wg, WFs_tru vt⟩
      · split
        · exact ⟨wf, WFs_fls vt, wh⟩
        · exact ⟨wf, wg, wh⟩
  simp only [Ite.new] at hr
  generalize introConst f g h = t at hi hr
  obtain ⟨f1, g1, h1⟩ := t
  simp only at hi hr
  split at hr
  · rename_i r0 ht
    cases hr
    simp only [terminal?] at ht
    split at ht
    · cases ht; exact hi.2.1
    · split at ht
      · cases ht; exact hi.2.2
      · split at ht
        · cases ht; exact hi.1
        · split at ht
          · cases ht; exact WFs_neg hi.1
          · split at ht
            · cases ht; exact hi.2.1
            · cases ht
  · generalize reorder ord f1 g1 h1 = t2 at hr
    obtain ⟨f2, g2, h2⟩ := t2
    simp only [standardise] at hr
    split at hr
    · cases hr
    · split at hr
      · cases hr
      · split at hr <;> cases hr

section
variable (A : CacheImpl (Ptr × Ptr)) (I : CacheImpl (Ptr × Ptr × Ptr)) (cfg : Config)
  (hc : cfg.compress = true) (hnd : cfg.vt.leaves.Nodup) (fuel : Nat)
include hc hnd

theorem bAnd_s : AndOKs (AppInv2 A cfg.vt) cfg.vt (bAnd A cfg fuel) := by
  have := and_s A hnd fuel
  simpa [bAnd, hc] using this

theorem bOr_s {st a b st' r} (hP : AppInv2 A cfg.vt st) (wa : WFs cfg.vt a) (wb : WFs cfg.vt b)
    (h : bOr A cfg fuel st a b = some (st', r)) : AppInv2 A cfg.vt st' ∧ WFs cfg.vt r := by
  obtain ⟨h1, h2, _⟩ := orF_oks (bAnd_s A cfg hc hnd fuel) hP wa wb h
  exact ⟨h1, h2⟩

theorem bCond_s {st f st' r} {x : Nat} {v : Bool} (hP : AppInv2 A cfg.vt st) (wf : WFs cfg.vt f)
    (h : bCond A cfg fuel st f x v = some (st', r)) : AppInv2 A cfg.vt st' ∧ WFs cfg.vt r := by
  simp only [bCond, hc] at h
  obtain ⟨h1, h2, _⟩ := condition_s (P0 := AppInv A cfg.vt) (fun _ h => h.1) hnd
    (bAnd_ok A cfg fuel) (bAnd_s A cfg hc hnd fuel) x v fuel _ _ _ _ hP wf h
  exact ⟨h1, h2⟩

theorem bIte_s {s s' : A.σ × I.σ} {f g h r : Ptr}
    (hA : AppInv2 A cfg.vt s.1) (hI : IteInvS I cfg.vt s.2)
    (wf : WFs cfg.vt f) (wg : WFs cfg.vt g) (wh : WFs cfg.vt h)
    (hr : bIte A I cfg fuel s f g h = some (s', r)) :
    AppInv2 A cfg.vt s'.1 ∧ IteInvS I cfg.vt s'.2 ∧ WFs cfg.vt r := by
  simp only [bIte] at hr
  generalize hk : Ite.new (primeOrd cfg.vt) f g h = key at hr
  have main :
      (match iteCacheGet I s.2 key with
        | some v => some (s, v)
        | none =>
          match bAnd A cfg fuel s.1 f g with
          | none => none
          | some (a1, fg) =>
            match bAnd A cfg fuel a1 f.neg h with
            | none => none
            | some (a2, nfh) =>
              match bOr A cfg fuel a2 fg nfh with
              | none => none
              | some (a3, r) => some ((a3, iteCacheInsert I s.2 key r), r)) = some (s', r) →
      (∀ p, key ≠ .const p) →
      AppInv2 A cfg.vt s'.1 ∧ IteInvS I cfg.vt s'.2 ∧ WFs cfg.vt r := by
    intro hr hnc
    split at hr
    · rename_i v hget
      cases hr
      refine ⟨hA, hI, ?_⟩
      cases key with
      | choice f' g' h' => exact hI _ _ hget
      | complChoice f' g' h' =>
        simp only [iteCacheGet, Option.map_eq_some_iff] at hget
        obtain ⟨v0, h0, rfl⟩ := hget
        exact WFs_neg (hI _ _ h0)
      | const p => exact absurd rfl (hnc p)
    · split at hr
      · cases hr
      · rename_i a1 fg h1
        obtain ⟨hA1, wfg, _⟩ := bAnd_s A cfg hc hnd fuel _ _ _ _ _ hA wf wg h1
        split at hr
        · cases hr
        · rename_i a2 nfh h2
          obtain ⟨hA2, wnfh, _⟩ := bAnd_s A cfg hc hnd fuel _ _ _ _ _ hA1 (WFs_neg wf) wh h2
          split at hr
          · cases hr
          · rename_i a3 r3 h3
            cases hr
            obtain ⟨hA3, wr⟩ := bOr_s A cfg hc hnd fuel hA2 wfg wnfh h3
            refine ⟨hA3, ?_, wr⟩
            cases key with
            | choice f' g' h' =>
              intro k' r' hg
              rcases I.lawful _ _ _ _ _ hg with ⟨_, rfl⟩ | h'
              · exact wr
              · exact hI _ _ h'
            | complChoice f' g' h' =>
              intro k' r' hg
              rcases I.lawful _ _ _ _ _ hg with ⟨_, rfl⟩ | h'
              · exact WFs_neg wr
              · exact hI _ _ h'
            | const p => exact hI
  cases key with
  | const p =>
    simp only at hr
    cases hr
    exact ⟨hA, hI, iteNew_const_wfs wf wg wh hk⟩
  | choice f' g' h' => exact main hr (fun p hp => by cases hp)
  | complChoice f' g' h' => exact main hr (fun p hp => by cases hp)

theorem bExists_s {st st' : A.σ} {f r : Ptr} {x : Nat} (hP : AppInv2 A cfg.vt st)
    (wf : WFs cfg.vt f) (h : bExists A cfg fuel st f x = some (st', r)) :
    AppInv2 A cfg.vt st' ∧ WFs cfg.vt r := by
  simp only [bExists] at h
  split at h
  · cases h
  · rename_i s1 v1 h1
    obtain ⟨hP1, w1⟩ := bCond_s A cfg hc hnd fuel hP wf h1
    split at h
    · cases h
    · rename_i s2 v2 h2
      obtain ⟨hP2, w2⟩ := bCond_s A cfg hc hnd fuel hP1 wf h2
      exact bOr_s A cfg hc hnd fuel hP2 w1 w2 h

theorem bCompose_s {s s' : A.σ × I.σ} {f g r : Ptr} {x : Nat}
    (hA : AppInv2 A cfg.vt s.1) (hI : IteInvS I cfg.vt s.2) (hx : cfg.vt.hasVar x = true)
    (wf : WFs cfg.vt f) (wg : WFs cfg.vt g)
    (hr : bCompose A I cfg fuel s f x g = some (s', r)) :
    AppInv2 A cfg.vt s'.1 ∧ IteInvS I cfg.vt s'.2 ∧ WFs cfg.vt r := by
  simp only [bCompose] at hr
  split at hr
  · cases hr
  · rename_i s1 i h1
    obtain ⟨hA1, hI1, wi⟩ := bIte_s A I cfg hc hnd fuel hA hI (f := .lit x true)
      (by simpa [WFs] using hasVar_iff.1 hx) wg (WFs_neg wg) h1
    split at hr
    · cases hr
    · rename_i a2 c h2
      obtain ⟨hA2, wc, _⟩ := bAnd_s A cfg hc hnd fuel _ _ _ _ _ hA1 wi wf h2
      split at hr
      · cases hr
      · rename_i a3 r3 h3
        cases hr
        obtain ⟨hA3, wr⟩ := bExists_s A cfg hc hnd fuel hA2 wc h3
        exact ⟨hA3, hI1, wr⟩

/-- structural builder invariant -/
def InvS (st : St A I) : Prop :=
  AppInv2 A cfg.vt st.app ∧ IteInvS I cfg.vt st.ite ∧ ∀ p ∈ st.pool, WFs cfg.vt p

omit hc hnd in
theorem invS_init : InvS A I cfg (St.init A I) :=
  ⟨appInv2_empty A cfg.vt, fun k r h => (by simp only [St.init] at h; rw [I.empty_get] at h; cases h),
    fun p hp => (by simp [St.init] at hp)⟩

omit hc hnd in
theorem invS_push {st : St A I} {a : A.σ} {i : I.σ} {r : Ptr} (ha : AppInv2 A cfg.vt a)
    (hi : IteInvS I cfg.vt i) (wr : WFs cfg.vt r) (hpool : ∀ p ∈ st.pool, WFs cfg.vt p) :
    InvS A I cfg (st.push a i r) := by
  refine ⟨ha, hi, ?_⟩
  intro p hp
  rcases List.mem_append.1 hp with h | h
  · exact hpool p h
  · simp only [List.mem_singleton] at h; subst h; exact wr

/-- one call keeps the structural invariant -/
theorem step_wfs (st st' : St A I) (op : Op) (hinv : InvS A I cfg st)
    (hstep : step A I cfg fuel st op = some st') : InvS A I cfg st' := by
  obtain ⟨hA, hI, hpool⟩ := hinv
  have wfAt : ∀ {i p}, st.pool[i]? = some p → WFs cfg.vt p :=
    fun h => hpool _ (List.mem_of_getElem? h)
  cases op with
  | const b =>
    simp only [step, Option.some.injEq] at hstep; subst hstep
    exact invS_push A I cfg hA hI (by cases b <;> simp [WFs]) hpool
  | var x pol =>
    simp only [step] at hstep
    split at hstep
    · rename_i hx
      simp only [Option.some.injEq] at hstep; subst hstep
      exact invS_push A I cfg hA hI (by simpa [WFs] using hasVar_iff.1 hx) hpool
    · cases hstep
  | neg i =>
    simp only [step, Option.map_eq_some_iff] at hstep
    obtain ⟨p, hp, rfl⟩ := hstep
    exact invS_push A I cfg hA hI (WFs_neg (wfAt hp)) hpool
  | and i j =>
    simp only [step] at hstep
    split at hstep
    · rename_i p q hp hq
      simp only [Option.map_eq_some_iff] at hstep
      obtain ⟨⟨s, r⟩, hrun, rfl⟩ := hstep
      obtain ⟨hs', wr, _⟩ := bAnd_s A cfg hc hnd fuel _ _ _ _ _ hA (wfAt hp) (wfAt hq) hrun
      exact invS_push A I cfg hs' hI wr hpool
    · cases hstep
  | or i j =>
    simp only [step] at hstep
    split at hstep
    · rename_i p q hp hq
      simp only [Option.map_eq_some_iff] at hstep
      obtain ⟨⟨s, r⟩, hrun, rfl⟩ := hstep
      obtain ⟨hs', wr⟩ := bOr_s A cfg hc hnd fuel hA (wfAt hp) (wfAt hq) hrun
      exact invS_push A I cfg hs' hI wr hpool
    · cases hstep
  | xor i j =>
    simp only [step] at hstep
    split at hstep
    · rename_i p q hp hq
      simp only [Option.map_eq_some_iff] at hstep
      obtain ⟨⟨s, r⟩, hrun, rfl⟩ := hstep
      obtain ⟨hs', hi', wr⟩ := bIte_s A I cfg hc hnd fuel (s := (st.app, st.ite)) hA hI (wfAt hp)
        (WFs_neg (wfAt hq)) (wfAt hq) hrun
      exact invS_push A I cfg hs' hi' wr hpool
    · cases hstep
  | iff i j =>
    simp only [step] at hstep
    split at hstep
    · rename_i p q hp hq
      simp only [Option.map_eq_some_iff] at hstep
      obtain ⟨⟨s, r⟩, hrun, rfl⟩ := hstep
      obtain ⟨hs', hi', wr⟩ := bIte_s A I cfg hc hnd fuel (s := (st.app, st.ite)) hA hI (wfAt hp)
        (wfAt hq) (WFs_neg (wfAt hq)) hrun
      exact invS_push A I cfg hs' hi' wr hpool
    · cases hstep
  | ite i j k =>
    simp only [step] at hstep
    split at hstep
    · rename_i p q r0 hp hq hr0
      simp only [Option.map_eq_some_iff] at hstep
      obtain ⟨⟨s, r⟩, hrun, rfl⟩ := hstep
      obtain ⟨hs', hi', wr⟩ := bIte_s A I cfg hc hnd fuel (s := (st.app, st.ite)) hA hI (wfAt hp)
        (wfAt hq) (wfAt hr0) hrun
      exact invS_push A I cfg hs' hi' wr hpool
    · cases hstep
  | cond i x b =>
    simp only [step] at hstep
    split at hstep
    · rename_i p hp
      simp only [Option.map_eq_some_iff] at hstep
      obtain ⟨⟨s, r⟩, hrun, rfl⟩ := hstep
      obtain ⟨hs', wr⟩ := bCond_s A cfg hc hnd fuel hA (wfAt hp) hrun
      exact invS_push A I cfg hs' hI wr hpool
    · cases hstep
  | exist i x =>
    simp only [step] at hstep
    split at hstep
    · rename_i p hp
      simp only [Option.map_eq_some_iff] at hstep
      obtain ⟨⟨s, r⟩, hrun, rfl⟩ := hstep
      obtain ⟨hs', wr⟩ := bExists_s A cfg hc hnd fuel hA (wfAt hp) hrun
      exact invS_push A I cfg hs' hI wr hpool
    · cases hstep
  | compose i x j =>
    simp only [step] at hstep
    split at hstep
    · rename_i hx
      split at hstep
      · rename_i p q hp hq
        simp only [Option.map_eq_some_iff] at hstep
        obtain ⟨⟨s, r⟩, hrun, rfl⟩ := hstep
        obtain ⟨hs', hi', wr⟩ := bCompose_s A I cfg hc hnd fuel (s := (st.app, st.ite)) hA hI hx
          (wfAt hp) (wfAt hq) hrun
        exact invS_push A I cfg hs' hi' wr hpool
      · cases hstep
    · cases hstep

theorem runFrom_wfs : ∀ (ops : List Op) (st st' : St A I), InvS A I cfg st →
    runFrom A I cfg fuel st ops = some st' → InvS A I cfg st'
  | [], st, st', hinv, hrun => by
    simp only [runFrom, Option.some.injEq] at hrun; subst hrun; exact hinv
  | op :: ops, st, st', hinv, hrun => by
    simp only [runFrom] at hrun
    split at hrun
    · cases hrun
    · rename_i st1 h1
      exact runFrom_wfs ops st1 st' (step_wfs A I cfg hc hnd fuel st st1 op hinv h1) hrun

/-- **C04, well-formedness.**  Every SDD in the pool of a run of the compressing builder (from
the fresh builder, any program, any lawful caches, any fuel, any vtree with distinct leaf labels)
is well formed: primes non-false, pairwise exclusive, exhaustive, over the left child's variables;
subs over the right child's variables and pairwise distinct; trimmed; in pointer normal form. -/
theorem wfs_of_run (ops : List Op) (st : St A I)
    (hrun : runFrom A I cfg fuel (St.init A I) ops = some st) : ∀ p ∈ st.pool, WFs cfg.vt p :=
  (runFrom_wfs A I cfg hc hnd fuel ops _ st (invS_init A I cfg) hrun).2.2

/-- **C04, canonicity of a run**: two diagrams handed out by one compressing builder denote the
same Boolean function iff they are the same pointer -/
theorem run_canonical (ops : List Op) (st : St A I)
    (hrun : runFrom A I cfg fuel (St.init A I) ops = some st) {p q : Ptr} (hp : p ∈ st.pool)
    (hq : q ∈ st.pool) : (∀ asg, p.eval asg = q.eval asg) ↔ p = q :=
  sdd_canon hnd (wfs_of_run A I cfg hc hnd fuel ops st hrun p hp)
    (wfs_of_run A I cfg hc hnd fuel ops st hrun q hq)

end

/-- the driver's `Sdd.run` with compression on -/
theorem run_wfs (vt : VTree) (hnd : vt.leaves.Nodup) (fuel : Nat) (ops : List Op) (pool : List Ptr)
    (h : run ⟨vt, true⟩ fuel ops = some pool) : ∀ p ∈ pool, WFs vt p := by
  simp only [run, Option.map_eq_some_iff] at h
  obtain ⟨st, hst, rfl⟩ := h
  exact wfs_of_run _ _ ⟨vt, true⟩ rfl hnd fuel ops st hst

/-! ## non-vacuity -/
section demo

/-- the balanced demo program of C03 returns with compression on, and every returned diagram is
well formed (instance of `run_wfs`; the leaf labels of `vtB` are distinct) -/
example : ∃ pool, run ⟨vtB, true⟩ 20 progB = some pool ∧ pool.length = 13 ∧
    ∀ p ∈ pool, WFs vtB p := by
  cases h : run ⟨vtB, true⟩ 20 progB with
  | none => exact absurd h (by decide +kernel)
  | some pool =>
    refine ⟨pool, rfl, ?_, run_wfs vtB (by decide) 20 progB pool h⟩
    have : (run ⟨vtB, true⟩ 20 progB).map List.length = some 13 := by decide +kernel
    rw [h] at this; simpa using this

/-- canonicity observed: `compose #7 x1 #6` and `x0 ⇔ ¬x3` (#6) are the same function and the
builder returned the same pointer for both -/
example : (run ⟨vtB, true⟩ 20 progB).map (fun pool => decide (pool[12]? = pool[6]?)) = some true := by
  decide +kernel

/-- without compression the same program returns a decision node with two equal subs, i.e. a
pointer that is *not* `WFs` (so the hypothesis `compress = true` of `wfs_of_run` matters) -/
example : (run ⟨vtB, false⟩ 20 progB).map (fun pool => (pool[5]?).map fun p =>
    match p with
    | .dec _ _ es => decide ((es.map (·.2)).Nodup)
    | _ => true) = some (some false) := by decide +kernel

end demo

#print axioms partition_unique
#print axioms sdd_canon
#print axioms wfs_of_run
#print axioms run_canonical
#print axioms run_wfs
end Sdd
