import RsddModel.Model.BddBuilder
import RsddModel.Model.BddCaches
import RsddModel.Lemmas.BddTotal
import RsddModel.Props.C01
/-!
# C01, totality — the BDD builder terminates and accepts exactly the valid programs

`C01.lean` proves *partial* correctness: **if** `run` returns `some st` then `st` refines the
specification.  This file adds the missing half.

* `Valid n ops` : a decidable predicate on programs — every operand index is inside the pool at
  the time of the call and every variable label is inside the order at the time of the call.
  These are exactly the conditions under which the Rust does not panic, and exactly the
  programs the Boolean-function specification accepts (`valid_iff_spec`);
* `run_total` : for every lawful cache, every injective level map and every
  `fuel ≥ fuelBound (n + numNewVars ops)` (a function of the number of variables only,
  `fuelBound N = N + 1`, tight), a valid program returns `some`;
* `run_total_correct` : combined with `run_refines`, total correctness for valid programs;
* `run_isSome_iff_valid` : with that much fuel the model returns iff the program is valid, i.e.
  with enough fuel the ONLY `none`s of the model are rejected calls — never exhaustion;
* `run_fuel_mono` : the final state does not depend on the amount of fuel once it suffices.
-/
namespace Bdd
open Spec

/-! ## valid programs -/

/-- the number of variables a call adds to the order -/
def Op.fresh : Op → Nat
  | .newVar _ => 1
  | _ => 0

/-- the call is not rejected by a builder with `nv` variables and `len` diagrams handed out:
indices inside the pool, labels inside the order -/
def opValid (nv len : Nat) : Op → Bool
  | .const _ => true
  | .var x _ => decide (x < nv)
  | .newVar _ => true
  | .neg i => decide (i < len)
  | .and i j | .or i j | .xor i j | .iff i j => decide (i < len) && decide (j < len)
  | .ite i j k => decide (i < len) && decide (j < len) && decide (k < len)
  | .cond i x _ => decide (x < nv) && decide (i < len)
  | .condModel i m => m.all (fun (x, _) => decide (x < nv)) && decide (i < len)
  | .exist i x => decide (x < nv) && decide (i < len)
  | .compose i x j => decide (x < nv) && decide (i < len) && decide (j < len)
  | .andLst is | .orLst is => is.all (fun i => decide (i < len))

/-- every call of the program is valid at the time it is made (each call hands out one diagram,
`newVar` extends the order by one variable) -/
def validFrom : Nat → Nat → List Op → Bool
  | _, _, [] => true
  | nv, len, op :: ops => opValid nv len op && validFrom (nv + op.fresh) (len + 1) ops

/-- a program for a builder created with `n` variables and an empty pool is valid -/
def Valid (n : Nat) (ops : List Op) : Prop := validFrom n 0 ops = true

instance (n : Nat) (ops : List Op) : Decidable (Valid n ops) := by unfold Valid; infer_instance

/-- the number of `newVar` calls of a program -/
def numNewVars : List Op → Nat
  | [] => 0
  | op :: ops => op.fresh + numNewVars ops

/-! ## one call -/

/-- the invariant of the totality argument: the cache and the pool only hold well formed
diagrams over the first `M` variables (`M` = the final size of the order) -/
def TInv (C : CacheImpl) (lvl : Nat → Nat) (M : Nat) (st : St C) : Prop :=
  CacheGood C lvl M st.cache ∧ ∀ p ∈ st.pool, Good lvl M p

theorem tinv_init (C : CacheImpl) (lvl : Nat → Nat) (M n : Nat) : TInv C lvl M (St.init C n) :=
  ⟨cacheGood_empty C lvl M, fun p hp => by simp [St.init] at hp⟩

theorem get_of_lt {pool : List Ptr} {i : Nat} (h : i < pool.length) :
    ∃ p, pool[i]? = some p ∧ p ∈ pool :=
  ⟨pool[i], List.getElem?_eq_getElem h, List.getElem_mem h⟩

theorem getAll_of_all {pool : List Ptr} : ∀ {is : List Nat},
    is.all (fun i => decide (i < pool.length)) = true →
    ∃ ps, getAll pool is = some ps ∧ ∀ p ∈ ps, p ∈ pool
  | [], _ => ⟨[], rfl, fun p hp => by cases hp⟩
  | i :: is, h => by
    simp only [List.all_cons, Bool.and_eq_true, decide_eq_true_eq] at h
    obtain ⟨p, hp, hmem⟩ := get_of_lt h.1
    obtain ⟨ps, hps, hall⟩ := getAll_of_all h.2
    refine ⟨p :: ps, by simp only [getAll, hp, hps], ?_⟩
    intro q hq
    rcases List.mem_cons.1 hq with e | e
    · subst e; exact hmem
    · exact hall q e

/-- what one accepted call achieves -/
def StepTotal (C : CacheImpl) (lvl : Nat → Nat) (M fuel : Nat) (st : St C) (op : Op) : Prop :=
  ∃ st', step C lvl fuel st op = some st' ∧ TInv C lvl M st' ∧
    st'.numVars = st.numVars + op.fresh ∧ st'.pool.length = st.pool.length + 1

theorem tinv_push {C : CacheImpl} {lvl : Nat → Nat} {M : Nat} {st : St C} {s' : C.σ} {n' : Nat}
    {r : Ptr} (hs : CacheGood C lvl M s') (hpool : ∀ p ∈ st.pool, Good lvl M p)
    (hr : Good lvl M r) : TInv C lvl M ⟨s', n', st.pool ++ [r]⟩ := by
  refine ⟨hs, ?_⟩
  intro p hp
  rcases List.mem_append.1 hp with h | h
  · exact hpool p h
  · simp only [List.mem_singleton] at h; subst h; exact hr

/-- a call whose result is computed by the apply machinery -/
theorem stepTotal_of_post {C : CacheImpl} {lvl : Nat → Nat} {M fuel : Nat} {st : St C} {op : Op}
    {res : Option (C.σ × Ptr)} (hfresh : op.fresh = 0)
    (hstep : step C lvl fuel st op =
      res.map fun (s, r) => { st with cache := s, pool := st.pool ++ [r] })
    (hpool : ∀ p ∈ st.pool, Good lvl M p) (hpost : Post C lvl M res) :
    StepTotal C lvl M fuel st op := by
  obtain ⟨s', r, rfl, hs', hr⟩ := hpost
  refine ⟨_, hstep, tinv_push hs' hpool hr, by simp [hfresh], by simp⟩

/-- a call that does not touch the cache -/
theorem stepTotal_pure {C : CacheImpl} {lvl : Nat → Nat} {M fuel : Nat} {st : St C} {op : Op}
    (n' : Nat) (r : Ptr) (hn : n' = st.numVars + op.fresh)
    (hstep : step C lvl fuel st op = some ⟨st.cache, n', st.pool ++ [r]⟩)
    (hinv : TInv C lvl M st) (hr : Good lvl M r) : StepTotal C lvl M fuel st op :=
  ⟨_, hstep, tinv_push hinv.1 hinv.2 hr, hn, by simp⟩

/-- **one call is total**: a valid call on a state satisfying the invariant returns, keeps the
invariant, hands out exactly one diagram, and extends the order by `op.fresh` variables -/
theorem step_total (C : CacheImpl) (lvl : Nat → Nat) (inj : ∀ x y, lvl x = lvl y → x = y)
    {M fuel : Nat} (st : St C) (op : Op) (hinv : TInv C lvl M st)
    (hv : opValid st.numVars st.pool.length op = true) (hM : st.numVars + op.fresh ≤ M)
    (hb : fuelBound M ≤ fuel) : StepTotal C lvl M fuel st op := by
  obtain ⟨hs, hpool⟩ := hinv
  cases op with
  | const b =>
    refine stepTotal_pure st.numVars (if b then .tru else .fls) rfl rfl ⟨hs, hpool⟩ ?_
    cases b
    · exact good_fls lvl M
    · exact good_tru lvl M
  | var x pol =>
    simp only [opValid, decide_eq_true_eq] at hv
    exact stepTotal_pure st.numVars (mkVar x pol) rfl (by simp only [step, hv, if_true]) ⟨hs, hpool⟩
      (good_mkVar lvl pol (by simp only [Op.fresh] at hM; omega))
  | newVar pol =>
    exact stepTotal_pure (st.numVars + 1) (mkVar st.numVars pol) rfl rfl ⟨hs, hpool⟩
      (good_mkVar lvl pol (by simp only [Op.fresh] at hM; omega))
  | neg i =>
    simp only [opValid, decide_eq_true_eq] at hv
    obtain ⟨p, hp, hmem⟩ := get_of_lt hv
    exact stepTotal_pure st.numVars p.neg rfl (by simp only [step, hp, Option.map_some]) ⟨hs, hpool⟩
      (hpool p hmem).neg
  | and i j =>
    simp only [opValid, Bool.and_eq_true, decide_eq_true_eq] at hv
    obtain ⟨p, hp, hmp⟩ := get_of_lt hv.1
    obtain ⟨q, hq, hmq⟩ := get_of_lt hv.2
    exact stepTotal_of_post rfl (by simp only [step, hp, hq]) hpool
      (bAnd_total_N C lvl inj hs (hpool p hmp) (hpool q hmq) hb)
  | or i j =>
    simp only [opValid, Bool.and_eq_true, decide_eq_true_eq] at hv
    obtain ⟨p, hp, hmp⟩ := get_of_lt hv.1
    obtain ⟨q, hq, hmq⟩ := get_of_lt hv.2
    exact stepTotal_of_post rfl (by simp only [step, hp, hq]) hpool
      (bOr_total_N C lvl inj hs (hpool p hmp) (hpool q hmq) hb)
  | xor i j =>
    simp only [opValid, Bool.and_eq_true, decide_eq_true_eq] at hv
    obtain ⟨p, hp, hmp⟩ := get_of_lt hv.1
    obtain ⟨q, hq, hmq⟩ := get_of_lt hv.2
    exact stepTotal_of_post rfl (by simp only [step, hp, hq]) hpool
      (bXor_total_N C lvl inj hs (hpool p hmp) (hpool q hmq) hb)
  | iff i j =>
    simp only [opValid, Bool.and_eq_true, decide_eq_true_eq] at hv
    obtain ⟨p, hp, hmp⟩ := get_of_lt hv.1
    obtain ⟨q, hq, hmq⟩ := get_of_lt hv.2
    exact stepTotal_of_post rfl (by simp only [step, hp, hq]) hpool
      (bIff_total_N C lvl inj hs (hpool p hmp) (hpool q hmq) hb)
  | ite i j k =>
    simp only [opValid, Bool.and_eq_true, decide_eq_true_eq] at hv
    obtain ⟨p, hp, hmp⟩ := get_of_lt hv.1.1
    obtain ⟨q, hq, hmq⟩ := get_of_lt hv.1.2
    obtain ⟨r0, hr0, hmr⟩ := get_of_lt hv.2
    exact stepTotal_of_post rfl (by simp only [step, hp, hq, hr0]) hpool
      (ite_total_N C lvl inj hs (hpool p hmp) (hpool q hmq) (hpool r0 hmr) hb)
  | cond i x b =>
    simp only [opValid, Bool.and_eq_true, decide_eq_true_eq] at hv
    obtain ⟨p, hp, hmp⟩ := get_of_lt hv.2
    exact stepTotal_pure st.numVars (condition lvl p x b) rfl
      (by simp only [step, hv.1, if_true, hp, Option.map_some]) ⟨hs, hpool⟩
      (good_condition lvl x b (hpool p hmp))
  | condModel i m =>
    simp only [opValid, Bool.and_eq_true, decide_eq_true_eq] at hv
    obtain ⟨p, hp, hmp⟩ := get_of_lt hv.2
    exact stepTotal_pure st.numVars (condModel lvl p m) rfl
      (by simp only [step, hv.1, if_true, hp, Option.map_some]) ⟨hs, hpool⟩
      (good_condModel lvl m (hpool p hmp))
  | exist i x =>
    simp only [opValid, Bool.and_eq_true, decide_eq_true_eq] at hv
    obtain ⟨p, hp, hmp⟩ := get_of_lt hv.2
    exact stepTotal_of_post rfl (by simp only [step, hv.1, if_true, hp]) hpool
      (bExists_total_N C lvl inj x hs (hpool p hmp) hb)
  | compose i x j =>
    simp only [opValid, Bool.and_eq_true, decide_eq_true_eq] at hv
    obtain ⟨p, hp, hmp⟩ := get_of_lt hv.1.2
    obtain ⟨q, hq, hmq⟩ := get_of_lt hv.2
    exact stepTotal_of_post rfl (by simp only [step, hv.1.1, if_true, hp, hq]) hpool
      (bCompose_total_N C lvl inj (x := x) (by simp only [Op.fresh] at hM; omega) hs (hpool p hmp)
        (hpool q hmq) hb)
  | andLst is =>
    simp only [opValid] at hv
    obtain ⟨ps, hps, hall⟩ := getAll_of_all hv
    exact stepTotal_of_post rfl (by simp only [step, hps]) hpool
      (bAndLst_total_N C lvl inj ps hs (good_tru lvl M) (fun p hp => hpool p (hall p hp)) hb)
  | orLst is =>
    simp only [opValid] at hv
    obtain ⟨ps, hps, hall⟩ := getAll_of_all hv
    exact stepTotal_of_post rfl (by simp only [step, hps]) hpool
      (bOrLst_total_N C lvl inj ps hs (good_fls lvl M) (fun p hp => hpool p (hall p hp)) hb)

/-! ## any number of calls -/

/-- totality from any state satisfying the invariant; `M` bounds the final size of the order -/
theorem run_total_gen (C : CacheImpl) (lvl : Nat → Nat) (inj : ∀ x y, lvl x = lvl y → x = y)
    {M fuel : Nat} (hb : fuelBound M ≤ fuel) : ∀ (ops : List Op) (st : St C), TInv C lvl M st →
    validFrom st.numVars st.pool.length ops = true → st.numVars + numNewVars ops ≤ M →
    ∃ st', run C lvl fuel st ops = some st' ∧ TInv C lvl M st'
  | [], st, hinv, _, _ => ⟨st, rfl, hinv⟩
  | op :: ops, st, hinv, hv, hM => by
    simp only [validFrom, Bool.and_eq_true] at hv
    simp only [numNewVars] at hM
    obtain ⟨st1, h1, hinv1, hn1, hl1⟩ :=
      step_total C lvl inj st op hinv hv.1 (by omega) hb
    obtain ⟨st', h2, hinv'⟩ := run_total_gen C lvl inj hb ops st1 hinv1
      (by rw [hn1, hl1]; exact hv.2) (by rw [hn1]; omega)
    exact ⟨st', by simp only [run, h1, h2], hinv'⟩

/-- **C01, totality.**  For every lawful apply cache `C`, every injective level map `lvl`, every
valid program `ops` for a builder created with `n` variables, and every amount of fuel that is at
least `fuelBound` of the final number of variables (`n + numNewVars ops + 1`), the model
returns: no call is rejected and the recursion of `ite` never runs out of fuel. -/
theorem run_total (C : CacheImpl) (lvl : Nat → Nat) (inj : ∀ x y, lvl x = lvl y → x = y)
    (n fuel : Nat) (ops : List Op) (hv : Valid n ops)
    (hb : fuelBound (n + numNewVars ops) ≤ fuel) :
    ∃ st, run C lvl fuel (St.init C n) ops = some st := by
  obtain ⟨st, h, _⟩ := run_total_gen C lvl inj hb ops (St.init C n)
    (tinv_init C lvl _ n) hv (Nat.le_refl _)
  exact ⟨st, h⟩

/-- **C01, total correctness for valid programs**: the model returns a state, the specification
accepts the program, diagram `i` of the final pool denotes Boolean function `i` of the
specification's pool, and the builder invariant holds at the end. -/
theorem run_total_correct (C : CacheImpl) (lvl : Nat → Nat) (inj : ∀ x y, lvl x = lvl y → x = y)
    (n fuel : Nat) (ops : List Op) (hv : Valid n ops)
    (hb : fuelBound (n + numNewVars ops) ≤ fuel) :
    ∃ st sp, run C lvl fuel (St.init C n) ops = some st ∧ specRun (n, []) ops = some sp ∧
      Rel st sp ∧ Inv C lvl st := by
  obtain ⟨st, h⟩ := run_total C lvl inj n fuel ops hv hb
  obtain ⟨sp, h1, h2, h3⟩ := run_refines C lvl inj fuel n ops st h
  exact ⟨st, sp, h, h1, h2, h3⟩

/-! ## `Valid` is exactly the domain of the specification -/

theorem getAllFn_isSome {pool : List BoolFn} : ∀ (is : List Nat),
    (getAllFn pool is).isSome = is.all (fun i => decide (i < pool.length))
  | [] => rfl
  | i :: is => by
    have ih := getAllFn_isSome (pool := pool) is
    simp only [getAllFn, List.all_cons]
    by_cases hi : i < pool.length
    · rw [List.getElem?_eq_getElem hi]
      cases hr : getAllFn pool is with
      | none => rw [hr] at ih; simp [← ih]
      | some ps => rw [hr] at ih; simp [← ih, hi]
    · rw [List.getElem?_eq_none (by omega)]
      simp [hi]

set_option linter.unusedSimpArgs false in
/-- the specification accepts a call iff the call is valid; an accepted call appends one
function and adds `op.fresh` variables -/
theorem specStep_valid (sp : Nat × List BoolFn) (op : Op) :
    (opValid sp.1 sp.2.length op = true →
      ∃ f, specStep sp op = some (sp.1 + op.fresh, sp.2 ++ [f])) ∧
    (opValid sp.1 sp.2.length op = false → specStep sp op = none) := by
  obtain ⟨nv, fs⟩ := sp
  have get_lt : ∀ {i} (h : i < fs.length), fs[i]? = some (fs[i]'h) := fun h => List.getElem?_eq_getElem h
  have get_ge : ∀ {i}, ¬ i < fs.length → fs[i]? = none :=
    fun h => List.getElem?_eq_none (by omega)
  cases op with
  | const b => exact ⟨fun _ => ⟨_, rfl⟩, fun h => by simp [opValid] at h⟩
  | var x pol =>
    simp only [opValid, decide_eq_true_eq, decide_eq_false_iff_not, specStep]
    exact ⟨fun h => by simp only [h, Op.fresh, if_true, Option.map_some]; exact ⟨_, rfl⟩, fun h => by simp [h]⟩
  | newVar pol => exact ⟨fun _ => ⟨_, rfl⟩, fun h => by simp [opValid] at h⟩
  | neg i =>
    simp only [opValid, decide_eq_true_eq, decide_eq_false_iff_not, specStep]
    exact ⟨fun h => by simp only [get_lt h, Op.fresh, if_true, Option.map_some]; exact ⟨_, rfl⟩, fun h => by simp [get_ge h]⟩
  | and i j =>
    simp only [opValid, Bool.and_eq_true, Bool.and_eq_false_iff, decide_eq_true_eq,
      decide_eq_false_iff_not, specStep]
    refine ⟨fun h => by simp only [get_lt h.1, get_lt h.2, Op.fresh, if_true, Option.map_some]; exact ⟨_, rfl⟩, fun h => ?_⟩
    rcases h with h | h <;> simp [get_ge h]
  | or i j =>
    simp only [opValid, Bool.and_eq_true, Bool.and_eq_false_iff, decide_eq_true_eq,
      decide_eq_false_iff_not, specStep]
    refine ⟨fun h => by simp only [get_lt h.1, get_lt h.2, Op.fresh, if_true, Option.map_some]; exact ⟨_, rfl⟩, fun h => ?_⟩
    rcases h with h | h <;> simp [get_ge h]
  | xor i j =>
    simp only [opValid, Bool.and_eq_true, Bool.and_eq_false_iff, decide_eq_true_eq,
      decide_eq_false_iff_not, specStep]
    refine ⟨fun h => by simp only [get_lt h.1, get_lt h.2, Op.fresh, if_true, Option.map_some]; exact ⟨_, rfl⟩, fun h => ?_⟩
    rcases h with h | h <;> simp [get_ge h]
  | iff i j =>
    simp only [opValid, Bool.and_eq_true, Bool.and_eq_false_iff, decide_eq_true_eq,
      decide_eq_false_iff_not, specStep]
    refine ⟨fun h => by simp only [get_lt h.1, get_lt h.2, Op.fresh, if_true, Option.map_some]; exact ⟨_, rfl⟩, fun h => ?_⟩
    rcases h with h | h <;> simp [get_ge h]
  | ite i j k =>
    simp only [opValid, Bool.and_eq_true, Bool.and_eq_false_iff, decide_eq_true_eq,
      decide_eq_false_iff_not, specStep]
    refine ⟨fun h => by simp only [get_lt h.1.1, get_lt h.1.2, get_lt h.2, Op.fresh, if_true, Option.map_some]; exact ⟨_, rfl⟩, fun h => ?_⟩
    rcases h with (h | h) | h <;> simp [get_ge h]
  | cond i x b =>
    simp only [opValid, Bool.and_eq_true, Bool.and_eq_false_iff, decide_eq_true_eq,
      decide_eq_false_iff_not, specStep]
    refine ⟨fun h => by simp only [h.1, get_lt h.2, Op.fresh, if_true, Option.map_some]; exact ⟨_, rfl⟩, fun h => ?_⟩
    rcases h with h | h
    · simp [h]
    · simp [get_ge h]
  | condModel i m =>
    simp only [opValid, Bool.and_eq_true, Bool.and_eq_false_iff, decide_eq_true_eq,
      decide_eq_false_iff_not, specStep]
    refine ⟨fun h => ?_, fun h => ?_⟩
    · simp only [h.1, if_true, get_lt h.2, Option.map_some, Op.fresh]; exact ⟨_, rfl⟩
    rcases h with h | h
    · simp only [h, Bool.false_eq_true, if_false]
    · simp [get_ge h]
  | exist i x =>
    simp only [opValid, Bool.and_eq_true, Bool.and_eq_false_iff, decide_eq_true_eq,
      decide_eq_false_iff_not, specStep]
    refine ⟨fun h => by simp only [h.1, get_lt h.2, Op.fresh, if_true, Option.map_some]; exact ⟨_, rfl⟩, fun h => ?_⟩
    rcases h with h | h
    · simp [h]
    · simp [get_ge h]
  | compose i x j =>
    simp only [opValid, Bool.and_eq_true, Bool.and_eq_false_iff, decide_eq_true_eq,
      decide_eq_false_iff_not, specStep]
    refine ⟨fun h => by simp only [h.1.1, get_lt h.1.2, get_lt h.2, Op.fresh, if_true, Option.map_some]; exact ⟨_, rfl⟩, fun h => ?_⟩
    rcases h with (h | h) | h
    · simp [h]
    · simp [get_ge h]
    · simp [get_ge h]
  | andLst is =>
    have := getAllFn_isSome (pool := fs) is
    simp only [opValid, specStep]
    cases hr : getAllFn fs is with
    | none => rw [hr] at this; simp [← this]
    | some ps => rw [hr] at this; simp [← this, Op.fresh]
  | orLst is =>
    have := getAllFn_isSome (pool := fs) is
    simp only [opValid, specStep]
    cases hr : getAllFn fs is with
    | none => rw [hr] at this; simp [← this]
    | some ps => rw [hr] at this; simp [← this, Op.fresh]

theorem validFrom_iff_spec : ∀ (ops : List Op) (sp : Nat × List BoolFn),
    validFrom sp.1 sp.2.length ops = true ↔ (specRun sp ops).isSome = true
  | [], sp => by simp [validFrom, specRun]
  | op :: ops, sp => by
    obtain ⟨h1, h2⟩ := specStep_valid sp op
    simp only [validFrom, Bool.and_eq_true, specRun]
    cases hv : opValid sp.1 sp.2.length op with
    | false => simp [h2 hv]
    | true =>
      obtain ⟨f, hf⟩ := h1 hv
      have ih := validFrom_iff_spec ops (sp.1 + op.fresh, sp.2 ++ [f])
      simp only [List.length_append, List.length_singleton] at ih
      simp only [hf, true_and]
      exact ih

/-- **`Valid` is exactly the domain of the specification**: the Boolean-function specification
accepts a program iff every call of it is valid -/
theorem valid_iff_spec (n : Nat) (ops : List Op) :
    Valid n ops ↔ (specRun (n, []) ops).isSome = true :=
  validFrom_iff_spec ops (n, [])

/-- **with enough fuel the model returns iff the program is valid**: the only `none`s left are
rejected calls (where the Rust panics), never fuel exhaustion -/
theorem run_isSome_iff_valid (C : CacheImpl) (lvl : Nat → Nat) (inj : ∀ x y, lvl x = lvl y → x = y)
    (n fuel : Nat) (ops : List Op) (hb : fuelBound (n + numNewVars ops) ≤ fuel) :
    (run C lvl fuel (St.init C n) ops).isSome = true ↔ Valid n ops := by
  constructor
  · intro h
    cases hr : run C lvl fuel (St.init C n) ops with
    | none => rw [hr] at h; cases h
    | some st =>
      obtain ⟨sp, h1, _⟩ := run_refines C lvl inj fuel n ops st hr
      exact (valid_iff_spec n ops).2 (by rw [h1]; rfl)
  · intro hv
    obtain ⟨st, h⟩ := run_total C lvl inj n fuel ops hv hb
    rw [h]; rfl

/-! ## the result does not depend on the fuel -/

section mono
variable {C : CacheImpl} {lvl : Nat → Nat} {fuel fuel' : Nat}

theorem bOr_fuel_mono {s : C.σ} {f g : Ptr} {r : C.σ × Ptr} (hle : fuel ≤ fuel')
    (hr : bOr C lvl fuel s f g = some r) : bOr C lvl fuel' s f g = some r := by
  unfold bOr bAnd at hr ⊢
  split at hr
  · rename_i s' r' h1; rw [ite_fuel_mono C lvl h1 hle]; exact hr
  · cases hr

theorem bCompose_fuel_mono {s : C.σ} {f g : Ptr} {x : Nat} {r : C.σ × Ptr} (hle : fuel ≤ fuel')
    (hr : bCompose C lvl fuel s f x g = some r) : bCompose C lvl fuel' s f x g = some r := by
  unfold bCompose bIff bAnd at hr ⊢
  split at hr
  · cases hr
  · rename_i s1 i h1
    rw [ite_fuel_mono C lvl h1 hle]
    split at hr
    · cases hr
    · rename_i s2 a h2
      rw [ite_fuel_mono C lvl h2 hle]
      exact bOr_fuel_mono hle hr

theorem bAndLst_fuel_mono (hle : fuel ≤ fuel') : ∀ (ps : List Ptr) {s : C.σ} {acc : Ptr}
    {r : C.σ × Ptr}, bAndLst C lvl fuel s acc ps = some r → bAndLst C lvl fuel' s acc ps = some r
  | [], _, _, _, hr => hr
  | p :: ps, s, acc, r, hr => by
    simp only [bAndLst] at hr ⊢
    split at hr
    · cases hr
    · rename_i s1 r1 h1
      unfold bAnd at h1 ⊢
      rw [ite_fuel_mono C lvl h1 hle]
      exact bAndLst_fuel_mono hle ps hr

theorem bOrLst_fuel_mono (hle : fuel ≤ fuel') : ∀ (ps : List Ptr) {s : C.σ} {acc : Ptr}
    {r : C.σ × Ptr}, bOrLst C lvl fuel s acc ps = some r → bOrLst C lvl fuel' s acc ps = some r
  | [], _, _, _, hr => hr
  | p :: ps, s, acc, r, hr => by
    simp only [bOrLst] at hr ⊢
    split at hr
    · cases hr
    · rename_i s1 r1 h1
      rw [bOr_fuel_mono hle h1]
      exact bOrLst_fuel_mono hle ps hr

theorem map_fuel_mono {α β : Type} {a b : Option α} {g : α → β} {y : β}
    (h : ∀ x, a = some x → b = some x) (hy : a.map g = some y) : b.map g = some y := by
  cases a with
  | none => cases hy
  | some x => rw [h x rfl]; exact hy

theorem step_fuel_mono (hle : fuel ≤ fuel') (st st' : St C) (op : Op)
    (hr : step C lvl fuel st op = some st') : step C lvl fuel' st op = some st' := by
  cases op with
  | const b => exact hr
  | var x pol => exact hr
  | newVar pol => exact hr
  | neg i => exact hr
  | cond i x b => exact hr
  | condModel i m => exact hr
  | and i j =>
    simp only [step] at hr ⊢
    split at hr
    · exact map_fuel_mono (fun x hx => ite_fuel_mono C lvl hx hle) hr
    · cases hr
  | or i j =>
    simp only [step] at hr ⊢
    split at hr
    · exact map_fuel_mono (fun x hx => bOr_fuel_mono hle hx) hr
    · cases hr
  | xor i j =>
    simp only [step] at hr ⊢
    split at hr
    · exact map_fuel_mono (fun x hx => ite_fuel_mono C lvl hx hle) hr
    · cases hr
  | iff i j =>
    simp only [step] at hr ⊢
    split at hr
    · exact map_fuel_mono (fun x hx => ite_fuel_mono C lvl hx hle) hr
    · cases hr
  | ite i j k =>
    simp only [step] at hr ⊢
    split at hr
    · exact map_fuel_mono (fun x hx => ite_fuel_mono C lvl hx hle) hr
    · cases hr
  | exist i x =>
    simp only [step] at hr ⊢
    split at hr
    · rename_i hx
      rw [if_pos hx]
      split at hr
      · exact map_fuel_mono (fun x hx => bOr_fuel_mono hle hx) hr
      · cases hr
    · cases hr
  | compose i x j =>
    simp only [step] at hr ⊢
    split at hr
    · rename_i hx
      rw [if_pos hx]
      split at hr
      · exact map_fuel_mono (fun x hx => bCompose_fuel_mono hle hx) hr
      · cases hr
    · cases hr
  | andLst is =>
    simp only [step] at hr ⊢
    split at hr
    · exact map_fuel_mono (fun x hx => bAndLst_fuel_mono hle _ hx) hr
    · cases hr
  | orLst is =>
    simp only [step] at hr ⊢
    split at hr
    · exact map_fuel_mono (fun x hx => bOrLst_fuel_mono hle _ hx) hr
    · cases hr

/-- **fuel monotonicity of whole runs**: more fuel never changes the final state -/
theorem run_fuel_mono (hle : fuel ≤ fuel') : ∀ (ops : List Op) (st st' : St C),
    run C lvl fuel st ops = some st' → run C lvl fuel' st ops = some st'
  | [], _, _, hr => hr
  | op :: ops, st, st', hr => by
    simp only [run] at hr ⊢
    split at hr
    · cases hr
    · rename_i st1 h1
      rw [step_fuel_mono hle st st1 op h1]
      exact run_fuel_mono hle ops st1 st' hr

end mono

/-- the state a valid program produces is THE SAME for every sufficient amount of fuel: the
fuel is a proof device, not a parameter of the computed function -/
theorem run_fuel_irrelevant (C : CacheImpl) (lvl : Nat → Nat) (inj : ∀ x y, lvl x = lvl y → x = y)
    (n : Nat) (ops : List Op) (hv : Valid n ops) :
    ∃ st, ∀ fuel, fuelBound (n + numNewVars ops) ≤ fuel →
      run C lvl fuel (St.init C n) ops = some st := by
  obtain ⟨st, h⟩ := run_total C lvl inj n _ ops hv (Nat.le_refl _)
  exact ⟨st, fun fuel hb => run_fuel_mono hb ops _ st h⟩

/-! ## non-vacuity -/
section demo

/-- the program of `C01.lean` (every operation of the language, incl. `ite`, `exists`,
`compose`, conditioning, the list operations and a run-time `newVar`) is valid … -/
example : Valid 3 demoProg := by decide

/-- … its bound is `(3 + 1) + 1 = 5` … -/
example : fuelBound (3 + numNewVars demoProg) = 5 := by decide

/-- … and with exactly that much fuel the model really returns the expected pool -/
example : (run AllCache id 5 (St.init AllCache 3) demoProg).map (·.pool) = some demoPool := by
  decide

/-- the instance of `run_total_correct`, for every fuel from the bound on -/
example (fuel : Nat) (hb : 5 ≤ fuel) :
    ∃ st sp, run AllCache id fuel (St.init AllCache 3) demoProg = some st ∧
      specRun (3, []) demoProg = some sp ∧ Rel st sp ∧ Inv AllCache id st :=
  run_total_correct AllCache id (fun _ _ e => e) 3 fuel demoProg (by decide) hb

/-- invalid programs are rejected by `Valid` (and by the model, see `C01.lean`): a label outside
the order, an index outside the pool, a `compose` on a variable that is not there yet -/
example : ¬ Valid 3 [.var 3 true] := by decide
example : ¬ Valid 3 [.var 0 true, .and 0 1] := by decide
example : ¬ Valid 1 [.var 0 true, .compose 0 1 0, .newVar true] := by decide
example : Valid 1 [.var 0 true, .newVar true, .compose 0 1 1] := by decide

/-- the bound is tight: over `N = 3` variables, `(x0 ⊕ x1 ⊕ x2) ⊕ (x0 ⊕ x1)` needs `N + 1 = 4` units of fuel (one
per variable and one for the terminal case at the leaves); `N` units are not enough -/
example : fuelBound (3 + numNewVars
    [.var 0 true, .var 1 true, .var 2 true, .xor 0 1, .xor 3 2, .iff 4 4, .xor 4 3]) = 4 := by decide
example : (run AllCache id 4 (St.init AllCache 3)
    [.var 0 true, .var 1 true, .var 2 true, .xor 0 1, .xor 3 2, .iff 4 4, .xor 4 3]).isSome = true := by decide
example : run AllCache id 3 (St.init AllCache 3)
    [.var 0 true, .var 1 true, .var 2 true, .xor 0 1, .xor 3 2, .iff 4 4, .xor 4 3] = none := by decide

end demo

#print axioms step_total
#print axioms run_total
#print axioms run_total_correct
#print axioms valid_iff_spec
#print axioms run_isSome_iff_valid
#print axioms run_fuel_mono
#print axioms run_fuel_irrelevant
end Bdd
