import RsddModel.Lemmas.SddCompile
import RsddModel.Props.C03
import RsddModel.Props.C04
/-!
# C05 (SDD half) — bottom-up compilation with the SDD builder yields a diagram whose models are
exactly the satisfying assignments of the input

Property theorems only.  The work is in `Lemmas/BddCompile` (the compile functions are correct
for ANY record of builder operations meeting `Compile.OpsSpec`), `Lemmas/SddCompile` (the SDD
builder model meets that specification: `sddSpec`, from the C03 theorems of `Lemmas/SddSem`; the
SDD-specific `compile_cnf` is the generic one at `Sdd.ops`) and, for the canonicity extras,
`Lemmas/SddWF`, `Lemmas/SddWFRun`, `Props/C04`.

Every theorem is partial correctness (`… = some (s', r) → …`) and holds for EVERY lawful apply
cache `A` and ite cache `I`, EVERY vtree `vt` whose leaves contain the variables of the input
(leaf labels need not even be distinct for the semantic statements — distinctness is only used
for canonicity), BOTH compression settings `cmpr`, EVERY fuel, from ANY builder state satisfying
the invariant `CInv` (both caches sound and holding well formed results; the fresh builder
satisfies it, `cinv_empty`), and the invariant is re-established, so compilations can be chained
with any other builder calls.

* `sdd_compileCnf_correct` — `compile_cnf`, for EVERY permutation `cs'` of the clause list `cs`
  (the comparator given to `sort_by` is not a total order; nothing is assumed about the
  permutation): the result is well formed and its models are the satisfying assignments of `cs`.
  No hypothesis on the shape of `cs`: the empty formula, empty clauses, unit clauses, clauses with
  repeated and with complementary literals are covered.  `sdd_compileCnf_models` spells the
  semantics out; `sdd_compileCnf_empty`, `sdd_compileCnf_empty_clause` are the two early returns
  (they hold unconditionally, as equations); `sdd_compileCnf_sorted_correct` is the instance for
  the permutation of the current `std`; `sdd_compileCnf_raw_correct` starts from the clause list
  BEFORE the `Cnf::new` normalisation; `sdd_compileCnf_fresh` starts from the fresh builder.
* `sdd_compileExpr_correct`, `sdd_compilePlan_correct` — `compile_logical_expr`, `compile_plan`.
* `sdd_compileDtree_correct` — the plan `from_dtree` builds denotes the conjunction of the leaf
  clauses (`Compile.planFromDtree_sem`), so compiling it gives the models of that CNF.
* canonicity extras (compression on, distinct leaf labels; invariant `CInvS`):
  `sdd_compileCnf_wfs` (the result is compressed, trimmed and in pointer normal form),
  `sdd_compileCnf_perm_irrelevant` (the clause permutation, the caches and the fuel do not change
  the diagram), `sdd_compileDtree_eq_compileCnf` (the plan of a dtree and `compile_cnf` return
  the same diagram).
* `Sdd.compileCnf_total` (in `Lemmas/SddCompile`): the extra recursion bound of the model and the
  modelled `lit_vec[0]` panic are never the reason for `none`.
-/
namespace Sdd
open Spec Compile

section props
variable (A : CacheImpl (Ptr × Ptr)) (I : CacheImpl (Ptr × Ptr × Ptr)) (vt : VTree) (cmpr : Bool)
  (fuel : Nat)

/-! ## `compile_cnf` -/

/-- **C05, CNF, SDD builder**: for every permutation `cs'` of the clauses that `sort_by` may
produce, every vtree containing the variables of the CNF, both compression settings, every lawful
cache pair and every fuel -/
theorem sdd_compileCnf_correct {cs cs' : Cnf} (hperm : List.Perm cs cs') {s s' : A.σ × I.σ}
    {r : Ptr} (hinv : CInv A I vt s) (hvars : ∀ c ∈ cs, ∀ l ∈ c, l.var ∈ vt.leaves)
    (h : compileCnf A I ⟨vt, cmpr⟩ fuel s cs' = some (s', r)) :
    CInv A I vt s' ∧ WF vt r ∧ ∀ a, r.eval a = cnfSat a cs := by
  obtain ⟨h1, h2, h3⟩ := compileCnf_sem A I ⟨vt, cmpr⟩ fuel hperm hinv
    (fun c hc l hl => hasVar_iff.2 (hvars c hc l hl)) h
  exact ⟨h1, h2, fun a => congrFun h3 a⟩

/-- the semantics spelled out: `a` is a model of the diagram iff every clause has a literal that
`a` makes true (an empty clause has none, the empty formula has no clause) -/
theorem sdd_compileCnf_models {cs cs' : Cnf} (hperm : List.Perm cs cs') {s s' : A.σ × I.σ}
    {r : Ptr} (hinv : CInv A I vt s) (hvars : ∀ c ∈ cs, ∀ l ∈ c, l.var ∈ vt.leaves)
    (h : compileCnf A I ⟨vt, cmpr⟩ fuel s cs' = some (s', r)) (a : Assign) :
    r.eval a = true ↔ ∀ c ∈ cs, ∃ l ∈ c, a l.var = l.pol := by
  rw [(sdd_compileCnf_correct A I vt cmpr fuel hperm hinv hvars h).2.2 a]
  simp [cnfSat, clauseSat, litSat]

/-- the same statement as an equation of Boolean functions (`den` of C03, `cnfFn` of the spec) -/
theorem sdd_compileCnf_den {cs cs' : Cnf} (hperm : List.Perm cs cs') {s s' : A.σ × I.σ}
    {r : Ptr} (hinv : CInv A I vt s) (hvars : ∀ c ∈ cs, ∀ l ∈ c, l.var ∈ vt.leaves)
    (h : compileCnf A I ⟨vt, cmpr⟩ fuel s cs' = some (s', r)) : den r = cnfFn cs :=
  funext (sdd_compileCnf_correct A I vt cmpr fuel hperm hinv hvars h).2.2

/-- **the empty formula** compiles to `true`, in every state, with the state unchanged (no
hypothesis at all) -/
theorem sdd_compileCnf_empty (s : A.σ × I.σ) :
    compileCnf A I ⟨vt, cmpr⟩ fuel s [] = some (s, .tru) ∧ ∀ a, Ptr.tru.eval a = cnfSat a [] :=
  ⟨rfl, fun a => by simp [cnfSat]⟩

/-- **a CNF containing an empty clause** compiles to `false`, in every state, with the state
unchanged (no hypothesis on the other clauses: their variables may even lie outside the vtree) -/
theorem sdd_compileCnf_empty_clause (s : A.σ × I.σ) {cs : Cnf} (he : [] ∈ cs) :
    compileCnf A I ⟨vt, cmpr⟩ fuel s cs = some (s, .fls) ∧ ∀ a, Ptr.fls.eval a = cnfSat a cs := by
  have hne : cs.isEmpty = false := by cases cs with
    | nil => cases he
    | cons _ _ => rfl
  have hany : cs.any List.isEmpty = true := List.any_eq_true.2 ⟨[], he, rfl⟩
  refine ⟨?_, fun a => ?_⟩
  · simp [compileCnf, compileCnfA, hne, hany, withIte]
  · have : cnfSat a cs = false := by
      apply Bool.eq_false_iff.2
      intro hall
      have := List.all_eq_true.1 hall [] he
      simp [clauseSat] at this
    rw [this]; exact eval_fls a

/-- with the permutation the current `std` produces (stable sort by the vtree index of the last
literal) -/
theorem sdd_compileCnf_sorted_correct {cs : Cnf} {s s' : A.σ × I.σ} {r : Ptr}
    (hinv : CInv A I vt s) (hvars : ∀ c ∈ cs, ∀ l ∈ c, l.var ∈ vt.leaves)
    (h : compileCnf A I ⟨vt, cmpr⟩ fuel s (sortClausesSdd vt cs) = some (s', r)) :
    CInv A I vt s' ∧ WF vt r ∧ ∀ a, r.eval a = cnfSat a cs :=
  sdd_compileCnf_correct A I vt cmpr fuel (sortClausesSdd_perm vt cs) hinv hvars h

/-- from the clause list handed to `Cnf::new` (per-clause stable sort by label and `dedup`) -/
theorem sdd_compileCnf_raw_correct {raw : List Clause} {cs' : Cnf}
    (hperm : List.Perm (cnfNew raw) cs') {s s' : A.σ × I.σ} {r : Ptr} (hinv : CInv A I vt s)
    (hvars : ∀ c ∈ cnfNew raw, ∀ l ∈ c, l.var ∈ vt.leaves)
    (h : compileCnf A I ⟨vt, cmpr⟩ fuel s cs' = some (s', r)) :
    CInv A I vt s' ∧ WF vt r ∧ ∀ a, r.eval a = cnfSat a raw := by
  obtain ⟨h1, h2, h3⟩ := sdd_compileCnf_correct A I vt cmpr fuel hperm hinv hvars h
  exact ⟨h1, h2, fun a => by rw [h3 a, Bdd.cnfSat_cnfNew]⟩

/-- from the fresh builder (empty caches) -/
theorem sdd_compileCnf_fresh {cs cs' : Cnf} (hperm : List.Perm cs cs') {s' : A.σ × I.σ} {r : Ptr}
    (hvars : ∀ c ∈ cs, ∀ l ∈ c, l.var ∈ vt.leaves)
    (h : compileCnf A I ⟨vt, cmpr⟩ fuel (A.empty, I.empty) cs' = some (s', r)) :
    WF vt r ∧ ∀ a, r.eval a = cnfSat a cs :=
  (sdd_compileCnf_correct A I vt cmpr fuel hperm (cinv_empty A I vt) hvars h).2

/-- `compile_cnf` never touches the ite cache -/
theorem sdd_compileCnf_ite_untouched {cs : Cnf} {s s' : A.σ × I.σ} {r : Ptr}
    (h : compileCnf A I ⟨vt, cmpr⟩ fuel s cs = some (s', r)) : s'.2 = s.2 :=
  compileCnf_ite A I _ fuel h

/-- the mirror of the SDD-specific `compile_cnf` is the generic `compile_cnf` of
`Model/BddCompile` at the SDD operations -/
theorem sdd_compileCnf_eq_generic (s : A.σ × I.σ) (cs : Cnf) :
    compileCnf A I ⟨vt, cmpr⟩ fuel s cs = Compile.compileCnf (ops A I ⟨vt, cmpr⟩ fuel) s cs :=
  compileCnf_eq_generic A I _ fuel s cs

/-! ## logical expressions and plans -/

/-- **C05, logical expressions, SDD builder** -/
theorem sdd_compileExpr_correct (e : LogicalExpr) {s s' : A.σ × I.σ} {r : Ptr}
    (hinv : CInv A I vt s) (hvars : e.AllVars (· ∈ vt.leaves))
    (h : compileExpr (ops A I ⟨vt, cmpr⟩ fuel) s e = some (s', r)) :
    CInv A I vt s' ∧ WF vt r ∧ ∀ a, r.eval a = exprSem e a := by
  obtain ⟨h1, h2, h3⟩ := compileExpr_ok (sddSpec A I ⟨vt, cmpr⟩ fuel) e hinv
    (LogicalExpr.AllVars.mono (fun _ hv => hasVar_iff.2 hv) e hvars) h
  exact ⟨h1, h2, fun a => congrFun h3 a⟩

/-- **C05, plans, SDD builder** -/
theorem sdd_compilePlan_correct (p : Plan) {s s' : A.σ × I.σ} {r : Ptr}
    (hinv : CInv A I vt s) (hvars : p.AllVars (· ∈ vt.leaves))
    (h : compilePlan (ops A I ⟨vt, cmpr⟩ fuel) s p = some (s', r)) :
    CInv A I vt s' ∧ WF vt r ∧ ∀ a, r.eval a = planSem p a := by
  obtain ⟨h1, h2, h3⟩ := compilePlan_ok (sddSpec A I ⟨vt, cmpr⟩ fuel) p hinv
    (Plan.AllVars.mono (fun _ hv => hasVar_iff.2 hv) p hvars) h
  exact ⟨h1, h2, fun a => congrFun h3 a⟩

/-- **C05, plan of a dtree, SDD builder**: the plan `from_dtree` builds denotes the conjunction
of the dtree's leaf clauses (`planFromDtree_sem`, for ANY dtree), so the models of the compiled
diagram are the satisfying assignments of the CNF formed by the leaves -/
theorem sdd_compileDtree_correct (t : DTree) {s s' : A.σ × I.σ} {r : Ptr}
    (hinv : CInv A I vt s) (hvars : ∀ c ∈ t.clauses, ∀ l ∈ c, l.var ∈ vt.leaves)
    (h : compilePlan (ops A I ⟨vt, cmpr⟩ fuel) s (Plan.fromDtree t) = some (s', r)) :
    CInv A I vt s' ∧ WF vt r ∧ ∀ a, r.eval a = cnfSat a t.clauses := by
  obtain ⟨h1, h2, h3⟩ := sdd_compilePlan_correct A I vt cmpr fuel _ hinv
    (allVars_fromDtree _ t hvars) h
  exact ⟨h1, h2, fun a => by rw [h3 a, planFromDtree_sem]; rfl⟩

end props

/-! ## extras: with compression on and distinct leaf labels the results are canonical -/

section canonical
variable (A : CacheImpl (Ptr × Ptr)) (I : CacheImpl (Ptr × Ptr × Ptr))

/-- the structural builder-state invariant of C04 on the pair of cache states -/
def CInvS (vt : VTree) (s : A.σ × I.σ) : Prop :=
  AppInv2 A vt s.1 ∧ IteInv I vt s.2 ∧ IteInvS I vt s.2

theorem cinvS_empty (vt : VTree) : CInvS A I vt (A.empty, I.empty) :=
  ⟨appInv2_empty A vt, iteInv_empty I vt, fun k r h => by rw [I.empty_get] at h; cases h⟩

theorem CInvS.cinv {vt : VTree} {s : A.σ × I.σ} (h : CInvS A I vt s) : CInv A I vt s :=
  ⟨h.1.1, h.2.1⟩

variable (cfg : Config) (hc : cfg.compress = true) (hnd : cfg.vt.leaves.Nodup) (fuel : Nat)

/-- the compressing SDD builder meets the specification of the compile functions also with the
structural predicate `WFs` (compressed, trimmed, pointer normal form) on pointers -/
def sddSpecS : OpsSpec (ops A I cfg fuel) where
  Inv := CInvS A I cfg.vt
  Good := WFs cfg.vt
  VarOk := fun v => v ∈ cfg.vt.leaves
  den := fun p a => p.eval a
  tru_ok := ⟨WFs_tru _, funext fun a => eval_tru a⟩
  fls_ok := ⟨WFs_fls _, funext fun a => eval_fls a⟩
  var_ok := fun x pol hx =>
    ⟨by simpa [ops, WFs] using hx, funext fun a => by simp [ops, fVar, eval_lit]⟩
  neg_ok := fun p hp => ⟨WFs_neg hp, funext fun a => by simp [ops, fNot]⟩
  and_ok := fun s p q s' r hi hp hq h => by
    obtain ⟨h1, h2⟩ := withIte_some h
    obtain ⟨ha, wr, _, er⟩ := bAnd_s A cfg hc hnd fuel _ _ _ _ _ hi.1 hp hq h1
    exact ⟨⟨ha, h2 ▸ hi.2.1, h2 ▸ hi.2.2⟩, wr, funext fun a => er a⟩
  or_ok := fun s p q s' r hi hp hq h => by
    obtain ⟨h1, h2⟩ := withIte_some h
    obtain ⟨ha, wr⟩ := bOr_s A cfg hc hnd fuel hi.1 hp hq h1
    obtain ⟨_, _, er⟩ := bOr_ok A cfg fuel hi.1.1 (WFs_WF _ hp) (WFs_WF _ hq) h1
    exact ⟨⟨ha, h2 ▸ hi.2.1, h2 ▸ hi.2.2⟩, wr, funext fun a => er a⟩
  iff_ok := fun s p q s' r hi hp hq h => by
    obtain ⟨_, hi', _, er⟩ := bIff_ok A I cfg fuel hi.1.1 hi.2.1 (WFs_WF _ hp) (WFs_WF _ hq) h
    obtain ⟨ha, hs, wr⟩ := bIte_s A I cfg hc hnd fuel hi.1 hi.2.2 hp hq (WFs_neg hq) h
    exact ⟨⟨ha, hi', hs⟩, wr, funext fun a => er a⟩
  xor_ok := fun s p q s' r hi hp hq h => by
    obtain ⟨_, hi', _, er⟩ := bXor_ok A I cfg fuel hi.1.1 hi.2.1 (WFs_WF _ hp) (WFs_WF _ hq) h
    obtain ⟨ha, hs, wr⟩ := bIte_s A I cfg hc hnd fuel hi.1 hi.2.2 hp (WFs_neg hq) hq h
    exact ⟨⟨ha, hi', hs⟩, wr, funext fun a => er a⟩
  ite_ok := fun s f g h' s' r hi hf hg hh h => by
    obtain ⟨_, hi', _, er⟩ := bIte_ok A I cfg fuel hi.1.1 hi.2.1 (WFs_WF _ hf) (WFs_WF _ hg)
      (WFs_WF _ hh) h
    obtain ⟨ha, hs, wr⟩ := bIte_s A I cfg hc hnd fuel hi.1 hi.2.2 hf hg hh h
    exact ⟨⟨ha, hi', hs⟩, wr, funext fun a => er a⟩

end canonical

section canonical
variable (A : CacheImpl (Ptr × Ptr)) (I : CacheImpl (Ptr × Ptr × Ptr)) (vt : VTree)
  (hnd : vt.leaves.Nodup) (fuel : Nat)
include hnd

/-- with compression on, `compile_cnf` returns a compressed, trimmed SDD in pointer normal form
(for every clause permutation) -/
theorem sdd_compileCnf_wfs {cs cs' : Cnf} (hperm : List.Perm cs cs') {s s' : A.σ × I.σ} {r : Ptr}
    (hinv : CInvS A I vt s) (hvars : ∀ c ∈ cs, ∀ l ∈ c, l.var ∈ vt.leaves)
    (h : compileCnf A I ⟨vt, true⟩ fuel s cs' = some (s', r)) :
    CInvS A I vt s' ∧ WFs vt r ∧ ∀ a, r.eval a = cnfSat a cs := by
  rw [compileCnf_eq_generic] at h
  obtain ⟨h1, h2, h3⟩ := compileCnf_ok (sddSpecS A I ⟨vt, true⟩ rfl hnd fuel) hperm hinv hvars h
  exact ⟨h1, h2, fun a => congrFun h3 a⟩

/-- the same for plans, in particular plans of dtrees -/
theorem sdd_compilePlan_wfs (p : Plan) {s s' : A.σ × I.σ} {r : Ptr} (hinv : CInvS A I vt s)
    (hvars : p.AllVars (· ∈ vt.leaves))
    (h : compilePlan (ops A I ⟨vt, true⟩ fuel) s p = some (s', r)) :
    CInvS A I vt s' ∧ WFs vt r ∧ ∀ a, r.eval a = planSem p a := by
  obtain ⟨h1, h2, h3⟩ := compilePlan_ok (sddSpecS A I ⟨vt, true⟩ rfl hnd fuel) p hinv hvars h
  exact ⟨h1, h2, fun a => congrFun h3 a⟩

/-- and for logical expressions -/
theorem sdd_compileExpr_wfs (e : LogicalExpr) {s s' : A.σ × I.σ} {r : Ptr} (hinv : CInvS A I vt s)
    (hvars : e.AllVars (· ∈ vt.leaves))
    (h : compileExpr (ops A I ⟨vt, true⟩ fuel) s e = some (s', r)) :
    CInvS A I vt s' ∧ WFs vt r ∧ ∀ a, r.eval a = exprSem e a := by
  obtain ⟨h1, h2, h3⟩ := compileExpr_ok (sddSpecS A I ⟨vt, true⟩ rfl hnd fuel) e hinv hvars h
  exact ⟨h1, h2, fun a => congrFun h3 a⟩

end canonical

/-- with compression on and distinct leaf labels, the clause permutation — and the caches, the
fuel, the starting state — do not change the diagram `compile_cnf` returns -/
theorem sdd_compileCnf_perm_irrelevant (A₁ A₂ : CacheImpl (Ptr × Ptr))
    (I₁ I₂ : CacheImpl (Ptr × Ptr × Ptr)) (vt : VTree) (hnd : vt.leaves.Nodup) (fuel₁ fuel₂ : Nat)
    {cs cs₁ cs₂ : Cnf} (p₁ : List.Perm cs cs₁) (p₂ : List.Perm cs cs₂)
    {s₁ s₁' : A₁.σ × I₁.σ} {s₂ s₂' : A₂.σ × I₂.σ} {r₁ r₂ : Ptr}
    (i₁ : CInvS A₁ I₁ vt s₁) (i₂ : CInvS A₂ I₂ vt s₂)
    (hvars : ∀ c ∈ cs, ∀ l ∈ c, l.var ∈ vt.leaves)
    (h₁ : compileCnf A₁ I₁ ⟨vt, true⟩ fuel₁ s₁ cs₁ = some (s₁', r₁))
    (h₂ : compileCnf A₂ I₂ ⟨vt, true⟩ fuel₂ s₂ cs₂ = some (s₂', r₂)) : r₁ = r₂ := by
  obtain ⟨_, w₁, e₁⟩ := sdd_compileCnf_wfs A₁ I₁ vt hnd fuel₁ p₁ i₁ hvars h₁
  obtain ⟨_, w₂, e₂⟩ := sdd_compileCnf_wfs A₂ I₂ vt hnd fuel₂ p₂ i₂ hvars h₂
  exact (sdd_canon hnd w₁ w₂).1 fun a => by rw [e₁ a, e₂ a]

/-- hence, once the dtree's leaves are the clauses of `cs` up to order, compiling the plan of the
dtree and `compile_cnf` return the same diagram -/
theorem sdd_compileDtree_eq_compileCnf (A₁ A₂ : CacheImpl (Ptr × Ptr))
    (I₁ I₂ : CacheImpl (Ptr × Ptr × Ptr)) (vt : VTree) (hnd : vt.leaves.Nodup) (fuel₁ fuel₂ : Nat)
    (t : DTree) {cs cs' : Cnf} (hleaves : List.Perm t.clauses cs) (hperm : List.Perm cs cs')
    {s₁ s₁' : A₁.σ × I₁.σ} {s₂ s₂' : A₂.σ × I₂.σ} {r₁ r₂ : Ptr}
    (i₁ : CInvS A₁ I₁ vt s₁) (i₂ : CInvS A₂ I₂ vt s₂)
    (hvars : ∀ c ∈ cs, ∀ l ∈ c, l.var ∈ vt.leaves)
    (h₁ : compilePlan (ops A₁ I₁ ⟨vt, true⟩ fuel₁) s₁ (Plan.fromDtree t) = some (s₁', r₁))
    (h₂ : compileCnf A₂ I₂ ⟨vt, true⟩ fuel₂ s₂ cs' = some (s₂', r₂)) : r₁ = r₂ := by
  have hvt : ∀ c ∈ t.clauses, ∀ l ∈ c, l.var ∈ vt.leaves :=
    fun c hc => hvars c (hleaves.mem_iff.1 hc)
  obtain ⟨_, w₁, e₁⟩ := sdd_compilePlan_wfs A₁ I₁ vt hnd fuel₁ _ i₁ (allVars_fromDtree _ t hvt) h₁
  obtain ⟨_, w₂, e₂⟩ := sdd_compileCnf_wfs A₂ I₂ vt hnd fuel₂ hperm i₂ hvars h₂
  exact (sdd_canon hnd w₁ w₂).1 fun a => by
    rw [e₁ a, e₂ a, planFromDtree_sem]
    exact cnfSat_perm a hleaves

/-! ## non-vacuity: the model returns on real inputs, edge cases included -/
section demo
open Ptr

private def L (v : Nat) (p : Bool) : Lit := ⟨v, p⟩

/-- the empty formula is `true`; a formula with an empty clause is `false` (balanced vtree
`((0 1) (2 3))` and right-linear vtree `(0 (1 2))` of C03, both compression settings) -/
example : runCompileCnf vtB true [] 20 = some tru := by decide
example : runCompileCnf vtR false [] 20 = some tru := by decide
example : runCompileCnf vtB true [[L 0 true, L 1 false], [], [L 2 true]] 20 = some fls := by decide
example : runCompileCnf vtB false [[L 7 true], []] 20 = some fls := by decide
/-- unit clauses; a repeated literal; complementary literals (a tautological clause) -/
example : runCompileCnf vtB true [[L 0 true]] 20 = some (lit 0 true) := by decide +kernel
example : runCompileCnf vtB true [[L 1 true, L 1 false, L 1 true]] 20 = some tru := by
  decide +kernel
example : runCompileCnf vtB true [[L 1 true, L 1 true], [L 0 true]] 20
    = some (bdd false 0 1 fls (lit 1 true)) := by decide +kernel
/-- contradictory units -/
example : runCompileCnf vtB true [[L 0 true], [L 0 false]] 20 = some fls := by decide +kernel

/-- a five-clause CNF over four variables with a repeated literal and a tautological clause:
`(x0 ∨ ¬x1) ∧ (x1 ∨ x2 ∨ x2) ∧ (¬x2 ∨ ¬x0 ∨ x0) ∧ (x1 ∨ x3) ∧ (¬x3 ∨ x2)` -/
def demoCnfS : Cnf :=
  [[L 0 true, L 1 false], [L 1 true, L 2 true, L 2 true], [L 2 false, L 0 false, L 0 true],
   [L 1 true, L 3 true], [L 3 false, L 2 true]]

/-- the `std` permutation really permutes (keys: vtree indices `0,2,4,6` of `x0..x3`) -/
example : sortClausesSdd vtB demoCnfS
    = [[L 2 false, L 0 false, L 0 true], [L 0 true, L 1 false], [L 1 true, L 2 true, L 2 true],
       [L 3 false, L 2 true], [L 1 true, L 3 true]] := by decide

/-- it returns, on both vtrees and with both compression settings, and the truth table of the
result over `x0..x3` is the truth table of the CNF -/
example : (runCompileCnf vtB true demoCnfS 30).map (fun r => truthTable 4 (den r))
    = some (truthTable 4 (cnfFn demoCnfS)) := by decide +kernel
example : (runCompileCnf vtB false demoCnfS 30).map (fun r => truthTable 4 (den r))
    = some (truthTable 4 (cnfFn demoCnfS)) := by decide +kernel
example : (runCompileCnf (.rightLinear [0, 1, 2, 3]) true demoCnfS 30).map
    (fun r => truthTable 4 (den r)) = some (truthTable 4 (cnfFn demoCnfS)) := by decide +kernel

/-- with compression the clause permutation does not change the diagram -/
example : runCompileCnfPermuted vtB true demoCnfS.reverse 30 = runCompileCnf vtB true demoCnfS 30 := by
  decide +kernel

/-- an expression with every constructor: `ite x0 (x1 ⊕ ¬x2) (x1 ⇔ ¬(x3 ∧ (x0 ∨ x2)))` -/
def demoExprS : LogicalExpr :=
  .ite (.lit 0 true) (.xor (.lit 1 true) (.lit 2 false))
    (.iff (.lit 1 true) (.not (.and (.lit 3 true) (.or (.lit 0 true) (.lit 2 true)))))

example : (runCompileExpr vtB true demoExprS 30).map (fun r => truthTable 4 (den r))
    = some (truthTable 4 (exprSem demoExprS)) := by decide +kernel
example : (runCompileExpr vtB false demoExprS 30).map (fun r => truthTable 4 (den r))
    = some (truthTable 4 (exprSem demoExprS)) := by decide +kernel

/-- a dtree with a three-literal, a unit and a two-literal leaf; adding an empty leaf gives
`false` -/
def demoDtreeS : DTree :=
  .node (.node (.leaf [L 0 true, L 1 false, L 2 true]) (.leaf [L 1 true]))
    (.leaf [L 2 false, L 3 true])

example : runCompileDtree vtB true demoDtreeS 30 = runCompileCnf vtB true demoDtreeS.clauses 30 := by
  decide +kernel
example : (runCompileDtree vtB true demoDtreeS 30).isSome = true := by decide +kernel
example : runCompileDtree vtB true (.node demoDtreeS (.leaf [])) 30 = some fls := by decide +kernel

/-- a label outside the vtree is outside the statement (the Rust reads a foreign slot of
`vtree_index` or panics); the hypotheses of the theorems exclude it -/
example : ¬ (∀ c ∈ [[L 7 true]], ∀ l ∈ c, l.var ∈ vtB.leaves) := by decide

/-- the hypotheses of `sdd_compileCnf_correct` are met: list caches, fresh builder, the balanced
vtree, compression on, the `std` permutation -/
example : ∃ r, runCompileCnf vtB true demoCnfS 30 = some r ∧ WF vtB r ∧
    ∀ a, r.eval a = cnfSat a demoCnfS := by
  cases h : compileCnf LA LI ⟨vtB, true⟩ 30 (LA.empty, LI.empty) (sortClausesSdd vtB demoCnfS) with
  | none => exact absurd h (by decide +kernel)
  | some x =>
    obtain ⟨s', r⟩ := x
    obtain ⟨_, w, e⟩ := sdd_compileCnf_sorted_correct LA LI vtB true 30 (cinv_empty _ _ _)
      (by decide) h
    exact ⟨r, by simp [runCompileCnf, h], w, e⟩

/-- the hypotheses of `sdd_compileExpr_correct` are met (compression off) -/
example : ∃ r, runCompileExpr vtB false demoExprS 30 = some r ∧ WF vtB r ∧
    ∀ a, r.eval a = exprSem demoExprS a := by
  cases h : compileExpr (ops LA LI ⟨vtB, false⟩ 30) (LA.empty, LI.empty) demoExprS with
  | none => exact absurd h (by decide +kernel)
  | some x =>
    obtain ⟨s', r⟩ := x
    obtain ⟨_, w, e⟩ := sdd_compileExpr_correct LA LI vtB false 30 demoExprS (cinv_empty _ _ _)
      (by simp only [demoExprS, LogicalExpr.AllVars]; decide) h
    exact ⟨r, by simp [runCompileExpr, h], w, e⟩

/-- the hypotheses of `sdd_compileDtree_correct` (hence of `sdd_compilePlan_correct`) are met -/
example : ∃ r, runCompileDtree vtB true demoDtreeS 30 = some r ∧ WF vtB r ∧
    ∀ a, r.eval a = cnfSat a demoDtreeS.clauses := by
  cases h : compilePlan (ops LA LI ⟨vtB, true⟩ 30) (LA.empty, LI.empty)
      (Plan.fromDtree demoDtreeS) with
  | none => exact absurd h (by decide +kernel)
  | some x =>
    obtain ⟨s', r⟩ := x
    obtain ⟨_, w, e⟩ := sdd_compileDtree_correct LA LI vtB true 30 demoDtreeS (cinv_empty _ _ _)
      (by decide) h
    exact ⟨r, by simp [runCompileDtree, runCompilePlan, h], w, e⟩

/-- the hypotheses of the canonicity extras are met: the leaf labels of `vtB` are distinct -/
example : ∃ r, runCompileCnf vtB true demoCnfS 30 = some r ∧ WFs vtB r := by
  cases h : compileCnf LA LI ⟨vtB, true⟩ 30 (LA.empty, LI.empty) (sortClausesSdd vtB demoCnfS) with
  | none => exact absurd h (by decide +kernel)
  | some x =>
    obtain ⟨s', r⟩ := x
    obtain ⟨_, w, _⟩ := sdd_compileCnf_wfs LA LI vtB (by decide) 30 (sortClausesSdd_perm vtB demoCnfS)
      (cinvS_empty _ _ _) (by decide) h
    exact ⟨r, by simp [runCompileCnf, h], w⟩

end demo

#print axioms sdd_compileCnf_correct
#print axioms sdd_compileCnf_models
#print axioms sdd_compileCnf_den
#print axioms sdd_compileCnf_empty
#print axioms sdd_compileCnf_empty_clause
#print axioms sdd_compileCnf_sorted_correct
#print axioms sdd_compileCnf_raw_correct
#print axioms sdd_compileCnf_fresh
#print axioms sdd_compileCnf_ite_untouched
#print axioms sdd_compileCnf_eq_generic
#print axioms sdd_compileExpr_correct
#print axioms sdd_compilePlan_correct
#print axioms sdd_compileDtree_correct
#print axioms sdd_compileCnf_wfs
#print axioms sdd_compilePlan_wfs
#print axioms sdd_compileExpr_wfs
#print axioms sdd_compileCnf_perm_irrelevant
#print axioms sdd_compileDtree_eq_compileCnf
end Sdd
