import RsddModel.Lemmas.Orders
import RsddModel.Lemmas.DTree
import RsddModel.Lemmas.VTree
/-!
# C14 — variable orders, dtrees, vtrees and the vtree manager

"Every variable order the library produces (linear, min-fill, FORCE, run-time extension) is a
permutation of the formula's variables whose position and label maps are mutually inverse.  A dtree
built from a CNF and any elimination order has exactly the CNF's clauses as leaves, variable sets
equal to the union of the children's, and cutsets equal to the variables shared by the children
and not cut above; the vtree derived from it contains every CNF variable as exactly one leaf.  The
vtree manager's in-order indices, least common ancestors, prime/sub relation and variable count
agree with the shape of the tree."

Models: `RsddModel/Model/Orders.lean`, `RsddModel/Model/VTree.lean` (both differential-tested
against the Rust).  Readings fixed here:

* **"every CNF variable"** = every variable OCCURRING in a clause (`VT.Occurs`).  An index below
  `num_vars` that no clause mentions is in no dtree leaf and hence in no derived vtree;
  `from_dtree` returns `None` exactly when no variable occurs at all.
* The elimination order of a dtree is ANY list of naturals (no hypothesis).
* `DTree.fromCnf` is `DTree::from_cnf` with the one-line repair `res.init_vars()`; for the code as
  it stands (`DTree.fromCnfOrig`) the `vars` claim is FALSE (`dtree_vars_orig_wrong`), the leaf and
  cutset claims hold, and the derived vtree is the same whenever the elimination order mentions every
  occurring variable (`vtree_of_dtree_leaves_orig`).
* `VTreeManager.numVars` is `num_vars()` as repaired (largest label + 1); the unrepaired
  `numVarsOrig` is refuted by `numVarsOrig_wrong`.
* `force_order` has an unbounded `loop`; the theorem covers every run that returns (any fuel), for
  ANY key arithmetic (`ForceOps`), hence in particular IEEE doubles with whatever rounding/NaN
  behaviour.  The loop diverges for a CNF without clauses (model: `forceOrderFloat [] 0 = none`).
-/
namespace C14
open Orders VT Spec

/-! ## orders -/

/-- the variable orders the library produces, with their number of variables -/
inductive Produced : VarOrder → Nat → Prop
  /-- `VarOrder::new` of a permutation (its documented precondition) -/
  | new {order : List Nat} {n : Nat} (h : order.Perm (List.range n)) : Produced (VarOrder.new order) n
  /-- `VarOrder::linear_order(n)` / `Cnf::linear_order` -/
  | linear (n : Nat) : Produced (VarOrder.linear n) n
  /-- `Cnf::min_fill_order` -/
  | minFill (cs : Cnf) : Produced (minFillOrder cs (cnfNumVars cs)) (cnfNumVars cs)
  /-- `Cnf::force_order`, for any key arithmetic and any run that returns -/
  | force {K : Type} (ops : ForceOps K) (cs : Cnf) (fuel : Nat) (o : VarOrder)
      (h : forceOrder ops cs (cnfNumVars cs) fuel = some o) : Produced o (cnfNumVars cs)
  /-- run-time extension `new_last()` -/
  | newLast {o : VarOrder} {n : Nat} (h : Produced o n) : Produced o.newLast.1 (n + 1)

/-- every produced order is a permutation of `0..n-1` in both directions with mutually inverse
position and label maps -/
theorem order_inverse {o : VarOrder} {n : Nat} (h : Produced o n) :
    o.posToVar.Perm (List.range n) ∧ o.varToPos.Perm (List.range n) ∧
    (∀ i, i < n → o.get (o.varAtLevel i) = i) ∧ (∀ v, v < n → o.varAtLevel (o.get v) = v) := by
  have wf : o.WF n := by
    induction h with
    | new h => exact new_wf h
    | linear n => exact linear_wf n
    | minFill cs => exact minFillOrder_wf cs _
    | force ops cs fuel o h => exact forceOrder_wf ops cs _ fuel o h
    | newLast _ ih => exact (newLast_wf ih).1
  exact ⟨wf.perm_pos, wf.perm_var, wf.get_varAtLevel, wf.varAtLevel_get⟩

/-- `new_last()` returns the fresh label `n` and keeps the order a permutation with inverse maps -/
theorem newLast_perm {o : VarOrder} {n : Nat} (h : o.WF n) :
    o.newLast.1.WF (n + 1) ∧ o.newLast.2 = n := newLast_wf h

/-- any number of `new_last()` calls -/
theorem newLastN_perm {o : VarOrder} {n : Nat} (h : o.WF n) (k : Nat) : (o.newLastN k).WF (n + k) :=
  newLastN_wf h k

/-- the min-fill elimination sequence is a permutation of `0..numVars-1` — for the actual
tie-breaking, and (`minfill_perm_any`) for ANY choice function and ANY fill-in rewriting -/
theorem minfill_perm (cs : Cnf) (n : Nat) :
    (minFillSeq cs n).Perm (List.range n) ∧ (minFillOrder cs n).WF n :=
  ⟨minFillSeq_perm cs n, minFillOrder_wf cs n⟩

theorem minfill_perm_any (pick : UnGraph → Nat) (pre : UnGraph → Nat → UnGraph)
    (hpre : ∀ g v, (pre g v).nodes = g.nodes)
    (hpick : ∀ g, g.nodes ≠ [] → pick g < g.nodes.length) (cs : Cnf) (n : Nat) :
    (elimLoop pick pre n (interactionGraph cs n) []).Perm (List.range n) := by
  have h := elimLoop_perm pick pre hpre hpick n (interactionGraph cs n) []
    (by rw [interactionGraph_nodes]; simp)
  rw [interactionGraph_nodes] at h
  simpa using h

/-- FORCE: sorting ANY keys gives a permutation; every returned order is well-formed -/
theorem force_perm {K : Type} (ops : ForceOps K) (cs : Cnf) (n fuel : Nat) :
    (∀ l, forceSeq ops cs n fuel = some l → l.Perm (List.range n)) ∧
    (∀ o, forceOrder ops cs n fuel = some o → o.WF n) :=
  ⟨fun l h => forceSeq_perm ops cs n fuel l h, fun o h => forceOrder_wf ops cs n fuel o h⟩

/-! ## dtrees -/

/-- the leaf clauses are exactly the CNF's clauses (as a multiset), for every elimination order;
a dtree exists iff the CNF has a clause -/
theorem dtree_leaves (cs : Cnf) (ord : List Nat) :
    (cs ≠ [] → (DTree.fromCnf cs ord).isSome) ∧ (DTree.fromCnf [] ord = none) ∧
    (∀ d, DTree.fromCnf cs ord = some d → d.leaves.Perm cs) ∧
    (∀ d, DTree.fromCnfOrig cs ord = some d → d.leaves.Perm cs) :=
  ⟨fun h => fromCnf_isSome h ord, fromCnf_none ord, fun _ h => VT.dtree_leaves h,
    fun _ h => VT.dtree_leaves_orig h⟩

/-- `vars` of a leaf is its clause's variable set, `vars` of a node the union of its children's
(`DTree.VarsOk`), hence `vars` is the set of variables of the clauses below, in ascending order -/
theorem dtree_vars {cs : Cnf} {ord : List Nat} {d : DTree} (h : DTree.fromCnf cs ord = some d) :
    d.VarsOk ∧ VarSet.Sorted d.vars ∧ ∀ x, x ∈ d.vars ↔ ∃ c ∈ d.leaves, ∃ l ∈ c, l.var = x :=
  ⟨VT.dtree_vars h, dtree_vars_sorted (VT.dtree_vars h), dtree_vars_mem (VT.dtree_vars h)⟩

/-- NEGATIVE: `DTree::from_cnf` as it stands never initialises `vars` of the nodes that join the
remaining components: (x1) ∧ (¬x2), order [2,0,1] gives a root with `vars = {}` -/
theorem dtree_vars_orig_wrong :
    ∃ d, DTree.fromCnfOrig [[⟨1, true⟩], [⟨2, false⟩]] [2, 0, 1] = some d ∧ ¬ d.VarsOk :=
  VT.dtree_vars_orig_wrong

/-- every cutset is `(vars l ∩ vars r) ∖ (cutsets of the proper ancestors)`; a leaf's is
`vars ∖ ancestors` (`DTree.CutsOk`, relative to the stored `vars`) -/
theorem dtree_cutsets {cs : Cnf} {ord : List Nat} :
    (∀ d, DTree.fromCnf cs ord = some d → d.CutsOk []) ∧
    (∀ d, DTree.fromCnfOrig cs ord = some d → d.CutsOk []) :=
  ⟨fun _ h => VT.dtree_cutsets h, fun _ h => VT.dtree_cutsets_orig h⟩

/-- every variable occurring in the CNF is exactly one leaf of the derived vtree and there are no
other leaves; `from_dtree` is `None` iff no variable occurs -/
theorem vtree_of_dtree_leaves {cs : Cnf} {ord : List Nat} {d : DTree}
    (h : DTree.fromCnf cs ord = some d) :
    (match VTree.fromDtree d with
      | some t => t.leaves.Nodup ∧ ∀ x, x ∈ t.leaves ↔ Occurs x cs
      | none => ∀ x, ¬ Occurs x cs) ∧
    (VTree.fromDtree d = none ↔ ∀ x, ¬ Occurs x cs) :=
  ⟨VT.vtree_of_dtree_leaves h, vtree_of_dtree_none_iff h⟩

/-- the same for the unrepaired `from_cnf`, when the elimination order mentions every occurring
variable (as every order of the CNF's variables does) -/
theorem vtree_of_dtree_leaves_orig {cs : Cnf} {ord : List Nat} {d : DTree}
    (hord : ∀ x, Occurs x cs → x ∈ ord) (h : DTree.fromCnfOrig cs ord = some d) :
    match VTree.fromDtree d with
    | some t => t.leaves.Nodup ∧ ∀ x, x ∈ t.leaves ↔ Occurs x cs
    | none => ∀ x, ¬ Occurs x cs :=
  VT.vtree_of_dtree_leaves_orig hord h

/-! ## the vtree manager -/

/-- the in-order path of index `i` -/
abbrev pathOf (t : VTree) (i : Nat) : Path := (VTree.inorderPaths t).getD i []

/-- the index table is the in-order (left subtree, node, right subtree) numbering: there are
`size t` indices, `vtree(i)` is the subtree at the `i`-th in-order path, the paths are exactly the
nodes of the tree, each once; and a leaf's variable is mapped to the leaf's index -/
theorem inorder_index_spec (t : VTree) :
    (VTree.inorderPaths t).length = t.size ∧ (VTree.inorderPaths t).Nodup ∧
    (∀ p, p ∈ VTree.inorderPaths t ↔ (t.subtreeAt p).isSome) ∧
    (∀ i, i < t.size → (VTreeManager.new t).vtree i = t.subtreeAt (pathOf t i)) ∧
    (t.leaves.Nodup → ∀ i v, (VTreeManager.new t).vtree i = some (.leaf v) →
      (VTreeManager.new t).getVarlabelIdx v = i) :=
  ⟨VTree.length_inorderPaths t, VTree.nodup_inorderPaths t, fun _ => VTree.mem_inorderPaths,
    fun i hi => indexLookup_spec t i hi, fun hn i v h => varIndex_spec t hn i v h⟩

/-- **`lca` is correct**: the result is the in-order index of the longest common prefix of the two
root paths (`lcaSpec`).  In the Rust the minimum BFS index over the HALF-OPEN Euler segment
`[first l, first r)` is taken; that suffices because the node first seen later is never an
ancestor of the one first seen earlier (`VTree.euler_between`). -/
theorem lca_correct (t : VTree) (i j : Nat) (hi : i < t.size) (hj : j < t.size) :
    (VTreeManager.new t).lca i j = lcaSpec t i j := VT.lca_correct t i j hi hj

/-- `lcaSpec` is the deepest common ancestor: its path is a prefix of both paths, every common
prefix is a prefix of it, and it is a node of the tree -/
theorem lcaSpec_deepest (t : VTree) (i j : Nat) (hi : i < t.size) (_hj : j < t.size) :
    lcaSpec t i j < t.size ∧
    pathOf t (lcaSpec t i j) = commonPrefix (pathOf t i) (pathOf t j) ∧
    pathOf t (lcaSpec t i j) <+: pathOf t i ∧ pathOf t (lcaSpec t i j) <+: pathOf t j ∧
    ∀ r, r <+: pathOf t i → r <+: pathOf t j → r <+: pathOf t (lcaSpec t i j) := by
  have hi' : i < (VTree.inorderPaths t).length := by rw [VTree.length_inorderPaths]; exact hi
  have vi : VTree.Valid t (pathOf t i) := by
    unfold pathOf; rw [getD_of_lt _ _ _ hi']; exact VTree.valid_inorderPaths_getElem t i hi'
  have hc : commonPrefix (pathOf t i) (pathOf t j) ∈ VTree.inorderPaths t :=
    VTree.mem_inorderPaths.mpr (VTree.valid_of_prefix (commonPrefix_prefix_left _ _) vi)
  have hlt := List.idxOf_lt_length_of_mem hc
  have hp : pathOf t (lcaSpec t i j) = commonPrefix (pathOf t i) (pathOf t j) := by
    unfold lcaSpec pathOf
    rw [getD_of_lt _ _ _ hlt]
    exact List.getElem_idxOf hlt
  refine ⟨?_, hp, ?_, ?_, ?_⟩
  · rw [← VTree.length_inorderPaths]; exact hlt
  · rw [hp]; exact commonPrefix_prefix_left _ _
  · rw [hp]; exact commonPrefix_prefix_right _ _
  · intro r h1 h2; rw [hp]; exact prefix_commonPrefix h1 h2

/-- `is_prime_index(i, j)` (the Rust's `i < j`) holds iff, `c` being the least common ancestor the
manager computes: `i` lies in the LEFT subtree of `c` and `j` is `c` or lies in its RIGHT subtree,
or `i` is `c` and `j` lies in its right subtree.  In particular nodes of the left (prime) subtree
of a decomposition node are prime to the nodes of its right (sub) subtree. -/
theorem isPrime_spec (t : VTree) (i j : Nat) (hi : i < t.size) (hj : j < t.size) :
    let c := pathOf t ((VTreeManager.new t).lca i j)
    (VTreeManager.new t).isPrimeIndex i j = true ↔
      ((∃ a, pathOf t i = c ++ false :: a) ∧ (pathOf t j = c ∨ ∃ b, pathOf t j = c ++ true :: b)) ∨
      (pathOf t i = c ∧ ∃ b, pathOf t j = c ++ true :: b) := by
  intro c
  have hc : c = commonPrefix (pathOf t i) (pathOf t j) := by
    show pathOf t ((VTreeManager.new t).lca i j) = _
    rw [lca_correct t i j hi hj]; exact (lcaSpec_deepest t i j hi hj).2.1
  rw [hc, isPrimeIndex_spec t i j hi hj]
  exact VTree.inorderLt_iff _ _

/-- `num_vars()` = 1 + the largest leaf label; = the number of leaves when the labels are exactly
`0..n-1`, each once -/
theorem numVars_spec (t : VTree) :
    ((VTreeManager.new t).numVars = t.maxLabel + 1 ∧ t.maxLabel ∈ t.leaves ∧
      ∀ v ∈ t.leaves, v ≤ t.maxLabel) ∧
    (∀ n, t.leaves.Perm (List.range n) →
      (VTreeManager.new t).numVars = n ∧ t.leaves.length = n) :=
  ⟨numVars_eq t, fun n h => numVars_of_perm t n h⟩

/-- NEGATIVE: before the repair `num_vars()` returned the largest label: 3 variables → 2 -/
theorem numVarsOrig_wrong :
    ∃ t : VTree, t.leaves = [0, 1, 2] ∧ (VTreeManager.new t).numVarsOrig ≠ 3 ∧
      (VTreeManager.new t).numVars = 3 :=
  ⟨.node (.leaf 0) (.node (.leaf 1) (.leaf 2)), by decide⟩

/-- the vtree shapes the library builds from a variable list have exactly that list as leaves -/
theorem shapes_leaves (o : List Nat) :
    (∀ t, VTree.rightLinear o = some t → t.leaves = o) ∧
    (∀ t, VTree.leftLinear o = some t → t.leaves = o) ∧
    (∀ k t, VTree.evenSplit o k = some t → t.leaves = o) ∧
    (o ≠ [] → (VTree.rightLinear o).isSome) :=
  ⟨VTree.rightLinear_leaves o, VTree.leftLinear_leaves o, fun k => VTree.evenSplit_leaves k o,
    VTree.rightLinear_isSome o⟩

/-! ## non-vacuity -/

section Examples

/-- `((0 1) (2 (3 4)))` shifted: the tree of the `VTreeIndex` doc comment plus a deeper branch -/
def exT : VTree := .node (.node (.leaf 3) (.leaf 1)) (.node (.leaf 0) (.node (.leaf 4) (.leaf 2)))

example : exT.size = 9 := by decide
example : VTree.inorderPaths exT =
    [[false, false], [false], [false, true], [], [true, false], [true], [true, true, false],
      [true, true], [true, true, true]] := by decide
example : VTree.bfsPaths exT =
    [[], [false], [true], [false, false], [false, true], [true, false], [true, true],
      [true, true, false], [true, true, true]] := by decide
example : (VTreeManager.new exT).dfsToBfs = [3, 1, 4, 0, 5, 2, 7, 6, 8] := by decide
example : (VTreeManager.new exT).euler = [0, 1, 3, 1, 4, 1, 0, 2, 5, 2, 6, 7, 6, 8, 6, 2, 0] := by decide
example : (VTreeManager.new exT).lca 0 2 = 1 := by decide
example : (VTreeManager.new exT).lca 6 4 = 5 := by decide
example : (VTreeManager.new exT).lca 8 0 = 3 := by decide
example : (VTreeManager.new exT).lca 7 6 = 7 := by decide
example : lcaSpec exT 6 4 = 5 := by decide
example : (VTreeManager.new exT).isPrimeIndex 0 2 = true := by decide
example : (VTreeManager.new exT).getVarlabelIdx 4 = 6 := by decide
example : (VTreeManager.new exT).numVars = 5 := by decide
example : (VTreeManager.new exT).lca 6 4 = lcaSpec exT 6 4 := lca_correct exT 6 4 (by decide) (by decide)

def exCnf : Cnf := [[⟨0, true⟩, ⟨1, false⟩], [⟨1, true⟩, ⟨2, true⟩], [⟨2, false⟩, ⟨3, true⟩], [⟨5, true⟩]]

example : cnfNumVars exCnf = 6 := by decide
example : Produced (minFillOrder exCnf 6) 6 := Produced.minFill exCnf
example : (minFillOrder exCnf 6).posToVar = [0, 5, 4, 3, 2, 1] := by decide
/-- pre-order `(is_leaf, vars, cutset)`; two components (`x5` alone), index 4 unused -/
example : ((DTree.fromCnf exCnf [0, 5, 4, 3, 2, 1]).map DTree.preorder) = some
    [(false, [0, 1, 2, 3, 5], []), (true, [5], [5]), (false, [0, 1, 2, 3], [1]),
      (true, [0, 1], [0]), (false, [1, 2, 3], [2]), (true, [1, 2], []), (true, [2, 3], [3])] := by decide
example : ((DTree.fromCnf exCnf [0, 5, 4, 3, 2, 1]).bind VTree.fromDtree).map VTree.leaves
    = some [5, 1, 0, 2, 3] := by decide
/-- the unrepaired code leaves the root's `vars` empty on the same input -/
example : ((DTree.fromCnfOrig exCnf [0, 5, 4, 3, 2, 1]).map DTree.vars) = some [] := by decide
example : Occurs 5 exCnf ∧ ¬ Occurs 4 exCnf := by
  refine ⟨⟨[⟨5, true⟩], by simp [exCnf], ⟨5, true⟩, by simp, rfl⟩, ?_⟩
  rintro ⟨c, hc, l, hl, hv⟩
  simp only [exCnf, List.mem_cons, List.not_mem_nil, or_false] at hc
  rcases hc with rfl | rfl | rfl | rfl <;> simp at hl <;> (try rcases hl with rfl | rfl) <;> simp_all

end Examples

/-! ## axioms -/

#print axioms order_inverse
#print axioms newLast_perm
#print axioms newLastN_perm
#print axioms minfill_perm
#print axioms minfill_perm_any
#print axioms force_perm
#print axioms dtree_leaves
#print axioms dtree_vars
#print axioms dtree_vars_orig_wrong
#print axioms dtree_cutsets
#print axioms vtree_of_dtree_leaves
#print axioms vtree_of_dtree_leaves_orig
#print axioms inorder_index_spec
#print axioms lca_correct
#print axioms lcaSpec_deepest
#print axioms isPrime_spec
#print axioms numVars_spec
#print axioms numVarsOrig_wrong
#print axioms shapes_leaves

end C14
