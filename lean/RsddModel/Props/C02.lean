import RsddModel.Props.C01
/-!
# C02 — canonicity and shape of the ROBDDs the builder hands out

(The unique-table half of C02 — robin-hood table refinement — lives in its own files.)

* `canonicity` : for an injective level map, two well formed diagrams (ordered on every path, no
  node with equal children, every high edge regular and not `fls`) denote the same Boolean
  function iff they are equal;
* `wf_of_run` : every diagram in the pool after any successful run of the builder model from
  the initial state is well formed — for every lawful cache, injective order, fuel, program;
* `eq_iff_sem` : hence for two such diagrams, (pointer =) structural equality coincides with
  semantic equality: the builder's `eq` decides equivalence.
-/
namespace Bdd
open Spec

/-- **C02, canonicity** (proved in `Lemmas/BddCanon`, restated as the property theorem) -/
theorem canonicity (lvl : Nat → Nat) (inj : ∀ x y, lvl x = lvl y → x = y) {p q : Ptr}
    (hp : WF lvl p) (hq : WF lvl q) : (∀ a, p.eval a = q.eval a) ↔ p = q :=
  canon lvl inj hp hq

/-- the shape clauses of `WF`, spelled out for a node: the top variable is not after the
children's variables (strictly before, by orderedness), `lo ≠ hi`, `hi` regular and not `fls` -/
theorem WF_node_iff (lvl : Nat → Nat) (c : Bool) (v : Nat) (lo hi : Ptr) :
    WF lvl (.node c v lo hi) ↔
      (lo.above lvl (lvl v + 1) ∧ hi.above lvl (lvl v + 1)) ∧
      lo ≠ hi ∧ hi.isNeg = false ∧ hi ≠ .fls ∧ lo.red ∧ hi.red := by
  simp [WF, Ptr.above, Ptr.red]

/-- **C02, shape**: every pool entry after any run from the initial builder is well formed -/
theorem wf_of_run (C : CacheImpl) (lvl : Nat → Nat) (inj : ∀ x y, lvl x = lvl y → x = y)
    (fuel n : Nat) (ops : List Op) (st : St C)
    (hrun : run C lvl fuel (St.init C n) ops = some st) : ∀ p ∈ st.pool, WF lvl p := by
  obtain ⟨_, _, _, hinv⟩ := run_refines C lvl inj fuel n ops st hrun
  exact hinv.2.2

/-- **C02, equality is equivalence**: for two pool entries after any run, being the same
diagram is the same as denoting the same Boolean function -/
theorem eq_iff_sem (C : CacheImpl) (lvl : Nat → Nat) (inj : ∀ x y, lvl x = lvl y → x = y)
    (fuel n : Nat) (ops : List Op) (st : St C)
    (hrun : run C lvl fuel (St.init C n) ops = some st) {p q : Ptr}
    (hp : p ∈ st.pool) (hq : q ∈ st.pool) : p = q ↔ ∀ a, p.eval a = q.eval a := by
  have hwf := wf_of_run C lvl inj fuel n ops st hrun
  exact (canon lvl inj (hwf p hp) (hwf q hq)).symm

/-- the same, by pool index, and against the specification: entries `i` and `j` are equal
diagrams iff the specification's Boolean functions `i` and `j` are equal -/
theorem eq_iff_spec (C : CacheImpl) (lvl : Nat → Nat) (inj : ∀ x y, lvl x = lvl y → x = y)
    (fuel n : Nat) (ops : List Op) (st : St C)
    (hrun : run C lvl fuel (St.init C n) ops = some st) :
    ∃ sp, specRun (n, []) ops = some sp ∧ sp.2.length = st.pool.length ∧
      ∀ i j (hi : i < st.pool.length) (hj : j < st.pool.length) (hi' : i < sp.2.length)
        (hj' : j < sp.2.length), st.pool[i] = st.pool[j] ↔ sp.2[i] = sp.2[j] := by
  obtain ⟨sp, hsp, hrel, hinv⟩ := run_refines C lvl inj fuel n ops st hrun
  refine ⟨sp, hsp, hrel.2.1, ?_⟩
  intro i j hi hj hi' hj'
  rw [← hrel.2.2 i hi hi', ← hrel.2.2 j hj hj']
  rw [← canon lvl inj (hinv.2.2 _ (List.getElem_mem hi)) (hinv.2.2 _ (List.getElem_mem hj))]
  exact ⟨fun h => funext h, fun h a => congrFun h a⟩

/-! ## non-vacuity -/

/-- in the demo program of C01, `x0 ∧ x1` is computed twice by different routes (entry 3 by
`and`, entry 7 by conditioning `(x0 ∧ x1) ∨ ¬x2` on `x2`), and `¬x2` likewise (entry 2 by `var`,
entry 6 by `compose`): the diagrams coincide -/
example : demoPool[3]? = demoPool[7]? ∧ demoPool[2]? = demoPool[6]? := by decide

/-- `WF` is satisfiable by non-trivial diagrams, and violated by each kind of ill-formed one -/
example : WF id (.node false 0 (.node true 2 .fls .tru) (.node false 1 .fls .tru)) := by
  simp [WF, Ptr.above, Ptr.red, Ptr.isNeg]
example : ¬ WF id (.node false 1 .fls (.node false 0 .fls .tru)) := by
  simp [WF, Ptr.above]
example : ¬ WF id (.node false 0 .tru .tru) := by simp [WF, Ptr.red]
example : ¬ WF id (.node false 0 .tru .fls) := by simp [WF, Ptr.red]
example : ¬ WF id (.node false 0 .tru (.node true 1 .fls .tru)) := by simp [WF, Ptr.red, Ptr.isNeg]

/-- injectivity of the level map (distinct variables sit at distinct positions, which
`VarOrder` guarantees) is essential for `wf_of_run`: under the constant level map `and x0 x1`
returns a diagram that is not ordered -/
example : (bAnd AllCache (fun _ => 0) 10 [] (mkVar 0 true) (mkVar 1 true)).map (·.2) =
      some (.node false 1 .fls (.node false 0 .fls .tru)) ∧
    ¬ WF (fun _ => 0) (.node false 1 .fls (.node false 0 .fls .tru)) := by
  refine ⟨by decide, ?_⟩
  simp [WF, Ptr.above]

#print axioms canonicity
#print axioms WF_node_iff
#print axioms wf_of_run
#print axioms eq_iff_sem
#print axioms eq_iff_spec
end Bdd
