import RsddModel.Props.TieCli
import RsddModel.Props.C19Order
/-!
# Source-level corollary (translator route): `single_wmc` of bin/weighted_model_count.rs

`C19Order.cli_wmc_order` restated for the definition REGENERATED from the Rust text
(`Gen.Cli.singleWmcOut`, rewritten by `tools/gen_cli.py` on every run): whatever the regenerated
`single_wmc` returns under a well-formed `VarOrder` over `n` variables is the brute-force weighted
sum of the formula over those `n` variables.  The proof rewrites with `TieCli.singleWmc_tie` and
`exact`s the theorem about the hand-written model.
-/
namespace TieCliSource
open Cli Spec Bdd Spec.Text Ser Orders

theorem single_wmc_source_order {α : Type} (C : CacheImpl) (o : VarOrder) (n : Nat) (hwf : o.WF n)
    (fuel : Nat) (P : Nat) (t : SExp) (e : LogicalSExpr) (le : Ser.LogicalExpr)
    (ht : LogicalSExpr.ofSExp t = some e) (hle : fromSexpr e = some le)
    (hvars : (toCompileExpr le).AllVars (· < n))
    {S : SROps α} (hS : S.Laws) (w : Weights α) (out : _ × α)
    (hrun : Gen.Cli.singleWmcOut C fuel S P le n o w = some out) :
    ∀ a, out.2 = wsumList S (levelVars o.varAtLevel 0 n) w (fun b => le.eval b) a ∧
         out.2 = wsum S (levelVars o.varAtLevel 0 n) w (fun b => le.eval b) a := by
  have h := TieCli.singleWmc_tie C fuel S P le n o w
  rw [hrun] at h
  exact C19Order.cli_wmc_order C o n hwf fuel t e le ht hle hvars hS w out.2 h.symm

#print axioms single_wmc_source_order
end TieCliSource
