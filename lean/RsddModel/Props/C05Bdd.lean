import RsddModel.Model.BddCompile
import RsddModel.Model.BddCaches
import RsddModel.Lemmas.BddCompile
/-!
# C05 (BDD half) — bottom-up compilation yields a diagram whose models are exactly the satisfying
assignments of the input

Property theorems only; the work is in `Lemmas/BddCompile` (generic in the record of builder
operations, so the SDD half can reuse it by supplying an `OpsSpec`), on top of `Lemmas/BddSem`,
`Lemmas/BddWF`, `Lemmas/BddCanon`.

Everything is partial correctness (`… = some (s', r) → …`) for EVERY lawful apply cache
`C : CacheImpl`, EVERY injective level map `lvl` (variable order) and EVERY fuel, from ANY builder
state satisfying the invariant `CInv` (cache sound and well formed; the fresh builder satisfies
it, `cinv_empty`), and the invariant is re-established, so compilations can be chained with any
other builder calls.

* `compileCnf_correct` — `compile_cnf`, for EVERY permutation `cs'` of the clause list `cs` (the
  Rust's `sort_by` comparator is not a total order; nothing is assumed about the permutation):
  the result is well formed and its models are the satisfying assignments of `cs`.  No
  hypothesis on `cs`: the empty formula, empty clauses, unit clauses, clauses with repeated and
  with complementary literals are covered (`compileCnf_models` spells the semantics out;
  `compileCnf_raw_correct` starts from the clause list BEFORE the `Cnf::new` normalisation);
* `compileWithAssign_correct` — `compile_cnf_with_assignments`, for EVERY merge strategy (the
  `BinaryHeap` is ordered by size only; ties are broken by its array layout): the result denotes
  the CNF conditioned on the literals of the partial model;
* `compileWithAssign_eq_condition` — it is THE SAME DIAGRAM (`=`) as `condition_model` applied
  to `compile_cnf`, for every two builders (caches, fuels, starting states), every clause
  permutation, every merge strategy and every listing `lits` of the model's literals
  (`compileWithAssign_eq_condition_vec`: in particular `assignment_iter` of a model given as a
  vector).  Variable ranges: the level map is a total function here, so no range hypothesis is
  needed in the model; the single link between the two sides is `Represents lits m` (the literal
  list and the partial model assign exactly the same variables the same values).  A label beyond
  the vector `m` is unassigned (`pmodelOfList`), as `PartialModel::get` answers.  In the Rust
  every label must in addition be smaller than the order's length, else `var_to_pos[..]` panics;
* `compileExpr_correct`, `compilePlan_correct` — `compile_logical_expr`, `compile_plan`;
* `planFromDtree_sem`, `compileDtree_correct`, `compileDtree_eq_compileCnf` — the plan of ANY
  dtree denotes the conjunction of its leaf clauses, so compiling it gives the models of that
  CNF, and the same diagram as `compile_cnf` of any CNF with the same clauses up to order.
* `…_total` (in `Lemmas/BddCompile`): the extra recursion bounds of the model (`collapse`,
  `mergeLoop`) and the modelled panics (`lit_vec[0]`, `pop().unwrap()`) are never the reason for
  `none`: if `and`/`or` return, so do `compile_cnf` and `compile_cnf_with_assignments`.
-/
namespace Bdd
open Spec Compile

section props
variable (C : CacheImpl) (lvl : Nat → Nat) (inj : ∀ x y, lvl x = lvl y → x = y) (fuel : Nat)
include inj

/-! ## `compile_cnf` -/

/-- **C05, CNF**: for every permutation `cs'` of the clauses that `sort_by` may produce -/
theorem compileCnf_correct {cs cs' : Cnf} (hperm : List.Perm cs cs') {s s' : C.σ} {r : Ptr}
    (hinv : CInv C lvl s) (h : compileCnf (ops C lvl fuel) s cs' = some (s', r)) :
    CInv C lvl s' ∧ WF lvl r ∧ ∀ a, r.eval a = cnfSat a cs := by
  obtain ⟨h1, h2, h3⟩ := compileCnf_ok (bddSpec C lvl inj fuel) hperm hinv (fun _ _ _ _ => trivial) h
  exact ⟨h1, h2, fun a => congrFun h3 a⟩

/-- the semantics spelled out: `a` is a model of the diagram iff every clause has a literal that
`a` makes true (an empty clause has none, the empty formula has no clause) -/
theorem compileCnf_models {cs cs' : Cnf} (hperm : List.Perm cs cs') {s s' : C.σ} {r : Ptr}
    (hinv : CInv C lvl s) (h : compileCnf (ops C lvl fuel) s cs' = some (s', r)) (a : Assign) :
    r.eval a = true ↔ ∀ c ∈ cs, ∃ l ∈ c, a l.var = l.pol := by
  rw [(compileCnf_correct C lvl inj fuel hperm hinv h).2.2 a]
  simp [cnfSat, clauseSat, litSat]

/-- with the permutation the current `std` produces (stable sort by the level of the last
literal) -/
theorem compileCnf_sorted_correct {cs : Cnf} {s s' : C.σ} {r : Ptr} (hinv : CInv C lvl s)
    (h : compileCnf (ops C lvl fuel) s (sortClauses lvl cs) = some (s', r)) :
    CInv C lvl s' ∧ WF lvl r ∧ ∀ a, r.eval a = cnfSat a cs :=
  compileCnf_correct C lvl inj fuel (sortClauses_perm lvl cs) hinv h

/-- from the clause list handed to `Cnf::new` (per-clause stable sort by label and `dedup`) -/
theorem compileCnf_raw_correct {raw : List Clause} {cs' : Cnf} (hperm : List.Perm (cnfNew raw) cs')
    {s s' : C.σ} {r : Ptr} (hinv : CInv C lvl s)
    (h : compileCnf (ops C lvl fuel) s cs' = some (s', r)) :
    CInv C lvl s' ∧ WF lvl r ∧ ∀ a, r.eval a = cnfSat a raw := by
  obtain ⟨h1, h2, h3⟩ := compileCnf_correct C lvl inj fuel hperm hinv h
  exact ⟨h1, h2, fun a => by rw [h3 a, cnfSat_cnfNew]⟩

/-- the clause permutation does not change the diagram -/
theorem compileCnf_perm_irrelevant {cs cs₁ cs₂ : Cnf} (p₁ : List.Perm cs cs₁)
    (p₂ : List.Perm cs cs₂) {s₁ s₁' s₂ s₂' : C.σ} {r₁ r₂ : Ptr} (i₁ : CInv C lvl s₁)
    (i₂ : CInv C lvl s₂) (h₁ : compileCnf (ops C lvl fuel) s₁ cs₁ = some (s₁', r₁))
    (h₂ : compileCnf (ops C lvl fuel) s₂ cs₂ = some (s₂', r₂)) : r₁ = r₂ := by
  obtain ⟨_, w₁, e₁⟩ := compileCnf_correct C lvl inj fuel p₁ i₁ h₁
  obtain ⟨_, w₂, e₂⟩ := compileCnf_correct C lvl inj fuel p₂ i₂ h₂
  exact (canon lvl inj w₁ w₂).1 fun a => by rw [e₁ a, e₂ a]

/-! ## `compile_cnf_with_assignments` -/

/-- **C05, CNF under a partial model**, for EVERY merge strategy: the result denotes the CNF
conditioned on the model's literals -/
theorem compileWithAssign_correct (strat : Strategy Ptr) {m : PModel} {lits : List (Nat × Bool)}
    (hr : Represents lits m) {cs : Cnf} {s s' : C.σ} {r : Ptr} (hinv : CInv C lvl s)
    (h : compileWithAssign (ops C lvl fuel) strat m s cs = some (s', r)) :
    CInv C lvl s' ∧ WF lvl r ∧ den r = fCondList (cnfFn cs) lits := by
  obtain ⟨h1, h2, h3⟩ :=
    compileWithAssign_ok (bddSpec C lvl inj fuel) strat m hinv (fun _ _ _ _ => trivial) h
  refine ⟨h1, h2, ?_⟩
  rw [fCondList_represents hr]; exact h3

/-- pointwise: the diagram's value at `a` is the CNF's value at `a` overridden by the model -/
theorem compileWithAssign_eval (strat : Strategy Ptr) (m : PModel) {cs : Cnf} {s s' : C.σ}
    {r : Ptr} (hinv : CInv C lvl s)
    (h : compileWithAssign (ops C lvl fuel) strat m s cs = some (s', r)) (a : Assign) :
    r.eval a = cnfSat (fun x => (m x).getD (a x)) cs := by
  obtain ⟨_, _, h3⟩ :=
    compileWithAssign_ok (bddSpec C lvl inj fuel) strat m hinv (fun _ _ _ _ => trivial) h
  exact congrFun h3 a

end props

/-- **C05: compiling under a partial assignment gives the SAME diagram as compiling and then
conditioning** — for any two builders (caches `C₁ C₂`, fuels, starting states), any clause
permutation `cs'` used by `compile_cnf`, any merge strategy, and any list `lits` of exactly the
model's literals (in any order, `condition_model` conditions on them left to right) -/
theorem compileWithAssign_eq_condition (C₁ C₂ : CacheImpl) (lvl : Nat → Nat)
    (inj : ∀ x y, lvl x = lvl y → x = y) (fuel₁ fuel₂ : Nat) (strat : Strategy Ptr)
    {m : PModel} {lits : List (Nat × Bool)} (hr : Represents lits m)
    {cs cs' : Cnf} (hperm : List.Perm cs cs')
    {s₁ s₁' : C₁.σ} {s₂ s₂' : C₂.σ} {r₁ r₂ : Ptr} (i₁ : CInv C₁ lvl s₁) (i₂ : CInv C₂ lvl s₂)
    (h₁ : compileCnf (ops C₁ lvl fuel₁) s₁ cs' = some (s₁', r₁))
    (h₂ : compileWithAssign (ops C₂ lvl fuel₂) strat m s₂ cs = some (s₂', r₂)) :
    r₂ = condModel lvl r₁ lits := by
  obtain ⟨_, w₁, e₁⟩ := compileCnf_correct C₁ lvl inj fuel₁ hperm i₁ h₁
  obtain ⟨_, w₂, e₂⟩ := compileWithAssign_correct C₂ lvl inj fuel₂ strat hr i₂ h₂
  have wc : WF lvl (condModel lvl r₁ lits) := condModel_WF lvl lits w₁
  have ec : den (condModel lvl r₁ lits) = fCondList (cnfFn cs) lits := by
    rw [condModel_sem lits w₁.1]
    congr 1
    funext a; exact e₁ a
  exact (canon lvl inj w₂ wc).1 fun a => by
    have := congrFun (e₂.trans ec.symm) a
    simpa [den] using this

/-- the same for a partial model given as a vector indexed by label and the literal order of
`PartialModel::assignment_iter` (false literals ascending, then true literals ascending) -/
theorem compileWithAssign_eq_condition_vec (C₁ C₂ : CacheImpl) (lvl : Nat → Nat)
    (inj : ∀ x y, lvl x = lvl y → x = y) (fuel₁ fuel₂ : Nat) (strat : Strategy Ptr)
    (m : List (Option Bool)) {cs cs' : Cnf} (hperm : List.Perm cs cs')
    {s₁ s₁' : C₁.σ} {s₂ s₂' : C₂.σ} {r₁ r₂ : Ptr} (i₁ : CInv C₁ lvl s₁) (i₂ : CInv C₂ lvl s₂)
    (h₁ : compileCnf (ops C₁ lvl fuel₁) s₁ cs' = some (s₁', r₁))
    (h₂ : compileWithAssign (ops C₂ lvl fuel₂) strat (pmodelOfList m) s₂ cs = some (s₂', r₂)) :
    r₂ = condModel lvl r₁ (assignmentIter m) :=
  compileWithAssign_eq_condition C₁ C₂ lvl inj fuel₁ fuel₂ strat (assignmentIter_represents m)
    hperm i₁ i₂ h₁ h₂

/-- the merge order does not change the diagram -/
theorem compileWithAssign_strategy_irrelevant (C : CacheImpl) (lvl : Nat → Nat)
    (inj : ∀ x y, lvl x = lvl y → x = y) (fuel : Nat) (strat₁ strat₂ : Strategy Ptr) (m : PModel)
    {cs : Cnf} {s₁ s₁' s₂ s₂' : C.σ} {r₁ r₂ : Ptr} (i₁ : CInv C lvl s₁) (i₂ : CInv C lvl s₂)
    (h₁ : compileWithAssign (ops C lvl fuel) strat₁ m s₁ cs = some (s₁', r₁))
    (h₂ : compileWithAssign (ops C lvl fuel) strat₂ m s₂ cs = some (s₂', r₂)) : r₁ = r₂ := by
  obtain ⟨_, w₁, e₁⟩ :=
    compileWithAssign_ok (bddSpec C lvl inj fuel) strat₁ m i₁ (fun _ _ _ _ => trivial) h₁
  obtain ⟨_, w₂, e₂⟩ :=
    compileWithAssign_ok (bddSpec C lvl inj fuel) strat₂ m i₂ (fun _ _ _ _ => trivial) h₂
  exact (canon lvl inj w₁ w₂).1 fun a => congrFun (e₁.trans e₂.symm) a

section props
variable (C : CacheImpl) (lvl : Nat → Nat) (inj : ∀ x y, lvl x = lvl y → x = y) (fuel : Nat)
include inj

/-! ## logical expressions and plans -/

/-- **C05, logical expressions** -/
theorem compileExpr_correct (e : LogicalExpr) {s s' : C.σ} {r : Ptr} (hinv : CInv C lvl s)
    (h : compileExpr (ops C lvl fuel) s e = some (s', r)) :
    CInv C lvl s' ∧ WF lvl r ∧ ∀ a, r.eval a = exprSem e a := by
  have hv : ∀ e : LogicalExpr, e.AllVars (fun _ => True) := by
    intro e; induction e <;> simp_all [LogicalExpr.AllVars]
  obtain ⟨h1, h2, h3⟩ := compileExpr_ok (bddSpec C lvl inj fuel) e hinv (hv e) h
  exact ⟨h1, h2, fun a => congrFun h3 a⟩

/-- **C05, plans** -/
theorem compilePlan_correct (p : Plan) {s s' : C.σ} {r : Ptr} (hinv : CInv C lvl s)
    (h : compilePlan (ops C lvl fuel) s p = some (s', r)) :
    CInv C lvl s' ∧ WF lvl r ∧ ∀ a, r.eval a = planSem p a := by
  have hv : ∀ p : Plan, p.AllVars (fun _ => True) := by
    intro p; induction p <;> simp_all [Plan.AllVars]
  obtain ⟨h1, h2, h3⟩ := compilePlan_ok (bddSpec C lvl inj fuel) p hinv (hv p) h
  exact ⟨h1, h2, fun a => congrFun h3 a⟩

omit inj in
/-- **the plan `from_dtree` builds denotes the conjunction of the leaf clauses**, for ANY dtree
(restated from `Compile.planFromDtree_sem`) -/
theorem planFromDtree_sem (t : DTree) : planSem (Plan.fromDtree t) = cnfFn t.clauses :=
  Compile.planFromDtree_sem t

/-- **C05, plan of a dtree**: the models of the diagram are the satisfying assignments of the
CNF formed by the dtree's leaves -/
theorem compileDtree_correct (t : DTree) {s s' : C.σ} {r : Ptr} (hinv : CInv C lvl s)
    (h : compilePlan (ops C lvl fuel) s (Plan.fromDtree t) = some (s', r)) :
    CInv C lvl s' ∧ WF lvl r ∧ ∀ a, r.eval a = cnfSat a t.clauses := by
  obtain ⟨h1, h2, h3⟩ := compilePlan_correct C lvl inj fuel _ hinv h
  exact ⟨h1, h2, fun a => by rw [h3 a, planFromDtree_sem]; rfl⟩

/-- hence, once the dtree's leaves are the clauses of `cs` up to order (proved with the dtree
model), compiling the plan and `compile_cnf` return the same diagram -/
theorem compileDtree_eq_compileCnf (t : DTree) {cs cs' : Cnf} (hleaves : List.Perm t.clauses cs)
    (hperm : List.Perm cs cs') {s₁ s₁' s₂ s₂' : C.σ} {r₁ r₂ : Ptr} (i₁ : CInv C lvl s₁)
    (i₂ : CInv C lvl s₂) (h₁ : compilePlan (ops C lvl fuel) s₁ (Plan.fromDtree t) = some (s₁', r₁))
    (h₂ : compileCnf (ops C lvl fuel) s₂ cs' = some (s₂', r₂)) : r₁ = r₂ := by
  obtain ⟨_, w₁, e₁⟩ := compileDtree_correct C lvl inj fuel t i₁ h₁
  obtain ⟨_, w₂, e₂⟩ := compileCnf_correct C lvl inj fuel hperm i₂ h₂
  exact (canon lvl inj w₁ w₂).1 fun a => by rw [e₁ a, e₂ a, cnfSat_perm a hleaves]

end props

/-! ## non-vacuity: the model returns on real inputs, edge cases included -/
section demo
open Ptr

private def L (v : Nat) (p : Bool) : Lit := ⟨v, p⟩
private def x0 : Ptr := node false 0 fls tru
private def x1 : Ptr := node false 1 fls tru

/-- the empty formula is `true`; a formula with an empty clause is `false` -/
example : runCompileCnf [0, 1, 2] [] 20 = some tru := by decide
example : runCompileCnf [0, 1, 2] [[L 0 true, L 1 false], [], [L 2 true]] 20 = some fls := by decide
/-- unit clauses; a repeated literal; complementary literals (a tautological clause) -/
example : runCompileCnf [0, 1, 2] [[L 0 true]] 20 = some x0 := by decide
example : runCompileCnf [0, 1, 2] [[L 1 true, L 1 false, L 1 true]] 20 = some tru := by decide
example : runCompileCnf [0, 1, 2] [[L 1 true, L 1 true], [L 0 true]] 20
    = some (node false 0 fls x1) := by decide
/-- contradictory units -/
example : runCompileCnf [0, 1, 2] [[L 0 true], [L 0 false]] 20 = some fls := by decide

/-- a four-clause CNF over three variables: `(x0 ∨ ¬x1) ∧ (x1 ∨ x2) ∧ (¬x2 ∨ ¬x0 ∨ x0) ∧ x1` -/
def demoCnf : Cnf :=
  [[L 0 true, L 1 false], [L 1 true, L 2 true, L 2 true], [L 2 false, L 0 false, L 0 true], [L 1 true]]

/-- `= x0 ∧ x1`, under two different orders, and for a different clause permutation -/
example : runCompileCnf [0, 1, 2] demoCnf 20 = some (node false 0 fls x1) := by decide
example : runCompileCnf [1, 2, 0] demoCnf 20 = some (node false 1 fls x0) := by decide
example : runCompileCnfPermuted [0, 1, 2] demoCnf.reverse 20 = some (node false 0 fls x1) := by
  decide
/-- the stable sort by the level of the LAST literal really permutes (order `x1 < x2 < x0`) -/
example : sortClauses (lvlOfOrder [1, 2, 0]) demoCnf
    = [[L 0 true, L 1 false], [L 1 true], [L 1 true, L 2 true, L 2 true],
       [L 2 false, L 0 false, L 0 true]] := by decide

/-- compiling under `x1 = true` is compiling and then conditioning; both strategies agree -/
example : runCompileCnfWithAssign [0, 1, 2] demoCnf [none, some true, none] 20 = some x0 := by
  decide
example : runCompileThenCondition [0, 1, 2] demoCnf [none, some true, none] 20 = some x0 := by
  decide
example : (compileWithAssign (ops ListCache id 20) (fun _ => (3, 1)) (pmodelOfList [none, some true])
    ListCache.empty demoCnf).map (·.2) = some x0 := by decide
/-- every clause satisfied, and some clause falsified, by the partial model -/
example : runCompileCnfWithAssign [0, 1, 2] demoCnf [some true, some true, some false] 20
    = some tru := by decide
example : runCompileCnfWithAssign [0, 1, 2] demoCnf [some false, some true] 20 = some fls := by
  decide

/-- an expression with every constructor: `ite x0 (x1 ⊕ ¬x2) (x1 ⇔ ¬(x2 ∧ (x0 ∨ x2)))` -/
def demoExpr : LogicalExpr :=
  .ite (.lit 0 true) (.xor (.lit 1 true) (.lit 2 false))
    (.iff (.lit 1 true) (.not (.and (.lit 2 true) (.or (.lit 0 true) (.lit 2 true)))))

example : (runCompileExpr [0, 1, 2] demoExpr 20).isSome = true := by decide

/-- a dtree with an empty, a unit and a three-literal leaf -/
def demoDtree : DTree :=
  .node (.node (.leaf [L 0 true, L 1 false, L 2 true]) (.leaf [L 1 true])) (.leaf [L 2 false])

example : Plan.fromDtree demoDtree
    = .and (.and (.or (.or (.lit 0 true) (.lit 1 false)) (.lit 2 true)) (.lit 1 true))
        (.lit 2 false) := by decide
example : runCompileDtree [0, 1, 2] demoDtree 20
    = runCompileCnf [0, 1, 2] demoDtree.clauses 20 := by decide
example : runCompileDtree [0, 1, 2] (.node demoDtree (.leaf [])) 20 = some fls := by decide

/-- the hypotheses of the theorems are met: instances with the list cache and the linear order -/
example : ∃ r, runCompileCnf [0, 1, 2] demoCnf 20 = some r ∧ WF (lvlOfOrder [0, 1, 2]) r ∧
    ∀ a, r.eval a = cnfSat a demoCnf := by
  cases h : compileCnf (ops ListCache (lvlOfOrder [0, 1, 2]) 20) ListCache.empty
      (sortClauses (lvlOfOrder [0, 1, 2]) demoCnf) with
  | none => exact absurd h (by decide)
  | some x =>
    obtain ⟨s', r⟩ := x
    have inj : ∀ x y, lvlOfOrder [0, 1, 2] x = lvlOfOrder [0, 1, 2] y → x = y := by
      intro x y
      match x, y with
      | 0, 0 | 1, 1 | 2, 2 => intro _; rfl
      | 0, 1 | 0, 2 | 1, 0 | 1, 2 | 2, 0 | 2, 1 => intro e; exact absurd e (by decide)
      | x + 3, 0 | x + 3, 1 | x + 3, 2 | 0, y + 3 | 1, y + 3 | 2, y + 3 =>
        intro e; simp [lvlOfOrder, List.idxOf?, List.findIdx?, List.findIdx?.go] at e
      | x + 3, y + 3 =>
        intro e; simpa [lvlOfOrder, List.idxOf?, List.findIdx?, List.findIdx?.go] using e
    obtain ⟨_, w, e⟩ := compileCnf_sorted_correct ListCache _ inj 20 (cinv_empty _ _) h
    exact ⟨r, by simp [runCompileCnf, h], w, e⟩

end demo

#print axioms compileCnf_correct
#print axioms compileCnf_models
#print axioms compileCnf_sorted_correct
#print axioms compileCnf_raw_correct
#print axioms compileCnf_perm_irrelevant
#print axioms compileWithAssign_correct
#print axioms compileWithAssign_eval
#print axioms compileWithAssign_eq_condition
#print axioms compileWithAssign_eq_condition_vec
#print axioms compileWithAssign_strategy_irrelevant
#print axioms compileExpr_correct
#print axioms compilePlan_correct
#print axioms planFromDtree_sem
#print axioms compileDtree_correct
#print axioms compileDtree_eq_compileCnf
end Bdd
