import RsddModel.Model.GenDnnf
import RsddModel.Model.TopDown
import RsddModel.Lemmas.TieDnnfAux
/-!
# Tie to the source text (translator route): the decision-DNNF builder

`RsddModel/Model/GenDnnf.lean` is rewritten by `tools/gen_dnnf.py` from
`src/builder/decision_nnf/{builder,standard,semantic}.rs` on every run.  The theorems below state
that the regenerated definitions ARE the definitions of the hand-written model `TopDown`
(`Model/TopDown.lean`), up to the order of the arguments (the generated definitions take the
arguments in the order of the Rust signature, followed by the node store).

Each proof first tries definitional equality and then unfolds both sides and case-splits, so that
a re-arrangement of the source that leaves the function unchanged still checks.
-/
set_option linter.unusedSimpArgs false
set_option linter.unusedVariables false
namespace TieDnnf
open Spec Bdd TopDown

/-- closes goals that differ by the placement of `if`/`match`/`let` only -/
macro "tie_split" : tactic =>
  `(tactic| all_goals (repeat' (first | rfl | (split <;> try simp only [*]))))

/-! ## the two stores -/

theorem standard_get_or_insert_tie :
    (fun (t : Unit) v lo hi => Gen.TopDown.standardGetOrInsert (v, lo, hi) t) = standardStore.getOrInsert := by
  first
  | rfl
  | (funext t v lo hi
     simp only [Gen.TopDown.standardGetOrInsert, standardStore, dnnfNode, Ptr.neg, Bool.not_false, Bool.not_true]
     first | rfl | (split <;> simp_all [Ptr.neg]) | (cases lo <;> cases hi <;> simp_all [Ptr.neg, Ptr.isNeg] <;> grind))

theorem semantic_get_or_insert_tie {H : Type} [DecidableEq H] (semHash : Ptr → H) (negH key : H → H) :
    (fun t v lo hi => Gen.TopDown.semanticGetOrInsert semHash negH key (v, lo, hi) t)
      = getOrInsertSemantic semHash negH key := by
  first
  | rfl
  | (funext t v lo hi
     simp only [Gen.TopDown.semanticGetOrInsert, getOrInsertSemantic, TieDnnfAux.tblGetByHash,
       TieDnnfAux.tblGetOrInsertByHash, Option.map]
     cases h1 : List.find? (fun e => e.1 == key (semHash (Ptr.node false v lo hi))) t <;>
       cases h2 : List.find? (fun e => e.1 == key (negH (semHash (Ptr.node false v lo hi)))) t <;>
       simp_all)

/-! ## `conjoin_implied` -/

theorem conjoin_implied_loop_tie :
    (fun NS t ls sub => Gen.TopDown.conjoinImplied_loop NS ls sub t) = @implyChain := by
  first
  | rfl
  | (funext NS t ls sub
     induction ls generalizing t sub with
     | nil => first | done | rfl | simp [Gen.TopDown.conjoinImplied_loop, implyChain]
     | cons l ls ih =>
       simp only [Gen.TopDown.conjoinImplied_loop, implyChain]
       first
       | done
       | (rw [ih]; done)
       | (cases hp : l.pol <;> simp only [hp, if_true, if_false, Bool.false_eq_true] <;> rw [ih] <;> done)
       | (cases hp : l.pol <;> simp_all))

theorem conjoin_implied_loop_pt (NS : NodeStore) (t : NS.τ) (ls : List Lit) (sub : Ptr) :
    Gen.TopDown.conjoinImplied_loop NS ls sub t = implyChain NS t ls sub :=
  congrFun (congrFun (congrFun (congrFun conjoin_implied_loop_tie NS) t) ls) sub

theorem conjoin_implied_tie :
    (fun NS t ls nnf => Gen.TopDown.conjoinImplied NS ls nnf t) = @conjoinImplied := by
  first
  | rfl
  | (funext NS t ls nnf
     simp only [Gen.TopDown.conjoinImplied, conjoinImplied, conjoin_implied_loop_pt]
     first
     | (tie_split; done)
     | (cases nnf <;> simp [Ptr.isFalse, Ptr.isTrue, Ptr.isNeg] <;> tie_split)
     | grind)

theorem conjoin_implied_pt (NS : NodeStore) (t : NS.τ) (ls : List Lit) (nnf : Ptr) :
    Gen.TopDown.conjoinImplied NS ls nnf t = conjoinImplied NS t ls nnf :=
  congrFun (congrFun (congrFun (congrFun conjoin_implied_tie NS) t) ls) nnf

/-! ## conditioning -/

theorem cond_helper_pt (NS : NodeStore) (x : Nat) (b : Bool) (p : Ptr) :
    ∀ t, Gen.TopDown.condHelper NS p x b t = condHelper NS x b p t := by
  first
  | (intro t; rfl)
  | (induction p with
     | tru => intro t; first | done | rfl | simp [Gen.TopDown.condHelper, condHelper]
     | fls => intro t; first | done | rfl | simp [Gen.TopDown.condHelper, condHelper]
     | node c v lo hi ihlo ihhi =>
       intro t
       simp only [Gen.TopDown.condHelper, condHelper, ihlo, ihhi, negIf]
       first
       | done
       | rfl
       | (cases c <;> tie_split; done)
       | (try (generalize condHelper NS x b lo t = r1; rcases r1 with ⟨l, t1⟩; simp only [])
          try (generalize condHelper NS x b hi _ = r2; rcases r2 with ⟨h, t2⟩; simp only [])
          try (generalize NodeStore.getOrInsert NS _ _ _ _ = r3; rcases r3 with ⟨r, t3⟩; simp only [])
          cases c <;> cases b <;> simp <;> grind)
       | grind
       | (cases c <;> cases b <;> simp_all <;> grind))

theorem cond_helper_tie :
    (fun NS x b p t => Gen.TopDown.condHelper NS p x b t) = @condHelper := by
  funext NS x b p t; exact cond_helper_pt NS x b p t

theorem condition_tie :
    (fun NS t p x b => Gen.TopDown.condition NS p x b t) = @TopDown.condition := by
  first
  | rfl
  | (funext NS t p x b
     simp only [Gen.TopDown.condition, TopDown.condition, cond_helper_pt]
     tie_split)

theorem var_tie :
    (fun NS t x pol => Gen.TopDown.mkVar NS x pol t) = @TopDown.mkVar := by
  first
  | rfl
  | (funext NS t x pol
     simp only [Gen.TopDown.mkVar, TopDown.mkVar]
     tie_split)

/-! ## `topdown_h` and `compile_cnf_topdown` -/

theorem conjoin_implied_fn (NS : NodeStore) :
    Gen.TopDown.conjoinImplied NS = fun ls nnf t => TopDown.conjoinImplied NS t ls nnf := by
  funext ls nnf t; exact conjoin_implied_pt NS t ls nnf

/-- The generated `topdown_h` recurses with fuel; with `fuel = num_vars - level` (the model's `rem`) it is the
model's `topdownH`.  (`cnf` is only asked for `num_vars()`.) -/
theorem topdown_h_fn (S : Solver) (NS : NodeStore) (varAt : Nat → Nat) (cnf : Cnf) (numVars : Nat) :
    ∀ (rem level : Nat), level + rem = numVars →
      Gen.TopDown.topdownH S NS varAt rem cnf numVars level
        = fun s cache t => TopDown.topdownH S NS varAt rem level s cache t := by
  intro rem
  induction rem with
  | zero =>
    intro level hl
    funext s cache t
    have h0 : level ≥ numVars := by omega
    simp [Gen.TopDown.topdownH, TopDown.topdownH, h0]
  | succ rem ih =>
    intro level hl
    funext s cache t
    have h0 : (level ≥ numVars) = False := by simp; omega
    have ih' := ih (level + 1) (by omega)
    first
    | (unfold Gen.TopDown.topdownH TopDown.topdownH
       simp (config := {zeta := false, iota := false, proj := false}) only [h0, false_or, decideNode, branch]
       (try rw [ih']); (try rw [conjoin_implied_fn])
       tie_split)
    | (simp only [Gen.TopDown.topdownH, TopDown.topdownH, TopDown.decideNode, TopDown.branch, ih', h0,
         false_or, conjoin_implied_fn]
       tie_split)
    | (simp only [Gen.TopDown.topdownH, TopDown.topdownH, TopDown.decideNode, TopDown.branch, ih', h0,
         false_or, conjoin_implied_fn]
       repeat' (first | rfl | (split <;> try simp_all)))

theorem topdown_h_pt (S : Solver) (NS : NodeStore) (varAt : Nat → Nat) (cnf : Cnf) (numVars : Nat)
    (rem level : Nat) (h : level + rem = numVars) (s : S.σ) (cache : Cache S.κ) (t : NS.τ) :
    Gen.TopDown.topdownH S NS varAt rem cnf numVars level s cache t
      = TopDown.topdownH S NS varAt rem level s cache t :=
  congrFun (congrFun (congrFun (topdown_h_fn S NS varAt cnf numVars rem level h) s) cache) t

theorem compile_loop_tie :
    (fun NS t ls r => Gen.TopDown.compileTopdown_loop NS ls r t) = @implyChain := by
  first
  | rfl
  | (funext NS t ls sub
     induction ls generalizing t sub with
     | nil => first | done | rfl | simp [Gen.TopDown.compileTopdown_loop, implyChain]
     | cons l ls ih =>
       simp only [Gen.TopDown.compileTopdown_loop, implyChain]
       first
       | done
       | (rw [ih]; done)
       | (cases hp : l.pol <;> simp only [hp, if_true, if_false, Bool.false_eq_true] <;> rw [ih] <;> done)
       | (cases hp : l.pol <;> simp_all))

theorem compile_loop_fn (NS : NodeStore) :
    Gen.TopDown.compileTopdown_loop NS = fun ls r t => implyChain NS t ls r := by
  funext ls r t
  exact congrFun (congrFun (congrFun (congrFun compile_loop_tie NS) t) ls) r

theorem compile_cnf_topdown_tie :
    (fun S NS varAt cnf numVars t => Gen.TopDown.compileTopdown S NS varAt cnf numVars t)
      = @TopDown.compileTopdown := by
  funext S NS varAt cnf numVars t
  have hh := topdown_h_fn S NS varAt cnf numVars numVars 0 (by omega)
  first
  | (unfold Gen.TopDown.compileTopdown TopDown.compileTopdown
     simp (config := {zeta := false, iota := false, proj := false}) only [Nat.sub_zero, conjoinImplied]
     (try rw [hh]); (try rw [compile_loop_fn]); (try rw [conjoin_implied_fn])
     (try simp (config := {zeta := false, iota := false, proj := false}) only [conjoinImplied])
     tie_split)
  | (simp only [Gen.TopDown.compileTopdown, TopDown.compileTopdown, Nat.sub_zero, hh, compile_loop_fn,
       conjoin_implied_fn, conjoinImplied]
     tie_split)

/-! ## `BddPtr` observers (`src/repr/bdd.rs`)

These justify the entries of the translator's mapping table for a matched pointer
(`low_raw ↦ lo`, `is_neg ↦ c`, `low ↦ negIf c lo`, …).  `panic!` (constant pointers) is `default`. -/

macro "obs_tac" defs:term : tactic =>
  `(tactic| first
    | rfl
    | (funext p; cases p <;> first | rfl | (rename_i c _ _ _; cases c <;> rfl) | simp [$defs:term, Ptr.isNeg, Ptr.isTrue, Ptr.isFalse, Ptr.neg, negIf, TieDnnfAux.varSafe]))

theorem obs_is_neg_tie : Gen.TopDown.obsIsNeg = Ptr.isNeg := by obs_tac Gen.TopDown.obsIsNeg
theorem obs_is_true_tie : Gen.TopDown.obsIsTrue = Ptr.isTrue := by obs_tac Gen.TopDown.obsIsTrue
theorem obs_is_false_tie : Gen.TopDown.obsIsFalse = Ptr.isFalse := by obs_tac Gen.TopDown.obsIsFalse
theorem obs_neg_tie : Gen.TopDown.obsNeg = Ptr.neg := by obs_tac Gen.TopDown.obsNeg
theorem obs_var_safe_tie : Gen.TopDown.obsVarSafe = TieDnnfAux.varSafe := by obs_tac Gen.TopDown.obsVarSafe
theorem obs_low_raw_tie (c : Bool) (v : Nat) (lo hi : Ptr) : Gen.TopDown.obsLowRaw (.node c v lo hi) = lo := by
  first | rfl | (cases c <;> rfl) | (cases c <;> simp [Gen.TopDown.obsLowRaw])
theorem obs_high_raw_tie (c : Bool) (v : Nat) (lo hi : Ptr) : Gen.TopDown.obsHighRaw (.node c v lo hi) = hi := by
  first | rfl | (cases c <;> rfl) | (cases c <;> simp [Gen.TopDown.obsHighRaw])
theorem obs_low_tie (c : Bool) (v : Nat) (lo hi : Ptr) : Gen.TopDown.obsLow (.node c v lo hi) = negIf c lo := by
  first | rfl | (cases c <;> rfl) | (cases c <;> simp [Gen.TopDown.obsLow, negIf])
theorem obs_high_tie (c : Bool) (v : Nat) (lo hi : Ptr) : Gen.TopDown.obsHigh (.node c v lo hi) = negIf c hi := by
  first | rfl | (cases c <;> rfl) | (cases c <;> simp [Gen.TopDown.obsHigh, negIf])

end TieDnnf

#print axioms TieDnnf.standard_get_or_insert_tie
#print axioms TieDnnf.semantic_get_or_insert_tie
#print axioms TieDnnf.conjoin_implied_loop_tie
#print axioms TieDnnf.conjoin_implied_loop_pt
#print axioms TieDnnf.conjoin_implied_tie
#print axioms TieDnnf.conjoin_implied_pt
#print axioms TieDnnf.cond_helper_pt
#print axioms TieDnnf.cond_helper_tie
#print axioms TieDnnf.condition_tie
#print axioms TieDnnf.var_tie
#print axioms TieDnnf.conjoin_implied_fn
#print axioms TieDnnf.topdown_h_fn
#print axioms TieDnnf.topdown_h_pt
#print axioms TieDnnf.compile_loop_tie
#print axioms TieDnnf.compile_loop_fn
#print axioms TieDnnf.compile_cnf_topdown_tie
#print axioms TieDnnf.obs_is_neg_tie
#print axioms TieDnnf.obs_is_true_tie
#print axioms TieDnnf.obs_is_false_tie
#print axioms TieDnnf.obs_neg_tie
#print axioms TieDnnf.obs_var_safe_tie
#print axioms TieDnnf.obs_low_raw_tie
#print axioms TieDnnf.obs_high_raw_tie
#print axioms TieDnnf.obs_low_tie
#print axioms TieDnnf.obs_high_tie
