import RsddModel.Model.GenFfi
import RsddModel.Props.C18
/-!
# Tie to the source text (translator route): the C interface (src/ffi/bdd.rs)

`RsddModel/Model/GenFfi.lean` is rewritten from the Rust text on every run (tools/gen_ffi.py): for
every diagram-building export, WHICH native operation it calls with WHICH C arguments in WHICH
positions; for the accessors, the expression they return.  The theorems state that this is the
table (`Ffi.Call.toOp`) and the accessors the theorems of C18 are about.
-/
namespace TieFfi
open Bdd

theorem toOp_tie : Gen.Ffi.toOp = Ffi.Call.toOp := by
  funext c
  cases c <;> first | rfl | (simp [Gen.Ffi.toOp, Ffi.Call.toOp]; done)

theorem bddEq_tie : Gen.Ffi.bddEq = Ffi.bddEq := by
  first
  | rfl
  | (funext p q; simp [Gen.Ffi.bddEq, Ffi.bddEq]; done)
  | (funext p q; simp only [Gen.Ffi.bddEq, Ffi.bddEq]; grind)

theorem topvar_tie : Gen.Ffi.topvar = Ffi.topvar := by
  funext p
  cases p <;> first | rfl | (simp [Gen.Ffi.topvar, Ffi.topvar, Ptr.top?]; done)

theorem low_tie : Gen.Ffi.low = Ffi.low := by
  funext p
  cases p <;> first | rfl | (simp [Gen.Ffi.low, Ffi.low, Gen.Ffi.ptrLow, Gen.Ffi.ptrHigh, Gen.Ffi.ptrLowRaw, Gen.Ffi.ptrHighRaw]; done)

theorem high_tie : Gen.Ffi.high = Ffi.high := by
  funext p
  cases p <;> first | rfl | (simp [Gen.Ffi.high, Ffi.high, Gen.Ffi.ptrLow, Gen.Ffi.ptrHigh, Gen.Ffi.ptrLowRaw, Gen.Ffi.ptrHighRaw]; done)

/-- consequence: a sequence of exported calls is the native builder run of the sequence obtained
through the table REGENERATED FROM THE WRAPPERS' SOURCE (`C18.ffi_run_native` is stated with the
hand-written `Call.toOp`) -/
theorem run_native_source (C : CacheImpl) (lvl : Nat → Nat) (fuel : Nat) (cs : List Ffi.Call) (st : Ffi.St C) :
    (Ffi.run C lvl fuel st cs).map Ffi.St.toNative = Bdd.run C lvl fuel st.toNative (cs.map Gen.Ffi.toOp) := by
  rw [toOp_tie]; exact C18.ffi_run_native C lvl fuel cs st

#print axioms toOp_tie
#print axioms bddEq_tie
#print axioms topvar_tie
#print axioms low_tie
#print axioms high_tie
#print axioms run_native_source
end TieFfi
