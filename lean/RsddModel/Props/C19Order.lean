import RsddModel.Props.C19
import RsddModel.Lemmas.CompileLvlCongr
import RsddModel.Lemmas.Orders
/-!
# C19 / C05 / C08 for a REAL variable order (not an abstract injective level map)

The theorems of `Props/C19.lean` (and of C01/C05/C08 below them) quantify over an injective level
map `lvl : Nat → Nat`.  What the tools pass is `VarOrder::get` of an order over `n` variables,
which is defined — and injective — only on `0..n-1` (the Rust indexes a vector; the model's
`VarOrder.get` is totalised with a default).  `cli_wmc_spec` could therefore not be instantiated
with `lvl := order.get` literally.  This file closes the gap without touching the existing
theorems:

* `extLvl o n` extends `o.get` by the identity above `n`; it is injective for a well-formed order
  (`extLvl_inj`) and agrees with `o.get` below `n`;
* compilation and smoothing read the level map only at variables `< n` when the expression only
  mentions such variables (`Lemmas/BddLvlCongr.lean`, `Lemmas/CompileLvlCongr.lean`:
  `ite_lvl_congr`, `compileExpr_agree`, `smooth_lvl_congr`), so the run under `o.get` IS the run
  under `extLvl o n`;
* hence `cli_wmc_order`: for every well-formed order over `n` variables (every permutation), every
  lawful cache, every commutative semiring and weight table and every expression over variables
  `< n`, the count printed by `single_wmc` under THAT order's own `get`/`var_at_level` is the
  brute-force weighted sum of the formula over the `n` variables.  No side condition on the
  diagram is left (the two `d.vars` hypotheses of `cli_wmc_spec` are discharged).
-/
namespace C19Order
open Cli Spec Bdd Spec.Text Ser Orders

/-- `o.get` below `n`, the identity from `n` on -/
def extLvl (o : VarOrder) (n : Nat) (v : Nat) : Nat := if v < n then o.get v else v

theorem extLvl_agree (o : VarOrder) (n : Nat) : AgreeLt n o.get (extLvl o n) := by
  intro v hv; simp [extLvl, hv]

theorem extLvl_inj {o : VarOrder} {n : Nat} (h : o.WF n) :
    ∀ x y, extLvl o n x = extLvl o n y → x = y := by
  intro x y hxy
  unfold extLvl at hxy
  by_cases hx : x < n <;> by_cases hy : y < n <;> simp only [hx, hy, if_true, if_false] at hxy
  · rw [← h.varAtLevel_get x hx, ← h.varAtLevel_get y hy, hxy]
  · have := Orders.WF.get_lt h hx; omega
  · have := Orders.WF.get_lt h hy; omega
  · exact hxy

theorem extLvl_inv {o : VarOrder} {n : Nat} (h : o.WF n) :
    ∀ i, i < n → extLvl o n (o.varAtLevel i) = i := by
  intro i hi
  have := Orders.WF.varAtLevel_lt h hi
  simp only [extLvl, this, if_true]
  exact h.get_varAtLevel i hi

/-- compilation under the order's own `get` is compilation under its injective extension, and the
result only mentions variables of the order -/
theorem compile_order (C : CacheImpl) (o : VarOrder) (n fuel : Nat) (e : Compile.LogicalExpr)
    (hv : e.AllVars (· < n)) :
    Compile.compileExpr (Bdd.ops C o.get fuel) C.empty e
      = Compile.compileExpr (Bdd.ops C (extLvl o n) fuel) C.empty e ∧
    ∀ s' d, Compile.compileExpr (Bdd.ops C o.get fuel) C.empty e = some (s', d) → d.varsLt n := by
  obtain ⟨h1, h2⟩ := Compile.compileExpr_agree (ops_agree (extLvl_agree o n) C fuel) e C.empty
    (cacheVars_empty C n) hv
  exact ⟨h1, fun s' d h => (h2 s' d h).2⟩

/-- **the count tool under a real order.**  For every well-formed order `o` over `n` variables,
every lawful cache, every fuel, every commutative semiring and weight table, and every formula
text whose indexed expression mentions variables `< n` only: if `single_wmc` under `o.get` /
`o.var_at_level` returns `r`, then `r` is the brute-force weighted sum of the formula over the
`n` variables of the order (both the list form and the recursive form). -/
theorem cli_wmc_order {α : Type} (C : CacheImpl) (o : VarOrder) (n : Nat) (hwf : o.WF n)
    (fuel : Nat) (t : SExp) (e : LogicalSExpr) (le : Ser.LogicalExpr)
    (ht : LogicalSExpr.ofSExp t = some e) (hle : fromSexpr e = some le)
    (hvars : (toCompileExpr le).AllVars (· < n))
    {S : SROps α} (hS : S.Laws) (w : Weights α) (r : α)
    (hrun : singleWmc C o.get o.varAtLevel fuel S w n le = some r) :
    ∀ a, r = wsumList S (levelVars o.varAtLevel 0 n) w (fun b => le.eval b) a ∧
         r = wsum S (levelVars o.varAtLevel 0 n) w (fun b => le.eval b) a := by
  obtain ⟨hc1, hc2⟩ := compile_order C o n fuel (toCompileExpr le) hvars
  unfold singleWmc at hrun
  cases hc : Compile.compileExpr (Bdd.ops C o.get fuel) C.empty (toCompileExpr le) with
  | none => rw [hc] at hrun; simp at hrun
  | some sd =>
    obtain ⟨s', d⟩ := sd
    have vd : d.varsLt n := hc2 s' d hc
    rw [hc] at hrun
    simp only [Option.map_some, Option.some.injEq] at hrun
    rw [smooth_lvl_congr (extLvl_agree o n) o.varAtLevel d n vd] at hrun
    rw [hc1] at hc
    -- from here on: the run under the injective extension, as in `C19.cli_wmc_spec`
    obtain ⟨_, hwfd, hsem⟩ := Bdd.compileExpr_correct C (extLvl o n) (extLvl_inj hwf) fuel
      (toCompileExpr le) (cinv_empty C (extLvl o n)) hc
    have hd : ∀ a, d.eval a = le.eval a := fun a => by rw [hsem a, C19.toCompileExpr_sem]
    have hmem := mem_vars_of_varsLt vd
    have hv : ∀ v ∈ d.vars, o.varAtLevel (extLvl o n v) = v := fun v hvm => by
      have hvn := hmem v hvm
      simp only [extLvl, hvn, if_true]; exact hwf.varAtLevel_get v hvn
    have hlt : ∀ v ∈ d.vars, extLvl o n v < n := fun v hvm => by
      have hvn := hmem v hvm
      simp only [extLvl, hvn, if_true]; exact Orders.WF.get_lt hwf hvn
    intro a
    have hord := C19.ordBetween_of_above hwfd.1 hlt
    obtain ⟨h1, h2, _⟩ := C08.smooth_wmc hS w (extLvl_inv hwf) hv hord a
    have hfun : (fun b => d.eval b) = (fun b => le.eval b) := funext hd
    subst hrun
    constructor
    · rw [h1]; show wsumList S _ w (fun b => d.eval b) a = _; rw [hfun]
    · rw [h2]; show wsum S _ w (fun b => d.eval b) a = _; rw [hfun]

/-- **the formula-to-BDD tool under a real order**: for every well-formed order over `n` variables
and every formula text over variables `< n`, the table emitted under the order's own `get` denotes
the formula as written. -/
theorem cli_formula_to_bdd_order (C : CacheImpl) (o : VarOrder) (n : Nat) (hwf : o.WF n)
    (fuel : Nat) (t : SExp) (e : LogicalSExpr) (le : Ser.LogicalExpr)
    (ht : LogicalSExpr.ofSExp t = some e) (hle : fromSexpr e = some le)
    (hvars : (toCompileExpr le).AllVars (· < n)) (tbl : BddTable)
    (hrun : formulaToBdd C o.get fuel le = some tbl) :
    ∃ root, tbl.roots = [root] ∧
      ∀ a, evalSExp (nameAssign t a) t = some (evalBddTable tbl root a) := by
  unfold formulaToBdd at hrun
  rw [(compile_order C o n fuel (toCompileExpr le) hvars).1] at hrun
  exact C19.cli_formula_to_bdd_spec C (extLvl o n) (extLvl_inj hwf) fuel t e le ht hle tbl hrun

/-- plan compilation under the order's own `get` is compilation under its injective extension -/
theorem compilePlan_order (C : CacheImpl) (o : VarOrder) (n fuel : Nat) (p : Compile.Plan)
    (hv : p.AllVars (· < n)) :
    Compile.compilePlan (Bdd.ops C o.get fuel) C.empty p
      = Compile.compilePlan (Bdd.ops C (extLvl o n) fuel) C.empty p ∧
    ∀ s' d, Compile.compilePlan (Bdd.ops C o.get fuel) C.empty p = some (s', d) → d.varsLt n := by
  obtain ⟨h1, h2⟩ := Compile.compilePlan_agree (ops_agree (extLvl_agree o n) C fuel) p C.empty
    (cacheVars_empty C n) hv
  exact ⟨h1, fun s' d h => (h2 s' d h).2⟩

/-- **the CNF-to-BDD tool under a real order**: for every well-formed order over `n` variables and
every dtree over the clauses of the parsed text whose plan mentions variables `< n` only, the table
emitted for the diagram compiled under the order's own `get` denotes the CNF of the text, and the
diagram only mentions variables of the order. -/
theorem cli_cnf_to_bdd_order (C : CacheImpl) (o : VarOrder) (n : Nat) (hwf : o.WF n)
    (fuel : Nat) (text : String) (c0 : Cnf) (hparse : parseDimacs text = some c0)
    (tree : Compile.DTree) (hleaves : tree.clauses.Perm (Ser.cnfNew c0))
    (hvars : (Compile.Plan.fromDtree tree).AllVars (· < n))
    {s' : C.σ} {d : Ptr}
    (hcomp : Compile.compilePlan (Bdd.ops C o.get fuel) C.empty (Compile.Plan.fromDtree tree) = some (s', d)) :
    d.varsLt n ∧ ∃ root, (serBdd d).roots = [root] ∧
      ∀ a, evalBddTable (serBdd d) root a = cnfSat a c0 := by
  obtain ⟨h1, h2⟩ := compilePlan_order C o n fuel (Compile.Plan.fromDtree tree) hvars
  refine ⟨h2 s' d hcomp, ?_⟩
  rw [h1] at hcomp
  exact C19.cli_cnf_to_bdd_spec C (extLvl o n) (extLvl_inj hwf) fuel text c0 hparse tree hleaves hcomp

/-! non-vacuity: a non-trivial permutation is a well-formed order, and the linear order is -/
example : (VarOrder.new [2, 0, 1]).WF 3 := new_wf (by decide)
example (n : Nat) : (VarOrder.linear n).WF n := linear_wf n

#print axioms extLvl_inj
#print axioms compile_order
#print axioms cli_wmc_order
#print axioms cli_formula_to_bdd_order
#print axioms compilePlan_order
#print axioms cli_cnf_to_bdd_order
end C19Order
