import RsddModel.Model.GenFF
import RsddModel.Model.Semirings
/-!
# Tie to the source text (translator route): `FiniteField`

See `TieIte.lean` for the method.  `RsddModel/Model/GenFF.lean` is rewritten from
`src/util/semirings/finitefield.rs` on every run.
-/
namespace TieFF

/-! ## `FiniteField` one-liners -/

theorem ff_new : Gen.Sem.ffNew = Sem.ffNew := by
  first
  | rfl
  | (funext P v; simp only [Gen.Sem.ffNew, Sem.ffNew]; grind)
theorem ff_negate : Gen.Sem.ffNegate = Sem.ffNegate := by
  first
  | rfl
  | (funext P a; simp only [Gen.Sem.ffNegate, Sem.ffNegate, ff_new]; congr 1; grind)
  | (funext P a; simp only [Gen.Sem.ffNegate, Sem.ffNegate, ff_new, Sem.ffNew]; grind)
  | (funext P a; simp only [Gen.Sem.ffNegate, Sem.ffNegate, ff_new, Sem.ffNew, Gen.Sem.ffNew, Nat.mod_mod]; first | done | rfl | grind | omega)
theorem ff_add : Gen.Sem.ffAdd = Sem.ffAdd := by
  first
  | rfl
  | (funext P a b; simp only [Gen.Sem.ffAdd, Sem.ffAdd, ff_new]; congr 1; grind)
  | (funext P a b; simp only [Gen.Sem.ffAdd, Sem.ffAdd, ff_new, Sem.ffNew]; grind)
  | (funext P a b; simp only [Gen.Sem.ffAdd, Sem.ffAdd, ff_new, Sem.ffNew, Gen.Sem.ffNew, Nat.mod_mod]; first | done | rfl | grind | omega)
theorem ff_sub : Gen.Sem.ffSub = Sem.ffSub := by
  first
  | rfl
  | (funext P a b; simp only [Gen.Sem.ffSub, Sem.ffSub, ff_new]; congr 1; grind)
  | (funext P a b; simp only [Gen.Sem.ffSub, Sem.ffSub, ff_new, Sem.ffNew]; grind)
  | (funext P a b; simp only [Gen.Sem.ffSub, Sem.ffSub, ff_new, Sem.ffNew, Gen.Sem.ffNew, Nat.mod_mod]; first | done | rfl | grind | omega)

end TieFF
