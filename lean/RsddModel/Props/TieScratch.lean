import RsddModel.Model.GenScratch
set_option linter.unusedSectionVars false
set_option linter.unusedSimpArgs false
namespace TieScratch
open Scratch Scratch.Tr
section
variable {Tag : Type} [DecidableEq Tag] {U : Tag → Type}

theorem neg_tie (r : Ref) : Gen.Scr.neg r = Ref.neg r := by
  first | rfl | (cases r <;> rfl) | (cases r <;> simp [Gen.Scr.neg, Ref.neg]; done)
theorem isNeg_tie (r : Ref) : Gen.Scr.isNeg r = Ref.isNeg r := by
  first | rfl | (cases r <;> rfl) | (cases r <;> simp [Gen.Scr.isNeg, Ref.isNeg]; done)
theorem isConst_tie (r : Ref) : Gen.Scr.isConst r = Tr.isConst r := by
  first | rfl | (cases r <;> rfl) | (cases r <;> simp [Gen.Scr.isConst, Tr.isConst, Ref.idx?]; done)
theorem low_tie (pv : PV) : Gen.Scr.low pv = Tr.low pv := by
  first | rfl | (cases pv <;> rfl) | (cases pv <;> simp [Gen.Scr.low, Tr.low, neg_tie]; done)
theorem high_tie (pv : PV) : Gen.Scr.high pv = Tr.high pv := by
  first | rfl | (cases pv <;> rfl) | (cases pv <;> simp [Gen.Scr.high, Tr.high, neg_tie]; done)
theorem lowRaw_tie (pv : PV) : Gen.Scr.lowRaw pv = Tr.lowRaw pv := by
  first | rfl | (cases pv <;> rfl) | (cases pv <;> simp [Gen.Scr.lowRaw, Tr.lowRaw, neg_tie]; done)
theorem highRaw_tie (pv : PV) : Gen.Scr.highRaw pv = Tr.highRaw pv := by
  first | rfl | (cases pv <;> rfl) | (cases pv <;> simp [Gen.Scr.highRaw, Tr.highRaw, neg_tie]; done)
theorem isScratchCleared_tie (σ : Scr U) (pv : PV) : Gen.Scr.isScratchCleared σ pv = Tr.isScratchCleared σ pv := by
  first
  | rfl
  | (cases pv <;> rfl)
  | (cases pv <;> simp [Gen.Scr.isScratchCleared, Tr.isScratchCleared, PV.ref, Ref.idx?]; done)
theorem scratch_tie {X : Type} (cast : Cell U → Option X) (σ : Scr U) (pv : PV) :
    Gen.Scr.scratch cast σ pv = Tr.scratch cast σ pv := by
  first
  | rfl
  | (cases pv <;> rfl)
  | (cases pv <;> simp [Gen.Scr.scratch, Tr.scratch, isScratchCleared_tie, Tr.isScratchCleared, PV.ref, Ref.idx?]; done)
  | (cases pv <;> simp [Gen.Scr.scratch, Tr.scratch, isScratchCleared_tie, Tr.isScratchCleared, PV.ref, Ref.idx?] <;>
      (first | done | (split <;> simp_all; done) | (cases (σ _).isSome <;> simp; done)))
theorem setScratch_tie {X : Type} (box : X → Cell U) (σ : Scr U) (pv : PV) (v : X) :
    Gen.Scr.setScratch box σ pv v = Tr.setScratch box σ pv v := by
  first
  | rfl
  | (cases pv <;> rfl)
  | (cases pv <;> simp [Gen.Scr.setScratch, Tr.setScratch, PV.ref, Ref.idx?]; done)

/-- everything a traversal's step is unfolded with -/
macro "tie_unfold" : tactic => `(tactic|
  simp [Gen.Scr.clearStep, Gen.Scr.bddFoldStep, Gen.Scr.foldStep, Gen.Scr.countStep,
    neg_tie, isNeg_tie, isConst_tie, low_tie, high_tie, lowRaw_tie, highRaw_tie, isScratchCleared_tie, scratch_tie,
    setScratch_tie, Tr.isConst, Tr.low, Tr.high, Tr.lowRaw, Tr.highRaw, Tr.isScratchCleared,
    scratch_reg, scratch_compl, castOK_asPair, castOK_asCount, castOK_asPtr, Tr.setScratch, Tr.theVar,
    PV.const, PV.node, PV.ref, Ref.idx?, Ref.isNeg, Ref.neg,
    Scratch.clearScratch, Scratch.foldDag, Scratch.bddFoldDag, Scratch.countH,
    Scratch.probeFold, Scratch.storeFold, Scratch.probeBdd, Scratch.Alg.ofF, Scratch.Alg.leaf, Scratch.bddAlg])

/-- closes the goals left after the cached pair has been case-split -/
macro "tie_close" : tactic => `(tactic|
  first
  | rfl
  | (tie_unfold; done)
  | (tie_unfold <;> simp_all; done)
  | (tie_unfold <;> (repeat' split) <;> simp_all; done)
  | (tie_unfold <;> simp_all <;> (repeat' split) <;> simp_all; done))

theorem clearScratch_tie : Gen.Scr.clearScratch (U := U) = Scratch.clearScratch := by
  first
  | rfl
  | (unfold Gen.Scr.clearScratch
     apply knot_eq
     · intro r σ; cases r <;> tie_close
     · intro n rest r σ
       cases r
       · tie_close
       · tie_close
       all_goals
         simp only [Scratch.clearScratch, Ref.idx?]
         split
         · generalize hc : (σ _).isSome = c
           cases c <;> tie_close
         · rfl)

theorem bddFoldDag_tie (t : Tag) (f : Nat → U t → U t → U t) (lowV highV : U t) :
    Gen.Scr.bddFoldDag t f lowV highV = Scratch.bddFoldDag t f lowV highV := by
  first
  | rfl
  | (unfold Gen.Scr.bddFoldDag
     apply knot_eq
     · intro r σ; cases r <;> tie_close
     · intro n rest r σ
       cases r
       · tie_close
       · tie_close
       all_goals
         simp only [Scratch.bddFoldDag, Ref.idx?]
         split
         · generalize hc : (σ _).asPair t = c
           rcases c with _ | ⟨_ | a, _ | b⟩ <;> tie_close
         · rfl)

theorem bddFold_tie (t : Tag) (f : Nat → U t → U t → U t) (lowV highV : U t) (s : Store) (r : Ref) (σ : Scr U) :
    Gen.Scr.bddFold t f lowV highV s r σ = Scratch.bddFold t f lowV highV s r σ := by
  first
  | rfl
  | (simp only [Gen.Scr.bddFold, Scratch.bddFold, bddFoldDag_tie, clearScratch_tie]; done)
  | (simp [Gen.Scr.bddFold, Scratch.bddFold, bddFoldDag_tie, clearScratch_tie]; done)

theorem foldDag_tie (t : Tag) (f : DDNNF (U t) → U t) :
    Gen.Scr.foldDag t f = Scratch.foldDag t (Alg.ofF f) := by
  first
  | rfl
  | (unfold Gen.Scr.foldDag
     apply knot_eq
     · intro r σ; cases r <;> tie_close
     · intro n rest r σ
       cases r
       · tie_close
       · tie_close
       all_goals
         simp only [Scratch.foldDag, Ref.idx?]
         split
         · generalize hc : (σ _).asPair t = c
           rcases c with _ | ⟨_ | a, _ | b⟩ <;> tie_close
         · rfl)

theorem fold_tie (t : Tag) (f : DDNNF (U t) → U t) (s : Store) (r : Ref) (σ : Scr U) :
    Gen.Scr.fold t f s r σ = Scratch.fold t (Alg.ofF f) s r σ := by
  first
  | rfl
  | (simp only [Gen.Scr.fold, Scratch.fold, foldDag_tie, clearScratch_tie]; done)
  | (simp [Gen.Scr.fold, Scratch.fold, foldDag_tie, clearScratch_tie]; done)

theorem countH_tie : Gen.Scr.countH (U := U) = Scratch.countH := by
  first
  | rfl
  | (unfold Gen.Scr.countH
     apply knot_eq
     · intro r σ; cases r <;> tie_close
     · intro n rest r σ
       cases r
       · tie_close
       · tie_close
       all_goals
         simp only [Scratch.countH, Ref.idx?]
         split
         · generalize hc : (σ.1 _).asCount = c
           rcases c with _ | a <;> tie_close
         · rfl)

theorem countNodes_tie (s : Store) (r : Ref) (σ : Scr U) :
    Gen.Scr.countNodes s r σ = Scratch.countNodes s r σ := by
  first
  | rfl
  | (simp only [Gen.Scr.countNodes, Scratch.countNodes, countH_tie, clearScratch_tie]; done)
  | (simp [Gen.Scr.countNodes, Scratch.countNodes, countH_tie, clearScratch_tie]; done)

/-! ## `src/repr/ddnnf.rs` -/

theorem wmcF_tie {α : Type} (S : SROps α) (w : Spec.Weights α) (d : DDNNF α) :
    Gen.Scr.wmcF S w d = Scratch.wmcF S w d := by
  first
  | rfl
  | (cases d <;> rfl)
  | (cases d <;> simp [Gen.Scr.wmcF, Scratch.wmcF]; done)
  | (cases d <;> simp [Gen.Scr.wmcF, Scratch.wmcF] <;> split <;> simp_all; done)

theorem unsmoothedWmcAlg_tie {α : Type} (S : SROps α) (w : Spec.Weights α) :
    Gen.Scr.unsmoothedWmcAlg S w = Scratch.wmcAlg S w := by
  first
  | rfl
  | (have h : Gen.Scr.wmcF S w = Scratch.wmcF S w := funext (wmcF_tie S w)
     simp only [Gen.Scr.unsmoothedWmcAlg, Scratch.wmcAlg, h]; done)

theorem unsmoothedWmc_tie (t : Tag) (S : SROps (U t)) (w : Spec.Weights (U t)) :
    Gen.Scr.unsmoothedWmc t S w = Query.wmc t S w := by
  first
  | rfl
  | (simp only [Gen.Scr.unsmoothedWmc, Query.wmc, unsmoothedWmcAlg_tie]; done)

theorem evaluateAlg_tie (inst : Spec.Assign) : Gen.Scr.evaluateAlg inst = Scratch.evalAlg inst := by
  first
  | rfl
  | (simp only [Gen.Scr.evaluateAlg, Scratch.evalAlg, unsmoothedWmcAlg_tie]; done)
  | (simp [Gen.Scr.evaluateAlg, Scratch.evalAlg, unsmoothedWmcAlg_tie]; done)

theorem evaluate_tie (t : Tag) (h : U t = Bool) (inst : Spec.Assign) :
    Gen.Scr.evaluate t h inst = Query.evaluate t h inst := by
  first
  | rfl
  | (simp only [Gen.Scr.evaluate, Query.evaluate, evaluateAlg_tie]; done)

theorem semanticHashAlg_tie (P : Nat) (w : Spec.Weights Nat) :
    Gen.Scr.semanticHashAlg P w = Scratch.wmcAlg (Sem.ffOps P) w := by
  first
  | rfl
  | (simp only [Gen.Scr.semanticHashAlg, unsmoothedWmcAlg_tie]; done)

theorem semanticHash_tie (t : Tag) (h : U t = Nat) (P : Nat) (w : Spec.Weights Nat) :
    Gen.Scr.semanticHash t h P w = Query.semanticHash t h P w := by
  first
  | rfl
  | (simp only [Gen.Scr.semanticHash, Query.semanticHash, semanticHashAlg_tie]; done)

/-- `impl DDNNFPtr for BddPtr` keeps the three default methods (no override bypasses `fold`) -/
theorem bddOverrides_tie : Gen.Scr.bddOverrides = [] := by
  first | rfl | decide

/-- the query constructor `.fold` of the model runs the regenerated `fold` -/
theorem runQuery_fold (st : St U) (r : Ref) (t : Tag) (f : DDNNF (U t) → U t) :
    runQuery st r (.fold t (Alg.ofF f)) =
      (.val t (Gen.Scr.fold t f st.store r st.scr).1, ⟨st.store, (Gen.Scr.fold t f st.store r st.scr).2⟩) := by
  simp only [runQuery, fold_tie]

/-! ## the builders' `condition` -/

theorem condition_tie (lt : Nat → Nat → Bool) (x : Nat) (b : Bool) (s : Store) (r : Ref) (σ : Scr U) :
    Gen.Scr.condition lt x b s r σ = Scratch.condition lt x b s r σ := by
  first
  | rfl
  | (simp only [Gen.Scr.condition, Scratch.condition, clearScratch_tie]; done)
  | (simp [Gen.Scr.condition, Scratch.condition, clearScratch_tie]; done)

theorem dnnfCondition_tie (x : Nat) (b : Bool) (s : Store) (r : Ref) (σ : Scr U) :
    Gen.Scr.dnnfCondition x b s r σ = Scratch.dnnfCondition x b s r σ := by
  first
  | rfl
  | (simp only [Gen.Scr.dnnfCondition, Scratch.dnnfCondition, clearScratch_tie]; done)
  | (simp [Gen.Scr.dnnfCondition, Scratch.dnnfCondition, clearScratch_tie]; done)

/-! ## census: which functions touch the scratch API directly
(the model: the optimisation queries only through `bdd_fold`; `cond_with_alloc`, smoothing and the
serialiser not at all; `condition_model` clears once; `DecisionNNFBuilder::cond_helper` only reads) -/

theorem census_marginal_map_eval_tie : Gen.Scr.census_marginal_map_eval = [] := by first | rfl | decide
theorem census_marginal_map_h_tie : Gen.Scr.census_marginal_map_h = [] := by first | rfl | decide
theorem census_marginal_map_tie : Gen.Scr.census_marginal_map = [] := by first | rfl | decide
theorem census_meu_h_tie : Gen.Scr.census_meu_h = [] := by first | rfl | decide
theorem census_meu_tie : Gen.Scr.census_meu = [] := by first | rfl | decide
theorem census_bb_ub_tie : Gen.Scr.census_bb_ub = [] := by first | rfl | decide
theorem census_bb_h_tie : Gen.Scr.census_bb_h = [] := by first | rfl | decide
theorem census_bb_tie : Gen.Scr.census_bb = [] := by first | rfl | decide
theorem census_cond_with_alloc_tie : Gen.Scr.census_cond_with_alloc = [] := by first | rfl | decide
theorem census_cond_helper_tie : Gen.Scr.census_cond_helper = [] := by first | rfl | decide
theorem census_cond_model_h_tie : Gen.Scr.census_cond_model_h = [] := by first | rfl | decide
theorem census_condition_model_tie : Gen.Scr.census_condition_model = ["clear_scratch"] := by first | rfl | decide
theorem census_smooth_helper_tie : Gen.Scr.census_smooth_helper = [] := by first | rfl | decide
theorem census_dnnf_cond_helper_tie : Gen.Scr.census_dnnf_cond_helper = ["scratch"] := by first | rfl | decide
theorem census_serialize_helper_tie : Gen.Scr.census_serialize_helper = [] := by first | rfl | decide
theorem census_from_bdd_tie : Gen.Scr.census_from_bdd = [] := by first | rfl | decide

end

/-! ## what the regenerated traversals inherit from the model (C10), and non-vacuity -/

-- a diamond: node 0 = (x1 ? T : F), node 1 = (x0 ? reg 0 : compl 0); fold twice, count, clear
def exStore : Store := Store.ofList [⟨1, .fls, .tru⟩, ⟨0, .compl 0, .reg 0⟩]
abbrev exU : Unit → Type := fun _ => Nat
example : (Gen.Scr.countNodes (U := exU) exStore (.reg 1) Scr.clear).1 = 2 := by decide
example : ((Gen.Scr.countNodes (U := exU) exStore (.reg 1) Scr.clear).2).occupied 2 = [false, false] := by decide
example : (Gen.Scr.bddFold (U := exU) () (fun _ l h => l + h) 0 1 exStore (.reg 1) Scr.clear).1 = 2 := by decide
example : ((Gen.Scr.foldDag (U := exU) () (Scratch.wmcF ⟨0, 1, (· + ·), (· * ·)⟩ (fun _ => (1, 1))) exStore (.reg 1) Scr.clear).2).occupied 2
    = [true, true] := by decide

#print axioms neg_tie
#print axioms isNeg_tie
#print axioms isConst_tie
#print axioms low_tie
#print axioms high_tie
#print axioms lowRaw_tie
#print axioms highRaw_tie
#print axioms isScratchCleared_tie
#print axioms scratch_tie
#print axioms setScratch_tie
#print axioms clearScratch_tie
#print axioms bddFoldDag_tie
#print axioms bddFold_tie
#print axioms foldDag_tie
#print axioms fold_tie
#print axioms countH_tie
#print axioms countNodes_tie
#print axioms wmcF_tie
#print axioms unsmoothedWmcAlg_tie
#print axioms unsmoothedWmc_tie
#print axioms evaluateAlg_tie
#print axioms evaluate_tie
#print axioms semanticHashAlg_tie
#print axioms semanticHash_tie
#print axioms bddOverrides_tie
#print axioms runQuery_fold
#print axioms condition_tie
#print axioms dnnfCondition_tie
#print axioms census_marginal_map_eval_tie
#print axioms census_marginal_map_h_tie
#print axioms census_marginal_map_tie
#print axioms census_meu_h_tie
#print axioms census_meu_tie
#print axioms census_bb_ub_tie
#print axioms census_bb_h_tie
#print axioms census_bb_tie
#print axioms census_cond_with_alloc_tie
#print axioms census_cond_helper_tie
#print axioms census_cond_model_h_tie
#print axioms census_condition_model_tie
#print axioms census_smooth_helper_tie
#print axioms census_dnnf_cond_helper_tie
#print axioms census_serialize_helper_tie
#print axioms census_from_bdd_tie
end TieScratch
