import RsddModel.Model.GenOptim
import RsddModel.Model.Optim
import RsddModel.Model.Semirings
/-!
# Tie to the source text (translator route): optimisation queries, `FiniteField::mul`, `Polynomial`

`RsddModel/Model/GenOptim.lean` is rewritten by `tools/gen_optim.py` from `src/repr/bdd.rs`,
`src/util/semirings/finitefield.rs` and `src/util/semirings/polynomial_semiring_implementation.rs`
on every run.  The theorems below state that the regenerated definitions ARE the hand-written model
definitions (`Optim.*`, `Sem.ffMul`, `Sem.poly*`) that C12 / C13 / C07 are about; they are re-checked
by the kernel on every run.  Each proof first tries definitional equality and then extensional
equality (unfold, push operations into `if`, split), so that a re-arrangement of the source that
leaves the function unchanged still checks, while a changed operand / comparison / branch does not.

| Rust (`src/repr/bdd.rs`)  | generated                  | model                    |
|---------------------------|----------------------------|--------------------------|
| `marginal_map_eval`       | `Gen.Optim.marginalMapEval`| `Optim.marginalMapEval`  |
| `marginal_map_h`          | `Gen.Optim.marginalMapH`   | `Optim.marginalMapH`     |
| `marginal_map`            | `Gen.Optim.marginalMap`    | `Optim.marginalMap`      |
| `eu_ub`                   | `Gen.Optim.euUb`           | `Optim.euUb`             |
| `meu_h`                   | `Gen.Optim.meuH`           | `Optim.meuH`             |
| `meu`                     | `Gen.Optim.meu`            | `Optim.meu`              |
| `bb_ub`                   | `Gen.Optim.bbUb`           | `Optim.bbUb`             |
| `bb_h`                    | `Gen.Optim.bbH`            | `Optim.bbH` (`bbStep`)   |
| `bb`                      | `Gen.Optim.bb`             | `Optim.bb`               |
| `FiniteField::mul`        | `Gen.OptimSem.ffMul`, `ffMulLoop` | `Sem.ffMul`, `Sem.ffMulLoop` |
| `Polynomial::{zero,one,add,mul}` | `Gen.OptimSem.poly*` | `Sem.polyZero/One/Add/Mul` |
| `Add/Mul/Sub` of `ExpectedUtility`, `Complex`, `RealSemiring` | `Gen.OptimSem.eu*/cx*/real*` | `Sem.eu*/cx*/real*` |
-/
set_option linter.unusedSimpArgs false
set_option linter.unusedVariables false
namespace TieOptim
open Optim Sem

/-! ## rewriting helpers: an operation applied to an `if` is the `if` of the operations -/

theorem rat_mul_ite (c : Prop) [Decidable c] (a x y : Rat) :
    a * (if c then x else y) = if c then a * x else a * y := by split <;> rfl
theorem ops_mul_ite {α : Type} (B : BBOps α) (c : Prop) [Decidable c] (a x y : α) :
    B.mul a (if c then x else y) = if c then B.mul a x else B.mul a y := by split <;> rfl
theorem eu_mul_ite (c : Prop) [Decidable c] (a x y : EU) :
    euMul a (if c then x else y) = if c then euMul a x else euMul a y := by split <;> rfl
theorem pair_ite {β γ : Type} (c : Prop) [Decidable c] (a a' : β) (b b' : γ) :
    ((if c then a else a'), (if c then b else b')) = if c then (a, b) else (a', b') := by
  split <;> rfl
theorem fst_ite {β γ : Type} (c : Prop) [Decidable c] (x y : β × γ) :
    (if c then x else y).1 = if c then x.1 else y.1 := by split <;> rfl
theorem snd_ite {β γ : Type} (c : Prop) [Decidable c] (x y : β × γ) :
    (if c then x else y).2 = if c then x.2 else y.2 := by split <;> rfl

/-- extensional fallback for the bound functions: unfold both sides, normalise, split every `if`/`match` -/
macro "tie_unfold_split" : tactic =>
  `(tactic| (repeat' (first | rfl | split | (congr 1) | (funext _))))

/-! ## marginal MAP -/

theorem marginal_map_eval_tie : Gen.Optim.marginalMapEval = Optim.marginalMapEval := by
  first
  | rfl
  | (funext p m vars w
     simp only [Gen.Optim.marginalMapEval, Optim.marginalMapEval, rat_mul_ite, List.map_id', Rat.mul_comm, Rat.add_comm,
       Rat.max_def] <;> first | rfl | grind | (congr 1 <;> tie_unfold_split))

theorem marginal_map_h_tie : Gen.Optim.marginalMapH = Optim.marginalMapH := by
  funext p w curLb curBest vars curAssgn
  induction vars generalizing curLb curBest curAssgn with
  | nil =>
    first
    | rfl
    | (simp only [Gen.Optim.marginalMapH, Optim.marginalMapH, marginal_map_eval_tie] <;> first | rfl | grind)
  | cons x rest ih =>
    simp only [Gen.Optim.marginalMapH, Optim.marginalMapH, marginal_map_eval_tie, ih, List.map_id'] <;> first
    | rfl
    | (split <;> simp only [List.foldl] <;> first | rfl | grind)
    | (split <;> simp only [List.foldl, fst_ite, snd_ite, pair_ite] <;> first | rfl | grind)

theorem marginal_map_tie : Gen.Optim.marginalMap = Optim.marginalMap := by
  first
  | (funext p vars numVars w
     simp only [Gen.Optim.marginalMap, Optim.marginalMap, marginal_map_eval_tie, marginal_map_h_tie] <;> first | rfl | grind)

/-! ## maximum expected utility -/

theorem eu_ub_tie : Gen.Optim.euUb = Optim.euUb := by
  first
  | rfl
  | (funext p m vars w
     simp only [Gen.Optim.euUb, Optim.euUb, eu_mul_ite, List.map_id'] <;> first | rfl | grind | (congr 1 <;> tie_unfold_split))

theorem meu_h_tie : Gen.Optim.meuH = Optim.meuH := by
  funext p w curLb curBest vars curAssgn
  induction vars generalizing curLb curBest curAssgn with
  | nil =>
    first
    | rfl
    | (simp only [Gen.Optim.meuH, Optim.meuH, eu_ub_tie] <;> first | rfl | grind)
  | cons x rest ih =>
    simp only [Gen.Optim.meuH, Optim.meuH, eu_ub_tie, ih, List.map_id'] <;> first
    | rfl
    | (split <;> simp only [List.foldl] <;> first | rfl | grind)
    | (split <;> simp only [List.foldl, fst_ite, snd_ite, pair_ite] <;> first | rfl | grind)

theorem meu_tie : Gen.Optim.meu = Optim.meu := by
  first
  | (funext p vars numVars w
     simp only [Gen.Optim.meu, Optim.meu, eu_ub_tie, meu_h_tie] <;> first | rfl | grind)

/-! ## generic branch and bound -/

theorem bb_ub_tie : @Gen.Optim.bbUb = @Optim.bbUb := by
  first
  | rfl
  | (funext α B p m vars w
     simp only [Gen.Optim.bbUb, Optim.bbUb, ops_mul_ite, List.map_id'] <;> first | rfl | grind | (congr 1 <;> tie_unfold_split))

theorem bb_h_tie : @Gen.Optim.bbH = @Optim.bbH := by
  funext α B p w curLb curBest vars curAssgn
  induction vars generalizing curLb curBest curAssgn with
  | nil =>
    first
    | rfl
    | (simp only [Gen.Optim.bbH, Optim.bbH, bb_ub_tie] <;> first | rfl | grind)
  | cons x rest ih =>
    simp only [Gen.Optim.bbH, Optim.bbH, Optim.bbStep, bb_ub_tie, ih, List.map_id'] <;> first
    | rfl
    | (split <;> simp only [List.foldl] <;> first | rfl | grind)
    | (split <;> simp only [List.foldl, fst_ite, snd_ite, pair_ite] <;> first | rfl | grind)

theorem bb_tie : @Gen.Optim.bb = @Optim.bb := by
  first
  | (funext α B p vars numVars w
     simp only [Gen.Optim.bb, Optim.bb, bb_ub_tie, bb_h_tie] <;> first | rfl | grind)

/-! ## `FiniteField::mul` -/

/-- the doubling loop keeps a reduced accumulator reduced -/
theorem ffMulLoop_reduced (P : Nat) : ∀ fuel a b acc, acc % P = acc →
    Sem.ffMulLoop P fuel a b acc % P = Sem.ffMulLoop P fuel a b acc := by
  intro fuel
  induction fuel with
  | zero => intro a b acc h; simpa [Sem.ffMulLoop] using h
  | succ n ih =>
    intro a b acc h
    simp only [Sem.ffMulLoop]
    split
    · apply ih
      split
      · exact Nat.mod_mod _ _
      · exact h
    · exact h

/-- the generated loop (state `(a, b, acc)`) computes the model's loop in its last component -/
theorem ff_mul_loop_tie (P : Nat) : ∀ fuel a b acc,
    (Gen.OptimSem.ffMulLoop P fuel a b acc).2.2 = Sem.ffMulLoop P fuel a b acc := by
  first
  | (intro fuel a b acc; rfl)
  | (intro fuel
     induction fuel with
     | zero => intro a b acc; rfl
     | succ n ih =>
       intro a b acc
       simp only [Gen.OptimSem.ffMulLoop, Sem.ffMulLoop]
       first
       | (split <;> first | rfl | exact ih _ _ _)
       | (simp only [Nat.pos_iff_ne_zero, Nat.and_one_is_mod, beq_iff_eq, ne_eq, ih]
          split <;> simp_all <;> grind))

theorem ff_mul_tie : Gen.OptimSem.ffMul = Sem.ffMul := by
  funext P a b
  simp only [Gen.OptimSem.ffMul, Sem.ffMul, Sem.cmul, ff_mul_loop_tie] <;> first
  | (split <;> rfl)
  | (split <;> simp only [Sem.ffNew, Nat.mod_mod, ffMulLoop_reduced P 128 a b 0 (Nat.zero_mod P)] <;> first | rfl | grind)

/-! ## `Polynomial` -/

theorem poly_zero_tie : @Gen.OptimSem.polyZero = @Sem.polyZero := by
  first
  | rfl
  | (funext α S n; simp [Gen.OptimSem.polyZero, Sem.polyZero, Sem.polyZeros])
theorem poly_one_tie : @Gen.OptimSem.polyOne = @Sem.polyOne := by
  first
  | rfl
  | (funext α S n; simp [Gen.OptimSem.polyOne, Sem.polyOne, Sem.polyZeros])
theorem poly_add_tie : @Gen.OptimSem.polyAdd = @Sem.polyAdd := by
  first
  | rfl
  | (funext α S n p q; simp [Gen.OptimSem.polyAdd, Sem.polyAdd, Sem.polyZeros, Sem.Poly.coef])
theorem poly_mul_tie : @Gen.OptimSem.polyMul = @Sem.polyMul := by
  first
  | rfl
  | (funext α S n p q
     simp only [Gen.OptimSem.polyMul, Sem.polyMul, Sem.polyMulInner, poly_zero_tie, Sem.polyZeros, Sem.Poly.coef] <;> first | rfl | (split <;> rfl) | grind)

/-! ## `Add` / `Mul` / `Sub` of `ExpectedUtility`, `Complex`, `RealSemiring` (bodies with `let`s and early returns) -/

local macro "tie_sem" g:ident m:ident : tactic =>
  `(tactic| first
    | rfl
    | (funext a b; simp only [$g:ident, $m:ident]
       first | rfl | grind | (congr 1 <;> grind) | (split <;> simp_all <;> grind)))

theorem eu_add_tie : Gen.OptimSem.euAdd = Sem.euAdd := by tie_sem Gen.OptimSem.euAdd Sem.euAdd
theorem eu_mul_tie : Gen.OptimSem.euMul = Sem.euMul := by tie_sem Gen.OptimSem.euMul Sem.euMul
theorem eu_sub_tie : Gen.OptimSem.euSub = Sem.euSub := by tie_sem Gen.OptimSem.euSub Sem.euSub
theorem cx_add_tie : Gen.OptimSem.cxAdd = Sem.cxAdd := by tie_sem Gen.OptimSem.cxAdd Sem.cxAdd
theorem cx_mul_tie : Gen.OptimSem.cxMul = Sem.cxMul := by tie_sem Gen.OptimSem.cxMul Sem.cxMul
theorem cx_sub_tie : Gen.OptimSem.cxSub = Sem.cxSub := by tie_sem Gen.OptimSem.cxSub Sem.cxSub
theorem real_add_tie : Gen.OptimSem.realAdd = Sem.realAdd := by tie_sem Gen.OptimSem.realAdd Sem.realAdd
theorem real_mul_tie : Gen.OptimSem.realMul = Sem.realMul := by tie_sem Gen.OptimSem.realMul Sem.realMul
theorem real_sub_tie : Gen.OptimSem.realSub = Sem.realSub := by tie_sem Gen.OptimSem.realSub Sem.realSub

end TieOptim

#print axioms TieOptim.marginal_map_eval_tie
#print axioms TieOptim.marginal_map_h_tie
#print axioms TieOptim.marginal_map_tie
#print axioms TieOptim.eu_ub_tie
#print axioms TieOptim.meu_h_tie
#print axioms TieOptim.meu_tie
#print axioms TieOptim.bb_ub_tie
#print axioms TieOptim.bb_h_tie
#print axioms TieOptim.bb_tie
#print axioms TieOptim.ff_mul_loop_tie
#print axioms TieOptim.ff_mul_tie
#print axioms TieOptim.poly_zero_tie
#print axioms TieOptim.poly_one_tie
#print axioms TieOptim.poly_add_tie
#print axioms TieOptim.poly_mul_tie
#print axioms TieOptim.eu_add_tie
#print axioms TieOptim.eu_mul_tie
#print axioms TieOptim.eu_sub_tie
#print axioms TieOptim.cx_add_tie
#print axioms TieOptim.cx_mul_tie
#print axioms TieOptim.cx_sub_tie
#print axioms TieOptim.real_add_tie
#print axioms TieOptim.real_mul_tie
#print axioms TieOptim.real_sub_tie
