import RsddModel.Model.GenBddCore
import RsddModel.Model.BddBuilder
import RsddModel.Model.BddWmc
/-!
# Tie to the source text (translator route): the core ROBDD builder

`RsddModel/Model/GenBddCore.lean` is rewritten by `tools/gen_bddcore.py` from the Rust source on
every run.  The theorems below state that the regenerated definitions ARE the hand-written model
definitions of `Model/BddBuilder.lean` / `Model/BddWmc.lean` (function equality).
-/
set_option linter.unusedSimpArgs false
set_option linter.unusedVariables false
namespace TieBddCore
open Bdd

theorem mkNode_tie : Gen.BddCore.mkNode = Bdd.mkNode := by
  first
  | rfl
  | (funext x lo hi; simp only [Gen.BddCore.mkNode, Bdd.mkNode]; grind)

theorem condEssential_tie : Gen.BddCore.condEssential = Bdd.condEssential := by
  first
  | rfl
  | (funext f x v; cases f <;> simp only [Gen.BddCore.condEssential, Bdd.condEssential] <;> grind)

theorem orderLt_tie : Gen.BddCore.orderLt = fun (lvl varAt : Nat → Nat) (a b : Nat) => decide (lvl a < lvl b) := by
  first
  | rfl
  | (funext lvl varAt a b; simp only [Gen.BddCore.orderLt]; grind)

theorem orderGet_tie : Gen.BddCore.orderGet = fun (lvl varAt : Nat → Nat) (a : Nat) => lvl a := by
  first
  | rfl
  | (funext lvl varAt a; simp only [Gen.BddCore.orderGet])

theorem first_tie : Gen.BddCore.first = Bdd.first := by
  first
  | rfl
  | (funext lvl a b; cases a <;> cases b <;> simp [Gen.BddCore.first, Bdd.first, Bdd.Ptr.top?] <;> grind)

theorem firstEssential_tie : Gen.BddCore.firstEssential = Bdd.firstEssential := by
  first
  | rfl
  | (funext lvl a b c; simp only [Gen.BddCore.firstEssential, Bdd.firstEssential, first_tie]
     cases (Bdd.first lvl (Bdd.first lvl a b) c).top? <;> rfl)

theorem ordP_tie : Gen.BddCore.ordP = Bdd.ordP := by
  first
  | rfl
  | (funext lvl a b; cases a <;> cases b <;> simp [Gen.BddCore.ordP, Bdd.ordP] <;> grind)


/-! ## the `IteTable` adapters -/

theorem cacheGetAll_tie : Gen.BddCore.cacheGetAll = Bdd.cacheGet := by
  first
  | rfl
  | (funext C s i; cases i <;> simp [Gen.BddCore.cacheGetAll, Bdd.cacheGet] <;> grind)
theorem cacheGetLru_tie : Gen.BddCore.cacheGetLru = Bdd.cacheGet := by
  first
  | rfl
  | (funext C s i; cases i <;> simp [Gen.BddCore.cacheGetLru, Bdd.cacheGet] <;> grind)
theorem cacheInsertAll_tie : Gen.BddCore.cacheInsertAll = Bdd.cacheInsert := by
  first
  | rfl
  | (funext C s i r; cases i <;> simp [Gen.BddCore.cacheInsertAll, Bdd.cacheInsert] <;> grind)
theorem cacheInsertLru_tie : Gen.BddCore.cacheInsertLru = Bdd.cacheInsert := by
  first
  | rfl
  | (funext C s i r; cases i <;> simp [Gen.BddCore.cacheInsertLru, Bdd.cacheInsert] <;> grind)

/-! ## `ite_helper` -/

theorem ite_tie : Gen.BddCore.ite = Bdd.ite := by
  first
  | rfl
  | (funext C lvl fuel
     induction fuel with
     | zero => funext s f g h; first | rfl | simp [Gen.BddCore.ite, Bdd.ite]
     | succ n ih =>
       funext s f g h
       simp only [Gen.BddCore.ite, Bdd.ite, ih, ordP_tie, firstEssential_tie, condEssential_tie, mkNode_tie]
       first
       | rfl
       | ((repeat' split) <;> simp_all <;> grind))


/-! ## conditioning -/

theorem condWithAlloc_tie : Gen.BddCore.condWithAlloc = Bdd.condWithAlloc := by
  first
  | rfl
  | (funext lvl x value p
     induction p with
     | tru => funext m; first | rfl | simp [Gen.BddCore.condWithAlloc, Bdd.condWithAlloc]
     | fls => funext m; first | rfl | simp [Gen.BddCore.condWithAlloc, Bdd.condWithAlloc]
     | node c y lo hi ihlo ihhi =>
       funext m
       simp only [Gen.BddCore.condWithAlloc, Bdd.condWithAlloc, ihlo, ihhi, mkNode_tie]
       first
       | rfl
       | (cases c <;> (repeat' split) <;> simp_all <;> grind))

theorem condHelper_tie : Gen.BddCore.condHelper = Bdd.condition := by
  first
  | rfl
  | (funext lvl p x v; simp only [Gen.BddCore.condHelper, Bdd.condition, condWithAlloc_tie])

theorem condition_tie : Gen.BddCore.condition = Bdd.condition := by
  first
  | rfl
  | (funext lvl p x v; simp only [Gen.BddCore.condition, condHelper_tie])
  | (funext lvl p x v; simp only [Gen.BddCore.condition, Gen.BddCore.condHelper, Bdd.condition, condWithAlloc_tie])

theorem condModelH_loop_tie : Gen.BddCore.condModelH_loop = Bdd.condModel := by
  first
  | rfl
  | (funext lvl p m
     induction m generalizing p with
     | nil => first | rfl | simp [Gen.BddCore.condModelH_loop, Bdd.condModel]
     | cons xb rest ih =>
       obtain ⟨x, b⟩ := xb
       simp only [Gen.BddCore.condModelH_loop, Bdd.condModel, condition_tie, ih]
       first | done | rfl | ((repeat' split) <;> simp_all) | grind)
theorem condModelH_tie : Gen.BddCore.condModelH = Bdd.condModel := by
  first
  | rfl
  | (funext lvl p m; simp only [Gen.BddCore.condModelH, condModelH_loop_tie]; done)
  | (funext lvl p m
     induction m generalizing p with
     | nil => first | rfl | simp [Gen.BddCore.condModelH, Bdd.condModel, condModelH_loop_tie]
     | cons xb rest ih =>
       obtain ⟨x, b⟩ := xb
       simp only [Gen.BddCore.condModelH, condModelH_loop_tie, condition_tie, List.foldl, Bdd.condModel] at ih ⊢
       first | done | rfl | exact ih _ | (simp_all; done) | grind)

/-! ## the derived operations -/

theorem bNegate_tie : Gen.BddCore.bNegate = Bdd.Ptr.neg := by
  first
  | rfl
  | (funext p; simp only [Gen.BddCore.bNegate])

theorem mkVar_tie : Gen.BddCore.mkVar = Bdd.mkVar := by
  first
  | rfl
  | (funext x pol; simp only [Gen.BddCore.mkVar, Bdd.mkVar, mkNode_tie]; first | rfl | (cases pol <;> simp) | grind)

theorem bAnd_tie : Gen.BddCore.bAnd = Bdd.bAnd := by
  first
  | rfl
  | (funext C lvl fuel s f g; simp only [Gen.BddCore.bAnd, Bdd.bAnd, ite_tie])
theorem bIff_tie : Gen.BddCore.bIff = Bdd.bIff := by
  first
  | rfl
  | (funext C lvl fuel s f g; simp only [Gen.BddCore.bIff, Bdd.bIff, ite_tie])
theorem bXor_tie : Gen.BddCore.bXor = Bdd.bXor := by
  first
  | rfl
  | (funext C lvl fuel s f g; simp only [Gen.BddCore.bXor, Bdd.bXor, ite_tie])
theorem bOr_tie : Gen.BddCore.bOr = Bdd.bOr := by
  first
  | rfl
  | (funext C lvl fuel s f g; simp only [Gen.BddCore.bOr, Bdd.bOr, bAnd_tie, bNegate_tie]
     first | done | rfl | (split <;> simp_all) | grind)
theorem bExists_tie : Gen.BddCore.bExists = Bdd.bExists := by
  first
  | rfl
  | (funext C lvl fuel s f x; simp only [Gen.BddCore.bExists, Bdd.bExists, bOr_tie, condition_tie])
theorem bCompose_tie : Gen.BddCore.bCompose = Bdd.bCompose := by
  first
  | rfl
  | (funext C lvl fuel s f x g
     simp only [Gen.BddCore.bCompose, Bdd.bCompose, bIff_tie, bAnd_tie, bExists_tie, mkVar_tie]
     first | done | rfl | ((repeat' split) <;> simp_all) | grind)


theorem bAndLst_loop_tie : Gen.BddCore.bAndLst_loop = Bdd.bAndLst := by
  first
  | rfl
  | (funext C lvl fuel s acc l
     induction l generalizing s acc with
     | nil => first | rfl | simp [Gen.BddCore.bAndLst_loop, Bdd.bAndLst]
     | cons p ps ih =>
       simp only [Gen.BddCore.bAndLst_loop, Bdd.bAndLst, bAnd_tie, ih]
       first | done | rfl | ((repeat' split) <;> simp_all) | grind)
theorem bAndLst_tie : Gen.BddCore.bAndLst =
    fun (C : Bdd.CacheImpl) (lvl : Nat → Nat) (fuel : Nat) (s : C.σ) (l : List Bdd.Ptr) => Bdd.bAndLst C lvl fuel s Bdd.Ptr.tru l := by
  first
  | rfl
  | (funext C lvl fuel s l; simp only [Gen.BddCore.bAndLst, bAndLst_loop_tie])
theorem bOrLst_loop_tie : Gen.BddCore.bOrLst_loop = Bdd.bOrLst := by
  first
  | rfl
  | (funext C lvl fuel s acc l
     induction l generalizing s acc with
     | nil => first | rfl | simp [Gen.BddCore.bOrLst_loop, Bdd.bOrLst]
     | cons p ps ih =>
       simp only [Gen.BddCore.bOrLst_loop, Bdd.bOrLst, bOr_tie, ih]
       first | done | rfl | ((repeat' split) <;> simp_all) | grind)
theorem bOrLst_tie : Gen.BddCore.bOrLst =
    fun (C : Bdd.CacheImpl) (lvl : Nat → Nat) (fuel : Nat) (s : C.σ) (l : List Bdd.Ptr) => Bdd.bOrLst C lvl fuel s Bdd.Ptr.fls l := by
  first
  | rfl
  | (funext C lvl fuel s l; simp only [Gen.BddCore.bOrLst, bOrLst_loop_tie])

theorem orderVarAt_tie : Gen.BddCore.orderVarAt = fun (lvl varAt : Nat → Nat) (a : Nat) => varAt a := by
  first
  | rfl
  | (funext lvl varAt a; simp only [Gen.BddCore.orderVarAt])

/-! ## smoothing -/

theorem smoothHelper_aux (lvl varAt : Nat → Nat) : ∀ (n cur total : Nat) (p : Bdd.Ptr), total - cur = n →
    Gen.BddCore.smoothHelper lvl varAt p cur total = Bdd.smoothH lvl varAt n cur p := by
  first
  | (intro n cur total p h; subst h; rfl)
  | (intro n
     induction n with
     | zero =>
       intro cur total p h
       have : cur ≥ total := by omega
       unfold Gen.BddCore.smoothHelper
       cases p <;> simp [Bdd.smoothH, this]
     | succ n ih =>
       intro cur total p h
       have hlt : ¬ cur ≥ total := by omega
       have h1 : total - (cur + 1) = n := by omega
       have key : ∀ p, p.isNeg = false →
           Gen.BddCore.smoothHelper lvl varAt p cur total = Bdd.smoothH lvl varAt (n + 1) cur p := by
         intro p hp
         rw [Gen.BddCore.smoothHelper.eq_def]
         cases p with
         | tru => simp [Bdd.smoothH, hlt, ih _ _ _ h1, mkNode_tie]
         | fls => simp [Bdd.smoothH, hlt, ih _ _ _ h1, mkNode_tie]
         | node c v lo hi =>
           cases c with
           | true => simp [Bdd.Ptr.isNeg] at hp
           | false =>
             simp only [Bdd.smoothH, hlt, ih _ _ _ h1, mkNode_tie]
             first | rfl | (simp; done) | (clear ih h h1; simp; (repeat' split) <;> simp_all <;> grind)
       cases p with
       | tru => exact key _ rfl
       | fls => exact key _ rfl
       | node c v lo hi =>
         cases c with
         | false => exact key _ rfl
         | true =>
           rw [Gen.BddCore.smoothHelper.eq_def]
           simp only [hlt, Bdd.smoothH]
           first
           | (simp only [key (Bdd.Ptr.node false v lo hi) rfl, Bdd.smoothH]
              first | rfl | (simp; done) | (clear ih key h h1; simp; (repeat' split) <;> simp_all <;> grind))
           | (simp only [ih _ _ _ h1, mkNode_tie]
              first | rfl | (simp; done) | (clear ih key h h1; simp; (repeat' split) <;> simp_all <;> grind)))

theorem smoothHelper_tie : Gen.BddCore.smoothHelper =
    fun (lvl varAt : Nat → Nat) (p : Bdd.Ptr) (cur total : Nat) => Bdd.smoothH lvl varAt (total - cur) cur p := by
  first
  | rfl
  | (funext lvl varAt p cur total; exact smoothHelper_aux lvl varAt _ cur total p rfl)

theorem smooth_tie : Gen.BddCore.smooth = Bdd.smooth := by
  first
  | rfl
  | (funext lvl varAt p n; unfold Gen.BddCore.smooth Bdd.smooth
     first
     | exact smoothHelper_aux lvl varAt n 0 n p (by omega)
     | (rw [smoothHelper_aux lvl varAt _ _ _ p rfl]; first | rfl | simp))


/-! ## the `BddPtr` accessors (they justify the translator's evaluation of accessors on a known node) -/

theorem ptrNeg_tie : Gen.BddCore.ptrNeg = Bdd.Ptr.neg := by
  first
  | rfl
  | (funext p; rcases p with _ | _ | ⟨_ | _, v, lo, hi⟩ <;> first | rfl | simp [Gen.BddCore.ptrNeg, Bdd.Ptr.neg])
theorem ptrIsNeg_tie : Gen.BddCore.ptrIsNeg = Bdd.Ptr.isNeg := by
  first
  | rfl
  | (funext p; rcases p with _ | _ | ⟨_ | _, v, lo, hi⟩ <;> first | rfl | simp [Gen.BddCore.ptrIsNeg, Bdd.Ptr.isNeg])
theorem ptrIsTrue_tie : Gen.BddCore.ptrIsTrue = Bdd.Ptr.isTrue := by
  first
  | rfl
  | (funext p; rcases p with _ | _ | ⟨_ | _, v, lo, hi⟩ <;> first | rfl | simp [Gen.BddCore.ptrIsTrue, Bdd.Ptr.isTrue])
theorem ptrIsFalse_tie : Gen.BddCore.ptrIsFalse = Bdd.Ptr.isFalse := by
  first
  | rfl
  | (funext p; rcases p with _ | _ | ⟨_ | _, v, lo, hi⟩ <;> first | rfl | simp [Gen.BddCore.ptrIsFalse, Bdd.Ptr.isFalse])
theorem ptrVarSafe_tie : Gen.BddCore.ptrVarSafe = Bdd.Ptr.top? := by
  first
  | rfl
  | (funext p; rcases p with _ | _ | ⟨_ | _, v, lo, hi⟩ <;> first | rfl | simp [Gen.BddCore.ptrVarSafe, Bdd.Ptr.top?])
theorem ptrVar_tie : Gen.BddCore.ptrVar = Bdd.Ptr.top? := by
  first
  | rfl
  | (funext p; rcases p with _ | _ | ⟨_ | _, v, lo, hi⟩ <;> first | rfl | simp [Gen.BddCore.ptrVar, Bdd.Ptr.top?])
theorem ptrLowRaw_tie : Gen.BddCore.ptrLowRaw =
    fun (p : Bdd.Ptr) => match p with | Bdd.Ptr.node _ _ lo _ => some lo | _ => none := by
  first
  | rfl
  | (funext p; rcases p with _ | _ | ⟨_ | _, v, lo, hi⟩ <;> first | rfl | simp [Gen.BddCore.ptrLowRaw])
theorem ptrHighRaw_tie : Gen.BddCore.ptrHighRaw =
    fun (p : Bdd.Ptr) => match p with | Bdd.Ptr.node _ _ _ hi => some hi | _ => none := by
  first
  | rfl
  | (funext p; rcases p with _ | _ | ⟨_ | _, v, lo, hi⟩ <;> first | rfl | simp [Gen.BddCore.ptrHighRaw])
theorem ptrLow_tie : Gen.BddCore.ptrLow =
    fun (p : Bdd.Ptr) => match p with | Bdd.Ptr.node c _ lo _ => some (if c then Bdd.Ptr.neg lo else lo) | _ => none := by
  first
  | rfl
  | (funext p; rcases p with _ | _ | ⟨_ | _, v, lo, hi⟩ <;> first | rfl | simp [Gen.BddCore.ptrLow])
theorem ptrHigh_tie : Gen.BddCore.ptrHigh =
    fun (p : Bdd.Ptr) => match p with | Bdd.Ptr.node c _ _ hi => some (if c then Bdd.Ptr.neg hi else hi) | _ => none := by
  first
  | rfl
  | (funext p; rcases p with _ | _ | ⟨_ | _, v, lo, hi⟩ <;> first | rfl | simp [Gen.BddCore.ptrHigh])

/-- the table the translator uses for accessors on a pointer known to be `Ptr.node c v lo hi` -/
theorem accessors_on_node (c : Bool) (v : Nat) (lo hi : Bdd.Ptr) :
    Gen.BddCore.ptrLowRaw (.node c v lo hi) = some lo ∧ Gen.BddCore.ptrHighRaw (.node c v lo hi) = some hi ∧
    Gen.BddCore.ptrIsNeg (.node c v lo hi) = c ∧
    Gen.BddCore.ptrLow (.node c v lo hi) = some (if c then lo.neg else lo) ∧
    Gen.BddCore.ptrHigh (.node c v lo hi) = some (if c then hi.neg else hi) ∧
    Gen.BddCore.ptrIsTrue (.node c v lo hi) = false ∧ Gen.BddCore.ptrIsFalse (.node c v lo hi) = false ∧
    Gen.BddCore.ptrVarSafe (.node c v lo hi) = some v ∧ Gen.BddCore.ptrVar (.node c v lo hi) = some v := by
  rw [ptrLowRaw_tie, ptrHighRaw_tie, ptrIsNeg_tie, ptrLow_tie, ptrHigh_tie, ptrIsTrue_tie, ptrIsFalse_tie, ptrVarSafe_tie, ptrVar_tie]
  cases c <;> simp [Bdd.Ptr.isNeg, Bdd.Ptr.isTrue, Bdd.Ptr.isFalse, Bdd.Ptr.top?]

end TieBddCore

#print axioms TieBddCore.mkNode_tie
#print axioms TieBddCore.condEssential_tie
#print axioms TieBddCore.orderLt_tie
#print axioms TieBddCore.orderGet_tie
#print axioms TieBddCore.first_tie
#print axioms TieBddCore.firstEssential_tie
#print axioms TieBddCore.ordP_tie
#print axioms TieBddCore.cacheGetAll_tie
#print axioms TieBddCore.cacheGetLru_tie
#print axioms TieBddCore.cacheInsertAll_tie
#print axioms TieBddCore.cacheInsertLru_tie
#print axioms TieBddCore.ite_tie
#print axioms TieBddCore.condWithAlloc_tie
#print axioms TieBddCore.condHelper_tie
#print axioms TieBddCore.condition_tie
#print axioms TieBddCore.condModelH_loop_tie
#print axioms TieBddCore.condModelH_tie
#print axioms TieBddCore.bNegate_tie
#print axioms TieBddCore.mkVar_tie
#print axioms TieBddCore.bAnd_tie
#print axioms TieBddCore.bIff_tie
#print axioms TieBddCore.bXor_tie
#print axioms TieBddCore.bOr_tie
#print axioms TieBddCore.bExists_tie
#print axioms TieBddCore.bCompose_tie
#print axioms TieBddCore.bAndLst_loop_tie
#print axioms TieBddCore.bAndLst_tie
#print axioms TieBddCore.bOrLst_loop_tie
#print axioms TieBddCore.bOrLst_tie
#print axioms TieBddCore.orderVarAt_tie
#print axioms TieBddCore.smoothHelper_aux
#print axioms TieBddCore.smoothHelper_tie
#print axioms TieBddCore.smooth_tie
#print axioms TieBddCore.ptrNeg_tie
#print axioms TieBddCore.ptrIsNeg_tie
#print axioms TieBddCore.ptrIsTrue_tie
#print axioms TieBddCore.ptrIsFalse_tie
#print axioms TieBddCore.ptrVarSafe_tie
#print axioms TieBddCore.ptrVar_tie
#print axioms TieBddCore.ptrLowRaw_tie
#print axioms TieBddCore.ptrHighRaw_tie
#print axioms TieBddCore.ptrLow_tie
#print axioms TieBddCore.ptrHigh_tie
#print axioms TieBddCore.accessors_on_node
