import RsddModel.Model.Semirings
import RsddModel.Lemmas.Semirings
/-!
# C13 — every shipped weight type obeys the semiring (and declared ring / lattice) laws

Property theorems only (the work is in `Lemmas/Semirings`).  The list of exported primes is a
*parameter* `exportedPrimes : List Nat` together with the hypothesis
`∀ P ∈ exportedPrimes, 1 < P ∧ P < 2^127`; a generated file supplies the concrete list from
`src/constants.rs` and discharges the hypothesis by `decide` (done here, too, in the non-vacuity
section, on the list as shipped).

"Exactly representable values": `f64` based types are modelled over `Rat`.

Clauses
* semiring laws (`SROps.Laws`: `+` associative, commutative, identity `zero`; `*` associative,
  commutative, identity `one`, annihilating `zero`; distributivity):
  `real_semiring`, `rational_semiring`, `bool_semiring`, `eu_semiring`, `complex_semiring`,
  `ff_semiring` (every exported prime), `poly_semiring` (+ `poly_wf`, `poly_mul_truncation`);
* finite-field results are integer arithmetic modulo the prime, and the `u128` code neither
  overflows nor underflows: `ff_modular`, `ff_no_overflow`, `ff_ops_reduced`;
* ring subtraction inverts addition: `ff_sub_inverts_add`, `real_sub_inverts_add`,
  `eu_sub_inverts_add`, `complex_sub_inverts_add`; `ff_negate`;
* lattice laws: `real_lattice`, `eu_lattice`;
* order compatibility: `real_order_compat`, `eu_order_compat`;
* replays of finding F5 on the original code: `orig_sub_wrong`, `orig_mul_wrong`.
-/
namespace C13
open Sem

/-- hypothesis on the list of exported primes (discharged by `decide` on the concrete list) -/
abbrev PrimesOk (exportedPrimes : List Nat) : Prop := ∀ P ∈ exportedPrimes, 1 < P ∧ P < 2 ^ 127

/-! ## semiring laws -/

theorem real_semiring : SROps.Laws realOps := realLaws
theorem rational_semiring : SROps.Laws ratOps := ratLaws
theorem bool_semiring : SROps.Laws boolOps := boolLaws
theorem eu_semiring : SROps.Laws euOps := euLaws
theorem complex_semiring : SROps.Laws cxOps := cxLaws

/-- `FiniteField<P>` (carrier: the residues `v < P`, which is what the Rust type holds) is a
commutative semiring for every exported prime -/
theorem ff_semiring (exportedPrimes : List Nat) (h : PrimesOk exportedPrimes) :
    ∀ P (hP : P ∈ exportedPrimes),
      SROps.Laws (ffOpsFF P (Nat.lt_trans Nat.zero_lt_one (h P hP).1)) := by
  intro P hP
  exact ffLaws P _ (Nat.lt_trans (h P hP).2 (by decide))

/-- every constructor and operation of `Polynomial<C>` yields a well-formed value
(array of `maxCoeffs` entries, `len ≤ maxCoeffs`, zero at and beyond `len`) -/
theorem poly_wf {α : Type} (S : SROps α) (maxCoeffs : Nat) (hM : 0 < maxCoeffs) :
    PolyWF S maxCoeffs (polyZero S maxCoeffs) ∧ PolyWF S maxCoeffs (polyOne S maxCoeffs) ∧
    (∀ cs, PolyWF S maxCoeffs (polyOfList S maxCoeffs cs)) ∧
    (∀ p q, PolyWF S maxCoeffs (polyAdd S maxCoeffs p q)) ∧
    (∀ p q, PolyWF S maxCoeffs (polyMul S maxCoeffs p q)) :=
  ⟨polyZero_wf S _, polyOne_wf S _ hM, polyOfList_wf S _, polyAdd_wf S _, polyMul_wf S _⟩

/-- truncated polynomials over a commutative semiring are a commutative semiring for the derived
`PartialEq` (coefficient array *and* `len`), for every `maxCoeffs > 0` -/
theorem poly_semiring {α : Type} {S : SROps α} (hS : SROps.Laws S) (maxCoeffs : Nat)
    (hM : 0 < maxCoeffs) : SROps.Laws (polyOpsWF S maxCoeffs hM) :=
  polyLaws hS maxCoeffs hM

/-- truncation is the quotient by `X^maxCoeffs`: below `maxCoeffs`, entry `k` of the product is
`Σ_{i+j=k} p_i q_j`; at and beyond it is zero; sums are coefficient-wise -/
theorem poly_mul_truncation {α : Type} {S : SROps α} (hS : SROps.Laws S) (maxCoeffs : Nat)
    {p q : Poly α} (hp : PolyWF S maxCoeffs p) (hq : PolyWF S maxCoeffs q) :
    (∀ k, k < maxCoeffs →
      (polyMul S maxCoeffs p q).coef S k = conv S (p.coef S) (q.coef S) k) ∧
    (∀ k, maxCoeffs ≤ k → (polyMul S maxCoeffs p q).coef S k = S.zero) ∧
    (∀ k, (polyAdd S maxCoeffs p q).coef S k = S.add (p.coef S k) (q.coef S k)) :=
  ⟨fun k hk => polyMul_coef hS hp hq k hk, fun k hk => polyMul_coef_ge p q k hk,
   fun k => polyAdd_coef_wf hS hp hq k⟩

/-! ## finite fields: arithmetic modulo the prime, without overflow -/

/-- results equal integer arithmetic modulo the prime, for all residues and every exported prime -/
theorem ff_modular (exportedPrimes : List Nat) (h : PrimesOk exportedPrimes) :
    ∀ P ∈ exportedPrimes, ∀ a b, a < P → b < P →
      ffAdd P a b = (a + b) % P ∧ ffMul P a b = a * b % P ∧ ffSub P a b = (a + P - b) % P ∧
      ffNew P 0 = 0 ∧ ffNew P 1 = 1 := by
  intro P hP a b ha hb
  obtain ⟨h1, h2⟩ := h P hP
  exact ⟨ffAdd_spec P a b, ffMul_spec ha hb h1 h2, ffSub_spec ha hb,
    Nat.zero_mod P, Nat.mod_eq_of_lt h1⟩

/-- no `u128` sum, difference or product formed by the (repaired) code on reduced operands
overflows/underflows, and the multiplication loop terminates within 128 iterations: the checked
reading returns `some` of the unbounded-integer reading -/
theorem ff_no_overflow (exportedPrimes : List Nat) (h : PrimesOk exportedPrimes) :
    ∀ P ∈ exportedPrimes, ∀ a b, a < P → b < P →
      ffAddC P a b = some (ffAdd P a b) ∧ ffMulC P a b = some (ffMul P a b) ∧
      ffSubC P a b = some (ffSub P a b) ∧ ffNegateC P a = some (ffNegate P a) := by
  intro P hP a b ha hb
  have h2 : P ≤ 2 ^ 127 := Nat.le_of_lt (h P hP).2
  exact ⟨ffAddC_eq ha hb h2, ffMulC_eq ha hb h2, ffSubC_eq ha hb h2, ffNegateC_eq ha h2⟩

/-- the raw operations keep residues reduced (so `FF P` is closed under them) -/
theorem ff_ops_reduced (exportedPrimes : List Nat) (h : PrimesOk exportedPrimes) :
    ∀ P ∈ exportedPrimes, ∀ a b,
      ffNew P a < P ∧ ffAdd P a b < P ∧ ffMul P a b < P ∧ ffSub P a b < P ∧ ffNegate P a < P := by
  intro P hP a b
  have h0 : 0 < P := Nat.lt_trans Nat.zero_lt_one (h P hP).1
  refine ⟨ffNew_lt h0 _, ffNew_lt h0 _, ?_, ffNew_lt h0 _, ffNew_lt h0 _⟩
  unfold ffMul; split <;> exact ffNew_lt h0 _

/-! ## ring subtraction inverts addition -/

theorem ff_sub_inverts_add (exportedPrimes : List Nat) (_h : PrimesOk exportedPrimes) :
    ∀ P ∈ exportedPrimes, ∀ a b, a < P → b < P →
      ffAdd P (ffSub P a b) b = a ∧ ffSub P (ffAdd P a b) b = a :=
  fun _ _ _ _ ha hb => ⟨ff_sub_add ha hb, ff_add_sub ha hb⟩

/-- `negate` (used by semantic hashing) is "one minus": `negate a + a = 1` -/
theorem ff_negate (exportedPrimes : List Nat) (h : PrimesOk exportedPrimes) :
    ∀ P ∈ exportedPrimes, ∀ a, a < P → ffAdd P (ffNegate P a) a = 1 := by
  intro P hP a ha
  rw [ffNegate_spec (Nat.le_of_lt ha), Nat.mod_eq_of_lt (h P hP).1]

theorem real_sub_inverts_add (a b : Rat) :
    realAdd (realSub a b) b = a ∧ realSub (realAdd a b) b = a :=
  ⟨real_sub_add a b, real_add_sub a b⟩

theorem eu_sub_inverts_add (a b : EU) : euAdd (euSub a b) b = a ∧ euSub (euAdd a b) b = a :=
  ⟨eu_sub_add a b, eu_add_sub a b⟩

theorem complex_sub_inverts_add (a b : Cx) : cxAdd (cxSub a b) b = a ∧ cxSub (cxAdd a b) b = a :=
  ⟨cx_sub_add a b, cx_add_sub a b⟩

/-! ## lattice laws -/

theorem real_lattice (a b c : Rat) :
    realJoin a a = a ∧ realJoin a b = realJoin b a ∧
    realJoin (realJoin a b) c = realJoin a (realJoin b c) ∧
    realMeet a a = a ∧ realMeet a b = realMeet b a ∧
    realMeet (realMeet a b) c = realMeet a (realMeet b c) :=
  ⟨realJoin_idem a, realJoin_comm a b, realJoin_assoc a b c,
   realMeet_idem a, realMeet_comm a b, realMeet_assoc a b c⟩

theorem eu_lattice (a b c : EU) :
    euJoin a a = a ∧ euJoin a b = euJoin b a ∧ euJoin (euJoin a b) c = euJoin a (euJoin b c) ∧
    euMeet a a = a ∧ euMeet a b = euMeet b a ∧ euMeet (euMeet a b) c = euMeet a (euMeet b c) :=
  ⟨euJoin_idem a, euJoin_comm a b, euJoin_assoc a b c,
   euMeet_idem a, euMeet_comm a b, euMeet_assoc a b c⟩

/-! ## order compatibility: whenever the declared order relates two elements, join and choose
return the larger and meet the smaller -/

/-- reals: the declared order (derived `PartialOrd` of the `f64` field) is total on exact values
and is `<`/`=`/`>` of the value -/
theorem real_order_compat (a b : Rat) :
    (realPartialCmp a b = some .lt ↔ a < b) ∧ (realPartialCmp a b = some .eq ↔ a = b) ∧
    (realPartialCmp a b = some .gt ↔ b < a) ∧ realPartialCmp a b ≠ none ∧
    (a ≤ b → realJoin a b = b ∧ realChoose a b = b ∧ realMeet a b = a) ∧
    (b ≤ a → realJoin a b = a ∧ realChoose a b = a ∧ realMeet a b = b) :=
  ⟨realPartialCmp_lt, realPartialCmp_eq, realPartialCmp_gt, realPartialCmp_total a b,
   Sem.real_order_compat, Sem.real_order_compat'⟩

/-- expected utility: `partial_cmp` relates `a` and `b` in exactly three ways -/
theorem eu_order_compat (a b : EU) :
    (euPartialCmp a b = some .lt → euJoin a b = b ∧ euChoose a b = b ∧ euMeet a b = a) ∧
    (euPartialCmp a b = some .gt → euJoin a b = a ∧ euChoose a b = a ∧ euMeet a b = b) ∧
    (euPartialCmp a b = some .eq → a = b ∧ euJoin a b = b ∧ euChoose a b = b ∧ euMeet a b = a) :=
  ⟨eu_order_compat_lt, eu_order_compat_gt,
   fun h => ⟨euPartialCmp_eq.1 h, eu_order_compat_eq h⟩⟩

/-! ## finding F5 replayed on the original operations -/

/-- original `sub` was `|a - b|`: in `F_7`, `(1 - 2) + 2 ≠ 1` -/
theorem orig_sub_wrong : ffAdd 7 (ffSubOrig 7 1 2) 2 ≠ 1 := ffSubOrig_wrong

/-- original `mul` formed `a * b` in `u128`: for `U128_LARGE_1` and `a = b = P - 1` the release
build returns a wrong residue and the debug build panics -/
theorem orig_mul_wrong :
    ffMulOrig 46084029846212370199652019757 46084029846212370199652019756
        46084029846212370199652019756
      ≠ 46084029846212370199652019756 * 46084029846212370199652019756
          % 46084029846212370199652019757 ∧
    ffMulOrigC 46084029846212370199652019757 46084029846212370199652019756
        46084029846212370199652019756 = none :=
  ⟨ffMulOrig_wrong, ffMulOrigC_overflows⟩

/-! ## non-vacuity -/

/-- the primes of `src/constants.rs` as shipped (the generated file re-derives this list) -/
def shippedPrimes : List Nat :=
  [1000001, 479001599, 18446744073709551591, 46084029846212370199652019757,
   49703069216273825773136967137, 64733603481794218985640164159, 79016979402926483817096290621]

theorem shippedPrimes_ok : PrimesOk shippedPrimes := by decide

-- the hypotheses are satisfiable: the theorems apply to the shipped list
example := ff_semiring shippedPrimes shippedPrimes_ok
example := ff_modular shippedPrimes shippedPrimes_ok 46084029846212370199652019757 (by decide)
  46084029846212370199652019756 46084029846212370199652019756 (by decide) (by decide)

-- the large-prime path really goes through the double-and-add loop, and gives `(-1)^2 = 1`
example : ¬ (46084029846212370199652019756 * 46084029846212370199652019756 < 2 ^ 128) := by decide
example : ffMul 46084029846212370199652019757 46084029846212370199652019756
    46084029846212370199652019756 = 1 := by decide +kernel
example : ffMulC 79016979402926483817096290621 79016979402926483817096290620 2
    = some 79016979402926483817096290619 := by decide +kernel
example : ffSub 7 1 2 = 6 ∧ ffAdd 7 (ffSub 7 1 2) 2 = 1 := by decide
example : ffNegate 7 3 = 5 ∧ ffAdd 7 (ffNegate 7 3) 3 = 1 := by decide

-- the three related cases of the expected-utility order all occur, and so does "unrelated"
example : euPartialCmp ⟨1, 2⟩ ⟨2, 3⟩ = some .lt := by decide
example : euPartialCmp ⟨2, 3⟩ ⟨1, 2⟩ = some .gt := by decide
example : euPartialCmp ⟨1, 2⟩ ⟨1, 2⟩ = some .eq := by decide
example : euPartialCmp ⟨1, 3⟩ ⟨2, 2⟩ = none := by decide
-- on unrelated elements `choose` is not the join (so the hypothesis of `eu_order_compat` matters)
example : euChoose ⟨1, 3⟩ ⟨2, 2⟩ = ⟨1, 3⟩ ∧ euJoin ⟨1, 3⟩ ⟨2, 2⟩ = ⟨2, 3⟩ := by decide

-- polynomials: `(1 + X)(1 + X) = 1 + X^2` over the Boolean semiring truncated at 2 is `1 + X`…
example : polyMul boolOps 2 (polyOfList boolOps 2 [true, true]) (polyOfList boolOps 2 [true, true])
    = ⟨[true, true], 2⟩ := by decide
-- … and `(1 + 2X)(3 + X + X^2)` truncated at 32 over `F_7`
example : (polyMul (ffOps 7) 32 (polyOfList (ffOps 7) 32 [1, 2]) (polyOfList (ffOps 7) 32 [3, 1, 1])).len = 4
    ∧ (polyMul (ffOps 7) 32 (polyOfList (ffOps 7) 32 [1, 2])
        (polyOfList (ffOps 7) 32 [3, 1, 1])).coeffs.take 5 = [3, 0, 3, 2, 0] := by decide
example := poly_semiring bool_semiring 32 (by decide)

/-! ## axioms -/
#print axioms real_semiring
#print axioms rational_semiring
#print axioms bool_semiring
#print axioms eu_semiring
#print axioms complex_semiring
#print axioms ff_semiring
#print axioms poly_wf
#print axioms poly_semiring
#print axioms poly_mul_truncation
#print axioms ff_modular
#print axioms ff_no_overflow
#print axioms ff_ops_reduced
#print axioms ff_sub_inverts_add
#print axioms ff_negate
#print axioms real_sub_inverts_add
#print axioms eu_sub_inverts_add
#print axioms complex_sub_inverts_add
#print axioms real_lattice
#print axioms eu_lattice
#print axioms real_order_compat
#print axioms eu_order_compat
#print axioms orig_sub_wrong
#print axioms orig_mul_wrong
#print axioms shippedPrimes_ok

end C13
