import RsddModel.Lemmas.Optim
/-!
# C12: marginal MAP, maximum expected utility and the generic branch and bound

"For probability weights (every weight in [0,1], low+high = 1 on every non-query variable)
marginal MAP and the generic branch-and-bound return the maximum, over all assignments of the
query variables, of the weighted count of the function restricted to that assignment, together
with a complete assignment of the query variables that attains it.  The same holds for maximum
expected utility when decision variables carry unit weight, utilities are non-negative and every
utility-bearing variable is ordered after all decision variables."

Reading.

* Code: `Optim.marginalMap`, `Optim.meu`, `Optim.bb` (`Model/Optim.lean`) mirror `marginal_map`,
  `meu`, `bb` of `src/repr/bdd.rs` on the diagram *tree* (`bdd_fold` without its memo), `f64` read
  as `Rat`.  Oracles: `Spec.mapSpec`, `Spec.meuSpec`, `Spec.bbSpec` (`Spec/Optim.lean`), brute force
  over all `2^|Q|` query assignments.
* Quantifiers.  All diagrams: every *free* `Bdd.Ptr` (no variable twice on a path: all ROBDDs of
  all orders) for marginal MAP; every reduced ordered diagram `Robdd order p` of every order for
  MEU and for the path-count form of `bb`.  All query lists `Q`: any list of labels `< numVars`
  (`from_litvec` indexes out of bounds otherwise), including `[]`, all variables, variables the
  function ignores, and repeated variables (`qWeight` counts each distinct variable once; the
  search proof goes through `Consistent` completions for exactly this case).  All weights in the
  stated domain (in fact weaker: `MapWeights`, `MeuWeights`).  The variable order of the diagram is
  arbitrary: it does not occur in the marginal MAP statements at all.
* The returned partial model `m` "is a complete assignment of the query variables": `Completes
  (PM.new n) Q m` (`m.get x ≠ none ↔ x ∈ Q`, `assigns_exactly`), its reading `m.toAssign` is one
  of the enumerated query assignments and has the optimal value.
* Nothing here is partial: there is no `…_partial` theorem.
-/
namespace C12
open Bdd Spec Sem Optim

/-! ## the stated weight domains -/

/-- "every weight in [0,1], low+high = 1 on every non-query variable" (`vars` = the variables
summed over; it must contain the variables of the diagram) -/
structure ProbWeights (w : Weights Rat) (Q vars : List Nat) : Prop where
  unit_interval : ∀ v, (0 ≤ (w v).1 ∧ (w v).1 ≤ 1) ∧ (0 ≤ (w v).2 ∧ (w v).2 ≤ 1)
  normalised : ∀ v ∈ vars, v ∉ Q → (w v).1 + (w v).2 = 1

theorem ProbWeights.toMap {w : Weights Rat} {Q vars : List Nat} (h : ProbWeights w Q vars) :
    MapWeights w Q vars where
  nonneg v := ⟨(h.unit_interval v).1.1, (h.unit_interval v).2.1⟩
  query_le_one x _ := ⟨(h.unit_interval x).1.2, (h.unit_interval x).2.2⟩
  normalised := h.normalised

/-- "decision variables carry unit weight, utilities are non-negative and every utility-bearing
variable is ordered after all decision variables": `Optim.MeuWeights w D order`, i.e.
`w x = (ExpectedUtility(1,0), ExpectedUtility(1,0))` for `x ∈ D`, both components of every weight
non-negative, and along `order` every variable is a decision variable, or has
`low + high = ExpectedUtility(1,0)` (a probabilistic variable), or has no decision variable at
or below it (a utility-bearing variable). -/
abbrev MeuDomain := @MeuWeights

/-! ## marginal MAP -/

/-- **`eval_complete`**: when every query variable is assigned (and nothing else),
`marginal_map_eval` is `(∏ assigned literal weights) · wsum(non-query vars)(f at q)`: free diagram,
normalised non-query weights. -/
theorem eval_complete {w : Weights Rat} {Q vars : List Nat} (hw : MapWeights w Q vars) {p : Ptr}
    (hp : p.free) (hnd : vars.Nodup) (hcov : ∀ v ∈ p.vars, v ∈ vars) {n : Nat} (hQ : ∀ x ∈ Q, x < n)
    {c : PM} (hc : Completes (PM.new n) Q c) :
    marginalMapEval p c [] w =
      qWeight realOps w c.toAssign Q [] * wsum realOps (nonQuery vars Q) w p.eval c.toAssign :=
  map_eval_complete hw hp hnd hcov hQ hc

/-- **`ub_sound`**: the relaxed fold (max over the unassigned query variables `bits`) is at least the
value of every completion that agrees with what is already assigned; weights non-negative,
query weights at most one (normalisation is not needed for this). -/
theorem ub_sound {w : Weights Rat} {Q vars : List Nat} (hw : MapWeights w Q vars) {p : Ptr} (hp : p.free)
    (bits : List Nat) (hbits : ∀ x ∈ bits, x ∈ Q) (m : PM) (hm : ∀ x ∈ bits, x < m.vals.length)
    (q : Assign) (hq : Consistent m bits q) :
    marginalMapEval p (complete m bits q) [] w ≤ marginalMapEval p m bits w :=
  map_ub_sound hw hp bits hbits m hm q hq

/-- **`bnb_opt`**: `marginal_map_h(lb, best, Q, w, asg) = (v, m)` ⇒
`v = max(lb, max over completions of asg over Q of their value)`; if `v > lb` then `m` is a completion
of `asg` over `Q` attaining `v`, else `(v, m) = (lb, best)`.  Stated as: `v ≥ lb`, `v` bounds every
completion consistent with `asg`, and `v` is `lb` or attained.  (By induction on `Q`, including the
strict-improvement pruning.) -/
theorem bnb_opt {w : Weights Rat} {Q vars : List Nat} (hw : MapWeights w Q vars) {p : Ptr} (hp : p.free)
    {n : Nat} (hQ : ∀ x ∈ Q, x < n) (lb : Rat) (best asg : PM) (hasg : asg.vals.length = n) :
    lb ≤ (marginalMapH p w lb best Q asg).1 ∧
    (∀ q, Consistent asg Q q →
      marginalMapEval p (complete asg Q q) [] w ≤ (marginalMapH p w lb best Q asg).1) ∧
    (marginalMapH p w lb best Q asg = (lb, best) ∨
      (lb < (marginalMapH p w lb best Q asg).1 ∧
       Completes asg Q (marginalMapH p w lb best Q asg).2 ∧
       (marginalMapH p w lb best Q asg).2 =
         complete asg Q (marginalMapH p w lb best Q asg).2.toAssign ∧
       (marginalMapH p w lb best Q asg).1 =
         marginalMapEval p (marginalMapH p w lb best Q asg).2 [] w)) := by
  have H := marginalMapH_opt hw hp hQ lb best asg hasg
  refine ⟨H.ge_lb, H.ub, ?_⟩
  rcases H.att with e | ⟨h1, h2, h3⟩
  · exact Or.inl e
  · exact Or.inr ⟨h1, h2, completes_eq (fun x hx => by rw [hasg]; exact hQ x hx) h2, h3⟩

/-- when no query variable is assigned yet every completion is consistent -/
theorem bnb_opt_fresh {w : Weights Rat} {Q vars : List Nat} (hw : MapWeights w Q vars) {p : Ptr}
    (hp : p.free) {n : Nat} (hQ : ∀ x ∈ Q, x < n) (lb : Rat) (best asg : PM) (hasg : asg.vals.length = n)
    (hfresh : ∀ x ∈ Q, asg.get x = none) (q : Assign) :
    marginalMapEval p (complete asg Q q) [] w ≤ (marginalMapH p w lb best Q asg).1 :=
  (bnb_opt hw hp hQ lb best asg hasg).2.1 q (fun x hx b hb => by rw [hfresh x hx] at hb; cases hb)

/-- **`marginalMap_opt`**: the returned value is `mapSpec` (the maximum over all assignments of `Q`),
the returned model assigns exactly `Q`, its reading is one of the `2^|Q|` enumerated query
assignments and attains the maximum. -/
theorem marginalMap_opt {w : Weights Rat} {Q vars : List Nat} (hw : ProbWeights w Q vars) {p : Ptr}
    (hp : p.free) (hnd : vars.Nodup) (hcov : ∀ v ∈ p.vars, v ∈ vars) {n : Nat} (hQ : ∀ x ∈ Q, x < n) :
    (marginalMap p Q n w).1 = mapSpec p.eval Q vars w ∧
    (∀ x, (marginalMap p Q n w).2.get x ≠ none ↔ x ∈ Q) ∧
    (marginalMap p Q n w).2.toAssign ∈ queryAssignments Q ∧
    mapValue p.eval Q (nonQuery vars Q) w (marginalMap p Q n w).2.toAssign = mapSpec p.eval Q vars w := by
  obtain ⟨h1, h2, h3, h4⟩ := Optim.marginalMap_opt hw.toMap hp hnd hcov hQ
  exact ⟨h1, completes_new_get h2, h3, h4.trans h1⟩

/-- the same under the weaker domain `MapWeights` (non-negative, query weights `≤ 1`, non-query
normalised) -/
theorem marginalMap_opt' {w : Weights Rat} {Q vars : List Nat} (hw : MapWeights w Q vars) {p : Ptr}
    (hp : p.free) (hnd : vars.Nodup) (hcov : ∀ v ∈ p.vars, v ∈ vars) {n : Nat} (hQ : ∀ x ∈ Q, x < n) :
    (marginalMap p Q n w).1 = mapSpec p.eval Q vars w ∧
    Completes (PM.new n) Q (marginalMap p Q n w).2 ∧
    (marginalMap p Q n w).2.toAssign ∈ queryAssignments Q ∧
    mapValue p.eval Q (nonQuery vars Q) w (marginalMap p Q n w).2.toAssign = (marginalMap p Q n w).1 :=
  Optim.marginalMap_opt hw hp hnd hcov hQ

/-- every value the oracle maximises over is below the returned one (the "max" unfolded) -/
theorem marginalMap_ge {w : Weights Rat} {Q vars : List Nat} (hw : ProbWeights w Q vars) {p : Ptr}
    (hp : p.free) (hnd : vars.Nodup) (hcov : ∀ v ∈ p.vars, v ∈ vars) {n : Nat} (hQ : ∀ x ∈ Q, x < n)
    (q : Assign) (hq : q ∈ queryAssignments Q) :
    mapValue p.eval Q (nonQuery vars Q) w q ≤ (marginalMap p Q n w).1 := by
  rw [(marginalMap_opt hw hp hnd hcov hQ).1]
  exact le_maxOfList _ _ (List.mem_map.mpr ⟨q, hq, rfl⟩)

/-! ## maximum expected utility -/

/-- **`meu_opt`**: reduced ordered diagram of any order `order`; decision variables of unit weight,
non-negative probabilities and utilities, utility-bearing variables ordered after all decision
variables.  The returned utility component is the maximum over all decisions of the utility of
the path count of the restricted function; the returned model assigns exactly the decision
variables and its value (both components) is the returned pair. -/
theorem meu_opt {w : Weights EU} {D order : List Nat} (hw : MeuWeights w D order) {p : Ptr}
    (hnd : order.Nodup) (hp : Robdd order p) {n : Nat} (hD : ∀ x ∈ D, x < n) :
    (meu p D n w).1.u = meuSpec p.eval D order w ∧
    (∀ x, (meu p D n w).2.get x ≠ none ↔ x ∈ D) ∧
    (meu p D n w).2.toAssign ∈ queryAssignments D ∧
    meuValue p.eval D order w (meu p D n w).2.toAssign = (meu p D n w).1 := by
  obtain ⟨h1, h2, h3, h4⟩ := Optim.meu_opt hw hnd hp hD
  exact ⟨h1, completes_new_get h2, h3, h4⟩

/-- the executable path count used by the oracle is the specification's `pathCount` -/
theorem meuValue_eq_pathCount {w : Weights EU} {D order : List Nat} {p : Ptr} (hp : Robdd order p)
    (d : Assign) :
    meuValue p.eval D order w d = pathCount euOps w order (restrictTo D d p.eval) (fun _ => false) :=
  pathCountX_eq euOps w order _ _ (dependsOn_restrictTo hp.vars_sub D d)

/-- `eu_ub` is sound in both components, and exact on complete decisions -/
theorem meu_ub_sound {w : Weights EU} {D order : List Nat} (hw : MeuWeights w D order) {p : Ptr}
    (hp : p.free) {n : Nat} (bits : List Nat) (hbits : ∀ x ∈ bits, x < n ∧ x ∈ D) (m : PM)
    (hm : MeuInv n D m) (q : Assign) (hq : Consistent m bits q) :
    (euUb p (complete m bits q) [] w).p ≤ (euUb p m bits w).p ∧
    (euUb p (complete m bits q) [] w).u ≤ (euUb p m bits w).u :=
  Optim.meu_ub_sound hw hp bits hbits m hm q hq

/-! ## generic branch and bound -/

/-- **`bb_opt`**: for every `BBSemiring` whose operations satisfy the explicit monotonicity laws
`BBLaws` (for a bounding preorder `R`) and `ChooseLaws` (for the preorder `T` that `choose`
maximises), and weights in `BbWeights` (non-negative; query weights `≤ one` and sub-distributive
over `join`; non-normalised non-query variables below all query variables), `bb` on a reduced
ordered diagram returns a value that is `T`-maximal among `bbValue q = qWeight q · pathCount (f|q)`
over all query assignments, with a model assigning exactly `Q` that attains it. -/
theorem bb_opt {α : Type} {B : BBOps α} {R T : α → α → Prop} (L : BBLaws B R) (C : ChooseLaws B R T)
    {w : Weights α} {Q order : List Nat} (hw : BbWeights B R w Q order) {p : Ptr} (hnd : order.Nodup)
    (hp : Robdd order p) {n : Nat} (hQ : ∀ x ∈ Q, x < n) :
    (∀ q ∈ queryAssignments Q, T (bbValue B.toSROps p.eval Q order w q) (bb B p Q n w).1) ∧
    (∀ x, (bb B p Q n w).2.get x ≠ none ↔ x ∈ Q) ∧
    (bb B p Q n w).2.toAssign ∈ queryAssignments Q ∧
    bbValue B.toSROps p.eval Q order w (bb B p Q n w).2.toAssign = (bb B p Q n w).1 := by
  obtain ⟨h1, h2, h3, h4⟩ := Optim.bb_opt L C hw hnd hp hQ
  exact ⟨h1, completes_new_get h2, h3, h4⟩

/-- the returned value and the oracle `bbSpec` (a `choose`-fold over all query assignments) are
`T`-equivalent -/
theorem bb_opt_spec {α : Type} {B : BBOps α} {R T : α → α → Prop} (L : BBLaws B R) (C : ChooseLaws B R T)
    {w : Weights α} {Q order : List Nat} (hw : BbWeights B R w Q order) {p : Ptr} (hnd : order.Nodup)
    (hp : Robdd order p) {n : Nat} (hQ : ∀ x ∈ Q, x < n) :
    T (bbSpec B.toSROps B.choose p.eval Q order w) (bb B p Q n w).1 ∧
    T (bb B p Q n w).1 (bbSpec B.toSROps B.choose p.eval Q order w) :=
  Optim.bb_opt_spec L C hw hnd hp hQ

/-- the laws hold for the two shipped instances -/
theorem real_instance : BBLaws realBB (fun a b : Rat => a ≤ b) ∧
    ChooseLaws realBB (fun a b : Rat => a ≤ b) (fun a b : Rat => a ≤ b) := ⟨realBBLaws, realChooseLaws⟩
theorem eu_instance : BBLaws euBB euR ∧ ChooseLaws euBB euR euT := ⟨euBBLaws, euChooseLaws⟩

/-- `bb` at `RealSemiring`: the marginal MAP statement (free diagram, any order) -/
theorem bb_real_opt {w : Weights Rat} {Q vars : List Nat} (hw : ProbWeights w Q vars) {p : Ptr}
    (hp : p.free) (hnd : vars.Nodup) (hcov : ∀ v ∈ p.vars, v ∈ vars) {n : Nat} (hQ : ∀ x ∈ Q, x < n) :
    (bb realBB p Q n w).1 = mapSpec p.eval Q vars w ∧
    (∀ x, (bb realBB p Q n w).2.get x ≠ none ↔ x ∈ Q) ∧
    (bb realBB p Q n w).2.toAssign ∈ queryAssignments Q ∧
    mapValue p.eval Q (nonQuery vars Q) w (bb realBB p Q n w).2.toAssign = mapSpec p.eval Q vars w := by
  obtain ⟨h1, h2, h3, h4⟩ := Optim.bb_real_opt hw.toMap hp hnd hcov hQ
  exact ⟨h1, completes_new_get h2, h3, h4.trans h1⟩

/-- `bb` at `RealSemiring`, path-count form, is the generic theorem at the real instance -/
theorem bb_real_opt_pathCount {w : Weights Rat} {Q order : List Nat} (hw : ProbWeights w Q order)
    {p : Ptr} (hnd : order.Nodup) (hp : Robdd order p) {n : Nat} (hQ : ∀ x ∈ Q, x < n) :
    (∀ q ∈ queryAssignments Q, bbValue realOps p.eval Q order w q ≤ (bb realBB p Q n w).1) ∧
    bbValue realOps p.eval Q order w (bb realBB p Q n w).2.toAssign = (bb realBB p Q n w).1 := by
  obtain ⟨h1, _, _, h4⟩ := bb_opt realBBLaws realChooseLaws hw.toMap.bbWeights hnd hp hQ
  exact ⟨h1, h4⟩

/-- `bb` at `ExpectedUtility`: the MEU statement -/
theorem bb_eu_opt {w : Weights EU} {D order : List Nat} (hw : MeuWeights w D order) {p : Ptr}
    (hnd : order.Nodup) (hp : Robdd order p) {n : Nat} (hD : ∀ x ∈ D, x < n) :
    (bb euBB p D n w).1.u = meuSpec p.eval D order w ∧
    (∀ x, (bb euBB p D n w).2.get x ≠ none ↔ x ∈ D) ∧
    (bb euBB p D n w).2.toAssign ∈ queryAssignments D ∧
    meuValue p.eval D order w (bb euBB p D n w).2.toAssign = (bb euBB p D n w).1 := by
  obtain ⟨h1, h2, h3, h4⟩ := Optim.bb_eu_opt hw hnd hp hD
  exact ⟨h1, completes_new_get h2, h3, h4⟩

/-! ## non-vacuity -/

/-- `x0 ∧ x1` and `x0 ∨ x1` under the order `[0, 1]`; `¬x0 ∨ x1` -/
def pAnd : Ptr := .node false 0 .fls (.node false 1 .fls .tru)
def pOr : Ptr := .node false 0 (.node false 1 .fls .tru) .tru
def pImp : Ptr := .node false 0 .tru (.node false 1 .fls .tru)

theorem pAnd_robdd : Robdd [0, 1] pAnd :=
  .node (.fls _) (.node (.fls _) (.tru _) (by decide) rfl (by decide)) (by decide) rfl (by decide)
theorem pOr_robdd : Robdd [0, 1] pOr :=
  .node (.node (.fls _) (.tru _) (by decide) rfl (by decide)) (.tru _) (by decide) rfl (by decide)
theorem pImp_robdd : Robdd [0, 1] pImp :=
  .node (.tru _) (.node (.fls _) (.tru _) (by decide) rfl (by decide)) (by decide) rfl (by decide)

/-- a probability weighting: `x0 ↦ (1/4, 3/4)`, everything else `(1/2, 1/2)` -/
def wP : Weights Rat := fun v => if v = 0 then (1/4, 3/4) else (1/2, 1/2)

theorem wP_prob (Q vars : List Nat) : ProbWeights wP Q vars where
  unit_interval v := by
    simp only [wP]; split <;> (refine ⟨⟨?_, ?_⟩, ⟨?_, ?_⟩⟩ <;> grind)
  normalised v _ _ := by simp only [wP]; split <;> grind

/-- the hypotheses of `marginalMap_opt` are satisfiable and the conclusion is the concrete value:
query `x0` of `x0 ∧ x1`, query everything, query nothing, a repeated and an ignored variable -/
example : marginalMap pAnd [0] 2 wP = (3/8, ⟨[some true, none]⟩) := by with_unfolding_all decide
example : mapSpec pAnd.eval [0] [0, 1] wP = 3/8 := by with_unfolding_all decide
example : marginalMap pAnd [1, 0] 2 wP = (3/8, ⟨[some true, some true]⟩) := by with_unfolding_all decide
example : marginalMap pAnd [] 2 wP = (3/8, ⟨[none, none]⟩) := by with_unfolding_all decide
example : marginalMap pAnd [0, 0] 2 wP = (3/8, ⟨[some true, none]⟩) := by with_unfolding_all decide
example : marginalMap pAnd [2, 0] 3 wP = (3/16, ⟨[some true, none, some true]⟩) := by
  with_unfolding_all decide
example : mapSpec pAnd.eval [2, 0] [0, 1, 2] wP = 3/16 := by with_unfolding_all decide
example : bb realBB pOr [0, 1] 2 wP = (3/8, ⟨[some true, some true]⟩) := by with_unfolding_all decide
example : (marginalMap pAnd [0] 2 wP).1 = mapSpec pAnd.eval [0] [0, 1] wP :=
  (marginalMap_opt (wP_prob _ _) (pAnd_robdd.free (by decide)) (by decide) (by decide)
    (by decide)).1

/-- the hypothesis "query weights at most one" is used: with `x1 ↦ (2, 1/4)`, `x0 ↦ (1, 1/4)` and
`Q = [0, 1]` the relaxed fold is not an upper bound, the better branch is pruned and
`marginal_map` of `x0 ∨ x1` returns `1/4` although `x0 = T, x1 = F` has value `1/2` -/
def wBig : Weights Rat := fun v => if v = 0 then (1, 1/4) else (2, 1/4)
example : (marginalMap pOr [0, 1] 2 wBig).1 = 1/4 ∧ mapSpec pOr.eval [0, 1] [0, 1] wBig = 1/2 := by
  with_unfolding_all decide

/-- the hypothesis "non-query weights normalised" is used: a skipped non-query variable
contributes nothing to the fold but `low + high` to the sum -/
def wSkip : Weights Rat := fun v => if v = 0 then (2, 1/2) else (1/2, 1/2)
example : (marginalMap (.node false 1 .fls .tru) [1] 2 wSkip).1 = 1/2 ∧
    mapSpec (Ptr.node false 1 .fls .tru).eval [1] [0, 1] wSkip = 5/4 := by with_unfolding_all decide

/-- MEU: decision `x0` (unit weight), utility-bearing `x1 ↦ ((1,0), (1,3))` below it -/
def wU : Weights EU := fun v => if v = 0 then (⟨1, 0⟩, ⟨1, 0⟩) else (⟨1, 0⟩, ⟨1, 3⟩)

theorem wU_meu : MeuWeights wU [0] [0, 1] where
  nonneg v := by
    simp only [wU]; split <;> (refine ⟨⟨?_, ?_⟩, ⟨?_, ?_⟩⟩ <;> grind)
  unit x hx := by simp at hx; subst hx; rfl
  after := ⟨Or.inl (by simp), Or.inr (Or.inr (by simp)), trivial⟩

example : meu pAnd [0] 2 wU = (⟨1, 3⟩, ⟨[some true, none]⟩) := by with_unfolding_all decide
example : meuSpec pAnd.eval [0] [0, 1] wU = 3 := by with_unfolding_all decide
example : bb euBB pAnd [0] 2 wU = (⟨1, 3⟩, ⟨[some true, none]⟩) := by with_unfolding_all decide
example : (meu pAnd [0] 2 wU).1.u = meuSpec pAnd.eval [0] [0, 1] wU :=
  (meu_opt wU_meu (by decide) pAnd_robdd (by decide)).1

/-- the ordering hypothesis is used: with the utility-bearing variable `x0` *above* the decision
`x1`, conditioning `¬x0 ∨ x1` on `x1 = T` removes the node on `x0` from the true conditioned
diagram (utility `0`), while the pass-through fold still counts it (utility `3`) -/
def wUbad : Weights EU := fun v => if v = 1 then (⟨1, 0⟩, ⟨1, 0⟩) else (⟨1, 0⟩, ⟨1, 3⟩)
example : (meu pImp [1] 2 wUbad).1.u = 3 ∧ meuSpec pImp.eval [1] [0, 1] wUbad = 0 := by
  with_unfolding_all decide

/-! ## axioms -/

#print axioms eval_complete
#print axioms ub_sound
#print axioms bnb_opt
#print axioms bnb_opt_fresh
#print axioms marginalMap_opt
#print axioms marginalMap_opt'
#print axioms marginalMap_ge
#print axioms meu_opt
#print axioms meuValue_eq_pathCount
#print axioms meu_ub_sound
#print axioms bb_opt
#print axioms bb_opt_spec
#print axioms real_instance
#print axioms eu_instance
#print axioms bb_real_opt
#print axioms bb_real_opt_pathCount
#print axioms bb_eu_opt
#print axioms pAnd_robdd
#print axioms wP_prob
#print axioms wU_meu
#print axioms ProbWeights.toMap

end C12
