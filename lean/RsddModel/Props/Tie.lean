import RsddModel.Model.Constants
import RsddModel.Props.C13
import RsddModel.Props.C02Table
import RsddModel.Props.C16
/-!
# Tie to the constants of the current source

`Model/Constants.lean` is regenerated from `/repo`'s source by `tools/gen_constants.py` on every
run.  The theorems below instantiate the parametric property theorems at exactly those
constants, so a change of an exported prime, of `LOAD_FACTOR`, of `GROW_RATIO`, or of
`MAX_COEFFS` is re-checked by the kernel (or breaks this file).
-/
namespace Tie
open Constants

/-- every exported prime lies in `(1, 2^127)`: the range in which the `u128` code of
`FiniteField` neither overflows nor underflows -/
theorem exported_primes_ok : C13.PrimesOk exportedPrimes := by decide

theorem ff_semiring_exported : ∀ P (hP : P ∈ exportedPrimes),
    SROps.Laws (Sem.ffOpsFF P (Nat.lt_trans Nat.zero_lt_one (exported_primes_ok P hP).1)) :=
  C13.ff_semiring exportedPrimes exported_primes_ok

theorem ff_modular_exported : ∀ P ∈ exportedPrimes, ∀ a b, a < P → b < P →
    Sem.ffAdd P a b = (a + b) % P ∧ Sem.ffMul P a b = a * b % P ∧ Sem.ffSub P a b = (a + P - b) % P ∧
    Sem.ffNew P 0 = 0 ∧ Sem.ffNew P 1 = 1 :=
  C13.ff_modular exportedPrimes exported_primes_ok

theorem ff_no_overflow_exported : ∀ P ∈ exportedPrimes, ∀ a b, a < P → b < P →
    Sem.ffAddC P a b = some (Sem.ffAdd P a b) ∧ Sem.ffMulC P a b = some (Sem.ffMul P a b) ∧
    Sem.ffSubC P a b = some (Sem.ffSub P a b) ∧ Sem.ffNegateC P a = some (Sem.ffNegate P a) :=
  C13.ff_no_overflow exportedPrimes exported_primes_ok

theorem ff_sub_inverts_add_exported : ∀ P ∈ exportedPrimes, ∀ a b, a < P → b < P →
    Sem.ffAdd P (Sem.ffSub P a b) b = a ∧ Sem.ffSub P (Sem.ffAdd P a b) b = a :=
  C13.ff_sub_inverts_add exportedPrimes exported_primes_ok

theorem ff_negate_exported : ∀ P ∈ exportedPrimes, ∀ a, a < P → Sem.ffAdd P (Sem.ffNegate P a) a = 1 :=
  C13.ff_negate exportedPrimes exported_primes_ok

/-- the polynomial truncation length is positive -/
theorem maxCoeffs_pos : 0 < maxCoeffs := by decide

/-- the unique table's load factor is a valid ratio (`0 < den`, `num ≤ den`) -/
theorem loadFactor_valid : (RH.LoadFactor.mk loadFactorNum loadFactorDen).Valid := ⟨by decide, by decide⟩

theorem table_no_duplicates_at_source_constants (hashOf : Nat → Nat) (ks : List Nat) :
    (RH.run ⟨loadFactorNum, loadFactorDen⟩ hashOf (RH.mk defaultSize) ks).keys.Nodup :=
  (C02Table.table_no_duplicates hashOf loadFactor_valid (cap := defaultSize) (by decide) ks).1

/-- with the source's `GROW_RATIO`, the inner growth test of `Lru::grow` never fires, so the
model's `grow` is the Rust's `grow` -/
theorem growRatio_ok : growRatioDen ≤ 2 * growRatioNum := by decide

end Tie

#print axioms Tie.exported_primes_ok
#print axioms Tie.ff_semiring_exported
#print axioms Tie.ff_modular_exported
#print axioms Tie.ff_no_overflow_exported
#print axioms Tie.ff_sub_inverts_add_exported
#print axioms Tie.ff_negate_exported
#print axioms Tie.maxCoeffs_pos
#print axioms Tie.loadFactor_valid
#print axioms Tie.table_no_duplicates_at_source_constants
#print axioms Tie.growRatio_ok
