import RsddModel.Model.GenCnfOrd
import RsddModel.Model.Orders
import RsddModel.Model.OrdersExtra
import RsddModel.Lemmas.TieCnfOrdAux
/-!
# Tie to the source text (translator route): the order heuristics of `src/repr/cnf.rs`

`RsddModel/Model/GenCnfOrd.lean` is rewritten from `src/repr/cnf.rs` on every run
(tools/gen_cnford.py): `eliminate_node`, `num_fill`, `Cnf::interaction_graph`, `min_fill_order`,
`linear_order`, `average_span`, `center_of_gravity`, `force_order`.  Every loop body of the Rust is
its own generated definition (`…_loop<k>`); the proofs below first characterise the loop bodies
(`have h… : ∀ …, …_loopk … = …`, by unfolding, so a harmless re-arrangement of the body still checks),
then turn the index loops into the list recursion of the hand-written model
(`Tr.forRange_drop_foldl`, `Tr.forRange_dropRec`) and conclude equality with `Orders.*`, the
definitions the theorems of C14 are about.

The loop definitions only exist when the function was translated; they are mentioned only inside
the tactic alternative after `rfl`, so that the alias fallback (UNTRANSLATED) still checks.
-/
set_option linter.unusedSimpArgs false
set_option linter.unusedVariables false
namespace TieCnfOrd
open Orders

theorem getD_eq_of_lt {α : Type} (l : List α) (j : Nat) (d : α) (h : j < l.length) : l.getD j d = l[j] := by
  simp [List.getD_eq_getElem?_getD, List.getElem?_eq_getElem h]

theorem addNodes_range (n : Nat) :
    (List.range n).foldl (fun (s : UnGraph) v => UnGraph.addNode s v) ({ nodes := [], edges := [] } : UnGraph)
      = ({ nodes := List.range n, edges := [] } : UnGraph) := by
  induction n with
  | zero => rfl
  | succ n ih => rw [List.range_succ, List.foldl_append, ih]; rfl

theorem minmax_foldl (p : Spec.Lit → Nat) (c : List Spec.Lit) (a b : Nat) :
    c.foldl (fun (s : Nat × Nat) lit => (min (p lit) s.1, max (p lit) s.2)) (a, b)
      = (c.foldl (fun m l => min (p l) m) a, c.foldl (fun m l => max (p l) m) b) := by
  induction c generalizing a b with
  | nil => rfl
  | cons x xs ih => simp only [List.foldl_cons]; exact ih _ _

/-! ## `num_fill`, `eliminate_node` -/

theorem numFill_tie : Gen.CnfOrd.numFill = Orders.numFill := by
  first
  | rfl
  | (funext g v
     simp only [Gen.CnfOrd.numFill, Orders.numFill]
     have h2 : ∀ n1 n2 s, Gen.CnfOrd.numFill_loop2 g v n1 n2 s
         = (fun (b : Nat) (s : Nat) => if !g.hasEdge ((g.neighbors v).getD n1 0) b then s + 1 else s)
             ((g.neighbors v).getD n2 0) s := by
       intro n1 n2 s
       first
       | rfl
       | (simp only [Gen.CnfOrd.numFill_loop2]; split <;> simp_all <;> omega)
     have h1 : ∀ n1 s, Gen.CnfOrd.numFill_loop1 g v n1 s
         = s + (((g.neighbors v).drop (n1 + 1)).filter fun b => !g.hasEdge ((g.neighbors v).getD n1 0) b).length := by
       intro n1 s
       unfold Gen.CnfOrd.numFill_loop1
       rw [Tr.forRange_drop_foldl _
         (fun (b : Nat) (s : Nat) => if !g.hasEdge ((g.neighbors v).getD n1 0) b then s + 1 else s)
         (g.neighbors v) 0 (fun j s _ => h2 n1 j s)]
       exact Tr.count_foldl _ _ _
     rw [Tr.forRange_dropRec _ (fun a r s => s + (r.filter fun b => !g.hasEdge a b).length) (g.neighbors v) 0
       (fun j s _ => h1 j s)]
     simp [Tr.countMissing_eq_dropRec])

theorem eliminateNode_tie : Gen.CnfOrd.eliminateNode = Orders.eliminateNode := by
  first
  | rfl
  | (funext g v
     simp only [Gen.CnfOrd.eliminateNode, Orders.eliminateNode]
     have h2 : ∀ n1 n2 s, Gen.CnfOrd.eliminateNode_loop2 g v n1 n2 s
         = (fun (b : Nat) (s : UnGraph) =>
              if s.hasEdge ((g.neighbors v).getD n1 0) b then s else s.addEdge ((g.neighbors v).getD n1 0) b)
             ((g.neighbors v).getD n2 0) s := by
       intro n1 n2 s
       simp only [Gen.CnfOrd.eliminateNode_loop2]
       split <;> simp_all
     have h1 : ∀ n1 s, Gen.CnfOrd.eliminateNode_loop1 g v n1 s
         = fillInner ((g.neighbors v).getD n1 0) ((g.neighbors v).drop (n1 + 1)) s := by
       intro n1 s
       unfold Gen.CnfOrd.eliminateNode_loop1
       rw [Tr.forRange_drop_foldl _
         (fun (b : Nat) (s : UnGraph) =>
           if s.hasEdge ((g.neighbors v).getD n1 0) b then s else s.addEdge ((g.neighbors v).getD n1 0) b)
         (g.neighbors v) 0 (fun j s _ => h2 n1 j s), Tr.fillInner_eq_foldl]
     rw [Tr.forRange_dropRec _ (fun a r s => fillInner a r s) (g.neighbors v) 0 (fun j s _ => h1 j s)]
     simp [Tr.fillAll_eq_dropRec])

/-! ## `Cnf::interaction_graph` -/

theorem interactionGraph_tie : Gen.CnfOrd.interactionGraph = Orders.interactionGraph := by
  first
  | rfl
  | (funext cs n
     simp only [Gen.CnfOrd.interactionGraph, Orders.interactionGraph]
     have hnodes : forRange 0 n (fun v s1 => Gen.CnfOrd.interactionGraph_loop1 v s1)
         ({ nodes := [], edges := [] } : UnGraph) = ({ nodes := List.range n, edges := [] } : UnGraph) := by
       rw [Tr.forRange_zero]
       have : (fun (s : UnGraph) v => Gen.CnfOrd.interactionGraph_loop1 v s) = fun s v => UnGraph.addNode s v := by
         funext s v; first | rfl | simp [Gen.CnfOrd.interactionGraph_loop1]
       rw [this]; exact addNodes_range n
     have h4 : ∀ (c : Spec.Clause) i j s, Gen.CnfOrd.interactionGraph_loop4 c i j s
         = (fun (x : Spec.Lit) (s : UnGraph) =>
              if s.hasEdge (c.getD i default).var x.var then s else s.addEdge (c.getD i default).var x.var)
             (c.getD j default) s := by
       intro c i j s
       simp only [Gen.CnfOrd.interactionGraph_loop4]
       split <;> simp_all
     have h3 : ∀ (c : Spec.Clause) i s, Gen.CnfOrd.interactionGraph_loop3 c i s
         = igInner (c.getD i default).var (c.drop i) s := by
       intro c i s
       unfold Gen.CnfOrd.interactionGraph_loop3
       rw [Tr.forRange_drop_foldl _
         (fun (x : Spec.Lit) (s : UnGraph) =>
           if s.hasEdge (c.getD i default).var x.var then s else s.addEdge (c.getD i default).var x.var)
         c default (fun j s _ => h4 c i j s), Tr.igInner_eq_foldl]
     have h2 : ∀ (c : Spec.Clause) s, Gen.CnfOrd.interactionGraph_loop2 c s = igClause c s := by
       intro c s
       unfold Gen.CnfOrd.interactionGraph_loop2
       rw [Tr.forRange_dropRec _ (fun (x : Spec.Lit) r g => igInner x.var (x :: r) g) c default
         (fun j s hj => by
           show Gen.CnfOrd.interactionGraph_loop3 c j s = _
           rw [h3, List.drop_eq_getElem_cons hj, getD_eq_of_lt c j default hj])]
       simp [Tr.igClause_eq_dropRec]
     simp only [h2, hnodes])

/-! ## `Cnf::min_fill_order`, `linear_order` -/

theorem whileFuel_elimLoop (body : List Nat × UnGraph → List Nat × UnGraph)
    (hb : ∀ s, body s = (s.1 ++ [s.2.nodes.getD (minFillPick s.2) 0], Orders.eliminateNode s.2 (minFillPick s.2))) :
    ∀ (fuel : Nat) (g : UnGraph) (ord : List Nat),
      (Tr.whileFuel fuel (fun s => decide (s.2.nodes.length > 0)) body (ord, g)).1
        = elimLoop minFillPick (fun g v => fillAll (g.neighbors v) g) fuel g ord := by
  intro fuel
  induction fuel with
  | zero => intro g ord; rfl
  | succ n ih =>
    intro g ord
    simp only [Tr.whileFuel, elimLoop]
    by_cases h : g.nodes.length = 0
    · simp [h]
    · have h' : g.nodes.length > 0 := by omega
      simp only [h, h', decide_true, if_true, if_false, hb]
      exact ih _ _

theorem minFillOrder_tie : Gen.CnfOrd.minFillOrder = Orders.minFillOrder := by
  first
  | rfl
  | (funext cs n
     simp only [Gen.CnfOrd.minFillOrder, Orders.minFillOrder, minFillSeq, interactionGraph_tie]
     have hb : ∀ s, Gen.CnfOrd.minFillOrder_loop1 s
         = (s.1 ++ [s.2.nodes.getD (minFillPick s.2) 0], Orders.eliminateNode s.2 (minFillPick s.2)) := by
       intro s
       simp only [Gen.CnfOrd.minFillOrder_loop1, Tr.minBy_firstMinIdx, numFill_tie, eliminateNode_tie, minFillPick]
     rw [whileFuel_elimLoop _ hb])

theorem linearOrder_tie : Gen.CnfOrd.linearOrder = fun (_ : Spec.Cnf) (n : Nat) => Orders.linearOrder n := by
  first
  | rfl
  | (funext cs n; simp [Gen.CnfOrd.linearOrder, Orders.linearOrder]; done)

/-! ## FORCE: `average_span`, `center_of_gravity` -/

theorem averageSpan_tie : @Gen.CnfOrd.averageSpan
    = fun {K : Type} (ops : ForceOps K) (cs : Spec.Cnf) (_ : Nat) (l : List Nat) => Orders.averageSpan ops cs l := by
  first
  | rfl
  | (funext K ops cs n l
     simp only [Gen.CnfOrd.averageSpan, Orders.averageSpan, spanTotal]
     have h2 : ∀ (lit : Spec.Lit) (s : Nat × Nat), Gen.CnfOrd.averageSpan_loop2 l lit s
         = (min (l.getD lit.var 0) s.1, max (l.getD lit.var 0) s.2) := by
       intro lit s; first | rfl | simp [Gen.CnfOrd.averageSpan_loop2]
     have h1 : (fun s1 clause => Gen.CnfOrd.averageSpan_loop1 l clause s1)
         = fun total (c : Spec.Clause) =>
             total + (c.foldl (fun m l' => max (l.getD l'.var 0) m) 0 - c.foldl (fun m l' => min (l.getD l'.var 0) m) l.length) := by
       funext s1 c
       simp only [Gen.CnfOrd.averageSpan_loop1, h2]
       rw [minmax_foldl (fun lit => l.getD lit.var 0)]
     rw [h1])

theorem centerOfGravity_tie : @Gen.CnfOrd.centerOfGravity
    = fun {K : Type} (ops : ForceOps K) (_ : Spec.Cnf) (_ : Nat) (c : Spec.Clause) (l : List Nat) =>
        Orders.centerOfGravity ops c l := by
  first
  | rfl
  | (funext K ops cs n c l; simp [Gen.CnfOrd.centerOfGravity, Orders.centerOfGravity]; done)
  | (funext K ops cs n c l; simp [Gen.CnfOrd.centerOfGravity, Orders.centerOfGravity, Nat.add_comm]; done)
  | (funext K ops cs n c l; simp only [Gen.CnfOrd.centerOfGravity, Orders.centerOfGravity]
     congr 2; congr 1; funext acc lbl; omega)

/-! ## FORCE: `force_order` -/

theorem foldl_push_map {α β : Type} (f : α → β) (l : List α) (acc : List β) :
    l.foldl (fun s x => s ++ [f x]) acc = acc ++ l.map f := by
  induction l generalizing acc with
  | nil => simp
  | cons x xs ih => simp [ih]

theorem forRange_push_replicate {β : Type} (a : β) (n : Nat) :
    forRange 0 n (fun (_ : Nat) (s : List β) => s ++ [a]) [] = List.replicate n a := by
  rw [Tr.forRange_zero, foldl_push_map (fun _ => a)]
  induction n with
  | zero => rfl
  | succ n ih => rw [List.range_succ, List.map_append, ← List.nil_append (List.map _ _ ++ _)] at *; simp_all [List.replicate_succ']

theorem forEnum_newLoop_aux (p : List Nat) (k : Nat) (l : List Nat) :
    (p.zipIdx k).foldl (fun (s : List Nat) q => s.set q.1 q.2) l = newLoop p k l := by
  induction p generalizing k l with
  | nil => rfl
  | cons x xs ih => simp only [List.zipIdx_cons, List.foldl_cons, newLoop]; exact ih _ _

theorem forEnum_newLoop (p l : List Nat) :
    Tr.forEnum p l (fun idx lbl s => List.set s lbl idx) = newLoop p 0 l :=
  forEnum_newLoop_aux p 0 l

theorem forEnum_zip_map_aux {α β σ : Type} (f : α → β) (d : β) (F : α → β → σ → σ) (cs : List α) :
    ∀ (pre : List α) (s : σ),
      (cs.zipIdx pre.length).foldl (fun s p => F p.1 (((pre ++ cs).map f).getD p.2 d) s) s
        = (cs.zip (cs.map f)).foldl (fun s cg => F cg.1 cg.2 s) s := by
  induction cs with
  | nil => intro pre s; rfl
  | cons x xs ih =>
    intro pre s
    simp only [List.zipIdx_cons, List.foldl_cons, List.map_cons, List.zip_cons_cons]
    have hx : (List.map f (pre ++ x :: xs)).getD pre.length d = f x := by simp [List.getD]
    have h := ih (pre ++ [x]) (F x (f x) s)
    simp only [List.length_append, List.length_singleton, List.append_assoc, List.singleton_append] at h
    rw [hx]
    exact h

/-- `for (idx, c) in cs.enumerate() { s = F' idx c s }` where `F'` uses `idx` only to read `cog[idx]`,
`cog = cs.map f` -/
theorem forEnum_zip_map {α β σ : Type} (f : α → β) (d : β) (F : α → β → σ → σ) (F' : Nat → α → σ → σ) (cs : List α)
    (hF : ∀ idx c s, F' idx c s = F c ((cs.map f).getD idx d) s) (s : σ) :
    Tr.forEnum cs s F' = (cs.zip (cs.map f)).foldl (fun s cg => F cg.1 cg.2 s) s := by
  have : F' = fun idx c s => F c ((cs.map f).getD idx d) s := by funext idx c s; exact hF idx c s
  subst this
  exact forEnum_zip_map_aux f d F cs [] s

theorem loopFuel_forceLoop {K : Type} (ops : ForceOps K) (cs : Spec.Cnf) (n : Nat)
    (body : List Nat × K → List Nat × K) (exit : List Nat × K → Bool)
    (hb : ∀ s, body s = (forceStep ops cs n s.1, Orders.averageSpan ops cs (forceStep ops cs n s.1)))
    (he : ∀ s, exit s = ops.lt (ops.sub s.2 (Orders.averageSpan ops cs (forceStep ops cs n s.1))) ops.one) :
    ∀ (fuel : Nat) (l : List Nat) (k : K),
      (Tr.loopFuel fuel body exit (l, k)).map (fun r => r.1) = forceLoop ops cs n fuel l k := by
  intro fuel
  induction fuel with
  | zero => intro l k; rfl
  | succ m ih =>
    intro l k
    simp only [Tr.loopFuel, forceLoop, he, hb]
    split
    · rfl
    · exact ih _ _

theorem forceOrder_tie : @Gen.CnfOrd.forceOrder
    = fun {K : Type} (ops : ForceOps K) (cs : Spec.Cnf) (numVars : Nat) (fuel : Nat) =>
        Orders.forceOrder ops cs numVars fuel := by
  first
  | rfl
  | (funext K ops cs n fuel
     have hcog : ∀ (s1 : List Nat × K),
         List.foldl (fun s2 clause => Gen.CnfOrd.forceOrder_loop2 ops cs n s1 clause s2) [] cs
           = cs.map (fun c => Orders.centerOfGravity ops c s1.1) := by
       intro s1
       have : (fun s2 clause => Gen.CnfOrd.forceOrder_loop2 ops cs n s1 clause s2)
           = fun (s2 : List K) clause => s2 ++ [Orders.centerOfGravity ops clause s1.1] := by
         funext s2 clause; simp [Gen.CnfOrd.forceOrder_loop2, centerOfGravity_tie]
       rw [this, foldl_push_map]; rfl
     have h3 : forRange 0 n (fun i s => Gen.CnfOrd.forceOrder_loop3 ops i s) []
         = List.replicate n (ops.zero, 0) := by
       have : (fun i s => Gen.CnfOrd.forceOrder_loop3 ops i s)
           = fun (_ : Nat) (s : List (K × Nat)) => s ++ [(ops.zero, 0)] := by
         funext i s; first | rfl | simp [Gen.CnfOrd.forceOrder_loop3]
       rw [this, forRange_push_replicate]
     have hupd : ∀ (s1 : List Nat × K) (init : List (K × Nat)),
         Tr.forEnum cs init (fun idx clause s4 => Gen.CnfOrd.forceOrder_loop4 ops cs n s1 idx clause s4)
           = (cs.zip (cs.map fun c => Orders.centerOfGravity ops c s1.1)).foldl (fun upd (cg : Spec.Clause × K) =>
               cg.1.foldl (fun upd l =>
                 let (tot, cnt) := upd.getD l.var (ops.zero, 0)
                 upd.set l.var (ops.add tot cg.2, cnt + 1)) upd) init := by
       intro s1 init
       exact forEnum_zip_map (fun c => Orders.centerOfGravity ops c s1.1) ops.zero
         (fun (c : Spec.Clause) (g : K) (upd : List (K × Nat)) =>
           c.foldl (fun upd l =>
             let (tot, cnt) := upd.getD l.var (ops.zero, 0)
             upd.set l.var (ops.add tot g, cnt + 1)) upd)
         (fun idx clause s4 => Gen.CnfOrd.forceOrder_loop4 ops cs n s1 idx clause s4) cs
         (by
           intro idx c s
           simp only [Gen.CnfOrd.forceOrder_loop4, Gen.CnfOrd.forceOrder_loop5, hcog]
           first | done | rfl | congr 1) init
     have hb : ∀ s, Gen.CnfOrd.forceOrder_loop1 ops cs n s
         = (forceStep ops cs n s.1, Orders.averageSpan ops cs (forceStep ops cs n s.1)) := by
       intro s
       simp only [Gen.CnfOrd.forceOrder_loop1, Gen.CnfOrd.forceOrder_loop8, forEnum_newLoop, hupd, h3, averageSpan_tie,
         forceStep, positionsFrom, sortedLabels, avgCog, forceUpdate, List.range_eq_range', Nat.sub_zero,
         decide_eq_true_eq]
       first | done | rfl | simp
     have he : ∀ s, Gen.CnfOrd.forceOrder_loop1_exit ops cs n s
         = ops.lt (ops.sub s.2 (Orders.averageSpan ops cs (forceStep ops cs n s.1))) ops.one := by
       intro s
       simp only [Gen.CnfOrd.forceOrder_loop1_exit, Gen.CnfOrd.forceOrder_loop8, forEnum_newLoop, hupd, h3, averageSpan_tie,
         forceStep, positionsFrom, sortedLabels, avgCog, forceUpdate, List.range_eq_range', Nat.sub_zero,
         decide_eq_true_eq]
       first | done | rfl | simp
     simp only [Gen.CnfOrd.forceOrder, Orders.forceOrder, forceSeq, averageSpan_tie, Nat.sub_zero, List.map_id',
       ← List.range_eq_range']
     rw [← loopFuel_forceLoop ops cs n _ _ hb he]
     cases Tr.loopFuel fuel (fun s1 => Gen.CnfOrd.forceOrder_loop1 ops cs n s1)
       (fun s1 => Gen.CnfOrd.forceOrder_loop1_exit ops cs n s1)
       (List.range n, Orders.averageSpan ops cs (List.range n)) <;> simp)

end TieCnfOrd

#print axioms TieCnfOrd.numFill_tie
#print axioms TieCnfOrd.eliminateNode_tie
#print axioms TieCnfOrd.interactionGraph_tie
#print axioms TieCnfOrd.minFillOrder_tie
#print axioms TieCnfOrd.linearOrder_tie
#print axioms TieCnfOrd.averageSpan_tie
#print axioms TieCnfOrd.centerOfGravity_tie
#print axioms TieCnfOrd.forceOrder_tie
