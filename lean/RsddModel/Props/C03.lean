import RsddModel.Lemmas.SddSem
/-!
# C03 — SDD-builder operations compute the function they name

Property theorems only; the work is in `Lemmas/SddBasic` (evaluation, partitions, standard
triples, vtree facts) and `Lemmas/SddSem` (`and`, `canonicalize`/`compress`, `condition`, `ite`).

* `and_correct`, `condition_correct`, `ite_correct`, … : the single operations, for every lawful
  apply cache `A` and ite cache `I`, every vtree, compression on and off, every fuel;
* `step_correct` : one builder call refines one step of the Boolean-function specification,
  keeps the invariant, and only *appends* to the pool (earlier diagrams are untouched, hence keep
  denoting the same function);
* `run_correct`, `run_refines`, `run_stable` : any sequence of calls.

The vtree is arbitrary (every shape, every leaf labelling; labels need not even be distinct:
`var_index` of a repeated label is its first leaf, and nothing in the semantic argument needs
more).  `cfg.compress` is arbitrary.  `none` results (rejected calls, panics of the Rust, fuel)
are outside the statement: "every *returned* SDD evaluates …".
-/
namespace Sdd
open Spec

/-- the function a pointer denotes -/
def den (p : Ptr) : BoolFn := fun a => p.eval a

section
variable (A : CacheImpl (Ptr × Ptr)) (I : CacheImpl (Ptr × Ptr × Ptr)) (cfg : Config)

/-- builder invariant: both caches are semantically sound and hold well formed results, and
every diagram handed out so far is well formed (`WF`: labels in the vtree, decision primes
partition, right-linear labelling) -/
def Inv (st : St A I) : Prop :=
  AppInv A cfg.vt st.app ∧ IteInv I cfg.vt st.ite ∧ ∀ p ∈ st.pool, WF cfg.vt p

/-- the builder state refines the specification state: diagram `i` denotes function `i` -/
def Rel (st : St A I) (sp : List BoolFn) : Prop := sp = st.pool.map den

theorem inv_init : Inv A I cfg (St.init A I) :=
  ⟨appInv_empty A cfg.vt, iteInv_empty I cfg.vt, fun p hp => by simp [St.init] at hp⟩

theorem rel_init : Rel A I (St.init A I) [] := rfl

/-! ## the single operations -/

/-- **`and`** -/
theorem and_correct (fuel : Nat) {st st' : A.σ} {a b r : Ptr} (hst : AppInv A cfg.vt st)
    (wa : WF cfg.vt a) (wb : WF cfg.vt b) (h : and A cfg.vt cfg.compress fuel st a b = some (st', r)) :
    AppInv A cfg.vt st' ∧ WF cfg.vt r ∧ ∀ asg, r.eval asg = (a.eval asg && b.eval asg) :=
  and_ok A cfg.vt cfg.compress fuel _ _ _ _ _ hst wa wb h

/-- **`or`** (De Morgan default) -/
theorem or_correct (fuel : Nat) {st st' : A.σ} {a b r : Ptr} (hst : AppInv A cfg.vt st)
    (wa : WF cfg.vt a) (wb : WF cfg.vt b) (h : bOr A cfg fuel st a b = some (st', r)) :
    AppInv A cfg.vt st' ∧ WF cfg.vt r ∧ ∀ asg, r.eval asg = (a.eval asg || b.eval asg) :=
  bOr_ok A cfg fuel hst wa wb h

/-- **`condition`** -/
theorem condition_correct (fuel : Nat) {st st' : A.σ} {f r : Ptr} {x : Nat} {v : Bool}
    (hst : AppInv A cfg.vt st) (wf : WF cfg.vt f) (h : bCond A cfg fuel st f x v = some (st', r)) :
    AppInv A cfg.vt st' ∧ WF cfg.vt r ∧ den r = fCond (den f) x v := by
  obtain ⟨h1, h2, h3⟩ := bCond_ok A cfg fuel hst wf h
  exact ⟨h1, h2, funext h3⟩

/-- **`ite`** (standard triples are sound for every order predicate) -/
theorem ite_correct (fuel : Nat) {s s' : A.σ × I.σ} {f g h r : Ptr}
    (hA : AppInv A cfg.vt s.1) (hI : IteInv I cfg.vt s.2)
    (wf : WF cfg.vt f) (wg : WF cfg.vt g) (wh : WF cfg.vt h)
    (hr : bIte A I cfg fuel s f g h = some (s', r)) :
    AppInv A cfg.vt s'.1 ∧ IteInv I cfg.vt s'.2 ∧ WF cfg.vt r ∧
      den r = fIte (den f) (den g) (den h) := by
  obtain ⟨h1, h2, h3, h4⟩ := bIte_ok A I cfg fuel hA hI wf wg wh hr
  exact ⟨h1, h2, h3, funext h4⟩

/-- **`exists`** -/
theorem exists_correct (fuel : Nat) {st st' : A.σ} {f r : Ptr} {x : Nat}
    (hst : AppInv A cfg.vt st) (wf : WF cfg.vt f) (h : bExists A cfg fuel st f x = some (st', r)) :
    AppInv A cfg.vt st' ∧ WF cfg.vt r ∧ den r = fExists (den f) x := by
  obtain ⟨h1, h2, h3⟩ := bExists_ok A cfg fuel hst wf h
  exact ⟨h1, h2, funext h3⟩

/-- **`compose`** (trait default: `∃x. (x ⇔ g) ∧ f`) -/
theorem compose_correct (fuel : Nat) {s s' : A.σ × I.σ} {f g r : Ptr} {x : Nat}
    (hA : AppInv A cfg.vt s.1) (hI : IteInv I cfg.vt s.2) (hx : cfg.vt.hasVar x = true)
    (wf : WF cfg.vt f) (wg : WF cfg.vt g) (hr : bCompose A I cfg fuel s f x g = some (s', r)) :
    AppInv A cfg.vt s'.1 ∧ IteInv I cfg.vt s'.2 ∧ WF cfg.vt r ∧
      den r = fCompose (den f) x (den g) := by
  obtain ⟨h1, h2, h3, h4⟩ := bCompose_ok A I cfg fuel hA hI hx wf wg hr
  exact ⟨h1, h2, h3, funext h4⟩

/-! ## one step -/

/-- what one successful call achieves, against the canonical spec state of `st` -/
def StepOK (st st' : St A I) (op : Op) : Prop :=
  ∃ r, st'.pool = st.pool ++ [r] ∧
    specStep cfg.vt (st.pool.map den) op = some (st.pool.map den ++ [den r]) ∧ Inv A I cfg st'

variable {A I cfg}

theorem stepOK_mk {st : St A I} {op : Op} {a : A.σ} {i : I.σ} {r : Ptr}
    (ha : AppInv A cfg.vt a) (hi : IteInv I cfg.vt i) (wr : WF cfg.vt r)
    (hpool : ∀ p ∈ st.pool, WF cfg.vt p)
    (hspec : specStep cfg.vt (st.pool.map den) op = some (st.pool.map den ++ [den r])) :
    StepOK A I cfg st (st.push a i r) op := by
  refine ⟨r, rfl, hspec, ha, hi, ?_⟩
  intro p hp
  rcases List.mem_append.1 hp with h | h
  · exact hpool p h
  · simp only [List.mem_singleton] at h; subst h; exact wr

theorem step_core (fuel : Nat) (st st' : St A I) (op : Op) (hinv : Inv A I cfg st)
    (hstep : step A I cfg fuel st op = some st') : StepOK A I cfg st st' op := by
  obtain ⟨hA, hI, hpool⟩ := hinv
  have wfAt : ∀ {i p}, st.pool[i]? = some p → WF cfg.vt p :=
    fun h => hpool _ (List.mem_of_getElem? h)
  cases op with
  | const b =>
    simp only [step, Option.some.injEq] at hstep; subst hstep
    refine stepOK_mk hA hI ?_ hpool ?_
    · cases b
      · exact WF_fls _
      · exact WF_tru _
    · cases b
      · have e : den Ptr.fls = fFalse := funext fun a => by simp [den, fFalse]
        simp [specStep, e]
      · have e : den Ptr.tru = fTrue := funext fun a => by simp [den, fTrue]
        simp [specStep, e]
  | var x pol =>
    simp only [step] at hstep
    split at hstep
    · rename_i hx
      simp only [Option.some.injEq] at hstep; subst hstep
      refine stepOK_mk hA hI (by simpa [WF] using hx) hpool ?_
      simp only [specStep, hx, if_true]
      rw [show den (Ptr.lit x pol) = fVar x pol from funext fun a => by simp [den, fVar, eval_lit]]
    · cases hstep
  | neg i =>
    simp only [step, Option.map_eq_some_iff] at hstep
    obtain ⟨p, hp, rfl⟩ := hstep
    refine stepOK_mk hA hI (WF_neg (wfAt hp)) hpool ?_
    simp only [specStep, List.getElem?_map, hp, Option.map_some]
    rw [show den p.neg = fNot (den p) from funext fun a => by simp [den, fNot]]
  | and i j =>
    simp only [step] at hstep
    split at hstep
    · rename_i p q hp hq
      simp only [Option.map_eq_some_iff] at hstep
      obtain ⟨⟨s, r⟩, hrun, rfl⟩ := hstep
      obtain ⟨hs', wr, er⟩ := bAnd_ok A cfg fuel _ _ _ _ _ hA (wfAt hp) (wfAt hq) hrun
      refine stepOK_mk hs' hI wr hpool ?_
      simp only [specStep, List.getElem?_map, hp, hq, Option.map_some]
      rw [show den r = fAnd (den p) (den q) from funext fun a => by simp [den, fAnd, er]]
    · cases hstep
  | or i j =>
    simp only [step] at hstep
    split at hstep
    · rename_i p q hp hq
      simp only [Option.map_eq_some_iff] at hstep
      obtain ⟨⟨s, r⟩, hrun, rfl⟩ := hstep
      obtain ⟨hs', wr, er⟩ := bOr_ok A cfg fuel hA (wfAt hp) (wfAt hq) hrun
      refine stepOK_mk hs' hI wr hpool ?_
      simp only [specStep, List.getElem?_map, hp, hq, Option.map_some]
      rw [show den r = fOr (den p) (den q) from funext fun a => by simp [den, fOr, er]]
    · cases hstep
  | xor i j =>
    simp only [step] at hstep
    split at hstep
    · rename_i p q hp hq
      simp only [Option.map_eq_some_iff] at hstep
      obtain ⟨⟨s, r⟩, hrun, rfl⟩ := hstep
      obtain ⟨hs', hi', wr, er⟩ := bXor_ok A I cfg fuel (s := (st.app, st.ite)) hA hI (wfAt hp) (wfAt hq) hrun
      refine stepOK_mk hs' hi' wr hpool ?_
      simp only [specStep, List.getElem?_map, hp, hq, Option.map_some]
      rw [show den r = fXor (den p) (den q) from funext fun a => by simp [den, fXor, er]]
    · cases hstep
  | iff i j =>
    simp only [step] at hstep
    split at hstep
    · rename_i p q hp hq
      simp only [Option.map_eq_some_iff] at hstep
      obtain ⟨⟨s, r⟩, hrun, rfl⟩ := hstep
      obtain ⟨hs', hi', wr, er⟩ := bIff_ok A I cfg fuel (s := (st.app, st.ite)) hA hI (wfAt hp) (wfAt hq) hrun
      refine stepOK_mk hs' hi' wr hpool ?_
      simp only [specStep, List.getElem?_map, hp, hq, Option.map_some]
      rw [show den r = fIff (den p) (den q) from funext fun a => by simp [den, fIff, er]]
    · cases hstep
  | ite i j k =>
    simp only [step] at hstep
    split at hstep
    · rename_i p q r0 hp hq hr0
      simp only [Option.map_eq_some_iff] at hstep
      obtain ⟨⟨s, r⟩, hrun, rfl⟩ := hstep
      obtain ⟨hs', hi', wr, er⟩ := bIte_ok A I cfg fuel (s := (st.app, st.ite)) hA hI (wfAt hp) (wfAt hq) (wfAt hr0) hrun
      refine stepOK_mk hs' hi' wr hpool ?_
      simp only [specStep, List.getElem?_map, hp, hq, hr0, Option.map_some]
      rw [show den r = fIte (den p) (den q) (den r0) from funext fun a => by simp [den, fIte, er]]
    · cases hstep
  | cond i x b =>
    simp only [step] at hstep
    split at hstep
    · rename_i p hp
      simp only [Option.map_eq_some_iff] at hstep
      obtain ⟨⟨s, r⟩, hrun, rfl⟩ := hstep
      obtain ⟨hs', wr, er⟩ := bCond_ok A cfg fuel hA (wfAt hp) hrun
      refine stepOK_mk hs' hI wr hpool ?_
      simp only [specStep, List.getElem?_map, hp, Option.map_some]
      rw [show den r = fCond (den p) x b from funext fun a => by simp [den, fCond, er]]
    · cases hstep
  | exist i x =>
    simp only [step] at hstep
    split at hstep
    · rename_i p hp
      simp only [Option.map_eq_some_iff] at hstep
      obtain ⟨⟨s, r⟩, hrun, rfl⟩ := hstep
      obtain ⟨hs', wr, er⟩ := bExists_ok A cfg fuel hA (wfAt hp) hrun
      refine stepOK_mk hs' hI wr hpool ?_
      simp only [specStep, List.getElem?_map, hp, Option.map_some]
      rw [show den r = fExists (den p) x from funext fun a => by simp [den, fExists, er]]
    · cases hstep
  | compose i x j =>
    simp only [step] at hstep
    split at hstep
    · rename_i hx
      split at hstep
      · rename_i p q hp hq
        simp only [Option.map_eq_some_iff] at hstep
        obtain ⟨⟨s, r⟩, hrun, rfl⟩ := hstep
        obtain ⟨hs', hi', wr, er⟩ := bCompose_ok A I cfg fuel (s := (st.app, st.ite)) hA hI hx (wfAt hp) (wfAt hq) hrun
        refine stepOK_mk hs' hi' wr hpool ?_
        simp only [specStep, hx, if_true, List.getElem?_map, hp, hq, Option.map_some]
        rw [show den r = fCompose (den p) x (den q) from funext fun a => by rw [den, er]; rfl]
      · cases hstep
    · cases hstep

/-- **C03, one call.**  For every lawful apply cache `A` and ite cache `I`, every vtree, both
compression settings and every fuel: if the builder state satisfies the invariant and refines the
specification state `sp`, then a successful call `op` is also accepted by the specification, the
new states are again related, the invariant is kept, and the pool only grows by one entry at the
end — old entries are untouched ("keeps doing so after any later operations"). -/
theorem step_correct (fuel : Nat) (st st' : St A I) (sp : List BoolFn) (op : Op)
    (hinv : Inv A I cfg st) (hrel : Rel A I st sp) (hstep : step A I cfg fuel st op = some st') :
    ∃ sp', specStep cfg.vt sp op = some sp' ∧ Rel A I st' sp' ∧ Inv A I cfg st' ∧
      ∃ r, st'.pool = st.pool ++ [r] := by
  obtain ⟨r, hpool, hspec, hinv'⟩ := step_core fuel st st' op hinv hstep
  rw [hrel]
  refine ⟨_, hspec, ?_, hinv', r, hpool⟩
  simp only [Rel, hpool, List.map_append, List.map_cons, List.map_nil]

/-- **C03, any sequence of calls**, from any state satisfying the invariant -/
theorem run_correct (fuel : Nat) : ∀ (ops : List Op) (st st' : St A I) (sp : List BoolFn),
    Inv A I cfg st → Rel A I st sp → runFrom A I cfg fuel st ops = some st' →
    ∃ sp', specRun cfg.vt sp ops = some sp' ∧ Rel A I st' sp' ∧ Inv A I cfg st' ∧
      ∃ rs, st'.pool = st.pool ++ rs
  | [], st, st', sp, hinv, hrel, hrun => by
    simp only [runFrom, Option.some.injEq] at hrun; subst hrun
    exact ⟨sp, rfl, hrel, hinv, [], by simp⟩
  | op :: ops, st, st', sp, hinv, hrel, hrun => by
    simp only [runFrom] at hrun
    split at hrun
    · cases hrun
    · rename_i st1 h1
      obtain ⟨sp1, hsp1, hrel1, hinv1, r, hr⟩ := step_correct fuel st st1 sp op hinv hrel h1
      obtain ⟨sp', hsp', hrel', hinv', rs, hrs⟩ := run_correct fuel ops st1 st' sp1 hinv1 hrel1 hrun
      refine ⟨sp', by simp only [specRun, hsp1, hsp'], hrel', hinv', r :: rs, ?_⟩
      rw [hrs, hr, List.append_assoc]; rfl

variable (A I cfg)

/-- **C03, refinement from the fresh builder**: every successful run of the builder is a
successful run of the specification, diagram `i` of the final pool denotes Boolean function `i`
of the specification's pool, and the invariant holds at the end.  For every lawful cache pair,
every vtree, compression on or off, every fuel, every program. -/
theorem run_refines (fuel : Nat) (ops : List Op) (st : St A I)
    (hrun : runFrom A I cfg fuel (St.init A I) ops = some st) :
    ∃ sp, specRun cfg.vt [] ops = some sp ∧ sp = st.pool.map den ∧ Inv A I cfg st := by
  obtain ⟨sp, h1, h2, h3, _⟩ :=
    run_correct fuel ops (St.init A I) st [] (inv_init A I cfg) (rel_init A I) hrun
  exact ⟨sp, h1, h2, h3⟩

/-- history stability, spelled out: a diagram obtained after a prefix `ops₁` is still entry `i`
of the pool after any continuation `ops₂`, and denotes entry `i` of the specification pool -/
theorem run_stable (fuel : Nat) (ops₁ ops₂ : List Op) (st₁ st₂ : St A I)
    (h1 : runFrom A I cfg fuel (St.init A I) ops₁ = some st₁)
    (h2 : runFrom A I cfg fuel st₁ ops₂ = some st₂) :
    ∃ sp₁, specRun cfg.vt [] ops₁ = some sp₁ ∧
      ∀ i (hi : i < st₁.pool.length), ∃ (hi2 : i < st₂.pool.length) (hi3 : i < sp₁.length),
        st₂.pool[i] = st₁.pool[i] ∧ den st₂.pool[i] = sp₁[i] := by
  obtain ⟨sp₁, hs1, hrel1, hinv1⟩ := run_refines A I cfg fuel ops₁ st₁ h1
  obtain ⟨_, _, _, _, rs, hrs⟩ := run_correct fuel ops₂ st₁ st₂ sp₁ hinv1 hrel1 h2
  refine ⟨sp₁, hs1, ?_⟩
  intro i hi
  have hi2 : i < st₂.pool.length := by rw [hrs, List.length_append]; omega
  have hi3 : i < sp₁.length := by rw [hrel1, List.length_map]; exact hi
  have e : st₂.pool[i] = st₁.pool[i] := by
    simp only [hrs]; exact List.getElem_append_left hi
  refine ⟨hi2, hi3, e, ?_⟩
  rw [e]; simp only [hrel1, List.getElem_map]

/-- the top-level `Sdd.run` of the driver (list-backed caches): every returned pool is, entry by
entry, the pool of the specification -/
theorem run_sound (fuel : Nat) (ops : List Op) (pool : List Ptr) (h : run cfg fuel ops = some pool) :
    specRun cfg.vt [] ops = some (pool.map den) ∧ ∀ p ∈ pool, WF cfg.vt p := by
  simp only [run, Option.map_eq_some_iff] at h
  obtain ⟨st, hst, rfl⟩ := h
  obtain ⟨sp, h1, h2, h3⟩ := run_refines _ _ cfg fuel ops st hst
  exact ⟨by rw [h1, h2], h3.2.2⟩

end

/-! ## non-vacuity: the hypotheses `run … = some pool` are met by real programs -/
section demo
open Ptr

/-- right-linear vtree `(0 (1 2))` and balanced vtree `((0 1) (2 3))` -/
def vtR : VTree := .rightLinear [0, 1, 2]
def vtB : VTree := .evenSplit [0, 1, 2, 3] 1

/-- a program over three variables that exercises every operation of the language -/
def progR : List Op := [.var 0 true, .var 1 true, .var 2 false, .and 0 1, .or 3 2, .exist 4 1,
  .compose 4 0 2, .cond 4 2 true, .xor 0 1, .iff 8 8, .ite 0 1 2, .neg 3, .const false]

/-- the pool it produces on the right-linear vtree (all nodes binary) -/
def poolR : List Ptr :=
  [lit 0 true, lit 1 true, lit 2 false,
   bdd false 0 1 fls (lit 1 true),                                               -- x0 ∧ x1
   bdd false 0 1 (lit 2 false) (bdd false 1 3 (lit 2 false) tru),                -- (x0 ∧ x1) ∨ ¬x2
   bdd false 0 1 (lit 2 false) tru,                                              -- ∃x1. #4
   lit 2 false,                                                                  -- #4[x0 := ¬x2]
   bdd false 0 1 fls (lit 1 true),                                               -- #4 | x2
   bdd true 0 1 (lit 1 false) (lit 1 true),                                      -- x0 ⊕ x1
   tru,                                                                          -- #8 ⇔ #8
   bdd false 0 1 (lit 2 false) (lit 1 true),                                     -- ite x0 x1 ¬x2
   bdd true 0 1 fls (lit 1 true),                                                -- ¬(x0 ∧ x1)
   fls]

example : run ⟨vtR, true⟩ 20 progR = some poolR := by decide +kernel
example : run ⟨vtR, false⟩ 20 progR = some poolR := by decide +kernel

/-- a program over four variables on the balanced vtree: decision nodes with several elements,
`and_cartesian`, `and_sub_desc`, `and_prime_desc`, `and_indep`, compression -/
def progB : List Op := [.var 0 true, .var 1 true, .var 2 true, .var 3 false, .and 0 2, .or 4 1,
  .iff 0 3, .and 5 6, .exist 7 2, .cond 7 3 true, .xor 5 6, .ite 4 5 6, .compose 7 1 6]

/-- `(x0 ∧ x2) ∨ x1` with compression: three elements, the two primes with sub `⊤` merged -/
example : (run ⟨vtB, true⟩ 20 progB).map (fun pool => (pool.length, pool[5]?)) =
    some (13, some (dec false 3
      [(bdd true 0 1 tru (lit 1 true), lit 2 true),
       (bdd true 0 1 (lit 1 true) tru, fls),
       (lit 1 true, tru)])) := by decide +kernel

/-- the same call without compression keeps four elements (the printed primes are pairwise
exclusive and exhaustive but two subs coincide) -/
example : (run ⟨vtB, false⟩ 20 progB).map (fun pool => (pool.length, (pool[5]?).map
    fun p => match p with | dec _ _ es => es.length | _ => 0)) = some (13, some 4) := by
  decide +kernel

/-- executable instance of the refinement, both settings: the truth table of every returned
diagram is the truth table of the specified function -/
example : (run ⟨vtB, true⟩ 20 progB).map (fun pool => pool.map fun p => truthTable 4 (den p)) =
    (specRun vtB [] progB).map (fun fs => fs.map (truthTable 4)) := by decide +kernel
example : (run ⟨vtB, false⟩ 20 progB).map (fun pool => pool.map fun p => truthTable 4 (den p)) =
    (specRun vtB [] progB).map (fun fs => fs.map (truthTable 4)) := by decide +kernel

/-- rejected calls return `none`: label outside the vtree, index outside the pool, no fuel -/
example : run ⟨vtR, true⟩ 20 [.var 3 true] = none := by decide
example : run ⟨vtR, true⟩ 20 [.var 0 true, .and 0 1] = none := by decide
example : run ⟨vtR, true⟩ 0 [.var 0 true, .var 1 true, .and 0 1] = none := by decide

/-- hence (instance of `run_sound`) the specification accepts `progB` and the pools agree entry
by entry as *functions*, with every returned diagram well formed -/
example : ∃ pool, run ⟨vtB, true⟩ 20 progB = some pool ∧
    specRun vtB [] progB = some (pool.map den) ∧ ∀ p ∈ pool, WF vtB p := by
  cases h : run ⟨vtB, true⟩ 20 progB with
  | none => exact absurd h (by decide +kernel)
  | some pool => exact ⟨pool, rfl, run_sound ⟨vtB, true⟩ 20 progB pool h⟩

end demo

#print axioms and_correct
#print axioms or_correct
#print axioms condition_correct
#print axioms ite_correct
#print axioms exists_correct
#print axioms compose_correct
#print axioms step_correct
#print axioms run_correct
#print axioms run_refines
#print axioms run_stable
#print axioms run_sound
end Sdd
