import RsddModel.Lemmas.RobinHood
/-!
# C02 (table part): the robin-hood unique table is a find-or-insert set

Model: `RsddModel/Model/RobinHood.lean` (mirror of `src/backing_store/bump_table.rs`, current =
repaired `grow`; `growOrig` = pinned `grow`).  Proofs: `RsddModel/Lemmas/RobinHood.lean`.

Hypotheses of every positive theorem, and nothing else:
* `lf.Valid`: `LOAD_FACTOR = num/den` with `0 < den`, `num ≤ den` (true for `7/10`,
  `LoadFactor.valid_default`);
* `0 < cap` for the initial capacity (`DEFAULT_SIZE = 131072` or the hook value);
* hash-function consistency: every call for key `k` passes `hashOf k` for one fixed function
  `hashOf` (this is what `get_or_insert` does, with `FxHasher`); `hashOf` is arbitrary —
  collisions are allowed;
* psl is a natural number.  The theorems are unconditional for this model; the `u8` code agrees
  with it on every history whose tables satisfy `RH.PslBound` (all stored psl ≤ 255), which is
  automatic while `cap ≤ 256` (`RH.RHInv.psl_lt_cap`) and is hypothesis H-psl otherwise.
* fuel: `RH.getOrInsert_fuel` — under the invariant no loop of the model runs out of fuel.
-/
namespace C02Table
open RH

/-- **The table refines a find-or-insert set.**  After any history `ks` of `get_or_insert` calls
on a fresh table (any number of growths), a call for `k` is a hit iff `k` was asked for before;
the returned arena index holds `k`; a hit changes nothing in the arena, a miss appends exactly
`k`; the arena only ever grows at the end (indices are stable); the key set is `ks ∪ {k}`. -/
theorem table_refines_set (hashOf : Nat → Nat) {lf : LoadFactor} (hlf : lf.Valid) {cap : Nat}
    (hc : 0 < cap) (ks : List Nat) (k : Nat) {t' : Tbl} {i : Nat} {found : Bool}
    (e : getOrInsert lf (run lf hashOf (mk cap) ks) (hashOf k) k = (t', i, found)) :
    (found = true ↔ k ∈ ks) ∧
    t'.keys[i]? = some k ∧
    (found = true → t'.keys = (run lf hashOf (mk cap) ks).keys) ∧
    (found = false → t'.keys = (run lf hashOf (mk cap) ks).keys ++ [k] ∧
      i = (run lf hashOf (mk cap) ks).keys.length) ∧
    (run lf hashOf (mk cap) ks).keys <+: t'.keys ∧
    (∀ k', k' ∈ t'.keys ↔ k' ∈ ks ∨ k' = k) ∧
    RHInv hashOf t' := by
  obtain ⟨r1, _, r3⟩ := run_spec hlf ks (RHInv.new hashOf hc)
  obtain ⟨h1, sp⟩ := getOrInsert_spec hlf r1 (extra := 0) e
  have hmem : ∀ k', k' ∈ (run lf hashOf (mk cap) ks).keys ↔ k' ∈ ks := by
    intro k'; rw [r3]; simp [mk]
  refine ⟨by rw [sp.found_iff, hmem], sp.index, fun hf => (sp.hit_keys hf).1, sp.miss_keys,
    sp.prefix_keys, fun k' => ?_, h1⟩
  have := mem_step hlf r1 k k'
  rw [show step lf hashOf (run lf hashOf (mk cap) ks) k = t' by simp [step, e]] at this
  rw [this, hmem]

/-- **No duplicates, ever.**  After any history the arena holds pairwise distinct keys, exactly
the keys asked for, and `len` counts them. -/
theorem table_no_duplicates (hashOf : Nat → Nat) {lf : LoadFactor} (hlf : lf.Valid) {cap : Nat}
    (hc : 0 < cap) (ks : List Nat) :
    (run lf hashOf (mk cap) ks).keys.Nodup ∧
    (∀ k, k ∈ (run lf hashOf (mk cap) ks).keys ↔ k ∈ ks) ∧
    (run lf hashOf (mk cap) ks).len = (run lf hashOf (mk cap) ks).keys.length := by
  obtain ⟨r1, _, r3⟩ := run_spec hlf ks (RHInv.new hashOf hc)
  exact ⟨r1.nodup, fun k => by rw [r3]; simp [mk], r1.len_eq⟩

/-- **Indices are stable.**  The index returned for `k` at any point of a history is returned
again, as a hit, by every later call for `k`, whatever happened in between (including growths). -/
theorem table_index_stable (hashOf : Nat → Nat) {lf : LoadFactor} (hlf : lf.Valid) {cap : Nat}
    (hc : 0 < cap) (ks₁ ks₂ : List Nat) (k : Nat) {t₁ : Tbl} {i : Nat} {b : Bool}
    (e : getOrInsert lf (run lf hashOf (mk cap) ks₁) (hashOf k) k = (t₁, i, b)) :
    (getOrInsert lf (run lf hashOf t₁ ks₂) (hashOf k) k).2 = (i, true) :=
  index_stable hlf (run_spec hlf ks₁ (RHInv.new hashOf hc)).1 e ks₂

/-! ## non-vacuity: a concrete history with collisions, a wrap-around, a displacement and two
growths (4 → 8 → 16) -/

/-- hashes of the keys `0..7`; homes collide modulo 4, 8 and 16 -/
def exHash (k : Nat) : Nat := [7, 3, 15, 2, 3, 10, 19, 31].getD k 0

example : (run {} exHash (mk 4) [0, 1, 2, 3, 4, 5, 6, 7]).cap = 16 := by decide
example : (run {} exHash (mk 4) [0, 1]).cap = 4 ∧ (run {} exHash (mk 4) [0, 1, 2]).cap = 8 ∧
    (run {} exHash (mk 4) [0, 1, 2, 3, 4]).cap = 8 ∧
    (run {} exHash (mk 4) [0, 1, 2, 3, 4, 5]).cap = 16 := by decide
-- wrap-around: key 1 (hash 3) lands in slot 0 of the 4-slot table
example : dump (run {} exHash (mk 4) [0, 1]) =
    (4, 2, [(some 1, 3, 1), (none, 0, 0), (none, 0, 0), (some 0, 7, 0)]) := by decide
example : (run {} exHash (mk 4) [0, 1, 2, 3, 4, 5, 6, 7]).keys = [0, 1, 2, 3, 4, 5, 6, 7] := by
  decide
-- every key is found again at the index it got, nothing is allocated twice
example : ([0, 1, 2, 3, 4, 5, 6, 7].map fun k =>
      (getOrInsert {} (run {} exHash (mk 4) [0, 1, 2, 3, 4, 5, 6, 7]) (exHash k) k).2) =
    [(0, true), (1, true), (2, true), (3, true), (4, true), (5, true), (6, true), (7, true)] := by
  decide
-- repeated requests in the history do not allocate
set_option maxRecDepth 8192 in
example : (run {} exHash (mk 4) [0, 1, 0, 2, 1, 3, 4, 4, 5, 0, 6, 7, 2]).keys =
    [0, 1, 2, 3, 4, 5, 6, 7] := by decide
-- the u8 side condition holds on this history
example : PslBound (run {} exHash (mk 4) [0, 1, 2, 3, 4, 5, 6, 7]) := by decide

/-! ## the pinned `grow` breaks the property -/

/-- the history driven through the pinned code (`growOrig`) -/
def runOrig (lf : LoadFactor) (hashOf : Nat → Nat) (t : Tbl) (ks : List Nat) : Tbl :=
  ks.foldl (fun t k => (getOrInsertOrig lf t (hashOf k) k).1) t

/-- hashes 1, 0, 2 for the keys 0, 1, 2 -/
def badHash (k : Nat) : Nat := [1, 0, 2].getD k 0

/-- **Negative theorem.**  With the pinned `grow` (every old slot re-propagated, unoccupied ones
included) there is a history after which a previously inserted key is no longer found and a
second copy of it is allocated.  Minimal witness: capacity 4, keys with hashes 1, 0, 2; the third
insertion grows the table to 8 and the unoccupied element re-propagated from slot 0 is swapped
into the cluster, orphaning the key homed at slot 1. -/
theorem growOrig_orphans :
    ∃ (hashOf : Nat → Nat) (cap : Nat) (ks : List Nat) (k : Nat), 0 < cap ∧ k ∈ ks ∧
      (getOrInsertOrig {} (runOrig {} hashOf (mk cap) ks) (hashOf k) k).2.2 = false ∧
      ¬ (getOrInsertOrig {} (runOrig {} hashOf (mk cap) ks) (hashOf k) k).1.keys.Nodup :=
  ⟨badHash, 4, [0, 1, 2], 0, by decide, by decide, by decide, by decide⟩

-- the slot array after the bad growth: key 0 (hash 1) sits at slot 2 behind a hole at slot 1
example : dump (runOrig {} badHash (mk 4) [0, 1, 2]) =
    (8, 3, [(some 1, 0, 0), (none, 0, 1), (some 0, 1, 1), (some 2, 2, 1),
            (none, 0, 0), (none, 0, 0), (none, 0, 0), (none, 0, 0)]) := by decide
-- the same history through the repaired code is fine
example : (getOrInsert {} (run {} badHash (mk 4) [0, 1, 2]) (badHash 0) 0).2 = (0, true) := by
  decide

end C02Table

#print axioms C02Table.table_refines_set
#print axioms C02Table.table_no_duplicates
#print axioms C02Table.table_index_stable
#print axioms C02Table.growOrig_orphans
#print axioms RH.getOrInsert_spec
#print axioms RH.grow_preserves
#print axioms RH.run_spec
#print axioms RH.index_stable
#print axioms RH.getOrInsert_fuel
#print axioms RH.RHInv.path
#print axioms RH.RHInv.psl_lt_cap
#print axioms RH.getByHash_spec
#print axioms RH.RHInv.pslBound
