import RsddModel.Lemmas.Wmc
/-!
# C11 (first claims, BDD part) — the semantic hash is a function of the denoted function

"The semantic hash of a diagram is determined by the Boolean function it denotes: diagrams of
the same function, of any order or construction history, hash equally; a negation hashes to
one minus the hash."

The semantic hash of a BDD is its `wmc` in a finite field with weights `lo + hi = 1`
(`BddPtr::semantic_hash` = `unsmoothed_wmc` over `FiniteField<P>` with a
`WmcParams` map generated so that `low + high = 1`).  The statements are for every operations
record satisfying the commutative-semiring laws, hence for the field.  Diagrams are *free*
(`Ptr.free`, no variable tested twice on a path: every ROBDD of every order and every
decision-DNNF); the two diagrams of `same_function_same_hash` may be ordered differently,
reduced or not, with complement edges anywhere.
-/
namespace C11Bdd
open Spec Bdd
variable {α : Type} {S : SROps α}

/-- Clause 1: two free diagrams that denote the same Boolean function hash equally, whatever
their orders and shapes (weights normalised on the variables they mention). -/
theorem same_function_same_hash (hS : S.Laws) (w : Weights α) {p q : Ptr} (hp : p.free) (hq : q.free)
    (hw : ∀ v, v ∈ p.vars ∨ v ∈ q.vars → S.add (w v).1 (w v).2 = S.one)
    (heq : ∀ a, p.eval a = q.eval a) : wmc S w p = wmc S w q :=
  hash_denotational hS w hp hq hw heq

/-- Clause 1, explicit form: the hash *is* the weighted sum of the denoted function over any
duplicate-free variable list covering the diagram — an expression in which the diagram occurs
only through `p.eval`. -/
theorem hash_is_denotational (hS : S.Laws) (w : Weights α) {p : Ptr} (hf : p.free) {vars : List Nat}
    (hnd : vars.Nodup) (hsub : ∀ v ∈ p.vars, v ∈ vars) (hw : Normalised S w vars) (a : Assign) :
    wmc S w p = wsum S vars w p.eval a := wmc_free hS w hf hnd hsub hw a

/-- Clause 2: hash + hash of the negation = one (every diagram, free or not). -/
theorem neg_hash_add (hS : S.Laws) (w : Weights α) (p : Ptr)
    (hw : ∀ v ∈ p.vars, S.add (w v).1 (w v).2 = S.one) :
    S.add (wmc S w p) (wmc S w p.neg) = S.one := hash_neg hS w p hw

/-- Clause 2 with the field's subtraction (any `sub` that cancels addition):
a negation hashes to one minus the hash. -/
theorem neg_hash (hS : S.Laws) (sub : α → α → α) (hsub : ∀ x y, sub (S.add x y) x = y)
    (w : Weights α) (p : Ptr) (hw : ∀ v ∈ p.vars, S.add (w v).1 (w v).2 = S.one) :
    wmc S w p.neg = sub S.one (wmc S w p) := hash_neg_sub hS sub hsub w p hw

/-! ## non-vacuity: the field with 5 elements -/

def f5 : SROps (Fin 5) := ⟨0, 1, (· + ·), (· * ·)⟩
theorem f5_laws : f5.Laws where
  add_assoc := by decide
  add_comm := by decide
  add_zero := by decide
  mul_assoc := by decide
  mul_comm := by decide
  mul_one := by decide
  mul_zero := by decide
  left_distrib := by decide

/-- `lo + hi = 1 (mod 5)` on every variable -/
def exW : Weights (Fin 5) := fun v => if v = 0 then (2, 4) else (3, 3)

/-- `x0 ∧ x1` under the order `0 < 1` … -/
def exP : Ptr := .node false 0 .fls (.node false 1 .fls .tru)
/-- … and under the order `1 < 0`, built through De Morgan with complement edges -/
def exQ : Ptr := .node true 1 .tru (.node true 0 .fls .tru)

theorem exPQ (a : Assign) : exP.eval a = exQ.eval a := by
  simp only [exP, exQ, Ptr.eval]; cases a 0 <;> cases a 1 <;> rfl

example : wmc f5 exW exP = wmc f5 exW exQ :=
  same_function_same_hash f5_laws exW (by decide) (by decide)
    (by intro v _; simp only [exW]; split <;> decide) exPQ

example : wmc f5 exW exP = 2 ∧ wmc f5 exW exQ = 2 ∧ wmc f5 exW exP.neg = 4 ∧
    wmc f5 exW exP.neg = 1 - wmc f5 exW exP := by decide

example : wmc f5 exW exP.neg = 1 - wmc f5 exW exP :=
  neg_hash f5_laws (· - ·) (by decide) exW exP (by intro v _; simp only [exW]; split <;> decide)

end C11Bdd

#print axioms C11Bdd.same_function_same_hash
#print axioms C11Bdd.hash_is_denotational
#print axioms C11Bdd.neg_hash_add
#print axioms C11Bdd.neg_hash
