import RsddModel.Lemmas.UnitPropSolver
import RsddModel.Lemmas.UnitPropTotal
/-!
# C09 — unit propagation and the SAT-state stack (`src/repr/unit_prop.rs`)

Model: `RsddModel/Model/UnitProp.lean` (differentially tested against the real `SATSolver`,
including the watch lists). Quantifier: every clause list × every history of `decide`/`pop`
(`Reach`), any depth, any order, any polarity.

Fuel: the recursive propagator runs on explicit fuel and the theorems are stated as "if the call
returns …"; `new_total` and `history_decide_total` show that with the fuel `Solver.new` installs
the calls always return (on clause lists in `Cnf::new` normal form), so nothing is vacuous.

Summary of what is proved here (all about the mirrored model):

* `decide_sound`, `new_sound`, `history_sound` — every assigned variable is entailed.
* `unsat_sound`, `new_unsat_sound`, `history_unsat_sound` — UNSAT only if no model extends.
* `fixpoint`, `history_fixpoint`, `history_fixpoint_cnfNew` — no clause falsified or unit when
  UNSAT is not reported. For clause lists in `Cnf::new` normal form (`CnfNormal`), which is what
  `Cnf::new` produces (`cnfNew_normal`), including `x ∨ ¬x ∨ x`.
* `pop_restores` — stack discipline; the watch lists are *not* restored (`pop_keeps_watches`).
* `satflag_exact`, `decide_result_sat_iff`.
* `hash_formula`, `hash_path_independent`, and the conditional `hash_injective_partial`.
* `decideOrig_misses_unit` — the unrepaired watch replacement (finding F4) misses a unit.
-/
namespace UnitProp
open Spec

/-! ## histories -/

/-- `Reach cnf s ds`: `s` is reached from `SATSolver::new(cnf)` by some history of decides and
pops whose currently open decisions are `ds` (newest first). Pops are only those matching a
decision; a `decide` that reports UNSAT pushes nothing. Decided variables are in range (the Rust
code panics otherwise). -/
inductive Reach (cnf : Cnf) : Solver → List Lit → Prop
  | init {s} : Solver.new cnf = some (some s) → Reach cnf s []
  | decide {s s' ds l r} : Reach cnf s ds → l.var < s.numVars → s.decide l = .ok s' r →
      r ≠ .unsat → Reach cnf s' (l :: ds)
  | decideUnsat {s s' ds l} : Reach cnf s ds → l.var < s.numVars → s.decide l = .ok s' .unsat →
      Reach cnf s' ds
  | pop {s d ds} : Reach cnf s (d :: ds) → Reach cnf s.pop ds

theorem decide_static {s s' : Solver} {l : Lit} {r : DecisionResult} (h : s.decide l = .ok s' r) :
    s'.cnf = s.cnf ∧ s'.numVars = s.numVars ∧ s'.clauses = s.clauses ∧ s'.fuel = s.fuel := by
  obtain ⟨top, rest, _, wl', r', _, hcase⟩ := decide_cases h
  rcases hcase with ⟨_, _, rfl⟩ | ⟨m', _, rfl, _⟩ <;> exact ⟨rfl, rfl, rfl, rfl⟩

theorem reach_inv {cnf : Cnf} {s : Solver} {ds : List Lit} (h : Reach cnf s ds) :
    Inv s ds ∧ s.cnf = cnf := by
  induction h with
  | init h => exact inv_new h
  | decide _ hl hd hr ih => exact ⟨(inv_decide_ok ih.1 hl hd hr).1, (decide_static hd).1.trans ih.2⟩
  | decideUnsat _ _ hd ih => exact ⟨(inv_decide_unsat ih.1 hd).1, (decide_static hd).1.trans ih.2⟩
  | pop _ ih => exact ⟨inv_pop ih.1, ih.2⟩

/-- the top state of a reachable solver -/
theorem reach_top {cnf : Cnf} {s : Solver} {ds : List Lit} (h : Reach cnf s ds) :
    ∃ top rest, s.stack = top :: rest ∧ rest ≠ [] ∧ LevelOK cnf s.clauses s.numVars top ds := by
  obtain ⟨hI, rfl⟩ := reach_inv h
  exact hI.stack.top

/-! ## soundness -/

/-- **Every literal assigned by `decide` is entailed** by the CNF, the previous partial model and
the decided literal. -/
theorem decide_sound {cnf : Cnf} {fuel : Nat} {wl wl' : WL} {m m' : PModel} {l : Lit}
    (hv : WatchValid cnf wl) (h : decide cnf fuel wl m l = some (wl', some m')) :
    ∀ x b, m' x = some b →
      ∀ a, Extends a m → litSat a l = true → cnfSat a cnf = true → litSat a ⟨x, b⟩ = true := by
  intro x b hx a he hl ha
  obtain ⟨m'', e, he'⟩ := (decide_rel h).sound hv a ha he hl
  cases e
  have := he' x b hx
  simpa [litSat] using this

/-- in `Spec` vocabulary, for a fresh decision -/
theorem decide_sound_entails {cnf : Cnf} {fuel : Nat} {wl wl' : WL} {m m' : PModel} {l : Lit}
    (hv : WatchValid cnf wl) (h : decide cnf fuel wl m l = some (wl', some m')) :
    ∀ x b, m' x = some b → Entails cnf (m.set l.var l.pol) ⟨x, b⟩ := by
  intro x b hx a he ha
  have hl : litSat a l = true := by
    have := he l.var l.pol (pset_same _ _ _)
    simp [litSat, this]
  by_cases hm : m l.var = none
  · refine decide_sound hv h x b hx a ?_ hl ha
    intro y v hy
    by_cases e : y = l.var
    · rw [e, hm] at hy; cases hy
    · exact he y v (by rw [pset_other _ _ e]; exact hy)
  · -- `l` already assigned: the result is the old model and agrees with the decision
    have hd := decide_rel h
    cases hd with
    | same hs =>
      by_cases e : x = l.var
      · subst e
        rw [hs] at hx; cases hx
        exact hl
      · have := he x b (by rw [pset_other _ _ e]; exact hx)
        simp [litSat, this]
    | fresh hn _ => exact absurd hn hm

/-- **`UnitPropagate::new` only assigns entailed literals.** -/
theorem new_sound {cnf : Cnf} {fuel : Nat} {wl : WL} {m : PModel}
    (h : upNew cnf true fuel = some (wl, some m)) :
    ∀ x b, m x = some b → Entails cnf PModel.empty ⟨x, b⟩ := by
  intro x b hx a _ ha
  unfold upNew at h
  split at h
  · cases h
  · have hda := decideAll_rel h
    have hv0 : WatchValid cnf (initWatches cnf 0 WL.empty) :=
      initWatches_valid cnf cnf 0 WL.empty (by simp) (watchValid_empty cnf)
    obtain ⟨m'', e, he'⟩ := hda.sound hv0 a ha (by intro y v hy; simp [PModel.empty] at hy)
      (fun u hu => by
        have := cnfSat_mem ha (mem_impliedUnits.mp hu)
        simpa [clauseSat] using this)
    cases e
    have := he' x b hx
    simpa [litSat] using this

/-- **After any history, every assigned variable's value is entailed by the CNF together with the
decisions on the stack.** -/
theorem history_sound {cnf : Cnf} {s : Solver} {ds : List Lit} (h : Reach cnf s ds)
    {top : SatState} {rest : List SatState} (hst : s.stack = top :: rest) :
    ∀ x b, top.model x = some b → EntailsFrom cnf ds ⟨x, b⟩ := by
  obtain ⟨top', rest', hst', _, hlev⟩ := reach_top h
  rw [hst] at hst'; cases hst'
  exact hlev.entailed

/-- the decisions themselves hold in the top model -/
theorem history_decisions_hold {cnf : Cnf} {s : Solver} {ds : List Lit} (h : Reach cnf s ds)
    {top : SatState} {rest : List SatState} (hst : s.stack = top :: rest) :
    ∀ d, d ∈ ds → top.model d.var = some d.pol := by
  obtain ⟨top', rest', hst', _, hlev⟩ := reach_top h
  rw [hst] at hst'; cases hst'
  exact hlev.decided

/-! ## UNSAT is only reported when no model extends the decisions -/

theorem unsat_sound {cnf : Cnf} {fuel : Nat} {wl wl' : WL} {m : PModel} {l : Lit}
    (hv : WatchValid cnf wl) (h : decide cnf fuel wl m l = some (wl', none)) :
    ∀ a, Extends a m → litSat a l = true → cnfSat a cnf = false := by
  intro a he hl
  cases ha : cnfSat a cnf with
  | false => rfl
  | true =>
    obtain ⟨m'', e, _⟩ := (decide_rel h).sound hv a ha he hl
    cases e

theorem new_unsat_sound {cnf : Cnf} (h : Solver.new cnf = some none) : ∀ a, cnfSat a cnf = false := by
  intro a
  cases ha : cnfSat a cnf with
  | false => rfl
  | true =>
    exfalso
    unfold Solver.new at h
    simp only [] at h
    split at h
    · cases h
    · next wl hup =>
      unfold upNew at hup
      split at hup
      · next hem =>
        obtain ⟨c, hc, he⟩ := List.any_eq_true.mp hem
        have := cnfSat_mem ha hc
        cases c with
        | nil => simp [clauseSat] at this
        | cons _ _ => simp at he
      · have hda := decideAll_rel hup
        have hv0 : WatchValid cnf (initWatches cnf 0 WL.empty) :=
          initWatches_valid cnf cnf 0 WL.empty (by simp) (watchValid_empty cnf)
        obtain ⟨m'', e, _⟩ := hda.sound hv0 a ha (by intro y v hy; simp [PModel.empty] at hy)
          (fun u hu => by
            have := cnfSat_mem ha (mem_impliedUnits.mp hu)
            simpa [clauseSat] using this)
        cases e
    · cases h

/-- **After any history, a `decide` reports UNSAT only if no total assignment satisfies the CNF
together with the decisions on the stack and the new decision.** -/
theorem history_unsat_sound {cnf : Cnf} {s s' : Solver} {ds : List Lit} {l : Lit}
    (h : Reach cnf s ds) (hd : s.decide l = .ok s' .unsat) : UnsatFrom cnf (l :: ds) := by
  obtain ⟨hI, rfl⟩ := reach_inv h
  obtain ⟨top, rest, hst, wl', r', hrel, hcase⟩ := decide_cases hd
  obtain ⟨top', rest', hst', _, hlev⟩ := hI.stack.top
  rw [hst] at hst'; cases hst'
  intro a hds
  cases ha : cnfSat a s.cnf with
  | false => rfl
  | true =>
    exfalso
    have he : Extends a top.model :=
      extends_of_entailed hlev.entailed ha (fun d hd => hds d (by simp [hd]))
    obtain ⟨m'', e, _⟩ := hrel.sound hI.valid a ha he (hds l (by simp))
    rcases hcase with ⟨rfl, _, _⟩ | ⟨m', _, _, hr⟩
    · cases e
    · split at hr <;> cases hr

/-- an UNSAT `decide` leaves the observable state alone -/
theorem unsat_keeps_stack {cnf : Cnf} {s s' : Solver} {ds : List Lit} {l : Lit}
    (h : Reach cnf s ds) (hd : s.decide l = .ok s' .unsat) : s'.stack = s.stack :=
  (inv_decide_unsat (reach_inv h).1 hd).2

/-! ## the fixpoint clause -/

/-- **Propagator level.** If the watch lists have the two-watch structure and satisfy the watch
invariant for `m`, unit clauses are true in `m` and there is no empty clause, then after a
`decide` that does not report UNSAT no clause is falsified and no clause is unit. -/
theorem fixpoint {cnf : Cnf} (hN : CnfNormal cnf) {fuel : Nat} {wl wl' : WL} {m m' : PModel} {l : Lit}
    (h2 : TwoWatch cnf wl) (hok : WatchOK cnf wl m) (hu : UnitsTrue cnf m)
    (hne : cnf.any List.isEmpty = false)
    (h : decide cnf fuel wl m l = some (wl', some m')) : IsFixpoint cnf m' := by
  have hd := decide_rel h
  exact fixpoint_of_watch (hd.twoWatch hN h2) (hd.watchOK _ hok) (unitsTrue_mono hd.ext.1 hu) hne

/-- the invariants needed by `fixpoint` hold again after the call, for the new model and every
model below the old one — so the argument can be iterated over decide, pop and aborted decides -/
theorem watch_invariants_preserved {cnf : Cnf} (hN : CnfNormal cnf) {fuel : Nat} {wl wl' : WL}
    {m : PModel} {l : Lit} {r : Option PModel} (h2 : TwoWatch cnf wl)
    (h : decide cnf fuel wl m l = some (wl', r)) :
    TwoWatch cnf wl'
    ∧ (∀ mj, PExt mj m → WatchOK cnf wl mj → WatchOK cnf wl' mj)
    ∧ (∀ m', r = some m' → WatchOK cnf wl m → WatchOK cnf wl' m') := by
  have hd := decide_rel h
  refine ⟨hd.twoWatch hN h2, fun mj hle hok => WatchOK.lower hd.newWatches hle hok, ?_⟩
  intro m' e hok
  subst e
  exact hd.watchOK _ hok

/-- **After any history on a CNF in `Cnf::new` normal form, the top model is a fixpoint of unit
propagation: no clause is falsified and no clause has exactly one unassigned literal left.** -/
theorem history_fixpoint {cnf : Cnf} (hN : CnfNormal cnf) {s : Solver} {ds : List Lit}
    (h : Reach cnf s ds) {top : SatState} {rest : List SatState} (hst : s.stack = top :: rest) :
    IsFixpoint cnf top.model := by
  obtain ⟨hI, rfl⟩ := reach_inv h
  obtain ⟨top', rest', hst', _, hlev⟩ := hI.stack.top
  rw [hst] at hst'; cases hst'
  exact fixpoint_of_watch (hI.two hN) (hI.watch top (by rw [hst]; simp)) hlev.units hI.nonempty

/-- The watch invariant of a solver state, inductive across `decide` (successful or aborted by
UNSAT, which leaves the lists partially updated) and `pop`:
every clause of length ≥ 2 is in exactly two watch lists, those of two different literals of the
clause, no list repeats an entry, nothing else is watched (`TwoWatch`); and for the model of
*every* state on the stack, a clause watching a false literal has a true literal (`WatchOK`).
The quantification over all stack levels is what makes it survive backtracking although `pop`
does not restore the watch lists. -/
def WatchInv (s : Solver) : Prop :=
  TwoWatch s.cnf s.wl ∧ ∀ st, st ∈ s.stack → WatchOK s.cnf s.wl st.model

theorem history_watchInv {cnf : Cnf} (hN : CnfNormal cnf) {s : Solver} {ds : List Lit}
    (h : Reach cnf s ds) : WatchInv s := by
  obtain ⟨hI, rfl⟩ := reach_inv h
  exact ⟨hI.two hN, hI.watch⟩

/-- the same for what the real constructor is given: `SATSolver::new(Cnf::new(clauses))`, for
every raw clause list (duplicate and complementary literals included) -/
theorem history_fixpoint_cnfNew (raw : Cnf) {s : Solver} {ds : List Lit}
    (h : Reach (cnfNew raw) s ds) {top : SatState} {rest : List SatState} (hst : s.stack = top :: rest) :
    IsFixpoint (cnfNew raw) top.model :=
  history_fixpoint (cnfNew_normal raw) h hst

/-! ## the model never runs out of fuel -/

/-- `SATSolver::new` of the model always answers (a solver or the Rust `None`) -/
theorem new_total_normal {cnf : Cnf} (hN : CnfNormal cnf) : ∃ o, Solver.new cnf = some o :=
  new_total hN

/-- after any history, `decide` of any literal answers `SAT`, `UNSAT` or `Unknown` — never the
model's `error` (fuel exhausted / empty stack) -/
theorem history_decide_total {cnf : Cnf} (hN : CnfNormal cnf) {s : Solver} {ds : List Lit}
    (h : Reach cnf s ds) (l : Lit) : ∃ s' r, s.decide l = .ok s' r := by
  obtain ⟨hI, rfl⟩ := reach_inv h
  exact decide_total hI hN l

/-! ## popping restores the state before the matching decision -/

/-- successful execution of a command list in which the stack never gets shorter than `d` -/
inductive StepsAbove (d : Nat) : Solver → List Cmd → Solver → Prop
  | nil {s} : StepsAbove d s [] s
  | decide {s s' s'' v p r cs} : s.decide ⟨v, p⟩ = .ok s' r → StepsAbove d s' cs s'' →
      StepsAbove d s (.decide v p :: cs) s''
  | pop {s s'' cs} : d < s.depth → StepsAbove d s.pop cs s'' → StepsAbove d s (.pop :: cs) s''

/-- the `d` oldest states of the stack -/
def bottom (d : Nat) (s : Solver) : List SatState := s.stack.drop (s.depth - d)

theorem decide_stack {s s' : Solver} {l : Lit} {r : DecisionResult} (h : s.decide l = .ok s' r) :
    s'.stack = s.stack ∨ ∃ st, s'.stack = st :: s.stack := by
  obtain ⟨top, rest, _, wl', r', _, hcase⟩ := decide_cases h
  rcases hcase with ⟨_, _, rfl⟩ | ⟨m', _, rfl, _⟩
  · exact .inl rfl
  · exact .inr ⟨_, rfl⟩

theorem StepsAbove.bottom {d : Nat} {s s' : Solver} {cs : List Cmd} (h : StepsAbove d s cs s') :
    d ≤ s.depth → bottom d s' = bottom d s ∧ d ≤ s'.depth
      ∧ s'.cnf = s.cnf ∧ s'.numVars = s.numVars ∧ s'.clauses = s.clauses := by
  induction h with
  | nil => intro h; exact ⟨rfl, h, rfl, rfl, rfl⟩
  | @decide s s1 s2 v p r cs hd _ ih =>
    intro hle
    have hst := decide_static hd
    rcases decide_stack hd with e | ⟨st, e⟩
    · have hdep : s1.depth = s.depth := by unfold Solver.depth; rw [e]
      obtain ⟨i1, i2, i3, i4, i5⟩ := ih (by omega)
      refine ⟨?_, i2, i3.trans hst.1, i4.trans hst.2.1, i5.trans hst.2.2.1⟩
      rw [i1]; unfold UnitProp.bottom; rw [hdep, e]
    · have hdep : s1.depth = s.depth + 1 := by unfold Solver.depth; rw [e]; simp
      obtain ⟨i1, i2, i3, i4, i5⟩ := ih (by omega)
      refine ⟨?_, i2, i3.trans hst.1, i4.trans hst.2.1, i5.trans hst.2.2.1⟩
      rw [i1]; unfold UnitProp.bottom; rw [hdep, e]
      have : s.depth + 1 - d = (s.depth - d) + 1 := by omega
      rw [this, List.drop_succ_cons]
  | @pop s s2 cs hlt _ ih =>
    intro hle
    have hdep : s.pop.depth = s.depth - 1 := by unfold Solver.depth Solver.pop; simp
    obtain ⟨i1, i2, i3, i4, i5⟩ := ih (by omega)
    refine ⟨?_, i2, i3, i4, i5⟩
    rw [i1]; unfold UnitProp.bottom; rw [hdep]
    show s.stack.tail.drop (s.depth - 1 - d) = s.stack.drop (s.depth - d)
    have : s.depth - d = (s.depth - 1 - d) + 1 := by omega
    rw [this, ← List.drop_one, List.drop_drop]
    congr 1; omega

/-- **Popping restores exactly the state that held before the matching decision.** Whatever
happens between a successful `decide l` and its matching `pop` (further decides — successful or
UNSAT — and pops, as long as the pops in between match decisions made in between), the stack
of states (models, hashes, satisfied sets; hence every observable: `is_set`, `cur_hash`, `is_sat`,
`difference_iter`, depth) is the one before `decide l`. The watch lists are *not* restored, see
`pop_keeps_watches`. -/
theorem pop_restores {s s1 s2 : Solver} {l : Lit} {r : DecisionResult} {cs : List Cmd}
    (hd : s.decide l = .ok s1 r) (hr : r ≠ .unsat)
    (hrun : StepsAbove s1.depth s1 cs s2) (hbal : s2.depth = s1.depth) :
    s2.pop.stack = s.stack ∧ s2.pop.cnf = s.cnf ∧ s2.pop.numVars = s.numVars
      ∧ s2.pop.clauses = s.clauses := by
  obtain ⟨h1, _, h3, h4, h5⟩ := hrun.bottom (Nat.le_refl _)
  have hst := decide_static hd
  have hs1 : s1.stack.tail = s.stack := by
    obtain ⟨top, rest, _, wl', r', _, hcase⟩ := decide_cases hd
    rcases hcase with ⟨_, h2, _⟩ | ⟨m', _, rfl, _⟩
    · exact absurd h2 hr
    · rfl
  unfold bottom at h1
  rw [hbal] at h1
  simp only [Nat.sub_self, List.drop_zero] at h1
  refine ⟨?_, h3.trans hst.1, h4.trans hst.2.1, h5.trans hst.2.2.1⟩
  show s2.stack.tail = s.stack
  rw [h1, hs1]

/-- all observables are functions of the stack and of fields that never change -/
theorem observables_eq {s s' : Solver} (h1 : s'.stack = s.stack) (h2 : s'.numVars = s.numVars)
    (h3 : s'.clauses = s.clauses) :
    s'.isSat = s.isSat ∧ s'.curHash = s.curHash ∧ s'.depth = s.depth ∧ s'.modelList = s.modelList
      ∧ s'.differenceIter = s.differenceIter ∧ ∀ v, s'.isSet v = s.isSet v := by
  unfold Solver.isSat Solver.curHash Solver.depth Solver.modelList Solver.differenceIter Solver.isSet
  rw [h1, h2, h3]
  exact ⟨rfl, rfl, rfl, rfl, rfl, fun _ => rfl⟩

/-- `pop` does not touch the watch lists -/
theorem pop_keeps_watches (s : Solver) : s.pop.wl = s.wl := rfl

/-! ## the satisfied flag -/

theorem satCount_eq_iff (n : Nat) (f : Nat → Bool) : satCount n f = n ↔ ∀ i, i < n → f i = true := by
  unfold satCount
  have := List.countP_eq_length (l := List.range n) (p := f)
  rw [List.length_range] at this
  rw [this]
  constructor
  · intro h i hi; exact h i (List.mem_range.mpr hi)
  · intro h i hi; exact h i (List.mem_range.mp hi)

/-- every weighted clause is satisfied iff every normalised clause has a true literal -/
theorem all_sat_iff {cnf : Cnf} {clauses : List WClause} (hcl : clauses = weighClauses (normClauses cnf) 1)
    (m : PModel) :
    (∀ i, i < clauses.length → satOf clauses m i = true) ↔
      ∀ c, c ∈ normClauses cnf → c.any (litTrue m) = true := by
  have hmap : clauses.map (fun c => c.map (·.1)) = normClauses cnf := by
    rw [hcl]; exact (weighClauses_spec _ _).1
  have hany : ∀ wc : WClause, (wc.map (·.1)).any (litTrue m) = wcSat m wc := by
    intro wc; rw [List.any_map]; rfl
  constructor
  · intro h c hc
    rw [← hmap] at hc
    obtain ⟨wc, hwc, rfl⟩ := List.mem_map.mp hc
    obtain ⟨i, hi, e⟩ := List.mem_iff_getElem.mp hwc
    have := h i hi
    unfold satOf at this
    rw [List.getD_eq_getElem?_getD, List.getElem?_eq_getElem hi, Option.getD_some, e] at this
    rw [hany]; exact this
  · intro h i hi
    unfold satOf
    rw [List.getD_eq_getElem?_getD, List.getElem?_eq_getElem hi, Option.getD_some, ← hany]
    apply h
    rw [← hmap]
    exact List.mem_map.mpr ⟨clauses[i], List.getElem_mem hi, rfl⟩

/-- the normalised clauses are the non-tautological clauses, with the same literals -/
theorem normClauses_all_iff (cnf : Cnf) (m : PModel) :
    (∀ c, c ∈ normClauses cnf → c.any (litTrue m) = true) ↔
      ∀ c, c ∈ cnf → isTaut c = false → c.any (litTrue m) = true := by
  unfold normClauses
  constructor
  · intro h c hc ht
    have := h (normClause c) (List.mem_filter.mpr ⟨List.mem_map.mpr ⟨c, hc, rfl⟩, by
      rw [isTaut_normClause, ht]; rfl⟩)
    rwa [normClause_any] at this
  · intro h c hc
    obtain ⟨h1, h2⟩ := List.mem_filter.mp hc
    obtain ⟨c0, hc0, rfl⟩ := List.mem_map.mp h1
    rw [normClause_any]
    apply h c0 hc0
    rw [isTaut_normClause] at h2
    simpa using h2

/-- **The satisfied flag is raised exactly when every non-tautological clause contains a true
literal** (in the model of the top state), after any history. -/
theorem satflag_exact {cnf : Cnf} {s : Solver} {ds : List Lit} (h : Reach cnf s ds)
    {top : SatState} {rest : List SatState} (hst : s.stack = top :: rest) :
    s.isSat = some true ↔ ∀ c, c ∈ cnf → isTaut c = false → c.any (litTrue top.model) = true := by
  obtain ⟨hI, rfl⟩ := reach_inv h
  obtain ⟨top', rest', hst', _, hlev⟩ := hI.stack.top
  rw [hst] at hst'; cases hst'
  rw [← normClauses_all_iff, ← all_sat_iff hI.clauses]
  unfold Solver.isSat
  rw [hst]
  simp only [List.head?_cons, Option.map_some, Option.some.injEq, decide_eq_true_eq]
  rw [satCount_eq_iff]
  constructor
  · intro h i hi; rw [← hlev.sat i]; exact h i hi
  · intro h i hi; rw [hlev.sat i]; exact h i hi

/-- the stored set of satisfied clauses is exactly the set of (normalised) clauses with a true
literal -/
theorem satset_exact {cnf : Cnf} {s : Solver} {ds : List Lit} (h : Reach cnf s ds)
    {top : SatState} {rest : List SatState} (hst : s.stack = top :: rest) :
    ∀ i, top.sat i = (s.clauses.getD i []).any (fun lw => litTrue top.model lw.1) := by
  obtain ⟨top', rest', hst', _, hlev⟩ := reach_top h
  rw [hst] at hst'; cases hst'
  exact hlev.sat

/-- `decide` answers `SAT` exactly when the flag of the new state is raised -/
theorem decide_result_sat_iff {s s' : Solver} {l : Lit} {r : DecisionResult}
    (h : s.decide l = .ok s' r) (hr : r ≠ .unsat) : r = .sat ↔ s'.isSat = some true := by
  obtain ⟨top, rest, _, wl', r', _, hcase⟩ := decide_cases h
  rcases hcase with ⟨_, h2, _⟩ | ⟨m', _, rfl, hres⟩
  · exact absurd h2 hr
  · unfold Solver.isSat
    simp only [List.head?_cons, Option.map_some, Option.some.injEq, decide_eq_true_eq]
    rw [hres]
    split <;> simp_all

/-! ## the hash -/

/-- **The stored hash is the product, modulo `2^128`, of the primes of all literal occurrences
removed so far** — all literals of clauses with a true literal, and the false literals of the other
clauses. It is a function of the current model only. -/
theorem hash_formula {cnf : Cnf} {s : Solver} {ds : List Lit} (h : Reach cnf s ds)
    {top : SatState} {rest : List SatState} (hst : s.stack = top :: rest) :
    s.curHash = some (hashOf (weighClauses (normClauses cnf) 1) top.model % 2 ^ 128) := by
  obtain ⟨hI, rfl⟩ := reach_inv h
  obtain ⟨top', rest', hst', _, hlev⟩ := hI.stack.top
  rw [hst] at hst'; cases hst'
  unfold Solver.curHash
  rw [hst]
  simp only [List.head?_cons, Option.map_some]
  rw [hlev.hash, hI.clauses]; rfl

/-- **Path independence**: two states of solvers for the same CNF, reached by any two histories,
have the same hash if their models agree — the order of decisions does not matter. -/
theorem hash_path_independent {cnf : Cnf} {s s' : Solver} {ds ds' : List Lit}
    (h : Reach cnf s ds) (h' : Reach cnf s' ds')
    {top top' : SatState} {rest rest' : List SatState}
    (hst : s.stack = top :: rest) (hst' : s'.stack = top' :: rest')
    (hm : top.model = top'.model) : s.curHash = s'.curHash := by
  rw [hash_formula h hst, hash_formula h' hst', hm]

/-- the weights are the first primes, pairwise different -/
theorem solver_weights_ok {cnf : Cnf} {s : Solver} {ds : List Lit} (h : Reach cnf s ds) :
    WeightsOK s.clauses := by
  rw [(reach_inv h).1.clauses]; exact weighClauses_ok _ _

/-- **Conditional injectivity of the hash** (`_partial`: the property states it without the
bound, but the code multiplies with `wrapping_mul`). IF the product of the primes of all literal
occurrences of the normalised clauses is below `2^128`, THEN two states reached by any two
histories on the same CNF (in `Cnf::new` normal form) that have equal hashes have identical
residual formulas (clauses without a true literal, restricted to their non-false literals). -/
theorem hash_injective_partial {cnf : Cnf} (hN : CnfNormal cnf) {s s' : Solver} {ds ds' : List Lit}
    (h : Reach cnf s ds) (h' : Reach cnf s' ds')
    (hnowrap : totalWeight (weighClauses (normClauses cnf) 1) < 2 ^ 128)
    {top top' : SatState} {rest rest' : List SatState}
    (hst : s.stack = top :: rest) (hst' : s'.stack = top' :: rest')
    (heq : s.curHash = s'.curHash) :
    residual (normClauses cnf) top.model = residual (normClauses cnf) top'.model := by
  have hmap : (weighClauses (normClauses cnf) 1).map (fun c => c.map (·.1)) = normClauses cnf :=
    (weighClauses_spec _ _).1
  have hnf : ∀ {s : Solver} {ds : List Lit} (_ : Reach cnf s ds) {top : SatState} {rest : List SatState}
      (_ : s.stack = top :: rest), NoFalsified (weighClauses (normClauses cnf) 1) top.model := by
    intro s ds h top rest hst wc hwc hall
    have hfix := history_fixpoint hN h hst
    have hmem : wc.map (·.1) ∈ normClauses cnf := by
      rw [← hmap]; exact List.mem_map.mpr ⟨wc, hwc, rfl⟩
    unfold normClauses at hmem
    obtain ⟨c0, hc0, e⟩ := List.mem_map.mp (List.mem_filter.mp hmem).1
    have : clauseFalsified top.model c0 = true := by
      unfold clauseFalsified
      rw [List.all_eq_true]
      intro x hx
      have hx' : x ∈ wc.map (·.1) := by rw [← e]; exact mem_normClause.mpr hx
      obtain ⟨lw, hlw, rfl⟩ := List.mem_map.mp hx'
      exact hall lw hlw
    rw [(hfix c0 hc0).1] at this
    cases this
  rw [hash_formula h hst, hash_formula h' hst'] at heq
  have := hash_inj_of_nowrap (weighClauses_ok _ _) hnowrap (hnf h hst) (hnf h' hst') (Option.some.inj heq)
  unfold wresidual at this
  rwa [hmap] at this

/-! ## the unrepaired watch replacement misses a unit (finding F4) -/

/-- the witness: clause `¬x0 ∨ ¬x1 ∨ x2`; decide `x0 = ⊤`, then `x2 = ⊥`; report the value of
`x1` afterwards (`none` if unset or if anything else went wrong) -/
def f4Run (repaired : Bool) : Option (Option Bool) :=
  let cnf : Cnf := [[⟨0, false⟩, ⟨1, false⟩, ⟨2, true⟩]]
  match upNew cnf repaired 100 with
  | some (wl0, some m0) =>
    match decideK (loop cnf repaired 100) wl0 m0 ⟨0, true⟩ with
    | some (wl1, some m1) =>
      match decideK (loop cnf repaired 100) wl1 m1 ⟨2, false⟩ with
      | some (_, some m2) => some (m2 1)
      | _ => none
    | _ => none
  | _ => none

/-- with the original selection (by the polarity of the new assignment) the unit `¬x1` is missed:
the propagator answers "not UNSAT" and leaves `x1` unassigned; the repaired code sets `x1 = ⊥` -/
theorem decideOrig_misses_unit : f4Run false = some none ∧ f4Run true = some (some false) := by
  decide

/-! ## the executable history runner only visits reachable states -/

/-- a command list is a valid history from `s` with `k` open decisions: pops match decisions,
decided variables are in range -/
def ValidFrom : Solver → Nat → List Cmd → Prop
  | _, _, [] => True
  | s, k, .pop :: cs => 0 < k ∧ ValidFrom s.pop (k - 1) cs
  | s, k, .decide v p :: cs => v < s.numVars ∧
      match s.decide ⟨v, p⟩ with
      | .ok s' .unsat => ValidFrom s' k cs
      | .ok s' _ => ValidFrom s' (k + 1) cs
      | .error => True

/-- every observation `runCmds` (hence `runHistoryOn`/`runHistory`, the functions diffed against
the real `SATSolver`) emits on a valid history is the observation of a `Reach`able state, and is
never `error` -/
theorem runCmds_reach {cnf : Cnf} (hN : CnfNormal cnf) : ∀ (cmds : List Cmd) (s : Solver) (ds : List Lit),
    Reach cnf s ds → ValidFrom s ds.length cmds →
    ∀ o, o ∈ runCmds true s cmds →
      ∃ s' ds' tag, Reach cnf s' ds' ∧ tag ≠ ObsRes.error ∧ o = observe tag s'
  | [], _, _, _, _, o, ho => by simp [runCmds] at ho
  | .pop :: cs, s, ds, hR, hV, o, ho => by
    obtain ⟨hk, hV'⟩ := hV
    have hdep : s.depth = ds.length + 2 := (reach_inv hR).1.stack.length
    cases ds with
    | nil => simp at hk
    | cons d ds' =>
      have hR' : Reach cnf s.pop ds' := .pop hR
      unfold runCmds at ho
      rw [if_neg (by rw [hdep]; simp)] at ho
      rcases List.mem_cons.mp ho with rfl | ho
      · exact ⟨s.pop, ds', .popped, hR', by simp, rfl⟩
      · exact runCmds_reach hN cs s.pop ds' hR' (by simpa using hV') o ho
  | .decide v p :: cs, s, ds, hR, hV, o, ho => by
    obtain ⟨hv, hV'⟩ := hV
    obtain ⟨s', r, hd⟩ := history_decide_total hN hR ⟨v, p⟩
    unfold runCmds at ho
    rw [if_neg (by omega)] at ho
    have hd' : s.decideWith true ⟨v, p⟩ = .ok s' r := hd
    rw [hd'] at ho
    rw [hd] at hV'
    simp only [] at ho
    by_cases hr : r = .unsat
    · subst hr
      have hR' : Reach cnf s' ds := .decideUnsat hR hv hd
      rcases List.mem_cons.mp ho with rfl | ho
      · exact ⟨s', ds, .unsat, hR', by simp, rfl⟩
      · exact runCmds_reach hN cs s' ds hR' hV' o ho
    · have hR' : Reach cnf s' (⟨v, p⟩ :: ds) := .decide hR hv hd hr
      have hV'' : ValidFrom s' (ds.length + 1) cs := by
        cases r with
        | unsat => exact absurd rfl hr
        | sat => exact hV'
        | unknown => exact hV'
      rcases List.mem_cons.mp ho with rfl | ho
      · refine ⟨s', _, _, hR', ?_, rfl⟩
        cases r <;> simp at hr ⊢
      · exact runCmds_reach hN cs s' _ hR' hV'' o ho

/-! ## non-vacuity -/

/-- `(¬x0 ∨ ¬x1 ∨ x2) ∧ (¬x2 ∨ x3) ∧ (x1 ∨ ¬x1 ∨ x1 ∨ x3)`, through `Cnf::new` -/
def exCnf : Cnf :=
  cnfNew [[⟨2, true⟩, ⟨0, false⟩, ⟨1, false⟩], [⟨2, false⟩, ⟨3, true⟩],
          [⟨1, true⟩, ⟨3, true⟩, ⟨1, false⟩, ⟨1, true⟩]]

def dummySolver : Solver := ⟨[], 0, 0, WL.empty, [], []⟩

def exS0 : Solver := match Solver.new exCnf with | some (some s) => s | _ => dummySolver

def stepSolver (o : StepOut) : Solver := match o with | .ok s _ => s | .error => dummySolver
def stepOkWith (o : StepOut) (p : DecisionResult → Bool) : Bool := match o with | .ok _ r => p r | .error => false

/-- after `decide x0 = ⊤` -/
def exS1 : Solver := stepSolver (exS0.decide ⟨0, true⟩)
/-- after `decide x2 = ⊥` on top: propagates `x1 = ⊥` -/
def exS2 : Solver := stepSolver (exS1.decide ⟨2, false⟩)

theorem exS0_new : Solver.new exCnf = some (some exS0) := by
  have h : ((Solver.new exCnf).bind id).isSome = true := by decide
  unfold exS0
  cases h' : Solver.new exCnf with
  | none => rw [h'] at h; cases h
  | some o =>
    cases o with
    | none => rw [h'] at h; cases h
    | some s => rfl

theorem step_ok {s : Solver} {l : Lit} (h : stepOkWith (s.decide l) (fun r => r != .unsat) = true) :
    ∃ r, s.decide l = .ok (stepSolver (s.decide l)) r ∧ r ≠ .unsat := by
  cases hd : s.decide l with
  | error => rw [hd] at h; cases h
  | ok s' r =>
    rw [hd] at h
    refine ⟨r, rfl, ?_⟩
    intro e; subst e; cases h

/-- the history type is inhabited beyond construction: two nested decisions, then their pops -/
theorem ex_reach : Reach exCnf exS2 [⟨2, false⟩, ⟨0, true⟩] ∧ Reach exCnf exS2.pop.pop [] := by
  obtain ⟨r1, h1, hr1⟩ := step_ok (s := exS0) (l := ⟨0, true⟩) (by decide)
  obtain ⟨r2, h2, hr2⟩ := step_ok (s := exS1) (l := ⟨2, false⟩) (by decide)
  have R0 : Reach exCnf exS0 [] := .init exS0_new
  have R1 : Reach exCnf exS1 [⟨0, true⟩] := .decide R0 (by decide) h1 hr1
  have R2 : Reach exCnf exS2 [⟨2, false⟩, ⟨0, true⟩] := .decide R1 (by decide) h2 hr2
  exact ⟨R2, .pop (.pop R2)⟩

/-- the clause list above is in normal form, contains a tautology with a repeated literal, and
the no-wrap hypothesis of `hash_injective_partial` holds for it -/
example : CnfNormal exCnf := cnfNew_normal _
example : exCnf = [[⟨0, false⟩, ⟨1, false⟩, ⟨2, true⟩], [⟨2, false⟩, ⟨3, true⟩],
    [⟨1, true⟩, ⟨1, false⟩, ⟨1, true⟩, ⟨3, true⟩]] := by decide
example : totalWeight (weighClauses (normClauses exCnf) 1) < 2 ^ 128 := by decide

/-- what the model computes on the example: propagation; the hash `2` (the false literal `¬x0` of
the unsatisfied clause 0), then `2·3·5·7·11` (all literals of both non-tautological clauses, now
satisfied); the satisfied flag -/
example : exS2.modelList = [some true, some false, some false, none] := by decide
example : exS1.curHash = some 2 ∧ exS2.curHash = some (2 * 3 * 5 * 7 * 11) := by decide
example : exS2.isSat = some true ∧ exS1.isSat = some false := by decide

/-- an UNSAT answer exists too (`x0 = ⊤, x1 = ⊤, x2 = ⊥` contradicts clause 0), and it pushes
nothing -/
example : stepOkWith ((stepSolver (exS1.decide ⟨1, true⟩)).decide ⟨2, false⟩) (fun r => r == .unsat) = true := by
  decide

/-- **the watch lists are not restored by `pop`**: after `decide x0 = ⊤; pop` the stack is the
one after construction, the watch lists are not -/
example : exS1.pop.stack.length = exS0.stack.length
    ∧ exS1.pop.wl.toLists 4 ≠ exS0.wl.toLists 4 := by decide

/-- the hypotheses of `pop_restores` are satisfiable with a non-trivial run in between -/
example : ∃ cs s2, StepsAbove exS1.depth exS1 cs s2 ∧ s2.depth = exS1.depth ∧ cs ≠ [] := by
  obtain ⟨r2, h2, _⟩ := step_ok (s := exS1) (l := ⟨2, false⟩) (by decide)
  refine ⟨[.decide 2 false, .pop], exS2.pop, .decide h2 (.pop (by decide) .nil), by decide, by simp⟩

/-- the Spec-level closure agrees on the example -/
example : (match upClosure 10 exCnf (PModel.empty.set 0 true |>.set 2 false) with
    | .fixpoint m => (List.range 4).map m | _ => []) = [some true, some false, some false, none] := by
  decide

/-! ## axioms -/

#print axioms reach_inv
#print axioms decide_sound
#print axioms decide_sound_entails
#print axioms new_sound
#print axioms history_sound
#print axioms history_decisions_hold
#print axioms unsat_sound
#print axioms new_unsat_sound
#print axioms history_unsat_sound
#print axioms unsat_keeps_stack
#print axioms fixpoint
#print axioms watch_invariants_preserved
#print axioms history_fixpoint
#print axioms history_watchInv
#print axioms history_fixpoint_cnfNew
#print axioms new_total_normal
#print axioms history_decide_total
#print axioms pop_restores
#print axioms runCmds_reach
#print axioms observables_eq
#print axioms pop_keeps_watches
#print axioms satflag_exact
#print axioms satset_exact
#print axioms decide_result_sat_iff
#print axioms hash_formula
#print axioms hash_path_independent
#print axioms solver_weights_ok
#print axioms hash_injective_partial
#print axioms decideOrig_misses_unit
#print axioms exS0_new
#print axioms ex_reach
#print axioms Spec.upClosure_fixpoint

end UnitProp
