import RsddModel.Props.TieSddCore
import RsddModel.Props.C03
import RsddModel.Props.C04
/-!
# Source-level corollaries for the SDD builder core

The theorems of C03 (operations compute the function they name) and C04 (results are well formed:
trimmed, compressed, sorted, complement-normalised) restated for the definitions REGENERATED from the
Rust text (`Gen.SddCore.r…`, tools/gen_sddcore.py): each one rewrites with a tie theorem of
`Props/TieSddCore.lean` and applies the existing theorem about the hand-written model.  When the Rust
changes, the tie theorem stops checking and with it the corollary: "the source as it reads NOW has the
property".  The file also builds when a function is in alias (UNTRANSLATED) mode.
-/
namespace TieSddCoreSource
open Sdd Spec TieSddCoreAux Gen.SddCore TieSddCore

/-! ## C03: per-function semantics -/

/-- `unique_bdd` as the source reads denotes `if label then high else low` -/
theorem uniqueBdd_eval_source (l : Nat) (lo hi : Ptr) (idx : Nat) (a : Assign) :
    (rUniqueBdd l lo hi idx).eval a = (if a l then hi.eval a else lo.eval a) := by
  rw [uniqueBdd_tie]; exact uniqueBdd_eval l lo hi idx a

/-- `unique_or` as the source reads returns a well formed pointer denoting `⋁ prime ∧ sub` -/
theorem uniqueOr_ok_source {vt : VTree} {es : List Elem} {table : Nat} {r : Ptr}
    (hok : ElemsOK vt (vt.leftLeaf? table) es) (hpart : Partition es) (hint : Internal vt table)
    (h : rUniqueOr es table = some r) : WF vt r ∧ ∀ a, r.eval a = evalElems a es := by
  have h' : uniqueOr es table = some r := by rw [← uniqueOr_tie]; exact h
  exact uniqueOr_ok hok hpart hint h'

/-- `canonicalize_base_case` as the source reads never panics and a trimmed result denotes the element list -/
theorem canonBase_ok_source {vt : VTree} {ow} {es : List Elem} {r : Ptr}
    (hok : ElemsOK vt ow es) (hpart : Partition es) (h : rCanonBase? es = some (some r)) :
    WF vt r ∧ ∀ a, r.eval a = evalElems a es := by
  have h' : canonBase? es = some r := by
    have := congrFun canonBase_tie es
    rw [this] at h; exact Option.some.inj h
  exact canonBase_ok hok hpart h'

/-- `canonicalize` as the source reads (compression on or off) denotes the element list and keeps the invariant -/
theorem canonicalize_ok_source {σ : Type} {P : σ → Prop} {vt : VTree} {andF : AndF σ}
    (hand : AndOK P vt andF) {cmpr : Bool} {st : σ} {l : List Elem}
    {table : Nat} {st' : σ} {r : Ptr} (hP : P st) (hl : ElemsOK vt (vt.leftLeaf? table) l)
    (hpart : Partition l) (hint : Internal vt table)
    (h : rCanonicalize cmpr andF st l table = some (st', r)) :
    P st' ∧ WF vt r ∧ ∀ a, r.eval a = evalElems a l := by
  have h' : canonicalize cmpr andF st l table = some (st', r) := by rw [← canonicalize_tie]; exact h
  exact canonicalize_ok hand hP hl hpart hint h'

/-! ## C03: the operations -/

section
variable (A : CacheImpl (Ptr × Ptr)) (I : CacheImpl (Ptr × Ptr × Ptr)) (cfg : Config)

/-- one unfolding of `and` as the source reads preserves "computes the conjunction" for any correct recursive call -/
theorem andBody_ok_source {andF : AndF A.σ} (hand : AndOK (AppInv A cfg.vt) cfg.vt andF) :
    AndOK (AppInv A cfg.vt) cfg.vt (rAndBody A cfg.vt cfg.compress andF) := by
  rw [andBody_tie]; exact andBody_ok hand

/-- `and` as the source reads (recursive calls with `fuel`) returns a well formed SDD denoting the conjunction -/
theorem and_correct_source (fuel : Nat) {st st' : A.σ} {a b r : Ptr} (hst : AppInv A cfg.vt st)
    (wa : WF cfg.vt a) (wb : WF cfg.vt b)
    (h : rAndBody A cfg.vt cfg.compress (Sdd.and A cfg.vt cfg.compress fuel) st a b = some (st', r)) :
    AppInv A cfg.vt st' ∧ WF cfg.vt r ∧ ∀ asg, r.eval asg = (a.eval asg && b.eval asg) := by
  have h' : Sdd.and A cfg.vt cfg.compress (fuel + 1) st a b = some (st', r) := by
    rw [and_source]; exact h
  exact and_correct A cfg (fuel + 1) hst wa wb h'

/-- `or` (De Morgan default of the trait) as the source reads denotes the disjunction -/
theorem or_correct_source (fuel : Nat) {st st' : A.σ} {a b r : Ptr} (hst : AppInv A cfg.vt st)
    (wa : WF cfg.vt a) (wb : WF cfg.vt b) (h : rOr_ (bAnd A cfg fuel) st a b = some (st', r)) :
    AppInv A cfg.vt st' ∧ WF cfg.vt r ∧ ∀ asg, r.eval asg = (a.eval asg || b.eval asg) := by
  have h' : bOr A cfg fuel st a b = some (st', r) := by rw [or_source]; exact h
  exact or_correct A cfg fuel hst wa wb h'

/-- `condition` as the source reads (recursive calls with fuel `n`) denotes `f | x = v` -/
theorem condition_correct_source (n : Nat) {st st' : A.σ} {f r : Ptr} {x : Nat} {v : Bool}
    (hst : AppInv A cfg.vt st) (wf : WF cfg.vt f)
    (h : rCondition cfg.compress (bAnd A cfg (n + 1))
          (fun st f _ _ => Sdd.condition cfg.compress (bAnd A cfg (n + 1)) x v n st f) st f x v = some (st', r)) :
    AppInv A cfg.vt st' ∧ WF cfg.vt r ∧ den r = fCond (den f) x v := by
  have h' : bCond A cfg (n + 1) st f x v = some (st', r) := by
    simp only [bCond]; rw [condition_source]; exact h
  exact condition_correct A cfg (n + 1) hst wf h'

/-- `ite` as the source reads (standard triple, ite cache, three applies) denotes if-then-else -/
theorem ite_correct_source (fuel : Nat) {s s' : A.σ × I.σ} {f g h r : Ptr}
    (hA : AppInv A cfg.vt s.1) (hI : IteInv I cfg.vt s.2)
    (wf : WF cfg.vt f) (wg : WF cfg.vt g) (wh : WF cfg.vt h)
    (hr : rIte A I cfg.vt (bAnd A cfg fuel) s f g h = some (s', r)) :
    AppInv A cfg.vt s'.1 ∧ IteInv I cfg.vt s'.2 ∧ WF cfg.vt r ∧ den r = fIte (den f) (den g) (den h) := by
  have h' : bIte A I cfg fuel s f g h = some (s', r) := by rw [ite_source]; exact hr
  exact ite_correct A I cfg fuel hA hI wf wg wh h'

/-- `exists` as the source reads denotes existential quantification -/
theorem exists_correct_source (fuel : Nat) {st st' : A.σ} {f r : Ptr} {x : Nat}
    (hst : AppInv A cfg.vt st) (wf : WF cfg.vt f)
    (h : rExists_ (bAnd A cfg fuel) (fun st f x v => bCond A cfg fuel st f x v) st f x = some (st', r)) :
    AppInv A cfg.vt st' ∧ WF cfg.vt r ∧ den r = fExists (den f) x := by
  have h' : bExists A cfg fuel st f x = some (st', r) := by rw [exists_source]; exact h
  exact exists_correct A cfg fuel hst wf h'

/-- `compose` (trait default) as the source reads denotes substitution of `g` for `x` -/
theorem compose_correct_source (fuel : Nat) {s s' : A.σ × I.σ} {f g r : Ptr} {x : Nat}
    (hA : AppInv A cfg.vt s.1) (hI : IteInv I cfg.vt s.2) (hx : cfg.vt.hasVar x = true)
    (wf : WF cfg.vt f) (wg : WF cfg.vt g)
    (hr : rCompose A I (bAnd A cfg fuel) (bIff A I cfg fuel) (bExists A cfg fuel) s f x g = some (s', r)) :
    AppInv A cfg.vt s'.1 ∧ IteInv I cfg.vt s'.2 ∧ WF cfg.vt r ∧ den r = fCompose (den f) x (den g) := by
  have h' : bCompose A I cfg fuel s f x g = some (s', r) := by rw [compose_source]; exact hr
  exact compose_correct A I cfg fuel hA hI hx wf wg h'

end

/-! ## C04: results are in normal form (trimmed, compressed, sorted, complement-normalised) -/

/-- `unique_bdd` as the source reads returns a pointer in normal form -/
theorem uniqueBdd_wfs_source {vt : VTree} {l i : Nat} {lo hi : Ptr} (hint : Internal vt i)
    (hl : l ∈ vt.leftVars i) (wlo : WFs vt lo) (whi : WFs vt hi)
    (vlo : ∀ v ∈ lo.vars, v ∈ vt.rightVars i) (vhi : ∀ v ∈ hi.vars, v ∈ vt.rightVars i) :
    WFs vt (rUniqueBdd l lo hi i) ∧
      ∀ v ∈ (rUniqueBdd l lo hi i).vars, v = l ∨ v ∈ lo.vars ∨ v ∈ hi.vars := by
  rw [uniqueBdd_tie]; exact uniqueBdd_wfs hint hl wlo whi vlo vhi

/-- `unique_or` as the source reads returns a sorted, complement-normalised pointer in normal form -/
theorem uniqueOr_wfs_source {vt : VTree} (hnd : vt.leaves.Nodup) {es : List Elem} {i : Nat} {r : Ptr}
    (hint : Internal vt i) (hpart : Partition es) (hok : ∀ e ∈ es, ElemOKs vt i e)
    (hsubs : (es.map (·.2)).Nodup) (hbase : canonBase? es = none)
    (h : rUniqueOr es i = some r) : WFs vt r ∧ ∀ v ∈ r.vars, v ∈ varsElems es := by
  have h' : uniqueOr es i = some r := by rw [← uniqueOr_tie]; exact h
  exact uniqueOr_wfs hnd hint hpart hok hsubs hbase h'

/-- a trimming case of `canonicalize_base_case` as the source reads returns a pointer in normal form -/
theorem canonBase_wfs_source {vt : VTree} {i : Nat} {es : List Elem} {r : Ptr} (hpart : Partition es)
    (hok : ∀ e ∈ es, ElemOKs vt i e) (h : rCanonBase? es = some (some r)) :
    WFs vt r ∧ ∀ v ∈ r.vars, v ∈ varsElems es := by
  have h' : canonBase? es = some r := by
    have := congrFun canonBase_tie es
    rw [this] at h; exact Option.some.inj h
  exact canonBase_wfs hpart hok h'

/-- with compression on, `canonicalize` as the source reads returns a pointer in normal form -/
theorem canonicalize_wfs_source {σ : Type} {P P0 : σ → Prop} {vt : VTree} {andF : AndF σ} {i : Nat}
    (hP0 : ∀ st, P st → P0 st) (hnd : vt.leaves.Nodup)
    (hand : AndOK P0 vt andF) (hands : AndOKs P vt andF)
    {st : σ} {l : List Elem} {st' : σ} {r : Ptr} (hP : P st) (hint : Internal vt i)
    (hpart : Partition l) (hok : ∀ e ∈ l, ElemOKs vt i e)
    (h : rCanonicalize true andF st l i = some (st', r)) :
    P st' ∧ WFs vt r ∧ ∀ v ∈ r.vars, v ∈ varsElems l := by
  have h' : canonicalize true andF st l i = some (st', r) := by rw [← canonicalize_tie]; exact h
  exact canonicalize_wfs hP0 hnd hand hands hP hint hpart hok h'

/-- `and_indep` as the source reads returns a pointer in normal form -/
theorem andIndep_s_source {vt : VTree} (hnd : vt.leaves.Nodup) {a b res : Ptr} {k : Nat}
    (wa : WFs vt a) (wb : WFs vt b)
    (hint : Internal vt k) (ha : ∀ v ∈ a.vars, v ∈ vt.leftVars k)
    (hb : ∀ v ∈ b.vars, v ∈ vt.rightVars k)
    (na1 : a ≠ .tru) (na2 : a ≠ .fls) (nb1 : b ≠ .tru) (nb2 : b ≠ .fls)
    (h : rAndIndep vt a b k = some res) :
    WFs vt res ∧ ∀ v ∈ res.vars, v ∈ a.vars ∨ v ∈ b.vars := by
  have h' : andIndep vt a b k = some res := by rw [← andIndep_tie]; exact h
  exact andIndep_s hnd wa wb hint ha hb na1 na2 nb1 nb2 h'

section
variable (A : CacheImpl (Ptr × Ptr)) (I : CacheImpl (Ptr × Ptr × Ptr)) (cfg : Config)
  (hc : cfg.compress = true) (hnd : cfg.vt.leaves.Nodup) (fuel : Nat)
include hc hnd

/-- one unfolding of `and` as the source reads keeps results in normal form (compression on) -/
theorem andBody_s_source {andF : AndF A.σ} (hand : AndOK (AppInv A cfg.vt) cfg.vt andF)
    (hands : AndOKs (AppInv2 A cfg.vt) cfg.vt andF) :
    AndOKs (AppInv2 A cfg.vt) cfg.vt (rAndBody A cfg.vt true andF) := by
  rw [andBody_tie]; exact andBody_s hnd hand hands

/-- `or` as the source reads returns a pointer in normal form -/
theorem or_s_source {st a b st' r} (hP : AppInv2 A cfg.vt st) (wa : WFs cfg.vt a) (wb : WFs cfg.vt b)
    (h : rOr_ (bAnd A cfg fuel) st a b = some (st', r)) : AppInv2 A cfg.vt st' ∧ WFs cfg.vt r := by
  have h' : bOr A cfg fuel st a b = some (st', r) := by rw [or_source]; exact h
  exact bOr_s A cfg hc hnd fuel hP wa wb h'

/-- `ite` as the source reads returns a pointer in normal form -/
theorem ite_s_source {s s' : A.σ × I.σ} {f g h r : Ptr}
    (hA : AppInv2 A cfg.vt s.1) (hI : IteInvS I cfg.vt s.2)
    (wf : WFs cfg.vt f) (wg : WFs cfg.vt g) (wh : WFs cfg.vt h)
    (hr : rIte A I cfg.vt (bAnd A cfg fuel) s f g h = some (s', r)) :
    AppInv2 A cfg.vt s'.1 ∧ IteInvS I cfg.vt s'.2 ∧ WFs cfg.vt r := by
  have h' : bIte A I cfg fuel s f g h = some (s', r) := by rw [ite_source]; exact hr
  exact bIte_s A I cfg hc hnd fuel hA hI wf wg wh h'

/-- `exists` as the source reads returns a pointer in normal form -/
theorem exists_s_source {st st' : A.σ} {f r : Ptr} {x : Nat} (hP : AppInv2 A cfg.vt st)
    (wf : WFs cfg.vt f)
    (h : rExists_ (bAnd A cfg fuel) (fun st f x v => bCond A cfg fuel st f x v) st f x = some (st', r)) :
    AppInv2 A cfg.vt st' ∧ WFs cfg.vt r := by
  have h' : bExists A cfg fuel st f x = some (st', r) := by rw [exists_source]; exact h
  exact bExists_s A cfg hc hnd fuel hP wf h'

/-- `compose` as the source reads returns a pointer in normal form -/
theorem compose_s_source {s s' : A.σ × I.σ} {f g r : Ptr} {x : Nat}
    (hA : AppInv2 A cfg.vt s.1) (hI : IteInvS I cfg.vt s.2) (hx : cfg.vt.hasVar x = true)
    (wf : WFs cfg.vt f) (wg : WFs cfg.vt g)
    (hr : rCompose A I (bAnd A cfg fuel) (bIff A I cfg fuel) (bExists A cfg fuel) s f x g = some (s', r)) :
    AppInv2 A cfg.vt s'.1 ∧ IteInvS I cfg.vt s'.2 ∧ WFs cfg.vt r := by
  have h' : bCompose A I cfg fuel s f x g = some (s', r) := by rw [compose_source]; exact hr
  exact bCompose_s A I cfg hc hnd fuel hA hI hx wf wg h'

end
/-! ## `compress` (in-place index loops) -/

/-- `compress` as the source reads keeps the invariant, the partition and the denotation of the element list -/
theorem compress_ok_source {σ : Type} {P : σ → Prop} {vt : VTree} {andF : AndF σ} {ow}
    (hand : AndOK P vt andF) {wf : Nat} {st : σ} {l : List Elem} {st' : σ} {out : List Elem}
    (hwf : l.length ≤ wf) (hP : P st) (hl : ElemsOK vt ow l) (hpart : Partition l)
    (h : rCompress wf andF st l = some (st', out)) :
    P st' ∧ ElemsOK vt ow out ∧ Partition out ∧ ∀ a, evalElems a out = evalElems a l := by
  have h' : compress andF st l = some (st', out) := by rw [← compress_source wf andF st l hwf]; exact h
  exact compress_ok hand hP hl hpart h'

/-- after `compress` as the source reads the subs are pairwise distinct (the node is compressed) -/
theorem compress_distinct_source {σ : Type} {P : σ → Prop} {vt : VTree} {andF : AndF σ} {i : Nat}
    (hnd : vt.leaves.Nodup) (hand : AndOKs P vt andF) {wf : Nat} {st : σ} {l : List Elem} {st' : σ}
    {out : List Elem} (hwf : l.length ≤ wf) (hP : P st) (hok : ∀ e ∈ l, ElemOKs vt i e)
    (h : rCompress wf andF st l = some (st', out)) :
    P st' ∧ (∀ e ∈ out, ElemOKs vt i e) ∧ (out.map (·.2)).Nodup := by
  have h' : compressOuter andF l.length st l = some (st', out) := by
    have := compress_source wf andF st l hwf
    rw [this] at h; exact h
  obtain ⟨h1, h2, h3, _⟩ := compressOuter_oks hnd hand l.length st l st' out hP hok (Nat.le_refl _) h'
  exact ⟨h1, h2, h3⟩

end TieSddCoreSource

#print axioms TieSddCoreSource.uniqueBdd_eval_source
#print axioms TieSddCoreSource.uniqueOr_ok_source
#print axioms TieSddCoreSource.canonBase_ok_source
#print axioms TieSddCoreSource.canonicalize_ok_source
#print axioms TieSddCoreSource.andBody_ok_source
#print axioms TieSddCoreSource.and_correct_source
#print axioms TieSddCoreSource.or_correct_source
#print axioms TieSddCoreSource.condition_correct_source
#print axioms TieSddCoreSource.ite_correct_source
#print axioms TieSddCoreSource.exists_correct_source
#print axioms TieSddCoreSource.compose_correct_source
#print axioms TieSddCoreSource.uniqueBdd_wfs_source
#print axioms TieSddCoreSource.uniqueOr_wfs_source
#print axioms TieSddCoreSource.canonBase_wfs_source
#print axioms TieSddCoreSource.canonicalize_wfs_source
#print axioms TieSddCoreSource.andIndep_s_source
#print axioms TieSddCoreSource.andBody_s_source
#print axioms TieSddCoreSource.or_s_source
#print axioms TieSddCoreSource.ite_s_source
#print axioms TieSddCoreSource.exists_s_source
#print axioms TieSddCoreSource.compose_s_source
#print axioms TieSddCoreSource.compress_ok_source
#print axioms TieSddCoreSource.compress_distinct_source
