import RsddModel.Lemmas.Smooth
/-!
# C08 — smoothing

"Smoothing a BDD over the first n variables of the builder's order returns a diagram that
denotes the same function and on which every root-to-terminal path tests each of those n
variables exactly once, in order.  Its weighted model count therefore equals the brute-force
weighted sum over models for arbitrary, non-normalised weights, and its unweighted count
equals the number of models."

`smooth lvl varAt p n` mirrors `RobddBuilder::smooth(bdd, num_vars)` with the repaired
`smooth_helper`; `lvl` = `VarOrder::get`, `varAt` = `VarOrder::var_at_level`.  The hypotheses
are those the Rust documents ("BDD is an ROBDD, variable ordering respects the builder's
order"): `p` is ordered by `lvl` with all levels `< n` (`Ptr.ordBetween lvl 0 n`), and
`varAt`/`lvl` are inverse on the first `n` levels and on the variables of `p`.  Reducedness
is not needed.  `smoothH_orig_wrong` records that the pinned helper violates every clause
but the first.
-/
namespace C08
open Spec Bdd
variable {α : Type} {S : SROps α}

/-- Clause 1: the smoothed diagram denotes the same function (no hypothesis at all). -/
theorem smooth_same_function (lvl varAt : Nat → Nat) (p : Ptr) (n : Nat) (a : Assign) :
    (smooth lvl varAt p n).eval a = p.eval a := smooth_eval lvl varAt p n a

/-- Clause 2: every root-to-terminal path of the smoothed diagram tests exactly the variables
at levels `0, 1, …, n-1`, each exactly once, in this order. -/
theorem smooth_paths_exact {lvl varAt : Nat → Nat} {n : Nat} {p : Ptr}
    (hinv : ∀ i, i < n → lvl (varAt i) = i) (hv : ∀ v ∈ p.vars, varAt (lvl v) = v)
    (hord : p.ordBetween lvl 0 n) :
    (∀ path ∈ (smooth lvl varAt p n).paths, path = (List.range n).map varAt) ∧
    ((List.range n).map varAt).Nodup := by
  have e : levelVars varAt 0 n = (List.range n).map varAt := by
    rw [levelVars_eq_range]; simp
  rw [← e]
  exact ⟨smooth_paths lvl varAt n 0 p (by simpa using hord) hv, levelVars_nodup hinv n 0 (by omega)⟩

/-- the same from an arbitrary level `cur` on, for the helper -/
theorem smoothH_paths_exact (lvl varAt : Nat → Nat) (n cur : Nat) (p : Ptr)
    (hord : p.ordBetween lvl cur (cur + n)) (hv : ∀ v ∈ p.vars, varAt (lvl v) = v) :
    ∀ path ∈ (smoothH lvl varAt n cur p).paths,
      path = (List.range n).map (fun i => varAt (cur + i)) := by
  rw [← levelVars_eq_range]; exact smooth_paths lvl varAt n cur p hord hv

/-- Clause 3: for arbitrary, non-normalised weights the count of the smoothed diagram is the
brute-force weighted sum over the models of `p` among the `2^n` assignments of the first `n`
variables (the recursive form needs no semiring law, the list form the commutative-semiring
laws). -/
theorem smooth_wmc (hS : S.Laws) (w : Weights α) {lvl varAt : Nat → Nat} {n : Nat} {p : Ptr}
    (hinv : ∀ i, i < n → lvl (varAt i) = i) (hv : ∀ v ∈ p.vars, varAt (lvl v) = v)
    (hord : p.ordBetween lvl 0 n) (a : Assign) :
    wmc S w (smooth lvl varAt p n) = wsumList S (levelVars varAt 0 n) w p.eval a ∧
    wmc S w (smooth lvl varAt p n) = wsum S (levelVars varAt 0 n) w p.eval a ∧
    (allAssignments (levelVars varAt 0 n) a).length = 2 ^ n := by
  have h := wmc_smooth S w hinv hv hord a
  refine ⟨h.trans (wsum_eq_wsumList hS w _ _ a (levelVars_nodup hinv n 0 (by omega))), h, ?_⟩
  rw [allAssignments_length]; simp [levelVars]

/-- Clause 3, the general principle: any diagram all of whose paths test exactly the
duplicate-free list `vars` counts the brute-force sum, arbitrary weights. -/
theorem smooth_diagram_wmc (hS : S.Laws) (w : Weights α) {vars : List Nat} {q : Ptr}
    (h : ∀ path ∈ q.paths, path = vars) (hnd : vars.Nodup) (a : Assign) :
    wmc S w q = wsumList S vars w q.eval a :=
  (wmc_allpaths S w h hnd a).trans (wsum_eq_wsumList hS w _ _ a hnd)

/-- Clause 4: the unweighted count (all weights one, natural numbers) of the smoothed diagram
is the number of models of `p` among the assignments of the first `n` variables. -/
theorem smooth_count {lvl varAt : Nat → Nat} {n : Nat} {p : Ptr}
    (hinv : ∀ i, i < n → lvl (varAt i) = i) (hv : ∀ v ∈ p.vars, varAt (lvl v) = v)
    (hord : p.ordBetween lvl 0 n) (a : Assign) :
    wmc countOps (fun _ => (1, 1)) (smooth lvl varAt p n) =
      (allAssignments (levelVars varAt 0 n) a).countP p.eval :=
  count_smooth hinv hv hord a

/-- The pinned `smooth_helper` (no level test) is wrong: on `x2`, identity order on three
variables, it yields the path `[2,1,2]` and, with weights `(2,3),(3,5),(4,7)`, the count 616
where the brute-force sum — and the repaired helper — give 280. -/
theorem smoothH_orig_wrong :
    let p := Ptr.node false 2 .fls .tru
    [2, 1, 2] ∈ (smoothHOrig id id 3 0 p).paths ∧
    wmc countOps wrongW (smoothHOrig id id 3 0 p) = 616 ∧
    wsum countOps [0, 1, 2] wrongW p.eval (fun _ => false) = 280 ∧
    wmc countOps wrongW (smooth id id p 3) = 280 := smoothOrig_wrong

/-! ## non-vacuity: `¬x2 ∨ x1`-like diagram under the order `2 < 0 < 1` -/

/-- order `2 < 0 < 1` -/
def exLvl : Nat → Nat := fun v => if v = 2 then 0 else if v = 0 then 1 else if v = 1 then 2 else v
def exVarAt : Nat → Nat := fun k => if k = 0 then 2 else if k = 1 then 0 else if k = 2 then 1 else k
/-- `ite(x2, ¬x1, ⊤)` with a complement edge; level 1 (variable 0) is skipped -/
def ex : Ptr := .node false 2 .tru (.node true 1 .fls .tru)

theorem ex_inv : ∀ i, i < 3 → exLvl (exVarAt i) = i := by decide
theorem ex_vars : ∀ v ∈ ex.vars, exVarAt (exLvl v) = v := by decide
theorem ex_ord : ex.ordBetween exLvl 0 3 := by simp [ex, Ptr.ordBetween, exLvl]

example : ∀ path ∈ (smooth exLvl exVarAt ex 3).paths, path = [2, 0, 1] :=
  (smooth_paths_exact ex_inv ex_vars ex_ord).1

example : wmc countOps wrongW (smooth exLvl exVarAt ex 3) =
    wsumList countOps [2, 0, 1] wrongW ex.eval (fun _ => false) :=
  (smooth_wmc countOps_laws wrongW ex_inv ex_vars ex_ord _).1

example : wmc countOps wrongW (smooth exLvl exVarAt ex 3) = 265 ∧
    wmc countOps wrongW ex = 25 ∧
    wmc countOps (fun _ => (1, 1)) (smooth exLvl exVarAt ex 3) = 6 := by decide

end C08

#print axioms C08.smooth_same_function
#print axioms C08.smooth_paths_exact
#print axioms C08.smoothH_paths_exact
#print axioms C08.smooth_wmc
#print axioms C08.smooth_diagram_wmc
#print axioms C08.smooth_count
#print axioms C08.smoothH_orig_wrong
