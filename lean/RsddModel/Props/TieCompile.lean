import RsddModel.Model.GenCompile
import RsddModel.Lemmas.TieCompileAux
/-!
# Tie to the source text (translator route): compilation and serialisation

`RsddModel/Model/GenCompile.lean` is rewritten by `tools/gen_compile.py` from the Rust source on
every run (statement by statement, in the monad `Option`; loops through the combinators of
`Lemmas/TieCompileAux.lean`).  The theorems below state that the regenerated definitions ARE the
hand-written model definitions (`Model/BddCompile.lean`, `Model/Serialize.lean`) that the
theorems of C05 / C17 / C19 are about.  They are re-checked by the kernel on every run.

Each proof first tries definitional equality (this is also what closes the goal when the
translator route is not available and the generated name is an alias of the model), then
extensional equality by induction / case analysis with robust closing tactics, so that a
re-arrangement of the source that leaves the function unchanged still checks.  The generated
loop bodies are never named here: they are unfolded through the simp set `tie_unfold`.
-/
set_option linter.unusedSimpArgs false
set_option linter.unusedVariables false
namespace TieCompile
open Spec Compile TieAuxC

/-- closing tactic shared by the case analyses -/
macro "tie_close" : tactic =>
  `(tactic| first
    | rfl
    | (simp_all [tie_unfold]; done)
    | (repeat' split) <;> (first | rfl | (simp_all [tie_unfold]; done) | grind)
    | grind)

/-! ## `compile_logical_expr`, `compile_plan` (src/builder/mod.rs) -/

theorem compileExpr_tie : @Gen.Compile.compileExpr = @Compile.compileExpr := by
  first
  | rfl
  | (funext σ P O s e
     induction e generalizing s <;>
       simp only [Gen.Compile.compileExpr, Compile.compileExpr, *] <;> tie_close)

theorem compilePlan_tie : @Gen.Compile.compilePlan = @Compile.compilePlan := by
  first
  | rfl
  | (funext σ P O s e
     induction e generalizing s <;>
       simp only [Gen.Compile.compilePlan, Compile.compilePlan, *] <;> tie_close)

/-! ## `BottomUpPlan::from_dtree` (src/plan/bottom_up_plan.rs) -/

theorem fromDtree_tie : Gen.Compile.fromDtree = fun t => some (Compile.Plan.fromDtree t) := by
  first
  | rfl
  | (funext t
     induction t with
     | node l r ihl ihr => simp only [Gen.Compile.fromDtree, Compile.Plan.fromDtree, ihl, ihr] <;> tie_close
     | leaf c =>
       rcases c with _ | ⟨l, _ | ⟨l', ls⟩⟩ <;>
         simp [Gen.Compile.fromDtree, Compile.Plan.fromDtree, Compile.Plan.ofClause] <;> tie_close)

/-! ## `collapse_clauses`, `compile_cnf`, `compile_cnf_with_assignments` (src/builder/bdd/builder.rs) -/

theorem collapse_tie : @Gen.Compile.collapse = @Compile.collapse := by
  first
  | rfl
  | (funext σ P O fuel
     induction fuel with
     | zero =>
       funext s v
       rcases v with _ | ⟨p, _ | ⟨q, ps⟩⟩ <;>
         simp [Gen.Compile.collapse, Compile.collapse] <;> tie_close
     | succ n ih =>
       funext s v
       rcases v with _ | ⟨p, _ | ⟨q, ps⟩⟩ <;>
         simp only [Gen.Compile.collapse, Compile.collapse, ih] <;>
         simp <;> tie_close)

/-- `compile_cnf` with the `sort_by` call as the permutation parameter `perm` -/
theorem compileCnf_tie : @Gen.Compile.compileCnf = @TieAuxC.compileCnfPerm := by
  first
  | rfl
  | (funext σ P O perm s cs
     simp only [Gen.Compile.compileCnf, TieAuxC.compileCnfPerm, collapse_tie, collapseClauses]
     rw [clauses_loop O]
     · repeat' split
       all_goals tie_close
     · intro s acc c
       simp only [tie_unfold]
       rcases c with _ | ⟨l, ls⟩
       · simp
       · simp only [List.getElem?_cons_zero]
         rw [clause_loop O]
         · tie_close
         · intro s acc l; simp only [tie_unfold]; tie_close)

/-- on the identity permutation this is the model's `compileCnf` (which takes the already permuted list) -/
theorem compileCnf_tie_id {σ P : Type} (O : Ops σ P) (s : σ) (cs : Cnf) :
    Gen.Compile.compileCnf O (fun x => x) s cs = Compile.compileCnf O s cs := by
  rw [compileCnf_tie]; rfl

/-- for every `perm` that keeps emptiness (as every permutation does) -/
theorem compileCnf_tie_perm {σ P : Type} (O : Ops σ P) (perm : List Clause → List Clause) (s : σ) (cs : Cnf)
    (h1 : (perm cs).isEmpty = cs.isEmpty) (h2 : (perm cs).any List.isEmpty = cs.any List.isEmpty) :
    Gen.Compile.compileCnf O perm s cs = Compile.compileCnf O s (perm cs) := by
  rw [compileCnf_tie]; exact compileCnfPerm_eq O perm s cs h1 h2

theorem compileWithAssign_tie :
    @Gen.Compile.compileWithAssign = fun {σ P : Type} (O : Ops σ P) strat s cs m => Compile.compileWithAssign O strat m s cs := by
  first
  | rfl
  | (funext σ P O strat s cs m
     simp only [Gen.Compile.compileWithAssign, Compile.compileWithAssign, AHeap.new]
     split
     · rfl
     · rw [clausesUnder_loop O m]
       · cases clausesUnder O m s cs with
         | none => rfl
         | some r =>
           obtain ⟨s1, es⟩ := r
           simp only [List.nil_append, AHeap.len]
           rw [whileFuel_congr (c' := mergeCond) (f' := mergeBody O strat), ← merge_loop' O strat es.length s1 es]
           · cases whileFuel mergeCond (mergeBody O strat) es.length (s1, ⟨es, none⟩) with
             | none => rfl
             | some r =>
               obtain ⟨s2, h2⟩ := r
               simp only []
               repeat' split
               all_goals tie_close
           · intro b; obtain ⟨s, h⟩ := b; simp only [tie_unfold, mergeCond]
           · intro b; obtain ⟨s, h⟩ := b; simp only [tie_unfold, mergeBody]; repeat' split
             all_goals tie_close
       · intro s h c
         simp only [tie_unfold]
         rw [clauseUnder_loop O m]
         · tie_close
         · intro s cur l; simp only [tie_unfold]; repeat' split
           all_goals tie_close)

/-! ## serialisers (src/serialize/ser_vtree.rs, ser_bdd.rs) -/

theorem serVtreeHelper_tie : Gen.Compile.serVtreeHelper = fun t => some (Ser.serVtree t) := by
  first
  | rfl
  | (funext t
     induction t <;> simp only [Gen.Compile.serVtreeHelper, Ser.serVtree, *] <;> tie_close)

theorem serVtree_tie : Gen.Compile.serVtree = fun t => some (Ser.serVtree t) := by
  first
  | rfl
  | (funext t; simp only [Gen.Compile.serVtree, serVtreeHelper_tie] <;> tie_close)

/-- `serialize_helper`: the two `&mut` arguments are returned next to the pointer; the model bundles
them in `Ser.BddSt` -/
theorem serBddHelper_tie : Gen.Compile.serBddHelper = fun bdd table nodes =>
    some ((Ser.serBddAux bdd ⟨nodes, table⟩).1, (Ser.serBddAux bdd ⟨nodes, table⟩).2.table,
      (Ser.serBddAux bdd ⟨nodes, table⟩).2.nodes) := by
  first
  | rfl
  | (funext bdd
     induction bdd with
     | tru => funext table nodes; simp [Gen.Compile.serBddHelper, Ser.serBddAux]
     | fls => funext table nodes; simp [Gen.Compile.serBddHelper, Ser.serBddAux]
     | node c v lo hi ihlo ihhi =>
       funext table nodes
       simp only [Gen.Compile.serBddHelper, Ser.serBddAux, ihlo, ihhi]
       cases h : Ser.assocGet table (Bdd.Ptr.node false v lo hi) <;> simp <;> tie_close)

theorem serBdd_tie : Gen.Compile.serBdd = fun d => some (Ser.serBdd d) := by
  first
  | rfl
  | (funext d; simp only [Gen.Compile.serBdd, serBddHelper_tie, Ser.serBdd] <;> tie_close)

/-! ## `LogicalExpr::from_sexpr`, `eval` (src/repr/logical_expr.rs), `unique_variables` (src/serialize/ser_logical_expr.rs) -/

theorem fromSexprHelper_tie : Gen.Compile.fromSexprHelper = fun e m => Ser.fromSexprHelper m e := by
  first
  | rfl
  | (funext e m
     induction e with
     | not e ih =>
       cases e <;> simp [Gen.Compile.fromSexprHelper, Ser.fromSexprHelper, Option.map, bind, Option.bind] at ih ⊢ <;>
         (try rw [ih]) <;> tie_close
     | _ => simp [Gen.Compile.fromSexprHelper, Ser.fromSexprHelper, Option.map, bind, Option.bind, *] <;> tie_close)

theorem fromSexpr_tie : Gen.Compile.fromSexpr = fun e => Ser.fromSexpr e := by
  first
  | rfl
  | (funext e; simp only [Gen.Compile.fromSexpr, fromSexprHelper_tie, Ser.fromSexpr] <;> tie_close)

/-- `eval` on a total assignment (`values.get` always answers) -/
theorem eval_tie : Gen.Compile.eval = fun e a => some (Ser.LogicalExpr.eval a e) := by
  first
  | rfl
  | (funext e a
     induction e <;> simp [Gen.Compile.eval, Ser.LogicalExpr.eval, *] <;> tie_close)

/-- `unique_variables`, the `HashSet` as the list of its members (only membership matters) -/
theorem uniqueVariables_tie : Gen.Compile.uniqueVariables = fun e => some (Ser.LogicalSExpr.uniqueVariables e) := by
  first
  | rfl
  | (funext e
     induction e <;> simp [Gen.Compile.uniqueVariables, Ser.LogicalSExpr.uniqueVariables, *] <;> tie_close)

/-! ## the SDD serialiser (src/serialize/ser_sdd.rs)

The Rust starts with `table.get(&reg)` for every pointer (also constants and literals), the model
looks only nodes up; they agree on every table whose keys are regular node pointers
(`TieAuxC.NodeKeys`: what `table.insert` is called with; preserved, `TieAuxC.serSddAux_nodeKeys`;
the initial table of `from_sdd` is empty). -/

theorem sddSt_eta (s : Ser.SddSt) : (⟨s.nodes, s.table⟩ : Ser.SddSt) = s := rfl

mutual
theorem serSddHelper_tie : ∀ (d : Sdd.Ptr) (table : List (Sdd.Ptr × Nat)) (nodes : Array Ser.SddOr), NodeKeys table →
    Gen.Compile.serSddHelper d table nodes =
      some ((Ser.serSddAux d ⟨nodes, table⟩).1, (Ser.serSddAux d ⟨nodes, table⟩).2.table,
        (Ser.serSddAux d ⟨nodes, table⟩).2.nodes)
  | .tru, table, nodes, h => by
    first
    | rfl
    | (have hn := assocGet_none_of_not_key table .tru h (by simp [IsNodeKey])
       unfold Gen.Compile.serSddHelper
       simp [Ser.serSddAux, hn] <;> tie_close)
  | .fls, table, nodes, h => by
    first
    | rfl
    | (have hn := assocGet_none_of_not_key table .fls h (by simp [IsNodeKey])
       unfold Gen.Compile.serSddHelper
       simp [Ser.serSddAux, hn] <;> tie_close)
  | .lit v p, table, nodes, h => by
    first
    | rfl
    | (have hn := assocGet_none_of_not_key table (.lit v p) h (by simp [IsNodeKey])
       unfold Gen.Compile.serSddHelper
       cases p <;> simp [Ser.serSddAux] at hn ⊢ <;> simp [hn] <;> tie_close)
  | .bdd c l i lo hi, table, nodes, h => by
    first
    | rfl
    | (have ihlo := serSddHelper_tie lo table nodes h
       have ihhi := serSddHelper_tie hi _ (Ser.serSddAux lo ⟨nodes, table⟩).2.nodes
         (serSddAux_nodeKeys lo ⟨nodes, table⟩ h)
       simp only [sddSt_eta] at ihhi
       unfold Gen.Compile.serSddHelper
       cases c <;> cases hg : Ser.assocGet table (.bdd false l i lo hi) <;>
         simp [Ser.serSddAux, hg, ihlo, ihhi] <;> tie_close)
  | .dec c i es, table, nodes, h => by
    first
    | rfl
    | (have ih := serSddElems_tie es table nodes h
       unfold Gen.Compile.serSddHelper
       cases c <;> cases hg : Ser.assocGet table (.dec false i es) <;>
         simp [Ser.serSddAux, hg, ih] <;> tie_close)
theorem serSddElems_tie : ∀ (es : List (Sdd.Ptr × Sdd.Ptr)) (table : List (Sdd.Ptr × Nat)) (nodes : Array Ser.SddOr),
    NodeKeys table →
    Gen.Compile.serSddHelper_elems es table nodes =
      some ((Ser.serSddElems es ⟨nodes, table⟩).1, (Ser.serSddElems es ⟨nodes, table⟩).2.table,
        (Ser.serSddElems es ⟨nodes, table⟩).2.nodes)
  | [], table, nodes, h => by
    first
    | rfl
    | (unfold Gen.Compile.serSddHelper_elems; simp [Ser.serSddElems] <;> tie_close)
  | (p, sub) :: rest, table, nodes, h => by
    first
    | rfl
    | (have ihp := serSddHelper_tie p table nodes h
       have hk1 := serSddAux_nodeKeys p ⟨nodes, table⟩ h
       have ihs := serSddHelper_tie sub _ (Ser.serSddAux p ⟨nodes, table⟩).2.nodes hk1
       simp only [sddSt_eta] at ihs
       have hk2 := serSddAux_nodeKeys sub _ hk1
       have ihr := serSddElems_tie rest _ (Ser.serSddAux sub (Ser.serSddAux p ⟨nodes, table⟩).2).2.nodes hk2
       simp only [sddSt_eta] at ihr
       unfold Gen.Compile.serSddHelper_elems
       simp [Ser.serSddElems, ihp, ihs, ihr] <;> tie_close)
end

/-- `SDDSerializer::from_sdd` (the initial table is empty, so the side condition of `serSddHelper_tie` holds) -/
theorem serSdd_tie : Gen.Compile.serSdd = fun d => some (Ser.serSdd d) := by
  first
  | rfl
  | (funext d
     simp only [Gen.Compile.serSdd, serSddHelper_tie d [] #[] nodeKeys_nil, Ser.serSdd] <;> tie_close)

end TieCompile

#print axioms TieCompile.compileExpr_tie
#print axioms TieCompile.compilePlan_tie
#print axioms TieCompile.fromDtree_tie
#print axioms TieCompile.collapse_tie
#print axioms TieCompile.compileCnf_tie
#print axioms TieCompile.compileCnf_tie_id
#print axioms TieCompile.compileCnf_tie_perm
#print axioms TieCompile.compileWithAssign_tie
#print axioms TieCompile.serVtreeHelper_tie
#print axioms TieCompile.serVtree_tie
#print axioms TieCompile.serBddHelper_tie
#print axioms TieCompile.serBdd_tie
#print axioms TieCompile.fromSexprHelper_tie
#print axioms TieCompile.fromSexpr_tie
#print axioms TieCompile.eval_tie
#print axioms TieCompile.uniqueVariables_tie
#print axioms TieCompile.serSddHelper_tie
#print axioms TieCompile.serSddElems_tie
#print axioms TieCompile.serSdd_tie
