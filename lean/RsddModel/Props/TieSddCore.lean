import RsddModel.Model.GenSddCore
import RsddModel.Model.Sdd
import RsddModel.Lemmas.TieSddCoreAux
import RsddModel.Lemmas.TieSddCoreCompress
/-!
# Tie to the source text (translator route): the SDD builder core

`RsddModel/Model/GenSddCore.lean` is rewritten by `tools/gen_sddcore.py` from
`src/builder/sdd/builder.rs`, `src/builder/sdd/compression.rs`, `src/builder/mod.rs` and `src/repr/sdd.rs`
on every run.  The theorems below (static, hand-written) state that the regenerated definitions ARE the
definitions of the hand-written model `Sdd` (Model/Sdd.lean), which all other theorems are about.
Each proof tries definitional equality first and then unfolding + case analysis, so that harmless
re-arrangements of the Rust still check while a changed operand / branch / guard / cache key does not.
-/
set_option linter.unusedSimpArgs false
set_option linter.unusedVariables false
namespace TieSddCore
open Sdd TieSddCoreAux Gen.SddCore

/-- close an equation between two nests of `match` / `if` over the same scrutinees -/
syntax "tie_close" : tactic
macro_rules
  | `(tactic| tie_close) =>
    `(tactic| first
      | rfl
      | grind
      | (repeat' (first | rfl | (split <;> simp_all))))

syntax "split_all" : tactic
macro_rules
  | `(tactic| split_all) => `(tactic| repeat' (first | rfl | (split <;> (try simp_all))))

/-- all constructor cases of a pointer, complement flags and polarities split -/
syntax "ptr_cases " ident : tactic
macro_rules
  | `(tactic| ptr_cases $p) =>
    `(tactic| (rcases $p:ident with _ | _ | ⟨v, pol⟩ | ⟨c, l, i, lo, hi⟩ | ⟨c, i, es⟩ <;>
        (try cases c) <;> (try cases pol)))

/-! ## pointer accessors (`src/repr/sdd.rs`) -/

theorem ptrNeg_tie : @rPtrNeg = @Ptr.neg := by
  first
  | rfl
  | (funext p; ptr_cases p <;> first | rfl | simp [rPtrNeg, Ptr.neg] | grind [rPtrNeg, Ptr.neg])
theorem ptrIsNeg_tie : @rPtrIsNeg = @Ptr.isNeg := by
  first
  | rfl
  | (funext p; ptr_cases p <;> first | rfl | simp [rPtrIsNeg, Ptr.isNeg] | grind [rPtrIsNeg, Ptr.isNeg])
theorem ptrIsTrue_tie : @rPtrIsTrue = @Ptr.isTrue := by
  first
  | rfl
  | (funext p; ptr_cases p <;> first | rfl | simp [rPtrIsTrue, Ptr.isTrue] | grind [rPtrIsTrue, Ptr.isTrue])
theorem ptrIsFalse_tie : @rPtrIsFalse = @Ptr.isFalse := by
  first
  | rfl
  | (funext p; ptr_cases p <;> first | rfl | simp [rPtrIsFalse, Ptr.isFalse] | grind [rPtrIsFalse, Ptr.isFalse])
theorem ptrIsNegVar_tie : @rPtrIsNegVar = @Ptr.isNegVar := by
  first
  | rfl
  | (funext p; ptr_cases p <;> first | rfl | simp [rPtrIsNegVar, Ptr.isNegVar] | grind [rPtrIsNegVar, Ptr.isNegVar])
theorem ptrIsBdd_tie : @rPtrIsBdd = @Ptr.isBdd := by
  first
  | rfl
  | (funext p; ptr_cases p <;> first | rfl | simp [rPtrIsBdd, Ptr.isBdd] | grind [rPtrIsBdd, Ptr.isBdd])
theorem ptrLow_tie : @rPtrLow? = @Ptr.low? := by
  first
  | rfl
  | (funext p; ptr_cases p <;> first | rfl | simp [rPtrLow?, Ptr.low?] | grind [rPtrLow?, Ptr.low?])
theorem ptrHigh_tie : @rPtrHigh? = @Ptr.high? := by
  first
  | rfl
  | (funext p; ptr_cases p <;> first | rfl | simp [rPtrHigh?, Ptr.high?] | grind [rPtrHigh?, Ptr.high?])
theorem ptrVtree_tie : @rPtrVtree? = @vtree? := by
  first
  | rfl
  | (funext p; ptr_cases p <;> first | rfl | simp [rPtrVtree?, vtree?] | grind [rPtrVtree?, vtree?])

/-! ## `SddBuilder` default methods (`src/builder/sdd/builder.rs`) -/

theorem isTrue_tie : @rIsTrue = @Ptr.isTrue := by
  first
  | rfl
  | (funext p; ptr_cases p <;> first | rfl | simp [rIsTrue, Ptr.isTrue] | grind [rIsTrue, Ptr.isTrue])
theorem isFalse_tie : @rIsFalse = @Ptr.isFalse := by
  first
  | rfl
  | (funext p; ptr_cases p <;> first | rfl | simp [rIsFalse, Ptr.isFalse] | grind [rIsFalse, Ptr.isFalse])

theorem uniqueBdd_tie : @rUniqueBdd = @uniqueBdd := by
  first
  | rfl
  | (funext l lo hi idx; simp only [rUniqueBdd, uniqueBdd, Ptr.neg, Bool.not_false, Bool.not_true]; tie_close)
  | (funext l lo hi idx; simp only [rUniqueBdd, uniqueBdd]
     ptr_cases hi <;> ptr_cases lo <;>
       simp [Ptr.isTrue, Ptr.isFalse, Ptr.isNeg, Ptr.isNegVar, Ptr.neg] <;> grind)

theorem uniqueOr_tie : @rUniqueOr = @uniqueOr := by
  first
  | rfl
  | (funext node table
     rcases node with _ | ⟨⟨p0, s0⟩, _ | ⟨⟨p1, s1⟩, _ | ⟨e2, tl⟩⟩⟩
     · simp [rUniqueOr, uniqueOr, asBdd?, sortByPrime]
     · generalize hL : sortByPrime [(p0, s0)] = L
       cases p0 <;> simp [rUniqueOr, uniqueOr, asBdd?, negSubs, Ptr.neg, hL] <;>
         (cases L <;> simp <;> split_all)
     · generalize hL : sortByPrime [(p0, s0), (p1, s1)] = L
       cases p0 <;> cases p1 <;> simp [rUniqueOr, uniqueOr, asBdd?, negSubs, Ptr.neg, hL] <;>
         (first
          | done
          | (cases L <;> simp <;> split_all)
          | (rename_i pol _ _; cases pol <;> simp <;> split_all))
     · generalize hL : sortByPrime ((p0, s0) :: (p1, s1) :: e2 :: tl) = L
       simp [rUniqueOr, uniqueOr, asBdd?, negSubs, Ptr.neg, hL]
       cases L <;> simp <;> split_all)

theorem vtreeIndex_tie : @rVtreeIndex? = @vtreeIndex? := by
  first
  | rfl
  | (funext vt p; ptr_cases p <;>
       first | rfl | simp [rVtreeIndex?, vtreeIndex?, vtreeIndex, vtree?, Ptr.isTrue, Ptr.isFalse])

theorem andIndep_tie : @rAndIndep = @andIndep := by
  first
  | rfl
  | (funext vt a b lca; simp only [rAndIndep, andIndep]; tie_close)
  | (funext vt a b lca; simp only [rAndIndep, andIndep]; ptr_cases a <;> simp <;> grind)

/-! ## `BottomUpBuilder` for SDDs -/

theorem var_tie : @rVar = fun (label : Nat) (polarity : Bool) => Ptr.lit label polarity := by
  first
  | rfl
  | (funext l p; simp [rVar])
theorem negate_tie : @rNegate = @Ptr.neg := by
  first
  | rfl
  | (funext p; ptr_cases p <;> first | rfl | simp [rNegate, Ptr.neg])

theorem or_tie : @rOr_ = @orF := by
  first
  | rfl
  | (funext σ andF st a b; simp only [rOr_, orF]; tie_close)

theorem andBody_tie : @rAndBody = @andBody := by
  first
  | rfl
  | (funext A vt cmpr andF st a b; simp only [rAndBody, andBody, andCore]; tie_close)
  | (funext A vt cmpr andF st a b; simp only [rAndBody, andBody, andCore]
     repeat' (first | rfl | (split <;> simp_all) | grind))

theorem ite_tie : @rIte = @iteBody := by
  first
  | rfl
  | (funext A I vt andF s f g h; simp only [rIte, iteBody]; tie_close)
  | (funext A I vt andF s f g h; simp only [rIte, iteBody]
     cases hk : Ite.new (primeOrd vt) f g h <;> simp_all <;> tie_close)
theorem iff_tie : @rIff = @iffBody := by
  first
  | rfl
  | (funext τ iteF s f g; simp only [rIff, iffBody]; tie_close)
theorem xor_tie : @rXor = @xorBody := by
  first
  | rfl
  | (funext τ iteF s f g; simp only [rXor, xorBody]; tie_close)
theorem exists_tie : @rExists_ = @existsBody := by
  first
  | rfl
  | (funext σ andF condF st f x; simp only [rExists_, existsBody]; tie_close)
theorem compose_tie : @rCompose = @composeBody := by
  first
  | rfl
  | (funext A I andF iffF existsF s f x g; simp only [rCompose, composeBody]; tie_close)

/-! ## `CompressionSddBuilder` (`src/builder/sdd/compression.rs`) -/

theorem sddEq_tie : @rSddEq = fun (a b : Ptr) => decide (a = b) := by
  first
  | rfl
  | (funext a b; simp [rSddEq]; done)
  | (funext a b; simp [rSddEq]; grind)

theorem canonBase_tie : @rCanonBase? = fun (node : List Elem) => some (canonBase? node) := by
  first
  | rfl
  | (funext node
     rcases node with _ | ⟨⟨p0, s0⟩, _ | ⟨⟨p1, s1⟩, _ | ⟨e2, tl⟩⟩⟩ <;>
       simp [rCanonBase?, canonBase?] <;> (repeat' (first | rfl | (split <;> simp_all))) <;> grind)

theorem canonicalize_tie : @rCanonicalize = @canonicalize := by
  first
  | rfl
  | (funext σ cmpr andF st node table; simp only [rCanonicalize, canonicalize]; tie_close)

/-! `compress`: the regenerated index loops are the literal mirror of `Lemmas/TieSddCoreCompress.lean`, which is
proved EQUAL to the model's list recursion (`compressIdx_eq`, same order of elements) -/

theorem compress_while2_tie : @rCompress_while2 = @TieSddCoreCompress.compressWhile := by
  first
  | rfl
  | (funext σ wf andF i fuel
     induction fuel with
     | zero => funext st node j; simp [rCompress_while2, TieSddCoreCompress.compressWhile]
     | succ f ih =>
       funext st node j
       simp only [rCompress_while2, TieSddCoreCompress.compressWhile, ih]
       split_all)

theorem compress_for1_tie : @rCompress_for1 = @TieSddCoreCompress.compressFor := by
  first
  | rfl
  | (funext σ wf andF k
     induction k with
     | zero => funext st i node; simp [rCompress_for1, TieSddCoreCompress.compressFor]
     | succ k ih =>
       funext st i node
       simp only [rCompress_for1, TieSddCoreCompress.compressFor, ih, compress_while2_tie]
       split_all)

theorem compress_tie : @rCompress = @TieSddCoreCompress.compressIdx := by
  first
  | rfl
  | (funext σ wf andF st node
     simp only [rCompress, TieSddCoreCompress.compressIdx, compress_for1_tie]
     split_all)

/-- `compress` as the source reads IS the model's `compress` (fuel for the `while` ≥ length of the vector) -/
theorem compress_source {σ : Type} (wf : Nat) (andF : AndF σ) (st : σ) (node : List Elem)
    (hwf : node.length ≤ wf) : rCompress wf andF st node = Sdd.compress andF st node := by
  rw [compress_tie]; exact TieSddCoreCompress.compressIdx_eq wf andF st node hwf

theorem appCacheGet_tie :
    @rAppCacheGet = fun (A : CacheImpl (Ptr × Ptr)) (st : A.σ) (k : Elem) => A.get st k := by
  first
  | rfl
  | (funext A st k; simp [rAppCacheGet])
theorem appCacheInsert_tie :
    @rAppCacheInsert = fun (A : CacheImpl (Ptr × Ptr)) (st : A.σ) (k : Elem) (r : Ptr) => A.insert st k r := by
  first
  | rfl
  | (funext A st k r; simp [rAppCacheInsert])
theorem iteCacheGet_tie : @rIteCacheGet = @iteCacheGet := by
  first
  | rfl
  | (funext I st i; cases i <;> simp [rIteCacheGet, iteCacheGet])
theorem iteCacheInsert_tie : @rIteCacheInsert = @iteCacheInsert := by
  first
  | rfl
  | (funext I st i r; cases i <;> simp [rIteCacheInsert, iteCacheInsert, isComplChoice] <;> grind)

/-! ## the loops (`for … in node_iter()`), by induction on the element list -/

theorem andSubDesc_loop1_tie : @rAndSubDesc_loop1 = @subDescLoopG := by
  first
  | rfl
  | (funext σ cmpr andF d c i es st l
     induction l generalizing st with
     | nil => simp [rAndSubDesc_loop1, subDescLoopG, adj_nil, subDescLoop, liftList]
     | cons hd tl ih =>
       obtain ⟨p, s⟩ := hd
       simp only [rAndSubDesc_loop1, subDescLoopG, adj_cons, subDescLoop, liftList, isNeg_dec, ih]
       cases h1 : andF st (if c = true then s.neg else s) d with
       | none => simp
       | some r1 =>
         obtain ⟨st1, ns⟩ := r1
         simp only [subDescLoopG]
         cases h2 : subDescLoop andF d st1 (adj c tl) with
         | none => simp [liftList]
         | some r2 => obtain ⟨st2, v⟩ := r2; simp [liftList])

theorem andPrimeDesc_loop2_tie : @rAndPrimeDesc_loop2 = @primeInnerG := by
  first
  | rfl
  | (funext σ cmpr andF r a1 st l
     induction l generalizing st with
     | nil => simp [rAndPrimeDesc_loop2, primeInnerG, innerLoop]
     | cons hd tl ih =>
       obtain ⟨p2, s2⟩ := hd
       simp only [rAndPrimeDesc_loop2, primeInnerG, innerLoop, ih, Bool.false_and, Bool.false_eq_true, if_false]
       split_all)

theorem andPrimeDesc_loop1_tie : @rAndPrimeDesc_loop1 = @primeOuterG := by
  first
  | rfl
  | (funext σ cmpr andF r d st l
     induction l generalizing st with
     | nil => simp [rAndPrimeDesc_loop1, primeOuterG, adj_nil, prodLoop]
     | cons hd tl ih =>
       obtain ⟨p1, s1⟩ := hd
       simp only [rAndPrimeDesc_loop1, primeOuterG, adj_cons, prodLoop, ih, andPrimeDesc_loop2_tie, primeInnerG,
         Bool.false_eq_true, if_false]
       split_all)

theorem andCartesian_loop2_tie : @rAndCartesian_loop2 = @cartInnerG := by
  first
  | rfl
  | (funext σ vt cmpr andF a b a1 st l
     induction l generalizing st with
     | nil => simp [rAndCartesian_loop2, cartInnerG, adj_nil, innerLoop]
     | cons hd tl ih =>
       obtain ⟨p2, s2⟩ := hd
       simp only [rAndCartesian_loop2, cartInnerG, adj_cons, innerLoop, ih, Bool.true_and]
       split_all)

theorem andCartesian_loop1_tie : @rAndCartesian_loop1 = @cartOuterG := by
  first
  | rfl
  | (funext σ vt cmpr andF a b st l
     induction l generalizing st with
     | nil => simp [rAndCartesian_loop1, cartOuterG]
     | cons hd tl ih =>
       obtain ⟨p1, s1⟩ := hd
       simp only [rAndCartesian_loop1, cartOuterG, adj_cons, prodLoop, ih, andCartesian_loop2_tie, find?_adj,
         if_true, cartInnerG]
       cases hb : Ptr.nodeIter? b with
       | none => simp
       | some eb =>
         simp only []
         cases hf : List.find? (fun e => decide (e.1 = p1)) eb with
         | none =>
           simp only [Option.map_none]
           cases tl with
           | nil => simp only [adj_nil, prodLoop]; split_all
           | cons e2 tl2 => simp only []; split_all
         | some e =>
           simp only [Option.map_some]
           cases tl with
           | nil => simp only [adj_nil, prodLoop]; split_all
           | cons e2 tl2 => simp only []; split_all)

theorem condition_loop1_tie : @rCondition_loop1 = @condLoopG := by
  first
  | rfl
  | (funext σ cmpr andF condF f x v st l
     induction l generalizing st with
     | nil => simp [rCondition_loop1, condLoopG, adj_nil, condLoop]
     | cons hd tl ih =>
       obtain ⟨p, s⟩ := hd
       simp only [rCondition_loop1, condLoopG, adj_cons, condLoop, ih]
       split_all)

/-! ## the vtree cases of `and`, `condition` -/

theorem andSubDesc_tie : @rAndSubDesc = @andSubDesc := by
  first
  | rfl
  | (funext σ cmpr andF st r d
     rcases r with _ | _ | ⟨v, pol⟩ | ⟨c, l, i, lo, hi⟩ | ⟨c, i, es⟩
     · rfl
     · rfl
     · rfl
     · simp only [rAndSubDesc, andSubDesc, Ptr.low?, Ptr.high?]
       first | rfl | grind | split_all
     · simp only [rAndSubDesc, andSubDesc, andSubDesc_loop1_tie, subDescLoopG, adj]
       cases h : subDescLoop andF d st (if c = true then negSubs es else es) with
       | none => simp [liftList]
       | some r => obtain ⟨st', v⟩ := r; simp [liftList])

theorem andPrimeDesc_tie : @rAndPrimeDesc = @andPrimeDesc := by
  first
  | rfl
  | (funext σ cmpr andF st r d
     rcases r with _ | _ | ⟨v, pol⟩ | ⟨c, l, i, lo, hi⟩ | ⟨c, i, es⟩ <;>
       simp only [rAndPrimeDesc, andPrimeDesc, andPrimeDesc_loop1_tie, primeOuterG, elems?_eq, Ptr.nodeIter?,
         vtree?, Option.map] <;>
       split_all)

theorem prodLoop_nil_adj {σ : Type} (andF : AndF σ) (eb : List Elem) (st : σ) (c : Bool) (tl : List Elem) :
    (match tl with
      | [] => some (st, LoopRes.elems [])
      | _ :: _ => prodLoop andF true eb st (adj c tl)) = prodLoop andF true eb st (adj c tl) := by
  cases tl <;> simp [adj_nil, prodLoop]

/-- `and_cartesian`.  The hypothesis excludes a decision node WITHOUT elements as first operand: there the
Rust (and the generated definition) never looks at `b` and answers `canonicalize([])`, while the model panics
on a non-node `b` (see TRANSLATOR_NOTES_sddcore.md); such a node is never built (`unique_or` panics on `[]`). -/
theorem andCartesian_tie {σ : Type} (vt : VTree) (cmpr : Bool) (andF : AndF σ) (st : σ) (a b : Ptr) (lca : Nat)
    (ha : ∀ c i, a ≠ .dec c i []) :
    rAndCartesian vt cmpr andF st a b lca = andCartesian vt cmpr andF st a b lca := by
  first
  | rfl
  | (have key : ∀ es, a.nodeIter? = some es → es ≠ [] →
         (match cartOuterG vt cmpr andF a b st es with
           | none => none
           | some (st', LoopRes.early x) => some (st', x)
           | some (st', LoopRes.elems l) => canonicalize cmpr andF st' l lca) =
         (match a.elems?, b.elems? with
           | some ea, some eb =>
             match prodLoop andF true eb st ea with
             | none => none
             | some (st', .early x) => some (st', x)
             | some (st', .elems l) => canonicalize cmpr andF st' l lca
           | _, _ => none) := by
       intro es hes hne
       rcases es with _ | ⟨e, es⟩
       · exact absurd rfl hne
       · simp only [cartOuterG, elems?_eq, hes, Option.map]
         cases hb : Ptr.nodeIter? b <;> simp
     rcases a with _ | _ | ⟨v, pol⟩ | ⟨c, l, i, lo, hi⟩ | ⟨c, i, es⟩
     · cases hrl : vt.isRLAt lca <;> simp [rAndCartesian, andCartesian, Ptr.nodeIter?, Ptr.elems?, hrl]
     · cases hrl : vt.isRLAt lca <;> simp [rAndCartesian, andCartesian, Ptr.nodeIter?, Ptr.elems?, hrl]
     · cases hrl : vt.isRLAt lca <;> simp [rAndCartesian, andCartesian, Ptr.nodeIter?, Ptr.elems?, hrl]
     · have k2 := key _ rfl (by simp)
       simp only [rAndCartesian, andCartesian, andCartesian_loop1_tie]
       cases hrl : vt.isRLAt lca
       · simp only [Bool.false_eq_true, if_false]
         exact k2
       · simp only [if_true, Ptr.low?, Ptr.high?]
         split_all
     · have k2 := key es rfl (by intro h; exact ha c i (by rw [h]))
       simp only [rAndCartesian, andCartesian, andCartesian_loop1_tie]
       cases hrl : vt.isRLAt lca <;> simp only [Bool.false_eq_true, if_false, if_true] <;> exact k2)

theorem condition_tie : @rCondition = @condBody := by
  first
  | rfl
  | (funext σ cmpr andF condF st f x v
     rcases f with _ | _ | ⟨v, pol⟩ | ⟨c, l, i, lo, hi⟩ | ⟨c, i, es⟩ <;> (try cases c) <;>
       simp only [rCondition, condBody, condition_loop1_tie, condLoopG, Ptr.nodeIter?, isNeg_dec, isNeg_bdd, vtree?,
         adj, negSubs, List.map, if_true, if_false, Bool.false_eq_true] <;>
       split_all)

/-! ## the model's derived operations are the generated ones -/

section
variable (A : CacheImpl (Ptr × Ptr)) (I : CacheImpl (Ptr × Ptr × Ptr)) (cfg : Config) (fuel : Nat)

theorem and_source : Sdd.and A cfg.vt cfg.compress (fuel + 1) = rAndBody A cfg.vt cfg.compress (Sdd.and A cfg.vt cfg.compress fuel) := by
  rw [andBody_tie]; rfl
theorem or_source : bOr A cfg fuel = rOr_ (bAnd A cfg fuel) := by rw [or_tie]; rfl
theorem ite_source : bIte A I cfg fuel = rIte A I cfg.vt (bAnd A cfg fuel) := by rw [ite_tie]; rfl
theorem iff_source : bIff A I cfg fuel = rIff (bIte A I cfg fuel) := by rw [iff_tie]; rfl
theorem xor_source : bXor A I cfg fuel = rXor (bIte A I cfg fuel) := by rw [xor_tie]; rfl
theorem exists_source :
    bExists A cfg fuel = rExists_ (bAnd A cfg fuel) (fun st f x v => bCond A cfg fuel st f x v) := by
  rw [exists_tie]; exact bExists_eq A cfg fuel
theorem compose_source :
    bCompose A I cfg fuel = rCompose A I (bAnd A cfg fuel) (bIff A I cfg fuel) (bExists A cfg fuel) := by
  rw [compose_tie]; rfl
theorem condition_source {σ : Type} (cmpr : Bool) (andF : AndF σ) (x : Nat) (v : Bool) (n : Nat) (st : σ) (f : Ptr) :
    Sdd.condition cmpr andF x v (n + 1) st f =
      rCondition cmpr andF (fun st f _ _ => Sdd.condition cmpr andF x v n st f) st f x v := by
  rw [condition_tie]; exact condition_succ cmpr andF x v n st f
end

end TieSddCore

#print axioms TieSddCore.ptrNeg_tie
#print axioms TieSddCore.ptrIsNeg_tie
#print axioms TieSddCore.ptrIsTrue_tie
#print axioms TieSddCore.ptrIsFalse_tie
#print axioms TieSddCore.ptrIsNegVar_tie
#print axioms TieSddCore.ptrIsBdd_tie
#print axioms TieSddCore.ptrLow_tie
#print axioms TieSddCore.ptrHigh_tie
#print axioms TieSddCore.ptrVtree_tie
#print axioms TieSddCore.isTrue_tie
#print axioms TieSddCore.isFalse_tie
#print axioms TieSddCore.uniqueBdd_tie
#print axioms TieSddCore.uniqueOr_tie
#print axioms TieSddCore.vtreeIndex_tie
#print axioms TieSddCore.andIndep_tie
#print axioms TieSddCore.var_tie
#print axioms TieSddCore.negate_tie
#print axioms TieSddCore.or_tie
#print axioms TieSddCore.andBody_tie
#print axioms TieSddCore.ite_tie
#print axioms TieSddCore.iff_tie
#print axioms TieSddCore.xor_tie
#print axioms TieSddCore.exists_tie
#print axioms TieSddCore.compose_tie
#print axioms TieSddCore.sddEq_tie
#print axioms TieSddCore.canonBase_tie
#print axioms TieSddCore.canonicalize_tie
#print axioms TieSddCore.compress_while2_tie
#print axioms TieSddCore.compress_for1_tie
#print axioms TieSddCore.compress_tie
#print axioms TieSddCore.compress_source
#print axioms TieSddCore.appCacheGet_tie
#print axioms TieSddCore.appCacheInsert_tie
#print axioms TieSddCore.iteCacheGet_tie
#print axioms TieSddCore.iteCacheInsert_tie
#print axioms TieSddCore.andSubDesc_loop1_tie
#print axioms TieSddCore.andPrimeDesc_loop2_tie
#print axioms TieSddCore.andPrimeDesc_loop1_tie
#print axioms TieSddCore.andCartesian_loop2_tie
#print axioms TieSddCore.andCartesian_loop1_tie
#print axioms TieSddCore.condition_loop1_tie
#print axioms TieSddCore.andSubDesc_tie
#print axioms TieSddCore.andPrimeDesc_tie
#print axioms TieSddCore.prodLoop_nil_adj
#print axioms TieSddCore.andCartesian_tie
#print axioms TieSddCore.condition_tie
#print axioms TieSddCore.and_source
#print axioms TieSddCore.or_source
#print axioms TieSddCore.ite_source
#print axioms TieSddCore.iff_source
#print axioms TieSddCore.xor_source
#print axioms TieSddCore.exists_source
#print axioms TieSddCore.compose_source
#print axioms TieSddCore.condition_source
