import RsddModel.Model.BddBuilder
import RsddModel.Model.BddCaches
import RsddModel.Lemmas.BddCanon
import RsddModel.Lemmas.BddWF
import RsddModel.Lemmas.BddSem
/-!
# C01 — BDD operations compute the function they name

Property theorems only; the work is in `Lemmas/BddSem` (semantics), `Lemmas/BddWF`
(well-formedness preservation), `Lemmas/BddCond` (memo transparency).

* `step_correct` : one builder call refines one step of the Boolean-function specification,
  keeps the invariant, and only *appends* to the pool (so every earlier diagram is untouched
  and keeps denoting the same function);
* `run_correct`, `run_refines` : the lift to any sequence of calls, for every lawful apply cache
  `C : CacheImpl`, every injective level map `lvl` (variable order) and every fuel;
* non-vacuity `example`s: a concrete program on three variables, run with the list-backed
  cache `AllCache`, returns `some` with the expected pool.
-/
namespace Bdd
open Spec

/-- builder invariant: the apply cache is semantically sound and only holds well formed results,
and every diagram handed out so far is well formed -/
def Inv (C : CacheImpl) (lvl : Nat → Nat) (st : St C) : Prop :=
  CacheSound C st.cache ∧ CacheWF C lvl st.cache ∧ ∀ p ∈ st.pool, WF lvl p

/-- the builder state `st` refines the specification state `sp`: same number of variables, same
pool length, and the `i`-th diagram denotes the `i`-th Boolean function -/
def Rel {C : CacheImpl} (st : St C) (sp : Nat × List BoolFn) : Prop :=
  sp.1 = st.numVars ∧ sp.2.length = st.pool.length ∧
  ∀ i (h1 : i < st.pool.length) (h2 : i < sp.2.length),
    (fun a => (st.pool[i]'h1).eval a) = sp.2[i]'h2

theorem rel_iff {C : CacheImpl} (st : St C) (sp : Nat × List BoolFn) :
    Rel st sp ↔ sp = (st.numVars, st.pool.map den) := by
  obtain ⟨n, fs⟩ := sp
  constructor
  · rintro ⟨h1, h2, h3⟩
    simp only at h1 h2 h3
    subst h1
    congr 1
    apply List.ext_getElem
    · simpa using h2
    · intro i hi hi'
      have hi'' : i < st.pool.length := by simpa using hi'
      rw [List.getElem_map]
      exact (h3 i hi'' hi).symm
  · intro h
    cases h
    refine ⟨rfl, by simp, ?_⟩
    intro i h1 h2
    simp only [List.getElem_map]; rfl

theorem inv_init (C : CacheImpl) (lvl : Nat → Nat) (n : Nat) : Inv C lvl (St.init C n) :=
  ⟨cacheSound_empty C, cacheWF_empty C lvl, fun p hp => by simp [St.init] at hp⟩

theorem rel_init (C : CacheImpl) (n : Nat) : Rel (St.init C n) (n, []) :=
  (rel_iff _ _).2 rfl

/-! ## one step -/

/-- what one successful call achieves, against the canonical spec state of `st` -/
def StepOK (C : CacheImpl) (lvl : Nat → Nat) (st st' : St C) (op : Op) : Prop :=
  ∃ r, st'.pool = st.pool ++ [r] ∧
    specStep (st.numVars, st.pool.map den) op = some (st'.numVars, st.pool.map den ++ [den r]) ∧
    Inv C lvl st'

theorem stepOK_mk {C : CacheImpl} {lvl : Nat → Nat} {st : St C} {op : Op} {s' : C.σ} {n' : Nat}
    {r : Ptr} (hs : CacheSound C s') (hw : CacheWF C lvl s') (wr : WF lvl r)
    (hpool : ∀ p ∈ st.pool, WF lvl p)
    (hspec : specStep (st.numVars, st.pool.map den) op = some (n', st.pool.map den ++ [den r])) :
    StepOK C lvl st ⟨s', n', st.pool ++ [r]⟩ op := by
  refine ⟨r, rfl, hspec, hs, hw, ?_⟩
  intro p hp
  rcases List.mem_append.1 hp with h | h
  · exact hpool p h
  · simp only [List.mem_singleton] at h; subst h; exact wr

theorem getAll_spec {pool : List Ptr} : ∀ {is : List Nat} {ps : List Ptr},
    getAll pool is = some ps →
    getAllFn (pool.map den) is = some (ps.map den) ∧ ∀ p ∈ ps, p ∈ pool
  | [], ps, h => by
    simp only [getAll, Option.some.injEq] at h; subst h
    exact ⟨rfl, fun p hp => by cases hp⟩
  | i :: is, ps, h => by
    simp only [getAll] at h
    split at h
    · rename_i p qs hp hqs
      simp only [Option.some.injEq] at h; subst h
      obtain ⟨h1, h2⟩ := getAll_spec hqs
      refine ⟨by simp [getAllFn, List.getElem?_map, hp, h1], ?_⟩
      intro q hq
      rcases List.mem_cons.1 hq with e | e
      · subst e; exact List.mem_of_getElem? hp
      · exact h2 q e
    · cases h

theorem step_core (C : CacheImpl) (lvl : Nat → Nat) (inj : ∀ x y, lvl x = lvl y → x = y)
    (fuel : Nat) (st st' : St C) (op : Op) (hinv : Inv C lvl st)
    (hstep : step C lvl fuel st op = some st') : StepOK C lvl st st' op := by
  obtain ⟨hs, hw, hpool⟩ := hinv
  have wfAt : ∀ {i p}, st.pool[i]? = some p → WF lvl p :=
    fun h => hpool _ (List.mem_of_getElem? h)
  cases op with
  | const b =>
    simp only [step, Option.some.injEq] at hstep; subst hstep
    refine stepOK_mk hs hw ?_ hpool ?_
    · cases b
      · exact WF_fls lvl
      · exact WF_tru lvl
    · cases b <;> simp [specStep, den_tru, den_fls]
  | var x pol =>
    simp only [step] at hstep
    split at hstep
    · rename_i hx
      simp only [Option.some.injEq] at hstep; subst hstep
      exact stepOK_mk hs hw (mkVar_WF lvl x pol) hpool (by simp [specStep, hx, mkVar_sem])
    · cases hstep
  | newVar pol =>
    simp only [step, Option.some.injEq] at hstep; subst hstep
    exact stepOK_mk hs hw (mkVar_WF lvl _ pol) hpool (by simp [specStep, mkVar_sem])
  | neg i =>
    simp only [step, Option.map_eq_some_iff] at hstep
    obtain ⟨p, hp, rfl⟩ := hstep
    exact stepOK_mk hs hw (WF_neg (wfAt hp)) hpool
      (by simp [specStep, List.getElem?_map, hp, den_neg])
  | and i j =>
    simp only [step] at hstep
    split at hstep
    · rename_i p q hp hq
      simp only [Option.map_eq_some_iff] at hstep
      obtain ⟨⟨s, r⟩, hrun, rfl⟩ := hstep
      obtain ⟨hs', er⟩ := bAnd_sem hs hrun
      obtain ⟨hw', wr⟩ := bAnd_WF C lvl inj hw (wfAt hp) (wfAt hq) hrun
      exact stepOK_mk hs' hw' wr hpool (by simp [specStep, List.getElem?_map, hp, hq, er])
    · cases hstep
  | or i j =>
    simp only [step] at hstep
    split at hstep
    · rename_i p q hp hq
      simp only [Option.map_eq_some_iff] at hstep
      obtain ⟨⟨s, r⟩, hrun, rfl⟩ := hstep
      obtain ⟨hs', er⟩ := bOr_sem hs hrun
      obtain ⟨hw', wr⟩ := bOr_WF C lvl inj hw (wfAt hp) (wfAt hq) hrun
      exact stepOK_mk hs' hw' wr hpool (by simp [specStep, List.getElem?_map, hp, hq, er])
    · cases hstep
  | xor i j =>
    simp only [step] at hstep
    split at hstep
    · rename_i p q hp hq
      simp only [Option.map_eq_some_iff] at hstep
      obtain ⟨⟨s, r⟩, hrun, rfl⟩ := hstep
      obtain ⟨hs', er⟩ := bXor_sem hs hrun
      obtain ⟨hw', wr⟩ := bXor_WF C lvl inj hw (wfAt hp) (wfAt hq) hrun
      exact stepOK_mk hs' hw' wr hpool (by simp [specStep, List.getElem?_map, hp, hq, er])
    · cases hstep
  | iff i j =>
    simp only [step] at hstep
    split at hstep
    · rename_i p q hp hq
      simp only [Option.map_eq_some_iff] at hstep
      obtain ⟨⟨s, r⟩, hrun, rfl⟩ := hstep
      obtain ⟨hs', er⟩ := bIff_sem hs hrun
      obtain ⟨hw', wr⟩ := bIff_WF C lvl inj hw (wfAt hp) (wfAt hq) hrun
      exact stepOK_mk hs' hw' wr hpool (by simp [specStep, List.getElem?_map, hp, hq, er])
    · cases hstep
  | ite i j k =>
    simp only [step] at hstep
    split at hstep
    · rename_i p q r0 hp hq hr0
      simp only [Option.map_eq_some_iff] at hstep
      obtain ⟨⟨s, r⟩, hrun, rfl⟩ := hstep
      obtain ⟨hs', er⟩ := ite_den hs hrun
      obtain ⟨hw', wr⟩ := ite_WF C lvl inj hw (wfAt hp) (wfAt hq) (wfAt hr0) hrun
      exact stepOK_mk hs' hw' wr hpool (by simp [specStep, List.getElem?_map, hp, hq, hr0, er])
    · cases hstep
  | cond i x b =>
    simp only [step] at hstep
    split at hstep
    · rename_i hx
      simp only [Option.map_eq_some_iff] at hstep
      obtain ⟨p, hp, rfl⟩ := hstep
      exact stepOK_mk hs hw (condition_WF lvl x b (wfAt hp)) hpool
        (by simp [specStep, List.getElem?_map, hp, hx, condition_sem x b (wfAt hp).1])
    · cases hstep
  | condModel i m =>
    simp only [step] at hstep
    split at hstep
    · rename_i hm
      simp only [Option.map_eq_some_iff] at hstep
      obtain ⟨p, hp, rfl⟩ := hstep
      refine stepOK_mk hs hw (condModel_WF lvl m (wfAt hp)) hpool ?_
      simp only [specStep, hm, if_true, List.getElem?_map, hp, Option.map_some,
        condModel_sem m (wfAt hp).1]
    · cases hstep
  | exist i x =>
    simp only [step] at hstep
    split at hstep
    · rename_i hx
      split at hstep
      · rename_i p hp
        simp only [Option.map_eq_some_iff] at hstep
        obtain ⟨⟨s, r⟩, hrun, rfl⟩ := hstep
        obtain ⟨hs', er⟩ := bExists_sem hs (wfAt hp).1 hrun
        obtain ⟨hw', wr⟩ := bExists_WF C lvl inj hw (wfAt hp) hrun
        exact stepOK_mk hs' hw' wr hpool (by simp [specStep, List.getElem?_map, hp, hx, er])
      · cases hstep
    · cases hstep
  | compose i x j =>
    simp only [step] at hstep
    split at hstep
    · rename_i hx
      split at hstep
      · rename_i p q hp hq
        simp only [Option.map_eq_some_iff] at hstep
        obtain ⟨⟨s, r⟩, hrun, rfl⟩ := hstep
        obtain ⟨hs', er⟩ := bCompose_sem inj hs hw (wfAt hp) (wfAt hq) hrun
        obtain ⟨hw', wr⟩ := bCompose_WF C lvl inj hw (wfAt hp) (wfAt hq) hrun
        exact stepOK_mk hs' hw' wr hpool (by simp [specStep, List.getElem?_map, hp, hq, hx, er])
      · cases hstep
    · cases hstep
  | andLst is =>
    simp only [step] at hstep
    split at hstep
    · rename_i ps hps
      simp only [Option.map_eq_some_iff] at hstep
      obtain ⟨⟨s, r⟩, hrun, rfl⟩ := hstep
      obtain ⟨hfn, hmem⟩ := getAll_spec hps
      obtain ⟨hs', er⟩ := bAndLst_sem ps hs hrun
      obtain ⟨hw', wr⟩ := bAndLst_WF C lvl inj ps hw (WF_tru lvl) (fun p hp => hpool p (hmem p hp)) hrun
      exact stepOK_mk hs' hw' wr hpool (by simp [specStep, hfn, er, den_tru])
    · cases hstep
  | orLst is =>
    simp only [step] at hstep
    split at hstep
    · rename_i ps hps
      simp only [Option.map_eq_some_iff] at hstep
      obtain ⟨⟨s, r⟩, hrun, rfl⟩ := hstep
      obtain ⟨hfn, hmem⟩ := getAll_spec hps
      obtain ⟨hs', er⟩ := bOrLst_sem ps hs hrun
      obtain ⟨hw', wr⟩ := bOrLst_WF C lvl inj ps hw (WF_fls lvl) (fun p hp => hpool p (hmem p hp)) hrun
      exact stepOK_mk hs' hw' wr hpool (by simp [specStep, hfn, er, den_fls])
    · cases hstep

/-- **C01, one call.**  For every lawful cache `C`, injective level map `lvl` and fuel: if the
builder state satisfies the invariant and refines the specification state `sp`, then a
successful call `op` is also accepted by the specification, the new states are again related,
the invariant is kept, and the pool only grows by one entry at the end — the old entries are
untouched, which is the "keeps denoting the same function after any later operation" clause. -/
theorem step_correct (C : CacheImpl) (lvl : Nat → Nat) (inj : ∀ x y, lvl x = lvl y → x = y)
    (fuel : Nat) (st st' : St C) (sp : Nat × List BoolFn) (op : Op)
    (hinv : Inv C lvl st) (hrel : Rel st sp)
    (hstep : step C lvl fuel st op = some st') :
    ∃ sp', specStep sp op = some sp' ∧ Rel st' sp' ∧ Inv C lvl st' ∧
      ∃ r, st'.pool = st.pool ++ [r] := by
  obtain ⟨r, hpool, hspec, hinv'⟩ := step_core C lvl inj fuel st st' op hinv hstep
  rw [(rel_iff st sp).1 hrel]
  refine ⟨_, hspec, (rel_iff _ _).2 ?_, hinv', r, hpool⟩
  rw [hpool, List.map_append]; rfl

/-! ## any number of steps -/

/-- **C01, any sequence of calls**, from any state satisfying the invariant -/
theorem run_correct (C : CacheImpl) (lvl : Nat → Nat) (inj : ∀ x y, lvl x = lvl y → x = y)
    (fuel : Nat) : ∀ (ops : List Op) (st st' : St C) (sp : Nat × List BoolFn),
    Inv C lvl st → Rel st sp → run C lvl fuel st ops = some st' →
    ∃ sp', specRun sp ops = some sp' ∧ Rel st' sp' ∧ Inv C lvl st' ∧
      ∃ rs, st'.pool = st.pool ++ rs
  | [], st, st', sp, hinv, hrel, hrun => by
    simp only [run, Option.some.injEq] at hrun; subst hrun
    exact ⟨sp, rfl, hrel, hinv, [], by simp⟩
  | op :: ops, st, st', sp, hinv, hrel, hrun => by
    simp only [run] at hrun
    split at hrun
    · cases hrun
    · rename_i st1 h1
      obtain ⟨sp1, hsp1, hrel1, hinv1, r, hr⟩ := step_correct C lvl inj fuel st st1 sp op hinv hrel h1
      obtain ⟨sp', hsp', hrel', hinv', rs, hrs⟩ := run_correct C lvl inj fuel ops st1 st' sp1 hinv1 hrel1 hrun
      refine ⟨sp', by simp only [specRun, hsp1, hsp'], hrel', hinv', r :: rs, ?_⟩
      rw [hrs, hr, List.append_assoc]; rfl

/-- **C01, refinement from the initial builder** (`n` variables, empty cache, empty pool): every
successful run of the builder is a successful run of the specification, diagram `i` of the
final pool denotes Boolean function `i` of the specification's pool, and the invariant holds at
the end.  For every lawful cache, every injective level map, every fuel, every program. -/
theorem run_refines (C : CacheImpl) (lvl : Nat → Nat) (inj : ∀ x y, lvl x = lvl y → x = y)
    (fuel n : Nat) (ops : List Op) (st : St C)
    (hrun : run C lvl fuel (St.init C n) ops = some st) :
    ∃ sp, specRun (n, []) ops = some sp ∧ Rel st sp ∧ Inv C lvl st := by
  obtain ⟨sp, h1, h2, h3, _⟩ :=
    run_correct C lvl inj fuel ops (St.init C n) st (n, []) (inv_init C lvl n) (rel_init C n) hrun
  exact ⟨sp, h1, h2, h3⟩

/-- history stability, spelled out: a diagram obtained after a prefix `ops₁` of the program is
still entry `i` of the pool after any continuation `ops₂`, and still denotes entry `i` of the
specification pool after `ops₁` -/
theorem run_stable (C : CacheImpl) (lvl : Nat → Nat) (inj : ∀ x y, lvl x = lvl y → x = y)
    (fuel n : Nat) (ops₁ ops₂ : List Op) (st₁ st₂ : St C)
    (h1 : run C lvl fuel (St.init C n) ops₁ = some st₁)
    (h2 : run C lvl fuel st₁ ops₂ = some st₂) :
    ∃ sp₁, specRun (n, []) ops₁ = some sp₁ ∧
      ∀ i (hi : i < st₁.pool.length), ∃ (hi2 : i < st₂.pool.length) (hi3 : i < sp₁.2.length),
        st₂.pool[i] = st₁.pool[i] ∧ (fun a => (st₂.pool[i]).eval a) = sp₁.2[i] := by
  obtain ⟨sp₁, hs1, hrel1, hinv1⟩ := run_refines C lvl inj fuel n ops₁ st₁ h1
  obtain ⟨_, _, _, _, rs, hrs⟩ := run_correct C lvl inj fuel ops₂ st₁ st₂ sp₁ hinv1 hrel1 h2
  refine ⟨sp₁, hs1, ?_⟩
  intro i hi
  have hi2 : i < st₂.pool.length := by rw [hrs, List.length_append]; omega
  have hi3 : i < sp₁.2.length := by rw [hrel1.2.1]; exact hi
  have e : st₂.pool[i] = st₁.pool[i] := by
    simp only [hrs]; exact List.getElem_append_left hi
  exact ⟨hi2, hi3, e, by rw [e]; exact hrel1.2.2 i hi hi3⟩

/-! ## non-vacuity: the hypotheses `run … = some st` are met by real programs -/
section demo
open Ptr

/-- a program over three variables that exercises every operation of the language -/
def demoProg : List Op := [.var 0 true, .var 1 true, .var 2 false, .and 0 1, .or 3 2, .exist 4 1,
  .compose 4 0 2, .cond 4 2 true, .xor 0 1, .iff 8 8, .ite 0 1 2,
  .condModel 10 [(0, true), (2, false)], .andLst [0, 1, 2], .orLst [0, 1], .neg 3, .newVar true,
  .const false]

/-- the pool it produces under the linear order -/
def demoPool : List Ptr :=
  [node false 0 fls tru,                                                        -- x0
   node false 1 fls tru,                                                        -- x1
   node true 2 fls tru,                                                         -- ¬x2
   node false 0 fls (node false 1 fls tru),                                     -- x0 ∧ x1
   node false 0 (node true 2 fls tru) (node false 1 (node true 2 fls tru) tru), -- (x0 ∧ x1) ∨ ¬x2
   node false 0 (node true 2 fls tru) tru,                                      -- ∃x1. #4 = x0 ∨ ¬x2
   node true 2 fls tru,                                                         -- #4[x0 := ¬x2] = ¬x2
   node false 0 fls (node false 1 fls tru),                                     -- #4 | x2 = x0 ∧ x1
   node true 0 (node true 1 fls tru) (node false 1 fls tru),                    -- x0 ⊕ x1
   tru,                                                                         -- #8 ⇔ #8
   node false 0 (node true 2 fls tru) (node false 1 fls tru),                   -- ite x0 x1 ¬x2
   node false 1 fls tru,                                                        -- #10 | x0, ¬x2 = x1
   node true 0 tru (node false 1 tru (node false 2 fls tru)),                   -- x0 ∧ x1 ∧ ¬x2
   node false 0 (node false 1 fls tru) tru,                                     -- x0 ∨ x1
   node true 0 fls (node false 1 fls tru),                                      -- ¬(x0 ∧ x1)
   node false 3 fls tru,                                                        -- fresh x3
   fls]

/-- with the list-backed cache and the linear order the model returns, and returns this pool -/
example : (run AllCache id 20 (St.init AllCache 3) demoProg).map (·.pool) = some demoPool := by
  decide

/-- the number of variables grew by the one `newVar`, and the apply cache was really used -/
example : (run AllCache id 20 (St.init AllCache 3) demoProg).map
    (fun st => (st.numVars, decide (0 < st.cache.length))) = some (4, true) := by decide

/-- the reversed order `2 < 1 < 0` also returns (different diagrams, e.g. `x0 ∧ x1` is rooted
at `x1`) -/
example : ((run AllCache (fun v => 10 - v) 20 (St.init AllCache 3) demoProg).map (·.pool)).map
    (fun pool => (pool.length, pool[3]?)) = some (17, some (node false 1 fls (node false 0 fls tru))) := by
  decide

/-- rejected calls return `none`: label outside the order, index outside the pool, no fuel -/
example : run AllCache id 20 (St.init AllCache 3) [.var 3 true] = none := by decide
example : run AllCache id 20 (St.init AllCache 3) [.var 0 true, .and 0 1] = none := by decide
example : run AllCache id 1 (St.init AllCache 3) [.var 0 true, .var 1 true, .and 0 1] = none := by
  decide

/-- hence the specification accepts `demoProg` as well and the two pools agree entry by entry
(an instance of `run_refines`; `id` is injective) -/
example : ∃ st sp, run AllCache id 20 (St.init AllCache 3) demoProg = some st ∧
    specRun (3, []) demoProg = some sp ∧ Rel st sp ∧ Inv AllCache id st := by
  cases h : run AllCache id 20 (St.init AllCache 3) demoProg with
  | none => exact absurd h (by decide)
  | some st =>
    obtain ⟨sp, h1, h2, h3⟩ := run_refines AllCache id (fun _ _ e => e) 20 3 demoProg st h
    exact ⟨st, sp, rfl, h1, h2, h3⟩

end demo

#print axioms step_correct
#print axioms run_correct
#print axioms run_refines
#print axioms run_stable
end Bdd
