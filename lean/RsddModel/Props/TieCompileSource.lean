import RsddModel.Props.TieCompile
import RsddModel.Props.C05Bdd
import RsddModel.Props.C17
/-!
# Source-level corollaries (translator route): C05 / C17 for the definitions regenerated from the Rust text

`Model/GenCompile.lean` is rewritten from the Rust source on every run (`tools/gen_compile.py`).  The
theorems below restate key theorems of `Props/C05Bdd.lean` and `Props/C17.lean` for those REGENERATED
definitions: each proof rewrites with a tie theorem of `Props/TieCompile.lean` and `exact`s the existing
theorem about the hand-written model.  So they say: *the function as the source text defines it now* has
the property — and they stop checking as soon as the source changes its meaning (the tie breaks).
They also build when the translator route is not available (alias mode): the ties are then `rfl`.
-/
namespace TieCompileSource
open Spec Compile Bdd Ser Spec.Text

/-- a permutation keeps emptiness of the list and the presence of an empty clause (the two early returns of `compile_cnf`) -/
private theorem perm_side {cs cs' : Cnf} (h : List.Perm cs cs') :
    cs'.isEmpty = cs.isEmpty ∧ cs'.any List.isEmpty = cs.any List.isEmpty := by
  constructor
  · have := h.length_eq
    cases cs <;> cases cs' <;> simp_all
  · rw [Bool.eq_iff_iff]; simp only [List.any_eq_true]
    exact ⟨fun ⟨c, hc, e⟩ => ⟨c, h.mem_iff.mpr hc, e⟩, fun ⟨c, hc, e⟩ => ⟨c, h.mem_iff.mp hc, e⟩⟩

section c05
variable (C : CacheImpl) (lvl : Nat → Nat) (inj : ∀ x y, lvl x = lvl y → x = y) (fuel : Nat)
include inj

/-- **C05, `compile_cnf` as the source says now**: whatever permutation `perm` the `sort_by` call performs, the diagram is well formed and its models are the satisfying assignments of the CNF -/
theorem compileCnf_correct_source (perm : List Clause → List Clause) (hp : ∀ cs, List.Perm cs (perm cs))
    {cs : Cnf} {s s' : C.σ} {r : Ptr} (hinv : CInv C lvl s)
    (h : Gen.Compile.compileCnf (ops C lvl fuel) perm s cs = some (s', r)) :
    CInv C lvl s' ∧ WF lvl r ∧ ∀ a, r.eval a = cnfSat a cs := by
  rw [TieCompile.compileCnf_tie_perm _ perm s cs (perm_side (hp cs)).1 (perm_side (hp cs)).2] at h
  exact Bdd.compileCnf_correct C lvl inj fuel (hp cs) hinv h

/-- the same with the semantics spelled out: every clause has a literal the assignment makes true -/
theorem compileCnf_models_source (perm : List Clause → List Clause) (hp : ∀ cs, List.Perm cs (perm cs))
    {cs : Cnf} {s s' : C.σ} {r : Ptr} (hinv : CInv C lvl s)
    (h : Gen.Compile.compileCnf (ops C lvl fuel) perm s cs = some (s', r)) (a : Assign) :
    r.eval a = true ↔ ∀ c ∈ cs, ∃ l ∈ c, a l.var = l.pol := by
  rw [TieCompile.compileCnf_tie_perm _ perm s cs (perm_side (hp cs)).1 (perm_side (hp cs)).2] at h
  exact Bdd.compileCnf_models C lvl inj fuel (hp cs) hinv h a

/-- **C05, `compile_cnf_with_assignments` as the source says now**, for every merge strategy: the diagram denotes the CNF conditioned on the literals of the partial model -/
theorem compileWithAssign_correct_source (strat : Strategy Ptr) {m : PModel} {lits : List (Nat × Bool)}
    (hr : Represents lits m) {cs : Cnf} {s s' : C.σ} {r : Ptr} (hinv : CInv C lvl s)
    (h : Gen.Compile.compileWithAssign (ops C lvl fuel) strat s cs m = some (s', r)) :
    CInv C lvl s' ∧ WF lvl r ∧ den r = fCondList (cnfFn cs) lits := by
  rw [TieCompile.compileWithAssign_tie] at h
  exact Bdd.compileWithAssign_correct C lvl inj fuel strat hr hinv h

/-- **C05, `compile_logical_expr` as the source says now** -/
theorem compileExpr_correct_source (e : Compile.LogicalExpr) {s s' : C.σ} {r : Ptr} (hinv : CInv C lvl s)
    (h : Gen.Compile.compileExpr (ops C lvl fuel) s e = some (s', r)) :
    CInv C lvl s' ∧ WF lvl r ∧ ∀ a, r.eval a = exprSem e a := by
  rw [TieCompile.compileExpr_tie] at h
  exact Bdd.compileExpr_correct C lvl inj fuel e hinv h

/-- **C05, `compile_plan` as the source says now** -/
theorem compilePlan_correct_source (p : Plan) {s s' : C.σ} {r : Ptr} (hinv : CInv C lvl s)
    (h : Gen.Compile.compilePlan (ops C lvl fuel) s p = some (s', r)) :
    CInv C lvl s' ∧ WF lvl r ∧ ∀ a, r.eval a = planSem p a := by
  rw [TieCompile.compilePlan_tie] at h
  exact Bdd.compilePlan_correct C lvl inj fuel p hinv h

omit inj in
/-- **`from_dtree` as the source says now** never panics and its plan denotes the conjunction of the leaf clauses, for ANY dtree -/
theorem planFromDtree_sem_source (t : DTree) :
    ∃ p, Gen.Compile.fromDtree t = some p ∧ planSem p = cnfFn t.clauses := by
  rw [TieCompile.fromDtree_tie]
  exact ⟨Plan.fromDtree t, rfl, Bdd.planFromDtree_sem t⟩

/-- **C05, `compile_plan(from_dtree(t))`, both as the source says now**: the models are the satisfying assignments of the dtree's leaf clauses -/
theorem compileDtree_correct_source (t : DTree) {p : Plan} (hp : Gen.Compile.fromDtree t = some p)
    {s s' : C.σ} {r : Ptr} (hinv : CInv C lvl s)
    (h : Gen.Compile.compilePlan (ops C lvl fuel) s p = some (s', r)) :
    CInv C lvl s' ∧ WF lvl r ∧ ∀ a, r.eval a = cnfSat a t.clauses := by
  rw [TieCompile.fromDtree_tie] at hp
  rw [TieCompile.compilePlan_tie] at h
  cases hp
  exact Bdd.compileDtree_correct C lvl inj fuel t hinv h

end c05

/-- **C05: `compile_cnf_with_assignments` returns the SAME diagram as `compile_cnf` followed by `condition_model`**, both as the source says now, for any two builders, any `sort_by` permutation, any merge strategy -/
theorem compileWithAssign_eq_condition_source (C₁ C₂ : CacheImpl) (lvl : Nat → Nat)
    (inj : ∀ x y, lvl x = lvl y → x = y) (fuel₁ fuel₂ : Nat) (strat : Strategy Ptr)
    (perm : List Clause → List Clause) (hp : ∀ cs, List.Perm cs (perm cs))
    {m : PModel} {lits : List (Nat × Bool)} (hr : Represents lits m) {cs : Cnf}
    {s₁ s₁' : C₁.σ} {s₂ s₂' : C₂.σ} {r₁ r₂ : Ptr} (i₁ : CInv C₁ lvl s₁) (i₂ : CInv C₂ lvl s₂)
    (h₁ : Gen.Compile.compileCnf (ops C₁ lvl fuel₁) perm s₁ cs = some (s₁', r₁))
    (h₂ : Gen.Compile.compileWithAssign (ops C₂ lvl fuel₂) strat s₂ cs m = some (s₂', r₂)) :
    r₂ = condModel lvl r₁ lits := by
  rw [TieCompile.compileCnf_tie_perm _ perm s₁ cs (perm_side (hp cs)).1 (perm_side (hp cs)).2] at h₁
  rw [TieCompile.compileWithAssign_tie] at h₂
  exact Bdd.compileWithAssign_eq_condition C₁ C₂ lvl inj fuel₁ fuel₂ strat hr (hp cs) i₁ i₂ h₁ h₂

/-- the clause permutation of `sort_by` does not change the diagram `compile_cnf` (as the source says now) returns -/
theorem compileCnf_perm_irrelevant_source (C : CacheImpl) (lvl : Nat → Nat) (inj : ∀ x y, lvl x = lvl y → x = y)
    (fuel : Nat) (perm₁ perm₂ : List Clause → List Clause) (hp₁ : ∀ cs, List.Perm cs (perm₁ cs))
    (hp₂ : ∀ cs, List.Perm cs (perm₂ cs)) {cs : Cnf} {s₁ s₁' s₂ s₂' : C.σ} {r₁ r₂ : Ptr}
    (i₁ : CInv C lvl s₁) (i₂ : CInv C lvl s₂)
    (h₁ : Gen.Compile.compileCnf (ops C lvl fuel) perm₁ s₁ cs = some (s₁', r₁))
    (h₂ : Gen.Compile.compileCnf (ops C lvl fuel) perm₂ s₂ cs = some (s₂', r₂)) : r₁ = r₂ := by
  rw [TieCompile.compileCnf_tie_perm _ perm₁ s₁ cs (perm_side (hp₁ cs)).1 (perm_side (hp₁ cs)).2] at h₁
  rw [TieCompile.compileCnf_tie_perm _ perm₂ s₂ cs (perm_side (hp₂ cs)).1 (perm_side (hp₂ cs)).2] at h₂
  exact Bdd.compileCnf_perm_irrelevant C lvl inj fuel (hp₁ cs) (hp₂ cs) i₁ i₂ h₁ h₂

/-! ## C17 -/

/-- **C17, `BDDSerializer::from_bdd` as the source says now** never panics and the node table it returns denotes the diagram -/
theorem serBdd_sem_source (d : Bdd.Ptr) :
    ∃ tbl r, Gen.Compile.serBdd d = some tbl ∧ tbl.roots = [r] ∧ evalBddTable tbl r = d.eval := by
  rw [TieCompile.serBdd_tie]
  obtain ⟨r, h1, h2⟩ := C17.serBdd_sem d
  exact ⟨serBdd d, r, rfl, h1, h2⟩

/-- the node table of the regenerated serialiser is in post order (children have smaller indices) -/
theorem serBdd_postorder_source (d : Bdd.Ptr) (tbl : BddTable) (ht : Gen.Compile.serBdd d = some tbl)
    (i : Nat) (n : SerBdd) (h : tbl.nodes[i]? = some n) : BPtrLt n.low i ∧ BPtrLt n.high i := by
  rw [TieCompile.serBdd_tie] at ht
  cases ht
  exact C17.serBdd_postorder d i n h

/-- **C17, `SDDSerializer::from_sdd` as the source says now** never panics and the node table it returns denotes the SDD -/
theorem serSdd_sem_source (d : Sdd.Ptr) :
    ∃ tbl r, Gen.Compile.serSdd d = some tbl ∧ tbl.roots = [r] ∧ evalSddTable tbl r = d.eval := by
  rw [TieCompile.serSdd_tie]
  obtain ⟨r, h1, h2⟩ := C17.serSdd_sem d
  exact ⟨serSdd d, r, rfl, h1, h2⟩

/-- the SDD node table of the regenerated serialiser is in post order -/
theorem serSdd_postorder_source (d : Sdd.Ptr) (tbl : SddTable) (ht : Gen.Compile.serSdd d = some tbl)
    (i : Nat) (o : SddOr) (h : tbl.nodes[i]? = some o) : ∀ e ∈ o, SPtrLt e.prime i ∧ SPtrLt e.sub i := by
  rw [TieCompile.serSdd_tie] at ht
  cases ht
  exact C17.serSdd_postorder d i o h

/-- **C17, `VTreeSerializer::from_vtree` as the source says now**: reading the JSON object back gives the vtree -/
theorem serVtree_iso_source (t : Sdd.VTree) :
    ∃ j, Gen.Compile.serVtree t = some j ∧ treeOfVtreeTable j = t := by
  rw [TieCompile.serVtree_tie]
  exact ⟨serVtree t, rfl, C17.serVtree_iso t⟩

/-- **C17, `from_sexpr` as the source says now**: the indexed expression, evaluated by `eval` as the source says now, has the value of the text under `name ↦ a (variableMapping name)` -/
theorem fromSexpr_sem_source (t : SExp) (e : LogicalSExpr) (le : Ser.LogicalExpr)
    (ht : LogicalSExpr.ofSExp t = some e) (hle : Gen.Compile.fromSexpr e = some le) (a : Assign) :
    evalSExp (nameAssign t a) t = Gen.Compile.eval le a := by
  rw [TieCompile.fromSexpr_tie] at hle
  rw [TieCompile.eval_tie]
  exact C17.fromSexpr_sem t e le ht hle a

/-- `from_sexpr` as the source says now does not panic on a constant-free formula -/
theorem fromSexpr_total_source (t : SExp) (e : LogicalSExpr) (ht : LogicalSExpr.ofSExp t = some e)
    (hc : Spec.Text.hasConst t = false) : (Gen.Compile.fromSexpr e).isSome := by
  rw [TieCompile.fromSexpr_tie]
  exact C17.fromSexpr_total t e ht hc

/-- same models, other direction: every assignment of names is induced by an indexed assignment under which the expression built by the regenerated `from_sexpr` has the value of the text -/
theorem fromSexpr_models_source (t : SExp) (e : LogicalSExpr) (le : Ser.LogicalExpr)
    (ht : LogicalSExpr.ofSExp t = some e) (hle : Gen.Compile.fromSexpr e = some le) (ρ : NameAssign) :
    ∃ a, (∀ x ∈ namesOf t, a (variableMapping t x) = ρ x) ∧ evalSExp ρ t = Gen.Compile.eval le a := by
  rw [TieCompile.fromSexpr_tie] at hle
  rw [TieCompile.eval_tie]
  exact C17.fromSexpr_models t e le ht hle ρ

end TieCompileSource

#print axioms TieCompileSource.compileCnf_correct_source
#print axioms TieCompileSource.compileCnf_models_source
#print axioms TieCompileSource.compileWithAssign_correct_source
#print axioms TieCompileSource.compileExpr_correct_source
#print axioms TieCompileSource.compilePlan_correct_source
#print axioms TieCompileSource.planFromDtree_sem_source
#print axioms TieCompileSource.compileDtree_correct_source
#print axioms TieCompileSource.compileWithAssign_eq_condition_source
#print axioms TieCompileSource.compileCnf_perm_irrelevant_source
#print axioms TieCompileSource.serBdd_sem_source
#print axioms TieCompileSource.serBdd_postorder_source
#print axioms TieCompileSource.serVtree_iso_source
#print axioms TieCompileSource.fromSexpr_sem_source
#print axioms TieCompileSource.fromSexpr_total_source
#print axioms TieCompileSource.fromSexpr_models_source
#print axioms TieCompileSource.serSdd_sem_source
#print axioms TieCompileSource.serSdd_postorder_source
