import RsddModel.Props.TieBddCore
import RsddModel.Props.C01
import RsddModel.Props.C02
import RsddModel.Props.C08
import RsddModel.Props.C16
/-!
# Source-level corollaries (translator route, group `bddcore`)

The property theorems of C01 / C02 / C08 / C16 (and the lemmas they rest on) restated for the
definitions REGENERATED from the Rust text (`Model/GenBddCore.lean`, rewritten by
`tools/gen_bddcore.py` on every run).  Every proof rewrites with a tie theorem of
`Props/TieBddCore.lean` (used by name only, so the file also builds when a function is
UNTRANSLATED and its generated name is an alias of the model) and `exact`s the existing theorem.
-/
set_option linter.unusedVariables false
namespace TieBddCoreSource
open Bdd Spec TieBddCore

/-! ## (1) `ite_helper` as the source says now is sound (C01) -/

/-- `ite_helper` (regenerated): from a sound cache, a returned result denotes `ite(f, g, h)` and
the cache stays sound — for every lawful cache and every level map -/
theorem ite_source_sound (C : CacheImpl) (lvl : Nat → Nat) (fuel : Nat) (s s' : C.σ) (f g h r : Ptr)
    (hs : CacheSound C s) (hrun : Gen.BddCore.ite C lvl fuel s f g h = some (s', r)) :
    CacheSound C s' ∧ ∀ a, r.eval a = iteB (f.eval a) (g.eval a) (h.eval a) := by
  rw [ite_tie] at hrun
  exact ite_sem C lvl fuel s f g h s' r hs hrun

/-- the same from the empty cache of a fresh builder -/
theorem ite_source_sound_fresh (C : CacheImpl) (lvl : Nat → Nat) (fuel : Nat) (s' : C.σ) (f g h r : Ptr)
    (hrun : Gen.BddCore.ite C lvl fuel C.empty f g h = some (s', r)) (a : Assign) :
    r.eval a = iteB (f.eval a) (g.eval a) (h.eval a) :=
  (ite_source_sound C lvl fuel C.empty s' f g h r (cacheSound_empty C) hrun).2 a

/-! ## (2) conditioning and the derived operations as the source says now (C01) -/

/-- `cond_with_alloc` (regenerated) with a fresh memo computes the cofactor of an ordered diagram -/
theorem condWithAlloc_source_sem {lvl : Nat → Nat} {k : Nat} {p : Ptr} (x : Nat) (b : Bool)
    (ha : p.above lvl k) : den (Gen.BddCore.condWithAlloc lvl x b p []).2 = fCond (den p) x b := by
  rw [condWithAlloc_tie]
  exact condition_sem x b ha

/-- `cond_helper` (regenerated) computes the cofactor -/
theorem condHelper_source_sem {lvl : Nat → Nat} {k : Nat} {p : Ptr} (x : Nat) (b : Bool)
    (ha : p.above lvl k) : den (Gen.BddCore.condHelper lvl p x b) = fCond (den p) x b := by
  rw [condHelper_tie]
  exact condition_sem x b ha

/-- `BottomUpBuilder::condition` (regenerated) computes the cofactor -/
theorem condition_source_sem {lvl : Nat → Nat} {k : Nat} {p : Ptr} (x : Nat) (b : Bool)
    (ha : p.above lvl k) : den (Gen.BddCore.condition lvl p x b) = fCond (den p) x b := by
  rw [condition_tie]
  exact condition_sem x b ha

/-- `condition` (regenerated) keeps diagrams well formed -/
theorem condition_source_WF (lvl : Nat → Nat) (x : Nat) (b : Bool) {p : Ptr} (h : WF lvl p) :
    WF lvl (Gen.BddCore.condition lvl p x b) := by
  rw [condition_tie]
  exact condition_WF lvl x b h

/-- `var` (regenerated) denotes the literal and is well formed -/
theorem mkVar_source (lvl : Nat → Nat) (x : Nat) (pol : Bool) :
    den (Gen.BddCore.mkVar x pol) = fVar x pol ∧ WF lvl (Gen.BddCore.mkVar x pol) := by
  rw [mkVar_tie]
  exact ⟨mkVar_sem x pol, mkVar_WF lvl x pol⟩

/-- `negate` (regenerated) denotes the negation -/
theorem bNegate_source_sem (p : Ptr) : den (Gen.BddCore.bNegate p) = fNot (den p) := by
  rw [bNegate_tie]
  exact den_neg p

section ops
variable {C : CacheImpl} {lvl : Nat → Nat} {fuel : Nat}

/-- `and` (regenerated) denotes the conjunction -/
theorem bAnd_source_sem {s s' : C.σ} {f g r : Ptr} (hs : CacheSound C s)
    (hrun : Gen.BddCore.bAnd C lvl fuel s f g = some (s', r)) :
    CacheSound C s' ∧ den r = fAnd (den f) (den g) := by
  rw [bAnd_tie] at hrun
  exact bAnd_sem hs hrun

/-- `iff` (regenerated) denotes the equivalence -/
theorem bIff_source_sem {s s' : C.σ} {f g r : Ptr} (hs : CacheSound C s)
    (hrun : Gen.BddCore.bIff C lvl fuel s f g = some (s', r)) :
    CacheSound C s' ∧ den r = fIff (den f) (den g) := by
  rw [bIff_tie] at hrun
  exact bIff_sem hs hrun

/-- `xor` (regenerated) denotes the exclusive or -/
theorem bXor_source_sem {s s' : C.σ} {f g r : Ptr} (hs : CacheSound C s)
    (hrun : Gen.BddCore.bXor C lvl fuel s f g = some (s', r)) :
    CacheSound C s' ∧ den r = fXor (den f) (den g) := by
  rw [bXor_tie] at hrun
  exact bXor_sem hs hrun

/-- the default `or` (regenerated, De Morgan through `and`) denotes the disjunction -/
theorem bOr_source_sem {s s' : C.σ} {f g r : Ptr} (hs : CacheSound C s)
    (hrun : Gen.BddCore.bOr C lvl fuel s f g = some (s', r)) :
    CacheSound C s' ∧ den r = fOr (den f) (den g) := by
  rw [bOr_tie] at hrun
  exact bOr_sem hs hrun

/-- `exists` (regenerated) quantifies the variable out of an ordered diagram -/
theorem bExists_source_sem {s s' : C.σ} {f r : Ptr} {x k : Nat} (hs : CacheSound C s)
    (ha : f.above lvl k) (hrun : Gen.BddCore.bExists C lvl fuel s f x = some (s', r)) :
    CacheSound C s' ∧ den r = fExists (den f) x := by
  rw [bExists_tie] at hrun
  exact bExists_sem hs ha hrun

/-- the default `compose` (regenerated) denotes `∃ x. (x ⇔ g) ∧ f` -/
theorem bCompose_source_sem (inj : ∀ x y, lvl x = lvl y → x = y) {s s' : C.σ} {f g r : Ptr} {x : Nat}
    (hs : CacheSound C s) (hw : CacheWF C lvl s) (hf : WF lvl f) (hg : WF lvl g)
    (hrun : Gen.BddCore.bCompose C lvl fuel s f x g = some (s', r)) :
    CacheSound C s' ∧ den r = fCompose (den f) x (den g) := by
  rw [bCompose_tie] at hrun
  exact bCompose_sem inj hs hw hf hg hrun

/-- `and_lst` (regenerated) denotes the conjunction of the list -/
theorem bAndLst_source_sem (ps : List Ptr) {s s' : C.σ} {r : Ptr} (hs : CacheSound C s)
    (hrun : Gen.BddCore.bAndLst C lvl fuel s ps = some (s', r)) :
    CacheSound C s' ∧ den r = (ps.map den).foldl fAnd fTrue := by
  rw [bAndLst_tie] at hrun
  exact bAndLst_sem ps hs hrun

/-- `or_lst` (regenerated) denotes the disjunction of the list -/
theorem bOrLst_source_sem (ps : List Ptr) {s s' : C.σ} {r : Ptr} (hs : CacheSound C s)
    (hrun : Gen.BddCore.bOrLst C lvl fuel s ps = some (s', r)) :
    CacheSound C s' ∧ den r = (ps.map den).foldl fOr fFalse := by
  rw [bOrLst_tie] at hrun
  exact bOrLst_sem ps hs hrun

end ops

/-! ## (3) results are ordered, reduced, regular-high; canonicity (C02) -/

/-- `get_or_insert` (regenerated) denotes the Shannon node -/
theorem mkNode_source_eval (x : Nat) (lo hi : Ptr) (a : Assign) :
    (Gen.BddCore.mkNode x lo hi).eval a = if a x then hi.eval a else lo.eval a := by
  rw [mkNode_tie]
  exact mkNode_eval x lo hi a

/-- `get_or_insert` (regenerated) of two distinct, well-formed children below `x` is well formed:
ordered, reduced, high edge regular and not false -/
theorem mkNode_source_WF {lvl : Nat → Nat} {x : Nat} {lo hi : Ptr} (hne : lo ≠ hi)
    (al : lo.above lvl (lvl x + 1)) (ah : hi.above lvl (lvl x + 1)) (rl : lo.red) (rh : hi.red) :
    WF lvl (Gen.BddCore.mkNode x lo hi) := by
  rw [mkNode_tie]
  exact ⟨mkNode_above (Nat.zero_le _) al ah, mkNode_red hne rl rh⟩

/-- the shape of a node returned by the regenerated `get_or_insert`, spelled out (C02 `WF_node_iff`) -/
theorem mkNode_source_shape {lvl : Nat → Nat} {x : Nat} {lo hi : Ptr} {c : Bool} {v : Nat} {l h : Ptr}
    (hne : lo ≠ hi) (al : lo.above lvl (lvl x + 1)) (ah : hi.above lvl (lvl x + 1)) (rl : lo.red) (rh : hi.red)
    (e : Gen.BddCore.mkNode x lo hi = .node c v l h) :
    (l.above lvl (lvl v + 1) ∧ h.above lvl (lvl v + 1)) ∧ l ≠ h ∧ h.isNeg = false ∧ h ≠ .fls ∧ l.red ∧ h.red := by
  have hw := mkNode_source_WF hne al ah rl rh
  rw [e] at hw
  exact (WF_node_iff lvl c v l h).1 hw

/-- `ite_helper` (regenerated) preserves well-formedness of the cache and returns a well-formed diagram -/
theorem ite_source_WF (C : CacheImpl) (lvl : Nat → Nat) (inj : ∀ x y, lvl x = lvl y → x = y)
    {fuel : Nat} {s s' : C.σ} {f g h r : Ptr} (hs : CacheWF C lvl s)
    (hf : WF lvl f) (hg : WF lvl g) (hh : WF lvl h)
    (hrun : Gen.BddCore.ite C lvl fuel s f g h = some (s', r)) : CacheWF C lvl s' ∧ WF lvl r := by
  rw [ite_tie] at hrun
  exact ite_WF C lvl inj hs hf hg hh hrun

/-- canonicity for results of the regenerated `ite_helper` (any two lawful caches, any fuel):
they denote the same function iff they are the same diagram -/
theorem ite_source_canonical (C₁ C₂ : CacheImpl) (lvl : Nat → Nat) (inj : ∀ x y, lvl x = lvl y → x = y)
    {fuel₁ fuel₂ : Nat} {s₁ s₁' : C₁.σ} {s₂ s₂' : C₂.σ} {f₁ g₁ h₁ r₁ f₂ g₂ h₂ r₂ : Ptr}
    (hs₁ : CacheWF C₁ lvl s₁) (hs₂ : CacheWF C₂ lvl s₂)
    (wf₁ : WF lvl f₁ ∧ WF lvl g₁ ∧ WF lvl h₁) (wf₂ : WF lvl f₂ ∧ WF lvl g₂ ∧ WF lvl h₂)
    (run₁ : Gen.BddCore.ite C₁ lvl fuel₁ s₁ f₁ g₁ h₁ = some (s₁', r₁))
    (run₂ : Gen.BddCore.ite C₂ lvl fuel₂ s₂ f₂ g₂ h₂ = some (s₂', r₂)) :
    (∀ a, r₁.eval a = r₂.eval a) ↔ r₁ = r₂ :=
  canonicity lvl inj (ite_source_WF C₁ lvl inj hs₁ wf₁.1 wf₁.2.1 wf₁.2.2 run₁).2
    (ite_source_WF C₂ lvl inj hs₂ wf₂.1 wf₂.2.1 wf₂.2.2 run₂).2

/-- the result of the regenerated `ite_helper` does not depend on the cache implementation, its
contents (as long as they are sound and well formed) or the fuel (C16 for one call) -/
theorem ite_source_cache_independent (C₁ C₂ : CacheImpl) (lvl : Nat → Nat) (inj : ∀ x y, lvl x = lvl y → x = y)
    {fuel₁ fuel₂ : Nat} {s₁ s₁' : C₁.σ} {s₂ s₂' : C₂.σ} {f g h r₁ r₂ : Ptr}
    (hs₁ : CacheWF C₁ lvl s₁) (hs₂ : CacheWF C₂ lvl s₂) (so₁ : CacheSound C₁ s₁) (so₂ : CacheSound C₂ s₂)
    (hf : WF lvl f) (hg : WF lvl g) (hh : WF lvl h)
    (run₁ : Gen.BddCore.ite C₁ lvl fuel₁ s₁ f g h = some (s₁', r₁))
    (run₂ : Gen.BddCore.ite C₂ lvl fuel₂ s₂ f g h = some (s₂', r₂)) : r₁ = r₂ := by
  apply (ite_source_canonical C₁ C₂ lvl inj hs₁ hs₂ ⟨hf, hg, hh⟩ ⟨hf, hg, hh⟩ run₁ run₂).1
  intro a
  rw [(ite_source_sound C₁ lvl fuel₁ s₁ s₁' f g h r₁ so₁ run₁).2 a,
    (ite_source_sound C₂ lvl fuel₂ s₂ s₂' f g h r₂ so₂ run₂).2 a]

section opsWF
variable (C : CacheImpl) (lvl : Nat → Nat) (inj : ∀ x y, lvl x = lvl y → x = y) {fuel : Nat}
include inj

/-- `and` (regenerated) returns well-formed diagrams -/
theorem bAnd_source_WF {s s' : C.σ} {f g r : Ptr} (hs : CacheWF C lvl s) (hf : WF lvl f) (hg : WF lvl g)
    (hrun : Gen.BddCore.bAnd C lvl fuel s f g = some (s', r)) : CacheWF C lvl s' ∧ WF lvl r := by
  rw [bAnd_tie] at hrun
  exact bAnd_WF C lvl inj hs hf hg hrun

/-- `iff` (regenerated) returns well-formed diagrams -/
theorem bIff_source_WF {s s' : C.σ} {f g r : Ptr} (hs : CacheWF C lvl s) (hf : WF lvl f) (hg : WF lvl g)
    (hrun : Gen.BddCore.bIff C lvl fuel s f g = some (s', r)) : CacheWF C lvl s' ∧ WF lvl r := by
  rw [bIff_tie] at hrun
  exact bIff_WF C lvl inj hs hf hg hrun

/-- `xor` (regenerated) returns well-formed diagrams -/
theorem bXor_source_WF {s s' : C.σ} {f g r : Ptr} (hs : CacheWF C lvl s) (hf : WF lvl f) (hg : WF lvl g)
    (hrun : Gen.BddCore.bXor C lvl fuel s f g = some (s', r)) : CacheWF C lvl s' ∧ WF lvl r := by
  rw [bXor_tie] at hrun
  exact bXor_WF C lvl inj hs hf hg hrun

/-- the default `or` (regenerated) returns well-formed diagrams -/
theorem bOr_source_WF {s s' : C.σ} {f g r : Ptr} (hs : CacheWF C lvl s) (hf : WF lvl f) (hg : WF lvl g)
    (hrun : Gen.BddCore.bOr C lvl fuel s f g = some (s', r)) : CacheWF C lvl s' ∧ WF lvl r := by
  rw [bOr_tie] at hrun
  exact bOr_WF C lvl inj hs hf hg hrun

/-- `exists` (regenerated) returns well-formed diagrams -/
theorem bExists_source_WF {s s' : C.σ} {f r : Ptr} {x : Nat} (hs : CacheWF C lvl s) (hf : WF lvl f)
    (hrun : Gen.BddCore.bExists C lvl fuel s f x = some (s', r)) : CacheWF C lvl s' ∧ WF lvl r := by
  rw [bExists_tie] at hrun
  exact bExists_WF C lvl inj hs hf hrun

/-- the default `compose` (regenerated) returns well-formed diagrams -/
theorem bCompose_source_WF {s s' : C.σ} {f g r : Ptr} {x : Nat} (hs : CacheWF C lvl s) (hf : WF lvl f)
    (hg : WF lvl g) (hrun : Gen.BddCore.bCompose C lvl fuel s f x g = some (s', r)) :
    CacheWF C lvl s' ∧ WF lvl r := by
  rw [bCompose_tie] at hrun
  exact bCompose_WF C lvl inj hs hf hg hrun

end opsWF

/-! ## (4) smoothing as the source says now (C08) -/

/-- `smooth` (regenerated) keeps the function -/
theorem smooth_source_same_function (lvl varAt : Nat → Nat) (p : Ptr) (n : Nat) (a : Assign) :
    (Gen.BddCore.smooth lvl varAt p n).eval a = p.eval a := by
  rw [smooth_tie]
  exact C08.smooth_same_function lvl varAt p n a

/-- `smooth_helper` (regenerated) keeps the function, from every level -/
theorem smoothHelper_source_same_function (lvl varAt : Nat → Nat) (p : Ptr) (cur total : Nat) (a : Assign) :
    (Gen.BddCore.smoothHelper lvl varAt p cur total).eval a = p.eval a := by
  rw [smoothHelper_tie]
  exact smoothH_eval lvl varAt (total - cur) cur p a

/-- every path of the diagram returned by the regenerated `smooth` tests exactly the variables at
levels `0 … n-1`, each once, in this order -/
theorem smooth_source_paths_exact {lvl varAt : Nat → Nat} {n : Nat} {p : Ptr}
    (hinv : ∀ i, i < n → lvl (varAt i) = i) (hv : ∀ v ∈ p.vars, varAt (lvl v) = v)
    (hord : p.ordBetween lvl 0 n) :
    (∀ path ∈ (Gen.BddCore.smooth lvl varAt p n).paths, path = (List.range n).map varAt) ∧
    ((List.range n).map varAt).Nodup := by
  rw [smooth_tie]
  exact C08.smooth_paths_exact hinv hv hord

/-- the same for the regenerated `smooth_helper(bdd, current, total)`: exactly the levels
`current … total-1` -/
theorem smoothHelper_source_paths_exact (lvl varAt : Nat → Nat) (cur total : Nat) (p : Ptr)
    (hord : p.ordBetween lvl cur (cur + (total - cur))) (hv : ∀ v ∈ p.vars, varAt (lvl v) = v) :
    ∀ path ∈ (Gen.BddCore.smoothHelper lvl varAt p cur total).paths,
      path = (List.range (total - cur)).map (fun i => varAt (cur + i)) := by
  rw [smoothHelper_tie]
  exact C08.smoothH_paths_exact lvl varAt (total - cur) cur p hord hv

/-! ## (5) the regenerated `IteTable` adapters satisfy what the builder theorems need (C16) -/

/-- `AllIteTable::get` (regenerated): a hit in a sound table denotes the standard triple -/
theorem cacheGetAll_source_sound (C : CacheImpl) (s : C.σ) (hs : CacheSound C s) (key : Ite) (v : Ptr)
    (h : Gen.BddCore.cacheGetAll C s key = some v) (a : Assign) : v.eval a = key.eval a := by
  rw [cacheGetAll_tie] at h
  exact cacheGet_sound C s hs key v h a

/-- `LruIteTable::get` (regenerated): the same -/
theorem cacheGetLru_source_sound (C : CacheImpl) (s : C.σ) (hs : CacheSound C s) (key : Ite) (v : Ptr)
    (h : Gen.BddCore.cacheGetLru C s key = some v) (a : Assign) : v.eval a = key.eval a := by
  rw [cacheGetLru_tie] at h
  exact cacheGet_sound C s hs key v h a

/-- `AllIteTable::insert` (regenerated) of a right result keeps the table sound -/
theorem cacheInsertAll_source_sound (C : CacheImpl) (s : C.σ) (hs : CacheSound C s) (key : Ite) (r : Ptr)
    (hr : ∀ a, r.eval a = key.eval a) : CacheSound C (Gen.BddCore.cacheInsertAll C s key r) := by
  rw [cacheInsertAll_tie]
  exact cacheInsert_sound C s hs key r hr

/-- `LruIteTable::insert` (regenerated): the same -/
theorem cacheInsertLru_source_sound (C : CacheImpl) (s : C.σ) (hs : CacheSound C s) (key : Ite) (r : Ptr)
    (hr : ∀ a, r.eval a = key.eval a) : CacheSound C (Gen.BddCore.cacheInsertLru C s key r) := by
  rw [cacheInsertLru_tie]
  exact cacheInsert_sound C s hs key r hr

/-- `AllIteTable::get` (regenerated): a hit in a well-formed table is reduced and ordered as its key -/
theorem cacheGetAll_source_wf {C : CacheImpl} {lvl} {s : C.σ} (hs : CacheWF C lvl s) {key : Ite} {v : Ptr}
    (hnc : ∀ p, key = .const p → False) (hget : Gen.BddCore.cacheGetAll C s key = some v) :
    v.red ∧ ∀ k, key.All (Ptr.above lvl k) → v.above lvl k := by
  rw [cacheGetAll_tie] at hget
  exact cacheGet_wf hs hnc hget

/-- `LruIteTable::get` (regenerated): the same -/
theorem cacheGetLru_source_wf {C : CacheImpl} {lvl} {s : C.σ} (hs : CacheWF C lvl s) {key : Ite} {v : Ptr}
    (hnc : ∀ p, key = .const p → False) (hget : Gen.BddCore.cacheGetLru C s key = some v) :
    v.red ∧ ∀ k, key.All (Ptr.above lvl k) → v.above lvl k := by
  rw [cacheGetLru_tie] at hget
  exact cacheGet_wf hs hnc hget

/-- `AllIteTable::insert` (regenerated) of a reduced, ordered result keeps the table well formed -/
theorem cacheInsertAll_source_wf {C : CacheImpl} {lvl} {s : C.σ} (hs : CacheWF C lvl s) (key : Ite) {r : Ptr}
    (hr : r.red) (ha : ∀ k, key.All (Ptr.above lvl k) → r.above lvl k) :
    CacheWF C lvl (Gen.BddCore.cacheInsertAll C s key r) := by
  rw [cacheInsertAll_tie]
  exact cacheInsert_wf hs key hr ha

/-- `LruIteTable::insert` (regenerated): the same -/
theorem cacheInsertLru_source_wf {C : CacheImpl} {lvl} {s : C.σ} (hs : CacheWF C lvl s) (key : Ite) {r : Ptr}
    (hr : r.red) (ha : ∀ k, key.All (Ptr.above lvl k) → r.above lvl k) :
    CacheWF C lvl (Gen.BddCore.cacheInsertLru C s key r) := by
  rw [cacheInsertLru_tie]
  exact cacheInsert_wf hs key hr ha

/-- the two regenerated adapters are the same functions of the underlying table, so the lossy
(LRU) table behind `LruIteTable` and the keep-everything table behind `AllIteTable` are
interchangeable for the builder exactly as `C16.builder_cache_independent` states -/
theorem adapters_agree : Gen.BddCore.cacheGetAll = Gen.BddCore.cacheGetLru ∧
    Gen.BddCore.cacheInsertAll = Gen.BddCore.cacheInsertLru := by
  rw [cacheGetAll_tie, cacheGetLru_tie, cacheInsertAll_tie, cacheInsertLru_tie]
  exact ⟨rfl, rfl⟩

/-- the regenerated `ite_helper` run over the model of the Rust LRU (`Bdd.LruCache`, a lawful cache
by `C16.lruCache_is_lawful`) and over the keep-everything cache returns the same diagram -/
theorem ite_source_lru_same_diagram (hashOf : (Ptr × Ptr × Ptr) → Nat) (num den cap0 : Nat)
    (lvl : Nat → Nat) (inj : ∀ x y, lvl x = lvl y → x = y) {fuel₁ fuel₂ : Nat} {f g h r₁ r₂ : Ptr}
    {s₁' : (LruCache hashOf num den cap0).σ} {s₂' : AllCache.σ}
    (hf : WF lvl f) (hg : WF lvl g) (hh : WF lvl h)
    (run₁ : Gen.BddCore.ite (LruCache hashOf num den cap0) lvl fuel₁ (LruCache hashOf num den cap0).empty f g h = some (s₁', r₁))
    (run₂ : Gen.BddCore.ite AllCache lvl fuel₂ AllCache.empty f g h = some (s₂', r₂)) : r₁ = r₂ :=
  ite_source_cache_independent _ _ lvl inj (cacheWF_empty _ lvl) (cacheWF_empty _ lvl)
    (cacheSound_empty _) (cacheSound_empty _) hf hg hh run₁ run₂

end TieBddCoreSource

#print axioms TieBddCoreSource.ite_source_sound
#print axioms TieBddCoreSource.ite_source_sound_fresh
#print axioms TieBddCoreSource.condWithAlloc_source_sem
#print axioms TieBddCoreSource.condHelper_source_sem
#print axioms TieBddCoreSource.condition_source_sem
#print axioms TieBddCoreSource.condition_source_WF
#print axioms TieBddCoreSource.mkVar_source
#print axioms TieBddCoreSource.bNegate_source_sem
#print axioms TieBddCoreSource.bAnd_source_sem
#print axioms TieBddCoreSource.bIff_source_sem
#print axioms TieBddCoreSource.bXor_source_sem
#print axioms TieBddCoreSource.bOr_source_sem
#print axioms TieBddCoreSource.bExists_source_sem
#print axioms TieBddCoreSource.bCompose_source_sem
#print axioms TieBddCoreSource.bAndLst_source_sem
#print axioms TieBddCoreSource.bOrLst_source_sem
#print axioms TieBddCoreSource.mkNode_source_eval
#print axioms TieBddCoreSource.mkNode_source_WF
#print axioms TieBddCoreSource.mkNode_source_shape
#print axioms TieBddCoreSource.ite_source_WF
#print axioms TieBddCoreSource.ite_source_canonical
#print axioms TieBddCoreSource.ite_source_cache_independent
#print axioms TieBddCoreSource.bAnd_source_WF
#print axioms TieBddCoreSource.bIff_source_WF
#print axioms TieBddCoreSource.bXor_source_WF
#print axioms TieBddCoreSource.bOr_source_WF
#print axioms TieBddCoreSource.bExists_source_WF
#print axioms TieBddCoreSource.bCompose_source_WF
#print axioms TieBddCoreSource.smooth_source_same_function
#print axioms TieBddCoreSource.smoothHelper_source_same_function
#print axioms TieBddCoreSource.smooth_source_paths_exact
#print axioms TieBddCoreSource.smoothHelper_source_paths_exact
#print axioms TieBddCoreSource.cacheGetAll_source_sound
#print axioms TieBddCoreSource.cacheGetLru_source_sound
#print axioms TieBddCoreSource.cacheInsertAll_source_sound
#print axioms TieBddCoreSource.cacheInsertLru_source_sound
#print axioms TieBddCoreSource.cacheGetAll_source_wf
#print axioms TieBddCoreSource.cacheGetLru_source_wf
#print axioms TieBddCoreSource.cacheInsertAll_source_wf
#print axioms TieBddCoreSource.cacheInsertLru_source_wf
#print axioms TieBddCoreSource.adapters_agree
#print axioms TieBddCoreSource.ite_source_lru_same_diagram
