import Lean
/-!
# Axiom audit command

`#audit_module M` prints, for every theorem declared in the (imported) module `M`, the axioms
its proof depends on, one line per theorem: `AUDIT <name> [<axioms>]`.  `tools/check.py` runs it
on every Props module on every run and compares against `{propext, Classical.choice, Quot.sound}`.
-/
open Lean Elab Command

elab "#audit_module " id:ident : command => do
  let env ← getEnv
  let some idx := env.getModuleIdx? id.getId
    | throwError "unknown module {id.getId}"
  let mut n : Nat := 0
  for (name, ci) in env.constants.map₁.toList do
    if env.getModuleIdxFor? name == some idx then
      match ci with
      | .thmInfo _ =>
        if !name.isInternalDetail then
          let axs ← Lean.collectAxioms name
          logInfo m!"AUDIT {name} {axs.toList}"
          n := n + 1
      | _ => pure ()
  logInfo m!"AUDIT-DONE {id.getId} {n}"
