/-!
# Model: the lossy direct-mapped cache `Lru<K, V>` of `src/util/lru.rs`

One slot per hash value modulo `2^cap`; an insertion overwrites whatever is in the slot; the
table doubles (re-inserting every stored element by its stored hash) when
`num_filled / 2^cap > GROW_RATIO` at the start of an insertion.  `GROW_RATIO` is the rational
`num/den` (regenerated from the Rust source into `Constants.lean`); the `f64` comparison of the
Rust equals the exact one for every `cap < 50`.
-/
namespace Lru

structure Elem (K V : Type) where
  key : K
  val : V
  hash : Nat
deriving Repr, DecidableEq

structure Tbl (K V : Type) where
  tbl : List (Option (Elem K V))
  cap : Nat
  numFilled : Nat
deriving Repr

variable {K V : Type}

/-- `Lru::new(cap)`: `2^cap` empty slots -/
def new (cap : Nat) : Tbl K V := ⟨List.replicate (2 ^ cap) none, cap, 0⟩

/-- `pow_cap(v, p) = v % (1 << p)` -/
def powCap (v p : Nat) : Nat := v % 2 ^ p

/-- the body of `insert` after the growth test -/
def insertNoGrow (t : Tbl K V) (k : K) (v : V) (h : Nat) : Tbl K V :=
  let pos := powCap h t.cap
  let filled := if (t.tbl.getD pos none).isSome then t.numFilled else t.numFilled + 1
  ⟨t.tbl.set pos (some ⟨k, v, h⟩), t.cap, filled⟩

/-- `(num_filled as f64 / (1 << cap) as f64) > GROW_RATIO` with `GROW_RATIO = num/den` -/
def needGrow (num den : Nat) (t : Tbl K V) : Bool := t.numFilled * den > 2 ^ t.cap * num

/-- `grow`: a fresh table of twice the size receives every stored element; `num_filled` of
`self` is left as it was (the Rust copies `tbl` and `cap` only).  The inner `insert`s of the
Rust run their own growth test on the fresh table, which can never fire because at most
`2^cap` elements go into `2^(cap+1)` slots (`needGrow_fresh_false` in the lemmas). -/
def grow (t : Tbl K V) : Tbl K V :=
  let nt := t.tbl.foldl (fun (acc : Tbl K V) e =>
    match e with
    | some e => insertNoGrow acc e.key e.val e.hash
    | none => acc) (new (t.cap + 1))
  ⟨nt.tbl, nt.cap, t.numFilled⟩

/-- `Lru::insert` -/
def insert (num den : Nat) (t : Tbl K V) (k : K) (v : V) (h : Nat) : Tbl K V :=
  let t := if needGrow num den t then grow t else t
  insertNoGrow t k v h

/-- `Lru::get`: the slot of the hash, accepted only if the stored key equals the asked key -/
def get [DecidableEq K] (t : Tbl K V) (k : K) (h : Nat) : Option V :=
  match t.tbl.getD (powCap h t.cap) none with
  | some e => if e.key = k then some e.val else none
  | none => none

end Lru
