import RsddModel.Spec.Cnf
/-!
# Model of `src/repr/unit_prop.rs` (`UnitPropagate`, `SATSolver`) — property C09

Core Lean only; everything here is executable and is linked into the differential driver.

Representation choices (all order-preserving with respect to the Rust data):

* `PartialModel` is `Spec.PModel = Nat → Option Bool` (`get`); `set` is `PModel.set`. The two
  bit sets of the Rust struct are the pre-images of `some true` / `some false`; their ascending
  iteration is `List.range numVars |>.filter …`.
* `watch_list_pos` / `watch_list_neg : Vec<Vec<ClauseIdx>>` are the two fields of `WL`, read by
  `WL.get` (an absent position reads as `[]`) and written by `WL.upd` (which pads, so that
  `get_upd` holds unconditionally; every label is `< num_vars`, so no padding ever happens on a
  solver built by `Solver.new`); the inner lists keep the exact `Vec` order (`push` = append at
  the end, `swap_remove` = `swapRemove`). `WL.toLists n` gives the two `Vec<Vec<_>>` for `n`
  variables.
* `BitSet` of satisfied clauses is a `Nat → Bool`; `len()` is the count over the clause indices
  (`sat_lt` in the lemma file shows that only clause indices are ever inserted).
* `contains_pos_lit[v]` / `contains_neg_lit[v]` (bit sets, iterated ascending) are computed on
  demand by `containsLit` as the ascending list of clause indices containing the literal.
* `u128` and `wrapping_mul` are `Nat` and multiplication modulo `2^128`.
* the recursion `decide → (watcher loop) → decide` is one function `loop` on explicit fuel with
  the prelude of `decide` (`decideK`) called from it; `none` = fuel exhausted (never observed with
  `defaultFuel`).
-/
namespace UnitProp
open Spec

/-! ## small list utilities -/

/-- `Vec::swap_remove(i)`: the last element takes the place of element `i` -/
def swapRemove (xs : List Nat) (i : Nat) : List Nat :=
  if i + 1 < xs.length then (xs.set i (xs.getLastD 0)).dropLast else xs.dropLast

/-- `Vec::dedup`: removes consecutive repeated elements -/
def dedupAdj : List Lit → List Lit
  | [] => []
  | [a] => [a]
  | a :: b :: t => if a = b then dedupAdj (b :: t) else a :: dedupAdj (b :: t)

/-- stable insertion (before the first element that is not smaller) -/
def insertBy (le : Lit → Lit → Bool) (a : Lit) : List Lit → List Lit
  | [] => [a]
  | b :: t => if le a b then a :: b :: t else b :: insertBy le a t

/-- stable insertion sort (`sort`, `sort_by_key` of the Rust standard library are stable) -/
def isort (le : Lit → Lit → Bool) : List Lit → List Lit
  | [] => []
  | a :: t => insertBy le a (isort le t)

/-- `clause.sort_by_key(|a| a.label().value())` -/
def leLabel (a b : Lit) : Bool := a.var ≤ b.var

/-- derived `Ord` of `Literal`: the `u64` with the label in bits 0..63 and the polarity in
bit 63, i.e. lexicographic on (polarity, label) with `false < true` -/
def leLit (a b : Lit) : Bool :=
  if a.pol = b.pol then a.var ≤ b.var else !a.pol

/-- `Cnf::new`: every clause stably sorted by label, then `dedup`ed -/
def cnfNew (cs : Cnf) : Cnf := cs.map fun c => dedupAdj (isort leLabel c)

/-! ## `UnitPropagate` -/

/-- padded write into a vector of lists: positions beyond the end are created (empty); the Rust
code would panic there, which never happens because every label is `< num_vars` -/
def setPad : List (List Nat) → Nat → List Nat → List (List Nat)
  | [], 0, xs => [xs]
  | [], v + 1, xs => [] :: setPad [] v xs
  | _ :: t, 0, xs => xs :: t
  | h :: t, v + 1, xs => h :: setPad t v xs

/-- the two watch-list vectors `watch_list_pos`, `watch_list_neg`; an absent position reads as
the empty list (so `WL.empty` stands for `num_vars` empty lists) -/
structure WL where
  pos : List (List Nat)
  neg : List (List Nat)
deriving Repr, Inhabited

def WL.empty : WL := ⟨[], []⟩

/-- `watch_list_pos[v]` (`p = true`) / `watch_list_neg[v]` (`p = false`) -/
def WL.get (wl : WL) (p : Bool) (v : Nat) : List Nat :=
  ((if p then wl.pos else wl.neg)[v]?).getD []

def WL.upd (wl : WL) (p : Bool) (v : Nat) (xs : List Nat) : WL :=
  if p then { wl with pos := setPad wl.pos v xs } else { wl with neg := setPad wl.neg v xs }

/-- `watch_list_{pos,neg}[l.label].push(ci)` -/
def WL.push (wl : WL) (l : Lit) (ci : Nat) : WL := wl.upd l.pol l.var (wl.get l.pol l.var ++ [ci])

/-- `(watch_list_pos, watch_list_neg)` for `n` variables -/
def WL.toLists (wl : WL) (n : Nat) : List (List Nat) × List (List Nat) :=
  ((List.range n).map (wl.get true), (List.range n).map (wl.get false))

/-- `UnitPropResult` (`none` = `UNSAT`, `some m` = `PartialSAT(m)`) together with the
propagator's watch lists after the call (they are mutated in place, also on `UNSAT`) -/
abbrev UPOut := WL × Option PModel

/-- the prelude of `UnitPropagate::decide`: consistency check, `set`, then the watcher loop `k`
starting at `watcher_idx = 0` -/
def decideK (k : WL → PModel → Lit → Nat → Option UPOut) (wl : WL) (m : PModel) (l : Lit) :
    Option UPOut :=
  match m l.var with
  | some v => if v = l.pol then some (wl, some m) else some (wl, none)
  | none => k wl (m.set l.var l.pol) l 0

/-- choice of the new literal to watch among the remaining ones: the first (`candidate`) unless
the clause `ci` already watches it, then the second (`nth(1)`).

`repaired = true` is the code as it is now: the list inspected to find out whether the candidate
is already watched is chosen by `candidate.polarity()`. `repaired = false` is the original code:
`watch_list_pos` if `new_assignment.polarity()` else `watch_list_neg` (finding F4). -/
def pickWatch (repaired : Bool) (wl : WL) (l : Lit) (ci : Nat) (cand second : Lit) : Lit :=
  let watched :=
    if repaired then (wl.get cand.pol cand.var).contains ci
    else (wl.get l.pol cand.var).contains ci
  if watched then second else cand

/-- The watcher loop of `UnitPropagate::decide` for the new assignment `l` (already set in `m`)
at `watcher_idx = idx`.

`repaired = true` is the code as it is now: the list inspected to find out whether the candidate
is already watched is chosen by `candidate.polarity()`. `repaired = false` is the original code:
`watch_list_pos` if `new_assignment.polarity()` else `watch_list_neg` (finding F4). -/
def loop (cnf : Cnf) (repaired : Bool) :
    Nat → WL → PModel → Lit → Nat → Option UPOut
  | 0, _, _, _, _ => none
  | fuel + 1, wl, m, l, idx =>
    -- the list watching the literal that has just become false
    let ws := wl.get (!l.pol) l.var
    if idx ≥ ws.length then some (wl, some m) else
    let ci := ws.getD idx 0
    let clause := cnf.getD ci []
    -- `is_sat` scan
    if clause.any (litTrue m) then loop cnf repaired fuel wl m l (idx + 1) else
    -- `remaining_lits`
    match clause.filter (litUnset m) with
    | [] => some (wl, none)
    | [u] =>
      match decideK (loop cnf repaired fuel) wl m u with
      | none => none
      | some (wl', none) => some (wl', none)
      | some (wl', some m') => loop cnf repaired fuel wl' m' l (idx + 1)
    | cand :: second :: _ =>
      let newLit := pickWatch repaired wl l ci cand second
      -- `swap_remove(watcher_idx)` from the falsified literal's list, `push` onto the new one;
      -- `watcher_idx` is not advanced
      loop cnf repaired fuel ((wl.upd (!l.pol) l.var (swapRemove ws idx)).push newLit ci) m l idx

/-- `UnitPropagate::decide` (repaired) -/
def decide (cnf : Cnf) (fuel : Nat) (wl : WL) (m : PModel) (l : Lit) : Option UPOut :=
  decideK (loop cnf true fuel) wl m l

/-- `UnitPropagate::decide` before the repair of F4 -/
def decideOrig (cnf : Cnf) (fuel : Nat) (wl : WL) (m : PModel) (l : Lit) : Option UPOut :=
  decideK (loop cnf false fuel) wl m l

def totalLits (cnf : Cnf) : Nat := (cnf.map List.length).sum

/-- enough for every call: the recursion depth is at most `numVars + 1` and one activation of the
loop makes at most `2 * (number of watches) + 1` iterations -/
def defaultFuel (cnf : Cnf) : Nat :=
  (cnfNumVars cnf + 2) * (4 * cnf.length + totalLits cnf + 4)

/-- initial watches: for every clause of length ≥ 2, `c[1]` then `c[0]` -/
def initWatches : List Clause → Nat → WL → WL
  | [], _, wl => wl
  | c :: cs, i, wl =>
    match c with
    | a :: b :: _ => initWatches cs (i + 1) ((wl.push b i).push a i)
    | _ => initWatches cs (i + 1) wl

/-- the literals of the unit clauses, in clause order (`implied`) -/
def impliedUnits : List Clause → List Lit
  | [] => []
  | [u] :: cs => u :: impliedUnits cs
  | _ :: cs => impliedUnits cs

/-- the `for i in implied` loop of `UnitPropagate::new` -/
def decideAll (dec : WL → PModel → Lit → Option UPOut) : List Lit → WL → PModel → Option UPOut
  | [], wl, m => some (wl, some m)
  | u :: us, wl, m =>
    match dec wl m u with
    | none => none
    | some (wl', none) => some (wl', none)
    | some (wl', some m') => decideAll dec us wl' m'

/-- `UnitPropagate::new`; outer `none` = fuel, `some (_, none)` = the Rust `None` -/
def upNew (cnf : Cnf) (repaired : Bool) (fuel : Nat) : Option UPOut :=
  if cnf.any List.isEmpty then some (WL.empty, none) else
  decideAll (decideK (loop cnf repaired fuel)) (impliedUnits cnf) (initWatches cnf 0 WL.empty)
    PModel.empty

/-! ## primes (`primal::Primes::all()`) -/

def isPrime (n : Nat) : Bool := 2 ≤ n && (List.range' 2 (n - 2)).all fun d => n % d != 0

def fact : Nat → Nat
  | 0 => 1
  | n + 1 => (n + 1) * fact n

/-- least prime `≥ c` among `c, c+1, …, c+fuel-1` (else `c + fuel`) -/
def searchPrime : Nat → Nat → Nat
  | 0, c => c
  | fuel + 1, c => if isPrime c then c else searchPrime fuel (c + 1)

/-- the least prime `> n`; Euclid: there is one `≤ n! + 1` -/
def nextPrime (n : Nat) : Nat := searchPrime (fact n + 1) (n + 1)

/-- the first `k` primes after `n` -/
def primesAfter : Nat → Nat → List Nat
  | 0, _ => []
  | k + 1, n => let p := nextPrime n; p :: primesAfter k p

/-- consume primes for one clause; returns the weighted clause and the last prime used -/
def weighClause : List Lit → Nat → List (Lit × Nat) × Nat
  | [], n => ([], n)
  | l :: ls, n =>
    let p := nextPrime n
    let (r, n') := weighClause ls p
    ((l, p) :: r, n')

def weighClauses : List (List Lit) → Nat → List (List (Lit × Nat))
  | [], _ => []
  | c :: cs, n => let (wc, n') := weighClause c n; wc :: weighClauses cs n'

/-! ## `SATSolver` -/

def M128 : Nat := 2 ^ 128

/-- `u128::wrapping_mul` -/
def wmul (a b : Nat) : Nat := (a * b) % M128

/-- a clause contains a literal and its negation (the `filter` in `SATSolver::new`) -/
def isTaut (c : List Lit) : Bool := c.any fun l => c.any fun l' => l.var == l'.var && l.pol != l'.pol

/-- `c.sort(); c.dedup()` -/
def normClause (c : Clause) : Clause := dedupAdj (isort leLit c)

/-- the normalised non-tautological clauses -/
def normClauses (cnf : Cnf) : List Clause := (cnf.map normClause).filter fun c => !isTaut c

structure SatState where
  model : PModel
  hash : Nat
  /-- `sat_clauses` -/
  sat : Nat → Bool

structure Solver where
  /-- the `Cnf` held by the propagator -/
  cnf : Cnf
  numVars : Nat
  fuel : Nat
  /-- `up.watch_list_pos / up.watch_list_neg` -/
  wl : WL
  /-- `clauses : Vec<Vec<(Literal, u128)>>` -/
  clauses : List (List (Lit × Nat))
  /-- `state_stack`, top first -/
  stack : List SatState

def hasLit (c : List (Lit × Nat)) (v : Nat) (p : Bool) : Bool := c.any fun lw => lw.1.var == v && lw.1.pol == p

/-- `contains_pos_lit[v].iter()` (`p = true`) / `contains_neg_lit[v].iter()` (`p = false`) -/
def containsLit (clauses : List (List (Lit × Nat))) (p : Bool) (v : Nat) : List Nat :=
  (List.range clauses.length).filter fun i => hasLit (clauses.getD i []) v p

/-- `new.difference(&old)`: newly false variables ascending, then newly true ones -/
def pmDifference (n : Nat) (new old : PModel) : List Lit :=
  (((List.range n).filter fun x => new x == some false && old x != some false).map fun x => Lit.mk x false)
  ++ (((List.range n).filter fun x => new x == some true && old x != some true).map fun x => Lit.mk x true)

/-- `assignment_iter` -/
def pmAssignments (n : Nat) (m : PModel) : List Lit :=
  (((List.range n).filter fun x => m x == some false).map fun x => Lit.mk x false)
  ++ (((List.range n).filter fun x => m x == some true).map fun x => Lit.mk x true)

def setInsert (s : Nat → Bool) (i : Nat) : Nat → Bool := fun j => if j = i then true else s j

/-- case 2 inner loop: all weights of the clause whose variable is not set in the top model -/
def mulUnset (top : PModel) (c : List (Lit × Nat)) (h : Nat) : Nat :=
  c.foldl (fun h lw => if (top lw.1.var).isNone then wmul h lw.2 else h) h

/-- case 3 inner loop: the weight of the first literal over variable `v`, then `break` -/
def mulFirst (v : Nat) : List (Lit × Nat) → Nat → Nat
  | [], h => h
  | lw :: rest, h => if lw.1.var = v then wmul h lw.2 else mulFirst v rest h

/-- first pass of `update_hash_and_sat_set` for one literal of the difference -/
def pass1Lit (clauses : List (List (Lit × Nat))) (top : PModel) (acc : Nat × (Nat → Bool)) (lit : Lit) :
    Nat × (Nat → Bool) :=
  (containsLit clauses lit.pol lit.var).foldl (fun acc ci =>
    if acc.2 ci then acc
    else (mulUnset top (clauses.getD ci []) acc.1, setInsert acc.2 ci)) acc

/-- second pass for one literal of the difference -/
def pass2Lit (clauses : List (List (Lit × Nat))) (set : Nat → Bool) (h : Nat) (lit : Lit) : Nat :=
  (containsLit clauses (!lit.pol) lit.var).foldl (fun h ci =>
    if set ci then h else mulFirst lit.var (clauses.getD ci []) h) h

/-- `update_hash_and_sat_set` relative to the state `top` -/
def updateHashAndSatSet (clauses : List (List (Lit × Nat))) (numVars : Nat) (top : SatState)
    (newModel : PModel) : Nat × (Nat → Bool) :=
  let diff := pmDifference numVars newModel top.model
  let p1 := diff.foldl (pass1Lit clauses top.model) (top.hash, top.sat)
  let h2 := diff.foldl (pass2Lit clauses p1.2) p1.1
  (h2, p1.2)

/-- `BitSet::len` of a set of clause indices -/
def satCount (n : Nat) (s : Nat → Bool) : Nat := (List.range n).countP s

inductive DecisionResult
  | sat | unsat | unknown
deriving DecidableEq, Repr, Inhabited

def initState : SatState := { model := PModel.empty, hash := 1, sat := fun _ => false }

/-- `SATSolver::new`; outer `none` = fuel exhausted, `some none` = the Rust `None` -/
def Solver.new (cnf : Cnf) (repaired : Bool := true) : Option (Option Solver) :=
  let fuel := defaultFuel cnf
  match upNew cnf repaired fuel with
  | none => none
  | some (_, none) => some none
  | some (wl, some m) =>
    let clauses := weighClauses (normClauses cnf) 1
    let numVars := cnfNumVars cnf
    let (h, s) := updateHashAndSatSet clauses numVars initState m
    some (some { cnf := cnf, numVars := numVars, fuel := fuel, wl := wl, clauses := clauses,
                 stack := [{ model := m, hash := h, sat := s }, initState] })

/-- outcome of one `SATSolver::decide` -/
inductive StepOut
  | ok (s : Solver) (r : DecisionResult)
  /-- fuel exhausted (model artefact) or empty state stack (`top_state()` panics) -/
  | error

def Solver.decideWith (s : Solver) (repaired : Bool) (l : Lit) : StepOut :=
  match s.stack with
  | [] => .error
  | top :: _ =>
    match decideK (loop s.cnf repaired s.fuel) s.wl top.model l with
    | none => .error
    | some (wl', none) => .ok { s with wl := wl' } .unsat
    | some (wl', some m') =>
      let (h, st) := updateHashAndSatSet s.clauses s.numVars top m'
      .ok { s with wl := wl', stack := { model := m', hash := h, sat := st } :: s.stack }
        (if satCount s.clauses.length st = s.clauses.length then .sat else .unknown)

/-- `SATSolver::decide` -/
def Solver.decide (s : Solver) (l : Lit) : StepOut := s.decideWith true l

/-- `SATSolver::pop` -/
def Solver.pop (s : Solver) : Solver := { s with stack := s.stack.tail }

def Solver.depth (s : Solver) : Nat := s.stack.length

/-- `is_sat` (`none` = `top_state()` panics) -/
def Solver.isSat (s : Solver) : Option Bool :=
  s.stack.head?.map fun top => satCount s.clauses.length top.sat = s.clauses.length

/-- `cur_hash` -/
def Solver.curHash (s : Solver) : Option Nat := s.stack.head?.map (·.hash)

/-- `is_set` -/
def Solver.isSet (s : Solver) (v : Nat) : Option Bool := s.stack.head?.map fun top => (top.model v).isSome

/-- `difference_iter` (`none` = fewer than two states: index underflow panic) -/
def Solver.differenceIter (s : Solver) : Option (List Lit) :=
  match s.stack with
  | top :: below :: _ => some (pmDifference s.numVars top.model below.model)
  | _ => none

/-- the model of the top state as a vector over the variables -/
def Solver.modelList (s : Solver) : List (Option Bool) :=
  match s.stack with
  | top :: _ => (List.range s.numVars).map top.model
  | [] => []

/-! ## histories -/

inductive Cmd
  | decide (var : Nat) (pol : Bool)
  | pop
deriving DecidableEq, Repr, Inhabited

inductive ObsRes
  /-- construction succeeded -/
  | init
  /-- construction returned `None` -/
  | initUnsat
  | sat | unsat | unknown
  | popped
  /-- the Rust code would panic here (pop of the last state, decide of a variable out of range),
  or the model ran out of fuel -/
  | error
deriving DecidableEq, Repr, Inhabited

structure Obs where
  res : ObsRes
  /-- value of every variable in the top state -/
  model : List (Option Bool)
  isSat : Bool
  curHash : Nat
  depth : Nat
  /-- `difference_iter()`; `none` when fewer than two states are on the stack -/
  diff : Option (List Lit)
  watchPos : List (List Nat)
  watchNeg : List (List Nat)
deriving Repr, Inhabited

def Obs.blank (r : ObsRes) : Obs :=
  { res := r, model := [], isSat := false, curHash := 0, depth := 0, diff := none, watchPos := [], watchNeg := [] }

def observe (r : ObsRes) (s : Solver) : Obs :=
  { res := r
    model := s.modelList
    isSat := s.isSat.getD false
    curHash := s.curHash.getD 0
    depth := s.depth
    diff := s.differenceIter
    watchPos := (s.wl.toLists s.numVars).1
    watchNeg := (s.wl.toLists s.numVars).2 }

def runCmds (repaired : Bool) : Solver → List Cmd → List Obs
  | _, [] => []
  | s, .pop :: rest =>
    if s.depth ≤ 1 then [Obs.blank .error]
    else let s' := s.pop; observe .popped s' :: runCmds repaired s' rest
  | s, .decide v p :: rest =>
    if v ≥ s.numVars then [Obs.blank .error] else
    match s.decideWith repaired ⟨v, p⟩ with
    | .error => [Obs.blank .error]
    | .ok s' r =>
      let tag := match r with | .sat => ObsRes.sat | .unsat => ObsRes.unsat | .unknown => ObsRes.unknown
      observe tag s' :: runCmds repaired s' rest

/-- run a history on the clause list as `Cnf::new` stores it (no renormalisation) -/
def runHistoryOn (repaired : Bool) (cnf : Cnf) (cmds : List Cmd) : List Obs :=
  match Solver.new cnf repaired with
  | none => [Obs.blank .error]
  | some none => [Obs.blank .initUnsat]
  | some (some s) => observe .init s :: runCmds repaired s cmds

/-- `SATSolver::new(Cnf::new(clauses))` followed by the commands. The first observation is the
one after construction; one observation per command follows; the list stops after an `error`
observation or `initUnsat`. -/
def runHistory (clauses : Cnf) (cmds : List Cmd) : List Obs := runHistoryOn true (cnfNew clauses) cmds

/-- the same with the unrepaired watch replacement -/
def runHistoryOrig (clauses : Cnf) (cmds : List Cmd) : List Obs := runHistoryOn false (cnfNew clauses) cmds

/-! ## printing (one line per observation) -/

def showOB : Option Bool → String
  | none => "_" | some true => "T" | some false => "F"

def showLit (l : Lit) : String := (if l.pol then "+" else "-") ++ toString l.var

def showList (f : α → String) (xs : List α) : String := "[" ++ ",".intercalate (xs.map f) ++ "]"

def ObsRes.show : ObsRes → String
  | .init => "init" | .initUnsat => "init_unsat" | .sat => "sat" | .unsat => "unsat"
  | .unknown => "unknown" | .popped => "popped" | .error => "error"

/-- `res=… model=[T,F,_] is_sat=… hash=… depth=… diff=[-1,+2]|! wpos=[[0],[]] wneg=[[],[0,1]]` -/
def Obs.render (o : Obs) : String :=
  match o.res with
  | .error => "res=error"
  | .initUnsat => "res=init_unsat"
  | r =>
    s!"res={r.show} model={showList showOB o.model} is_sat={o.isSat} hash={o.curHash} depth={o.depth} diff={match o.diff with | none => "!" | some d => showList showLit d} wpos={showList (showList toString) o.watchPos} wneg={showList (showList toString) o.watchNeg}"

end UnitProp
