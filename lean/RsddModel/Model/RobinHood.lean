/-!
# Model: the robin-hood unique table of `src/backing_store/bump_table.rs`

Line-by-line mirror of `HashTableElement`, the free function `propagate`,
`BackedRobinhoodTable::{new, grow, get_or_insert_by_hash, get_by_hash}`.

Reading conventions
* `&'a T` (pointer into the bump arena) is an *arena index*: the arena `keys` is an append-only
  list, `alloc.alloc(elem)` appends and returns the old length.  Pointer identity = index equality.
* keys are abstract (`Nat`); the hash is supplied with every call (`get_or_insert` computes it
  with `FxHasher` from the key; the theorems assume every call passes `hashOf key`).
* `u64`/`usize` are `Nat` (`hash as usize` is the identity on 64-bit targets;
  `next_power_of_two` does not overflow below `2^63`).
* `psl : u8` is modelled as `Nat`.  All theorems are **unconditional about this `Nat` model**.
  The `Nat` model and the `u8` code perform the same steps exactly as long as no computed psl
  exceeds 255; that side condition is the separate predicate `PslBound` (every psl ever computed
  by a call ends up stored in the resulting table or is smaller than a stored one, so it is a
  predicate on tables).  It is the hypothesis H-psl of DESIGN.md and is *not* used by any proof.
* `LOAD_FACTOR : f64 = 0.7` is the rational `num/den`; `(len + 1) as f64 > cap as f64 * 0.7`
  is `(len + 1) * den > cap * num` (exact for the sizes where `usize → f64` is exact, < 2^53).
* every Rust `loop` is a fuel-indexed recursion; the fuel passed is `cap + 1 + extra` with
  `extra = 0` by default.  `Lemmas/RobinHood.lean` proves that under the table invariant the
  result does not depend on `extra` (the fuel-exhausted branches are unreachable), so the
  theorems are about the Rust loops.
-/
namespace RH

/-- `HashTableElement { ptr, hash, psl }`; `ptr = none` is the unoccupied element. -/
structure Slot where
  ptr : Option Nat
  hash : Nat
  psl : Nat
deriving DecidableEq, Repr, Inhabited

/-- `HashTableElement::default()` -/
def Slot.empty : Slot := ⟨none, 0, 0⟩

/-- `is_occupied` -/
def Slot.occ (s : Slot) : Bool := s.ptr.isSome

/-- `BackedRobinhoodTable { tbl, alloc, cap, len, hits }` -/
structure Tbl where
  slots : List Slot
  cap : Nat
  len : Nat
  /-- the bump arena: `keys[i]` is the element stored at arena index `i` -/
  keys : List Nat
  hits : Nat := 0
deriving Repr, DecidableEq

/-- `LOAD_FACTOR` as a rational -/
structure LoadFactor where
  num : Nat := 7
  den : Nat := 10
deriving Repr, DecidableEq

/-- `v[pos]` (total: out of range reads give the unoccupied element; never happens under the
invariant, where `pos < cap = v.length`) -/
def sget (v : List Slot) (pos : Nat) : Slot := v.getD pos Slot.empty

/-- the free function `propagate(v, cap, itm, pos)` -/
def propagate : Nat → List Slot → Nat → Slot → Nat → List Slot
  | 0, v, _, _, _ => v
  | fuel + 1, v, cap, searcher, pos =>
    let cur := sget v pos
    if cur.occ then
      -- `if cur_itm.psl < searcher.psl { v[pos] = searcher; searcher = cur_itm }`
      let v' := if cur.psl < searcher.psl then v.set pos searcher else v
      let s' := if cur.psl < searcher.psl then cur else searcher
      -- `searcher.psl += 1; pos = (pos + 1) % cap`
      propagate fuel v' cap { s' with psl := s'.psl + 1 } ((pos + 1) % cap)
    else
      v.set pos searcher

def nextPow2Aux (n : Nat) : Nat → Nat → Nat
  | 0, p => p
  | fuel + 1, p => if p < n then nextPow2Aux n fuel (2 * p) else p

/-- `usize::next_power_of_two`: the least power of two `≥ n` -/
def nextPow2 (n : Nat) : Nat := nextPow2Aux n n 1

/-- `grow`, current (repaired) code: only occupied slots are re-inserted, each restarting at its
new home slot with psl 0. -/
def grow (t : Tbl) (extra : Nat := 0) : Tbl :=
  let newSz := nextPow2 (t.cap + 1)
  let fresh := List.replicate newSz Slot.empty
  let slots := t.slots.foldl (fun v i =>
    if i.occ then propagate (newSz + 1 + extra) v newSz { i with psl := 0 } (i.hash % newSz)
    else v) fresh
  { t with slots := slots, cap := newSz }

/-- `grow`, pinned (buggy) code: *every* old slot is re-propagated, unoccupied ones included,
with the old psl kept. -/
def growOrig (t : Tbl) (extra : Nat := 0) : Tbl :=
  let newSz := nextPow2 (t.cap + 1)
  let fresh := List.replicate newSz Slot.empty
  let slots := t.slots.foldl (fun v i =>
    propagate (newSz + 1 + extra) v newSz i (i.hash % newSz)) fresh
  { t with slots := slots, cap := newSz }

/-- `alloc.alloc(elem); tbl[pos] = HashTableElement::new(ptr, hash, psl); len += 1` on the slot
array `v` (which is `tbl` itself, or `tbl` after `propagate`) -/
def insertAt (t : Tbl) (v : List Slot) (pos hash psl key : Nat) : Tbl × Nat × Bool :=
  let idx := t.keys.length
  ({ t with slots := v.set pos ⟨some idx, hash, psl⟩, len := t.len + 1, keys := t.keys ++ [key] },
    idx, false)

/-- the `loop` of `get_or_insert_by_hash` with `equality_by_hash = false`;
returns (table, arena index returned, whether it was a hit) -/
def probe (t : Tbl) (hash key : Nat) (pfuel : Nat) : Nat → Nat → Nat → Tbl × Nat × Bool
  | 0, _, _ => (t, 0, false)
  | fuel + 1, pos, psl =>
    let cur := sget t.slots pos
    match cur.ptr with
    | some i =>
      -- `hash == cur_itm.hash && *found == elem`
      if hash = cur.hash ∧ t.keys.getD i 0 = key then
        ({ t with hits := t.hits + 1 }, i, true)
      else if cur.psl < psl then
        -- `self.propagate(cur_itm, pos)` then overwrite `tbl[pos]`
        insertAt t (propagate pfuel t.slots t.cap cur pos) pos hash psl key
      else probe t hash key pfuel fuel ((pos + 1) % t.cap) (psl + 1)
    | none => insertAt t t.slots pos hash psl key

/-- `(self.len + 1) as f64 > (self.cap as f64 * LOAD_FACTOR)` -/
def needGrow (lf : LoadFactor) (t : Tbl) : Bool := (t.len + 1) * lf.den > t.cap * lf.num

/-- `get_or_insert_by_hash(hash, elem, false)`, parametric in the `grow` used -/
def getOrInsertWith (growFn : Tbl → Nat → Tbl) (lf : LoadFactor) (t : Tbl) (hash key : Nat)
    (extra : Nat := 0) : Tbl × Nat × Bool :=
  let t := if needGrow lf t then growFn t extra else t
  probe t hash key (t.cap + 1 + extra) (t.cap + 1 + extra) (hash % t.cap) 0

/-- `get_or_insert_by_hash(hash, elem, false)` of the current code -/
def getOrInsert (lf : LoadFactor) (t : Tbl) (hash key : Nat) (extra : Nat := 0) :
    Tbl × Nat × Bool :=
  getOrInsertWith (fun t e => grow t e) lf t hash key extra

/-- `get_or_insert_by_hash(hash, elem, false)` of the pinned code -/
def getOrInsertOrig (lf : LoadFactor) (t : Tbl) (hash key : Nat) (extra : Nat := 0) :
    Tbl × Nat × Bool :=
  getOrInsertWith (fun t e => growOrig t e) lf t hash key extra

/-- the `loop` of `get_by_hash`: first element with this hash on the probe sequence -/
def probeHash (t : Tbl) (hash : Nat) : Nat → Nat → Nat → Tbl × Option Nat
  | 0, _, _ => (t, none)
  | fuel + 1, pos, psl =>
    let cur := sget t.slots pos
    if cur.occ then
      if hash = cur.hash then ({ t with hits := t.hits + 1 }, cur.ptr)
      else if cur.psl < psl then (t, none)
      else probeHash t hash fuel ((pos + 1) % t.cap) (psl + 1)
    else (t, none)

/-- `get_by_hash` -/
def getByHash (t : Tbl) (hash : Nat) (extra : Nat := 0) : Tbl × Option Nat :=
  probeHash t hash (t.cap + 1 + extra) (hash % t.cap) 0

/-- `new()` / `verif_with_capacity(cap)` (`DEFAULT_SIZE = 131072`) -/
def mk (cap : Nat := 131072) : Tbl := ⟨List.replicate cap Slot.empty, cap, 0, [], 0⟩

/-- the side condition under which the `Nat`-psl model and the `u8` code coincide (the psl field of
an unoccupied slot is never read) -/
def PslBound (t : Tbl) : Prop := ∀ s ∈ t.slots, s.occ = true → s.psl ≤ 255

instance (t : Tbl) : Decidable (PslBound t) := by unfold PslBound; infer_instance

/-- `(cap, len, slots)` as printed by the hook `verif_dump` -/
def dump (t : Tbl) : Nat × Nat × List (Option Nat × Nat × Nat) :=
  (t.cap, t.len, t.slots.map fun s => (s.ptr, s.hash, s.psl))

end RH
