import RsddModel.Spec.Cnf
import RsddModel.Model.BddBuilder
import RsddModel.Model.CacheList
/-!
# Model: bottom-up compilation of CNFs, logical expressions and plans

Mirrors
* `BottomUpBuilder::compile_logical_expr`, `BottomUpBuilder::compile_plan` (`src/builder/mod.rs`),
* `BddBuilder::compile_cnf`, `collapse_clauses`, `compile_cnf_with_assignments`
  (`src/builder/bdd/builder.rs`), `CompiledCNF` (`src/builder/bdd/mod.rs`),
* `LogicalExpr` + `eval` (`src/repr/logical_expr.rs`), `BottomUpPlan` + `from_dtree`
  (`src/plan/bottom_up_plan.rs`).

Everything is generic in a record `Compile.Ops σ P` of builder operations (`σ` = builder state,
`P` = diagram pointers); `Bdd.ops` instantiates it with the ROBDD builder model, the SDD builder
can be plugged in the same way.  `none` = fuel ran out in a builder operation, or the Rust
panics (`lit_vec[0]` on an empty clause, `pop().unwrap()` on an empty heap — both unreachable
from the entry points, see the lemmas).

What is a PARAMETER rather than a reproduction of the Rust:
* the clause permutation of `compile_cnf`.  `sort_by` is called with a comparator that only
  answers `Less`/`Equal`, which is not a total order, so the documentation of `sort_by` leaves
  the resulting order unspecified (and allows a panic).  `compileCnf` therefore takes the
  *already permuted* clause list and the theorems quantify over every permutation.
  `sortClauses` is what the current `std` does in fact: `sort_by` only ever asks
  `compare a b == Less`, which here is `key a < key b`, a strict weak order, and the sort is
  stable; the key of a clause is the level of its LAST literal, because `max_by` with a comparator
  that never answers `Greater` returns the last element.
* the merge order of `compile_cnf_with_assignments`: a `BinaryHeap` ordered by size only, ties
  are broken by the heap's array layout.  `mergeLoop` takes a strategy choosing the next two
  entries from the current list; because the list gets shorter at every step, every
  history-dependent choice sequence is realised by some strategy function.  `heapStrategy` picks
  the two smallest entries, earliest first; the tie-breaking of the real heap is not reproduced
  (by `compileWithAssign_eq_condition` the resulting diagram does not depend on it).
-/
namespace Compile
open Spec

/-- the operations of `BottomUpBuilder` the compile functions use; `size` is `count_nodes` -/
structure Ops (σ P : Type) where
  tru : P
  fls : P
  var : Nat → Bool → P
  neg : P → P
  and : σ → P → P → Option (σ × P)
  or : σ → P → P → Option (σ × P)
  iff : σ → P → P → Option (σ × P)
  xor : σ → P → P → Option (σ × P)
  ite : σ → P → P → P → Option (σ × P)
  size : P → Nat

/-! ## logical expressions -/

/-- `LogicalExpr` of `src/repr/logical_expr.rs` -/
inductive LogicalExpr where
  | lit (x : Nat) (pol : Bool)
  | not (e : LogicalExpr)
  | and (l r : LogicalExpr)
  | or (l r : LogicalExpr)
  | iff (l r : LogicalExpr)
  | xor (l r : LogicalExpr)
  | ite (g t e : LogicalExpr)
deriving Repr, DecidableEq, Inhabited

/-- `LogicalExpr::eval` (on total assignments) -/
def exprSem : LogicalExpr → BoolFn
  | .lit x pol => fVar x pol
  | .not e => fNot (exprSem e)
  | .and l r => fAnd (exprSem l) (exprSem r)
  | .or l r => fOr (exprSem l) (exprSem r)
  | .iff l r => fIff (exprSem l) (exprSem r)
  | .xor l r => fXor (exprSem l) (exprSem r)
  | .ite g t e => fIte (exprSem g) (exprSem t) (exprSem e)

/-- the variables of an expression all satisfy `Q` -/
def LogicalExpr.AllVars (Q : Nat → Prop) : LogicalExpr → Prop
  | .lit x _ => Q x
  | .not e => e.AllVars Q
  | .and l r | .or l r | .iff l r | .xor l r => l.AllVars Q ∧ r.AllVars Q
  | .ite g t e => g.AllVars Q ∧ t.AllVars Q ∧ e.AllVars Q

section generic
variable {σ P : Type} (O : Ops σ P)

/-- `BottomUpBuilder::compile_logical_expr` (sub-expressions left to right) -/
def compileExpr : σ → LogicalExpr → Option (σ × P)
  | s, .lit x pol => some (s, O.var x pol)
  | s, .not e =>
    match compileExpr s e with
    | none => none
    | some (s1, r) => some (s1, O.neg r)
  | s, .and l r =>
    match compileExpr s l with
    | none => none
    | some (s1, r1) =>
      match compileExpr s1 r with
      | none => none
      | some (s2, r2) => O.and s2 r1 r2
  | s, .or l r =>
    match compileExpr s l with
    | none => none
    | some (s1, r1) =>
      match compileExpr s1 r with
      | none => none
      | some (s2, r2) => O.or s2 r1 r2
  | s, .iff l r =>
    match compileExpr s l with
    | none => none
    | some (s1, r1) =>
      match compileExpr s1 r with
      | none => none
      | some (s2, r2) => O.iff s2 r1 r2
  | s, .xor l r =>
    match compileExpr s l with
    | none => none
    | some (s1, r1) =>
      match compileExpr s1 r with
      | none => none
      | some (s2, r2) => O.xor s2 r1 r2
  | s, .ite g t e =>
    match compileExpr s g with
    | none => none
    | some (s1, rg) =>
      match compileExpr s1 t with
      | none => none
      | some (s2, rt) =>
        match compileExpr s2 e with
        | none => none
        | some (s3, re) => O.ite s3 rg rt re

end generic

/-! ## plans and decomposition trees -/

/-- `BottomUpPlan` of `src/plan/bottom_up_plan.rs` -/
inductive Plan where
  | and (l r : Plan)
  | or (l r : Plan)
  | iff (l r : Plan)
  | ite (f g h : Plan)
  | not (f : Plan)
  | constTrue
  | constFalse
  | lit (x : Nat) (pol : Bool)
deriving Repr, DecidableEq, Inhabited

def planSem : Plan → BoolFn
  | .and l r => fAnd (planSem l) (planSem r)
  | .or l r => fOr (planSem l) (planSem r)
  | .iff l r => fIff (planSem l) (planSem r)
  | .ite f g h => fIte (planSem f) (planSem g) (planSem h)
  | .not f => fNot (planSem f)
  | .constTrue => fTrue
  | .constFalse => fFalse
  | .lit x pol => fVar x pol

def Plan.AllVars (Q : Nat → Prop) : Plan → Prop
  | .and l r | .or l r | .iff l r => l.AllVars Q ∧ r.AllVars Q
  | .ite f g h => f.AllVars Q ∧ g.AllVars Q ∧ h.AllVars Q
  | .not f => f.AllVars Q
  | .constTrue | .constFalse => True
  | .lit x _ => Q x

/-- what `from_dtree` consumes of a `DTree` (`src/repr/dtree.rs`): the shape and the clause at
every leaf (`cutset`, `vars` are ignored) -/
inductive DTree where
  | node (l r : DTree)
  | leaf (clause : Clause)
deriving Repr, DecidableEq, Inhabited

/-- the clauses at the leaves, left to right -/
def DTree.clauses : DTree → Cnf
  | .node l r => l.clauses ++ r.clauses
  | .leaf c => [c]

/-- the `Leaf` arm of `from_dtree` -/
def Plan.ofClause : Clause → Plan
  | [] => .constFalse
  | [l] => .lit l.var l.pol
  | l :: rest => rest.foldl (fun acc i => Plan.or acc (.lit i.var i.pol)) (.lit l.var l.pol)

/-- `BottomUpPlan::from_dtree` -/
def Plan.fromDtree : DTree → Plan
  | .node l r => .and (Plan.fromDtree l) (Plan.fromDtree r)
  | .leaf c => Plan.ofClause c

section generic
variable {σ P : Type} (O : Ops σ P)

/-- `BottomUpBuilder::compile_plan` -/
def compilePlan : σ → Plan → Option (σ × P)
  | s, .lit x pol => some (s, O.var x pol)
  | s, .constTrue => some (s, O.tru)
  | s, .constFalse => some (s, O.fls)
  | s, .not f =>
    match compilePlan s f with
    | none => none
    | some (s1, r) => some (s1, O.neg r)
  | s, .and l r =>
    match compilePlan s l with
    | none => none
    | some (s1, r1) =>
      match compilePlan s1 r with
      | none => none
      | some (s2, r2) => O.and s2 r1 r2
  | s, .or l r =>
    match compilePlan s l with
    | none => none
    | some (s1, r1) =>
      match compilePlan s1 r with
      | none => none
      | some (s2, r2) => O.or s2 r1 r2
  | s, .iff l r =>
    match compilePlan s l with
    | none => none
    | some (s1, r1) =>
      match compilePlan s1 r with
      | none => none
      | some (s2, r2) => O.iff s2 r1 r2
  | s, .ite f g h =>
    match compilePlan s f with
    | none => none
    | some (s1, rf) =>
      match compilePlan s1 g with
      | none => none
      | some (s2, rg) =>
        match compilePlan s2 h with
        | none => none
        | some (s3, rh) => O.ite s3 rf rg rh

/-! ## `compile_cnf` -/

/-- the inner loop of `compile_cnf`: `bdd = or(bdd, var(lit))` for every literal -/
def compileClause : σ → P → Clause → Option (σ × P)
  | s, acc, [] => some (s, acc)
  | s, acc, l :: ls =>
    match O.or s acc (O.var l.var l.pol) with
    | none => none
    | some (s1, r) => compileClause s1 r ls

/-- the outer loop of `compile_cnf`: every clause starts from its first literal and then
disjoins ALL its literals (the first one a second time); `lit_vec[0]` panics on an empty clause -/
def compileClauses : σ → List Clause → Option (σ × List P)
  | s, [] => some (s, [])
  | _, [] :: _ => none
  | s, (l :: ls) :: cs =>
    match compileClause O s (O.var l.var l.pol) (l :: ls) with
    | none => none
    | some (s1, p) =>
      match compileClauses s1 cs with
      | none => none
      | some (s2, ps) => some (s2, p :: ps)

/-- `collapse_clauses`: balanced conjunction, split at `len / 2`.  The first argument bounds the
recursion depth; `ps.length` is always enough (`collapse_total`). -/
def collapse : Nat → σ → List P → Option (σ × Option P)
  | _, s, [] => some (s, none)
  | _, s, [p] => some (s, some p)
  | 0, _, _ :: _ :: _ => none
  | n + 1, s, p :: q :: ps =>
    let v := p :: q :: ps
    let k := v.length / 2
    match collapse n s (v.take k) with
    | none => none
    | some (s1, subL) =>
      match collapse n s1 (v.drop k) with
      | none => none
      | some (s2, subR) =>
        match subL, subR with
        | none, none => some (s2, none)
        | some x, none => some (s2, some x)
        | none, some x => some (s2, some x)
        | some x, some y =>
          match O.and s2 x y with
          | none => none
          | some (s3, r) => some (s3, some r)

def collapseClauses (s : σ) (ps : List P) : Option (σ × Option P) := collapse O ps.length s ps

/-- `compile_cnf` on the ALREADY PERMUTED clause list `cs` (the two early returns do not depend
on the permutation) -/
def compileCnf (s : σ) (cs : Cnf) : Option (σ × P) :=
  if cs.isEmpty then some (s, O.tru)
  else if cs.any List.isEmpty then some (s, O.fls)
  else
    match compileClauses O s cs with
    | none => none
    | some (s1, ps) =>
      match collapseClauses O s1 ps with
      | none => none
      | some (s2, none) => some (s2, O.tru)
      | some (s2, some r) => some (s2, r)

end generic

/-- sort key of a clause in `compile_cnf`: the level of its LAST literal (`max_by` with a
comparator that never answers `Greater` keeps the last element); never used on `[]` -/
def clauseKey (lvl : Nat → Nat) (c : Clause) : Nat :=
  match c.getLast? with
  | some l => lvl l.var
  | none => 0

/-- insertion of an EARLIER clause into the sorted later ones: before the first clause whose key
is not smaller (so that equal keys keep their input order) -/
def insertClause (lvl : Nat → Nat) (c : Clause) : List Clause → List Clause
  | [] => [c]
  | d :: ds => if clauseKey lvl d < clauseKey lvl c then d :: insertClause lvl c ds else c :: d :: ds

/-- stable sort by `clauseKey`: what `sort_by` with the `Less`/`Equal` comparator does in the
current `std` (it only asks `compare a b == Less`) -/
def sortClauses (lvl : Nat → Nat) (cs : List Clause) : List Clause :=
  cs.foldr (insertClause lvl) []

/-! ### `Cnf::new` (`src/repr/cnf.rs`): what `cnf.clauses()` is for a user-supplied clause list

Every clause is stably sorted by label (`sort_by_key`) and consecutive equal literals are removed
(`dedup`); complementary literals stay, and so do equal literals separated by their complement
(`[x, ¬x, x]`). -/

def insertLit (l : Lit) : Clause → Clause
  | [] => [l]
  | d :: ds => if d.var < l.var then d :: insertLit l ds else l :: d :: ds

def sortLits (c : Clause) : Clause := c.foldr insertLit []

/-- `Vec::dedup` -/
def dedupLits : Clause → Clause
  | [] => []
  | [x] => [x]
  | x :: y :: r => if x = y then dedupLits (y :: r) else x :: dedupLits (y :: r)

/-- the clause list stored by `Cnf::new` -/
def cnfNew (cs : List Clause) : Cnf := cs.map fun c => dedupLits (sortLits c)

/-! ## `compile_cnf_with_assignments` -/

/-- remove the element at position `i` -/
def extract {α : Type} : Nat → List α → Option (α × List α)
  | _, [] => none
  | 0, x :: xs => some (x, xs)
  | i + 1, x :: xs =>
    match extract i xs with
    | none => none
    | some (y, r) => some (y, x :: r)

/-- a merge strategy sees the current entries `(diagram, size)` and names the two to conjoin next:
entry `i % len` of the list, then entry `j % (len - 1)` of what is left -/
abbrev Strategy (P : Type) := List (P × Nat) → Nat × Nat

/-- position of the first entry of minimal size -/
def argMin {P : Type} : List (P × Nat) → Nat
  | [] => 0
  | [_] => 0
  | e :: f :: es =>
    let i := argMin (f :: es)
    match (f :: es)[i]? with
    | some m => if m.2 < e.2 then i + 1 else 0
    | none => 0

/-- pop the smallest entry twice (ties: earliest entry; results are appended at the end) -/
def heapStrategy {P : Type} : Strategy P := fun es =>
  let i := argMin es
  match extract i es with
  | some (_, rest) => (i, argMin rest)
  | none => (0, 0)

section generic
variable {σ P : Type} (O : Ops σ P)

/-- the per-clause loop of `compile_cnf_with_assignments`: unassigned literals are disjoined
(`or(var, cur)`), a literal the partial model makes true ends the loop with `true`, a false
literal is skipped -/
def clauseUnder (m : PModel) : σ → P → Clause → Option (σ × P)
  | s, cur, [] => some (s, cur)
  | s, cur, l :: ls =>
    match m l.var with
    | none =>
      match O.or s (O.var l.var l.pol) cur with
      | none => none
      | some (s1, r) => clauseUnder m s1 r ls
    | some v => if v = l.pol then some (s, O.tru) else clauseUnder m s cur ls

/-- the heap entries in push order -/
def clausesUnder (m : PModel) : σ → List Clause → Option (σ × List (P × Nat))
  | s, [] => some (s, [])
  | s, c :: cs =>
    match clauseUnder O m s O.fls c with
    | none => none
    | some (s1, p) =>
      match clausesUnder m s1 cs with
      | none => none
      | some (s2, es) => some (s2, (p, O.size p) :: es)

/-- the `while compiled_heap.len() > 1` loop; the first argument bounds the number of
iterations, `es.length` is always enough; `[]` is the `pop().unwrap()` panic (unreachable) -/
def mergeLoop (strat : Strategy P) : Nat → σ → List (P × Nat) → Option (σ × P)
  | _, _, [] => none
  | _, s, [e] => some (s, e.1)
  | 0, _, _ :: _ :: _ => none
  | n + 1, s, e :: f :: es =>
    let v := e :: f :: es
    let (i, j) := strat v
    match extract (i % v.length) v with
    | none => none
    | some (e1, rest) =>
      match extract (j % rest.length) rest with
      | none => none
      | some (e2, rest2) =>
        match O.and s e1.1 e2.1 with
        | none => none
        | some (s1, r) => mergeLoop strat n s1 (rest2 ++ [(r, O.size r)])

/-- `compile_cnf_with_assignments` -/
def compileWithAssign (strat : Strategy P) (m : PModel) (s : σ) (cs : Cnf) : Option (σ × P) :=
  if cs.isEmpty then some (s, O.tru)
  else
    match clausesUnder O m s cs with
    | none => none
    | some (s1, es) => mergeLoop O strat es.length s1 es

end generic
end Compile

/-! ## the ROBDD builder as an instance -/
namespace Bdd
open Spec Compile

/-- `count_nodes` helper: the distinct internal nodes reachable from `p`, the complement bit of
pointers ignored (the scratch mark lives on the node) -/
def countH : Ptr → List Ptr → List Ptr
  | .tru, seen => seen
  | .fls, seen => seen
  | .node _ v lo hi, seen =>
    let k := Ptr.node false v lo hi
    if k ∈ seen then seen else countH hi (countH lo (k :: seen))

/-- `BddPtr::count_nodes` -/
def countNodes (p : Ptr) : Nat := (countH p []).length

/-- the ROBDD builder (`impl BottomUpBuilder for T : BddBuilder`) as a record of operations -/
def ops (C : CacheImpl) (lvl : Nat → Nat) (fuel : Nat) : Ops C.σ Ptr where
  tru := .tru
  fls := .fls
  var := mkVar
  neg := Ptr.neg
  and := bAnd C lvl fuel
  or := bOr C lvl fuel
  iff := bIff C lvl fuel
  xor := bXor C lvl fuel
  ite := ite C lvl fuel
  size := countNodes

/-- level map of an order given as `pos_to_var` (labels outside the order sit at their own
index, as after `new_last`) -/
def lvlOfOrder (order : List Nat) (v : Nat) : Nat :=
  match order.idxOf? v with
  | some i => i
  | none => v

/-- a partial model given as a vector indexed by label -/
def pmodelOfList (m : List (Option Bool)) : PModel := fun x => (m[x]?).join

/-- `PartialModel::assignment_iter`: false literals ascending, then true literals ascending -/
def assignmentIter (m : List (Option Bool)) : List (Nat × Bool) :=
  let idx := m.zipIdx
  (idx.filterMap fun (o, i) => if o == some false then some (i, false) else none) ++
  (idx.filterMap fun (o, i) => if o == some true then some (i, true) else none)

/-! ### executable entry points for differential testing (list cache, fresh builder) -/

/-- `RobddBuilder::compile_cnf` under the order `order` (`pos_to_var`), clause permutation as in
the current `std` (`sortClauses`) -/
def runCompileCnf (order : List Nat) (cs : Cnf) (fuel : Nat := 4096) : Option Ptr :=
  let lvl := lvlOfOrder order
  (compileCnf (ops ListCache lvl fuel) ListCache.empty (sortClauses lvl cs)).map (·.2)

/-- the same for an explicitly given clause permutation -/
def runCompileCnfPermuted (order : List Nat) (permuted : Cnf) (fuel : Nat := 4096) : Option Ptr :=
  (compileCnf (ops ListCache (lvlOfOrder order) fuel) ListCache.empty permuted).map (·.2)

/-- `compile_cnf_with_assignments` with the `heapStrategy` merge order -/
def runCompileCnfWithAssign (order : List Nat) (cs : Cnf) (m : List (Option Bool))
    (fuel : Nat := 4096) : Option Ptr :=
  (compileWithAssign (ops ListCache (lvlOfOrder order) fuel) heapStrategy (pmodelOfList m)
    ListCache.empty cs).map (·.2)

/-- `compile_cnf` followed by `condition_model` (the right-hand side of the C05 equation) -/
def runCompileThenCondition (order : List Nat) (cs : Cnf) (m : List (Option Bool))
    (fuel : Nat := 4096) : Option Ptr :=
  (runCompileCnf order cs fuel).map fun p => condModel (lvlOfOrder order) p (assignmentIter m)

def runCompileExpr (order : List Nat) (e : LogicalExpr) (fuel : Nat := 4096) : Option Ptr :=
  (compileExpr (ops ListCache (lvlOfOrder order) fuel) ListCache.empty e).map (·.2)

def runCompilePlan (order : List Nat) (p : Plan) (fuel : Nat := 4096) : Option Ptr :=
  (compilePlan (ops ListCache (lvlOfOrder order) fuel) ListCache.empty p).map (·.2)

/-- `compile_plan(BottomUpPlan::from_dtree(t))` -/
def runCompileDtree (order : List Nat) (t : DTree) (fuel : Nat := 4096) : Option Ptr :=
  runCompilePlan order (Plan.fromDtree t) fuel

end Bdd
