import RsddModel.Spec.Cnf
/-!
# Model: dtrees (`src/repr/dtree.rs`), vtrees and the vtree manager (`src/repr/vtree.rs`,
`src/util/btree.rs`)

* `VTree` is `BTree<(), VarLabel>`: `leaf label | node l r`.
* `VarSet` (a `BitSet`, iterated in ascending order) is modelled as a strictly ascending list.
* A tree node is identified in the Rust by its address (`*const BTree`, the keys of
  `bfs_labeling` / `dfs_labeling`); the model identifies it by its root path (`List Bool`,
  `false` = left, root first).  `bfsPaths` is the queue traversal of `BreadthFirstIter`,
  `inorderPaths` is `dfs_recurse`, `eulerPaths` is `build_euler_vec`.
* `segment_tree 2.0` is not modelled: `rangeMin v l r` is the minimum of `v[l..r)` (HALF-OPEN), and
  `usize::MAX` for an empty range.  (The library folds with identity `usize::MAX`; on a non-empty
  range of `usize` values that is the plain minimum.)
* `DTree.fromCnfOrig` mirrors `DTree::from_cnf` as it is in the repository: the nodes created by the
  FINAL `balanced(&subtrees)` never get `init_vars()` called, so their `vars` stay empty.
  `DTree.fromCnf` adds that one call (`res.init_vars()` before `res.gen_cutset(..)`).
* Panics (`balanced(&[])`, `right_linear(&[])`, …) are modelled by `none`.
-/
namespace VT
open Spec

/-! ## vtrees -/

inductive VTree where
  | leaf (v : Nat)
  | node (l r : VTree)
deriving Repr, DecidableEq, Inhabited

namespace VTree

def isLeaf : VTree → Bool
  | leaf _ => true
  | node _ _ => false

/-- number of nodes -/
def size : VTree → Nat
  | leaf _ => 1
  | node l r => size l + 1 + size r

/-- leaf labels left to right (`flatten_vtree`) -/
def leaves : VTree → List Nat
  | leaf v => [v]
  | node l r => leaves l ++ leaves r

/-- `VTree::right_linear` -/
def rightLinear : List Nat → Option VTree
  | [] => none
  | [x] => some (leaf x)
  | x :: y :: rest => (rightLinear (y :: rest)).map fun r => node (leaf x) r

/-- `VTree::left_linear` (`[rest @ .., last]` peels from the back) -/
def leftLinear : List Nat → Option VTree
  | [] => none
  | x :: xs => some (xs.foldl (fun t y => node t (leaf y)) (leaf x))

/-- `VTree::even_split` -/
def evenSplit (order : List Nat) : Nat → Option VTree
  | 0 => rightLinear order
  | k + 1 =>
    match evenSplit (order.take (order.length / 2)) k, evenSplit (order.drop (order.length / 2)) k with
    | some l, some r => some (node l r)
    | _, _ => none

/-- `VTree::right_linear_c(vars, continuation)`; `([], None)` panics in the Rust (`none` here) -/
def rightLinearC : List Nat → Option VTree → Option VTree
  | [], c => c
  | v :: vs, c =>
    match rightLinearC vs c with
    | none => some (leaf v)
    | some s => some (node (leaf v) s)

/-- `VTree::num_vars` (the recursive one on the tree, used to size `vtree_lookup`) -/
def numVarsTree : VTree → Nat
  | leaf v => v + 1
  | node l r => max (numVarsTree l) (numVarsTree r)

end VTree

/-! ## VarSet as strictly ascending lists -/

namespace VarSet

def insert (x : Nat) : List Nat → List Nat
  | [] => [x]
  | y :: ys => if x < y then x :: y :: ys else if x = y then y :: ys else y :: insert x ys

def union (a b : List Nat) : List Nat := b.foldl (fun s x => insert x s) a
def inter (a b : List Nat) : List Nat := a.filter fun x => b.contains x
def minus (a b : List Nat) : List Nat := a.filter fun x => !b.contains x

end VarSet

/-! ## dtrees -/

inductive DTree where
  | leaf (clause : Clause) (cutset vars : List Nat)
  | node (l r : DTree) (cutset vars : List Nat)
deriving Repr, DecidableEq, Inhabited

namespace DTree

/-- `get_vars` -/
def vars : DTree → List Nat
  | leaf _ _ vs => vs
  | node _ _ _ vs => vs

def cutset : DTree → List Nat
  | leaf _ cut _ => cut
  | node _ _ cut _ => cut

/-- the leaf clauses, left to right -/
def leaves : DTree → List Clause
  | leaf c _ _ => [c]
  | node l r _ _ => leaves l ++ leaves r

/-- `init_vars` -/
def initVars : DTree → DTree
  | leaf c cut vs => leaf c cut (c.foldl (fun s l => VarSet.insert l.var s) vs)
  | node l r cut _ =>
    let l' := initVars l
    let r' := initVars r
    node l' r' cut (VarSet.union l'.vars r'.vars)

/-- `gen_cutset(ancestor_cutset)` -/
def genCutset (anc : List Nat) : DTree → DTree
  | leaf c _ vs => leaf c (VarSet.minus vs anc) vs
  | node l r _ vs =>
    let my := VarSet.minus (VarSet.inter l.vars r.vars) anc
    let anc' := VarSet.union anc my
    node (genCutset anc' l) (genCutset anc' r) my vs

/-- `balanced(trees)` with recursion fuel; `none` for the empty slice (the Rust asserts) -/
def balancedAux : Nat → List DTree → Option DTree
  | 0, _ => none
  | _ + 1, [] => none
  | _ + 1, [t] => some t
  | fuel + 1, ts =>
    match balancedAux fuel (ts.take (ts.length / 2)), balancedAux fuel (ts.drop (ts.length / 2)) with
    | some l, some r => some (node l r [] [])
    | _, _ => none

def balanced (ts : List DTree) : Option DTree := balancedAux ts.length ts

/-- the leaf for a clause, `init_vars` already run -/
def leafOf (c : Clause) : DTree := initVars (leaf c [] [])

/-- one round of the `for o in elim_order.in_order_iter()` loop -/
def elimStep (subtrees : List DTree) (o : Nat) : List DTree :=
  let t := subtrees.filter fun d => d.vars.contains o
  let s := subtrees.filter fun d => !d.vars.contains o
  match balanced t with
  | none => s
  | some nt => s ++ [initVars nt]

/-- the `subtrees` left when the elimination order is exhausted -/
def components (cs : Cnf) (elimOrder : List Nat) : List DTree :=
  elimOrder.foldl elimStep (cs.map leafOf)

/-- `DTree::from_cnf` exactly as in the repository (`elimOrder` is `elim_order.in_order_iter()`,
i.e. the `pos_to_var` list); `none` when the CNF has no clause (`balanced` asserts) -/
def fromCnfOrig (cs : Cnf) (elimOrder : List Nat) : Option DTree :=
  (balanced (components cs elimOrder)).map fun res => genCutset [] res

/-- `DTree::from_cnf` with `res.init_vars()` added before `res.gen_cutset(..)` -/
def fromCnf (cs : Cnf) (elimOrder : List Nat) : Option DTree :=
  (balanced (components cs elimOrder)).map fun res => genCutset [] (initVars res)

/-- `cutwidth` -/
def cutwidth : DTree → Nat
  | leaf _ _ _ => 0
  | node l r cut _ => max cut.length (max (cutwidth l) (cutwidth r))

/-- pre-order list of `(is_leaf, vars, cutset)` -/
def preorder : DTree → List (Bool × List Nat × List Nat)
  | leaf _ cut vs => [(true, vs, cut)]
  | node l r cut vs => (false, vs, cut) :: (preorder l ++ preorder r)

end DTree

/-- `VTree::from_dtree` -/
def VTree.fromDtree : DTree → Option VTree
  | .leaf _ cut _ => VTree.rightLinearC cut none
  | .node l r cut _ =>
    let sub :=
      match VTree.fromDtree l, VTree.fromDtree r with
      | none, none => none
      | some l, none => some l
      | none, some r => some r
      | some l, some r => some (VTree.node l r)
    VTree.rightLinearC cut sub

/-! ## traversals, node identities -/

abbrev Path := List Bool

namespace VTree

/-- `inorder_dfs_iter` (the visited subtrees) -/
def inorder : VTree → List VTree
  | leaf v => [leaf v]
  | node l r => inorder l ++ node l r :: inorder r

/-- the root paths of the nodes in `inorder_dfs_iter` order -/
def inorderPaths : VTree → List Path
  | leaf _ => [[]]
  | node l r => (inorderPaths l).map (false :: ·) ++ [] :: (inorderPaths r).map (true :: ·)

/-- the subtree at a root path -/
def subtreeAt : VTree → Path → Option VTree
  | t, [] => some t
  | leaf _, _ :: _ => none
  | node l _, false :: p => subtreeAt l p
  | node _ r, true :: p => subtreeAt r p

/-- `BreadthFirstIter`: pop the front, push the children to the back -/
def bfsLoop : Nat → List (Path × VTree) → List Path
  | 0, _ => []
  | _ + 1, [] => []
  | fuel + 1, (p, leaf _) :: q => p :: bfsLoop fuel q
  | fuel + 1, (p, node l r) :: q => p :: bfsLoop fuel (q ++ [(p ++ [false], l), (p ++ [true], r)])

/-- the nodes in `bfs_iter` order -/
def bfsPaths (t : VTree) : List Path := bfsLoop t.size [([], t)]

/-- `build_euler_vec`, as node identities -/
def eulerPaths : VTree → List Path
  | leaf _ => [[]]
  | node l r =>
    [] :: ((eulerPaths l).map (false :: ·) ++ [] :: ((eulerPaths r).map (true :: ·) ++ [[]]))

/-- `bfs_labeling()[node]` -/
def bfsLabel (t : VTree) (p : Path) : Nat := (bfsPaths t).idxOf p
/-- `dfs_labeling()[node]` -/
def dfsLabel (t : VTree) (p : Path) : Nat := (inorderPaths t).idxOf p

/-- `dfs_to_bfs_mapping` -/
def dfsToBfs (t : VTree) : List Nat := (inorderPaths t).map (bfsLabel t)
/-- `bfs_to_dfs_mapping` -/
def bfsToDfs (t : VTree) : List Nat := (bfsPaths t).map (dfsLabel t)

/-- the Euler tour of BFS indices handed to the segment tree -/
def eulerVec (t : VTree) : List Nat := (eulerPaths t).map (bfsLabel t)

/-- `index_map`: BFS index ↦ first occurrence in the Euler tour -/
def indexMap (t : VTree) : List Nat := (List.range t.size).map fun b => (eulerVec t).idxOf b

/-- the loop filling `vtree_lookup` -/
def lookupLoop : List VTree → Nat → List Nat → List Nat
  | [], _, tbl => tbl
  | leaf v :: rest, i, tbl => lookupLoop rest (i + 1) (tbl.set v i)
  | node _ _ :: rest, i, tbl => lookupLoop rest (i + 1) tbl

/-- `all_vars().into_iter().max().unwrap()` -/
def maxLabel : VTree → Nat
  | leaf v => v
  | node l r => max (maxLabel l) (maxLabel r)

end VTree

def usizeMax : Nat := 2 ^ 64 - 1

/-- `SegmentPoint::<usize, Min>::query(l, r)`: minimum of `v[l..r)` -/
def rangeMin (v : List Nat) (l r : Nat) : Nat :=
  match (v.drop l).take (r - l) with
  | [] => usizeMax
  | x :: xs => xs.foldl min x

/-! ## the vtree manager -/

structure VTreeManager where
  tree : VTree
  dfsToBfs : List Nat
  bfsToDfs : List Nat
  vtreeIndex : List Nat
  indexLookup : List VTree
  /-- contents of `lca.seg_tree` -/
  euler : List Nat
  /-- `lca.index_map` -/
  indexMap : List Nat
deriving Repr

namespace VTreeManager

/-- `VTreeManager::new` -/
def new (t : VTree) : VTreeManager :=
  { tree := t
    dfsToBfs := t.dfsToBfs
    bfsToDfs := t.bfsToDfs
    vtreeIndex := VTree.lookupLoop t.inorder 0 (List.replicate t.numVarsTree 0)
    indexLookup := t.inorder
    euler := t.eulerVec
    indexMap := t.indexMap }

/-- `LeastCommonAncestor::lca(l, r)` on BFS indices -/
def lcaBfs (m : VTreeManager) (l r : Nat) : Nat :=
  if l = r then l else
    let l' := m.indexMap.getD l 0
    let r' := m.indexMap.getD r 0
    if l' < r' then rangeMin m.euler l' r' else rangeMin m.euler r' l'

/-- `VTreeManager::lca(l, r)` on in-order (DFS) indices -/
def lca (m : VTreeManager) (l r : Nat) : Nat :=
  m.bfsToDfs.getD (m.lcaBfs (m.dfsToBfs.getD l 0) (m.dfsToBfs.getD r 0)) 0

/-- `is_prime_index(l, r)` -/
def isPrimeIndex (_m : VTreeManager) (l r : Nat) : Bool := decide (l < r)

/-- `var_index(lbl)` (called `get_varlabel_idx` in older versions) -/
def getVarlabelIdx (m : VTreeManager) (lbl : Nat) : Nat := m.vtreeIndex.getD lbl 0

/-- `is_prime_var(a, b)` -/
def isPrimeVar (m : VTreeManager) (a b : Nat) : Bool :=
  m.isPrimeIndex (m.getVarlabelIdx a) (m.getVarlabelIdx b)

/-- `vtree(idx)` -/
def vtree (m : VTreeManager) (idx : Nat) : Option VTree := m.indexLookup[idx]?

/-- `VTreeManager::num_vars` as repaired: largest label + 1 -/
def numVars (m : VTreeManager) : Nat := m.tree.maxLabel + 1

/-- `VTreeManager::num_vars` before the repair: the largest label -/
def numVarsOrig (m : VTreeManager) : Nat := m.tree.maxLabel

end VTreeManager

/-! ## reports for the differential test -/

structure VTreeReport where
  /-- for every node in in-order (= index) order: `(index, some label)` for a leaf,
  `(index, none)` for an inner node -/
  nodes : List (Nat × Option Nat)
  /-- row `i`, column `j`: `lca(VTreeIndex(i), VTreeIndex(j)).value()` for all `i, j < #nodes` -/
  lca : List (List Nat)
  /-- row `i`, column `j`: `is_prime_index(i, j)` -/
  prime : List (List Bool)
  /-- `VTreeManager::num_vars()` -/
  numVars : Nat
  /-- for every leaf label in left-to-right order: `(label, var_index(label).value())` -/
  varIdx : List (Nat × Nat)
  dfsToBfs : List Nat
  bfsToDfs : List Nat
deriving Repr

def vtreeReport (t : VTree) : VTreeReport :=
  let m := VTreeManager.new t
  let n := t.size
  let idxs := List.range n
  { nodes := (t.inorder.zip idxs).map fun (s, i) =>
      match s with
      | .leaf v => (i, some v)
      | .node _ _ => (i, none)
    lca := idxs.map fun i => idxs.map fun j => m.lca i j
    prime := idxs.map fun i => idxs.map fun j => m.isPrimeIndex i j
    numVars := m.numVars
    varIdx := t.leaves.map fun v => (v, m.getVarlabelIdx v)
    dfsToBfs := m.dfsToBfs
    bfsToDfs := m.bfsToDfs }

def natsToString (l : List Nat) : String := ",".intercalate (l.map toString)

/-- `nodes=<i:label|i:->;… lca=<row0>;<row1>;… prime=<rows of 0/1> nv=<n> var=<label:idx>;… d2b=… b2d=…`
(rows are comma separated) -/
def VTreeReport.render (r : VTreeReport) : String :=
  let nodes := ";".intercalate (r.nodes.map fun (i, o) =>
    match o with
    | some v => s!"{i}:{v}"
    | none => s!"{i}:-")
  let lca := ";".intercalate (r.lca.map natsToString)
  let prime := ";".intercalate (r.prime.map fun row => natsToString (row.map fun b => if b then 1 else 0))
  let var := ";".intercalate (r.varIdx.map fun (v, i) => s!"{v}:{i}")
  s!"nodes={nodes} lca={lca} prime={prime} nv={r.numVars} var={var} " ++
  s!"d2b={natsToString r.dfsToBfs} b2d={natsToString r.bfsToDfs}"

structure DTreeReport where
  /-- the leaf clauses left to right, each literal as `(label, polarity)` -/
  leaves : List (List (Nat × Bool))
  /-- PRE-ORDER (node, then left subtree, then right subtree): `(is_leaf, vars, cutset)`,
  sets in ascending order -/
  nodes : List (Bool × List Nat × List Nat)
  cutwidth : Nat
  /-- leaves of `VTree::from_dtree`, left to right; `none` when it returns `None` -/
  vtreeLeaves : Option (List Nat)
  /-- the derived vtree itself -/
  vtree : Option VTree
deriving Repr

def DTree.report (d : DTree) : DTreeReport :=
  { leaves := d.leaves.map fun c => c.map fun l => (l.var, l.pol)
    nodes := d.preorder
    cutwidth := d.cutwidth
    vtreeLeaves := (VTree.fromDtree d).map VTree.leaves
    vtree := VTree.fromDtree d }

/-- report for `DTree::from_cnf` WITH the `init_vars` repair; `none` when the CNF has no clause -/
def dtreeReport (cs : Cnf) (elimOrder : List Nat) : Option DTreeReport :=
  (DTree.fromCnf cs elimOrder).map DTree.report

/-- report for `DTree::from_cnf` as it is in the repository -/
def dtreeReportOrig (cs : Cnf) (elimOrder : List Nat) : Option DTreeReport :=
  (DTree.fromCnfOrig cs elimOrder).map DTree.report

def VTree.render : VTree → String
  | .leaf v => toString v
  | .node l r => s!"({VTree.render l} {VTree.render r})"

/-- `leaves=<lit,lit;lit…|…> nodes=<L|N>:<vars>:<cutset>|… cw=<n> vt=<leaves|NONE> vtree=<sexp|NONE>`
(a literal is `label` or `-label`… printed as `+l`/`-l`) -/
def DTreeReport.render (r : DTreeReport) : String :=
  let lit := fun (p : Nat × Bool) => (if p.2 then "+" else "-") ++ toString p.1
  let leaves := "|".intercalate (r.leaves.map fun c => ",".intercalate (c.map lit))
  let nodes := "|".intercalate (r.nodes.map fun (lf, vs, cut) =>
    (if lf then "L" else "N") ++ ":" ++ natsToString vs ++ ":" ++ natsToString cut)
  let vt := match r.vtreeLeaves with
    | some l => natsToString l
    | none => "NONE"
  let vtree := match r.vtree with
    | some t => t.render
    | none => "NONE"
  s!"leaves={leaves} nodes={nodes} cw={r.cutwidth} vt={vt} vtree={vtree}"

end VT
