import RsddModel.Model.SddWmc
import RsddModel.Spec.Cnf
/-!
# Model: the semantic-hash SDD builder (`src/builder/sdd/semantic.rs`)

`SemanticSddBuilder<P>` implements the `SddBuilder` trait (`src/builder/sdd/builder.rs`) with
* `sdd_eq(a, b)` = equality of `cached_semantic_hash` values — so `eq`, `is_true` (= `eq(a, True)`)
  and `is_false` in every inherited operation are *hash* comparisons;
* `get_or_insert_bdd/sdd(node)`: look the node's semantic hash up (`0 ↦ False`, `1 ↦ True`, else the
  node tables keyed by the hash), then the negated hash (result complemented), else insert;
* `app_cache_get/insert` keyed by `SddAnd::semantic_hash = hash(a) · hash(b)`, with `0 ↦ False`,
  `1 ↦ True` on lookup and no insertion for keys `≤ 1`;
* `compress` a no-op, `canonicalize = unique_or`; `ite` (hence `xor`, `iff`, `compose`) is `todo!()`.

The model is a variant of `Model/Sdd.lean` (same tree-level pointers, same vtree queries, same
loops), with every structural test replaced by the hash judgement and `unique_bdd`/`unique_or`
threading the node table.

Parameters (`Params`): the vtree, the hash `h : Ptr → Nat` (the Rust's `cached_semantic_hash` for
the builder's fixed weight map; `Sdd.hashTree P w` in `run`), `negH` (`FiniteField::negate`),
`mulH` (`FiniteField::mul`).  The two node tables are one association list keyed by the hash
value: the Rust keys them by `FxHash(value)` and never compares elements
(`get_or_insert_by_hash(.., equality_by_hash = true)`, `get_by_hash`); `FxHasher` is injective on
`u128` values below `2^64` (one multiply-rotate round of the low word, the high word is zero), so
for a 64-bit prime the key is the value; a key is inserted only when neither table has it, hence
one map.

`chk` switches on a *collision detector*: every hash-based judgement (an equality test, a table
hit / insertion, an apply-cache hit) is compared with the truth tables over the vtree's variables
and the run stops (`none`) at the first judgement a collision falsified.  `chk = false` is the
builder as shipped.  `Lemmas/SddSemantic.lean`: a checked run that returns, returns exactly what
the unchecked run returns, and all its results are right.

`none` = a panic of the Rust (`todo!()`, index panics, `low()` on a non-BDD, …), fuel, or (with
`chk`) a detected collision.  Core Lean only.
-/
namespace SddSem
open Sdd Spec

structure Params where
  vt : VTree
  h : Ptr → Nat
  negH : Nat → Nat
  mulH : Nat → Nat → Nat
  chk : Bool

/-! ## ground truth (used only by the collision detector) -/

def assignments (vt : VTree) : List Assign := allAssignments vt.leaves (fun _ => false)

/-- same truth table over the vtree's variables -/
def equivB (vt : VTree) (a b : Ptr) : Bool :=
  (assignments vt).all fun asg => a.eval asg == b.eval asg

/-- `r` has the truth table of `a ∧ b` -/
def equivAndB (vt : VTree) (r a b : Ptr) : Bool :=
  (assignments vt).all fun asg => r.eval asg == (a.eval asg && b.eval asg)

/-- pass `x` on unless the detector is on and the judgement is wrong -/
def guardJ {α : Type} (π : Params) (ok : Bool) (x : α) : Option α :=
  if π.chk && !ok then none else some x

/-! ## judgements -/

/-- `sdd_eq` -/
def eqJ (π : Params) (a b : Ptr) : Option Bool :=
  guardJ π ((π.h a == π.h b) == equivB π.vt a b) (π.h a == π.h b)

/-- `is_true(a)` = `eq(a, PtrTrue)` -/
def isTrueJ (π : Params) (a : Ptr) : Option Bool := eqJ π a .tru
/-- `is_false(a)` = `eq(a, PtrFalse)` -/
def isFalseJ (π : Params) (a : Ptr) : Option Bool := eqJ π a .fls

/-- `x && y` where `y` is only judged when `x` holds -/
def andJ (x y : Option Bool) : Option Bool :=
  match x with
  | none => none
  | some false => some false
  | some true => y

/-- `x || y` where `y` is only judged when `x` fails -/
def orJ (x y : Option Bool) : Option Bool :=
  match x with
  | none => none
  | some true => some true
  | some false => y

/-- `s.is_neg() || self.is_false(s) || s.is_neg_var()` -/
def flipJ (π : Params) (s : Ptr) : Option Bool :=
  if s.isNeg then some true else orJ (isFalseJ π s) (some s.isNegVar)

/-! ## builder state: node table and apply cache, both keyed by hash values -/

structure St where
  tbl : List (Nat × Ptr)
  app : List (Nat × Ptr)

def St.init : St := ⟨[], []⟩

/-- `get_shared_sdd_ptr` -/
def shared (st : St) (x : Nat) : Option Ptr :=
  if x = 0 then some .fls else if x = 1 then some .tru else ListCache.get st.tbl x

/-- `get_or_insert_bdd` / `get_or_insert_sdd` (`check_cached_hash_and_neg`, then insert);
`node` is the regular pointer to the candidate node -/
def getOrInsert (π : Params) (st : St) (node : Ptr) : Option (St × Ptr) :=
  let x := π.h node
  let res : St × Ptr :=
    match shared st x with
    | some r => (st, r)
    | none =>
      match shared st (π.negH x) with
      | some r => (st, r.neg)
      | none => (⟨(x, node) :: st.tbl, st.app⟩, node)
  guardJ π (equivB π.vt res.2 node) res

/-- `SddAnd::semantic_hash` -/
def appKey (π : Params) (a b : Ptr) : Nat := π.mulH (π.h a) (π.h b)

/-- `app_cache_get` -/
def appGet (π : Params) (st : St) (a b : Ptr) : Option (Option Ptr) :=
  let k := appKey π a b
  match (if k = 0 then some Ptr.fls else if k = 1 then some Ptr.tru else ListCache.get st.app k) with
  | none => some none
  | some x => guardJ π (equivAndB π.vt x a b) (some x)

/-- `app_cache_insert` -/
def appInsert (π : Params) (st : St) (a b r : Ptr) : St :=
  if appKey π a b > 1 then ⟨st.tbl, (appKey π a b, r) :: st.app⟩ else st

/-! ## unique_bdd / unique_or -/

/-- `unique_bdd` -/
def uniqueBdd (π : Params) (st : St) (l : Nat) (lo hi : Ptr) (idx : Nat) : Option (St × Ptr) :=
  match eqJ π hi lo with
  | none => none
  | some true => some (st, hi)
  | some false =>
    match andJ (isFalseJ π hi) (isTrueJ π lo) with
    | none => none
    | some true => some (st, .lit l false)
    | some false =>
      match andJ (isTrueJ π hi) (isFalseJ π lo) with
      | none => none
      | some true => some (st, .lit l true)
      | some false =>
        match flipJ π hi with
        | none => none
        | some true =>
          match getOrInsert π st (.bdd false l idx lo.neg hi.neg) with
          | none => none
          | some (st', r) => some (st', r.neg)
        | some false => getOrInsert π st (.bdd false l idx lo hi)

/-- `unique_or` (= `canonicalize` for this builder) -/
def uniqueOr (π : Params) (st : St) (node : List Elem) (table : Nat) : Option (St × Ptr) :=
  match asBdd? node with
  | some (l, lo, hi) => uniqueBdd π st l lo hi table
  | none =>
    match sortByPrime node with
    | [] => none
    | (p0, s0) :: rest =>
      match flipJ π s0 with
      | none => none
      | some true =>
        match getOrInsert π st (.dec false table (negSubs ((p0, s0) :: rest))) with
        | none => none
        | some (st', r) => some (st', r.neg)
      | some false => getOrInsert π st (.dec false table ((p0, s0) :: rest))

/-! ## `and` -/

abbrev AndF := St → Ptr → Ptr → Option (St × Ptr)

/-- default `or`: De Morgan through `and` -/
def orF (andF : AndF) (st : St) (a b : Ptr) : Option (St × Ptr) :=
  match andF st a.neg b.neg with
  | some (st', r) => some (st', r.neg)
  | none => none

/-- `and_indep` -/
def andIndep (π : Params) (st : St) (a b : Ptr) (lca : Nat) : Option (St × Ptr) :=
  if π.vt.isRLAt lca then
    match a with
    | .lit l true => uniqueBdd π st l .fls b lca
    | .lit l false => uniqueBdd π st l b .fls lca
    | _ => none
  else uniqueOr π st [(a, b), (a.neg, .fls)] lca

/-- the loop of `and_sub_desc` -/
def subDescLoop (andF : AndF) (d : Ptr) : St → List Elem → Option (St × List Elem)
  | st, [] => some (st, [])
  | st, (p, s) :: rest =>
    match andF st s d with
    | none => none
    | some (st1, ns) =>
      match subDescLoop andF d st1 rest with
      | none => none
      | some (st2, v) => some (st2, (p, ns) :: v)

/-- `and_sub_desc` -/
def andSubDesc (π : Params) (andF : AndF) (st : St) (r d : Ptr) : Option (St × Ptr) :=
  match r with
  | .bdd c l i lo hi =>
    match andF st (if c then lo.neg else lo) d with
    | none => none
    | some (st1, lr) =>
      match andF st1 (if c then hi.neg else hi) d with
      | none => none
      | some (st2, hr) => uniqueBdd π st2 l lr hr i
  | .dec c i es =>
    match subDescLoop andF d st (if c then negSubs es else es) with
    | none => none
    | some (st', v) => uniqueOr π st' v i
  | _ => none

/-- the inner `for a2 in b` loop (`brk`: the implied-prime `break` of `and_cartesian`) -/
def innerLoop (π : Params) (andF : AndF) (brk : Bool) (p1 s1 : Ptr) :
    St → List Elem → Option (St × LoopRes)
  | st, [] => some (st, .elems [])
  | st, (p2, s2) :: rest =>
    match andF st p1 p2 with
    | none => none
    | some (st1, p) =>
      match isFalseJ π p with
      | none => none
      | some true => innerLoop π andF brk p1 s1 st1 rest
      | some false =>
        match andF st1 s1 s2 with
        | none => none
        | some (st2, s) =>
          match andJ (isTrueJ π p) (isTrueJ π s) with
          | none => none
          | some true => some (st2, .early .tru)
          | some false =>
            match (if brk then eqJ π p1 p else some false) with
            | none => none
            | some true => some (st2, .elems [(p, s)])
            | some false =>
              match innerLoop π andF brk p1 s1 st2 rest with
              | none => none
              | some (st3, .early r) => some (st3, .early r)
              | some (st3, .elems l) => some (st3, .elems ((p, s) :: l))

/-- `b.node_iter().find(|a| self.eq(a.prime(), p1))` -/
def findJ (π : Params) (p1 : Ptr) : List Elem → Option (Option Elem)
  | [] => some none
  | e :: rest =>
    match eqJ π e.1 p1 with
    | none => none
    | some true => some (some e)
    | some false => findJ π p1 rest

/-- the outer `for a1 in a` loop (`cart = true`: `and_cartesian`, else `and_prime_desc`) -/
def prodLoop (π : Params) (andF : AndF) (cart : Bool) (eb : List Elem) :
    St → List Elem → Option (St × LoopRes)
  | st, [] => some (st, .elems [])
  | st, (p1, s1) :: rest =>
    match (if cart then findJ π p1 eb else some none) with
    | none => none
    | some (some (_, s2)) =>
      match andF st s1 s2 with
      | none => none
      | some (st1, s) =>
        match prodLoop π andF cart eb st1 rest with
        | none => none
        | some (st2, .early r) => some (st2, .early r)
        | some (st2, .elems l) => some (st2, .elems ((p1, s) :: l))
    | some none =>
      match innerLoop π andF cart p1 s1 st eb with
      | none => none
      | some (st1, .early r) => some (st1, .early r)
      | some (st1, .elems l1) =>
        match prodLoop π andF cart eb st1 rest with
        | none => none
        | some (st2, .early r) => some (st2, .early r)
        | some (st2, .elems l) => some (st2, .elems (l1 ++ l))

/-- `and_prime_desc` -/
def andPrimeDesc (π : Params) (andF : AndF) (st : St) (r d : Ptr) : Option (St × Ptr) :=
  match r.elems? with
  | none => none
  | some er =>
    match prodLoop π andF false [(d, .tru), (d.neg, .fls)] st er with
    | none => none
    | some (st', .early x) => some (st', x)
    | some (st', .elems l) =>
      match r with
      | .bdd _ _ i _ _ => uniqueOr π st' l i
      | .dec _ i _ => uniqueOr π st' l i
      | _ => none

/-- `and_cartesian` -/
def andCartesian (π : Params) (andF : AndF) (st : St) (a b : Ptr) (lca : Nat) : Option (St × Ptr) :=
  match (if π.vt.isRLAt lca then a else .tru) with
  | .bdd c l _ lo hi =>
    match b.low?, b.high? with
    | some bl, some bh =>
      match andF st (if c then lo.neg else lo) bl with
      | none => none
      | some (st1, lr) =>
        match andF st1 (if c then hi.neg else hi) bh with
        | none => none
        | some (st2, hr) => uniqueBdd π st2 l lr hr lca
    | _, _ => none
  | _ =>
    match a.elems?, b.elems? with
    | some ea, some eb =>
      match prodLoop π andF true eb st ea with
      | none => none
      | some (st', .early x) => some (st', x)
      | some (st', .elems l) => uniqueOr π st' l lca
    | _, _ => none

/-- after the base cases and the operand normalisation: apply-cache lookup, the four vtree cases,
cache insert -/
def andCore (π : Params) (andF : AndF) (st : St) (a b : Ptr) : Option (St × Ptr) :=
  match appGet π st a b with
  | none => none
  | some (some x) => some (st, x)
  | some none =>
    let av := vtreeIndex π.vt a
    let bv := vtreeIndex π.vt b
    let lca := π.vt.lca 0 av bv
    let r :=
      if av = bv then andCartesian π andF st a b lca
      else if lca = av then andSubDesc π andF st a b
      else if lca = bv then andPrimeDesc π andF st b a
      else andIndep π st a b lca
    match r with
    | none => none
    | some (st', r) => some (appInsert π st' a b r, r)

/-- the body of `and`: the six base cases (judged in the order of the Rust `match`), operand
normalisation -/
def andBody (π : Params) (andF : AndF) (st : St) (a b : Ptr) : Option (St × Ptr) :=
  match isTrueJ π a with
  | none => none
  | some true => some (st, b)
  | some false =>
  match isTrueJ π b with
  | none => none
  | some true => some (st, a)
  | some false =>
  match isFalseJ π a with
  | none => none
  | some true => some (st, .fls)
  | some false =>
  match isFalseJ π b with
  | none => none
  | some true => some (st, .fls)
  | some false =>
  match eqJ π a b with
  | none => none
  | some true => some (st, a)
  | some false =>
  match eqJ π a b.neg with
  | none => none
  | some true => some (st, .fls)
  | some false =>
    if vtreeIndex π.vt a = vtreeIndex π.vt b ∨ vtreeIndex π.vt a < vtreeIndex π.vt b then
      andCore π andF st a b
    else andCore π andF st b a

/-- `BottomUpBuilder::and` -/
def and (π : Params) : Nat → AndF
  | 0 => fun _ _ _ => none
  | fuel + 1 => andBody π (and π fuel)

/-! ## condition, exists -/

/-- the element loop of `condition` -/
def condLoop (π : Params) (condF : St → Ptr → Option (St × Ptr)) :
    St → List Elem → Option (St × LoopRes)
  | st, [] => some (st, .elems [])
  | st, (p, s) :: rest =>
    match condF st p with
    | none => none
    | some (st1, newp) =>
      match isFalseJ π newp with
      | none => none
      | some true => condLoop π condF st1 rest
      | some false =>
        match condF st1 s with
        | none => none
        | some (st2, news) =>
          match isTrueJ π newp with
          | none => none
          | some true => some (st2, .early news)
          | some false =>
            match condLoop π condF st2 rest with
            | none => none
            | some (st3, .early r) => some (st3, .early r)
            | some (st3, .elems l) => some (st3, .elems ((newp, news) :: l))

/-- `condition` -/
def condition (π : Params) (x : Nat) (v : Bool) : Nat → St → Ptr → Option (St × Ptr)
  | 0, _, _ => none
  | n + 1, st, f =>
    match f with
    | .tru => some (st, .tru)
    | .fls => some (st, .fls)
    | .lit l p => some (st, if l = x then (if p = v then .tru else .fls) else .lit l p)
    | .bdd c l i lo hi =>
      match condLoop π (condition π x v n) st
          [(.lit l true, if c then hi.neg else hi), (.lit l false, if c then lo.neg else lo)] with
      | none => none
      | some (st', .early r) => some (st', r)
      | some (st', .elems es) => uniqueOr π st' es i
    | .dec c i es =>
      match condLoop π (condition π x v n) st (if c then negSubs es else es) with
      | none => none
      | some (st', .early r) => some (st', r)
      | some (st', .elems es') => uniqueOr π st' es' i

section ops
variable (π : Params) (fuel : Nat)

def bAnd : AndF := and π fuel
def bOr : AndF := orF (and π fuel)
def bCond (st : St) (f : Ptr) (x : Nat) (v : Bool) : Option (St × Ptr) := condition π x v fuel st f

/-- `exists` -/
def bExists (st : St) (f : Ptr) (x : Nat) : Option (St × Ptr) :=
  match bCond π fuel st f x true with
  | none => none
  | some (s1, v1) =>
    match bCond π fuel s1 f x false with
    | none => none
    | some (s2, v2) => bOr π fuel s2 v1 v2

/-! ## compile_cnf -/

/-- the clause loop: `bdd = Var(first); for lit in clause { bdd = or(bdd, Var(lit)) }` -/
def clauseLoop (st : St) (acc : Ptr) : List Lit → Option (St × Ptr)
  | [] => some (st, acc)
  | l :: ls =>
    match bOr π fuel st acc (.lit l.var l.pol) with
    | none => none
    | some (st', r) => clauseLoop st' r ls

def compileClause (st : St) : Clause → Option (St × Ptr)
  | [] => none
  | l :: ls => clauseLoop π fuel st (.lit l.var l.pol) (l :: ls)

def compileClauses (st : St) : List Clause → Option (St × List Ptr)
  | [] => some (st, [])
  | c :: cs =>
    match compileClause π fuel st c with
    | none => none
    | some (st1, p) =>
      match compileClauses st1 cs with
      | none => none
      | some (st2, ps) => some (st2, p :: ps)

/-- `compile_cnf_helper`: balanced conjunction (`split_at(len / 2)`); `n` bounds the depth -/
def cnfHelper : Nat → St → List Ptr → Option (St × Option Ptr)
  | 0, _, _ => none
  | _ + 1, st, [] => some (st, none)
  | _ + 1, st, [x] => some (st, some x)
  | n + 1, st, v =>
    match cnfHelper n st (v.take (v.length / 2)) with
    | none => none
    | some (st1, l) =>
      match cnfHelper n st1 (v.drop (v.length / 2)) with
      | none => none
      | some (st2, r) =>
        match l, r with
        | none, none => some (st2, none)
        | some x, none => some (st2, some x)
        | none, some y => some (st2, some y)
        | some x, some y =>
          match bAnd π fuel st2 x y with
          | none => none
          | some (st3, z) => some (st3, some z)

/-- `compile_cnf` after the clause sort: empty CNF, empty clause, the clause loop, the balanced
conjunction.  (The correctness theorem is for every clause order.) -/
def compileCnf (st : St) (cnf : Cnf) : Option (St × Ptr) :=
  if cnf.isEmpty then some (st, .tru)
  else if cnf.any (·.isEmpty) then some (st, .fls)
  else
    match compileClauses π fuel st cnf with
    | none => none
    | some (st1, ps) =>
      match cnfHelper π fuel (ps.length + 1) st1 ps with
      | none => none
      | some (st2, none) => some (st2, .tru)
      | some (st2, some x) => some (st2, x)

end ops

/-! ## the clause sort of `compile_cnf`

`cnf_sorted.sort_by(|c1, c2| if is_prime_var(fst1, fst2) { Less } else { Equal })` where
`fstᵢ = cᵢ.iter().max_by(|l1, l2| if is_prime_var(l1, l2) { Less } else { Equal })`.
`Iterator::max_by` keeps the later element unless the comparison says `Greater`, which this
comparator never does: `fstᵢ` is the LAST literal of the clause.  `sort_by` only ever asks whether
the comparison is `Less`, i.e. whether `var_index(fst1) < var_index(fst2)`, and is stable: the
clauses are stably sorted by the vtree index of their last literal's variable. -/

def clauseKey (vt : VTree) (c : Clause) : Nat :=
  match c.getLast? with
  | some l => (vt.varIndex? 0 l.var).getD 0
  | none => 0

/-- insertion in front of the first clause whose key is not smaller (stable) -/
def insertClause (vt : VTree) (c : Clause) : List Clause → List Clause
  | [] => [c]
  | d :: ds => if clauseKey vt d < clauseKey vt c then d :: insertClause vt c ds else c :: d :: ds

def sortClauses (vt : VTree) : List Clause → List Clause
  | [] => []
  | c :: cs => insertClause vt c (sortClauses vt cs)

/-- `compile_cnf` -/
def compileCnfSorted (π : Params) (fuel : Nat) (st : St) (cnf : Cnf) : Option (St × Ptr) :=
  compileCnf π fuel st (sortClauses π.vt cnf)

/-! ## the operation language (that of C03; `ite`, `xor`, `iff`, `compose` are `todo!()`) -/

structure RunSt where
  st : St
  pool : List Ptr

def step (π : Params) (fuel : Nat) (rs : RunSt) : Op → Option RunSt
  | .const b => some ⟨rs.st, rs.pool ++ [if b then .tru else .fls]⟩
  | .var x pol => if π.vt.hasVar x then some ⟨rs.st, rs.pool ++ [.lit x pol]⟩ else none
  | .neg i => (rs.pool[i]?).map fun p => ⟨rs.st, rs.pool ++ [p.neg]⟩
  | .and i j =>
    match rs.pool[i]?, rs.pool[j]? with
    | some p, some q => (bAnd π fuel rs.st p q).map fun (s, r) => ⟨s, rs.pool ++ [r]⟩
    | _, _ => none
  | .or i j =>
    match rs.pool[i]?, rs.pool[j]? with
    | some p, some q => (bOr π fuel rs.st p q).map fun (s, r) => ⟨s, rs.pool ++ [r]⟩
    | _, _ => none
  | .cond i x b =>
    match rs.pool[i]? with
    | some p => (bCond π fuel rs.st p x b).map fun (s, r) => ⟨s, rs.pool ++ [r]⟩
    | none => none
  | .exist i x =>
    match rs.pool[i]? with
    | some p => (bExists π fuel rs.st p x).map fun (s, r) => ⟨s, rs.pool ++ [r]⟩
    | none => none
  | .xor _ _ | .iff _ _ | .ite _ _ _ | .compose _ _ _ => none

def runFrom (π : Params) (fuel : Nat) (rs : RunSt) : List Op → Option RunSt
  | [] => some rs
  | op :: ops =>
    match step π fuel rs op with
    | none => none
    | some rs' => runFrom π fuel rs' ops

/-- weight map from a list of `(low, high)` pairs, variable `i` ↦ entry `i` (`(0, 0)` outside) -/
def weightsOf (ws : List (Nat × Nat)) : Weights Nat := fun v => ws.getD v (0, 0)

/-- `SemanticSddBuilder::<P>` with the weight map `ws` -/
def params (vt : VTree) (P : Nat) (ws : List (Nat × Nat)) (chk : Bool) : Params :=
  ⟨vt, hashTree P (weightsOf ws), Sem.ffNegate P, Sem.ffMul P, chk⟩

/-- entry point for differential testing: the builder as shipped -/
def run (vt : VTree) (P : Nat) (weights : List (Nat × Nat)) (fuel : Nat) (ops : List Op) :
    Option (List Ptr) :=
  (runFrom (params vt P weights false) fuel ⟨St.init, []⟩ ops).map (·.pool)

/-- the same with the collision detector on -/
def runChecked (vt : VTree) (P : Nat) (weights : List (Nat × Nat)) (fuel : Nat) (ops : List Op) :
    Option (List Ptr) :=
  (runFrom (params vt P weights true) fuel ⟨St.init, []⟩ ops).map (·.pool)

/-- `compile_cnf` from a fresh builder -/
def runCnf (vt : VTree) (P : Nat) (weights : List (Nat × Nat)) (chk : Bool) (fuel : Nat) (cnf : Cnf) :
    Option Ptr :=
  (compileCnfSorted (params vt P weights chk) fuel St.init cnf).map (·.2)

/-- `sdd_eq` on two results -/
def sddEq (_vt : VTree) (P : Nat) (weights : List (Nat × Nat)) (a b : Ptr) : Bool :=
  hashTree P (weightsOf weights) a == hashTree P (weightsOf weights) b

end SddSem
