import RsddModel.Model.BddBuilder
import RsddModel.Model.BddWmc
import RsddModel.Model.Semirings
/-!
# Model: the C interface (`src/ffi/bdd.rs`, `src/ffi/wmc.rs`)

Every exported function dereferences its handle arguments (`*mut BddPtr`, each a
`Box<BddPtr>`), calls the corresponding Rust operation on the manager, and returns a fresh
handle to a copy of the resulting pointer.  The handle table is the list of boxed pointers
in allocation order.
-/
namespace Ffi
open Bdd Spec

/-- the exported calls that build diagrams; arguments are handles (allocation indices) -/
inductive Call where
  | tru | fls
  | var (label : Nat) (pol : Bool)
  | newVar (pol : Bool)
  | neg (f : Nat)
  | and (l r : Nat) | or (l r : Nat)
  | ite (f g h : Nat)
  | compose (f l g : Nat)
deriving Repr

structure St (C : CacheImpl) where
  cache : C.σ
  numVars : Nat
  /-- `Box<BddPtr>` contents, handle `k` = `k`-th allocation -/
  handles : List Ptr

def St.init (C : CacheImpl) (n : Nat) : St C := ⟨C.empty, n, []⟩

/-- one exported call: dereference, call the native operation, box the result -/
def step (C : CacheImpl) (lvl : Nat → Nat) (fuel : Nat) (st : St C) : Call → Option (St C)
  | .tru => some { st with handles := st.handles ++ [.tru] }
  | .fls => some { st with handles := st.handles ++ [.fls] }
  | .var x pol => if x < st.numVars then some { st with handles := st.handles ++ [mkVar x pol] } else none
  | .newVar pol => some { st with numVars := st.numVars + 1, handles := st.handles ++ [mkVar st.numVars pol] }
  | .neg f => (st.handles[f]?).map fun p => { st with handles := st.handles ++ [p.neg] }
  | .and l r =>
    match st.handles[l]?, st.handles[r]? with
    | some p, some q => (bAnd C lvl fuel st.cache p q).map fun (s, x) => { st with cache := s, handles := st.handles ++ [x] }
    | _, _ => none
  | .or l r =>
    match st.handles[l]?, st.handles[r]? with
    | some p, some q => (bOr C lvl fuel st.cache p q).map fun (s, x) => { st with cache := s, handles := st.handles ++ [x] }
    | _, _ => none
  | .ite f g h =>
    match st.handles[f]?, st.handles[g]?, st.handles[h]? with
    | some p, some q, some r => (ite C lvl fuel st.cache p q r).map fun (s, x) => { st with cache := s, handles := st.handles ++ [x] }
    | _, _, _ => none
  | .compose f l g =>
    if l < st.numVars then
      match st.handles[f]?, st.handles[g]? with
      | some p, some q => (bCompose C lvl fuel st.cache p l q).map fun (s, x) => { st with cache := s, handles := st.handles ++ [x] }
      | _, _ => none
    else none

def run (C : CacheImpl) (lvl : Nat → Nat) (fuel : Nat) (st : St C) : List Call → Option (St C)
  | [] => some st
  | c :: cs =>
    match step C lvl fuel st c with
    | none => none
    | some st' => run C lvl fuel st' cs

/-- the corresponding native operation -/
def Call.toOp : Call → Op
  | .tru => .const true
  | .fls => .const false
  | .var x p => .var x p
  | .newVar p => .newVar p
  | .neg f => .neg f
  | .and l r => .and l r
  | .or l r => .or l r
  | .ite f g h => .ite f g h
  | .compose f l g => .compose f l g

/-- projection of a C-side state to the native builder state (handles ↦ pool) -/
def St.toNative {C : CacheImpl} (st : St C) : Bdd.St C := ⟨st.cache, st.numVars, st.handles⟩

/-! ## accessors -/

/-- `bdd_eq`: `builder.eq(*left, *right)` = pointer equality of the pointees -/
def bddEq (p q : Ptr) : Bool := decide (p = q)

/-- `bdd_topvar` (constants give the placeholder `0`) -/
def topvar : Ptr → Nat
  | .node _ v _ _ => v
  | _ => 0

/-- `bdd_low`: `BddPtr::low()`, complement-adjusted; `none` = the Rust panics on a constant -/
def low : Ptr → Option Ptr
  | .node c _ lo _ => some (if c then lo.neg else lo)
  | _ => none

def high : Ptr → Option Ptr
  | .node c _ _ hi => some (if c then hi.neg else hi)
  | _ => none

/-- `robdd_model_count`: smooth over all variables of the manager, count with weights
`(one, one)` in `FiniteField<P>`, cast the value to `u64` -/
def modelCount (P : Nat) (lvl varAt : Nat → Nat) (numVars : Nat) (p : Ptr) : Nat :=
  wmc (Sem.ffOps P) (fun _ => (Sem.ffNew P 1, Sem.ffNew P 1)) (smooth lvl varAt p numVars)

/-- `from_c_parts(coeffs, len)`: at most `MAX_COEFFS` coefficients are copied; a null pointer or
length zero gives the zero polynomial -/
def fromCParts {α : Type} (S : SROps α) (maxCoeffs : Nat) (cs : List α) : Sem.Poly α :=
  if cs.isEmpty then Sem.polyZero S maxCoeffs else Sem.polyOfList S maxCoeffs cs

end Ffi
