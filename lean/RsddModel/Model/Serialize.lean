import RsddModel.Spec.Text
import RsddModel.Model.Bdd
import RsddModel.Model.Sdd
/-!
# Model: parsing and serialisation glue (C17)

Mirrors, function by function,

* `Cnf::new`, `Cnf::from_dimacs`, `Cnf::to_dimacs` (`src/repr/cnf.rs`),
* `LogicalExpr::{from_dimacs, from_sexpr, eval}` (`src/repr/logical_expr.rs`),
* `LogicalSExpr::{unique_variables, variable_mapping}` (`src/serialize/ser_logical_expr.rs`),
* `BDDSerializer::from_bdd`, `SDDSerializer::from_sdd`, `VTreeSerializer::from_vtree`
  (`src/serialize/ser_{bdd,sdd,vtree}.rs`).

The crates `dimacs`, `serde_sexpr`, `serde_json` are *not* modelled.  Their results enter as
data: a DIMACS instance is `List (List Int)` (clauses of nonzero signed integers), a deserialised
s-expression is a `LogicalSExpr`; the Lean stand-ins `Spec.Text.dimacsInts` and
`LogicalSExpr.ofSExp` produce these from the text so that the whole path can be run and compared
with the Rust (differential testing covers the crates).

Diagrams are trees (`Bdd.Ptr`, `Sdd.Ptr`); the `HashMap` of visited nodes is keyed by the node
(`&BddNode` with structural `Hash`/`Eq`; `SddPtr` of the regular pointer, pointer identity =
structural identity by the unique table), here an association list keyed by the regular pointer.
Node indices are assigned in post order exactly as `nodes.push` does.

The *table evaluators* (`evalBddTable`, `evalSddTable`, `treeOfVtreeTable`) read a serialised
object naively: a pointer `Ptr{index, compl}` denotes the function of `nodes[index]`, negated if
`compl`.  They do not assume any numbering discipline (fuel = number of nodes).
-/
namespace Ser
open Spec

/-! ## `Cnf::new` -/

/-- insertion that keeps the order of equal keys: `x` comes from *before* the list -/
def insertByLabel (x : Lit) : List Lit → List Lit
  | [] => [x]
  | y :: ys => if x.var ≤ y.var then x :: y :: ys else y :: insertByLabel x ys

/-- `clause.sort_by_key(|a| a.label().value())` (stable) -/
def sortByLabel : List Lit → List Lit
  | [] => []
  | x :: xs => insertByLabel x (sortByLabel xs)

/-- `Vec::dedup`: consecutive repeated elements collapse -/
def dedup : List Lit → List Lit
  | [] => []
  | [x] => [x]
  | x :: y :: r => if x = y then dedup (y :: r) else x :: dedup (y :: r)

/-- the clause vector `Cnf::new` stores -/
def cnfNew (cs : Cnf) : Cnf := cs.map fun c => dedup (sortByLabel c)

/-! ## `Cnf::from_dimacs` glue -/

/-- `Literal::new(VarLabel::new(l.var().to_u64() - 1), l.sign() == Pos)` -/
def litOfSigned (z : Int) : Lit := ⟨z.natAbs - 1, decide (0 < z)⟩

/-- the loop of `Cnf::from_dimacs` over the clauses the `dimacs` crate returns -/
def fromDimacsClauses (zs : List (List Int)) : Cnf := cnfNew (zs.map (·.map litOfSigned))

/-- `Cnf::from_dimacs`, with the Lean reader standing in for the `dimacs` crate -/
def cnfFromDimacs (s : String) : Option Cnf := (Spec.Text.dimacsInts s).map fromDimacsClauses

/-! ## `Cnf::to_dimacs` -/

/-- `format!("{}{}", if polarity {""} else {"-"}, label + 1)` -/
def showLit (l : Lit) : List Char := (if l.pol then [] else ['-']) ++ Nat.toDigits 10 (l.var + 1)

/-- literals joined by single blanks -/
def joinSp : List (List Char) → List Char
  | [] => []
  | [x] => x
  | x :: y :: r => x ++ ' ' :: joinSp (y :: r)

/-- one iteration of the outer loop: `r = format!("{}\n{} 0", r, clause_str)` -/
def clauseLine (c : Clause) : List Char := '\n' :: (joinSp (c.map showLit) ++ [' ', '0'])

def toDimacsChars (cs : Cnf) : List Char := cs.flatMap clauseLine

/-- **`Cnf::to_dimacs`**: the clause lines, each *preceded* by a newline; no `p cnf` header -/
def toDimacs (cs : Cnf) : String := String.ofList (toDimacsChars cs)

/-! ## `LogicalExpr` -/

inductive LogicalExpr where
  | lit (v : Nat) (pol : Bool)
  | not (e : LogicalExpr)
  | and (l r : LogicalExpr)
  | or (l r : LogicalExpr)
  | iff (l r : LogicalExpr)
  | xor (l r : LogicalExpr)
  | ite (g t e : LogicalExpr)
deriving DecidableEq, Repr, Inhabited

/-- `LogicalExpr::eval` (the `HashMap` of values is a total assignment here) -/
def LogicalExpr.eval (a : Assign) : LogicalExpr → Bool
  | .lit v pol => if pol then a v else !(a v)
  | .not e => !(e.eval a)
  | .and l r => l.eval a && r.eval a
  | .or l r => l.eval a || r.eval a
  | .iff l r => l.eval a == r.eval a
  | .xor l r => (!(l.eval a) && r.eval a) || (l.eval a && !(r.eval a))
  | .ite g t e => if g.eval a then t.eval a else e.eval a

/-- `let mut acc = v.pop().unwrap(); for x in v { acc = op(acc, x) }`; `none` = the `unwrap`
panics on an empty vector -/
def popFold {α : Type} (op : α → α → α) (xs : List α) : Option α :=
  match xs.getLast? with
  | none => none
  | some l => some (xs.dropLast.foldl op l)

/-- `LogicalExpr::Literal(l.var().to_u64() as usize, sign)`: the label is the DIMACS number itself
(**1-based**, as the doc-test of `eval` documents), unlike `Cnf::from_dimacs` -/
def exprLitOfSigned (z : Int) : LogicalExpr := .lit z.natAbs (decide (0 < z))

/-- the body of `LogicalExpr::from_dimacs` over the clauses of the `dimacs` crate (the special
cases `len() == 1` coincide with the general ones) -/
def exprFromDimacsClauses (zs : List (List Int)) : Option LogicalExpr := do
  let cls ← zs.mapM fun c => popFold .or (c.map exprLitOfSigned)
  popFold .and cls

def exprFromDimacs (s : String) : Option LogicalExpr :=
  (Spec.Text.dimacsInts s).bind exprFromDimacsClauses

/-! ## `LogicalSExpr` and `LogicalExpr::from_sexpr` -/

inductive LogicalSExpr where
  | tru | fls
  | var (s : String)
  | not (e : LogicalSExpr)
  | or (l r : LogicalSExpr)
  | and (l r : LogicalSExpr)
  | iff (l r : LogicalSExpr)
  | xor (l r : LogicalSExpr)
  | ite (g t e : LogicalSExpr)
deriving DecidableEq, Repr, Inhabited

open Spec.Text in
/-- stand-in for `serde_sexpr::from_str::<LogicalSExpr>` on an already read tree: the derived
`Deserialize` of the enum (unit variants are bare symbols, the others `(Name field …)`) -/
def LogicalSExpr.ofSExp : SExp → Option LogicalSExpr
  | .atom "True" => some .tru
  | .atom "False" => some .fls
  | .list [.atom "Var", .atom x] => some (.var x)
  | .list [.atom "Not", e] => (ofSExp e).map .not
  | .list [.atom "And", e, f] => do let x ← ofSExp e; let y ← ofSExp f; pure (.and x y)
  | .list [.atom "Or", e, f] => do let x ← ofSExp e; let y ← ofSExp f; pure (.or x y)
  | .list [.atom "Iff", e, f] => do let x ← ofSExp e; let y ← ofSExp f; pure (.iff x y)
  | .list [.atom "Xor", e, f] => do let x ← ofSExp e; let y ← ofSExp f; pure (.xor x y)
  | .list [.atom "Ite", g, e, f] => do
    let c ← ofSExp g; let x ← ofSExp e; let y ← ofSExp f; pure (.ite c x y)
  | _ => none

/-- `unique_variables` (a `HashSet`; only its members matter, the result is sorted next) -/
def LogicalSExpr.uniqueVariables : LogicalSExpr → List String
  | .tru | .fls => []
  | .var s => [s]
  | .not e => e.uniqueVariables
  | .or l r | .and l r | .iff l r | .xor l r => l.uniqueVariables ++ r.uniqueVariables
  | .ite g t e => g.uniqueVariables ++ t.uniqueVariables ++ e.uniqueVariables

/-- insertion into a strictly increasing list of names (a name already present is not repeated:
the Rust collects into a set first) -/
def insertName (x : String) : List String → List String
  | [] => [x]
  | y :: ys => if x < y then x :: y :: ys else if x = y then y :: ys else y :: insertName x ys

/-- `v.sort()` of the set of names -/
def sortedNames (l : List String) : List String := l.foldr insertName []

/-- `variable_mapping`: `HashMap::from_iter(v.into_iter().enumerate().map(|(i, x)| (x, i)))` as an
association list in increasing order of names -/
def LogicalSExpr.variableMapping (e : LogicalSExpr) : List (String × Nat) :=
  (sortedNames e.uniqueVariables).zipIdx

def mapGet (m : List (String × Nat)) (x : String) : Option Nat :=
  match m with
  | [] => none
  | (y, i) :: r => if x = y then some i else mapGet r x

/-- the local `helper` of `from_sexpr`; `none` = `todo!()` (constants) or `mapping.get(s).unwrap()`
on an absent name (impossible, see `fromSexpr_total`) -/
def fromSexprHelper (m : List (String × Nat)) : LogicalSExpr → Option LogicalExpr
  | .tru => none
  | .fls => none
  | .var s => (mapGet m s).map fun i => .lit i true
  | .not (.var s) => (mapGet m s).map fun i => .lit i false
  | .not e => (fromSexprHelper m e).map .not
  | .or l r => do let x ← fromSexprHelper m l; let y ← fromSexprHelper m r; pure (.or x y)
  | .and l r => do let x ← fromSexprHelper m l; let y ← fromSexprHelper m r; pure (.and x y)
  | .iff l r => do let x ← fromSexprHelper m l; let y ← fromSexprHelper m r; pure (.iff x y)
  | .xor l r => do let x ← fromSexprHelper m l; let y ← fromSexprHelper m r; pure (.xor x y)
  | .ite g t e => do
    let c ← fromSexprHelper m g; let x ← fromSexprHelper m t; let y ← fromSexprHelper m e
    pure (.ite c x y)

/-- **`LogicalExpr::from_sexpr`** -/
def fromSexpr (e : LogicalSExpr) : Option LogicalExpr := fromSexprHelper e.variableMapping e

/-- text → indexed expression: reader, (stand-in for) serde, glue -/
def exprFromSexprText (s : String) : Option LogicalExpr :=
  (Spec.Text.parseSExp s).bind fun t => (LogicalSExpr.ofSExp t).bind fromSexpr

/-! ## `BDDSerializer` -/

inductive SerBddPtr where
  | ptr (index : Nat) (compl : Bool)
  | tru | fls
deriving DecidableEq, Repr, Inhabited

structure SerBdd where
  topvar : Nat
  low : SerBddPtr
  high : SerBddPtr
deriving DecidableEq, Repr, Inhabited

structure BddTable where
  nodes : Array SerBdd
  roots : List SerBddPtr
deriving DecidableEq, Repr, Inhabited

def assocGet {κ : Type} [DecidableEq κ] : List (κ × Nat) → κ → Option Nat
  | [], _ => none
  | (k', v) :: rest, k => if k = k' then some v else assocGet rest k

/-- the two `&mut` arguments of `serialize_helper` -/
structure BddSt where
  nodes : Array SerBdd
  table : List (Bdd.Ptr × Nat)

/-- `BDDSerializer::serialize_helper`; the key of a node is its regular pointer -/
def serBddAux : Bdd.Ptr → BddSt → SerBddPtr × BddSt
  | .tru, s => (.tru, s)
  | .fls, s => (.fls, s)
  | .node c v lo hi, s =>
    match assocGet s.table (.node false v lo hi) with
    | some i => (.ptr i c, s)
    | none =>
      let (l, s1) := serBddAux lo s
      let (h, s2) := serBddAux hi s1
      let index := s2.nodes.size
      (.ptr index c, ⟨s2.nodes.push ⟨v, l, h⟩, (.node false v lo hi, index) :: s2.table⟩)

/-- **`BDDSerializer::from_bdd`** -/
def serBdd (d : Bdd.Ptr) : BddTable :=
  let (r, s) := serBddAux d ⟨#[], []⟩
  ⟨s.nodes, [r]⟩

/-- naive reading of a pointer into a node table -/
def evalBddPtr (nodes : Array SerBdd) (a : Assign) : Nat → SerBddPtr → Bool
  | _, .tru => true
  | _, .fls => false
  | 0, .ptr _ _ => false
  | fuel + 1, .ptr i c =>
    match nodes[i]? with
    | none => false
    | some n =>
      xor c (if a n.topvar then evalBddPtr nodes a fuel n.high else evalBddPtr nodes a fuel n.low)

/-- **the function a root pointer of a BDD table denotes** -/
def evalBddTable (t : BddTable) (root : SerBddPtr) (a : Assign) : Bool :=
  evalBddPtr t.nodes a t.nodes.size root

/-! ## `SDDSerializer` -/

inductive SerSddPtr where
  | ptr (index : Nat) (compl : Bool)
  | tru | fls
  | lit (label : Nat) (polarity : Bool)
deriving DecidableEq, Repr, Inhabited

structure SddAnd where
  prime : SerSddPtr
  sub : SerSddPtr
deriving DecidableEq, Repr, Inhabited

abbrev SddOr := List SddAnd

structure SddTable where
  nodes : Array SddOr
  roots : List SerSddPtr
deriving DecidableEq, Repr, Inhabited

structure SddSt where
  nodes : Array SddOr
  table : List (Sdd.Ptr × Nat)

mutual
/-- `SDDSerializer::serialize_helper`.  `compl` is the flag of the pointer, `reg` (the key) the
pointer with the flag cleared; a binary node becomes the two-element node
`[(label, high), (¬label, low)]`, low serialised first. -/
def serSddAux : Sdd.Ptr → SddSt → SerSddPtr × SddSt
  | .tru, s => (.tru, s)
  | .fls, s => (.fls, s)
  | .lit v p, s => (.lit v p, s)
  | .bdd c l i lo hi, s =>
    match assocGet s.table (.bdd false l i lo hi) with
    | some idx => (.ptr idx c, s)
    | none =>
      let (lp, s1) := serSddAux lo s
      let (hp, s2) := serSddAux hi s1
      let index := s2.nodes.size
      (.ptr index c,
        ⟨s2.nodes.push [⟨.lit l true, hp⟩, ⟨.lit l false, lp⟩],
         (.bdd false l i lo hi, index) :: s2.table⟩)
  | .dec c i es, s =>
    match assocGet s.table (.dec false i es) with
    | some idx => (.ptr idx c, s)
    | none =>
      let (o, s1) := serSddElems es s
      let index := s1.nodes.size
      (.ptr index c, ⟨s1.nodes.push o, (.dec false i es, index) :: s1.table⟩)
/-- the `or.iter().map(..)` of the decision-node case: prime, then sub, element by element -/
def serSddElems : List (Sdd.Ptr × Sdd.Ptr) → SddSt → SddOr × SddSt
  | [], s => ([], s)
  | (p, sub) :: rest, s =>
    let (pp, s1) := serSddAux p s
    let (sp, s2) := serSddAux sub s1
    let (r, s3) := serSddElems rest s2
    (⟨pp, sp⟩ :: r, s3)
end

/-- **`SDDSerializer::from_sdd`** -/
def serSdd (d : Sdd.Ptr) : SddTable :=
  let (r, s) := serSddAux d ⟨#[], []⟩
  ⟨s.nodes, [r]⟩

/-- naive reading of a pointer into an SDD node table: a node is `⋁ prime ∧ sub` -/
def evalSddPtr (nodes : Array SddOr) (a : Assign) : Nat → SerSddPtr → Bool
  | _, .tru => true
  | _, .fls => false
  | _, .lit v p => if p then a v else !(a v)
  | 0, .ptr _ _ => false
  | fuel + 1, .ptr i c =>
    match nodes[i]? with
    | none => false
    | some o =>
      xor c (o.any fun e => evalSddPtr nodes a fuel e.prime && evalSddPtr nodes a fuel e.sub)

/-- **the function a root pointer of an SDD table denotes** -/
def evalSddTable (t : SddTable) (root : SerSddPtr) (a : Assign) : Bool :=
  evalSddPtr t.nodes a t.nodes.size root

/-! ## `VTreeSerializer` (a nested object, not a table) -/

inductive SerVTree where
  | leaf (v : Nat)
  | node (left right : SerVTree)
deriving DecidableEq, Repr, Inhabited

/-- **`VTreeSerializer::from_vtree`** (the value of the field `root`) -/
def serVtree : Sdd.VTree → SerVTree
  | .leaf v => .leaf v
  | .node l r => .node (serVtree l) (serVtree r)

/-- **the tree a serialised vtree denotes** -/
def treeOfVtreeTable : SerVTree → Sdd.VTree
  | .leaf v => .leaf v
  | .node l r => .node (treeOfVtreeTable l) (treeOfVtreeTable r)

end Ser
