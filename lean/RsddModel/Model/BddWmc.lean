import RsddModel.Model.BddBuilder
import RsddModel.Spec.Wmc
/-!
# Model: weighted model counting, evaluation and smoothing of BDDs

* `wmc` mirrors `DDNNFPtr::unsmoothed_wmc` through `BddPtr::fold` (`src/repr/bdd.rs`,
  `src/repr/ddnnf.rs`): the complement bit of a pointer is pushed into both children,
  `True ↦ one`, `False ↦ zero`, a node is `Or(And(Lit low, low_v), And(Lit high, high_v))`.
  (The memo in the scratch cells is the subject of C10; here the fold is on the tree.)
* `smoothH` mirrors `RobddBuilder::smooth_helper` (as repaired), `smoothHOrig` the pinned one.
-/
namespace Bdd
open Spec

/-- the bottom-up pass of `fold` specialised to `unsmoothed_wmc`; `n` = "an odd number of
complement edges above" -/
def wmcAux {α : Type} (S : SROps α) (w : Weights α) : Ptr → Bool → α
  | .tru, n => if n then S.zero else S.one
  | .fls, n => if n then S.one else S.zero
  | .node c v lo hi, n =>
    let n' := xor n c
    S.add (S.mul (w v).1 (wmcAux S w lo n')) (S.mul (w v).2 (wmcAux S w hi n'))

def wmc {α : Type} (S : SROps α) (w : Weights α) (p : Ptr) : α := wmcAux S w p false

/-- `DDNNFPtr::evaluate`: a count in the Boolean semiring with weights `(!b, b)` -/
def boolOps : SROps Bool := ⟨false, true, (· || ·), (· && ·)⟩
def evaluate (p : Ptr) (inst : Assign) : Bool := wmc boolOps (fun v => (!(inst v), inst v)) p

/-- `smooth_helper(bdd, current, total)` with `n = total - current` as the recursion measure.
`varAt` is `VarOrder::var_at_level`. -/
def smoothH (lvl varAt : Nat → Nat) : Nat → Nat → Ptr → Ptr
  | 0, _, p => p
  | n + 1, cur, .node c v lo hi =>
    if lvl v ≤ cur then
      let r := mkNode v (smoothH lvl varAt n (cur + 1) lo) (smoothH lvl varAt n (cur + 1) hi)
      if c then r.neg else r
    else
      let sub := smoothH lvl varAt n (cur + 1) (.node false v lo hi)
      let r := mkNode (varAt cur) sub sub
      if c then r.neg else r
  | n + 1, cur, p =>
    let sub := smoothH lvl varAt n (cur + 1) p
    mkNode (varAt cur) sub sub

/-- `RobddBuilder::smooth(bdd, num_vars)` -/
def smooth (lvl varAt : Nat → Nat) (p : Ptr) (numVars : Nat) : Ptr := smoothH lvl varAt numVars 0 p

/-- the pinned (defective) helper: a node is kept whatever its level -/
def smoothHOrig (lvl varAt : Nat → Nat) : Nat → Nat → Ptr → Ptr
  | 0, _, p => p
  | n + 1, cur, .node c v lo hi =>
    let r := mkNode v (smoothHOrig lvl varAt n (cur + 1) lo) (smoothHOrig lvl varAt n (cur + 1) hi)
    if c then r.neg else r
  | n + 1, cur, p =>
    let sub := smoothHOrig lvl varAt n (cur + 1) p
    mkNode (varAt cur) sub sub

/-- the variable sequences tested along every root-to-terminal path -/
def Ptr.paths : Ptr → List (List Nat)
  | .tru | .fls => [[]]
  | .node _ v lo hi => (lo.paths.map (v :: ·)) ++ (hi.paths.map (v :: ·))

end Bdd
