import RsddModel.Model.BddBuilder
import RsddModel.Model.LruLemmas
/-!
# Model: the lossy apply table (`LruIteTable`, `src/builder/cache/lru_app.rs`)

`LruIteTable` keys the generic `Lru` of `src/util/lru.rs` by the triple `(f, g, h)` and always
passes `hash = LruIteTable::hash(ite)`, the FxHasher digest of the triple: a *function of the
key*.  That function is the parameter `hashOf` (nothing is assumed about it: collisions are
arbitrary); `num/den` is `GROW_RATIO`, `cap0` the initial capacity exponent.

The state is a table together with its slot invariant (`Lru.Inv`, a proposition, erased in the
compiled driver), so that the contract `CacheImpl.lawful` is provable: every `∀ C : CacheImpl`
theorem of the builder therefore applies to the LRU-backed builder at every capacity, every
growth ratio and every hash function.
-/
namespace Bdd

/-- the LRU-backed apply cache -/
def LruCache (hashOf : (Ptr × Ptr × Ptr) → Nat) (num den cap0 : Nat) : CacheImpl where
  σ := { t : Lru.Tbl (Ptr × Ptr × Ptr) Ptr // Lru.Inv hashOf t }
  empty := ⟨Lru.new cap0, Lru.inv_new hashOf cap0⟩
  get := fun s k => Lru.get s.1 k (hashOf k)
  insert := fun s k v => ⟨Lru.insert num den s.1 k v (hashOf k), Lru.inv_insert num den s.2 k v⟩
  lawful := fun s k v k' v' h => Lru.insert_law num den s.2 k k' v v' h
  empty_get := fun k => Lru.get_new cap0 k (hashOf k)

end Bdd
