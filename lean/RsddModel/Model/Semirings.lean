import RsddModel.Model.SemiringOps
/-!
# Model: the shipped weight types (`src/util/semirings/*.rs`)

One-for-one mirror of

* `finitefield.rs`   — `FiniteField<P>` over `u128`, as repaired by finding F5 (`ffAdd`, `ffMul`,
  `ffSub`, `ffNegate`), the original buggy operations (`ffMulOrig`, `ffSubOrig`), and a *checked*
  reading of every operation (`…C : Option Nat`) in which each `u128` `+`, `-`, `*`, `%` returns
  `none` exactly where the Rust would overflow/underflow/divide by zero (panic in a debug build,
  silent wrap in a release build);
* `realsemiring.rs`, `rational.rs` — over `Rat` ("exactly representable values": every `f64`
  operation that is exact is the rational one);
* `expectation.rs`   — `EU`;
* `complex.rs`       — `Cx`;
* `boolean.rs`       — `Bool` with `||`, `&&`;
* `polynomial_semiring_implementation.rs` — `Poly`, with `MAX_COEFFS` a parameter `maxCoeffs`.

Core Lean only (this file is linked into the driver executable).  Laws: `Lemmas/Semirings.lean`.
-/
namespace Sem

/-! ## Finite fields -/

/-- `FiniteField::new`: `FiniteField { v: v % P }` -/
def ffNew (P v : Nat) : Nat := v % P

/-- `Add::add`: `FiniteField::new((self.v + rhs.v) % P)` -/
def ffAdd (P a b : Nat) : Nat := ffNew P ((a + b) % P)

/-- the `while b > 0 { if b & 1 == 1 { acc = (acc + a) % P }; a = (a + a) % P; b >>= 1 }` loop of
`Mul::mul`; one unit of fuel per iteration (a `u128` has 128 bits, see `ffMulLoop_spec`). -/
def ffMulLoop (P : Nat) : Nat → Nat → Nat → Nat → Nat
  | 0, _, _, acc => acc
  | fuel + 1, a, b, acc =>
    if b > 0 then
      ffMulLoop P fuel ((a + a) % P) (b >>> 1) (if b &&& 1 == 1 then (acc + a) % P else acc)
    else acc

/-- `Mul::mul` (repaired): `checked_mul` succeeds iff the product is below `2^128`. -/
def ffMul (P a b : Nat) : Nat :=
  if a * b < 2 ^ 128 then ffNew P (a * b % P)
  else ffNew P (ffMulLoop P 128 a b 0)

/-- `Sub::sub` (repaired): `FiniteField::new((self.v + (P - rhs.v)) % P)` -/
def ffSub (P a b : Nat) : Nat := ffNew P ((a + (P - b)) % P)

/-- `FiniteField::negate`: `FiniteField::new(P - self.v + 1)`, i.e. "one minus `a`" -/
def ffNegate (P a : Nat) : Nat := ffNew P (P - a + 1)

/-- original `Mul::mul`, release build: `(self.v * rhs.v) % P` with a wrapping `u128` product -/
def ffMulOrig (P a b : Nat) : Nat := ffNew P ((a * b % 2 ^ 128) % P)

/-- original `Sub::sub`: `|a - b|` -/
def ffSubOrig (P a b : Nat) : Nat := ffNew P (if a > b then a - b else b - a)

/-! ### checked `u128` reading (`none` = overflow / underflow / division by zero) -/

def cadd (a b : Nat) : Option Nat := if a + b < 2 ^ 128 then some (a + b) else none
def csub (a b : Nat) : Option Nat := if b ≤ a then some (a - b) else none
def cmul (a b : Nat) : Option Nat := if a * b < 2 ^ 128 then some (a * b) else none
def cmod (a P : Nat) : Option Nat := if P = 0 then none else some (a % P)

def ffNewC (P v : Nat) : Option Nat := cmod v P

def ffAddC (P a b : Nat) : Option Nat := do
  let s ← cadd a b
  let r ← cmod s P
  ffNewC P r

/-- the loop with every `u128` sum checked; running out of fuel is also `none` -/
def ffMulLoopC (P : Nat) : Nat → Nat → Nat → Nat → Option Nat
  | 0, _, b, acc => if b > 0 then none else some acc
  | fuel + 1, a, b, acc =>
    if b > 0 then do
      let acc' ← if b &&& 1 == 1 then (do let s ← cadd acc a; cmod s P) else some acc
      let d ← cadd a a
      let a' ← cmod d P
      ffMulLoopC P fuel a' (b >>> 1) acc'
    else some acc

def ffMulC (P a b : Nat) : Option Nat :=
  match cmul a b with
  | some prod => do let r ← cmod prod P; ffNewC P r
  | none => do let acc ← ffMulLoopC P 128 a b 0; ffNewC P acc

def ffSubC (P a b : Nat) : Option Nat := do
  let d ← csub P b
  let s ← cadd a d
  let r ← cmod s P
  ffNewC P r

def ffNegateC (P a : Nat) : Option Nat := do
  let d ← csub P a
  let s ← cadd d 1
  ffNewC P s

/-- original `Mul::mul`, debug build: the plain product panics on overflow -/
def ffMulOrigC (P a b : Nat) : Option Nat := do
  let prod ← cmul a b
  let r ← cmod prod P
  ffNewC P r

/-- raw operations on `Nat` (the driver calls these on reduced residues) -/
def ffOps (P : Nat) : SROps Nat :=
  { zero := ffNew P 0, one := ffNew P 1, add := ffAdd P, mul := ffMul P }

/-- the carrier the Rust actually uses: `FiniteField<P>` always holds `v < P` -/
structure FF (P : Nat) where
  v : Nat
  lt : v < P
deriving DecidableEq, Repr

theorem ffNew_lt {P : Nat} (hP : 0 < P) (v : Nat) : ffNew P v < P := Nat.mod_lt _ hP

theorem FF.pos {P : Nat} (x : FF P) : 0 < P := Nat.lt_of_le_of_lt (Nat.zero_le _) x.lt

def FF.new {P : Nat} (hP : 0 < P) (v : Nat) : FF P := ⟨ffNew P v, ffNew_lt hP v⟩
def FF.add {P : Nat} (x y : FF P) : FF P := ⟨ffAdd P x.v y.v, ffNew_lt x.pos _⟩
def FF.mul {P : Nat} (x y : FF P) : FF P := ⟨ffMul P x.v y.v, by
  unfold ffMul; split <;> exact ffNew_lt x.pos _⟩
def FF.sub {P : Nat} (x y : FF P) : FF P := ⟨ffSub P x.v y.v, ffNew_lt x.pos _⟩
def FF.negate {P : Nat} (x : FF P) : FF P := ⟨ffNegate P x.v, ffNew_lt x.pos _⟩

def ffOpsFF (P : Nat) (hP : 0 < P) : SROps (FF P) :=
  { zero := FF.new hP 0, one := FF.new hP 1, add := FF.add, mul := FF.mul }

/-! ## Reals (`RealSemiring(f64)`) and rationals (`RationalSemiring`) over `Rat` -/

def realAdd (a b : Rat) : Rat := a + b
def realMul (a b : Rat) : Rat := a * b
def realSub (a b : Rat) : Rat := a - b
/-- `f64::max` -/
def realJoin (a b : Rat) : Rat := max a b
/-- `f64::min` -/
def realMeet (a b : Rat) : Rat := min a b
/-- `BBSemiring::choose`/`BBRing::choose` = `JoinSemilattice::join` -/
def realChoose (a b : Rat) : Rat := realJoin a b
/-- derived `PartialOrd` on a single `f64` field (total on non-NaN values) -/
def realPartialCmp (a b : Rat) : Option Ordering :=
  if a < b then some .lt else if a > b then some .gt else if a = b then some .eq else none

def realOps : SROps Rat := { zero := 0, one := 1, add := realAdd, mul := realMul }

def ratAdd (a b : Rat) : Rat := a + b
def ratMul (a b : Rat) : Rat := a * b
def ratOps : SROps Rat := { zero := 0, one := 1, add := ratAdd, mul := ratMul }

/-! ## Boolean semiring -/

def boolAdd (a b : Bool) : Bool := a || b
def boolMul (a b : Bool) : Bool := a && b
def boolOps : SROps Bool := { zero := false, one := true, add := boolAdd, mul := boolMul }

/-! ## Expected utility `ExpectedUtility(pub f64, pub f64)` -/

structure EU where
  p : Rat
  u : Rat
deriving DecidableEq, Repr, Inhabited

def euZero : EU := ⟨0, 0⟩
def euOne : EU := ⟨1, 0⟩
def euAdd (a b : EU) : EU := ⟨a.p + b.p, a.u + b.u⟩
def euSub (a b : EU) : EU := ⟨a.p - b.p, a.u - b.u⟩
/-- `ExpectedUtility(self.0 * rhs.0, (self.0 * rhs.1) + (self.1 * rhs.0))` -/
def euMul (a b : EU) : EU := ⟨a.p * b.p, a.p * b.u + a.u * b.p⟩
/-- `PartialOrd::partial_cmp` of `expectation.rs`, branch for branch -/
def euPartialCmp (a b : EU) : Option Ordering :=
  if a.p < b.p ∧ a.u < b.u then some .lt
  else if a.p > b.p ∧ a.u > b.u then some .gt
  else if a.p = b.p ∧ a.u = b.u then some .eq
  else none
def euJoin (a b : EU) : EU := ⟨max a.p b.p, max a.u b.u⟩
def euMeet (a b : EU) : EU := ⟨min a.p b.p, min a.u b.u⟩
/-- `if self.1 > arg.1 { *self } else { *arg }` -/
def euChoose (a b : EU) : EU := if a.u > b.u then a else b

def euOps : SROps EU := { zero := euZero, one := euOne, add := euAdd, mul := euMul }

/-! ## Complex numbers -/

structure Cx where
  re : Rat
  im : Rat
deriving DecidableEq, Repr, Inhabited

def cxZero : Cx := ⟨0, 0⟩
def cxOne : Cx := ⟨1, 0⟩
def cxAdd (a b : Cx) : Cx := ⟨a.re + b.re, a.im + b.im⟩
def cxSub (a b : Cx) : Cx := ⟨a.re - b.re, a.im - b.im⟩
def cxMul (a b : Cx) : Cx := ⟨a.re * b.re - a.im * b.im, a.re * b.im + a.im * b.re⟩

def cxOps : SROps Cx := { zero := cxZero, one := cxOne, add := cxAdd, mul := cxMul }

/-! ## Truncated polynomials `Polynomial<C>`; `maxCoeffs` = `MAX_COEFFS` (32 as shipped) -/

/-- `coefficients: [C; MAX_COEFFS]` (a list of length `maxCoeffs`) and `len`.
The Rust `PartialEq`/`Eq` are derived: whole array *and* `len`, which is what the derived
`DecidableEq` here decides. -/
structure Poly (α : Type) where
  coeffs : List α
  len : Nat
deriving DecidableEq, Repr

variable {α : Type}

/-- array read `self.coefficients[i]` (in range whenever the polynomial is well formed) -/
def Poly.coef (S : SROps α) (p : Poly α) (i : Nat) : α := p.coeffs.getD i S.zero

/-- `[C::zero(); MAX_COEFFS]` -/
def polyZeros (S : SROps α) (maxCoeffs : Nat) : List α := List.replicate maxCoeffs S.zero

def polyZero (S : SROps α) (maxCoeffs : Nat) : Poly α :=
  { coeffs := polyZeros S maxCoeffs, len := 0 }

/-- `coeffs[0] = C::one()`, `len: 1` -/
def polyOne (S : SROps α) (maxCoeffs : Nat) : Poly α :=
  { coeffs := (polyZeros S maxCoeffs).set 0 S.one, len := 1 }

/-- `for i in 0..max_len { new_coeffs[i] = self.coefficients[i] + rhs.coefficients[i] }` -/
def polyAdd (S : SROps α) (maxCoeffs : Nat) (p q : Poly α) : Poly α :=
  let maxLen := min (max p.len q.len) maxCoeffs
  { coeffs := (List.range maxLen).foldl
      (fun acc i => acc.set i (S.add (p.coef S i) (q.coef S i))) (polyZeros S maxCoeffs),
    len := maxLen }

/-- body of the inner `for j in 0..rhs.len` loop -/
def polyMulInner (S : SROps α) (maxCoeffs : Nat) (p q : Poly α) (i : Nat) (acc : List α) : List α :=
  (List.range q.len).foldl
    (fun acc j =>
      if i + j < maxCoeffs then
        acc.set (i + j) (S.add (acc.getD (i + j) S.zero) (S.mul (p.coef S i) (q.coef S j)))
      else acc) acc

/-- early return on an empty operand, `new_len = (len1 + len2).saturating_sub(1).min(MAX)`,
double loop with the `i + j < MAX_COEFFS` guard -/
def polyMul (S : SROps α) (maxCoeffs : Nat) (p q : Poly α) : Poly α :=
  if p.len = 0 ∨ q.len = 0 then polyZero S maxCoeffs
  else
    { coeffs := (List.range p.len).foldl (fun acc i => polyMulInner S maxCoeffs p q i acc)
        (polyZeros S maxCoeffs),
      len := min (p.len + q.len - 1) maxCoeffs }

def polyOps (S : SROps α) (maxCoeffs : Nat) : SROps (Poly α) :=
  { zero := polyZero S maxCoeffs, one := polyOne S maxCoeffs,
    add := polyAdd S maxCoeffs, mul := polyMul S maxCoeffs }

/-- build a polynomial from its low coefficients (driver / examples):
pads with zeros up to `maxCoeffs`, truncates beyond -/
def polyOfList (S : SROps α) (maxCoeffs : Nat) (cs : List α) : Poly α :=
  { coeffs := (List.range maxCoeffs).map (fun i => cs.getD i S.zero),
    len := min cs.length maxCoeffs }

end Sem
