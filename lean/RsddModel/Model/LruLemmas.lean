import RsddModel.Model.Lru
/-!
# Lemmas (core only): the lossy cache `Lru` keeps its slot invariant and obeys the one-step law

This file lives under `Model/` because `Model/LruCache.lean` (linked into the compiled driver)
needs `inv_new`, `inv_insert` and `insert_law` to build the `CacheImpl` instance.  The history
theorem, the growth-test lemma and the counter-example are in `Lemmas/Lru.lean`.

`hashOf : K → Nat` is the hash function of the adapter (`LruIteTable::hash`, a function of the
key).  Nothing is assumed about it: collisions are arbitrary.
-/
namespace Lru

variable {K V : Type}

/-- slot invariant: the table has `2^cap` slots and every stored element sits in the slot of its
stored hash, which is the hash of its key -/
def Inv (hashOf : K → Nat) (t : Tbl K V) : Prop :=
  t.tbl.length = 2 ^ t.cap ∧
  ∀ (pos : Nat) (e : Elem K V), t.tbl[pos]? = some (some e) → e.hash = hashOf e.key ∧ powCap e.hash t.cap = pos

/-- `num_filled` is the number of filled slots -/
def CountOk (t : Tbl K V) : Prop := t.numFilled = t.tbl.countP Option.isSome

/-! ## arithmetic -/

theorem powCap_lt (h c : Nat) : powCap h c < 2 ^ c := Nat.mod_lt _ (Nat.two_pow_pos c)

/-- equal slots in the doubled table give equal slots in the old one; contrapositive: two
elements in distinct slots mod `2^c` stay in distinct slots mod `2^(c+1)` -/
theorem powCap_of_powCap_succ {a b c : Nat} (h : powCap a (c + 1) = powCap b (c + 1)) :
    powCap a c = powCap b c := by
  unfold powCap at *
  have hd : 2 ^ c ∣ 2 ^ (c + 1) := ⟨2, by rw [Nat.pow_succ]⟩
  rw [← Nat.mod_mod_of_dvd a hd, ← Nat.mod_mod_of_dvd b hd, h]

theorem powCap_succ_ne {a b c : Nat} (h : powCap a c ≠ powCap b c) :
    powCap a (c + 1) ≠ powCap b (c + 1) := fun h' => h (powCap_of_powCap_succ h')

/-! ## `get` -/

section
variable [DecidableEq K]

theorem get_eq_some_iff (t : Tbl K V) (k : K) (h : Nat) (v : V) :
    get t k h = some v ↔
      ∃ e, t.tbl[powCap h t.cap]? = some (some e) ∧ e.key = k ∧ e.val = v := by
  unfold get
  rw [List.getD_eq_getElem?_getD]
  cases hs : t.tbl[powCap h t.cap]? with
  | none => simp
  | some o =>
    cases o with
    | none => simp
    | some e =>
      simp only [Option.getD_some, Option.some.injEq]
      constructor
      · intro hv
        split at hv
        · exact ⟨e, rfl, by assumption, by simpa using hv⟩
        · cases hv
      · rintro ⟨e', he', hk, hv⟩
        cases he'
        simp [hk, hv]

/-- a returned value is stored under exactly the asked key (no hypothesis at all) -/
theorem get_key (t : Tbl K V) (k : K) (h : Nat) (v : V) (hg : get t k h = some v) :
    ∃ e, some e ∈ t.tbl ∧ e.key = k ∧ e.val = v := by
  obtain ⟨e, he, hk, hv⟩ := (get_eq_some_iff t k h v).1 hg
  exact ⟨e, List.mem_of_getElem? he, hk, hv⟩

end

/-! ## `new` -/

theorem inv_new (hashOf : K → Nat) (cap : Nat) : Inv hashOf (new cap : Tbl K V) := by
  refine ⟨by simp [new], ?_⟩
  intro pos e h
  simp only [new, List.getElem?_replicate] at h
  split at h <;> cases h

theorem get_new [DecidableEq K] (cap : Nat) (k : K) (h : Nat) : get (new cap : Tbl K V) k h = none := by
  cases hg : get (new cap : Tbl K V) k h with
  | none => rfl
  | some v =>
    obtain ⟨e, he, _⟩ := (get_eq_some_iff _ k h v).1 hg
    simp only [new, List.getElem?_replicate] at he
    split at he <;> cases he

/-! ## `insertNoGrow` -/

@[simp] theorem insertNoGrow_cap (t : Tbl K V) (k : K) (v : V) (h : Nat) :
    (insertNoGrow t k v h).cap = t.cap := rfl

@[simp] theorem insertNoGrow_tbl (t : Tbl K V) (k : K) (v : V) (h : Nat) :
    (insertNoGrow t k v h).tbl = t.tbl.set (powCap h t.cap) (some ⟨k, v, h⟩) := rfl

theorem insertNoGrow_length (t : Tbl K V) (k : K) (v : V) (h : Nat) :
    (insertNoGrow t k v h).tbl.length = t.tbl.length := by simp

theorem inv_insertNoGrow {hashOf : K → Nat} {t : Tbl K V} (hi : Inv hashOf t) (k : K) (v : V) :
    Inv hashOf (insertNoGrow t k v (hashOf k)) := by
  refine ⟨by simpa using hi.1, ?_⟩
  intro pos e h
  simp only [insertNoGrow_tbl, insertNoGrow_cap, List.getElem?_set] at h ⊢
  split at h
  · rename_i hp
    split at h
    · cases h; exact ⟨rfl, hp⟩
    · cases h
  · exact hi.2 pos e h

section
variable [DecidableEq K]

/-- one-step law of the slot overwrite; holds for arbitrary hashes and any table -/
theorem insertNoGrow_law (t : Tbl K V) (k k' : K) (v v' : V) (h h' : Nat)
    (hg : get (insertNoGrow t k v h) k' h' = some v') :
    (k' = k ∧ v' = v) ∨ get t k' h' = some v' := by
  obtain ⟨e, he, hk, hv⟩ := (get_eq_some_iff _ _ _ _).1 hg
  simp only [insertNoGrow_tbl, insertNoGrow_cap, List.getElem?_set] at he
  split at he
  · split at he
    · cases he; exact Or.inl ⟨hk.symm, hv.symm⟩
    · cases he
  · exact Or.inr ((get_eq_some_iff _ _ _ _).2 ⟨e, he, hk, hv⟩)

/-- a fresh entry is visible (needs only that the slot exists) -/
theorem insertNoGrow_get_self {t : Tbl K V} (hl : t.tbl.length = 2 ^ t.cap) (k : K) (v : V)
    (h : Nat) : get (insertNoGrow t k v h) k h = some v := by
  refine (get_eq_some_iff _ _ _ _).2 ⟨⟨k, v, h⟩, ?_, rfl, rfl⟩
  simp only [insertNoGrow_tbl, insertNoGrow_cap, List.getElem?_set]
  have := powCap_lt h t.cap
  simp [hl, this]

end

/-! ## `grow` -/

/-- one iteration of the loop of `grow` -/
def growStep (acc : Tbl K V) (e : Option (Elem K V)) : Tbl K V :=
  match e with
  | some e => insertNoGrow acc e.key e.val e.hash
  | none => acc

theorem grow_eq (t : Tbl K V) :
    grow t = ⟨(t.tbl.foldl growStep (new (t.cap + 1))).tbl,
              (t.tbl.foldl growStep (new (t.cap + 1))).cap, t.numFilled⟩ := rfl

theorem growStep_cap (acc : Tbl K V) (e : Option (Elem K V)) : (growStep acc e).cap = acc.cap := by
  cases e <;> rfl

theorem growStep_length (acc : Tbl K V) (e : Option (Elem K V)) :
    (growStep acc e).tbl.length = acc.tbl.length := by
  cases e <;> simp [growStep]

theorem foldl_growStep_cap (l : List (Option (Elem K V))) (acc : Tbl K V) :
    (l.foldl growStep acc).cap = acc.cap := by
  induction l generalizing acc with
  | nil => rfl
  | cons x l ih => rw [List.foldl_cons, ih, growStep_cap]

theorem foldl_growStep_length (l : List (Option (Elem K V))) (acc : Tbl K V) :
    (l.foldl growStep acc).tbl.length = acc.tbl.length := by
  induction l generalizing acc with
  | nil => rfl
  | cons x l ih => rw [List.foldl_cons, ih, growStep_length]

/-- Re-insertion of a list of elements with pairwise distinct slots mod `2^c` into a table of
`2^(c+1)` slots whose present elements are in slots distinct (mod `2^c`) from all of them:
nothing is overwritten, so the result holds exactly the old content plus every list element,
each in the slot of its stored hash. -/
theorem foldl_growStep_char (c : Nat) (l : List (Option (Elem K V))) (acc : Tbl K V)
    (hcap : acc.cap = c + 1) (hlen : acc.tbl.length = 2 ^ (c + 1))
    (hpw : l.Pairwise (fun a b => ∀ ea eb, a = some ea → b = some eb →
      powCap ea.hash c ≠ powCap eb.hash c))
    (hacc : ∀ (p : Nat) (e : Elem K V), acc.tbl[p]? = some (some e) → powCap e.hash (c + 1) = p)
    (hdis : ∀ (p : Nat) (e : Elem K V), acc.tbl[p]? = some (some e) → ∀ e' : Elem K V, some e' ∈ l →
      powCap e.hash c ≠ powCap e'.hash c) :
    ∀ (p : Nat) (e : Elem K V), (l.foldl growStep acc).tbl[p]? = some (some e) ↔
      (acc.tbl[p]? = some (some e) ∨ (some e ∈ l ∧ powCap e.hash (c + 1) = p)) := by
  induction l generalizing acc with
  | nil => intro p e; simp
  | cons x l ih =>
    intro p e
    rw [List.pairwise_cons] at hpw
    cases x with
    | none =>
      have := ih acc hcap hlen hpw.2 hacc
        (fun p e h e' he' => hdis p e h e' (List.mem_cons_of_mem _ he')) p e
      simpa [growStep] using this
    | some e0 =>
      have hq : powCap e0.hash acc.cap < acc.tbl.length := by
        rw [hlen, hcap]; exact powCap_lt _ _
      -- content of the table after this step
      have hstep : ∀ (p : Nat) (e : Elem K V), (growStep acc (some e0)).tbl[p]? = some (some e) ↔
          (acc.tbl[p]? = some (some e) ∨ (e = e0 ∧ powCap e0.hash (c + 1) = p)) := by
        intro p e
        simp only [growStep, insertNoGrow_tbl, List.getElem?_set, hq, if_true]
        rw [hcap]
        split
        · rename_i hp
          constructor
          · intro h
            simp only [Option.some.injEq] at h
            exact Or.inr ⟨by cases e0; cases e; cases h; rfl, hp⟩
          · rintro (h | ⟨h, _⟩)
            · exfalso
              have h1 := hacc p e h
              exact hdis p e h e0 (List.mem_cons_self ..) (powCap_of_powCap_succ (h1.trans hp.symm))
            · cases e0; cases e; cases h; rfl
        · rename_i hp
          constructor
          · exact Or.inl
          · rintro (h | ⟨_, h⟩)
            · exact h
            · exact absurd h hp
      have := ih (growStep acc (some e0)) (by rw [growStep_cap, hcap]) (by rw [growStep_length, hlen])
        hpw.2
        (by
          intro p e h
          rcases (hstep p e).1 h with h | ⟨h, hp⟩
          · exact hacc p e h
          · rw [h]; exact hp)
        (by
          intro p e h e' he'
          rcases (hstep p e).1 h with h | ⟨h, _⟩
          · exact hdis p e h e' (List.mem_cons_of_mem _ he')
          · rw [h]; exact hpw.1 (some e') he' e0 e' rfl rfl)
        p e
      rw [List.foldl_cons, this, hstep]
      constructor
      · rintro ((h | ⟨h, hp⟩) | ⟨h, hp⟩)
        · exact Or.inl h
        · exact Or.inr ⟨by rw [h]; exact List.mem_cons_self .., by rw [h]; exact hp⟩
        · exact Or.inr ⟨List.mem_cons_of_mem _ h, hp⟩
      · rintro (h | ⟨h, hp⟩)
        · exact Or.inl (Or.inl h)
        · rcases List.mem_cons.1 h with h | h
          · exact Or.inl (Or.inr ⟨by simpa using h, by cases h; exact hp⟩)
          · exact Or.inr ⟨h, hp⟩

/-- the stored elements of a table with the slot invariant have pairwise distinct slots -/
theorem inv_pairwise {hashOf : K → Nat} {t : Tbl K V} (hi : Inv hashOf t) :
    t.tbl.Pairwise (fun a b => ∀ ea eb, a = some ea → b = some eb →
      powCap ea.hash t.cap ≠ powCap eb.hash t.cap) := by
  rw [List.pairwise_iff_getElem]
  intro i j hi' hj' hij ea eb ha hb
  have h1 := (hi.2 i ea (by rw [List.getElem?_eq_getElem hi', ha])).2
  have h2 := (hi.2 j eb (by rw [List.getElem?_eq_getElem hj', hb])).2
  omega

/-- content of the grown table: exactly the old elements, each in the slot of its stored hash
modulo `2^(cap+1)` -/
theorem grow_char {hashOf : K → Nat} {t : Tbl K V} (hi : Inv hashOf t) (p : Nat) (e : Elem K V) :
    (grow t).tbl[p]? = some (some e) ↔ (some e ∈ t.tbl ∧ powCap e.hash (t.cap + 1) = p) := by
  have hnew : ∀ (p : Nat) (e : Elem K V), (new (t.cap + 1) : Tbl K V).tbl[p]? ≠ some (some e) := by
    intro p e h
    simp only [new, List.getElem?_replicate] at h
    split at h <;> cases h
  have := foldl_growStep_char t.cap t.tbl (new (t.cap + 1)) rfl (by simp [new]) (inv_pairwise hi)
    (fun p e h => absurd h (hnew p e)) (fun p e h => absurd h (hnew p e)) p e
  rw [grow_eq]
  simp only [this, hnew, false_or]

theorem grow_cap (t : Tbl K V) : (grow t).cap = t.cap + 1 := by
  rw [grow_eq]; simp only [foldl_growStep_cap]; rfl

theorem grow_length (t : Tbl K V) : (grow t).tbl.length = 2 ^ (t.cap + 1) := by
  rw [grow_eq]; simp only [foldl_growStep_length]; simp [new]

theorem inv_grow {hashOf : K → Nat} {t : Tbl K V} (hi : Inv hashOf t) : Inv hashOf (grow t) := by
  refine ⟨by rw [grow_length, grow_cap], ?_⟩
  intro p e h
  obtain ⟨hm, hp⟩ := (grow_char hi p e).1 h
  obtain ⟨i, hi'⟩ := List.getElem?_of_mem hm
  exact ⟨(hi.2 i e hi').1, by rw [grow_cap]; exact hp⟩

/-- growth loses nothing and confuses nothing -/
theorem grow_keeps [DecidableEq K] {hashOf : K → Nat} {t : Tbl K V} (hi : Inv hashOf t) (k : K) :
    get (grow t) k (hashOf k) = get t k (hashOf k) := by
  apply Option.ext
  intro v
  rw [get_eq_some_iff, get_eq_some_iff]
  constructor
  · rintro ⟨e, he, hk, hv⟩
    rw [grow_cap] at he
    obtain ⟨hm, hp⟩ := (grow_char hi _ e).1 he
    obtain ⟨i, hi'⟩ := List.getElem?_of_mem hm
    have := (hi.2 i e hi').2
    rw [powCap_of_powCap_succ hp] at this
    exact ⟨e, by rw [this]; exact hi', hk, hv⟩
  · rintro ⟨e, he, hk, hv⟩
    refine ⟨e, ?_, hk, hv⟩
    rw [grow_cap, grow_char hi]
    refine ⟨List.mem_of_getElem? he, ?_⟩
    rw [(hi.2 _ e he).1, hk]

/-! ## `insert` -/

theorem insert_eq (num den : Nat) (t : Tbl K V) (k : K) (v : V) (h : Nat) :
    insert num den t k v h = insertNoGrow (if needGrow num den t then grow t else t) k v h := rfl

theorem inv_insert {hashOf : K → Nat} (num den : Nat) {t : Tbl K V} (hi : Inv hashOf t)
    (k : K) (v : V) : Inv hashOf (insert num den t k v (hashOf k)) := by
  rw [insert_eq]
  split
  · exact inv_insertNoGrow (inv_grow hi) k v
  · exact inv_insertNoGrow hi k v

section
variable [DecidableEq K]

/-- the one-step law (the contract `CacheImpl.lawful`) -/
theorem insert_law {hashOf : K → Nat} (num den : Nat) {t : Tbl K V} (hi : Inv hashOf t)
    (k k' : K) (v v' : V)
    (hg : get (insert num den t k v (hashOf k)) k' (hashOf k') = some v') :
    (k' = k ∧ v' = v) ∨ get t k' (hashOf k') = some v' := by
  rw [insert_eq] at hg
  rcases insertNoGrow_law _ _ _ _ _ _ _ hg with h | h
  · exact Or.inl h
  · right
    split at h
    · rwa [grow_keeps hi] at h
    · exact h

/-- a fresh insertion is visible until overwritten -/
theorem insert_get_self {hashOf : K → Nat} (num den : Nat) {t : Tbl K V} (hi : Inv hashOf t)
    (k : K) (v : V) : get (insert num den t k v (hashOf k)) k (hashOf k) = some v := by
  rw [insert_eq]
  apply insertNoGrow_get_self
  split
  · exact (inv_grow hi).1
  · exact hi.1

end

end Lru
