/-!
# Model: the `Semiring` trait as a record of operations

`src/util/semirings/semiring_traits.rs`: a weight type provides `zero`, `one`, `+`, `*`.
Executable model code that is generic in the weight type (weighted model counting, semantic
hashing, branch and bound) takes one of these records; the laws are separate theorems (C13).
-/
structure SROps (α : Type) where
  zero : α
  one : α
  add : α → α → α
  mul : α → α → α

/-- the commutative-semiring laws a counting theorem needs, stated on the record -/
structure SROps.Laws {α : Type} (S : SROps α) : Prop where
  add_assoc : ∀ a b c, S.add (S.add a b) c = S.add a (S.add b c)
  add_comm : ∀ a b, S.add a b = S.add b a
  add_zero : ∀ a, S.add a S.zero = a
  mul_assoc : ∀ a b c, S.mul (S.mul a b) c = S.mul a (S.mul b c)
  mul_comm : ∀ a b, S.mul a b = S.mul b a
  mul_one : ∀ a, S.mul a S.one = a
  mul_zero : ∀ a, S.mul a S.zero = S.zero
  left_distrib : ∀ a b c, S.mul a (S.add b c) = S.add (S.mul a b) (S.mul a c)
