import RsddModel.Spec.Basic
/-!
# Model: the SDD builder (`src/repr/sdd.rs`, `src/repr/sdd/{sdd_or,binary_sdd}.rs`,
`src/builder/sdd/{builder,compression}.rs`, the vtree queries of `src/repr/vtree.rs`)

* `Sdd.Ptr` is a *tree*: pointer identity of the Rust (`ptr::eq` on hash-consed nodes) is
  structural equality here, exactly as for BDDs (justified by the unique-table theorems, C02).
  `bdd compl label idx lo hi` is `BDD/ComplBDD(&BinarySDD)`, `dec compl idx elems` is
  `Reg/Compl(&SddOr)`; the elements are `(prime, sub)` pairs in the order of the Rust `Vec`.
* element order: `unique_or` sorts the element vector by prime with the *derived* `Ord` of
  `SddPtr`.  That order is structural (`Ord for &T` compares the pointees, and
  `BinarySDD`/`SddOr` implement `Ord` field by field), so it is reproduced here exactly as
  `Ptr.cmp`; the sort is stable (`sort_by_key`), modelled by a stable insertion sort.
* the vtree is a binary tree with labelled leaves; nodes are addressed by their in-order index
  (`VTreeIndex`); `lca` is defined structurally (descend from the root while both indices are on
  the same side), `isPrimeIndex i j := i < j` as in the Rust.
* `and` takes fuel and returns `Option` (partial correctness); all helpers are parametrised by
  the recursive call `andF`, so there is no mutual recursion: `and (fuel+1) = andBody (and fuel)`.
* the apply cache (`HashMap<SddAnd, SddPtr>`) and the ite cache (`AllIteTable`) are abstract
  lawful caches (`CacheImpl`), with association-list instances for the executable driver.
* `none` = the Rust panics (index out of range, `low()` on a non-BDD, a non-literal prime in a
  right-linear `and_indep`, empty vector in `unique_or`) or the fuel ran out.
-/
namespace Sdd
open Spec

inductive Ptr where
  | tru | fls
  | lit (v : Nat) (pol : Bool)
  | bdd (compl : Bool) (label idx : Nat) (lo hi : Ptr)
  | dec (compl : Bool) (idx : Nat) (elems : List (Ptr × Ptr))
deriving Repr, Inhabited

abbrev Elem := Ptr × Ptr

/-! ## decidable equality (the deriving handler does not cover nested inductives) -/

mutual
def Ptr.beq : Ptr → Ptr → Bool
  | .tru, .tru => true
  | .fls, .fls => true
  | .lit v p, .lit v' p' => v == v' && p == p'
  | .bdd c l i lo hi, .bdd c' l' i' lo' hi' =>
    c == c' && l == l' && i == i' && Ptr.beq lo lo' && Ptr.beq hi hi'
  | .dec c i es, .dec c' i' es' => c == c' && i == i' && beqElems es es'
  | _, _ => false
def beqElems : List (Ptr × Ptr) → List (Ptr × Ptr) → Bool
  | [], [] => true
  | (p, s) :: r, (p', s') :: r' => Ptr.beq p p' && Ptr.beq s s' && beqElems r r'
  | _, _ => false
end

mutual
theorem Ptr.beq_sound : ∀ (a b : Ptr), Ptr.beq a b = true → a = b
  | .tru, b, h => by cases b <;> simp_all [Ptr.beq]
  | .fls, b, h => by cases b <;> simp_all [Ptr.beq]
  | .lit v p, b, h => by cases b <;> simp_all [Ptr.beq]
  | .bdd c l i lo hi, b, h => by
    cases b with
    | bdd c' l' i' lo' hi' =>
      simp only [Ptr.beq, Bool.and_eq_true, beq_iff_eq] at h
      obtain ⟨⟨⟨⟨h1, h2⟩, h3⟩, h4⟩, h5⟩ := h
      rw [h1, h2, h3, Ptr.beq_sound _ _ h4, Ptr.beq_sound _ _ h5]
    | _ => simp [Ptr.beq] at h
  | .dec c i es, b, h => by
    cases b with
    | dec c' i' es' =>
      simp only [Ptr.beq, Bool.and_eq_true, beq_iff_eq] at h
      obtain ⟨⟨h1, h2⟩, h3⟩ := h
      rw [h1, h2, beqElems_sound _ _ h3]
    | _ => simp [Ptr.beq] at h
theorem beqElems_sound : ∀ (a b : List (Ptr × Ptr)), beqElems a b = true → a = b
  | [], b, h => by cases b <;> simp_all [beqElems]
  | (p, s) :: r, b, h => by
    cases b with
    | nil => simp [beqElems] at h
    | cons x r' =>
      obtain ⟨p', s'⟩ := x
      simp only [beqElems, Bool.and_eq_true] at h
      obtain ⟨⟨h1, h2⟩, h3⟩ := h
      rw [Ptr.beq_sound _ _ h1, Ptr.beq_sound _ _ h2, beqElems_sound _ _ h3]
end

mutual
theorem Ptr.beq_refl : ∀ (a : Ptr), Ptr.beq a a = true
  | .tru => rfl
  | .fls => rfl
  | .lit v p => by simp [Ptr.beq]
  | .bdd c l i lo hi => by simp [Ptr.beq, Ptr.beq_refl lo, Ptr.beq_refl hi]
  | .dec c i es => by simp [Ptr.beq, beqElems_refl es]
theorem beqElems_refl : ∀ (a : List (Ptr × Ptr)), beqElems a a = true
  | [] => rfl
  | (p, s) :: r => by simp [beqElems, Ptr.beq_refl p, Ptr.beq_refl s, beqElems_refl r]
end

instance : DecidableEq Ptr := fun a b =>
  if h : Ptr.beq a b = true then isTrue (Ptr.beq_sound a b h)
  else isFalse (fun e => h (e ▸ Ptr.beq_refl a))

/-! ## semantics -/

mutual
/-- the Boolean function a pointer denotes: complement bits, binary nodes as
`if label then hi else lo`, decision nodes as `⋁ prime ∧ sub` -/
def Ptr.eval (a : Assign) : Ptr → Bool
  | .tru => true
  | .fls => false
  | .lit v p => if p then a v else !(a v)
  | .bdd c l _ lo hi => xor c (if a l then hi.eval a else lo.eval a)
  | .dec c _ es => xor c (evalElems a es)
/-- `⋁ prime ∧ sub` over an element list -/
def evalElems (a : Assign) : List (Ptr × Ptr) → Bool
  | [] => false
  | (p, s) :: rest => (p.eval a && s.eval a) || evalElems a rest
end

/-- `SddPtr::neg` -/
def Ptr.neg : Ptr → Ptr
  | .tru => .fls
  | .fls => .tru
  | .lit v p => .lit v (!p)
  | .bdd c l i lo hi => .bdd (!c) l i lo hi
  | .dec c i es => .dec (!c) i es

/-- `is_neg`: only complemented *node* pointers -/
def Ptr.isNeg : Ptr → Bool
  | .bdd true _ _ _ _ => true
  | .dec true _ _ => true
  | _ => false
def Ptr.isTrue : Ptr → Bool | .tru => true | _ => false
def Ptr.isFalse : Ptr → Bool | .fls => true | _ => false
def Ptr.isNegVar : Ptr → Bool | .lit _ false => true | _ => false
def Ptr.isBdd : Ptr → Bool | .bdd .. => true | _ => false

/-- `low()` (complement-adjusted); `none` = panic on a non-BDD -/
def Ptr.low? : Ptr → Option Ptr
  | .bdd c _ _ lo _ => some (if c then lo.neg else lo)
  | _ => none
/-- `high()` (complement-adjusted) -/
def Ptr.high? : Ptr → Option Ptr
  | .bdd c _ _ _ hi => some (if c then hi.neg else hi)
  | _ => none

/-- `node_iter()`: the raw `(prime, sub)` pairs (subs NOT complement-adjusted); a binary node
yields `(label, high)` then `(¬label, low)`.  `none` = panic on a constant / literal. -/
def Ptr.nodeIter? : Ptr → Option (List Elem)
  | .bdd _ l _ lo hi => some [(.lit l true, hi), (.lit l false, lo)]
  | .dec _ _ es => some es
  | _ => none

/-! ## the derived `Ord` of `SddPtr` (variant order `PtrTrue < PtrFalse < BDD < ComplBDD < Var <
Compl < Reg`; `BinarySDD`: label, index, low, high; `SddOr`: index, then the element vector
lexicographically, `SddAnd`: prime, sub) -/

def Ptr.rank : Ptr → Nat
  | .tru => 0 | .fls => 1
  | .bdd false .. => 2 | .bdd true .. => 3
  | .lit .. => 4
  | .dec true .. => 5 | .dec false .. => 6

mutual
def Ptr.cmp : Ptr → Ptr → Ordering
  | .lit v p, .lit v' p' => (compare v v').then (compare p p')
  | .bdd c l i lo hi, .bdd c' l' i' lo' hi' =>
    if c = c' then
      (compare l l').then ((compare i i').then ((Ptr.cmp lo lo').then (Ptr.cmp hi hi')))
    else compare (Ptr.rank (.bdd c l i lo hi)) (Ptr.rank (.bdd c' l' i' lo' hi'))
  | .dec c i es, .dec c' i' es' =>
    if c = c' then (compare i i').then (cmpElems es es')
    else compare (Ptr.rank (.dec c i es)) (Ptr.rank (.dec c' i' es'))
  | a, b => compare a.rank b.rank
def cmpElems : List (Ptr × Ptr) → List (Ptr × Ptr) → Ordering
  | [], [] => .eq
  | [], _ :: _ => .lt
  | _ :: _, [] => .gt
  | (p, s) :: r, (p', s') :: r' => (Ptr.cmp p p').then ((Ptr.cmp s s').then (cmpElems r r'))
end

/-- insertion in front of the first element whose prime is `≥` (so that an element keeps its
place before later elements with an equal key: `sortByPrime` is stable), key = prime -/
def insertByPrime (x : Elem) : List Elem → List Elem
  | [] => [x]
  | y :: ys => if Ptr.cmp x.1 y.1 = .gt then y :: insertByPrime x ys else x :: y :: ys

/-- `node.sort_by_key(|a| a.prime())` (stable) -/
def sortByPrime : List Elem → List Elem
  | [] => []
  | x :: xs => insertByPrime x (sortByPrime xs)

/-! ## vtrees and the `VTreeManager` queries -/

inductive VTree where
  | leaf (v : Nat)
  | node (l r : VTree)
deriving DecidableEq, Repr, Inhabited

/-- number of vtree nodes (= number of in-order indices used) -/
def VTree.size : VTree → Nat
  | .leaf _ => 1
  | .node l r => l.size + 1 + r.size

/-- the sub-vtree whose in-order index is `idx` (`VTreeManager::vtree(idx)`), when the in-order
numbering of `t` starts at `off` -/
def VTree.sub? : VTree → Nat → Nat → Option VTree
  | .leaf v, off, idx => if idx = off then some (.leaf v) else none
  | .node l r, off, idx =>
    let k := off + l.size
    if idx < k then l.sub? off idx
    else if idx = k then some (.node l r)
    else r.sub? (k + 1) idx

/-- in-order index of the leaf labelled `v` (`var_index`) -/
def VTree.varIndex? : VTree → Nat → Nat → Option Nat
  | .leaf w, off, v => if w = v then some off else none
  | .node l r, off, v =>
    match l.varIndex? off v with
    | some i => some i
    | none => r.varIndex? (off + l.size + 1) v

/-- least common ancestor of two in-order indices, as an in-order index: descend while both
indices lie strictly on the same side of the current node -/
def VTree.lca : VTree → Nat → Nat → Nat → Nat
  | .leaf _, off, _, _ => off
  | .node l r, off, i, j =>
    let k := off + l.size
    if i < k ∧ j < k then l.lca off i j
    else if k < i ∧ k < j then r.lca (k + 1) i j
    else k

def VTree.isRightLinear : VTree → Bool
  | .node (.leaf _) _ => true
  | _ => false

/-- `vtree(idx).is_right_linear()`; an index outside the tree is a panic in the Rust, the model
answers `false` (never reached for well formed operands) -/
def VTree.isRLAt (t : VTree) (idx : Nat) : Bool :=
  match t.sub? 0 idx with
  | some s => s.isRightLinear
  | none => false

/-- label of the left child of node `idx` when that child is a leaf -/
def VTree.leftLeaf? (t : VTree) (idx : Nat) : Option Nat :=
  match t.sub? 0 idx with
  | some (.node (.leaf w) _) => some w
  | _ => none

def VTree.hasVar (t : VTree) (v : Nat) : Bool := (t.varIndex? 0 v).isSome

/-- labels left to right -/
def VTree.leaves : VTree → List Nat
  | .leaf v => [v]
  | .node l r => l.leaves ++ r.leaves

/-- `VTree::right_linear` -/
def VTree.rightLinear : List Nat → VTree
  | [] => .leaf 0
  | [x] => .leaf x
  | x :: rest => .node (.leaf x) (VTree.rightLinear rest)

/-- `VTree::even_split` -/
def VTree.evenSplit (order : List Nat) : Nat → VTree
  | 0 => VTree.rightLinear order
  | n + 1 =>
    .node (VTree.evenSplit (order.take (order.length / 2)) n)
          (VTree.evenSplit (order.drop (order.length / 2)) n)

/-- `SddBuilder::vtree_index`; constants are a panic in the Rust (never reached: `and` and
`Ite::new` only ask after the constant cases), the model answers `0`; a label outside the vtree
is rejected earlier by `step` -/
def vtreeIndex (t : VTree) : Ptr → Nat
  | .lit v _ => (t.varIndex? 0 v).getD 0
  | .bdd _ _ i _ _ => i
  | .dec _ i _ => i
  | _ => 0


/-! ## standard triples (`Ite::new`, `src/builder/cache/ite.rs`) over SDD pointers
(same four stages as `Bdd.Ite.new`) -/

inductive Ite where
  | choice (f g h : Ptr)
  | complChoice (f g h : Ptr)
  | const (p : Ptr)
deriving DecidableEq, Repr

def introConst (f g h : Ptr) : Ptr × Ptr × Ptr :=
  if f = h then (f, g, Ptr.fls)
  else if f = h.neg then (f, g, Ptr.tru)
  else if f = g.neg then (f, Ptr.fls, h)
  else (f, g, h)

def terminal? (f g h : Ptr) : Option Ptr :=
  if f.isTrue then some g
  else if f.isFalse then some h
  else if g.isTrue && h.isFalse then some f
  else if g.isFalse && h.isTrue then some f.neg
  else if h = g then some g
  else none

def reorder (ord : Ptr → Ptr → Bool) (f g h : Ptr) : Ptr × Ptr × Ptr :=
  if g.isTrue && ord h f then (h, g, f)
  else if h.isFalse && ord g f then (g, f, h)
  else if h.isTrue && ord g f then (g.neg, f.neg, h)
  else if g.isFalse && ord h f then (h.neg, g, f.neg)
  else if g = h.neg && ord g f then (g, f, f.neg)
  else (f, g, h)

def standardise (f g h : Ptr) : Ite :=
  if f.isNeg && !h.isNeg then .choice f.neg h g
  else if !f.isNeg && g.isNeg then .complChoice f g.neg h.neg
  else if f.isNeg && h.isNeg then .complChoice f.neg h.neg g.neg
  else .choice f g h

def Ite.new (ord : Ptr → Ptr → Bool) (f g h : Ptr) : Ite :=
  let (f, g, h) := introConst f g h
  match terminal? f g h with
  | some r => .const r
  | none =>
    let (f, g, h) := reorder ord f g h
    standardise f g h

/-! ## caches -/

/-- abstract cache with the C16 contract: a `get` returns nothing or the value most recently
inserted under exactly that key -/
structure CacheImpl (κ : Type) where
  σ : Type
  empty : σ
  get : σ → κ → Option Ptr
  insert : σ → κ → Ptr → σ
  lawful : ∀ s k v k' v', get (insert s k v) k' = some v' → (k' = k ∧ v' = v) ∨ get s k' = some v'
  empty_get : ∀ k, get empty k = none

def ListCache.get {κ : Type} [DecidableEq κ] : List (κ × Ptr) → κ → Option Ptr
  | [], _ => none
  | (k', v) :: rest, k => if k = k' then some v else ListCache.get rest k

/-- association-list cache, newest binding first (`HashMap` / `AllIteTable` behaviour) -/
def ListCache (κ : Type) [DecidableEq κ] : CacheImpl κ where
  σ := List (κ × Ptr)
  empty := []
  get := ListCache.get
  insert := fun s k v => (k, v) :: s
  lawful := by
    intro s k v k' v' h
    simp only [ListCache.get] at h
    split at h
    · left; rename_i hk; exact ⟨hk, by simpa using h.symm⟩
    · right; exact h
  empty_get := by intro k; rfl

/-- `IteTable::get` of `AllIteTable` -/
def iteCacheGet (I : CacheImpl (Ptr × Ptr × Ptr)) (s : I.σ) : Ite → Option Ptr
  | .choice f g h => I.get s (f, g, h)
  | .complChoice f g h => (I.get s (f, g, h)).map Ptr.neg
  | .const p => some p

/-- `IteTable::insert` of `AllIteTable` -/
def iteCacheInsert (I : CacheImpl (Ptr × Ptr × Ptr)) (s : I.σ) (i : Ite) (r : Ptr) : I.σ :=
  match i with
  | .choice f g h => I.insert s (f, g, h) r
  | .complChoice f g h => I.insert s (f, g, h) r.neg
  | .const _ => s

/-! ## unique_bdd / unique_or / canonicalize_base_case (no recursion into `and`) -/

/-- `unique_bdd` -/
def uniqueBdd (l : Nat) (lo hi : Ptr) (idx : Nat) : Ptr :=
  if hi = lo then hi
  else if hi.isFalse && lo.isTrue then .lit l false
  else if hi.isTrue && lo.isFalse then .lit l true
  else if hi.isNeg || hi.isFalse || hi.isNegVar then .bdd true l idx lo.neg hi.neg
  else .bdd false l idx lo hi

/-- the "is this a BDD" test of `unique_or`: two elements, both primes literals; yields
`(label, low, high)` with the label taken from the SECOND prime -/
def asBdd? : List Elem → Option (Nat × Ptr × Ptr)
  | [(.lit _ pol, s0), (.lit label _, s1)] =>
    some (label, if !pol then s0 else s1, if pol then s0 else s1)
  | _ => none

def negSubs (es : List Elem) : List Elem := es.map fun e => (e.1, e.2.neg)

/-- `unique_or` (`none` = index panic on the empty vector) -/
def uniqueOr (node : List Elem) (table : Nat) : Option Ptr :=
  match asBdd? node with
  | some (l, lo, hi) => some (uniqueBdd l lo hi table)
  | none =>
    match sortByPrime node with
    | [] => none
    | (p0, s0) :: rest =>
      if s0.isNeg || s0.isFalse || s0.isNegVar then
        some (.dec true table (negSubs ((p0, s0) :: rest)))
      else some (.dec false table ((p0, s0) :: rest))

/-- `canonicalize_base_case` -/
def canonBase? : List Elem → Option Ptr
  | [] => some .tru
  | [(p, s)] => if p.isTrue then some s else if s.isFalse then some .fls else none
  | [(p0, s0), (p1, s1)] =>
    if s0.isTrue && s1.isFalse then some p0
    else if s0.isFalse && s1.isTrue then some p1
    else none
  | _ => none

/-- the elements of a node with the root complement pushed into the subs (what every loop of
the builder iterates over: `node_iter()` followed by `if r.is_neg() { s.neg() }`) -/
def Ptr.elems? : Ptr → Option (List Elem)
  | .bdd c l _ lo hi =>
    some [(.lit l true, if c then hi.neg else hi), (.lit l false, if c then lo.neg else lo)]
  | .dec c _ es => some (if c then negSubs es else es)
  | _ => none

/-- result of a loop with an early `return` -/
inductive LoopRes where
  | early (r : Ptr)
  | elems (l : List Elem)

section builder
variable {σ : Type}

/-- the type of the recursive `and` call (state = apply cache) -/
abbrev AndF (σ : Type) := σ → Ptr → Ptr → Option (σ × Ptr)

/-- default `or` of `BottomUpBuilder`: De Morgan through `and` -/
def orF (andF : AndF σ) (st : σ) (a b : Ptr) : Option (σ × Ptr) :=
  match andF st a.neg b.neg with
  | some (st', r) => some (st', r.neg)
  | none => none

/-! ### compress -/

/-- `Vec::swap_remove(j)` seen from position `j` on: drop the head, move the last element
into its place -/
def swapRemoveHead : List Elem → List Elem
  | [] => []
  | [_] => []
  | _ :: y :: ys => (y :: ys).getLast (by simp) :: (y :: ys).dropLast

/-- the `while j < node.len()` loop of `compress` for a fixed `i`: `p` is the current prime of
element `i`, `s` its sub, `done` the already scanned elements `i+1..j-1`, the list argument the
elements `j..`; `n` bounds the number of iterations (initially the length of the list, so the
`0` case is only reached with an empty list) -/
def compressInner (andF : AndF σ) (s : Ptr) :
    Nat → σ → Ptr → List Elem → List Elem → Option (σ × Ptr × List Elem)
  | 0, st, p, done, rem => some (st, p, done ++ rem)
  | _ + 1, st, p, done, [] => some (st, p, done)
  | n + 1, st, p, done, (q, t) :: rest =>
    if s = t then
      match orF andF st p q with
      | none => none
      | some (st', p') => compressInner andF s n st' p' done (swapRemoveHead ((q, t) :: rest))
    else compressInner andF s n st p (done ++ [(q, t)]) rest

/-- the `for i in 0..node.len()` loop of `compress` -/
def compressOuter (andF : AndF σ) : Nat → σ → List Elem → Option (σ × List Elem)
  | 0, st, l => some (st, l)
  | _ + 1, st, [] => some (st, [])
  | n + 1, st, (p, s) :: rest =>
    match compressInner andF s rest.length st p [] rest with
    | none => none
    | some (st1, p', rest') =>
      match compressOuter andF n st1 rest' with
      | none => none
      | some (st2, out) => some (st2, (p', s) :: out)

/-- `compress` -/
def compress (andF : AndF σ) (st : σ) (node : List Elem) : Option (σ × List Elem) :=
  compressOuter andF node.length st node

/-- `canonicalize` (`cmpr` = `should_compress`) -/
def canonicalize (cmpr : Bool) (andF : AndF σ) (st : σ) (node : List Elem) (table : Nat) :
    Option (σ × Ptr) :=
  match canonBase? node with
  | some r => some (st, r)
  | none =>
    if cmpr then
      match compress andF st node with
      | none => none
      | some (st', node') =>
        match canonBase? node' with
        | some r => some (st', r)
        | none => (uniqueOr node' table).map fun r => (st', r)
    else (uniqueOr node table).map fun r => (st, r)

/-! ### the four vtree cases of `and` -/

/-- `and_indep` -/
def andIndep (vt : VTree) (a b : Ptr) (lca : Nat) : Option Ptr :=
  if vt.isRLAt lca then
    match a with
    | .lit l true => some (uniqueBdd l .fls b lca)
    | .lit l false => some (uniqueBdd l b .fls lca)
    | _ => none
  else uniqueOr [(a, b), (a.neg, .fls)] lca

/-- the loop of `and_sub_desc` over the (complement-adjusted) elements of `r` -/
def subDescLoop (andF : AndF σ) (d : Ptr) : σ → List Elem → Option (σ × List Elem)
  | st, [] => some (st, [])
  | st, (p, s) :: rest =>
    match andF st s d with
    | none => none
    | some (st1, ns) =>
      match subDescLoop andF d st1 rest with
      | none => none
      | some (st2, v) => some (st2, (p, ns) :: v)

/-- `and_sub_desc` -/
def andSubDesc (cmpr : Bool) (andF : AndF σ) (st : σ) (r d : Ptr) : Option (σ × Ptr) :=
  match r with
  | .bdd c l i lo hi =>
    match andF st (if c then lo.neg else lo) d with
    | none => none
    | some (st1, lr) =>
      match andF st1 (if c then hi.neg else hi) d with
      | none => none
      | some (st2, hr) => some (st2, uniqueBdd l lr hr i)
  | .dec c i es =>
    match subDescLoop andF d st (if c then negSubs es else es) with
    | none => none
    | some (st', v) => canonicalize cmpr andF st' v i
  | _ => none

/-- the inner `for a2 in b` loop shared by `and_cartesian` (`brk = true`: stop when
`p1 ∧ p2 == p1`) and `and_prime_desc` (`brk = false`) -/
def innerLoop (andF : AndF σ) (brk : Bool) (p1 s1 : Ptr) : σ → List Elem → Option (σ × LoopRes)
  | st, [] => some (st, .elems [])
  | st, (p2, s2) :: rest =>
    match andF st p1 p2 with
    | none => none
    | some (st1, p) =>
      if p.isFalse then innerLoop andF brk p1 s1 st1 rest
      else
        match andF st1 s1 s2 with
        | none => none
        | some (st2, s) =>
          if p.isTrue && s.isTrue then some (st2, .early .tru)
          else if brk && p1 = p then some (st2, .elems [(p, s)])
          else
            match innerLoop andF brk p1 s1 st2 rest with
            | none => none
            | some (st3, .early r) => some (st3, .early r)
            | some (st3, .elems l) => some (st3, .elems ((p, s) :: l))

/-- the outer `for a1 in a` loop; `cart = true` is `and_cartesian` (equal-prime shortcut and
the implied-prime `break`), `cart = false` is `and_prime_desc` -/
def prodLoop (andF : AndF σ) (cart : Bool) (eb : List Elem) : σ → List Elem → Option (σ × LoopRes)
  | st, [] => some (st, .elems [])
  | st, (p1, s1) :: rest =>
    match (if cart then eb.find? (fun e => e.1 = p1) else none) with
    | some (_, s2) =>
      match andF st s1 s2 with
      | none => none
      | some (st1, s) =>
        match prodLoop andF cart eb st1 rest with
        | none => none
        | some (st2, .early r) => some (st2, .early r)
        | some (st2, .elems l) => some (st2, .elems ((p1, s) :: l))
    | none =>
      match innerLoop andF cart p1 s1 st eb with
      | none => none
      | some (st1, .early r) => some (st1, .early r)
      | some (st1, .elems l1) =>
        match prodLoop andF cart eb st1 rest with
        | none => none
        | some (st2, .early r) => some (st2, .early r)
        | some (st2, .elems l) => some (st2, .elems (l1 ++ l))

/-- `and_prime_desc` -/
def andPrimeDesc (cmpr : Bool) (andF : AndF σ) (st : σ) (r d : Ptr) : Option (σ × Ptr) :=
  match r.elems? with
  | none => none
  | some er =>
    match prodLoop andF false [(d, .tru), (d.neg, .fls)] st er with
    | none => none
    | some (st', .early x) => some (st', x)
    | some (st', .elems l) =>
      match r with
      | .bdd _ _ i _ _ => canonicalize cmpr andF st' l i
      | .dec _ i _ => canonicalize cmpr andF st' l i
      | _ => none

/-- `and_cartesian` -/
def andCartesian (vt : VTree) (cmpr : Bool) (andF : AndF σ) (st : σ) (a b : Ptr) (lca : Nat) :
    Option (σ × Ptr) :=
  match (if vt.isRLAt lca then a else .tru) with
  | .bdd c l _ lo hi =>
    match b.low?, b.high? with
    | some bl, some bh =>
      match andF st (if c then lo.neg else lo) bl with
      | none => none
      | some (st1, lr) =>
        match andF st1 (if c then hi.neg else hi) bh with
        | none => none
        | some (st2, hr) => some (st2, uniqueBdd l lr hr lca)
    | _, _ => none
  | _ =>
    match a.elems?, b.elems? with
    | some ea, some eb =>
      match prodLoop andF true eb st ea with
      | none => none
      | some (st', .early x) => some (st', x)
      | some (st', .elems l) => canonicalize cmpr andF st' l lca
    | _, _ => none

end builder

/-- the part of `and` after the base cases and the operand normalisation: apply-cache lookup
(key = the normalised pair, as the Rust `SddAnd::new(a, b)`), the four vtree cases, cache insert -/
def andCore (A : CacheImpl (Ptr × Ptr)) (vt : VTree) (cmpr : Bool) (andF : AndF A.σ)
    (st : A.σ) (a b : Ptr) : Option (A.σ × Ptr) :=
  match A.get st (a, b) with
  | some x => some (st, x)
  | none =>
    let av := vtreeIndex vt a
    let bv := vtreeIndex vt b
    let lca := vt.lca 0 av bv
    let r :=
      if av = bv then andCartesian vt cmpr andF st a b lca
      else if lca = av then andSubDesc cmpr andF st a b
      else if lca = bv then andPrimeDesc cmpr andF st b a
      else (andIndep vt a b lca).map fun r => (st, r)
    match r with
    | none => none
    | some (st', r) => some (A.insert st' (a, b) r, r)

/-- the body of `and`, with the recursive call abstracted -/
def andBody (A : CacheImpl (Ptr × Ptr)) (vt : VTree) (cmpr : Bool) (andF : AndF A.σ)
    (st : A.σ) (a b : Ptr) : Option (A.σ × Ptr) :=
  if a.isTrue then some (st, b)
  else if b.isTrue then some (st, a)
  else if a.isFalse then some (st, .fls)
  else if b.isFalse then some (st, .fls)
  else if a = b then some (st, a)
  else if a = b.neg then some (st, .fls)
  else if vtreeIndex vt a = vtreeIndex vt b ∨ vtreeIndex vt a < vtreeIndex vt b then
    andCore A vt cmpr andF st a b
  else andCore A vt cmpr andF st b a

/-- `BottomUpBuilder::and` for SDDs -/
def and (A : CacheImpl (Ptr × Ptr)) (vt : VTree) (cmpr : Bool) : Nat → AndF A.σ
  | 0 => fun _ _ _ => none
  | fuel + 1 => andBody A vt cmpr (and A vt cmpr fuel)

/-! ### condition -/

/-- the element loop of `condition`, with the recursive call abstracted -/
def condLoop {σ : Type} (condF : σ → Ptr → Option (σ × Ptr)) : σ → List Elem → Option (σ × LoopRes)
  | st, [] => some (st, .elems [])
  | st, (p, s) :: rest =>
    match condF st p with
    | none => none
    | some (st1, newp) =>
      if newp.isFalse then condLoop condF st1 rest
      else
        match condF st1 s with
        | none => none
        | some (st2, news) =>
          if newp.isTrue then some (st2, .early news)
          else
            match condLoop condF st2 rest with
            | none => none
            | some (st3, .early r) => some (st3, .early r)
            | some (st3, .elems l) => some (st3, .elems ((newp, news) :: l))

/-- `condition` (`f | x = v`); fuel bounds the recursion depth -/
def condition {σ : Type} (cmpr : Bool) (andF : AndF σ) (x : Nat) (v : Bool) :
    Nat → σ → Ptr → Option (σ × Ptr)
  | 0, _, _ => none
  | n + 1, st, f =>
    match f with
    | .tru => some (st, .tru)
    | .fls => some (st, .fls)
    | .lit l p => some (st, if l = x then (if p = v then .tru else .fls) else .lit l p)
    | .bdd c l i lo hi =>
      match condLoop (condition cmpr andF x v n) st
          [(.lit l true, if c then hi.neg else hi), (.lit l false, if c then lo.neg else lo)] with
      | none => none
      | some (st', .early r) => some (st', r)
      | some (st', .elems es) => canonicalize cmpr andF st' es i
    | .dec c i es =>
      match condLoop (condition cmpr andF x v n) st (if c then negSubs es else es) with
      | none => none
      | some (st', .early r) => some (st', r)
      | some (st', .elems es') => canonicalize cmpr andF st' es' i

/-! ## the builder state, derived operations, the operation language -/

structure Config where
  vt : VTree
  compress : Bool

structure St (A : CacheImpl (Ptr × Ptr)) (I : CacheImpl (Ptr × Ptr × Ptr)) where
  app : A.σ
  ite : I.σ
  pool : List Ptr

def St.init (A : CacheImpl (Ptr × Ptr)) (I : CacheImpl (Ptr × Ptr × Ptr)) : St A I :=
  ⟨A.empty, I.empty, []⟩

section ops
variable (A : CacheImpl (Ptr × Ptr)) (I : CacheImpl (Ptr × Ptr × Ptr)) (cfg : Config) (fuel : Nat)

def bAnd : AndF A.σ := and A cfg.vt cfg.compress fuel
def bOr : AndF A.σ := orF (bAnd A cfg fuel)
def bCond (s : A.σ) (f : Ptr) (x : Nat) (v : Bool) : Option (A.σ × Ptr) :=
  condition cfg.compress (bAnd A cfg fuel) x v fuel s f

/-- `VTreeManager::is_prime` as the order of `Ite::new` -/
def primeOrd (vt : VTree) (a b : Ptr) : Bool := vtreeIndex vt a < vtreeIndex vt b

/-- `ite` -/
def bIte (s : A.σ × I.σ) (f g h : Ptr) : Option ((A.σ × I.σ) × Ptr) :=
  match Ite.new (primeOrd cfg.vt) f g h with
  | .const r => some (s, r)
  | key =>
    match iteCacheGet I s.2 key with
    | some v => some (s, v)
    | none =>
      match bAnd A cfg fuel s.1 f g with
      | none => none
      | some (a1, fg) =>
        match bAnd A cfg fuel a1 f.neg h with
        | none => none
        | some (a2, nfh) =>
          match bOr A cfg fuel a2 fg nfh with
          | none => none
          | some (a3, r) => some ((a3, iteCacheInsert I s.2 key r), r)

def bIff (s : A.σ × I.σ) (f g : Ptr) := bIte A I cfg fuel s f g g.neg
def bXor (s : A.σ × I.σ) (f g : Ptr) := bIte A I cfg fuel s f g.neg g

/-- `exists` -/
def bExists (s : A.σ) (f : Ptr) (x : Nat) : Option (A.σ × Ptr) :=
  match bCond A cfg fuel s f x true with
  | none => none
  | some (s1, v1) =>
    match bCond A cfg fuel s1 f x false with
    | none => none
    | some (s2, v2) => bOr A cfg fuel s2 v1 v2

/-- default `compose`: `exists x. (x ⇔ g) ∧ f` -/
def bCompose (s : A.σ × I.σ) (f : Ptr) (x : Nat) (g : Ptr) : Option ((A.σ × I.σ) × Ptr) :=
  match bIff A I cfg fuel s (.lit x true) g with
  | none => none
  | some (s1, i) =>
    match bAnd A cfg fuel s1.1 i f with
    | none => none
    | some (a2, c) =>
      match bExists A cfg fuel a2 c x with
      | none => none
      | some (a3, r) => some ((a3, s1.2), r)
end ops

/-- the operation language of C03; arguments are pool indices -/
inductive Op where
  | const (b : Bool)
  | var (x : Nat) (pol : Bool)
  | neg (i : Nat)
  | and (i j : Nat) | or (i j : Nat) | xor (i j : Nat) | iff (i j : Nat)
  | ite (i j k : Nat)
  | cond (i x : Nat) (b : Bool)
  | exist (i x : Nat)
  | compose (i x j : Nat)
deriving Repr, DecidableEq

section step
variable (A : CacheImpl (Ptr × Ptr)) (I : CacheImpl (Ptr × Ptr × Ptr)) (cfg : Config) (fuel : Nat)

def St.push {A I} (st : St A I) (a : A.σ) (i : I.σ) (r : Ptr) : St A I :=
  ⟨a, i, st.pool ++ [r]⟩

/-- one builder call; `none` = rejected (pool index out of range, label outside the vtree:
`var_index` panics or reads a foreign slot) or a panic of the Rust or fuel ran out -/
def step (st : St A I) : Op → Option (St A I)
  | .const b => some (st.push st.app st.ite (if b then .tru else .fls))
  | .var x pol => if cfg.vt.hasVar x then some (st.push st.app st.ite (.lit x pol)) else none
  | .neg i => (st.pool[i]?).map fun p => st.push st.app st.ite p.neg
  | .and i j =>
    match st.pool[i]?, st.pool[j]? with
    | some p, some q => (bAnd A cfg fuel st.app p q).map fun (s, r) => st.push s st.ite r
    | _, _ => none
  | .or i j =>
    match st.pool[i]?, st.pool[j]? with
    | some p, some q => (bOr A cfg fuel st.app p q).map fun (s, r) => st.push s st.ite r
    | _, _ => none
  | .xor i j =>
    match st.pool[i]?, st.pool[j]? with
    | some p, some q => (bXor A I cfg fuel (st.app, st.ite) p q).map fun (s, r) => st.push s.1 s.2 r
    | _, _ => none
  | .iff i j =>
    match st.pool[i]?, st.pool[j]? with
    | some p, some q => (bIff A I cfg fuel (st.app, st.ite) p q).map fun (s, r) => st.push s.1 s.2 r
    | _, _ => none
  | .ite i j k =>
    match st.pool[i]?, st.pool[j]?, st.pool[k]? with
    | some p, some q, some r0 =>
      (bIte A I cfg fuel (st.app, st.ite) p q r0).map fun (s, r) => st.push s.1 s.2 r
    | _, _, _ => none
  | .cond i x b =>
    match st.pool[i]? with
    | some p => (bCond A cfg fuel st.app p x b).map fun (s, r) => st.push s st.ite r
    | none => none
  | .exist i x =>
    match st.pool[i]? with
    | some p => (bExists A cfg fuel st.app p x).map fun (s, r) => st.push s st.ite r
    | none => none
  | .compose i x j =>
    if cfg.vt.hasVar x then
      match st.pool[i]?, st.pool[j]? with
      | some p, some q =>
        (bCompose A I cfg fuel (st.app, st.ite) p x q).map fun (s, r) => st.push s.1 s.2 r
      | _, _ => none
    else none

def runFrom (st : St A I) : List Op → Option (St A I)
  | [] => some st
  | op :: ops =>
    match step A I cfg fuel st op with
    | none => none
    | some st' => runFrom st' ops
end step

/-- top level for the driver: run a program from the empty builder with the list-backed caches
and return the pool (`none` = some call was rejected / panicked / ran out of fuel) -/
def run (cfg : Config) (fuel : Nat) (ops : List Op) : Option (List Ptr) :=
  (runFrom (ListCache (Ptr × Ptr)) (ListCache (Ptr × Ptr × Ptr)) cfg fuel
    (St.init _ _) ops).map (·.pool)

/-! ## specification of the operation language (pool of Boolean functions) -/

def specStep (vt : VTree) (st : List BoolFn) : Op → Option (List BoolFn)
  | .const b => some (st ++ [if b then fTrue else fFalse])
  | .var x pol => if vt.hasVar x then some (st ++ [fVar x pol]) else none
  | .neg i => (st[i]?).map fun f => st ++ [fNot f]
  | .and i j => match st[i]?, st[j]? with
    | some f, some g => some (st ++ [fAnd f g]) | _, _ => none
  | .or i j => match st[i]?, st[j]? with
    | some f, some g => some (st ++ [fOr f g]) | _, _ => none
  | .xor i j => match st[i]?, st[j]? with
    | some f, some g => some (st ++ [fXor f g]) | _, _ => none
  | .iff i j => match st[i]?, st[j]? with
    | some f, some g => some (st ++ [fIff f g]) | _, _ => none
  | .ite i j k => match st[i]?, st[j]?, st[k]? with
    | some f, some g, some h => some (st ++ [fIte f g h]) | _, _, _ => none
  | .cond i x b => (st[i]?).map fun f => st ++ [fCond f x b]
  | .exist i x => (st[i]?).map fun f => st ++ [fExists f x]
  | .compose i x j => if vt.hasVar x then
      match st[i]?, st[j]? with
      | some f, some g => some (st ++ [fCompose f x g]) | _, _ => none
    else none

def specRun (vt : VTree) (st : List BoolFn) : List Op → Option (List BoolFn)
  | [] => some st
  | op :: ops =>
    match specStep vt st op with
    | none => none
    | some st' => specRun vt st' ops

/-! ## canonical printing (for the differential test) -/

def joinSp : List String → String
  | [] => ""
  | [x] => x
  | x :: xs => x ++ " " ++ joinSp xs

mutual
/-- print `p` (or its negation when `n`) with every complement bit pushed down into the subs -/
def printC (n : Bool) : Ptr → String
  | .tru => if n then "F" else "T"
  | .fls => if n then "T" else "F"
  | .lit v p => if p != n then toString v else "-" ++ toString v
  | .bdd c l i lo hi =>
    let m := c != n
    let es := [(toString l, printC m hi), ("-" ++ toString l, printC m lo)]
    "[" ++ toString i ++ " " ++
      joinSp ((es.mergeSort fun a b => !(b.1 < a.1)).map fun e => "(" ++ e.1 ++ " " ++ e.2 ++ ")") ++ "]"
  | .dec c i es =>
    let m := c != n
    "[" ++ toString i ++ " " ++
      joinSp (((printElems m es).mergeSort fun a b => !(b.1 < a.1)).map
        fun e => "(" ++ e.1 ++ " " ++ e.2 ++ ")") ++ "]"
def printElems (m : Bool) : List (Ptr × Ptr) → List (String × String)
  | [] => []
  | (p, s) :: rest => (printC false p, printC m s) :: printElems m rest
end

/-- canonical printed form: `T`, `F`, `v` / `-v`, `[idx (prime sub) …]` with complements pushed
into the subs and the elements sorted by printed prime; binary nodes print as the two-element
decision `(-label lo) (label hi)` -/
def printCanon (p : Ptr) : String := printC false p

/-- truth table over variables `0..n-1` as a `0/1` string, entry `i` = value on `assignOfNat i` -/
def ttString (n : Nat) (p : Ptr) : String :=
  String.ofList ((List.range (2 ^ n)).map fun i => if p.eval (assignOfNat i) then '1' else '0')

end Sdd
