import RsddModel.Model.Orders
/-!
# Model: the remaining accessors of `VarOrder` (`above`, `below`, `last_var`) and the loop
combinator the translator route uses for `for i in a..b { … }`

`forRange a b f s` folds `f` over `a, a+1, …, b-1` (nothing when `b ≤ a`), the mutable locals of
the loop body being the state `s`.
-/
namespace Orders

def forRange {σ : Type} (lo hi : Nat) (f : Nat → σ → σ) (s : σ) : σ :=
  (List.range' lo (hi - lo)).foldl (fun s i => f i s) s

/-- `above(a)`: the variable one level closer to the root -/
def VarOrder.above (o : VarOrder) (a : Nat) : Option Nat :=
  if o.get a = 0 then none else some (o.varAtLevel (o.get a - 1))

/-- `below(a)`: the variable one level further from the root -/
def VarOrder.below (o : VarOrder) (a : Nat) : Option Nat :=
  if o.get a + 1 ≥ o.posToVar.length then none else some (o.varAtLevel (o.get a + 1))

/-- `last_var()` -/
def VarOrder.lastVar (o : VarOrder) : Nat := o.varAtLevel (o.posToVar.length - 1)

end Orders
