import RsddModel.Spec.Basic
/-!
# Model: BDD pointers with complement edges, standard triples (`Ite::new`)

Mirrors `src/repr/bdd.rs` (pointer shape, `neg`, `is_neg`, `is_true`, `is_false`) and
`src/builder/cache/ite.rs` (`Ite::new`, all four stages).  Pointer identity of the Rust is
structural equality here; that reading is justified by the unique-table theorems (C02).
-/
namespace Bdd
open Spec

inductive Ptr where
  | tru | fls
  | node (compl : Bool) (var : Nat) (lo hi : Ptr)
deriving DecidableEq, Repr, Inhabited


def Ptr.eval (a : Assign) : Ptr → Bool
  | .tru => true
  | .fls => false
  | .node c v lo hi => xor c (if a v then hi.eval a else lo.eval a)

def Ptr.neg : Ptr → Ptr
  | .tru => .fls
  | .fls => .tru
  | .node c v lo hi => .node (!c) v lo hi

def Ptr.isNeg : Ptr → Bool
  | .node true _ _ _ => true
  | _ => false
def Ptr.isTrue : Ptr → Bool | .tru => true | _ => false
def Ptr.isFalse : Ptr → Bool | .fls => true | _ => false

@[simp] theorem eval_neg (a : Assign) (p : Ptr) : p.neg.eval a = !(p.eval a) := by
  cases p <;> simp [Ptr.neg, Ptr.eval]

@[simp] theorem neg_neg (p : Ptr) : p.neg.neg = p := by
  cases p <;> simp [Ptr.neg]

inductive Ite where
  | choice (f g h : Ptr)
  | complChoice (f g h : Ptr)
  | const (p : Ptr)
deriving DecidableEq, Repr

/-- stage 1 of `Ite::new`: introduce constants -/
def introConst (f g h : Ptr) : Ptr × Ptr × Ptr :=
  if f = h then (f, g, Ptr.fls)
  else if f = h.neg then (f, g, Ptr.tru)
  else if f = g.neg then (f, Ptr.fls, h)
  else (f, g, h)

/-- stage 2: terminal cases -/
def terminal? (f g h : Ptr) : Option Ptr :=
  if f.isTrue then some g
  else if f.isFalse then some h
  else if g.isTrue && h.isFalse then some f
  else if g.isFalse && h.isTrue then some f.neg
  else if h = g then some g
  else none

/-- stage 3: put the top-most node first -/
def reorder (ord : Ptr → Ptr → Bool) (f g h : Ptr) : Ptr × Ptr × Ptr :=
  if g.isTrue && ord h f then (h, g, f)
  else if h.isFalse && ord g f then (g, f, h)
  else if h.isTrue && ord g f then (g.neg, f.neg, h)
  else if g.isFalse && ord h f then (h.neg, g, f.neg)
  else if g = h.neg && ord g f then (g, f, f.neg)
  else (f, g, h)

/-- stage 4: standardise negation -/
def standardise (f g h : Ptr) : Ite :=
  if f.isNeg && !h.isNeg then .choice f.neg h g
  else if !f.isNeg && g.isNeg then .complChoice f g.neg h.neg
  else if f.isNeg && h.isNeg then .complChoice f.neg h.neg g.neg
  else .choice f g h

/-- mirrors `Ite::new` of src/builder/cache/ite.rs -/
def Ite.new (ord : Ptr → Ptr → Bool) (f g h : Ptr) : Ite :=
  let (f, g, h) := introConst f g h
  match terminal? f g h with
  | some r => .const r
  | none =>
    let (f, g, h) := reorder ord f g h
    standardise f g h


/-- the function a standard triple denotes, with its complement flag applied -/
def Ite.eval (a : Assign) : Ite → Bool
  | .choice f g h => iteB (f.eval a) (g.eval a) (h.eval a)
  | .complChoice f g h => !(iteB (f.eval a) (g.eval a) (h.eval a))
  | .const p => p.eval a

theorem isTrue_eval {p : Ptr} (h : p.isTrue = true) (a) : p.eval a = true := by
  cases p <;> simp_all [Ptr.isTrue, Ptr.eval]
theorem isFalse_eval {p : Ptr} (h : p.isFalse = true) (a) : p.eval a = false := by
  cases p <;> simp_all [Ptr.isFalse, Ptr.eval]


theorem introConst_sound (f g h : Ptr) (a : Assign) :
    let r := introConst f g h
    iteB (r.1.eval a) (r.2.1.eval a) (r.2.2.eval a) = iteB (f.eval a) (g.eval a) (h.eval a) := by
  simp only [introConst]
  split
  · subst_vars; simp [iteB, Ptr.eval]; cases h.eval a <;> simp
  · split
    · subst_vars; simp [iteB, Ptr.eval]; cases h.eval a <;> simp
    · split
      · subst_vars; simp [iteB, Ptr.eval]; cases g.eval a <;> simp
      · rfl

theorem terminal_sound (f g h r : Ptr) (a : Assign) (hr : terminal? f g h = some r) :
    r.eval a = iteB (f.eval a) (g.eval a) (h.eval a) := by
  simp only [terminal?] at hr
  split at hr
  · cases hr; rename_i h1; simp [iteB, isTrue_eval h1]
  · split at hr
    · cases hr; rename_i h1; simp [iteB, isFalse_eval h1]
    · split at hr
      · cases hr; rename_i h1; simp at h1; simp [iteB, isTrue_eval h1.1, isFalse_eval h1.2]
      · split at hr
        · cases hr; rename_i h1; simp at h1; simp [iteB, isFalse_eval h1.1, isTrue_eval h1.2]
        · split at hr
          · cases hr; subst_vars; simp [iteB]
          · cases hr

theorem reorder_sound (ord) (f g h : Ptr) (a : Assign) :
    let r := reorder ord f g h
    iteB (r.1.eval a) (r.2.1.eval a) (r.2.2.eval a) = iteB (f.eval a) (g.eval a) (h.eval a) := by
  simp only [reorder]
  split
  · rename_i h1; simp at h1; simp [iteB, isTrue_eval h1.1]; cases f.eval a <;> cases h.eval a <;> simp
  · split
    · rename_i h1; simp at h1; simp [iteB, isFalse_eval h1.1]; cases f.eval a <;> cases g.eval a <;> simp
    · split
      · rename_i h1; simp at h1; simp [iteB, isTrue_eval h1.1]; cases f.eval a <;> cases g.eval a <;> simp
      · split
        · rename_i h1; simp at h1; simp [iteB, isFalse_eval h1.1]; cases f.eval a <;> cases h.eval a <;> simp
        · split
          · rename_i h1; simp at h1; obtain ⟨h2, _⟩ := h1; subst h2
            simp [iteB]; cases f.eval a <;> cases h.eval a <;> simp
          · rfl

theorem standardise_sound (f g h : Ptr) (a : Assign) :
    (standardise f g h).eval a = iteB (f.eval a) (g.eval a) (h.eval a) := by
  simp only [standardise]
  split
  · simp [Ite.eval, iteB]; cases f.eval a <;> simp
  · split
    · simp [Ite.eval, iteB]; cases f.eval a <;> simp
    · split
      · simp [Ite.eval, iteB]; cases f.eval a <;> simp
      · simp [Ite.eval]

/-- `Ite::new` is sound for EVERY order predicate -/
theorem iteNew_sound (ord) (f g h : Ptr) (a : Assign) :
    (Ite.new ord f g h).eval a = iteB (f.eval a) (g.eval a) (h.eval a) := by
  have h1 := introConst_sound f g h a
  simp only [Ite.new]
  generalize introConst f g h = t at h1 ⊢
  obtain ⟨f1, g1, h1'⟩ := t
  simp only at h1 ⊢
  split
  · rename_i r hr; simp [Ite.eval, terminal_sound _ _ _ _ a hr, h1]
  · have h2 := reorder_sound ord f1 g1 h1' a
    generalize reorder ord f1 g1 h1' = t2 at h2 ⊢
    obtain ⟨f2, g2, h2'⟩ := t2
    simp only at h2 ⊢
    rw [standardise_sound, h2, h1]

#print axioms iteNew_sound
end Bdd
