import RsddModel.Model.UnitProp
import RsddModel.Model.TopDown
/-!
# Model: the mirrored `SATSolver` behind the solver interface of the top-down compiler

`TopDown.UpSolver` plugs the executable model of `SATSolver` / `UnitPropagate`
(`RsddModel/Model/UnitProp.lean`, differentially tested against `src/repr/unit_prop.rs`) into the
abstract `TopDown.Solver` interface of the compiler model (`RsddModel/Model/TopDown.lean`).  The
definitions are those of `Driver.UpSolver` (`RsddModel/Driver/TdStream.lean`), which the
differential `td` stream runs against the real compiler.

Core Lean only; executable.
-/
namespace TopDown
open Spec

/-- the mirrored `SATSolver` behind the abstract solver interface of the compiler model.
`error` outcomes of the model (fuel exhausted, empty stack: never happen on reachable states,
`UnitProp.history_decide_total`) are mapped to UNSAT / default values. -/
def UpSolver : Solver where
  σ := UnitProp.Solver
  κ := Nat
  keyEq := inferInstance
  new := fun cnf _ => match UnitProp.Solver.new cnf with
    | some (some s) => some s
    | _ => none
  decide := fun s l => match s.decide l with
    | .ok s' .sat => (.sat, s')
    | .ok s' .unsat => (.unsat, s')
    | .ok s' .unknown => (.unknown, s')
    | .error => (.unsat, s)
  pop := fun s => s.pop
  isSat := fun s => s.isSat.getD false
  isSet := fun s v => (s.isSet v).getD false
  curHash := fun s => s.curHash.getD 0
  difference := fun s => (s.differenceIter).getD []

end TopDown
