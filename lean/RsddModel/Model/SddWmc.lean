import RsddModel.Model.Sdd
import RsddModel.Spec.Wmc
import RsddModel.Model.Semirings
/-!
# Model: weighted model counting, evaluation and semantic hashing of SDDs

* `Sdd.wmc` mirrors `DDNNFPtr::unsmoothed_wmc` (`src/repr/ddnnf.rs`) through the SDD `fold`
  (`impl DDNNFPtr for SddPtr`, `src/repr/sdd.rs`), on the tree (the memo in the scratch cells is
  the subject of C10):
  `True ↦ one`, `False ↦ zero`, `Var(v, pol) ↦` the high / low weight of `v`; a node (binary or
  decision, complemented or not) is folded as
  `or_v = False; for and in node_iter() { s = if ptr.is_neg() { and.sub().neg() } else { and.sub() };
  or_v = Or(or_v, And(prime_v, s_v)) }`, i.e. a *left* fold of `+` starting from `zero`, the
  complement bit of the pointer pushed into the subs (the primes are never negated).  A binary
  node iterates `(label, high)` then `(¬label, low)` (`SddNodeIter`).
  The recursion on `sub.neg()` is made structural with the flag `n` = "count the negation of this
  pointer" (`wmcAux_true : wmcAux p true = wmc p.neg`).
* `Sdd.evaluate` is `DDNNFPtr::evaluate`: the count in the Boolean semiring with weights
  `(!b, b)`.
* `Sdd.semanticHash` is `DDNNFPtr::semantic_hash` (the count over `FiniteField<P>`).
* `Sdd.hashTree` is the *other* hash computation of the Rust: `SddPtr::cached_semantic_hash` /
  `BinarySDD::semantic_hash` / `SddOr::semantic_hash` / `SddAnd::semantic_hash`
  (`src/repr/sdd.rs`, `src/repr/sdd/{binary_sdd,sdd_or}.rs`) without the per-node cache: a
  complemented pointer is `negate` of the regular one, a binary node is
  `low · low_w + high · high_w`, a decision node is `FiniteField::new(Σ (prime · sub).value())`
  (a plain `u128` sum reduced once).  This is the hash the semantic builder uses.
* `Sdd.cachedHash` adds the per-node `semantic_hash : RefCell<Option<u128>>` cache over a node
  store (never cleared, not keyed by the weight map), the SDD analogue of `Scratch.cachedHash`.

Core Lean only (linked into the driver executable).
-/
namespace Sdd
open Spec

/-! ## the fold -/

mutual
/-- `bottomup_pass_h` specialised to `unsmoothed_wmc`; `n` = "this pointer is to be negated first" -/
def wmcAux {α : Type} (S : SROps α) (w : Weights α) : Ptr → Bool → α
  | .tru, n => if n then S.zero else S.one
  | .fls, n => if n then S.one else S.zero
  | .lit v pol, n => if xor pol n then (w v).2 else (w v).1
  | .bdd c l _ lo hi, n =>
    S.add (S.add S.zero (S.mul (w l).2 (wmcAux S w hi (xor c n))))
      (S.mul (w l).1 (wmcAux S w lo (xor c n)))
  | .dec c _ es, n => wmcElems S w (xor c n) es S.zero
/-- the `for and in ptr.node_iter()` loop: `m` = `ptr.is_neg()`, the last argument is `or_v` -/
def wmcElems {α : Type} (S : SROps α) (w : Weights α) (m : Bool) : List (Ptr × Ptr) → α → α
  | [], acc => acc
  | (p, s) :: rest, acc =>
    wmcElems S w m rest (S.add acc (S.mul (wmcAux S w p false) (wmcAux S w s m)))
end

/-- `unsmoothed_wmc` -/
def wmc {α : Type} (S : SROps α) (w : Weights α) (p : Ptr) : α := wmcAux S w p false

/-- the Boolean semiring of `evaluate` -/
def boolOps : SROps Bool := ⟨false, true, (· || ·), (· && ·)⟩

/-- `DDNNFPtr::evaluate` -/
def evaluate (p : Ptr) (inst : Assign) : Bool := wmc boolOps (fun v => (!(inst v), inst v)) p

/-- `DDNNFPtr::semantic_hash::<P>` -/
def semanticHash (P : Nat) (w : Weights Nat) (p : Ptr) : Nat := wmc (Sem.ffOps P) w p

/-! ## `cached_semantic_hash` without the cache -/

mutual
/-- `SddPtr::cached_semantic_hash` on a tree (every cache miss) -/
def hashTree (P : Nat) (w : Weights Nat) : Ptr → Nat
  | .tru => Sem.ffNew P 1
  | .fls => Sem.ffNew P 0
  | .lit v pol => if pol then (w v).2 else (w v).1
  | .bdd c l _ lo hi =>
    let h := Sem.ffAdd P (Sem.ffMul P (hashTree P w lo) (w l).1) (Sem.ffMul P (hashTree P w hi) (w l).2)
    if c then Sem.ffNegate P h else h
  | .dec c _ es =>
    let h := Sem.ffNew P (hashElems P w es)
    if c then Sem.ffNegate P h else h
/-- `nodes.iter().map(|and| and.semantic_hash(..).value()).sum()` (a `u128` sum) -/
def hashElems (P : Nat) (w : Weights Nat) : List (Ptr × Ptr) → Nat
  | [] => 0
  | (p, s) :: rest => Sem.ffMul P (hashTree P w p) (hashTree P w s) + hashElems P w rest
end

/-! ## the per-node cache over a node store

References, nodes and the store follow `Scratch` (newest node first; the head of `n :: rest` has
index `rest.length` and its children are resolved in `rest`). -/

inductive Ref where
  | tru | fls
  | lit (v : Nat) (pol : Bool)
  | reg (i : Nat)
  | compl (i : Nat)
deriving DecidableEq, Repr, Inhabited

inductive Node where
  | bdd (label idx : Nat) (lo hi : Ref)
  | dec (idx : Nat) (elems : List (Ref × Ref))
deriving Repr, Inhabited

abbrev Store := List Node

/-- one `semantic_hash` field per node -/
abbrev HashCache := Nat → Option Nat

/-- a dangling reference is read as a constant, as in `Scratch.unfold` -/
def Ref.leafPtr : Ref → Ptr
  | .tru | .compl _ => .tru
  | .fls | .reg _ => .fls
  | .lit v pol => .lit v pol

/-- a node with its children resolved by `f` -/
def unfoldNodeWith (f : Ref → Ptr) : Node → Bool → Ptr
  | .bdd l idx lo hi, c => .bdd c l idx (f lo) (f hi)
  | .dec idx es, c => .dec c idx (es.map fun e => (f e.1, f e.2))

/-- the tree a reference denotes -/
def unfold : Store → Ref → Ptr
  | [], r => r.leafPtr
  | n :: rest, r =>
    match r with
    | .reg i => if i = rest.length then unfoldNodeWith (unfold rest) n false else unfold rest r
    | .compl i => if i = rest.length then unfoldNodeWith (unfold rest) n true else unfold rest r
    | r => r.leafPtr

/-- the `u128` sum of `SddAnd::semantic_hash` over the elements; `f` is
`cached_semantic_hash` on the children -/
def cachedElemsWith (P : Nat) (f : Ref → HashCache → Nat × HashCache) :
    List (Ref × Ref) → HashCache → Nat × HashCache
  | [], c => (0, c)
  | (p, s) :: es, c =>
    let a := f p c
    let b := f s a.2
    let r := cachedElemsWith P f es b.2
    (Sem.ffMul P a.1 b.1 + r.1, r.2)

/-- `BinarySDD::cached_semantic_hash` / `SddOr::cached_semantic_hash` of node `i` -/
def cachedNodeWith (P : Nat) (w : Weights Nat) (f : Ref → HashCache → Nat × HashCache) :
    Node → Nat → HashCache → Nat × HashCache
  | .bdd l _ lo hi, i, c =>
    match c i with
    | some h => (Sem.ffNew P h, c)
    | none =>
      let a := f lo c
      let b := f hi a.2
      let v := Sem.ffAdd P (Sem.ffMul P a.1 (w l).1) (Sem.ffMul P b.1 (w l).2)
      (v, fun j => if j = i then some v else b.2 j)
  | .dec _ es, i, c =>
    match c i with
    | some h => (Sem.ffNew P h, c)
    | none =>
      let a := cachedElemsWith P f es c
      let v := Sem.ffNew P a.1
      (v, fun j => if j = i then some v else a.2 j)

/-- `SddPtr::cached_semantic_hash::<P>`: a regular pointer reads its node's cache (whatever prime
and weight map filled it) or computes and stores; a complemented pointer negates the regular
pointer's hash -/
def cachedHash (P : Nat) (w : Weights Nat) : Store → Ref → HashCache → Nat × HashCache
  | _, .tru, c => (Sem.ffNew P 1, c)
  | _, .fls, c => (Sem.ffNew P 0, c)
  | _, .lit v pol, c => (if pol then (w v).2 else (w v).1, c)
  | [], .reg _, c => (Sem.ffNew P 0, c)
  | [], .compl _, c => (Sem.ffNew P 1, c)
  | n :: rest, .reg i, c =>
    if i = rest.length then cachedNodeWith P w (cachedHash P w rest) n i c
    else cachedHash P w rest (.reg i) c
  | n :: rest, .compl i, c =>
    if i = rest.length then
      let a := cachedNodeWith P w (cachedHash P w rest) n i c
      (Sem.ffNegate P a.1, a.2)
    else cachedHash P w rest (.compl i) c

/-- a sequence of `cached_semantic_hash` calls on roots of one store, threading the cache -/
def cachedHashes (P : Nat) (w : Weights Nat) (s : Store) : List Ref → HashCache → List Nat × HashCache
  | [], c => ([], c)
  | r :: rs, c =>
    let a := cachedHash P w s r c
    let b := cachedHashes P w s rs a.2
    (a.1 :: b.1, b.2)

end Sdd
