import RsddModel.Model.BddCompile
import RsddModel.Model.Sdd
/-!
# Model: bottom-up compilation with the SDD builder

* `Sdd.ops` plugs the SDD builder model (`Model/Sdd`) into the record `Compile.Ops` of builder
  operations, so that the generic `Compile.compileExpr`, `Compile.compilePlan` of
  `Model/BddCompile` ARE `compile_logical_expr` / `compile_plan` of the SDD builder (they are
  default methods of the trait `BottomUpBuilder` in `src/builder/mod.rs`, generic in the builder in
  the Rust too).  The state is the pair (apply cache, ite cache), threaded as `bIte` does;
  `and`/`or` only touch the apply cache (`liftA`).
* `Sdd.compileCnf` mirrors the SDD-specific `compile_cnf` and `compile_cnf_helper` of
  `src/builder/sdd/builder.rs` directly on the apply-cache state (these functions call nothing
  but `and` and the default `or`, which never look at the ite cache):
  empty formula → `true`; some empty clause → `false`; `sort_by`; per clause
  `bdd = Var(lit_vec[0]); for lit in lit_vec { bdd = or(bdd, Var(lit)) }` (the first literal is
  disjoined a second time); `compile_cnf_helper`: `None` for the empty slice, the element for a
  singleton, otherwise split at `len / 2` and `and` the halves; `None → true`.
  `Lemmas/SddCompile.compileCnf_eq_generic` shows it coincides with the generic
  `Compile.compileCnf` instantiated with `Sdd.ops`.
* the clause permutation of `compile_cnf` is a PARAMETER, exactly as for the ROBDD builder: the
  comparator handed to `sort_by` answers only `Less`/`Equal`, which is not a total order, so the
  resulting order is unspecified.  `compileCnf` takes the ALREADY PERMUTED clause list, and the
  theorems quantify over every permutation.  `sortClausesSdd` is what the current `std` does:
  `sort_by` only asks `compare a b == Less`, i.e. `key a < key b` with `key c` = the vtree index
  (`var_index`) of the LAST literal of `c` (`max_by` with a comparator that never answers `Greater`
  keeps the last element; `is_prime_var a b` is `var_index a < var_index b`), and it is stable.
* `none` = fuel ran out in a builder operation, or a panic of the Rust (`lit_vec[0]` on an empty
  clause — unreachable, the empty clause is caught earlier).
-/
namespace Sdd
open Spec Compile

/-! ## `count_nodes` (the `size` field of `Compile.Ops`; not used by the compile functions of
the SDD builder) -/

mutual
/-- `count_h` of `SddPtr::count_nodes` (`src/repr/sdd.rs`): constants and literals count `0`; a
node already marked counts `0` (the scratch mark lives on the node, so the complement bit of the
pointer is ignored); a binary node counts `1 + low + 1 + high`; a decision node counts, per
element, `sub + prime + 1` -/
def countH : Ptr → List Ptr → Nat × List Ptr
  | .bdd _ l i lo hi, seen =>
    let k := Ptr.bdd false l i lo hi
    if k ∈ seen then (0, seen)
    else
      let a := countH lo (k :: seen)
      let b := countH hi a.2
      (1 + a.1 + 1 + b.1, b.2)
  | .dec _ i es, seen =>
    let k := Ptr.dec false i es
    if k ∈ seen then (0, seen) else countElems es (k :: seen)
  | _, seen => (0, seen)
def countElems : List (Ptr × Ptr) → List Ptr → Nat × List Ptr
  | [], seen => (0, seen)
  | (p, s) :: rest, seen =>
    let a := countH s seen
    let b := countH p a.2
    let c := countElems rest b.2
    (a.1 + b.1 + 1 + c.1, c.2)
end

/-- `SddPtr::count_nodes` -/
def countNodes (p : Ptr) : Nat := (countH p []).1

/-! ## the SDD builder as a record of operations -/

section
variable (A : CacheImpl (Ptr × Ptr)) (I : CacheImpl (Ptr × Ptr × Ptr)) (cfg : Config) (fuel : Nat)

/-- attach the (untouched) ite-cache state to the result of an apply-cache operation -/
def withIte {A : CacheImpl (Ptr × Ptr)} {I : CacheImpl (Ptr × Ptr × Ptr)} {α : Type} (i : I.σ) :
    Option (A.σ × α) → Option ((A.σ × I.σ) × α)
  | none => none
  | some (a, r) => some ((a, i), r)

/-- an operation that only uses the apply cache, on the pair of cache states -/
def liftA {A : CacheImpl (Ptr × Ptr)} {I : CacheImpl (Ptr × Ptr × Ptr)} (f : AndF A.σ)
    (s : A.σ × I.σ) (p q : Ptr) : Option ((A.σ × I.σ) × Ptr) :=
  withIte s.2 (f s.1 p q)

/-- the SDD builder (`impl BottomUpBuilder for T : SddBuilder`, `src/builder/sdd/builder.rs`) as
a record of operations: `var` is `SddPtr::Var(label, polarity)` (no range check), `negate` is
`neg`, `or` is the trait default (De Morgan through `and`), `iff f g = ite f g ¬g`,
`xor f g = ite f ¬g g` -/
def ops : Ops (A.σ × I.σ) Ptr where
  tru := .tru
  fls := .fls
  var := fun x pol => .lit x pol
  neg := Ptr.neg
  and := liftA (bAnd A cfg fuel)
  or := liftA (bOr A cfg fuel)
  iff := bIff A I cfg fuel
  xor := bXor A I cfg fuel
  ite := bIte A I cfg fuel
  size := countNodes

/-! ## `compile_cnf`, `compile_cnf_helper` (`src/builder/sdd/builder.rs`) -/

/-- the inner loop of `compile_cnf`: `bdd = self.or(bdd, SddPtr::Var(lit))` for every literal -/
def clauseLoop : A.σ → Ptr → Clause → Option (A.σ × Ptr)
  | s, acc, [] => some (s, acc)
  | s, acc, l :: ls =>
    match bOr A cfg fuel s acc (.lit l.var l.pol) with
    | none => none
    | some (s1, r) => clauseLoop s1 r ls

/-- the outer loop of `compile_cnf`: every clause starts from `Var(lit_vec[0])` and then disjoins
ALL its literals (the first one a second time); `lit_vec[0]` panics on an empty clause -/
def clausesLoop : A.σ → List Clause → Option (A.σ × List Ptr)
  | s, [] => some (s, [])
  | _, [] :: _ => none
  | s, (l :: ls) :: cs =>
    match clauseLoop A cfg fuel s (.lit l.var l.pol) (l :: ls) with
    | none => none
    | some (s1, p) =>
      match clausesLoop s1 cs with
      | none => none
      | some (s2, ps) => some (s2, p :: ps)

/-- `compile_cnf_helper`: balanced conjunction, `vec.split_at(vec.len() / 2)`.  The first
argument bounds the recursion depth; `ps.length` is always enough
(`Lemmas/SddCompile.cnfHelper_total`). -/
def cnfHelper : Nat → A.σ → List Ptr → Option (A.σ × Option Ptr)
  | _, s, [] => some (s, none)
  | _, s, [p] => some (s, some p)
  | 0, _, _ :: _ :: _ => none
  | n + 1, s, p :: q :: ps =>
    let v := p :: q :: ps
    let k := v.length / 2
    match cnfHelper n s (v.take k) with
    | none => none
    | some (s1, subL) =>
      match cnfHelper n s1 (v.drop k) with
      | none => none
      | some (s2, subR) =>
        match subL, subR with
        | none, none => some (s2, none)
        | some x, none => some (s2, some x)
        | none, some x => some (s2, some x)
        | some x, some y =>
          match bAnd A cfg fuel s2 x y with
          | none => none
          | some (s3, r) => some (s3, some r)

/-- `compile_cnf` on the apply-cache state, for the ALREADY PERMUTED clause list `cs` (the two
early returns do not depend on the permutation) -/
def compileCnfA (s : A.σ) (cs : Cnf) : Option (A.σ × Ptr) :=
  if cs.isEmpty then some (s, .tru)
  else if cs.any List.isEmpty then some (s, .fls)
  else
    match clausesLoop A cfg fuel s cs with
    | none => none
    | some (s1, ps) =>
      match cnfHelper A cfg fuel ps.length s1 ps with
      | none => none
      | some (s2, none) => some (s2, .tru)
      | some (s2, some r) => some (s2, r)

/-- `SddBuilder::compile_cnf` on the builder state (pair of caches; the ite cache is not
touched), for the already permuted clause list -/
def compileCnf (s : A.σ × I.σ) (cs : Cnf) : Option ((A.σ × I.σ) × Ptr) :=
  withIte s.2 (compileCnfA A cfg fuel s.1 cs)

end

/-! ## the clause permutation of the current `std` -/

/-- `VTreeManager::var_index` as a level map (a label outside the vtree reads a foreign slot or
panics in the Rust; `0` here, as in `vtreeIndex`) -/
def varIdx (vt : VTree) (v : Nat) : Nat := (vt.varIndex? 0 v).getD 0

/-- what `sort_by` does with the `Less`/`Equal` comparator of the SDD `compile_cnf` in the current
`std`: the stable sort by the vtree index of the clause's LAST literal -/
def sortClausesSdd (vt : VTree) (cs : List Clause) : List Clause := sortClauses (varIdx vt) cs

/-! ## executable entry points for differential testing (list caches, fresh builder) -/

abbrev LA := ListCache (Ptr × Ptr)
abbrev LI := ListCache (Ptr × Ptr × Ptr)

/-- `SddBuilder::compile_cnf` under the vtree `vt`, clause permutation as in the current `std` -/
def runCompileCnf (vt : VTree) (cmpr : Bool) (cs : Cnf) (fuel : Nat := 4096) : Option Ptr :=
  (compileCnf LA LI ⟨vt, cmpr⟩ fuel (LA.empty, LI.empty) (sortClausesSdd vt cs)).map (·.2)

/-- the same for an explicitly given clause permutation -/
def runCompileCnfPermuted (vt : VTree) (cmpr : Bool) (permuted : Cnf) (fuel : Nat := 4096) :
    Option Ptr :=
  (compileCnf LA LI ⟨vt, cmpr⟩ fuel (LA.empty, LI.empty) permuted).map (·.2)

def runCompileExpr (vt : VTree) (cmpr : Bool) (e : LogicalExpr) (fuel : Nat := 4096) : Option Ptr :=
  (Compile.compileExpr (ops LA LI ⟨vt, cmpr⟩ fuel) (LA.empty, LI.empty) e).map (·.2)

def runCompilePlan (vt : VTree) (cmpr : Bool) (p : Plan) (fuel : Nat := 4096) : Option Ptr :=
  (Compile.compilePlan (ops LA LI ⟨vt, cmpr⟩ fuel) (LA.empty, LI.empty) p).map (·.2)

/-- `compile_plan(BottomUpPlan::from_dtree(t))` -/
def runCompileDtree (vt : VTree) (cmpr : Bool) (t : DTree) (fuel : Nat := 4096) : Option Ptr :=
  runCompilePlan vt cmpr (Plan.fromDtree t) fuel

end Sdd
